package proxy

// C17 — groups added by the coverage extension:
//
//	bigindex — forbidden-prompt / cache indexes of 40..2000 random unit vectors (uniform or in tight clusters):
//	           the gateway's nearest-neighbour lookups (k=1 for the firewall, k=5 for the cache) run on an index
//	           that is not a handful of orthogonal vectors. Same oracle as everywhere: brute force over the model.
//	paging   — /cache/invalidate on a cache index of more than 1000 entries (the handler scans page by page), with
//	           entries deleted in between; observed through the index listing and through re-asked requests.

import (
	"fmt"
	"time"

	"github.com/sanonone/kektordb/internal/zzverif/vkit"
	"github.com/sanonone/kektordb/pkg/core/distance"
)

func c17Gauss(r *vkit.Rand) []float32 {
	v := make([]float32, c17Dim)
	for i := range v {
		v[i] = float32(r.NormFloat64())
	}
	return c17Unit(v)
}

// c17Orth returns a random unit vector orthogonal to the unit vector a.
func c17Orth(r *vkit.Rand, a []float32) []float32 {
	p := c17Gauss(r)
	var dot float64
	for i := range p {
		dot += float64(p[i]) * float64(a[i])
	}
	for i := range p {
		p[i] = float32(float64(p[i]) - dot*float64(a[i]))
	}
	return c17Unit(p)
}

// c17CosAt: cosine between two unit vectors whose distance (cosine distance, or plain L2 for euclidean) is d.
func c17CosAt(m distance.DistanceMetric, d float64) float64 {
	if m == distance.Cosine {
		return 1 - d
	}
	return 1 - d*d/2
}

// c17Cloud draws n unit vectors: uniform on the sphere, or in 5..10 tight clusters (every member within T/64
// — cosine distance, or T/16 in plain L2 — of its centre, so that a query within T/8 of a member is within T/2 of
// all members of that cluster).
func c17Cloud(r *vkit.Rand, n int, clustered bool, m distance.DistanceMetric, T float64) [][]float32 {
	out := make([][]float32, 0, n)
	if !clustered {
		for i := 0; i < n; i++ {
			out = append(out, c17Gauss(r))
		}
		return out
	}
	var centres [][]float32
	for i, c := 0, r.Range(5, 10); i < c; i++ {
		centres = append(centres, c17Gauss(r))
	}
	rad := T / 64
	if m != distance.Cosine {
		rad = T / 16
	}
	for i := 0; i < n; i++ {
		c := centres[i%len(centres)]
		out = append(out, c17Rotate(c, c17Orth(r, c), c17CosAt(m, rad*r.Float64())))
	}
	return out
}

// nearOf designs a query near the stored vector a (which may belong to a cluster): identical, or at 1/16, 1/8
// of the threshold (uniform layout also at 1/2 * {0.25, 0.6, 1}).
func (g *c17Rig) nearOf(a []float32, m distance.DistanceMetric, T float64, clustered bool) ([]float32, string) {
	r := g.cs.R
	pos := []float64{0, 1.0 / 16, 1.0 / 8}
	if !clustered {
		pos = append(pos, 0.125, 0.3, 0.5)
	}
	for try := 0; try < 4; try++ {
		u := vkit.Pick(r, pos)
		v := a
		if u > 0 {
			v = c17Rotate(a, c17Orth(r, a), c17CosAt(m, u*T))
		}
		if g.designed(v) {
			return v, fmt.Sprintf("near(%.3gT)", u)
		}
		g.ctx.Count("gen.undesigned_discarded", 1)
	}
	return nil, ""
}

func (g *c17Rig) farOfAll() []float32 {
	for try := 0; try < 4; try++ {
		if v := c17Gauss(g.cs.R); g.designed(v) {
			return v
		}
		g.ctx.Count("gen.undesigned_discarded", 1)
	}
	return nil
}

func c17BigIndexCase(ctx *vkit.Ctx, cs *vkit.Case) {
	r := cs.R
	sizes := []int{40, 80, 150, 300}
	if !ctx.Quick() {
		sizes = append(sizes, 300, 600, 1200, 2000)
	}
	n := vkit.Pick(r, sizes)
	clustered := r.Chance(0.5)
	metric := c17PickMetric(r)
	T := vkit.Pick(r, []float64{0.05, 0.1, 0.25}) // random unit vectors of 128 components are >= 2T apart for these
	mode := vkit.Pick(r, []string{"firewall", "cache"})
	layout := "uniform"
	if clustered {
		layout = "clustered"
	}
	o := c17Opts{FwMetric: metric, Tf: T, FwIndexCreated: true, CacheMetric: distance.Cosine, Tc: T, TTL: vkit.Pick(r, []time.Duration{time.Hour, 24 * time.Hour})}
	if mode == "firewall" {
		o.FirewallEnabled = true
		if r.Chance(0.4) {
			o.FwMem = c17PickMem(r)
		}
	} else {
		o.CacheEnabled = true
		if r.Chance(0.5) {
			o.CacheMetric, o.CacheLang = metric, "english"
			if r.Chance(0.5) {
				o.CacheMem = c17PickMem(r)
			}
		}
	}
	g := c17NewRig(ctx, cs, o)
	defer g.close()
	ctx.Count(fmt.Sprintf("bigindex.%s.%s.n", mode, layout), int64(n))

	if mode == "firewall" {
		cloud := c17Cloud(r, n, clustered, metric, T)
		cs.Op("firewall index += %d %s random unit vectors bad_0..bad_%d", n, layout, n-1)
		for i, v := range cloud {
			meta := map[string]any{"text": fmt.Sprintf("forbidden prompt %d", i)}
			o.FwMem.stamp(r, meta) // memory index: every stored prompt has its own age
			g.must(g.eng.VAdd(c17FwIndex, fmt.Sprintf("bad_%d", i), v, meta), "add forbidden prompt")
			g.forbidden = append(g.forbidden, c17Stored{ID: fmt.Sprintf("bad_%d", i), Vec: v})
			if i%64 == 0 {
				ctx.Touch()
			}
		}
		for s, steps := 0, r.Range(14, 22); s < steps; s++ {
			q := &c17Req{Kind: "big-benign", Shape: vkit.Pick(r, []string{"messages", "messages", "prompt"}), NearFw: -1, Stream: r.Chance(0.2)}
			q.Text = g.text("", "", "")
			switch {
			case r.Chance(0.65):
				if s%5 == 4 && len(g.liveForbidden()) > 1 { // some history: the index is not only grown
					g.deleteForbidden(vkit.Pick(r, g.liveForbidden()))
				}
				live := g.liveForbidden()
				q.NearFw = vkit.Pick(r, live)
				v, label := g.nearOf(g.forbidden[q.NearFw].Vec, metric, T, clustered)
				if v == nil {
					continue
				}
				q.Vec, q.Kind = v, "big-semantic/"+layout+"/"+label
			default:
				if q.Vec = g.farOfAll(); q.Vec == nil {
					continue
				}
				q.Kind = "big-benign/" + layout
			}
			g.step("bigindex", q)
		}
		return
	}

	// cache: n planted entries, 85% young
	cm := g.cacheMetric()
	cloud := c17Cloud(r, n, clustered, cm, T)
	for i, v := range cloud {
		g.plant(v, fmt.Sprintf(`{"planted":"answer %d"}`, i), !r.Chance(0.15), nil)
		if i%64 == 0 {
			ctx.Touch()
		}
	}
	for s, steps := 0, r.Range(14, 22); s < steps; s++ {
		q := &c17Req{Kind: "big-far", Shape: vkit.Pick(r, []string{"messages", "messages", "prompt"}), NearFw: -1}
		q.Text = g.text("", "", "")
		if r.Chance(0.7) {
			en := vkit.Pick(r, g.entries)
			if en.Removed {
				continue
			}
			v, label := g.nearOf(en.Vec, cm, T, clustered)
			if v == nil {
				continue
			}
			q.Vec, q.Kind = v, "big-near/"+layout+"/"+label
			q.Stream = r.Chance(0.1)
		} else {
			if q.Vec = g.farOfAll(); q.Vec == nil {
				continue
			}
			q.Kind = "big-far/" + layout
		}
		g.step("bigindex", q)
	}
}

// ---------------------------------------------------------------------------------------
// group: expiry
//
// "... a previously answered one (younger than the TTL)": the other groups judge the TTL on entries the check
// plants with a creation time of its choice. Here the entries are the ones the gateway stores itself (request
// forwarded, answered 200, saved), the TTL is a few seconds and the case waits in real time until the harness clock
// says that every one of them is older than the TTL (plus the 5 s margin of ageClass). From then on a request within
// the cache distance of such an answer must reach the upstream again; its new answer is "previously answered" and
// — while still decisively young (TTL 12 s) — is the one that must be served next.
func c17ExpiryCase(ctx *vkit.Ctx, cs *vkit.Case) {
	r := cs.R
	o := c17Opts{CacheEnabled: true, Tc: vkit.Pick(r, c17Thresholds), TTL: vkit.Pick(r, []time.Duration{2 * time.Second, 2 * time.Second, 3 * time.Second, 12 * time.Second}),
		CacheMetric: distance.Cosine, FwMetric: distance.Cosine, Tf: 0.25}
	if r.Chance(0.35) {
		o.CacheMetric = c17PickMetric(r)
		o.CacheLang = vkit.Pick(r, []string{"english", "italian"})
		if r.Chance(0.4) {
			o.CacheMem = c17PickMem(r)
		}
	}
	o.ViaYAML, o.OmitDefaults = r.Chance(0.3), r.Chance(0.5)
	o.CacheUnlimited = r.Chance(0.35) // max_cache_items: 0 = the documented "unlimited"
	g := c17NewRig(ctx, cs, o)
	defer g.close()
	cm := g.cacheMetric()
	ask := func(kind string, v []float32) bool {
		q := &c17Req{Kind: kind, Shape: vkit.Pick(r, []string{"messages", "messages", "prompt"}), NearFw: -1, Text: g.text("", "", ""), Vec: v}
		_, ok := g.step("expiry", q)
		return ok
	}
	// 1. answers stored by the gateway (and, sometimes, one planted now: it expires together with them)
	for i, n := 0, r.Range(1, 3); i < n; i++ {
		ask("expiry-new", g.sp.basis())
	}
	if r.Chance(0.3) {
		g.seq++
		g.plantAged(g.sp.basis(), fmt.Sprintf(`{"planted":"answer %d"}`, g.seq), 0, nil)
	}
	stored := append([]*c17Entry(nil), g.entries...)
	// 2. while they are decisively young they are served (decidable for the TTL of 12 s only; a request the
	// harness clock cannot decide is dropped by the generator guard)
	for _, en := range stored {
		if r.Chance(0.5) {
			if v, label := g.vecRel(en.Vec, cm, o.Tc, true); v != nil {
				ask("expiry-near-young/"+label, v)
			}
		}
	}
	// 3. real time passes
	g.waitAllExpired()
	ctx.Count("expiry.waits", 1)
	// 4. every stored answer is now older than the TTL
	for i, en := range stored {
		if i > 0 && !r.Chance(0.8) {
			continue
		}
		v, label := g.vecRel(en.Vec, cm, o.Tc, true)
		if v == nil {
			continue
		}
		kind := "expiry-near-expired"
		if en.Planted {
			kind = "expiry-near-expired-planted"
		}
		before := len(g.entries)
		if ask(kind+"/"+label, v) && len(g.entries) > before && r.Chance(0.7) {
			// the answer just given is the stored one from now on (judged while the clock can tell it is young)
			if nv, nl := g.vecRel(g.entries[len(g.entries)-1].Vec, cm, o.Tc, true); nv != nil {
				ask("expiry-reask/"+nl, nv)
			}
		}
	}
}

// ---------------------------------------------------------------------------------------
// group: paging

func c17PagingCase(ctx *vkit.Ctx, cs *vkit.Case) {
	r := cs.R
	o := c17Opts{CacheEnabled: true, Tc: vkit.Pick(r, []float64{0.05, 0.1, 0.25}), TTL: 24 * time.Hour, CacheMetric: distance.Cosine, FwMetric: distance.Cosine, Tf: 0.25}
	if r.Chance(0.5) {
		o.CacheLang = "english"
	}
	g := c17NewRig(ctx, cs, o)
	defer g.close()
	n := 1100 + r.Range(3, ctx.N(100, 400)) // (a page holds 1000 live entries: the deleted ones of the first thousand do not count)
	if !ctx.Quick() && r.Chance(0.3) {
		n = 2000 + r.Range(1, 100)
	}
	docs := []string{"docs/a.md_0", "docs/a.md_1", "docs/b.md_0", "chunk_1", "chunk_10"}
	doc := vkit.Pick(r, docs)
	ctx.Count("paging.entries", int64(n))
	// the document is cited by a few entries of every page; which ones is drawn per entry
	var citing, deleted int
	for i := 0; i < n; i++ {
		var src []string
		for _, d := range docs {
			p := 0.02
			if d == doc && i >= 1000 {
				p = 0.1 // ... and more densely beyond the first page
			}
			if r.Chance(p) || d == doc && (i == n-1 || i == 1001) { // ... and in any case by the last entry
				src = append(src, d)
			}
		}
		g.plant(c17Gauss(r), fmt.Sprintf(`{"planted":"answer %d"}`, i), true, src)
		if i%64 == 0 {
			ctx.Touch()
		}
	}
	// entries deleted before the invalidation leave tombstones that the handler's cursor walks over
	for i := 0; i < n; i += r.Range(2, 40) {
		if i == n-1 || i == 1001 {
			continue
		}
		en := g.entries[i]
		g.must(g.eng.VDelete(c17CacheIndex, en.ID), "delete cache entry")
		en.Removed = true
		deleted++
	}
	for _, en := range g.entries {
		for _, s := range en.Sources {
			if s == doc && !en.Removed {
				citing++
			}
		}
	}
	cs.Op("cache index: %d planted entries, %d deleted again, %d cite %q", n, deleted, citing, doc)
	cited, kept := g.invalidate(doc)
	ctx.Eval(1)
	ctx.Count("invalidate.calls", 1)
	ctx.Count("paging.entries_cited", int64(cited))
	ctx.Count("paging.entries_kept", int64(kept))
	ctx.Distinct(fmt.Sprintf("paging|pages=%d|lang=%q|cited>0=%v", (n+999)/1000, o.CacheLang, cited > 0))
	// afterwards, through the gateway: removed answers are not served any more, the others still are
	var removedOnes, keptOnes []*c17Entry
	for i := len(g.entries) - 1; i >= 0; i-- { // from the last page backwards
		en := g.entries[i]
		cites := false
		for _, s := range en.Sources {
			cites = cites || s == doc
		}
		if cites && en.Removed && len(removedOnes) < 4 {
			removedOnes = append(removedOnes, en)
		}
		if !en.Removed && len(keptOnes) < 3 {
			keptOnes = append(keptOnes, en)
		}
	}
	for _, en := range append(removedOnes, keptOnes...) {
		kind := "paging-reask-kept"
		if en.Removed {
			kind = "paging-reask-removed"
		}
		v, label := g.nearOf(en.Vec, distance.Cosine, o.Tc, false)
		if v == nil {
			continue
		}
		g.step("paging", &c17Req{Kind: kind + "/" + label, Shape: "messages", Path: "/v1/chat/completions", NearFw: -1, Text: g.text("", "", ""), Vec: v})
	}
}

// ---------------------------------------------------------------------------------------
// probes of the findings made by the extension

func c17ProbesExt(ctx *vkit.Ctx) {
	chat := "/v1/chat/completions"

	// D-C17-8: checkCache inspects the cacheLookupK = 5 nearest entries only; when all of them are expired the
	// request is a miss although a fresh answer lies within the cache distance too.
	ctx.Probe("D-C17-8", func(cs *vkit.Case) string {
		o := c17Opts{CacheEnabled: true, Tc: 0.25, TTL: time.Hour, CacheMetric: distance.Cosine, FwMetric: distance.Cosine, Tf: 0.25}
		run := func(k int) string {
			return c17Sub(ctx, cs, fmt.Sprintf("T=0.25 TTL=1h: fresh answer at a; %d expired entries (3 h old) within cosine distance 0.03 of the request, which is at 0.075 of a", k), o, func(g *c17Rig) {
				a := g.sp.basis()
				g.judge(&c17Req{Kind: "probe-first", Text: "what is the capital of italy", Vec: a, Shape: "messages", Path: chat, NearFw: -1})
				vs := g.shadowVectors(a, distance.Cosine, k)
				if vs == nil {
					g.failf("HARNESS: probe geometry undesigned")
				}
				for i, v := range vs {
					g.plantAged(v, fmt.Sprintf(`{"planted":"expired %d"}`, i), 3*time.Hour, nil)
				}
				g.judge(&c17Req{Kind: "probe-shadowed", Text: "capital of italy?", Vec: vs[0], Shape: "messages", Path: chat, NearFw: -1})
			})
		}
		return c17Join(run(5), run(8))
	})

	// D-C17-9: sources are stored joined by blanks and split at white space again, so an id that contains a
	// blank ("<path>_<n>" of a file whose path has one) is never matched by /cache/invalidate.
	ctx.Probe("D-C17-9", func(cs *vkit.Case) string {
		o := c17Opts{CacheEnabled: true, Tc: 0.1, TTL: time.Hour, CacheMetric: distance.Cosine, FwMetric: distance.Cosine, Tf: 0.25, RAG: true, RAGTopK: 1}
		return c17Sub(ctx, cs, `RAG on, the answer is produced from chunk "docs/My File.md_0"; invalidate "docs/My File.md_0"`, o, func(g *c17Rig) {
			c := g.sp.basis()
			g.addChunk("docs/My File.md_0", c)
			g.addChunk("docs/b.md_0", g.sp.basis())
			g.judge(&c17Req{Kind: "probe-rag", Text: "what does my file say", Vec: c17Rotate(c, g.sp.basis(), 0.6), Shape: "messages", Path: chat, NearFw: -1})
			if len(g.entries) != 1 || g.entries[0].ID == "" || len(g.entries[0].Sources) != 1 || g.entries[0].Sources[0] != "docs/My File.md_0" {
				g.failf("HARNESS: expected one saved entry citing the chunk, have %d entries", len(g.entries))
			}
			g.invalidate("docs/My File.md_0")
		})
	})

	// D-C17-10: the firewall's nearest-neighbour lookup is a k=1 search, for which the engine's beam is one
	// candidate wide; on an index of a thousand forbidden prompts it misses even an identical stored prompt.
	// (The engine draws the levels of its graph from the global random source, so which stored prompts are
	// affected differs from run to run: the probe asks the engine itself, with the same k=1 search, which
	// stored prompts it does not find by their own vector, and sends prompts with exactly those embeddings —
	// and a few others — through the gateway. About 0.6 % of the stored prompts at 1200, 2 % at 2000.)
	ctx.Probe("D-C17-10", func(cs *vkit.Case) string {
		n := ctx.N(1200, 2000)
		o := c17Opts{FirewallEnabled: true, FwMetric: distance.Cosine, Tf: 0.25, FwIndexCreated: true, Tc: 0.1, TTL: time.Hour, CacheMetric: distance.Cosine}
		return c17Sub(ctx, cs, fmt.Sprintf("cosine T=0.25, %d random forbidden prompts (128 components), prompts with the embedding of one of them", n), o, func(g *c17Rig) {
			r := vkit.NewRand(17, 10) // fixed vectors, independent of VERIF_SEED
			for i := 0; i < n; i++ {
				v := c17Gauss(r)
				g.must(g.eng.VAdd(c17FwIndex, fmt.Sprintf("bad_%d", i), v, map[string]any{"text": fmt.Sprintf("forbidden prompt %d", i)}), "add forbidden prompt")
				g.forbidden = append(g.forbidden, c17Stored{ID: fmt.Sprintf("bad_%d", i), Vec: v})
				if i%64 == 0 {
					ctx.Touch()
				}
			}
			var pick []int
			for i := 0; i < n && len(pick) < 12; i++ {
				res, err := g.eng.VSearchWithScores(c17FwIndex, g.forbidden[i].Vec, 1)
				if err != nil || len(res) == 0 || res[0].ID != g.forbidden[i].ID {
					pick = append(pick, i)
				}
			}
			ctx.Count("probe.D-C17-10.stored_prompts_not_found_by_k1_search", int64(len(pick)))
			for len(pick) < 20 {
				pick = append(pick, r.Intn(n))
			}
			var missed []string
			report := g.failf
			for _, k := range pick {
				q := &c17Req{Kind: "probe-identical", Text: fmt.Sprintf("forbidden prompt %d, verbatim", k), Vec: g.forbidden[k].Vec, Shape: "messages", Path: chat, NearFw: k}
				if !g.designed(q.Vec) {
					continue
				}
				func() {
					defer func() {
						if x := recover(); x != nil {
							if _, ok := x.(c17Abort); ok {
								missed = append(missed, g.forbidden[k].ID)
								return
							}
							panic(x)
						}
					}()
					if w, _ := g.judge(q); w.Outcome == "ann_miss" {
						// also the engine's beam-64 search misses this stored prompt: recall is C07's business, skipped
						ctx.Count("probe.D-C17-10.skipped_ann_miss", 1)
					}
				}()
			}
			if len(missed) > 0 {
				report("%d of %d prompts whose embedding is identical to a stored forbidden prompt were not refused (stored prompts %v)", len(missed), len(pick), missed)
			}
		})
	})
}

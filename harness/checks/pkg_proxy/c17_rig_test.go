package proxy

// C17 — shared rig: stub embedder, counting upstream, designed geometry, world model and
// the reference oracle for one request / one invalidation.

import (
	"bytes"
	"encoding/json"
	"fmt"
	"io"
	"math"
	"net/http"
	"net/http/httptest"
	"regexp"
	"runtime"
	"sort"
	"strings"
	"sync"
	"sync/atomic"
	"time"

	"github.com/sanonone/kektordb/internal/zzverif/vkit"
	"github.com/sanonone/kektordb/pkg/core/distance"
	"github.com/sanonone/kektordb/pkg/core/hnsw"
	"github.com/sanonone/kektordb/pkg/engine"
)

// ---------------------------------------------------------------------------------------
// geometry: every vector is a unit vector of c17Dim components built from basis vectors,
// so that every query/stored distance is chosen by the test.

const c17Dim = 128

type c17Space struct{ next int }

func (s *c17Space) basis() []float32 {
	if s.next >= c17Dim {
		panic("c17: out of basis dimensions (harness bug)")
	}
	v := make([]float32, c17Dim)
	v[s.next] = 1
	s.next++
	return v
}

// c17Rotate returns cos*anchor + sqrt(1-cos^2)*pert (anchor ⟂ pert, both unit).
func c17Rotate(anchor, pert []float32, cos float64) []float32 {
	if cos > 1 {
		cos = 1
	}
	if cos < -1 {
		cos = -1
	}
	sin := math.Sqrt(1 - cos*cos)
	v := make([]float32, c17Dim)
	for i := range v {
		v[i] = float32(cos*float64(anchor[i]) + sin*float64(pert[i]))
	}
	return v
}

func c17Cos(a, b []float32) float64 {
	var dot, na, nb float64
	for i := range a {
		dot += float64(a[i]) * float64(b[i])
		na += float64(a[i]) * float64(a[i])
		nb += float64(b[i]) * float64(b[i])
	}
	if na == 0 || nb == 0 {
		return 0
	}
	return dot / math.Sqrt(na*nb)
}

// c17Dist is the index's metric distance as /repo documents it: cosine = 1 - cos,
// euclidean = squared L2 (pkg/core/distance: "Euclidean represents the squared Euclidean
// distance metric").
func c17Dist(metric distance.DistanceMetric, a, b []float32) float64 {
	if metric == distance.Cosine {
		return 1 - c17Cos(a, b)
	}
	var s float64
	for i := range a {
		d := float64(a[i]) - float64(b[i])
		s += d * d
	}
	return s
}

// c17Class classifies a distance against a threshold with the factor-2 margin of the design.
// For the euclidean metric the case must be decisive under both readings of "distance"
// (squared L2, as the index reports it, and plain L2), so that the oracle never depends on
// which of the two the configuration comment means.
//
//	+1 = decisively within the threshold, -1 = decisively outside, 0 = undesigned (harness bug)
func c17Class(metric distance.DistanceMetric, d, T float64) int {
	lo, hi := d, d
	if metric != distance.Cosine {
		l2 := math.Sqrt(d)
		lo, hi = math.Min(d, l2), math.Max(d, l2)
	}
	const slack = 1e-4
	if hi <= T/2+slack {
		return +1
	}
	if lo >= 2*T-slack {
		return -1
	}
	return 0
}

// c17DesignCos returns the cosine between a query and its anchor such that the metric
// distance is decisively near (<= T/2) or decisively far (>= 2T). sel in [0,1) selects
// among a few fixed positions (identical, mid, edge of the near zone / edge of the far zone,
// orthogonal, obtuse, opposite).
func c17DesignCos(metric distance.DistanceMetric, T float64, near bool, r *vkit.Rand) (cos float64, label string) {
	if near {
		u := vkit.Pick(r, []float64{0, 0, 0.25, 0.6, 1.0}) // 0 = identical embedding
		label = fmt.Sprintf("near(u=%.2f)", u)
		if metric == distance.Cosine {
			return 1 - u*T/2, label // dcos = u*T/2
		}
		// unit vectors: L2 = sqrt(2*dcos) <= T/2  (then L2^2 < L2 because T <= 1)
		l2 := u * T / 2
		return 1 - l2*l2/2, label
	}
	// far
	opts := []string{"edge", "orth", "obtuse", "opposite"}
	k := vkit.Pick(r, opts)
	label = "far(" + k + ")"
	switch k {
	case "orth":
		return 0, label
	case "obtuse":
		return -0.5, label
	case "opposite":
		return -1, label
	}
	// edge of the far zone: distance exactly 2T (both readings for euclidean)
	if metric == distance.Cosine {
		return 1 - 2*T, label
	}
	t := 2 * T
	if t < 1 { // need L2^2 >= t (then L2 = sqrt(t) > t)
		return 1 - t/2, label
	}
	return 1 - t*t/2, label // need L2 >= t
}

// c17SimDistDisagree is the generator guard for findings D-C17-1 / D-C17-2: it is true where
// "similarity 1/(1+d) < T" (what the code computes today) and "distance d < T" (what the
// property states) give different answers, or where d sits on the boundary of the former.
func c17SimDistDisagree(d, T float64) bool {
	ref := d < T
	code := 1/(1+d) < T
	if ref != code {
		return true
	}
	b := 1/T - 1
	return math.Abs(d-b) <= 0.05*b
}

// ---------------------------------------------------------------------------------------
// stub embedder

type c17Emb struct {
	mu     sync.Mutex
	m      map[string][]float32
	misses []string
	calls  int
	sp     *c17Space
}

func (e *c17Emb) set(text string, v []float32) {
	e.mu.Lock()
	e.m[text] = v
	e.mu.Unlock()
}

// Embed returns the designed vector of text. A text the test did not design (the gateway embedded
// something else than the latest user message) gets its own fresh basis vector - far from everything
// stored - and is recorded; the oracle then judges the outcome of the request as usual.
func (e *c17Emb) Embed(text string) ([]float32, error) {
	e.mu.Lock()
	defer e.mu.Unlock()
	e.calls++
	v, ok := e.m[text]
	if !ok {
		e.misses = append(e.misses, text)
		v = e.sp.basis()
		e.m[text] = v
	}
	out := make([]float32, len(v))
	copy(out, v)
	return out, nil
}

func (e *c17Emb) EmbedBatch(texts []string) ([][]float32, error) {
	out := make([][]float32, len(texts))
	for i, t := range texts {
		v, err := e.Embed(t)
		if err != nil {
			return nil, err
		}
		out[i] = v
	}
	return out, nil
}

// ---------------------------------------------------------------------------------------
// world

type c17Opts struct {
	FirewallEnabled bool
	Deny            []string // regex sources exactly as configured
	FwMetric        distance.DistanceMetric
	Tf              float64
	FwIndexCreated  bool

	CacheEnabled bool
	CacheMetric  distance.DistanceMetric // used only when the operator pre-creates the cache index
	CacheLang    string                  // "" = index auto-created by the proxy on first save; else pre-created with this analyser
	Tc           float64
	TTL          time.Duration

	RAG     bool
	RAGTopK int
}

func (o c17Opts) String() string {
	return fmt.Sprintf("fw=%v deny=%q fwMetric=%s Tf=%g fwIdx=%v cache=%v cacheMetric=%s cacheLang=%q Tc=%g ttl=%s rag=%v topk=%d",
		o.FirewallEnabled, o.Deny, o.FwMetric, o.Tf, o.FwIndexCreated, o.CacheEnabled, o.CacheMetric, o.CacheLang, o.Tc, o.TTL, o.RAG, o.RAGTopK)
}

type c17Stored struct {
	ID  string
	Vec []float32
}

type c17Entry struct {
	ID      string // cache index id ("" if the save was never observed)
	Vec     []float32
	Body    string
	Fresh   bool // designed: created_at well inside the TTL (true) or well outside (false)
	Sources []string
	Removed bool // invalidated by the model
	Planted bool
}

type c17Rig struct {
	ctx  *vkit.Ctx
	cs   *vkit.Case
	o    c17Opts
	eng  *engine.Engine
	p    *AIProxy
	cfg  Config
	upstream http.Handler
	upN  atomic.Int64
	upMu sync.Mutex
	upBy map[int64]string // nonce -> body the upstream returned
	upRq map[int64]string // nonce -> request body the upstream received
	emb  *c17Emb
	sp   *c17Space

	denyRe    []*regexp.Regexp // reference matcher (independent compile)
	forbidden []c17Stored
	entries   []*c17Entry
	chunks    []c17Stored // RAG index content
	sent      []*c17Req
	missSeen  int
	seq       int
	failf     func(format string, a ...any) // cs.Fail in the groups; a collecting abort in probes
}

var c17RigSeq atomic.Int64

const (
	c17FwIndex    = "prompt_guard"
	c17CacheIndex = "semantic_cache"
	c17RAGIndex   = "knowledge_base"
)

func c17NewRig(ctx *vkit.Ctx, cs *vkit.Case, o c17Opts) *c17Rig {
	g := &c17Rig{ctx: ctx, cs: cs, o: o, sp: &c17Space{}, upBy: map[int64]string{}, upRq: map[int64]string{}}
	g.failf = cs.Fail
	cs.Op("world %s", o.String())
	g.emb = &c17Emb{m: map[string][]float32{}, sp: g.sp}

	// The upstream model: an http.Handler that counts requests and answers with a per-request nonce.
	// It is reached through the proxy's real httputil.ReverseProxy, whose Transport is replaced by an
	// in-process round tripper (no sockets: the check must not depend on the loopback TCP stack of a
	// loaded machine; "reaches the upstream" = the reverse proxy performed a round trip).
	g.upstream = http.HandlerFunc(func(w http.ResponseWriter, r *http.Request) {
		rb, _ := io.ReadAll(r.Body)
		n := g.upN.Add(1)
		body := fmt.Sprintf(`{"id":"up-%d","model":"stub","choices":[{"index":0,"message":{"role":"assistant","content":"answer #%d nonce=%08x"}}]}`, n, n, uint32(n*2654435761))
		g.upMu.Lock()
		g.upBy[n] = body
		g.upRq[n] = string(rb)
		g.upMu.Unlock()
		w.Header().Set("Content-Type", "application/json")
		w.WriteHeader(200)
		io.WriteString(w, body)
	})

	eo := engine.DefaultOptions(cs.SubDir(fmt.Sprintf("data%d", c17RigSeq.Add(1))))
	eo.AutoSaveInterval = 0
	eo.AutoSaveThreshold = 0
	eo.AofRewritePercentage = 0
	eo.MaintenanceInterval = time.Hour
	e, err := engine.Open(eo)
	if err != nil {
		cs.Fail("engine.Open: %v", err)
	}
	g.eng = e

	cfg := DefaultConfig()
	cfg.TargetURL = "http://upstream.invalid:11434"
	cfg.Embedder = g.emb
	cfg.FirewallEnabled = o.FirewallEnabled
	cfg.FirewallDenyList = append([]string(nil), o.Deny...)
	cfg.FirewallIndex = c17FwIndex
	cfg.FirewallThreshold = float32(o.Tf)
	cfg.CacheEnabled = o.CacheEnabled
	cfg.CacheIndex = c17CacheIndex
	cfg.CacheThreshold = float32(o.Tc)
	cfg.CacheTTL = o.TTL
	cfg.MaxCacheItems = 10000
	cfg.CacheVacuumInterval = time.Hour
	cfg.RAGEnabled = o.RAG
	cfg.RAGIndex = c17RAGIndex
	cfg.RAGTopK = o.RAGTopK
	cfg.RAGThreshold = 0
	cfg.RAGUseGraph = false
	cfg.RAGUseHybrid = false
	cfg.RAGUseHyDe = false
	cfg.RAGUseAdaptive = false
	// unroutable LLM endpoints: the check never needs an LLM call (single-message RAG requests)
	cfg.LLM.BaseURL = "http://127.0.0.1:1/v1"
	cfg.FastLLM.BaseURL = "http://127.0.0.1:1/v1"
	g.cfg = cfg
	p, err := NewAIProxy(cfg, e)
	if err != nil {
		g.close()
		cs.Fail("NewAIProxy: %v", err)
	}
	g.p = p
	p.reverseProxy.Transport = c17Transport{g.upstream}

	for _, pat := range o.Deny {
		g.denyRe = append(g.denyRe, regexp.MustCompile("(?i)"+pat))
	}
	if o.FwIndexCreated {
		g.must(e.VCreate(c17FwIndex, o.FwMetric, 16, 200, distance.Float32, "", nil, nil, nil), "create firewall index")
	}
	if o.CacheLang != "" {
		g.must(e.VCreate(c17CacheIndex, o.CacheMetric, 16, 200, distance.Float32, o.CacheLang, nil, nil, nil), "pre-create cache index")
	}
	if o.RAG {
		g.must(e.VCreate(c17RAGIndex, distance.Cosine, 16, 200, distance.Float32, "", nil, nil, nil), "create rag index")
	}
	return g
}

func (g *c17Rig) must(err error, what string) {
	if err != nil {
		g.failf("harness setup failed (%s): %v", what, err)
	}
}

// c17Transport delivers the reverse proxy's outgoing request to the stub upstream in-process.
type c17Transport struct{ h http.Handler }

func (t c17Transport) RoundTrip(req *http.Request) (*http.Response, error) {
	var body []byte
	if req.Body != nil {
		body, _ = io.ReadAll(req.Body)
		req.Body.Close()
	}
	sr := httptest.NewRequest(req.Method, req.URL.String(), bytes.NewReader(body))
	sr.Header = req.Header.Clone()
	rec := httptest.NewRecorder()
	t.h.ServeHTTP(rec, sr)
	resp := rec.Result()
	resp.Request = req
	return resp, nil
}

func (g *c17Rig) close() {
	if g.eng != nil {
		g.eng.Close()
	}
}

// cacheMetric is the metric of the cache index as it exists (auto-created = cosine).
func (g *c17Rig) cacheMetric() distance.DistanceMetric {
	if g.o.CacheLang == "" {
		return distance.Cosine
	}
	return g.o.CacheMetric
}

// ensureCacheIndex makes the cache index exist the way the proxy itself would create it
// (needed before planting an entry in a world where the proxy has not saved anything yet).
func (g *c17Rig) ensureCacheIndex() {
	if g.eng.IndexExists(c17CacheIndex) {
		return
	}
	g.must(g.eng.VCreate(c17CacheIndex, distance.Cosine, 16, 200, distance.Float32, "", nil, nil, nil), "create cache index like saveToCache")
}

func (g *c17Rig) addForbidden(v []float32) {
	id := fmt.Sprintf("bad_%d", len(g.forbidden))
	g.cs.Op("firewall index += %s", id)
	g.must(g.eng.VAdd(c17FwIndex, id, v, map[string]any{"text": "forbidden prompt " + id}), "add forbidden prompt")
	g.forbidden = append(g.forbidden, c17Stored{ID: id, Vec: v})
}

func (g *c17Rig) addChunk(id string, v []float32) {
	g.cs.Op("rag index += %q", id)
	g.must(g.eng.VAdd(c17RAGIndex, id, v, map[string]any{"text": "content of " + id}), "add rag chunk")
	g.chunks = append(g.chunks, c17Stored{ID: id, Vec: v})
}

// plant writes a cache entry through the engine in the format saveToCache writes.
// ageOK=true: created now (well inside any TTL used); false: older than 2*TTL+10s.
func (g *c17Rig) plant(vec []float32, body string, fresh bool, sources []string) *c17Entry {
	g.ensureCacheIndex()
	g.seq++
	id := fmt.Sprintf("cache_%d_%d", time.Now().UnixNano(), g.seq)
	created := time.Now()
	if !fresh {
		created = created.Add(-(2*g.o.TTL + 10*time.Second + time.Duration(g.cs.R.Intn(5))*g.o.TTL))
	}
	g.cs.Op("plant cache entry %s fresh=%v sources=%q", id, fresh, sources)
	meta := map[string]any{
		"query":      "planted " + id,
		"response":   body,
		"created_at": float64(created.Unix()),
		"sources":    strings.Join(sources, " "),
	}
	g.must(g.eng.VAdd(c17CacheIndex, id, vec, meta), "plant cache entry")
	en := &c17Entry{ID: id, Vec: vec, Body: body, Fresh: fresh, Sources: sources, Planted: true}
	g.entries = append(g.entries, en)
	return en
}

func (g *c17Rig) cacheIDs() map[string]bool {
	out := map[string]bool{}
	if !g.eng.IndexExists(c17CacheIndex) {
		return out
	}
	ids, _, err := g.eng.VGetIDsByCursor(c17CacheIndex, 0, 1<<20)
	if err != nil {
		return out
	}
	for _, id := range ids {
		out[id] = true
	}
	return out
}

func (g *c17Rig) cacheCount() int {
	info, err := g.eng.DB.GetSingleVectorIndexInfoAPI(c17CacheIndex)
	if err != nil {
		return 0
	}
	return info.VectorCount
}

// c17Background reports whether a goroutine of the proxy's asynchronous cache work (save or
// expired-entry cleanup) is still alive.
func c17Background() (bool, string) {
	buf := make([]byte, 256<<10)
	for {
		n := runtime.Stack(buf, true)
		if n < len(buf) {
			buf = buf[:n]
			break
		}
		buf = make([]byte, 2*len(buf))
	}
	s := string(buf)
	// Every goroutine the gateway itself starts (go p.saveToCache(...) in ServeHTTP, the expired-entry
	// cleanup in checkCache) carries a "created by …proxy.(*AIProxy).<fn>" line from the moment the go
	// statement has executed, also before it has run its first instruction.
	if strings.Contains(s, "created by github.com/sanonone/kektordb/pkg/proxy.(*AIProxy).") {
		return true, s
	}
	return false, ""
}

// settle brings the gateway to a quiescent state after a request: it first polls the cache index
// count until it reaches wantCount (cheap, no stop-the-world; skipped when wantCount < 0; gives up after
// 50 ms because an expired entry may have been removed at the same time), then requires that none of the
// proxy's own asynchronous goroutines (cache save, expired-entry cleanup) is alive any more, polling with an
// exponential back-off (a goroutine dump stops the world; on an overloaded host a tight loop would starve the
// very goroutine it waits for). The wait ends without a verdict as soon as no such goroutine exists: from
// then on the index content is final whatever the count is, and the oracle judges the following requests
// against it. Hang rule: if after 120 s such a goroutine is still alive and parked on a lock / channel the
// case is a violation with the dump as witness; if it is still runnable or running the run is inconclusive
// (CPU starvation cannot be told from non-termination here).
func (g *c17Rig) settle(wantCount int) {
	start := time.Now()
	nap := 20 * time.Microsecond
	sleep := func() {
		time.Sleep(nap)
		if nap < 5*time.Millisecond {
			nap *= 2
		}
	}
	if wantCount >= 0 {
		for g.cacheCount() < wantCount && time.Since(start) < 50*time.Millisecond {
			sleep()
		}
	}
	for i := 0; ; i++ {
		alive, dump := c17Background()
		if !alive {
			if wantCount >= 0 {
				if g.cacheCount() >= wantCount {
					g.ctx.Count("cache.save_observed_by_count", 1)
				} else {
					g.ctx.Count("cache.count_not_reached_when_settled", 1)
				}
			}
			return
		}
		if time.Since(start) > 120*time.Second {
			state := ""
			for _, gr := range strings.Split(dump, "\n\n") {
				if strings.Contains(gr, "created by github.com/sanonone/kektordb/pkg/proxy.(*AIProxy).") {
					if j := strings.Index(gr, "["); j >= 0 {
						if k := strings.Index(gr[j:], "]"); k > 0 {
							state = gr[j+1 : j+k]
						}
					}
				}
			}
			if strings.HasPrefix(state, "runnable") || strings.HasPrefix(state, "running") {
				g.ctx.Inconclusive(fmt.Sprintf("case %s/%d: a goroutine started by AIProxy is still %s after 120 s (CPU starvation or non-termination)", g.cs.Group, g.cs.Idx, state))
				return
			}
			g.cs.Attach("goroutine_dump", strings.Split(dump, "\n"))
			g.failf("asynchronous cache work of the gateway did not finish within 120 s: a goroutine started by AIProxy is parked in state [%s] (dump attached)", state)
		}
		sleep()
		g.ctx.Touch()
	}
}

// ---------------------------------------------------------------------------------------
// requests

type c17Req struct {
	Kind    string    // label of the scenario class
	Text    string    // the latest user message
	Vec     []float32 // designed embedding of Text (nil when Text == "")
	Shape   string    // "messages" | "prompt"
	Before  []message // messages before the latest user message
	After   []message // assistant messages after it
	Stream  bool
	Path    string
	Denied  bool // by construction: Text contains an instance of a deny pattern
	Marker  bool // by construction: Text contains a task-marker phrase
	NearFw  int  // index of the forbidden prompt it is designed near to, or -1
	NearDoc string
}

func (q *c17Req) body() []byte {
	m := map[string]any{"model": "stub-model"}
	if q.Stream {
		m["stream"] = true
	}
	if q.Shape == "prompt" {
		m["prompt"] = q.Text
	} else {
		msgs := []message{}
		msgs = append(msgs, q.Before...)
		msgs = append(msgs, message{Role: "user", Content: q.Text})
		msgs = append(msgs, q.After...)
		m["messages"] = msgs
	}
	b, _ := json.Marshal(m)
	return b
}

type c17Resp struct {
	Status   int
	CacheHdr string
	Body     string
	UpDelta  int64
	UpNonce  int64
}

func (g *c17Rig) send(q *c17Req) c17Resp {
	if q.Text != "" {
		g.emb.set(q.Text, q.Vec)
	}
	body := q.body()
	g.cs.Op("request kind=%s path=%s stream=%v body=%s", q.Kind, q.Path, q.Stream, string(body))
	before := g.upN.Load()
	r := httptest.NewRequest("POST", q.Path, bytes.NewReader(body))
	r.Header.Set("Content-Type", "application/json")
	w := httptest.NewRecorder()
	g.p.ServeHTTP(w, r)
	after := g.upN.Load()
	return c17Resp{Status: w.Code, CacheHdr: w.Header().Get("X-Kektor-Cache"), Body: w.Body.String(), UpDelta: after - before, UpNonce: after}
}

// refDenied is the reference pattern decision: some configured pattern matches the latest
// user message case-insensitively.
func (g *c17Rig) refDenied(text string) bool {
	if !g.o.FirewallEnabled {
		return false
	}
	for _, re := range g.denyRe {
		if re.MatchString(text) {
			return true
		}
	}
	return false
}

type c17Verdict struct {
	Outcome string // "blocked" | "hit" | "forward"
	Why     string
	Bodies  []string // acceptable bodies for a hit
	MinFw   float64  // min distance to a forbidden prompt (+Inf if none)
	MinCa   float64  // min distance to a servable cache entry (+Inf if none)
}

// reference computes what the property demands for request q in the current world. It fails
// the case with a harness error if a distance is not designed (neither <= T/2 nor >= 2T).
func (g *c17Rig) reference(q *c17Req) c17Verdict {
	v := c17Verdict{MinFw: math.Inf(1), MinCa: math.Inf(1)}
	denied := g.refDenied(q.Text)
	if g.o.FirewallEnabled && denied != q.Denied {
		g.failf("HARNESS BUG: prompt %q constructed denied=%v but the reference matcher says %v", q.Text, q.Denied, denied)
	}
	semantic := false
	if g.o.FirewallEnabled && q.Vec != nil {
		for _, f := range g.forbidden {
			d := c17Dist(g.o.FwMetric, q.Vec, f.Vec)
			if d < v.MinFw {
				v.MinFw = d
			}
			switch c17Class(g.o.FwMetric, d, g.o.Tf) {
			case +1:
				semantic = true
			case 0:
				g.failf("HARNESS BUG: undesigned firewall distance %.6f (T=%g, %s) for %q vs %s", d, g.o.Tf, g.o.FwMetric, q.Text, f.ID)
			}
		}
	}
	if denied || semantic {
		v.Outcome = "blocked"
		switch {
		case denied && semantic:
			v.Why = "pattern+semantic"
		case denied:
			v.Why = "pattern"
		default:
			v.Why = "semantic"
		}
		return v
	}
	if g.o.CacheEnabled && q.Vec != nil {
		cm := g.cacheMetric()
		for _, en := range g.entries {
			if en.Removed {
				continue
			}
			d := c17Dist(cm, q.Vec, en.Vec)
			cl := c17Class(cm, d, g.o.Tc)
			if cl == 0 {
				g.failf("HARNESS BUG: undesigned cache distance %.6f (T=%g, %s) for %q vs entry %s", d, g.o.Tc, cm, q.Text, en.ID)
			}
			if cl == +1 && en.Fresh {
				if d < v.MinCa {
					v.MinCa = d
				}
				v.Bodies = append(v.Bodies, en.Body)
			}
		}
		if len(v.Bodies) > 0 && !q.Stream {
			if q.Marker || q.Text == "" {
				// the property's cache clause is not judged for pass-through prompts (see assumptions):
				// the generator drops such a request, judge() refuses it
				v.Outcome = "unjudged"
				v.Why = "pass-through prompt within the cache distance of an entry"
				return v
			}
			v.Outcome = "hit"
			v.Why = "cached"
			return v
		}
	}
	v.Outcome = "forward"
	v.Why = "clean"
	return v
}

// judge sends q, compares with the reference and updates the model. It returns the verdict
// and the response.
func (g *c17Rig) judge(q *c17Req) (c17Verdict, c17Resp) {
	want := g.reference(q)
	if want.Outcome == "unjudged" {
		g.failf("HARNESS BUG: %s (kind=%s text=%q)", want.Why, q.Kind, q.Text)
	}
	idsBefore := map[string]bool{}
	cntBefore := 0
	if g.o.CacheEnabled {
		idsBefore = g.cacheIDs()
		cntBefore = g.cacheCount()
	}
	got := g.send(q)
	if n := len(g.emb.misses); n > g.missSeen {
		g.ctx.Count("embed.text_other_than_latest_user_message", int64(n-g.missSeen))
		g.cs.Attach("gateway_embedded_other_texts", append([]string(nil), g.emb.misses...))
		g.missSeen = n
	}
	desc := fmt.Sprintf("kind=%s shape=%s stream=%v latest user message %q (min distance to forbidden=%.4g T=%g %s; min distance to fresh cache entry=%.4g T=%g)",
		q.Kind, q.Shape, q.Stream, q.Text, want.MinFw, g.o.Tf, g.o.FwMetric, want.MinCa, g.o.Tc)
	g.cs.Attach("last_request", map[string]any{"body": string(q.body()), "expected": want.Outcome + "/" + want.Why,
		"status": got.Status, "x_kektor_cache": got.CacheHdr, "upstream_delta": got.UpDelta, "response": got.Body, "world": g.o.String()})
	switch want.Outcome {
	case "blocked":
		if got.UpDelta != 0 {
			g.failf("firewall: request that must be refused (%s) reached the upstream model (%d upstream request(s), status %d): %s", want.Why, got.UpDelta, got.Status, desc)
		}
		if got.Status < 400 || got.Status > 499 {
			g.failf("firewall: request that must be refused (%s) was answered with status %d (X-Kektor-Cache=%q) instead of a 4xx: %s", want.Why, got.Status, got.CacheHdr, desc)
		}
	case "hit":
		if got.UpDelta != 0 {
			g.cs.Attach("cache_index_at_miss", g.cacheDiag(q))
			g.failf("cache: request within the cache distance of a previously answered one contacted the upstream (%d request(s), status %d, X-Kektor-Cache=%q): %s", got.UpDelta, got.Status, got.CacheHdr, desc)
		}
		if got.CacheHdr != "HIT" {
			g.failf("cache: expected X-Kektor-Cache: HIT, got %q (status %d): %s", got.CacheHdr, got.Status, desc)
		}
		ok := false
		for _, b := range want.Bodies {
			if b == got.Body {
				ok = true
			}
		}
		if !ok {
			g.failf("cache: HIT body %q is not the stored response of an entry within the cache distance (acceptable: %q): %s", got.Body, want.Bodies, desc)
		}
	case "forward":
		if got.CacheHdr == "HIT" {
			g.failf("cache: request that must reach the upstream was served from the cache (body %q): %s", got.Body, desc)
		}
		if got.UpDelta != 1 {
			g.failf("request that must be forwarded produced %d upstream requests (status %d): %s", got.UpDelta, got.Status, desc)
		}
		g.upMu.Lock()
		upBody := g.upBy[got.UpNonce]
		g.upMu.Unlock()
		if got.Status != 200 || got.Body != upBody {
			g.failf("forwarded request did not return the upstream's answer (status %d body %q, upstream sent %q): %s", got.Status, got.Body, upBody, desc)
		}
	}
	// model update + wait for the asynchronous save
	if g.o.CacheEnabled {
		cacheable := want.Outcome == "forward" && !q.Stream && !q.Marker && q.Text != ""
		if cacheable {
			g.settle(cntBefore + 1)
			en := &c17Entry{Vec: q.Vec, Body: got.Body, Fresh: true}
			var fresh []string
			for id := range g.cacheIDs() {
				if !idsBefore[id] {
					fresh = append(fresh, id)
				}
			}
			sort.Strings(fresh)
			if len(fresh) == 1 {
				en.ID = fresh[0]
				if d, err := g.eng.VGet(c17CacheIndex, en.ID); err == nil {
					if s, ok := d.Metadata["sources"].(string); ok {
						en.Sources = strings.Fields(s)
					}
				}
			} else if len(fresh) > 1 {
				g.failf("one answered request created %d cache entries %v", len(fresh), fresh)
			}
			g.entries = append(g.entries, en)
		} else {
			g.settle(-1)
		}
	}
	return want, got
}

// invalidate posts /cache/invalidate and checks the index content: exactly the entries that
// cite doc (doc is one of the space-separated source ids) are gone.
func (g *c17Rig) invalidate(doc string) (cited, kept int) {
	b, _ := json.Marshal(map[string]string{"document_id": doc})
	g.cs.Op("POST /cache/invalidate %s", string(b))
	present := g.cacheIDs()
	r := httptest.NewRequest("POST", "/cache/invalidate", bytes.NewReader(b))
	w := httptest.NewRecorder()
	g.p.ServeHTTP(w, r)
	g.settle(-1)
	after := g.cacheIDs()
	for _, en := range g.entries {
		if en.ID == "" || en.Removed || !present[en.ID] {
			continue
		}
		cites := false
		for _, s := range en.Sources {
			if s == doc {
				cites = true
			}
		}
		if cites {
			cited++
			if after[en.ID] {
				g.cs.Attach("invalidate_response", w.Body.String())
				g.failf("invalidation of document %q left cache entry %s (sources %q) in the cache index (response: %s)", doc, en.ID, en.Sources, strings.TrimSpace(w.Body.String()))
			}
			en.Removed = true
		} else if en.Fresh {
			kept++
			if !after[en.ID] {
				g.cs.Attach("invalidate_response", w.Body.String())
				g.failf("invalidation of document %q removed cache entry %s which does not cite it (sources %q) (response: %s)", doc, en.ID, en.Sources, strings.TrimSpace(w.Body.String()))
			}
		}
	}
	return cited, kept
}

// cacheDiag describes what the engine's own search on the cache index returns for q and the
// node table of that index (witness material for a missed cache hit).
func (g *c17Rig) cacheDiag(q *c17Req) map[string]any {
	out := map[string]any{}
	res, err := g.eng.VSearchWithScores(c17CacheIndex, q.Vec, 10)
	out["engine_top10_err"] = fmt.Sprint(err)
	var l []string
	for _, r := range res {
		l = append(l, fmt.Sprintf("%s score=%v", r.ID, r.Score))
	}
	out["engine_top10"] = l
	var ents []string
	cm := g.cacheMetric()
	for _, en := range g.entries {
		_, gerr := g.eng.VGet(c17CacheIndex, en.ID)
		ents = append(ents, fmt.Sprintf("%s removed=%v fresh=%v dist=%.4g vget_err=%v", en.ID, en.Removed, en.Fresh, c17Dist(cm, q.Vec, en.Vec), gerr))
	}
	out["model_entries"] = ents
	if idx, ok := g.eng.DB.GetVectorIndex(c17CacheIndex); ok {
		if h, ok := idx.(*hnsw.Index); ok {
			var nodes []string
			nm, _, _, entry, maxLevel, _, _, _, _, _ := h.SnapshotData()
			for iid, n := range nm {
				nodes = append(nodes, fmt.Sprintf("%d %s deleted=%v conns=%v", iid, n.Id, n.Deleted.Load(), n.Connections))
			}
			sort.Strings(nodes)
			out["nodes"] = nodes
			out["entry_maxlevel"] = fmt.Sprintf("entry=%d maxLevel=%d", entry, maxLevel)
		}
	}
	return out
}

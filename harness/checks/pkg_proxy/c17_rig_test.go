package proxy

// C17 — shared rig: stub embedder, counting upstream, designed geometry, world model and
// the reference oracle for one request / one invalidation.

import (
	"bytes"
	"encoding/json"
	"fmt"
	"io"
	"math"
	"net/http"
	"net/http/httptest"
	"os"
	"path/filepath"
	"reflect"
	"regexp"
	"runtime"
	"sort"
	"strings"
	"sync"
	"sync/atomic"
	"time"

	"github.com/sanonone/kektordb/internal/zzverif/vkit"
	"github.com/sanonone/kektordb/pkg/core/distance"
	"github.com/sanonone/kektordb/pkg/core/hnsw"
	"github.com/sanonone/kektordb/pkg/engine"
	"gopkg.in/yaml.v3"
)

// ---------------------------------------------------------------------------------------
// geometry: every vector is a unit vector of c17Dim components built from basis vectors,
// so that every query/stored distance is chosen by the test.

const c17Dim = 128

type c17Space struct{ next int }

// c17Quiet ends the running case without a verdict (harness-side limit reached: basis dimensions used up,
// host too slow for the designed clock margins). Caught by c17Quietly / c17Sub and counted.
type c17Quiet struct{ why string }

func c17Quietly(ctx *vkit.Ctx, fn func(cs *vkit.Case)) func(cs *vkit.Case) {
	return func(cs *vkit.Case) {
		defer func() {
			if r := recover(); r != nil {
				if q, ok := r.(c17Quiet); ok {
					ctx.Count("case.abandoned."+q.why, 1)
					return
				}
				panic(r)
			}
		}()
		fn(cs)
	}
}

func (s *c17Space) basis() []float32 {
	if s.next >= c17Dim {
		// harness-side limit, not a verdict: the case ends here (counted as case.abandoned.*)
		panic(c17Quiet{"out_of_basis_dimensions"})
	}
	v := make([]float32, c17Dim)
	v[s.next] = 1
	s.next++
	return v
}

// c17Rotate returns cos*anchor + sqrt(1-cos^2)*pert (anchor ⟂ pert, both unit).
func c17Rotate(anchor, pert []float32, cos float64) []float32 {
	if cos > 1 {
		cos = 1
	}
	if cos < -1 {
		cos = -1
	}
	sin := math.Sqrt(1 - cos*cos)
	v := make([]float32, c17Dim)
	for i := range v {
		v[i] = float32(cos*float64(anchor[i]) + sin*float64(pert[i]))
	}
	return v
}

func c17Cos(a, b []float32) float64 {
	var dot, na, nb float64
	for i := range a {
		dot += float64(a[i]) * float64(b[i])
		na += float64(a[i]) * float64(a[i])
		nb += float64(b[i]) * float64(b[i])
	}
	if na == 0 || nb == 0 {
		return 0
	}
	return dot / math.Sqrt(na*nb)
}

// c17Dist is the index's metric distance as /repo documents it: cosine = 1 - cos,
// euclidean = squared L2 (pkg/core/distance: "Euclidean represents the squared Euclidean
// distance metric").
func c17Dist(metric distance.DistanceMetric, a, b []float32) float64 {
	if metric == distance.Cosine {
		return 1 - c17Cos(a, b)
	}
	var s float64
	for i := range a {
		d := float64(a[i]) - float64(b[i])
		s += d * d
	}
	return s
}

// c17Class classifies a distance against a threshold with the factor-2 margin of the design.
// For the euclidean metric the case must be decisive under both readings of "distance"
// (squared L2, as the index reports it, and plain L2), so that the oracle never depends on
// which of the two the configuration comment means.
//
//	+1 = decisively within the threshold, -1 = decisively outside, 0 = undesigned (harness bug)
func c17Class(metric distance.DistanceMetric, d, T float64) int {
	lo, hi := d, d
	if metric != distance.Cosine {
		l2 := math.Sqrt(d)
		lo, hi = math.Min(d, l2), math.Max(d, l2)
	}
	const slack = 1e-4
	if hi <= T/2+slack {
		return +1
	}
	if lo >= 2*T-slack {
		return -1
	}
	return 0
}

// c17DesignCos returns the cosine between a query and its anchor such that the metric
// distance is decisively near (<= T/2) or decisively far (>= 2T). sel in [0,1) selects
// among a few fixed positions (identical, mid, edge of the near zone / edge of the far zone,
// orthogonal, obtuse, opposite).
func c17DesignCos(metric distance.DistanceMetric, T float64, near bool, r *vkit.Rand) (cos float64, label string) {
	if near {
		u := vkit.Pick(r, []float64{0, 0, 0.25, 0.6, 1.0}) // 0 = identical embedding
		label = fmt.Sprintf("near(u=%.2f)", u)
		if metric == distance.Cosine {
			return 1 - u*T/2, label // dcos = u*T/2
		}
		// unit vectors: L2 = sqrt(2*dcos) <= T/2  (then L2^2 < L2 because T <= 1)
		l2 := u * T / 2
		return 1 - l2*l2/2, label
	}
	// far
	opts := []string{"edge", "orth", "obtuse", "opposite"}
	k := vkit.Pick(r, opts)
	label = "far(" + k + ")"
	switch k {
	case "orth":
		return 0, label
	case "obtuse":
		return -0.5, label
	case "opposite":
		return -1, label
	}
	// edge of the far zone: distance exactly 2T (both readings for euclidean)
	if metric == distance.Cosine {
		return 1 - 2*T, label
	}
	t := 2 * T
	if t < 1 { // need L2^2 >= t (then L2 = sqrt(t) > t)
		return 1 - t/2, label
	}
	return 1 - t*t/2, label // need L2 >= t
}

// c17SimDistDisagree is the generator guard for findings D-C17-1 / D-C17-2: it is true where
// "similarity 1/(1+d) < T" (what the code computes today) and "distance d < T" (what the
// property states) give different answers, or where d sits on the boundary of the former.
func c17SimDistDisagree(d, T float64) bool {
	ref := d < T
	code := 1/(1+d) < T
	if ref != code {
		return true
	}
	b := 1/T - 1
	return math.Abs(d-b) <= 0.05*b
}

// ---------------------------------------------------------------------------------------
// stub embedder

type c17Emb struct {
	mu     sync.Mutex
	m      map[string][]float32
	misses []string
	calls  int
	sp     *c17Space
}

func (e *c17Emb) set(text string, v []float32) {
	e.mu.Lock()
	e.m[text] = v
	e.mu.Unlock()
}

// Embed returns the designed vector of text. A text the test did not design (the gateway embedded
// something else than the latest user message) gets its own fresh basis vector - far from everything
// stored - and is recorded; the oracle then judges the outcome of the request as usual.
func (e *c17Emb) Embed(text string) ([]float32, error) {
	e.mu.Lock()
	defer e.mu.Unlock()
	e.calls++
	v, ok := e.m[text]
	if !ok {
		e.misses = append(e.misses, text)
		v = e.sp.basis()
		e.m[text] = v
	}
	out := make([]float32, len(v))
	copy(out, v)
	return out, nil
}

func (e *c17Emb) EmbedBatch(texts []string) ([][]float32, error) {
	out := make([][]float32, len(texts))
	for i, t := range texts {
		v, err := e.Embed(t)
		if err != nil {
			return nil, err
		}
		out[i] = v
	}
	return out, nil
}

// ---------------------------------------------------------------------------------------
// world

type c17Opts struct {
	FirewallEnabled bool
	Deny            []string // regex sources exactly as configured
	FwMetric        distance.DistanceMetric
	Tf              float64
	FwIndexCreated  bool

	CacheEnabled bool
	CacheMetric  distance.DistanceMetric // used only when the operator pre-creates the cache index
	CacheLang    string                  // "" = index auto-created by the proxy on first save; else pre-created with this analyser
	Tc           float64
	TTL          time.Duration

	RAG          bool
	RAGTopK      int
	RAGThreshold float64

	// operator-created indexes stored with half precision (the engine offers it for the euclidean metric only);
	// the quantisation error (< 0.003 on these distances) is far inside the factor-2 margins of the design
	FwF16, CacheF16 bool

	// operator-created indexes that are "memory" indexes (MemoryConfig.Enabled): the engine then ranks search
	// results by similarity x time-decay factor, so rank order and distance order differ as soon as the stored
	// vectors have different ages. The property speaks of distances only: the reference ignores all of this.
	FwMem, CacheMem *c17Mem

	// the configuration reaches the gateway the way an operator's does: written as proxy.yaml and read back with
	// LoadConfig (instead of a Config literal). OmitDefaults: a threshold that equals its documented default
	// (firewall_threshold 0.25, cache_threshold 0.1) is left out of the file.
	ViaYAML, OmitDefaults bool
	CacheUnlimited        bool // max_cache_items = 0
}

// c17Mem describes the memory configuration of an operator-created index.
type c17Mem struct {
	HalfLife time.Duration // 0 = the engine's default (7 days)
	Model    string        // "" = the engine's default (exponential)
	Layers   bool          // per-layer half-lives as in hnsw.DefaultMemoryConfig
}

func (m *c17Mem) String() string {
	if m == nil {
		return "off"
	}
	return fmt.Sprintf("{halfLife=%s model=%q layers=%v}", m.HalfLife, m.Model, m.Layers)
}

func (m *c17Mem) cfg() *hnsw.MemoryConfig {
	if m == nil {
		return nil
	}
	c := &hnsw.MemoryConfig{Enabled: true, DecayModel: hnsw.DecayModel(m.Model), DecayHalfLife: hnsw.Duration(m.HalfLife)}
	if m.Layers {
		c.Layers = hnsw.DefaultMemoryConfig().Layers
	}
	return c
}

func c17PickMem(r *vkit.Rand) *c17Mem {
	return &c17Mem{
		HalfLife: vkit.Pick(r, []time.Duration{time.Minute, time.Hour, time.Hour, 0, 30 * 24 * time.Hour}),
		Model:    vkit.Pick(r, []string{"", "exponential", "exponential", "linear", "step", "ebbinghaus"}),
		Layers:   r.Chance(0.25),
	}
}

// stamp gives a vector that enters a memory index a history: the engine's own bookkeeping fields (_created_at at
// ages from "now" to decades in units of the half-life, or in the future; _pinned; memory_layer; access data).
// None of it changes how far the vector is from a query. Returns a label for the operation log.
func (m *c17Mem) stamp(r *vkit.Rand, meta map[string]any) string {
	if m == nil {
		return ""
	}
	hl := m.HalfLife
	if hl == 0 {
		hl = 7 * 24 * time.Hour
	}
	label := "age=now(unstamped)"
	if k := vkit.Pick(r, []float64{-1, -1, 0.5, 3, 3, 30, 30, 400, -7}); k != -1 {
		age := time.Duration(k * float64(hl))
		if age > 20*365*24*time.Hour {
			age = 20 * 365 * 24 * time.Hour
		}
		meta["_created_at"] = float64(time.Now().Add(-age).Unix())
		label = fmt.Sprintf("age=%s(%g half-lives)", age, k)
	}
	if r.Chance(0.1) {
		meta["_pinned"] = true
		label += " pinned"
	}
	if m.Layers && r.Chance(0.6) {
		l := vkit.Pick(r, []string{"episodic", "semantic", "procedural"})
		meta["memory_layer"] = l
		label += " layer=" + l
	}
	if r.Chance(0.15) {
		meta["_access_count"] = float64(r.Range(1, 50))
		label += " accessed"
	}
	return label
}

func (o c17Opts) String() string {
	return fmt.Sprintf("fw=%v deny=%q fwMetric=%s Tf=%g fwIdx=%v cache=%v cacheMetric=%s cacheLang=%q Tc=%g ttl=%s rag=%v topk=%d ragThreshold=%g fwF16=%v cacheF16=%v fwMem=%s cacheMem=%s yaml=%v omitDefaults=%v",
		o.FirewallEnabled, o.Deny, o.FwMetric, o.Tf, o.FwIndexCreated, o.CacheEnabled, o.CacheMetric, o.CacheLang, o.Tc, o.TTL, o.RAG, o.RAGTopK, o.RAGThreshold, o.FwF16, o.CacheF16, o.FwMem, o.CacheMem, o.ViaYAML, o.OmitDefaults)
}

type c17Stored struct {
	ID      string
	Vec     []float32
	Deleted bool // removed from the index again (VDelete)
}

type c17Entry struct {
	ID   string // cache index id ("" if the save was never observed)
	Vec  []float32
	Body string
	// created_at of the entry lies in [CreatedLo, CreatedHi] (harness clock samples taken around the write);
	// whether the entry is younger than the TTL is decided per request with margins (ageClass), never assumed.
	CreatedLo, CreatedHi time.Time
	Sources              []string // the documents the answer cites: for a real-flow entry the chunks whose text was sent to the upstream
	Stored               []string // what the entry's own `sources` metadata says (diagnostics only)
	Removed              bool     // invalidated by the model
	Planted              bool
	// Maybe: an entry the gateway saved for a request whose answer the check does not require to be cached
	// (streaming / task-marker request). A later request near it may be served from it or forwarded.
	Maybe bool
}

type c17Rig struct {
	ctx      *vkit.Ctx
	cs       *vkit.Case
	o        c17Opts
	eng      *engine.Engine
	p        *AIProxy
	cfg      Config
	upstream http.Handler
	upN      atomic.Int64
	upMu     sync.Mutex
	upBy     map[int64]string // nonce -> body the upstream returned
	upRq     map[int64]string // nonce -> request body the upstream received
	emb      *c17Emb
	sp       *c17Space

	denyRe    []*regexp.Regexp // reference matcher (independent compile)
	forbidden []c17Stored
	entries   []*c17Entry
	chunks    []c17Stored // RAG index content
	sent      []*c17Req
	missSeen  int
	seq       int
	failf     func(format string, a ...any) // cs.Fail in the groups; a collecting abort in probes

	upMode      string   // how the stub upstream answers the next request: "" (small body) | "big" (> 64 KB, relayed in several Writes)
	suspectDocs []string // document ids on which an entry's stored sources and the chunks actually sent upstream disagree
	llmCalls    int      // calls received by the stub LLM (always failing) of RAG worlds
}

var c17RigSeq atomic.Int64

const (
	c17FwIndex    = "prompt_guard"
	c17CacheIndex = "semantic_cache"
	c17RAGIndex   = "knowledge_base"
)

func c17NewRig(ctx *vkit.Ctx, cs *vkit.Case, o c17Opts) *c17Rig {
	g := &c17Rig{ctx: ctx, cs: cs, o: o, sp: &c17Space{}, upBy: map[int64]string{}, upRq: map[int64]string{}}
	g.failf = cs.Fail
	cs.Op("world %s", o.String())
	g.emb = &c17Emb{m: map[string][]float32{}, sp: g.sp}

	// The upstream model: an http.Handler that counts requests and answers with a per-request nonce.
	// It is reached through the proxy's real httputil.ReverseProxy, whose Transport is replaced by an
	// in-process round tripper (no sockets: the check must not depend on the loopback TCP stack of a
	// loaded machine; "reaches the upstream" = the reverse proxy performed a round trip).
	g.upstream = http.HandlerFunc(func(w http.ResponseWriter, r *http.Request) {
		rb, _ := io.ReadAll(r.Body)
		n := g.upN.Add(1)
		body := fmt.Sprintf(`{"id":"up-%d","model":"stub","choices":[{"index":0,"message":{"role":"assistant","content":"answer #%d nonce=%08x"}}]}`, n, n, uint32(n*2654435761))
		if g.upMode == "big" {
			// an answer the reverse proxy relays in several Write calls (its copy buffer is 32 KB); every
			// 1000-byte block is distinct, so a stored response that lost, repeated or reordered a chunk differs
			var sb strings.Builder
			sb.WriteString(fmt.Sprintf(`{"id":"up-%d","model":"stub","choices":[{"index":0,"message":{"role":"assistant","content":"long answer #%d`, n, n))
			for i, blocks := 0, 70+int(n%5)*40; i < blocks; i++ {
				sb.WriteString(fmt.Sprintf(" [%06d:%08x]", i, uint32((n*1000003+int64(i))*2654435761)))
				sb.WriteString(strings.Repeat("x", 980))
			}
			sb.WriteString(`"}}]}`)
			body = sb.String()
		}
		g.upMu.Lock()
		g.upBy[n] = body
		g.upRq[n] = string(rb)
		g.upMu.Unlock()
		w.Header().Set("Content-Type", "application/json")
		w.WriteHeader(200)
		io.WriteString(w, body)
	})

	eo := engine.DefaultOptions(cs.SubDir(fmt.Sprintf("data%d", c17RigSeq.Add(1))))
	eo.AutoSaveInterval = 0
	eo.AutoSaveThreshold = 0
	eo.AofRewritePercentage = 0
	eo.MaintenanceInterval = time.Hour
	e, err := engine.Open(eo)
	if err != nil {
		cs.Fail("engine.Open: %v", err)
	}
	g.eng = e

	cfg := DefaultConfig()
	cfg.TargetURL = "http://upstream.invalid:11434"
	cfg.Embedder = g.emb
	cfg.FirewallEnabled = o.FirewallEnabled
	cfg.FirewallDenyList = append([]string(nil), o.Deny...)
	cfg.FirewallIndex = c17FwIndex
	cfg.FirewallThreshold = float32(o.Tf)
	cfg.CacheEnabled = o.CacheEnabled
	cfg.CacheIndex = c17CacheIndex
	cfg.CacheThreshold = float32(o.Tc)
	cfg.CacheTTL = o.TTL
	cfg.MaxCacheItems = 10000
	if o.CacheUnlimited {
		cfg.MaxCacheItems = 0
	}
	cfg.CacheVacuumInterval = time.Hour
	cfg.RAGEnabled = o.RAG
	cfg.RAGIndex = c17RAGIndex
	cfg.RAGTopK = o.RAGTopK
	cfg.RAGThreshold = float32(o.RAGThreshold)
	cfg.RAGUseGraph = false
	cfg.RAGUseHybrid = false
	cfg.RAGUseHyDe = false
	cfg.RAGUseAdaptive = false
	// unroutable LLM endpoints: the check never needs an LLM call (single-message RAG requests)
	cfg.LLM.BaseURL = "http://127.0.0.1:1/v1"
	cfg.FastLLM.BaseURL = "http://127.0.0.1:1/v1"
	if o.ViaYAML {
		cfg = g.viaYAML(cfg)
	}
	g.cfg = cfg
	p, err := NewAIProxy(cfg, e)
	if err != nil {
		g.close()
		cs.Fail("NewAIProxy: %v", err)
	}
	g.p = p
	p.reverseProxy.Transport = c17Transport{g.upstream}
	if o.RAG {
		// the query rewriter's LLM is down in every RAG world (no network in the check): a multi-message
		// history makes the gateway try a rewrite, fail, and go on with the latest user message
		p.fastLLMClient = c17DownLLM{g}
	}

	for _, pat := range o.Deny {
		g.denyRe = append(g.denyRe, regexp.MustCompile("(?i)"+pat))
	}
	if o.FwIndexCreated {
		g.must(e.VCreate(c17FwIndex, o.FwMetric, 16, 200, c17Prec(o.FwF16 && o.FwMetric == distance.Euclidean), "", nil, nil, o.FwMem.cfg()), "create firewall index")
		if o.FwMem != nil {
			g.ctx.Count("world.firewall_index_is_memory_index", 1)
		}
	}
	if o.CacheLang != "" {
		g.must(e.VCreate(c17CacheIndex, o.CacheMetric, 16, 200, c17Prec(o.CacheF16 && o.CacheMetric == distance.Euclidean), o.CacheLang, nil, nil, o.CacheMem.cfg()), "pre-create cache index")
		if o.CacheMem != nil {
			g.ctx.Count("world.cache_index_is_memory_index", 1)
		}
	}
	if o.RAG {
		g.must(e.VCreate(c17RAGIndex, distance.Cosine, 16, 200, distance.Float32, "", nil, nil, nil), "create rag index")
	}
	return g
}

// viaYAML writes the settings the property talks about (switches, deny list, index names, thresholds, TTL, RAG
// switches) as a proxy.yaml, reads it back with the gateway's own LoadConfig and carries over what a file cannot
// hold (the stub embedder) or what only keeps the check off the network (LLM endpoints, target URL).
func (g *c17Rig) viaYAML(lit Config) Config {
	o := g.o
	doc := map[string]any{
		"target_url":       lit.TargetURL,
		"firewall_enabled": o.FirewallEnabled,
		"firewall_index":   c17FwIndex,
		"cache_enabled":    o.CacheEnabled,
		"cache_index":      c17CacheIndex,
		"cache_ttl":        o.TTL.String(),
		"max_cache_items":  lit.MaxCacheItems,
		"rag_enabled":      o.RAG,
		"rag_index":        c17RAGIndex,
		"rag_top_k":        o.RAGTopK,
		"rag_threshold":    o.RAGThreshold,
		"rag_use_graph":    false,
		"rag_use_hybrid":   false,
		"rag_use_hyde":     false,
		"rag_use_adaptive": false,
	}
	if len(o.Deny) > 0 {
		doc["firewall_deny_list"] = o.Deny
	}
	if !(o.OmitDefaults && o.Tf == 0.25) {
		doc["firewall_threshold"] = o.Tf
	}
	if !(o.OmitDefaults && o.Tc == 0.1) {
		doc["cache_threshold"] = o.Tc
	}
	b, err := yaml.Marshal(doc)
	g.must(err, "marshal proxy.yaml")
	path := filepath.Join(g.cs.SubDir(fmt.Sprintf("conf%d", c17RigSeq.Add(1))), "proxy.yaml")
	g.must(os.WriteFile(path, b, 0o644), "write proxy.yaml")
	g.cs.Op("proxy.yaml: %s", strings.ReplaceAll(strings.TrimSpace(string(b)), "\n", " | "))
	cfg, err := LoadConfig(path)
	if err != nil {
		g.cs.Attach("proxy_yaml", string(b))
		g.failf("configuration: LoadConfig refused a proxy.yaml that holds only documented keys: %v", err)
	}
	cfg.Embedder = lit.Embedder
	cfg.CacheVacuumInterval = lit.CacheVacuumInterval
	cfg.LLM.BaseURL = lit.LLM.BaseURL
	cfg.FastLLM.BaseURL = lit.FastLLM.BaseURL
	g.ctx.Count("world.configured_via_proxy_yaml", 1)
	return cfg
}

type c17DownLLM struct{ g *c17Rig }

func (l c17DownLLM) Chat(systemPrompt, userQuery string) (string, error) {
	l.g.llmCalls++
	return "", fmt.Errorf("stub llm: connection refused")
}

func (l c17DownLLM) ChatWithImages(systemPrompt, userQuery string, images [][]byte) (string, error) {
	l.g.llmCalls++
	return "", fmt.Errorf("stub llm: connection refused")
}

func c17Prec(half bool) distance.PrecisionType {
	if half {
		return distance.Float16
	}
	return distance.Float32
}

func (g *c17Rig) must(err error, what string) {
	if err != nil {
		g.failf("harness setup failed (%s): %v", what, err)
	}
}

// c17Transport delivers the reverse proxy's outgoing request to the stub upstream in-process.
type c17Transport struct{ h http.Handler }

func (t c17Transport) RoundTrip(req *http.Request) (*http.Response, error) {
	var body []byte
	if req.Body != nil {
		body, _ = io.ReadAll(req.Body)
		req.Body.Close()
	}
	// What net/http's Transport does with such a request ("http: ContentLength=%d with Body length %d"): a
	// gateway that replaces the body without adjusting the length does not reach a real upstream.
	if req.ContentLength >= 0 && req.ContentLength != int64(len(body)) {
		return nil, fmt.Errorf("http: ContentLength=%d with Body length %d", req.ContentLength, len(body))
	}
	if cl := req.Header.Get("Content-Length"); cl != "" && cl != fmt.Sprint(len(body)) && req.ContentLength < 0 {
		return nil, fmt.Errorf("http: Content-Length header %q with Body length %d", cl, len(body))
	}
	sr := httptest.NewRequest(req.Method, req.URL.String(), bytes.NewReader(body))
	sr.Header = req.Header.Clone()
	rec := httptest.NewRecorder()
	t.h.ServeHTTP(rec, sr)
	resp := rec.Result()
	resp.Request = req
	return resp, nil
}

func (g *c17Rig) close() {
	if g.eng != nil {
		g.eng.Close()
	}
}

// cacheMetric is the metric of the cache index as it exists (auto-created = cosine).
func (g *c17Rig) cacheMetric() distance.DistanceMetric {
	if g.o.CacheLang == "" {
		return distance.Cosine
	}
	return g.o.CacheMetric
}

// ensureCacheIndex makes the cache index exist the way the proxy itself would create it
// (needed before planting an entry in a world where the proxy has not saved anything yet).
func (g *c17Rig) ensureCacheIndex() {
	if g.eng.IndexExists(c17CacheIndex) {
		return
	}
	g.must(g.eng.VCreate(c17CacheIndex, distance.Cosine, 16, 200, distance.Float32, "", nil, nil, nil), "create cache index like saveToCache")
}

func c17Unit(v []float32) []float32 {
	var n float64
	for _, x := range v {
		n += float64(x) * float64(x)
	}
	n = math.Sqrt(n)
	if n == 0 || math.Abs(n-1) < 1e-6 {
		return v
	}
	out := make([]float32, len(v))
	for i, x := range v {
		out[i] = float32(float64(x) / n)
	}
	return out
}

func (g *c17Rig) addForbidden(v []float32) {
	g.addForbiddenAs(fmt.Sprintf("bad_%d", len(g.forbidden)), v)
}

func (g *c17Rig) addForbiddenAs(id string, v []float32) {
	meta := map[string]any{"text": "forbidden prompt " + id}
	g.cs.Op("firewall index += %s %s", id, g.o.FwMem.stamp(g.cs.R, meta))
	g.must(g.eng.VAdd(c17FwIndex, id, v, meta), "add forbidden prompt")
	g.forbidden = append(g.forbidden, c17Stored{ID: id, Vec: v})
}

// deleteForbidden removes stored forbidden prompt i from the index again: from then on only the remaining
// ones count ("within the configured distance of a STORED forbidden prompt").
func (g *c17Rig) deleteForbidden(i int) {
	g.cs.Op("firewall index -= %s", g.forbidden[i].ID)
	g.must(g.eng.VDelete(c17FwIndex, g.forbidden[i].ID), "delete forbidden prompt")
	g.forbidden[i].Deleted = true
}

// liveForbidden lists the indexes (into g.forbidden) of the forbidden prompts currently stored.
func (g *c17Rig) liveForbidden() []int {
	var out []int
	for i, f := range g.forbidden {
		if !f.Deleted {
			out = append(out, i)
		}
	}
	return out
}

func (g *c17Rig) addChunk(id string, v []float32) {
	g.cs.Op("rag index += %q", id)
	g.must(g.eng.VAdd(c17RAGIndex, id, v, map[string]any{"text": "content of " + id}), "add rag chunk")
	g.chunks = append(g.chunks, c17Stored{ID: id, Vec: v})
}

// Ages of planted entries, as multiples of the TTL. Fresh positions are at most TTL/2 (so at least 30 s
// inside the shortest TTL used), old ones at least 1.5*TTL.
const c17ClockMargin = 5 * time.Second

// plant writes a cache entry through the engine in the format saveToCache writes.
// fresh=true: created now or TTL/2 ago; false: 1.5*TTL ago or older than 2*TTL+10s.
func (g *c17Rig) plant(vec []float32, body string, fresh bool, sources []string) *c17Entry {
	var age time.Duration
	if fresh {
		if g.cs.R.Chance(0.4) {
			age = g.o.TTL / 2
		}
	} else {
		age = g.o.TTL + g.o.TTL/2
		if g.cs.R.Chance(0.5) {
			age = 2*g.o.TTL + 10*time.Second + time.Duration(g.cs.R.Intn(5))*g.o.TTL
		}
	}
	return g.plantAged(vec, body, age, sources)
}

func (g *c17Rig) plantAged(vec []float32, body string, age time.Duration, sources []string) *c17Entry {
	g.ensureCacheIndex()
	g.seq++
	now := time.Now()
	id := fmt.Sprintf("cache_%d_%d", now.UnixNano(), g.seq)
	created := now.Add(-age)
	if len(g.entries) < 40 || g.seq%200 == 0 {
		g.cs.Op("plant cache entry %s age=%s (ttl %s) sources=%q", id, age, g.o.TTL, sources)
	}
	meta := map[string]any{
		"query":      "planted " + id,
		"response":   body,
		"created_at": float64(created.Unix()),
		"sources":    strings.Join(sources, " "),
	}
	if g.o.CacheMem != nil && g.o.CacheLang != "" {
		// the cache index is a memory index: the entry also carries the engine's bookkeeping (its own notion of age)
		if l := g.o.CacheMem.stamp(g.cs.R, meta); len(g.entries) < 40 {
			g.cs.Op("  engine bookkeeping of %s: %s", id, l)
		}
	}
	g.must(g.eng.VAdd(c17CacheIndex, id, vec, meta), "plant cache entry")
	en := &c17Entry{ID: id, Vec: vec, Body: body, CreatedLo: created, CreatedHi: created, Sources: sources, Stored: sources, Planted: true}
	g.entries = append(g.entries, en)
	return en
}

// ageClass decides "younger than the TTL" for entry en at harness time now: +1 decisively younger, -1
// decisively older, 0 undecided. created_at is stored in whole seconds and the gateway reads its clock a
// little later than the harness does; both are covered by the margin (requests that take longer than the
// margin allows end the case without a verdict, see judge).
func (g *c17Rig) ageClass(en *c17Entry, now time.Time) int {
	ageMax := now.Sub(en.CreatedLo) + time.Second
	ageMin := now.Sub(en.CreatedHi) - time.Second
	if ageMax+c17ClockMargin < g.o.TTL {
		return +1
	}
	if ageMin-c17ClockMargin > g.o.TTL {
		return -1
	}
	return 0
}

func (g *c17Rig) fresh(en *c17Entry) bool { return g.ageClass(en, time.Now()) == +1 }

func (g *c17Rig) cacheIDs() map[string]bool {
	out := map[string]bool{}
	if !g.eng.IndexExists(c17CacheIndex) {
		return out
	}
	ids, _, err := g.eng.VGetIDsByCursor(c17CacheIndex, 0, 1<<20)
	if err != nil {
		return out
	}
	for _, id := range ids {
		out[id] = true
	}
	return out
}

func (g *c17Rig) cacheCount() int {
	info, err := g.eng.DB.GetSingleVectorIndexInfoAPI(c17CacheIndex)
	if err != nil {
		return 0
	}
	return info.VectorCount
}

// Any goroutine started by code of package proxy (a method of AIProxy today; a helper or worker function after
// a refactoring). The check itself starts no goroutine from this package.
const c17CreatedByProxy = "created by github.com/sanonone/kektordb/pkg/proxy."

// c17Background reports whether a goroutine of the proxy's asynchronous cache work (save or
// expired-entry cleanup) is still alive.
func c17Background() (bool, string) {
	buf := make([]byte, 256<<10)
	for {
		n := runtime.Stack(buf, true)
		if n < len(buf) {
			buf = buf[:n]
			break
		}
		buf = make([]byte, 2*len(buf))
	}
	s := string(buf)
	// Every goroutine the gateway itself starts (go p.saveToCache(...) in ServeHTTP, the expired-entry
	// cleanup in checkCache) carries a "created by …proxy.(*AIProxy).<fn>" line from the moment the go
	// statement has executed, also before it has run its first instruction.
	if strings.Contains(s, c17CreatedByProxy) {
		return true, s
	}
	return false, ""
}

// settle brings the gateway to a quiescent state after a request: it first polls the cache index
// count until it reaches wantCount (cheap, no stop-the-world; skipped when wantCount < 0; gives up after
// 50 ms because an expired entry may have been removed at the same time), then requires that none of the
// proxy's own asynchronous goroutines (cache save, expired-entry cleanup) is alive any more, polling with an
// exponential back-off (a goroutine dump stops the world; on an overloaded host a tight loop would starve the
// very goroutine it waits for). The wait ends without a verdict as soon as no such goroutine exists: from
// then on the index content is final whatever the count is, and the oracle judges the following requests
// against it. Hang rule: if after 120 s such a goroutine is still alive and parked on a lock / channel the
// case is a violation with the dump as witness; if it is still runnable or running the run is inconclusive
// (CPU starvation cannot be told from non-termination here).
func (g *c17Rig) settle(wantCount int) {
	start := time.Now()
	nap := 20 * time.Microsecond
	sleep := func() {
		time.Sleep(nap)
		if nap < 5*time.Millisecond {
			nap *= 2
		}
	}
	if wantCount >= 0 {
		for g.cacheCount() < wantCount && time.Since(start) < 50*time.Millisecond {
			sleep()
		}
	}
	for i := 0; ; i++ {
		alive, dump := c17Background()
		if !alive {
			if wantCount >= 0 {
				if g.cacheCount() >= wantCount {
					g.ctx.Count("cache.save_observed_by_count", 1)
				} else {
					g.ctx.Count("cache.count_not_reached_when_settled", 1)
				}
			}
			return
		}
		if time.Since(start) > 120*time.Second {
			state := ""
			for _, gr := range strings.Split(dump, "\n\n") {
				if strings.Contains(gr, c17CreatedByProxy) {
					if j := strings.Index(gr, "["); j >= 0 {
						if k := strings.Index(gr[j:], "]"); k > 0 {
							state = gr[j+1 : j+k]
						}
					}
				}
			}
			if strings.HasPrefix(state, "runnable") || strings.HasPrefix(state, "running") {
				g.ctx.Inconclusive(fmt.Sprintf("case %s/%d: a goroutine started by AIProxy is still %s after 120 s (CPU starvation or non-termination)", g.cs.Group, g.cs.Idx, state))
				return
			}
			g.cs.Attach("goroutine_dump", strings.Split(dump, "\n"))
			g.failf("asynchronous cache work of the gateway did not finish within 120 s: a goroutine started by AIProxy is parked in state [%s] (dump attached)", state)
		}
		sleep()
		g.ctx.Touch()
	}
}

// ---------------------------------------------------------------------------------------
// requests

type c17Req struct {
	Kind        string    // label of the scenario class
	Text        string    // the latest user message
	Vec         []float32 // designed embedding of Text (nil when Text == "")
	Shape       string    // "messages" | "prompt"
	Before      []message // messages before the latest user message
	After       []message // assistant messages after it
	Stream      bool
	Path        string
	Denied      bool // by construction: Text contains an instance of a deny pattern
	Marker      bool // by construction: Text contains a task-marker phrase
	NearFw      int  // index of the forbidden prompt it is designed near to, or -1
	NearDoc     string
	NoStreamKey bool // non-streaming request that carries an explicit "stream": false
}

func (q *c17Req) body() []byte {
	m := map[string]any{"model": "stub-model"}
	if q.Stream {
		m["stream"] = true
	} else if q.NoStreamKey {
		m["stream"] = false // "a non-streaming request": said explicitly instead of by omission
	}
	// "whatever else the message contains": a third of the requests (chosen by a hash of the
	// latest user message, so that a replay builds the same body) carry what real chat clients
	// send besides the latest user message - sampling parameters, tool definitions, numbers and
	// objects where the gateway itself reads nothing, and an earlier multimodal turn whose
	// content is a list of parts instead of a string. None of it changes what the latest user
	// message is.
	h := uint32(2166136261)
	for i := 0; i < len(q.Text); i++ {
		h = (h ^ uint32(q.Text[i])) * 16777619
	}
	extras := h % 6 // 0,1: typed extras; 1,2: multimodal earlier turn; 3..5: plain
	if extras <= 1 {
		m["temperature"] = 0.2
		m["max_tokens"] = 256
		m["n"] = 1
		m["user"] = 12345
		m["stop"] = []any{"\n\n", "END"}
		m["tools"] = []any{map[string]any{"type": "function", "function": map[string]any{"name": "lookup", "parameters": map[string]any{"type": "object"}}}}
		m["metadata"] = map[string]any{"trace": true, "depth": 3}
	}
	if q.Shape == "prompt" {
		m["prompt"] = q.Text
	} else {
		msgs := []any{}
		if extras == 1 || extras == 2 {
			msgs = append(msgs,
				map[string]any{"role": "user", "content": []any{
					map[string]any{"type": "text", "text": "what is in this picture"},
					map[string]any{"type": "image_url", "image_url": map[string]any{"url": "data:image/png;base64,AAAA"}}}},
				map[string]any{"role": "assistant", "content": "a diagram", "tool_calls": []any{}, "name": nil})
		}
		for _, x := range q.Before {
			msgs = append(msgs, x)
		}
		msgs = append(msgs, message{Role: "user", Content: q.Text})
		for _, x := range q.After {
			msgs = append(msgs, x)
		}
		m["messages"] = msgs
	}
	b, _ := json.Marshal(m)
	return b
}

type c17Resp struct {
	Status   int
	CacheHdr string
	Body     string
	UpDelta  int64
	UpNonce  int64
}

func (g *c17Rig) send(q *c17Req) c17Resp {
	if q.Text != "" {
		g.emb.set(q.Text, q.Vec)
	}
	body := q.body()
	g.cs.Op("request kind=%s path=%s stream=%v body=%s", q.Kind, q.Path, q.Stream, string(body))
	before := g.upN.Load()
	r := httptest.NewRequest("POST", q.Path, bytes.NewReader(body))
	r.Header.Set("Content-Type", "application/json")
	w := httptest.NewRecorder()
	g.p.ServeHTTP(w, r)
	after := g.upN.Load()
	return c17Resp{Status: w.Code, CacheHdr: w.Header().Get("X-Kektor-Cache"), Body: w.Body.String(), UpDelta: after - before, UpNonce: after}
}

// refDenied is the reference pattern decision: some configured pattern matches the latest
// user message case-insensitively.
func (g *c17Rig) refDenied(text string) bool {
	if !g.o.FirewallEnabled {
		return false
	}
	for _, re := range g.denyRe {
		if re.MatchString(text) {
			return true
		}
	}
	return false
}

type c17Verdict struct {
	Outcome string // "blocked" | "hit" | "forward" | "either" (hit from a Maybe entry, or forward) | "unjudged"
	Why     string
	Bodies  []string // acceptable bodies for a hit
	MinFw   float64  // min distance to a forbidden prompt (+Inf if none)
	MinCa   float64  // min distance to a servable cache entry (+Inf if none)
}

// reference computes what the property demands for request q in the current world. It fails
// the case with a harness error if a distance is not designed (neither <= T/2 nor >= 2T).
func (g *c17Rig) reference(q *c17Req) c17Verdict {
	v := c17Verdict{MinFw: math.Inf(1), MinCa: math.Inf(1)}
	denied := g.refDenied(q.Text)
	if g.o.FirewallEnabled && denied != q.Denied {
		g.failf("HARNESS BUG: prompt %q constructed denied=%v but the reference matcher says %v", q.Text, q.Denied, denied)
	}
	semantic := false
	if g.o.FirewallEnabled && q.Vec != nil {
		for _, f := range g.forbidden {
			if f.Deleted {
				continue
			}
			d := c17Dist(g.o.FwMetric, q.Vec, f.Vec)
			if d < v.MinFw {
				v.MinFw = d
			}
			switch c17Class(g.o.FwMetric, d, g.o.Tf) {
			case +1:
				semantic = true
			case 0:
				g.failf("HARNESS BUG: undesigned firewall distance %.6f (T=%g, %s) for %q vs %s", d, g.o.Tf, g.o.FwMetric, q.Text, f.ID)
			}
		}
	}
	if denied || semantic {
		v.Outcome = "blocked"
		switch {
		case denied && semantic:
			v.Why = "pattern+semantic"
		case denied:
			v.Why = "pattern"
		default:
			v.Why = "semantic"
		}
		return v
	}
	if g.o.CacheEnabled && q.Vec != nil {
		cm := g.cacheMetric()
		now := time.Now()
		var maybe []string
		for _, en := range g.entries {
			if en.Removed {
				continue
			}
			d := c17Dist(cm, q.Vec, en.Vec)
			cl := c17Class(cm, d, g.o.Tc)
			if cl == 0 {
				g.failf("HARNESS BUG: undesigned cache distance %.6f (T=%g, %s) for %q vs entry %s", d, g.o.Tc, cm, q.Text, en.ID)
			}
			if cl != +1 {
				continue
			}
			switch g.ageClass(en, now) {
			case 0:
				// the harness clock cannot tell any more whether this entry is younger than the TTL
				v.Outcome, v.Why = "unjudged", "clock"
				return v
			case +1:
				if en.Maybe {
					maybe = append(maybe, en.Body)
					continue
				}
				if d < v.MinCa {
					v.MinCa = d
				}
				v.Bodies = append(v.Bodies, en.Body)
			}
		}
		if (len(v.Bodies) > 0 || len(maybe) > 0) && !q.Stream {
			if q.Marker || q.Text == "" {
				// the property's cache clause is not judged for pass-through prompts (see assumptions):
				// the generator drops such a request, judge() refuses it
				v.Outcome = "unjudged"
				v.Why = "pass-through prompt within the cache distance of an entry"
				return v
			}
			if len(v.Bodies) == 0 {
				v.Outcome, v.Why, v.Bodies = "either", "entry-not-required", maybe
				return v
			}
			v.Bodies = append(v.Bodies, maybe...)
			v.Outcome = "hit"
			v.Why = "cached"
			return v
		}
	}
	v.Outcome = "forward"
	v.Why = "clean"
	return v
}

func c17Trunc(s string, n int) string {
	if len(s) > n {
		return s[:n] + fmt.Sprintf("…(%d bytes)", len(s))
	}
	return s
}

// judge sends q, compares with the reference and updates the model. It returns the verdict
// and the response.
func (g *c17Rig) judge(q *c17Req) (c17Verdict, c17Resp) {
	want := g.reference(q)
	if want.Outcome == "unjudged" {
		if want.Why == "clock" {
			panic(c17Quiet{"clock_undecided"})
		}
		g.failf("HARNESS BUG: %s (kind=%s text=%q)", want.Why, q.Kind, q.Text)
	}
	idsBefore := map[string]bool{}
	cntBefore := 0
	if g.o.CacheEnabled {
		idsBefore = g.cacheIDs()
		cntBefore = g.cacheCount()
	}
	tBefore := time.Now()
	got := g.send(q)
	if g.o.CacheEnabled && time.Since(tBefore) > c17ClockMargin-time.Second {
		// the gateway may have read its clock up to that much later than the reference did: with entries at
		// designed ages the verdict would depend on the host's speed. No verdict; the case ends.
		panic(c17Quiet{"request_slower_than_clock_margin"})
	}
	if n := len(g.emb.misses); n > g.missSeen {
		g.ctx.Count("embed.text_other_than_latest_user_message", int64(n-g.missSeen))
		g.cs.Attach("gateway_embedded_other_texts", append([]string(nil), g.emb.misses...))
		g.missSeen = n
	}
	desc := fmt.Sprintf("kind=%s shape=%s stream=%v latest user message %q (min distance to forbidden=%.4g T=%g %s; min distance to fresh cache entry=%.4g T=%g)",
		q.Kind, q.Shape, q.Stream, q.Text, want.MinFw, g.o.Tf, g.o.FwMetric, want.MinCa, g.o.Tc)
	g.cs.Attach("last_request", map[string]any{"body": string(q.body()), "expected": want.Outcome + "/" + want.Why,
		"status": got.Status, "x_kektor_cache": got.CacheHdr, "upstream_delta": got.UpDelta, "response": c17Trunc(got.Body, 2000), "world": g.o.String()})
	outcome := want.Outcome
	if outcome == "either" {
		// a fresh entry within the cache distance exists that the check does not require (the gateway chose to
		// store the answer to a streaming / task request): serving it and forwarding both satisfy the property
		if got.CacheHdr == "HIT" {
			outcome = "hit"
		} else {
			outcome = "forward"
		}
	}
	annMissed := false
	switch outcome {
	case "blocked":
		// clause: "... is refused and never reaches the upstream model"
		if (got.UpDelta != 0 || got.Status < 400 || got.Status > 499) && want.Why == "semantic" && g.annMiss(q, "blocked") {
			annMissed = true
			break
		}
		if (got.UpDelta != 0 || got.Status < 400 || got.Status > 499) && want.Why != "pattern" {
			g.cs.Attach("firewall_index_at_miss", g.fwDiag(q))
		}
		if got.UpDelta != 0 {
			g.failf("firewall: request that must be refused (%s) reached the upstream model (%d upstream request(s), status %d): %s", want.Why, got.UpDelta, got.Status, desc)
		}
		if got.Status < 400 || got.Status > 499 {
			g.failf("firewall: request that must be refused (%s) was answered with status %d (X-Kektor-Cache=%q) instead of a 4xx: %s", want.Why, got.Status, got.CacheHdr, desc)
		}
	case "hit":
		// clause: "... is answered with that stored response without contacting upstream"
		if got.UpDelta != 0 && got.CacheHdr != "HIT" && g.annMiss(q, "hit") {
			annMissed = true
			break
		}
		if got.UpDelta != 0 {
			g.cs.Attach("cache_index_at_miss", g.cacheDiag(q))
			g.failf("cache: request within the cache distance of a previously answered one contacted the upstream (%d request(s), status %d, X-Kektor-Cache=%q): %s", got.UpDelta, got.Status, got.CacheHdr, desc)
		}
		if got.CacheHdr != "HIT" {
			g.failf("cache: expected X-Kektor-Cache: HIT, got %q (status %d): %s", got.CacheHdr, got.Status, desc)
		}
		if got.Status != 200 {
			g.failf("cache: the stored response was delivered with status %d instead of 200: %s", got.Status, desc)
		}
		ok := false
		for _, b := range want.Bodies {
			if b == got.Body {
				ok = true
			}
		}
		if !ok {
			var acc []string
			for _, b := range want.Bodies {
				acc = append(acc, c17Trunc(b, 300))
			}
			g.failf("cache: HIT body (%d bytes) %q is not the stored response of an entry within the cache distance (acceptable: %q): %s", len(got.Body), c17Trunc(got.Body, 300), acc, desc)
		}
	case "forward":
		// clauses: "a message matching no pattern and far from every forbidden prompt is forwarded",
		// "a request farther than that from every stored query always reaches upstream"
		if got.CacheHdr == "HIT" {
			g.failf("cache: request that must reach the upstream was served from the cache (body %q): %s", c17Trunc(got.Body, 300), desc)
		}
		if got.UpDelta < 1 {
			g.failf("request that must be forwarded produced %d upstream requests (status %d, body %q): %s", got.UpDelta, got.Status, c17Trunc(got.Body, 300), desc)
		}
		g.upMu.Lock()
		relayed := false
		var upBody, upReq string
		for n := got.UpNonce - got.UpDelta + 1; n <= got.UpNonce; n++ {
			if g.upBy[n] == got.Body {
				relayed, upBody, upReq = true, g.upBy[n], g.upRq[n]
			}
		}
		if !relayed {
			upBody, upReq = g.upBy[got.UpNonce], g.upRq[got.UpNonce]
		}
		g.upMu.Unlock()
		if got.Status != 200 || !relayed {
			g.failf("forwarded request did not return the upstream's answer (status %d body (%d bytes) %q, upstream sent (%d bytes) %q): %s", got.Status, len(got.Body), c17Trunc(got.Body, 300), len(upBody), c17Trunc(upBody, 300), desc)
		}
		if msg := g.forwardedIntact(q, upReq); msg != "" {
			g.cs.Attach("upstream_received", c17Trunc(upReq, 4000))
			g.failf("the request that reached the upstream is not the client's request: %s: %s", msg, desc)
		}
	}
	// model update + wait for the asynchronous save
	if g.o.CacheEnabled {
		cacheable := (outcome == "forward" || annMissed && got.UpDelta >= 1 && got.Status == 200) && !q.Stream && !q.Marker && q.Text != ""
		if cacheable {
			g.settle(cntBefore + 1)
		} else {
			g.settle(-1)
		}
		tAfter := time.Now()
		var fresh []string
		for id := range g.cacheIDs() {
			if !idsBefore[id] {
				fresh = append(fresh, id)
			}
		}
		sort.Strings(fresh)
		if cacheable {
			// "previously answered": from now on a request within the cache distance must be served this answer
			en := &c17Entry{Vec: q.Vec, Body: got.Body, CreatedLo: tBefore, CreatedHi: tAfter}
			if len(fresh) >= 1 {
				en.ID = fresh[0]
				if d, err := g.eng.VGet(c17CacheIndex, en.ID); err == nil {
					if s, ok := d.Metadata["sources"].(string); ok {
						en.Stored = strings.Fields(s)
					}
					g.createdAtInBracket(en.ID, d.Metadata["created_at"], tBefore, tAfter, desc)
				}
			}
			en.Sources = en.Stored
			if g.o.RAG {
				g.upMu.Lock()
				upReq := g.upRq[got.UpNonce]
				g.upMu.Unlock()
				// "cached answers that cite it": the answer was produced from the chunks whose text the upstream was sent
				en.Sources = c17InjectedChunks(upReq)
				if diff := c17SetDiff(en.Sources, en.Stored); len(diff) > 0 && en.ID != "" {
					g.ctx.Count("invalidate.stored_sources_differ_from_injected", 1)
					g.cs.Op("entry %s: stored sources %q, chunks sent upstream %q", en.ID, en.Stored, en.Sources)
					g.cs.Attach("sources_mismatch", map[string]any{"entry": en.ID, "stored_sources": en.Stored, "chunks_sent_upstream": en.Sources})
					g.suspectDocs = append(g.suspectDocs, diff...)
				}
			}
			g.entries = append(g.entries, en)
			// further entries created by the same answer (same query vector, same body) are modelled too
			for _, id := range fresh[min(1, len(fresh)):] {
				g.ctx.Count("cache.extra_entry_for_one_answer", 1)
				g.entries = append(g.entries, &c17Entry{ID: id, Vec: q.Vec, Body: got.Body, CreatedLo: tBefore, CreatedHi: tAfter, Sources: en.Sources, Stored: en.Stored})
			}
		} else if outcome == "forward" && q.Vec != nil {
			// the check does not require this answer to be cached; if the gateway stored it nevertheless, later
			// requests near it may be served from it (the property allows that: it was "previously answered")
			for _, id := range fresh {
				d, err := g.eng.VGet(c17CacheIndex, id)
				if err != nil {
					continue
				}
				body, _ := d.Metadata["response"].(string)
				g.ctx.Count("cache.entry_not_required", 1)
				g.entries = append(g.entries, &c17Entry{ID: id, Vec: q.Vec, Body: body, CreatedLo: tBefore, CreatedHi: tAfter, Maybe: true})
			}
		}
	}
	if annMissed {
		want.Outcome, want.Why = "ann_miss", outcome
	}
	return want, got
}

// createdAtInBracket is the read-out behind "younger than the TTL" for an answer the gateway stored itself: the
// creation time the entry carries — Unix seconds, the format of the cache index (properties.jsonl: "cache entries
// carry response, created_at and space-separated sources"; the format the lookup reads and the check plants
// entries in) — must lie between the two harness clock samples taken around the request that produced it (one
// second of slack on each side for the truncation to whole seconds). An entry stamped outside that bracket is
// judged against the TTL as if it had been answered at another time: it expires early, late or never.
func (g *c17Rig) createdAtInBracket(id string, v any, tBefore, tAfter time.Time, desc string) {
	if g.o.TTL <= 0 {
		return
	}
	g.ctx.Count("cache.created_at_of_saved_entry_read", 1)
	f, ok := v.(float64)
	if !ok {
		g.failf("cache: the entry %s the gateway stored for this answer carries no usable creation time (created_at = %#v): it can never be judged against the TTL of %s: %s", id, v, g.o.TTL, desc)
	}
	lo, hi := tBefore.Unix()-1, tAfter.Unix()+1
	if sec := int64(f); sec < lo || sec > hi {
		g.failf("cache: the entry %s the gateway stored for this answer is stamped created_at = %.0f, read as Unix seconds %s; the request was made between %s and %s on the same clock, so the entry's age is off by %s and a TTL of %s is applied to the wrong age: %s",
			id, f, time.Unix(sec, 0).UTC().Format(time.RFC3339), tBefore.UTC().Format(time.RFC3339), tAfter.UTC().Format(time.RFC3339), time.Unix(sec, 0).Sub(tBefore).Round(time.Second), g.o.TTL, desc)
	}
}

// waitAllExpired sleeps until the harness clock says of every live entry that it is decisively older than the
// TTL (ageClass -1). Waiting longer — a loaded host — only makes the entries older: no verdict depends on how
// long this takes.
func (g *c17Rig) waitAllExpired() {
	g.cs.Op("wait until every cache entry is older than the TTL of %s (+ %s margin)", g.o.TTL, c17ClockMargin+time.Second)
	for {
		now, all := time.Now(), true
		for _, en := range g.entries {
			if !en.Removed && g.ageClass(en, now) != -1 {
				all = false
			}
		}
		if all {
			return
		}
		time.Sleep(100 * time.Millisecond)
		g.ctx.Touch()
	}
}

// c17ExhaustiveBelow: up to 2*M = 32 vectors the engine's search is exhaustive (property C07); above that it is
// an approximate (HNSW) search whose recall is C07's business, not the gateway's.
const c17ExhaustiveBelow = 32

// annMiss is consulted when the gateway did not refuse / did not serve a request that the brute-force reference
// says it must, on an index too large for the engine's search to be exhaustive. It asks the engine the way the
// gateway does (VSearchWithScores with the gateway's beam of 64) and reports true when the ENGINE's own answer
// contains no stored vector within the threshold either (for the cache: no servable entry): the gateway was never
// shown the neighbour, so its decision is not judged (counted as ann_miss; bounded by c17AnnFloor). When the
// engine's answer does contain one and the gateway still decided wrongly, that is the gateway's violation.
func (g *c17Rig) annMiss(q *c17Req, kind string) bool {
	const beam = 64
	if kind == "blocked" {
		if len(g.liveForbidden()) <= c17ExhaustiveBelow {
			return false
		}
		res, err := g.eng.VSearchWithScores(c17FwIndex, q.Vec, beam)
		if err != nil {
			return false
		}
		for _, r := range res {
			for _, f := range g.forbidden {
				if f.ID == r.ID && !f.Deleted && c17Class(g.o.FwMetric, c17Dist(g.o.FwMetric, q.Vec, f.Vec), g.o.Tf) == +1 {
					return false
				}
			}
		}
		return true
	}
	live := 0
	for _, en := range g.entries {
		if !en.Removed {
			live++
		}
	}
	if live <= c17ExhaustiveBelow {
		return false
	}
	res, err := g.eng.VSearchWithScores(c17CacheIndex, q.Vec, beam)
	if err != nil {
		return false
	}
	cm := g.cacheMetric()
	now := time.Now()
	for _, r := range res {
		for _, en := range g.entries {
			if en.ID == r.ID && !en.Removed && g.ageClass(en, now) == +1 && c17Class(cm, c17Dist(cm, q.Vec, en.Vec), g.o.Tc) == +1 {
				return false
			}
		}
	}
	return true
}

// c17AnnFloor bounds the requests left unjudged as ann_miss in one group of one process, so that a regression of
// the gateway's beam is still caught: more than max(2, 0.4 % of the decided near-requests) is a violation.
// Calibrated: beam 64: 0 misses in ~3000 near-requests on 40..2000 vectors; beam 1 at n >= 1200: 0.6-2 %.
func c17AnnFloor(ctx *vkit.Ctx, group string) {
	miss, near := ctx.Counter(group+".ann_miss"), ctx.Counter(group+".near_decided")
	if limit := max(2, near*4/1000); miss > limit {
		ctx.Violation(group+":ann_floor", 0, fmt.Sprintf("group %s: %d requests that must be refused / served from the cache were not, and the engine's own beam-64 search did not return the neighbour either (ann_miss); more than the calibrated floor of %d for %d decided near-requests — the lookups' recall has regressed (beam narrower than 64?)", group, miss, limit, near), nil, nil)
	}
}

// forwardedIntact compares what the upstream received with what the client sent ("is forwarded" / "reaches
// upstream": the upstream must get the client's request). Without RAG the two must be the same JSON document;
// with RAG the gateway rewrites the last message by design, so only the presence of the latest user message is
// required. Returns "" when fine.
func (g *c17Rig) forwardedIntact(q *c17Req, upReq string) string {
	var sent, rcvd any
	if err := json.Unmarshal(q.body(), &sent); err != nil {
		return ""
	}
	if err := json.Unmarshal([]byte(upReq), &rcvd); err != nil {
		return fmt.Sprintf("the upstream received %d bytes that are not a JSON document (%v)", len(upReq), err)
	}
	if !g.o.RAG {
		if !reflect.DeepEqual(sent, rcvd) {
			return "the JSON document the upstream received differs from the one the client sent"
		}
		return ""
	}
	if q.Text != "" && !strings.Contains(c17LastContent(rcvd), q.Text) {
		return "the latest user message is missing from the prompt / last message the upstream received"
	}
	return ""
}

// c17LastContent is the text the upstream model is asked to answer: `prompt`, or the content of the last message.
func c17LastContent(doc any) string {
	m, _ := doc.(map[string]any)
	if p, ok := m["prompt"].(string); ok {
		return p
	}
	msgs, _ := m["messages"].([]any)
	for i := len(msgs) - 1; i >= 0; i-- {
		mm, _ := msgs[i].(map[string]any)
		if role, _ := mm["role"].(string); role == "user" {
			c, _ := mm["content"].(string)
			return c
		}
	}
	return ""
}

// c17InjectedChunks lists the ids of the RAG chunks whose text ("content of <id>", one per line, see addChunk)
// is part of the request the upstream received.
func c17InjectedChunks(upReq string) []string {
	var doc any
	if json.Unmarshal([]byte(upReq), &doc) != nil {
		return nil
	}
	seen := map[string]bool{}
	var out []string
	var all strings.Builder
	if m, ok := doc.(map[string]any); ok {
		if p, ok := m["prompt"].(string); ok {
			all.WriteString(p + "\n")
		}
		msgs, _ := m["messages"].([]any)
		for _, x := range msgs {
			if mm, ok := x.(map[string]any); ok {
				if c, ok := mm["content"].(string); ok {
					all.WriteString(c + "\n")
				}
			}
		}
	}
	for _, line := range strings.Split(all.String(), "\n") {
		if id, ok := strings.CutPrefix(line, "content of "); ok && !seen[id] {
			seen[id] = true
			out = append(out, id)
		}
	}
	sort.Strings(out)
	return out
}

// c17SetDiff returns the symmetric difference of two id lists.
func c17SetDiff(a, b []string) []string {
	in := func(x string, l []string) bool {
		for _, y := range l {
			if x == y {
				return true
			}
		}
		return false
	}
	var out []string
	for _, x := range a {
		if !in(x, b) {
			out = append(out, x)
		}
	}
	for _, x := range b {
		if !in(x, a) {
			out = append(out, x)
		}
	}
	return out
}

// invalidate posts /cache/invalidate and checks the index content: exactly the entries that
// cite doc are gone.
func (g *c17Rig) invalidate(doc string) (cited, kept int) {
	b, _ := json.Marshal(map[string]string{"document_id": doc})
	g.cs.Op("POST /cache/invalidate %s", string(b))
	present := g.cacheIDs()
	now := time.Now()
	r := httptest.NewRequest("POST", "/cache/invalidate", bytes.NewReader(b))
	w := httptest.NewRecorder()
	g.p.ServeHTTP(w, r)
	g.settle(-1)
	after := g.cacheIDs()
	for _, en := range g.entries {
		if en.ID == "" || en.Removed || !present[en.ID] {
			continue
		}
		cites := false
		for _, s := range en.Sources {
			if s == doc {
				cites = true
			}
		}
		if cites {
			cited++
			if after[en.ID] {
				g.cs.Attach("invalidate_response", w.Body.String())
				g.failf("invalidation of document %q left cache entry %s (cites %q, stored sources %q) in the cache index (response: %s)", doc, en.ID, en.Sources, en.Stored, strings.TrimSpace(w.Body.String()))
			}
			en.Removed = true
		} else if g.ageClass(en, now) == +1 {
			// (an expired entry may legitimately disappear at any time: the gateway cleans up lazily)
			kept++
			if !after[en.ID] {
				g.cs.Attach("invalidate_response", w.Body.String())
				g.failf("invalidation of document %q removed cache entry %s which does not cite it (cites %q, stored sources %q) (response: %s)", doc, en.ID, en.Sources, en.Stored, strings.TrimSpace(w.Body.String()))
			}
		}
	}
	return cited, kept
}

// fwDiag describes what the engine's own search on the forbidden-prompt index returns for q, in the engine's rank
// order, next to the true distance of every returned prompt (witness material for a prompt that was not refused:
// on a memory index the best-ranked prompt need not be the nearest one).
func (g *c17Rig) fwDiag(q *c17Req) map[string]any {
	out := map[string]any{"firewall_index_memory_config": g.o.FwMem.String()}
	res, err := g.eng.VSearchWithScores(c17FwIndex, q.Vec, 10)
	out["engine_top10_err"] = fmt.Sprint(err)
	var l []string
	for rank, r := range res {
		line := fmt.Sprintf("rank %d: %s score=%.6g", rank, r.ID, r.Score)
		if r.Breakdown != nil {
			line += fmt.Sprintf(" similarity=%.6g decay_factor=%.6g", r.Breakdown.Similarity, r.Breakdown.DecayFactor)
		}
		for _, f := range g.forbidden {
			if f.ID == r.ID && !f.Deleted {
				line += fmt.Sprintf(" true_distance=%.6g (threshold %g)", c17Dist(g.o.FwMetric, q.Vec, f.Vec), g.o.Tf)
			}
		}
		l = append(l, line)
	}
	out["engine_top10_in_rank_order"] = l
	return out
}

// cacheDiag describes what the engine's own search on the cache index returns for q and the
// node table of that index (witness material for a missed cache hit).
func (g *c17Rig) cacheDiag(q *c17Req) map[string]any {
	out := map[string]any{}
	res, err := g.eng.VSearchWithScores(c17CacheIndex, q.Vec, 10)
	out["engine_top10_err"] = fmt.Sprint(err)
	var l []string
	for _, r := range res {
		l = append(l, fmt.Sprintf("%s score=%v", r.ID, r.Score))
	}
	out["engine_top10"] = l
	var ents []string
	cm := g.cacheMetric()
	for i, en := range g.entries {
		if i >= 64 {
			break
		}
		_, gerr := g.eng.VGet(c17CacheIndex, en.ID)
		ents = append(ents, fmt.Sprintf("%s removed=%v fresh=%v dist=%.4g vget_err=%v", en.ID, en.Removed, g.fresh(en), c17Dist(cm, q.Vec, en.Vec), gerr))
	}
	out["model_entries"] = ents
	if idx, ok := g.eng.DB.GetVectorIndex(c17CacheIndex); ok {
		if h, ok := idx.(*hnsw.Index); ok {
			var nodes []string
			nm, _, _, entry, maxLevel, _, _, _, _, _ := h.SnapshotData()
			for iid, n := range nm {
				if len(nodes) >= 64 {
					break
				}
				nodes = append(nodes, fmt.Sprintf("%d %s deleted=%v conns=%v", iid, n.Id, n.Deleted.Load(), n.Connections))
			}
			sort.Strings(nodes)
			out["nodes"] = nodes
			out["entry_maxlevel"] = fmt.Sprintf("entry=%d maxLevel=%d", entry, maxLevel)
		}
	}
	return out
}

package proxy

// C17 — fixed scenarios of the recorded findings (see known_findings.json). Each probe runs a
// few minimal sub-scenarios through the same oracle as the random groups and reports every
// sub-scenario that fails.

import (
	"fmt"
	"strings"
	"time"

	"github.com/sanonone/kektordb/internal/zzverif/vkit"
	"github.com/sanonone/kektordb/pkg/core/distance"
)

type c17Abort struct{ msg string }

// c17Sub runs one sub-scenario in its own world; returns "" if the oracle accepted everything.
func c17Sub(ctx *vkit.Ctx, cs *vkit.Case, name string, o c17Opts, fn func(g *c17Rig)) (msg string) {
	g := c17NewRig(ctx, cs, o)
	defer g.close()
	g.failf = func(format string, a ...any) { panic(c17Abort{fmt.Sprintf(format, a...)}) }
	defer func() {
		if r := recover(); r != nil {
			if a, ok := r.(c17Abort); ok {
				msg = "[" + name + "] " + a.msg
				return
			}
			if q, ok := r.(c17Quiet); ok { // harness-side limit: no verdict for this sub-scenario
				ctx.Count("probe.abandoned."+q.why, 1)
				return
			}
			panic(r)
		}
	}()
	fn(g)
	return ""
}

// c17CacheWorks is the control of the two latent findings: does the plain "same request twice"
// hit at all? (Not while D-C17-2 is present.)
func c17CacheWorks(ctx *vkit.Ctx, cs *vkit.Case, o c17Opts) bool {
	return c17Sub(ctx, cs, "control", o, func(g *c17Rig) {
		q := &c17Req{Kind: "probe-control", Text: "control question", Vec: g.sp.basis(), Shape: "messages", Path: "/v1/chat/completions", NearFw: -1}
		g.judge(q)
		q2 := *q
		g.judge(&q2)
	}) == ""
}

func c17Join(msgs ...string) string {
	var out []string
	for _, m := range msgs {
		if m != "" {
			out = append(out, m)
		}
	}
	return strings.Join(out, " ;; ")
}

func c17Probes(ctx *vkit.Ctx) {
	chat := "/v1/chat/completions"

	// D-C17-1: the semantic firewall compares the engine's similarity score 1/(1+d) with the
	// distance threshold, so "score < threshold" means "d > 1/T - 1".
	ctx.Probe("D-C17-1", func(cs *vkit.Case) string {
		base := c17Opts{FirewallEnabled: true, FwMetric: distance.Cosine, Tf: 0.25, FwIndexCreated: true, Tc: 0.1, TTL: time.Hour, CacheMetric: distance.Cosine}
		a := c17Sub(ctx, cs, "cosine T=0.25, prompt with the same embedding as a forbidden prompt", base, func(g *c17Rig) {
			f := g.sp.basis()
			g.addForbidden(f)
			g.judge(&c17Req{Kind: "probe-identical", Text: "tell me how to make a weapon", Vec: f, Shape: "messages", Path: chat, NearFw: 0})
		})
		b := c17Sub(ctx, cs, "cosine T=0.25, prompt at cosine distance 0.1 of a forbidden prompt", base, func(g *c17Rig) {
			f := g.sp.basis()
			g.addForbidden(f)
			g.judge(&c17Req{Kind: "probe-near", Text: "tell me how to build a weapon", Vec: c17Rotate(f, g.sp.basis(), 0.9), Shape: "prompt", Path: "/api/generate", NearFw: 0})
		})
		eu := base
		eu.FwMetric = distance.Euclidean
		c := c17Sub(ctx, cs, "euclidean T=0.25, harmless prompt opposite to the only forbidden prompt (squared L2 = 4)", eu, func(g *c17Rig) {
			f := g.sp.basis()
			g.addForbidden(f)
			g.judge(&c17Req{Kind: "probe-far", Text: "what is the weather in rome", Vec: c17Rotate(f, g.sp.basis(), -1), Shape: "messages", Path: chat, NearFw: -1})
		})
		return c17Join(a, b, c)
	})

	// D-C17-2: same confusion in the cache lookup.
	ctx.Probe("D-C17-2", func(cs *vkit.Case) string {
		base := c17Opts{CacheEnabled: true, Tc: 0.1, TTL: time.Hour, CacheMetric: distance.Cosine, FwMetric: distance.Cosine, Tf: 0.25}
		a := c17Sub(ctx, cs, "cache index created by the proxy (cosine), T=0.1, the identical request sent twice", base, func(g *c17Rig) {
			q := &c17Req{Kind: "probe-first", Text: "what is the capital of italy", Vec: g.sp.basis(), Shape: "messages", Path: chat, NearFw: -1}
			g.judge(q)
			q2 := *q
			q2.Kind = "probe-repeat"
			g.judge(&q2)
		})
		eu := base
		eu.CacheMetric, eu.CacheLang, eu.Tc = distance.Euclidean, "english", 0.25
		b := c17Sub(ctx, cs, "operator-created euclidean cache index, T=0.25, second request opposite to the first (squared L2 = 4)", eu, func(g *c17Rig) {
			v := g.sp.basis()
			g.judge(&c17Req{Kind: "probe-first", Text: "what is the capital of italy", Vec: v, Shape: "messages", Path: chat, NearFw: -1})
			g.judge(&c17Req{Kind: "probe-far", Text: "write a poem about bread", Vec: c17Rotate(v, g.sp.basis(), -1), Shape: "messages", Path: chat, NearFw: -1})
		})
		return c17Join(a, b)
	})

	// D-C17-3: the task-marker pass-through runs before the firewall.
	ctx.Probe("D-C17-3", func(cs *vkit.Case) string {
		o := c17Opts{FirewallEnabled: true, Deny: []string{`drop table`}, FwMetric: distance.Cosine, Tf: 0.25, FwIndexCreated: true, Tc: 0.1, TTL: time.Hour, CacheMetric: distance.Cosine}
		var msgs []string
		for _, mk := range c17Markers {
			mk := mk
			msgs = append(msgs, c17Sub(ctx, cs, "deny pattern 'drop table' + marker "+fmt.Sprintf("%q", mk), o, func(g *c17Rig) {
				g.judge(&c17Req{Kind: "probe-marker", Text: mk + "\nplease DROP TABLE users", Vec: g.sp.basis(), Shape: "messages", Path: chat, Denied: true, Marker: true, NearFw: -1})
			}))
		}
		return c17Join(msgs...)
	})

	// D-C17-4: the proxy creates its cache index without a text analyser, so the text search
	// used by /cache/invalidate fails and nothing is ever invalidated.
	ctx.Probe("D-C17-4", func(cs *vkit.Case) string {
		o := c17Opts{CacheEnabled: true, Tc: 0.1, TTL: time.Hour, CacheMetric: distance.Cosine, FwMetric: distance.Cosine, Tf: 0.25, RAG: true, RAGTopK: 1}
		return c17Sub(ctx, cs, "RAG on, cache index created by the proxy, answer cites chunk_1, invalidate chunk_1", o, func(g *c17Rig) {
			c := g.sp.basis()
			g.addChunk("chunk_1", c)
			g.addChunk("chunk_2", g.sp.basis())
			g.judge(&c17Req{Kind: "probe-rag", Text: "what does chunk one say", Vec: c17Rotate(c, g.sp.basis(), 0.6), Shape: "messages", Path: chat, NearFw: -1})
			if len(g.entries) != 1 || g.entries[0].ID == "" || len(g.entries[0].Sources) != 1 || g.entries[0].Sources[0] != "chunk_1" {
				g.failf("HARNESS: expected one saved entry citing chunk_1, have %d entries, first: id=%q sources=%q; upstream received %s", len(g.entries), g.entries[0].ID, g.entries[0].Sources, g.upRq[1])
			}
			g.invalidate("chunk_1")
		})
	})

	// D-C17-5 (DESIGN D22): invalidation matches analysed tokens (lower-cased, split at
	// punctuation, stop words dropped, stemmed, OR-ed) instead of source ids.
	ctx.Probe("D-C17-5", func(cs *vkit.Case) string {
		o := c17Opts{CacheEnabled: true, Tc: 0.1, TTL: time.Hour, CacheMetric: distance.Cosine, CacheLang: "english", FwMetric: distance.Cosine, Tf: 0.25}
		pair := func(name, citedByA, citedByB, invalidate string) string {
			return c17Sub(ctx, cs, name, o, func(g *c17Rig) {
				g.plant(g.sp.basis(), `{"answer":"A"}`, true, []string{citedByA})
				g.plant(g.sp.basis(), `{"answer":"B"}`, true, []string{citedByB})
				g.invalidate(invalidate)
			})
		}
		return c17Join(
			pair("entries citing doc-1 and doc-2, invalidate doc-1", "doc-1", "doc-2", "doc-1"),
			pair("entries citing docs/a.md_0 and docs/b.md_0, invalidate docs/a.md_0", "docs/a.md_0", "docs/b.md_0", "docs/a.md_0"),
			pair("entries citing Doc_1 and doc_1, invalidate doc_1", "doc_1", "Doc_1", "doc_1"),
			pair("entries citing report and reports, invalidate report", "report", "reports", "report"),
			pair("entries citing the and readme, invalidate the", "the", "readme", "the"),
		)
	})
	// D-C17-6 (DESIGN D20 seen through the gateway): once every node of the top level of the tiny cache
	// index has been deleted (here: the only entry expires and is cleaned up by the lookup), answers saved
	// afterwards are not found by the engine's top-1 search, so the cache stays blind. (The expiry path
	// shows the same, but there the cleanup VDelete races with the save; the invalidation path is synchronous.)
	// Observable only when the cache can hit at all, i.e. once D-C17-2 is repaired.
	ctx.Probe("D-C17-6", func(cs *vkit.Case) string {
		o := c17Opts{CacheEnabled: true, Tc: 0.1, TTL: time.Hour, CacheMetric: distance.Cosine, CacheLang: "english", FwMetric: distance.Cosine, Tf: 0.25}
		if !c17CacheWorks(ctx, cs, o) {
			ctx.Count("probe.D-C17-6.masked_by_D-C17-2", 1)
			return ""
		}
		return c17Sub(ctx, cs, "the only cache entry (cites chunk_1) is invalidated; a new question is answered and saved; the same question again", o, func(g *c17Rig) {
			g.plant(g.sp.basis(), `{"planted":"cites chunk_1"}`, true, []string{"chunk_1"})
			g.invalidate("chunk_1")
			q := &c17Req{Kind: "probe-after-invalidation", Text: "what is the capital of italy", Vec: g.sp.basis(), Shape: "messages", Path: chat, NearFw: -1}
			g.judge(q)
			q2 := *q
			q2.Kind = "probe-repeat-after-invalidation"
			g.judge(&q2)
		})
	})

	// D-C17-7: checkCache looks at the single nearest entry only; when that one is expired the request is
	// a miss even though a fresh entry lies within the cache distance too (proxy.go:409-423).
	// Observable only once D-C17-2 is repaired.
	ctx.Probe("D-C17-7", func(cs *vkit.Case) string {
		o := c17Opts{CacheEnabled: true, Tc: 0.25, TTL: time.Minute, CacheMetric: distance.Cosine, FwMetric: distance.Cosine, Tf: 0.25}
		if !c17CacheWorks(ctx, cs, o) {
			ctx.Count("probe.D-C17-7.masked_by_D-C17-2", 1)
			return ""
		}
		return c17Sub(ctx, cs, "T=0.25 TTL=1m: fresh answer at a, expired entry at cosine distance 0.075 of a, request with the expired entry's embedding", o, func(g *c17Rig) {
			a := g.sp.basis()
			g.judge(&c17Req{Kind: "probe-first", Text: "what is the capital of italy", Vec: a, Shape: "messages", Path: chat, NearFw: -1})
			g.judge(&c17Req{Kind: "probe-other", Text: "write a poem about bread", Vec: g.sp.basis(), Shape: "messages", Path: chat, NearFw: -1})
			v := c17Rotate(a, g.sp.basis(), 1-0.075)
			g.plant(v, `{"planted":"expired"}`, false, nil)
			g.judge(&c17Req{Kind: "probe-shadowed", Text: "capital of italy?", Vec: v, Shape: "messages", Path: chat, NearFw: -1})
		})
	})
}

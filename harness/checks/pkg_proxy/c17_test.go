package proxy

// C17 — the AI gateway blocks what it must block and caches only what matches.
//
// Five groups of generated request sequences run against the real AIProxy.ServeHTTP with a
// real engine.Engine underneath, a stub embedder (every prompt -> a unit vector chosen by the
// test, so every distance is designed: <= T/2 or >= 2T) and a counting in-process upstream:
//
//	firewall   — prompts (plain / mixed case / embedded / task-marker phrases / histories /
//	             `prompt` and `messages` shapes / empty / repeated) against deny patterns and a
//	             forbidden-prompt index (float32 or float16, unit or scaled vectors, prompts deleted and
//	             stored again during the case); reference = pattern match OR min distance < threshold.
//	cache      — new / near / far / streaming / planted-young / planted-old / shadowed (1..8 expired
//	             entries in front of a fresh one) / firewall-beats-cache / firewall-switched-off requests,
//	             answers of 70-230 KB; reference = a fresh entry within the cache distance serves, nothing
//	             else does.
//	invalidate — cache entries created through the real flow with RAG enabled (cited documents = the
//	             chunks whose text the upstream was sent) plus planted ones; POST /cache/invalidate
//	             removes exactly the entries that cite the id; re-asked afterwards. Firewall requests in
//	             the same (RAG) world.
//	bigindex   — forbidden-prompt / cache indexes of 40..2000 random vectors (c17_ext_test.go).
//	paging     — invalidation on a cache index of more than 1000 entries (c17_ext_test.go).
//	expiry     — answers the gateway stored itself grow older than a TTL of 2..12 s in real time and are then
//	             asked for again (c17_ext_test.go).
//
// In every group the operator-created indexes may be memory indexes (time decay: the engine's rank order is not
// the distance order) and the configuration may reach the gateway through proxy.yaml / LoadConfig.

import (
	"fmt"
	"runtime"
	"strings"
	"testing"
	"time"
	"unicode"

	"github.com/sanonone/kektordb/internal/zzverif/vkit"
	"github.com/sanonone/kektordb/pkg/core/distance"
)

func TestVerifC17(t *testing.T) {
	// One request at a time plus at most one asynchronous goroutine of the gateway: a shard needs two
	// processors, not sixteen (16 shards x 16 Ps of idle spinning is what an overloaded host does not need).
	runtime.GOMAXPROCS(4)
	vkit.Run(t, "C17", func(ctx *vkit.Ctx) {
		ctx.Assume("embedder and upstream are deterministic stubs; the stub embedder never fails")
		ctx.Assume("every query/stored-vector distance is designed: <= T/2 or >= 2T in the index's metric distance (for euclidean under both the squared and the plain L2 reading)")
		ctx.Assume("thresholds are distances (proxy.yaml: 'Block if distance < 0.25', 'Cache hit if distance < 0.1')")
		ctx.Assume("task-marker / empty prompts are kept far from every cache entry: their pass-through is only judged against the firewall clause")
		ctx.Assume("'younger than the TTL' is judged only for entries at least 5 s (plus the duration of the request) away from the TTL on the harness clock; a case whose clock margins run out ends without a verdict (case.abandoned.*)")
		ctx.Assume("on an index of more than 32 vectors the engine's search is approximate: a must-refuse / must-hit request that the engine's own beam-64 search does not find a neighbour for either is not judged (ann_miss), bounded per group and process by max(2, 0.4% of the decided near-requests)")
		ctx.Assume("the query rewriter's LLM of RAG worlds is unreachable (rewriting fails, the gateway goes on with the latest user message)")
		ctx.Assume("on a memory index (time decay) the reference still decides by metric distance alone: age, pinning and layer of a stored vector are the engine's ranking matters")
		ctx.Assume("cache entries carry created_at in Unix seconds; the created_at of an answer the gateway stores itself must lie within the harness clock bracket of its request (+-1 s)")
		ctx.Assume("expiry group: 'older than the TTL' is reached by waiting in real time (TTL 2..12 s + 6 s margin); a slower host only makes the entries older")
		c17Probes(ctx)
		c17ProbesExt(ctx)
		ctx.Group("firewall", ctx.N(240, 6000), c17Quietly(ctx, func(cs *vkit.Case) { c17FirewallCase(ctx, cs) }))
		ctx.Group("cache", ctx.N(160, 4000), c17Quietly(ctx, func(cs *vkit.Case) { c17CacheCase(ctx, cs) }))
		ctx.Group("invalidate", ctx.N(100, 2500), c17Quietly(ctx, func(cs *vkit.Case) { c17InvalidateCase(ctx, cs) }))
		ctx.Group("bigindex", ctx.N(12, 144), c17Quietly(ctx, func(cs *vkit.Case) { c17BigIndexCase(ctx, cs) }))
		c17AnnFloor(ctx, "bigindex")
		ctx.Group("paging", ctx.N(2, 16), c17Quietly(ctx, func(cs *vkit.Case) { c17PagingCase(ctx, cs) }))
		c17AnnFloor(ctx, "paging")
		ctx.Group("expiry", ctx.N(8, 64), c17Quietly(ctx, func(cs *vkit.Case) { c17ExpiryCase(ctx, cs) }))
		ctx.Group("scaled", ctx.N(40, 600), c17Quietly(ctx, func(cs *vkit.Case) { c17ScaledCase(ctx, cs) }))
	})
}

// ---------------------------------------------------------------------------------------
// vocabulary

type c17Pattern struct {
	Re        string
	Instances []string
}

var c17Patterns = []c17Pattern{
	{`drop table`, []string{"drop table"}},
	{`ignore (all|previous) instructions`, []string{"ignore all instructions", "ignore previous instructions"}},
	{`system prompt`, []string{"system prompt"}},
	{`rm -rf`, []string{"rm -rf"}},
	{`\bsudo\b`, []string{"sudo"}},
	{`pass(word|phrase)`, []string{"password", "passphrase"}},
	// patterns written with upper-case letters, character classes and an inline flag
	{`DROP DATABASE`, []string{"drop database", "DROP DATABASE"}},
	{`BEGIN (RSA )?PRIVATE KEY`, []string{"begin private key", "BEGIN RSA PRIVATE KEY"}},
	{`Api[-_ ]?Key`, []string{"apikey", "API_KEY", "api key"}},
	{`(?i)Secret Token`, []string{"secret token", "SECRET TOKEN"}},
	// perl classes incl. the negated ones, a non-ASCII literal, a pattern that must match across a line break
	{`key\s*=\s*\S+`, []string{"key = hunter2", "key=abc", "KEY\t=\tx9"}},
	{`\d{3}-\D`, []string{"555-x", "123-abc"}},
	{`città segreta`, []string{"città segreta", "CITTÀ SEGRETA"}},
	{`(?s)begin.*end`, []string{"begin\nthe end", "begin and end", "BEGIN\n\nEND"}},
}

var c17Benign = []string{"please", "explain", "weather", "rome", "tomorrow", "recipe", "bread", "sum", "two", "numbers",
	"città", "größe", "naïve", "hello", "world", "compare", "apples", "oranges", "quantum", "poem", "translate", "what", "is", "the", "best", "way"}

var c17Markers = []string{
	"### Task:",
	"Generate a concise, 3-5 word title summarizing the chat history",
	"Generate 1-3 broad tags categorizing the main themes",
	"Suggest 3-5 relevant follow-up questions",
}

var c17Seps = []string{" ", " ", "\n", "\t", ", ", " (", "\" ", ". "}

func c17MixCase(r *vkit.Rand, s string) string {
	rs := []rune(s)
	for i, c := range rs {
		if unicode.IsLetter(c) && unicode.ToLower(unicode.ToUpper(c)) == unicode.ToLower(c) && unicode.ToUpper(unicode.ToLower(c)) == unicode.ToUpper(c) {
			if r.Chance(0.5) {
				rs[i] = unicode.ToUpper(c)
			} else {
				rs[i] = unicode.ToLower(c)
			}
		}
	}
	return string(rs)
}

func (g *c17Rig) words(n int) string {
	w := make([]string, n)
	for i := range w {
		w[i] = vkit.Pick(g.cs.R, c17Benign)
	}
	return strings.Join(w, " ")
}

// text builds a unique prompt. inst: an instance of a deny pattern to contain ("" = none);
// style: plain | mixed | embedded | embedded-mixed; marker: task-marker phrase ("" = none).
func (g *c17Rig) text(inst, style, marker string) string {
	r := g.cs.R
	g.seq++
	tag := fmt.Sprintf("q%d", g.seq)
	var core string
	switch {
	case inst == "":
		core = g.words(r.Range(2, 6)) + " " + tag
	case style == "plain":
		core = inst + " " + tag
	case style == "mixed":
		core = c17MixCase(r, inst) + " " + tag
	default:
		x := inst
		if style == "embedded-mixed" {
			x = c17MixCase(r, inst)
		}
		core = g.words(r.Range(1, 8)) + vkit.Pick(r, c17Seps) + x + vkit.Pick(r, c17Seps) + g.words(r.Range(1, 8)) + " " + tag
	}
	if marker == "" {
		return core
	}
	switch r.Intn(3) {
	case 0:
		return marker + "\n" + core
	case 1:
		return core + "\n" + marker
	}
	return g.words(2) + " " + marker + " " + core
}

// ---------------------------------------------------------------------------------------
// vector design

// designed reports whether v is decisively near or far from every stored forbidden prompt
// and every cache entry of the world.
func (g *c17Rig) designed(v []float32) bool {
	if g.o.FirewallEnabled {
		for _, f := range g.forbidden {
			if !f.Deleted && c17Class(g.o.FwMetric, c17Dist(g.o.FwMetric, v, f.Vec), g.o.Tf) == 0 {
				return false
			}
		}
	}
	if g.o.CacheEnabled {
		cm := g.cacheMetric()
		for _, en := range g.entries {
			if c17Class(cm, c17Dist(cm, v, en.Vec), g.o.Tc) == 0 {
				return false
			}
		}
	}
	return true
}

// vecRel designs a vector relative to anchor (near or far in metric/T); falls back to a fresh
// basis vector (orthogonal to everything stored) when the candidate would be undesigned
// against some other stored vector.
func (g *c17Rig) vecRel(anchor []float32, metric distance.DistanceMetric, T float64, near bool) ([]float32, string) {
	anchor = c17Unit(anchor) // a stored vector may be scaled (cosine worlds)
	for try := 0; try < 4; try++ {
		cos, label := c17DesignCos(metric, T, near, g.cs.R)
		v := c17Rotate(anchor, g.sp.basis(), cos)
		if g.designed(v) {
			return v, label
		}
		g.ctx.Count("gen.undesigned_discarded", 1)
	}
	if near {
		return nil, ""
	}
	return g.sp.basis(), "far(fresh)"
}

func (g *c17Rig) vecFar() ([]float32, string) {
	r := g.cs.R
	if live := g.liveForbidden(); g.o.FirewallEnabled && len(live) > 0 && r.Chance(0.5) {
		return g.vecRel(g.forbidden[vkit.Pick(r, live)].Vec, g.o.FwMetric, g.o.Tf, false)
	}
	if g.o.CacheEnabled && len(g.entries) > 0 && r.Chance(0.5) {
		return g.vecRel(vkit.Pick(r, g.entries).Vec, g.cacheMetric(), g.o.Tc, false)
	}
	return g.sp.basis(), "far(fresh)"
}

// guarded reports whether request q steps on the exact trigger of a finding recorded as
// known (see known_findings.json); such requests are not issued by the random groups.
func (g *c17Rig) guarded(q *c17Req) string {
	want := g.reference(q)
	if want.Outcome == "unjudged" {
		if want.Why == "clock" {
			return "clock-undecided"
		}
		return "unjudged-passthrough-near-cache"
	}
	if g.ctx.IsKnown("D-C17-3") && q.Marker && want.Outcome == "blocked" {
		return "D-C17-3"
	}
	if g.ctx.IsKnown("D-C17-1") && g.o.FirewallEnabled && q.Vec != nil && len(g.forbidden) > 0 {
		if c17SimDistDisagree(want.MinFw, g.o.Tf) {
			return "D-C17-1"
		}
	}
	if g.ctx.IsKnown("D-C17-2") && g.o.CacheEnabled && q.Vec != nil && want.Outcome != "blocked" {
		min := -1.0
		cm := g.cacheMetric()
		for _, en := range g.entries {
			if en.Removed {
				continue
			}
			if d := c17Dist(cm, q.Vec, en.Vec); min < 0 || d < min {
				min = d
			}
		}
		if min >= 0 && c17SimDistDisagree(min, g.o.Tc) {
			return "D-C17-2"
		}
	}
	if g.ctx.IsKnown("D-C17-7") && want.Outcome == "hit" {
		// exact trigger of D-C17-7: an expired entry is at least as near as the nearest fresh one
		cm := g.cacheMetric()
		for _, en := range g.entries {
			if !en.Removed && !g.fresh(en) && c17Dist(cm, q.Vec, en.Vec) <= want.MinCa+1e-6 {
				return "D-C17-7"
			}
		}
	}
	if g.ctx.IsKnown("D-C17-8") && want.Outcome == "hit" {
		// exact trigger of D-C17-8: cacheLookupK (5) or more expired entries are nearer than the nearest fresh one
		cm := g.cacheMetric()
		n := 0
		for _, en := range g.entries {
			if !en.Removed && !g.fresh(en) && c17Dist(cm, q.Vec, en.Vec) <= want.MinCa+1e-6 {
				n++
			}
		}
		if n >= 5 {
			return "D-C17-8"
		}
	}
	if g.ctx.IsKnown("D-C17-10") && (want.Outcome == "blocked" && want.Why == "semantic" && len(g.forbidden) > 32 || want.Outcome == "hit" && len(g.entries) > 32) {
		// exact trigger of D-C17-10: on an index too large for the engine's search to be exhaustive (> 2*M = 32
		// vectors) the lookup the gateway performs — engine search with k = 1 (firewall) / k = 5 (cache), whose
		// beam is then only k wide — does not return any of the stored vectors that lie within the threshold
		found := false
		if want.Outcome == "blocked" {
			if res, err := g.eng.VSearchWithScores(c17FwIndex, q.Vec, 1); err == nil {
				for _, r := range res {
					for _, f := range g.forbidden {
						if !f.Deleted && f.ID == r.ID && c17Class(g.o.FwMetric, c17Dist(g.o.FwMetric, q.Vec, f.Vec), g.o.Tf) == +1 {
							found = true
						}
					}
				}
			}
		} else {
			cm := g.cacheMetric()
			if res, err := g.eng.VSearchWithScores(c17CacheIndex, q.Vec, 5); err == nil {
				for _, r := range res {
					for _, en := range g.entries {
						if !en.Removed && en.ID == r.ID && g.fresh(en) && c17Class(cm, c17Dist(cm, q.Vec, en.Vec), g.o.Tc) == +1 {
							found = true
						}
					}
				}
			}
		}
		if !found {
			g.ctx.Count(fmt.Sprintf("guard.D-C17-10.%s.index_size_le_%d", want.Outcome, c17Bucket(max(len(g.forbidden), len(g.entries)))), 1)
			return "D-C17-10"
		}
	}
	if g.ctx.IsKnown("D-C17-6") && want.Outcome == "hit" {
		// exact trigger of D-C17-6 (DESIGN D20): after deletions in the (tiny, <= ~25 entries) cache index the
		// engine's own nearest-neighbour search for this query (k=10) does not return any of the live fresh
		// entries that lie within the cache distance (it returns nothing, or only other entries).
		res, err := g.eng.VSearchWithScores(c17CacheIndex, q.Vec, 10)
		found := false
		if err == nil {
			cm := g.cacheMetric()
			for _, r := range res {
				for _, en := range g.entries {
					if !en.Removed && g.fresh(en) && en.ID == r.ID && c17Class(cm, c17Dist(cm, q.Vec, en.Vec), g.o.Tc) == +1 {
						found = true
					}
				}
			}
		}
		if !found {
			return "D-C17-6"
		}
	}
	return ""
}

func c17Bucket(n int) int {
	for _, b := range []int{100, 200, 400, 800, 1600} {
		if n <= b {
			return b
		}
	}
	return 3200
}

// step judges q unless a generator guard removes it; it does the evidence accounting.
func (g *c17Rig) step(group string, q *c17Req) (c17Verdict, bool) {
	if q == nil {
		return c17Verdict{}, false
	}
	if q.Path == "" {
		if q.Shape == "prompt" {
			q.Path = vkit.Pick(g.cs.R, []string{"/api/generate", "/v1/completions"})
		} else {
			q.Path = vkit.Pick(g.cs.R, []string{"/v1/chat/completions", "/v1/chat/completions", "/api/chat"})
		}
	}
	if !q.Stream && !q.NoStreamKey && g.cs.R.Chance(0.3) {
		q.NoStreamKey = true
	}
	if id := g.guarded(q); id != "" {
		g.ctx.Count("guard."+id, 1)
		return c17Verdict{}, false
	}
	want, _ := g.judge(q)
	g.sent = append(g.sent, q)
	if want.Outcome == "ann_miss" {
		// no verdict for this request (see annMiss); counted, bounded by c17AnnFloor
		g.ctx.Count(group+".ann_miss", 1)
		g.ctx.Count("outcome.ann_miss."+want.Why, 1)
		return want, true
	}
	if want.Outcome == "blocked" && want.Why == "semantic" && len(g.liveForbidden()) > c17ExhaustiveBelow || want.Outcome == "hit" && len(g.entries) > c17ExhaustiveBelow {
		g.ctx.Count(group+".near_decided", 1)
	}
	g.ctx.Eval(1)
	g.ctx.Count("req."+group+"."+q.Kind, 1)
	g.ctx.Count("outcome."+want.Outcome+"."+want.Why, 1)
	if len(g.o.Deny)+len(g.forbidden)+len(g.entries) > 0 {
		g.ctx.Distinct(fmt.Sprintf("%s|%s|%s|stream=%v|fw=%s/%g|cache=%v/%s/%g|%s/%s", group, q.Kind, q.Shape, q.Stream,
			g.o.FwMetric, g.o.Tf, g.o.CacheEnabled, g.cacheMetric(), g.o.Tc, want.Outcome, want.Why))
	}
	g.ctx.Sample(group+"."+want.Outcome, 1, map[string]any{"world": g.o.String(), "body": string(q.body()), "expected": want.Outcome + "/" + want.Why})
	return want, true
}

var c17Thresholds = []float64{0.05, 0.1, 0.25, 0.4, 0.5}

func c17PickMetric(r *vkit.Rand) distance.DistanceMetric {
	if r.Chance(0.5) {
		return distance.Cosine
	}
	return distance.Euclidean
}

func c17PickDeny(r *vkit.Rand, min int) ([]string, []c17Pattern) {
	n := r.Range(min, 4)
	perm := r.Perm(len(c17Patterns))
	var res []string
	var ps []c17Pattern
	for _, i := range perm[:n] {
		res = append(res, c17Patterns[i].Re)
		ps = append(ps, c17Patterns[i])
	}
	return res, ps
}

// ---------------------------------------------------------------------------------------
// group: firewall

func c17FirewallCase(ctx *vkit.Ctx, cs *vkit.Case) {
	r := cs.R
	o := c17Opts{FirewallEnabled: true, FwMetric: c17PickMetric(r), Tf: vkit.Pick(r, c17Thresholds), FwIndexCreated: !r.Chance(0.08),
		CacheMetric: distance.Cosine, Tc: 0.1, TTL: time.Hour}
	var pats []c17Pattern
	o.Deny, pats = c17PickDeny(r, 0)
	o.FwF16 = r.Chance(0.3)
	if r.Chance(0.25) {
		o.CacheEnabled = true
		o.Tc = vkit.Pick(r, c17Thresholds)
		o.TTL = vkit.Pick(r, []time.Duration{time.Minute, time.Hour, 24 * time.Hour})
	}
	if o.FwIndexCreated && r.Chance(0.35) {
		o.FwMem = c17PickMem(r) // the operator keeps the forbidden prompts in a memory index
	}
	o.ViaYAML, o.OmitDefaults = r.Chance(0.3), r.Chance(0.5)
	o.CacheUnlimited = r.Chance(0.35) // max_cache_items: 0 = the documented "unlimited"
	g := c17NewRig(ctx, cs, o)
	defer g.close()
	if o.FwIndexCreated {
		m := r.Intn(5)
		if o.FwMem != nil {
			m = r.Range(2, 5) // prompts of different ages side by side
		}
		for i := 0; i < m; i++ {
			g.addForbidden(g.fwVector(g.sp.basis()))
		}
	}
	kinds := []string{"benign", "benign", "pattern", "pattern", "pattern", "semantic", "semantic", "both",
		"marker-benign", "marker-pattern", "marker-semantic", "hist-earlier-denied", "hist-last-denied", "hist-benign", "empty", "repeat",
		"deleted-near", "replaced"}
	for s, n := 0, r.Range(10, 16); s < n; s++ {
		g.step("firewall", g.genFirewallReq(vkit.Pick(r, kinds), pats))
	}
}

// fwVector: a stored forbidden prompt need not be a unit vector. Under the cosine metric its length is
// irrelevant to the distance, so there (only) the vector is stored scaled.
func (g *c17Rig) fwVector(v []float32) []float32 {
	if g.o.FwMetric != distance.Cosine || !g.cs.R.Chance(0.3) {
		return v
	}
	k := vkit.Pick(g.cs.R, []float32{3, 0.25, 40})
	out := make([]float32, len(v))
	for i := range v {
		out[i] = k * v[i]
	}
	return out
}

func (g *c17Rig) genFirewallReq(kind string, pats []c17Pattern) *c17Req {
	r := g.cs.R
	needPat := strings.Contains(kind, "pattern") || kind == "both" || strings.HasPrefix(kind, "hist-") && kind != "hist-benign"
	needSem := strings.Contains(kind, "semantic") || kind == "both"
	live := g.liveForbidden()
	if needPat && len(pats) == 0 || (needSem || kind == "deleted-near" || kind == "replaced") && len(live) == 0 {
		kind = "benign"
		needPat, needSem = false, false
	}
	q := &c17Req{Kind: kind, Shape: "messages", Stream: r.Chance(0.25), NearFw: -1}
	if r.Chance(0.3) && !strings.HasPrefix(kind, "hist-") {
		q.Shape = "prompt"
	}
	inst := func() string { return vkit.Pick(r, vkit.Pick(r, pats).Instances) }
	style := vkit.Pick(r, []string{"plain", "mixed", "embedded", "embedded-mixed"})
	switch kind {
	case "empty":
		q.Text = ""
		return q
	case "repeat":
		if len(g.sent) == 0 {
			return nil
		}
		p := *vkit.Pick(r, g.sent)
		p.Kind = "repeat"
		if p.Vec != nil && !g.designed(p.Vec) { // entries created since then may sit at an undesigned distance
			return nil
		}
		return &p
	case "benign":
		q.Text = g.text("", "", "")
	case "deleted-near", "replaced":
		// index history: a forbidden prompt that is not stored any more does not block ("a STORED forbidden
		// prompt"); the ones still stored go on blocking (that is what later semantic requests of the case see)
		i := vkit.Pick(r, live)
		old := g.forbidden[i].Vec
		g.deleteForbidden(i)
		q.Text = g.text("", "", "")
		target, near := old, true
		if kind == "replaced" {
			// stored again somewhere else, under the same id or a new one
			if r.Chance(0.5) {
				g.addForbiddenAs(g.forbidden[i].ID, g.fwVector(g.sp.basis()))
			} else {
				g.addForbidden(g.fwVector(g.sp.basis()))
			}
			if r.Chance(0.5) {
				target = g.forbidden[len(g.forbidden)-1].Vec // near the new place: blocked; near the old one: forwarded
				q.NearFw = len(g.forbidden) - 1
			}
		}
		v, label := g.vecRel(target, g.o.FwMetric, g.o.Tf, near)
		if v == nil {
			return nil
		}
		q.Vec = v
		q.Kind += "/" + label
		return q
	case "pattern":
		q.Text, q.Denied = g.text(inst(), style, ""), true
		q.Kind = "pattern-" + style
	case "semantic":
		q.Text = g.text("", "", "")
	case "both":
		q.Text, q.Denied = g.text(inst(), style, ""), true
	case "marker-benign":
		q.Text, q.Marker = g.text("", "", vkit.Pick(r, c17Markers)), true
	case "marker-pattern":
		q.Text, q.Denied, q.Marker = g.text(inst(), style, vkit.Pick(r, c17Markers)), true, true
	case "marker-semantic":
		q.Text, q.Marker = g.text("", "", vkit.Pick(r, c17Markers)), true
	case "hist-earlier-denied": // an earlier user message is denied, the latest is not
		q.Before = []message{{Role: "user", Content: g.text(inst(), style, "")}, {Role: "assistant", Content: "I cannot help with that."}}
		if r.Chance(0.5) {
			q.Before = append([]message{{Role: "system", Content: "You are a helpful assistant."}}, q.Before...)
		}
		q.Text = g.text("", "", "")
	case "hist-last-denied": // earlier messages are fine, the latest user message is denied
		q.Before = []message{{Role: "system", Content: "You are a helpful assistant."}, {Role: "user", Content: g.text("", "", "")}, {Role: "assistant", Content: g.words(4)}}
		q.Text, q.Denied = g.text(inst(), style, ""), true
		if r.Chance(0.4) {
			q.After = []message{{Role: "assistant", Content: "Sure, "}}
		}
	case "hist-benign":
		q.Before = []message{{Role: "user", Content: g.text("", "", "")}, {Role: "assistant", Content: g.words(3)}}
		q.Text = g.text("", "", "")
		if r.Chance(0.3) {
			q.After = []message{{Role: "assistant", Content: "Let me think"}}
		}
	}
	if needSem {
		q.NearFw = vkit.Pick(r, live)
		v, label := g.vecRel(g.forbidden[q.NearFw].Vec, g.o.FwMetric, g.o.Tf, true)
		if v == nil {
			return nil
		}
		q.Vec = v
		q.Kind += "/" + label
	} else {
		v, label := g.vecFar()
		q.Vec = v
		q.Kind += "/" + label
	}
	return q
}

// ---------------------------------------------------------------------------------------
// group: cache

func c17CacheCase(ctx *vkit.Ctx, cs *vkit.Case) {
	r := cs.R
	o := c17Opts{CacheEnabled: true, Tc: vkit.Pick(r, c17Thresholds), TTL: vkit.Pick(r, []time.Duration{time.Minute, time.Hour, 24 * time.Hour}),
		CacheMetric: distance.Cosine, FwMetric: c17PickMetric(r), Tf: vkit.Pick(r, c17Thresholds), FwIndexCreated: true}
	if r.Chance(0.35) { // operator pre-created the cache index (metric of his choice, with or without analyser)
		o.CacheMetric = c17PickMetric(r)
		o.CacheLang = vkit.Pick(r, []string{"english", "italian"})
		o.CacheF16 = r.Chance(0.3)
		if r.Chance(0.4) {
			o.CacheMem = c17PickMem(r) // ... as a memory index
		}
	}
	o.FwF16 = r.Chance(0.3)
	if r.Chance(0.3) {
		o.FwMem = c17PickMem(r)
	}
	o.ViaYAML, o.OmitDefaults = r.Chance(0.3), r.Chance(0.5)
	o.CacheUnlimited = r.Chance(0.35) // max_cache_items: 0 = the documented "unlimited"
	var pats []c17Pattern
	fwOff := false
	if r.Chance(0.5) {
		o.FirewallEnabled = true
		o.Deny, pats = c17PickDeny(r, 1)
	} else if r.Chance(0.4) {
		// a deny list and forbidden prompts are configured but the firewall is switched off: they decide nothing
		fwOff = true
		o.Deny, pats = c17PickDeny(r, 1)
	}
	g := c17NewRig(ctx, cs, o)
	defer g.close()
	if o.FirewallEnabled || fwOff {
		m := r.Intn(3)
		if o.FwMem != nil {
			m = r.Range(2, 4)
		}
		for i := 0; i < m; i++ {
			g.addForbidden(g.fwVector(g.sp.basis()))
		}
	}
	kinds := []string{"new", "new", "near", "near", "near", "near-stream", "planted-young", "planted-old", "shadow", "shadow-many", "far", "repeat", "fw-beats-cache"}
	if fwOff {
		kinds = append(kinds, "fw-off", "fw-off")
	}
	for s, n := 0, r.Range(10, 18); s < n; s++ {
		g.cacheStep(vkit.Pick(r, kinds), pats)
	}
}

func (g *c17Rig) liveFresh() []*c17Entry {
	var out []*c17Entry
	for _, en := range g.entries {
		if !en.Removed && !en.Maybe && g.fresh(en) {
			out = append(out, en)
		}
	}
	return out
}

func (g *c17Rig) cacheStep(kind string, pats []c17Pattern) {
	r := g.cs.R
	cm := g.cacheMetric()
	q := &c17Req{Kind: kind, Shape: "messages", NearFw: -1}
	if r.Chance(0.3) {
		q.Shape = "prompt"
	}
	switch kind {
	case "new", "far":
		q.Text = g.text("", "", "")
		v, label := g.vecFar()
		q.Vec = v
		q.Kind += "/" + label
		q.Stream = kind == "far" && r.Chance(0.3)
		if kind == "new" && r.Chance(0.08) {
			// an answer of 70-230 KB: the stored response must be the whole answer
			q.Kind += "/big-answer"
			g.upMode = "big"
			defer func() { g.upMode = "" }()
		}
	case "fw-off":
		// firewall disabled: a prompt that the (unused) deny list / forbidden prompts would match is far from every
		// stored query, so it "always reaches upstream" (cache clause)
		if len(g.forbidden) > 0 && r.Chance(0.5) {
			v, label := g.vecRel(g.forbidden[r.Intn(len(g.forbidden))].Vec, g.o.FwMetric, g.o.Tf, true)
			if v == nil {
				return
			}
			q.Text, q.Vec = g.text("", "", ""), v
			q.Kind += "/semantic/" + label
		} else {
			v, _ := g.vecFar()
			if !g.designed(v) {
				return
			}
			q.Text, q.Vec = g.text(vkit.Pick(r, vkit.Pick(r, pats).Instances), vkit.Pick(r, []string{"plain", "mixed", "embedded"}), ""), v
			q.Kind += "/pattern"
		}
	case "shadow-many":
		// several expired entries are nearer than a fresh one that is within the cache distance as well
		fresh := g.liveFresh()
		if len(fresh) == 0 {
			return
		}
		f := vkit.Pick(r, fresh)
		k := r.Range(2, 8)
		if g.ctx.IsKnown("D-C17-8") && k > 4 {
			g.ctx.Count("guard.D-C17-8", 1)
			k = 4 // exact trigger of D-C17-8: cacheLookupK (5) or more expired entries in front of the fresh one
		}
		vs := g.shadowVectors(f.Vec, cm, k)
		if vs == nil {
			return
		}
		for i, v := range vs {
			g.seq++
			g.plant(v, fmt.Sprintf(`{"planted":"stale %d (%d of %d)"}`, g.seq, i+1, k), false, nil)
		}
		q.Text, q.Vec = g.text("", "", ""), vs[0]
		q.Kind += fmt.Sprintf("/%d", k)
	case "near", "near-stream":
		fresh := g.liveFresh()
		if len(fresh) == 0 {
			return
		}
		v, label := g.vecRel(vkit.Pick(r, fresh).Vec, cm, g.o.Tc, true)
		if v == nil {
			return
		}
		q.Text, q.Vec = g.text("", "", ""), v
		q.Kind += "/" + label
		q.Stream = kind == "near-stream"
	case "repeat":
		if len(g.sent) == 0 {
			return
		}
		p := *vkit.Pick(r, g.sent)
		p.Kind = "repeat"
		p.Stream = false
		if p.Vec != nil && !g.designed(p.Vec) {
			return
		}
		q = &p
	case "planted-young", "planted-old":
		v, _ := g.vecFar()
		if !g.designed(v) {
			return
		}
		g.seq++
		en := g.plant(v, fmt.Sprintf(`{"planted":"answer %d"}`, g.seq), kind == "planted-young", nil)
		nv, label := g.vecRel(en.Vec, cm, g.o.Tc, true)
		if nv == nil {
			return
		}
		q.Text, q.Vec = g.text("", "", ""), nv
		q.Kind += "/" + label
	case "shadow": // an expired entry is the nearest one, a fresh entry is also within the cache distance
		fresh := g.liveFresh()
		if g.ctx.IsKnown("D-C17-7") {
			g.ctx.Count("guard.D-C17-7", 1)
			return
		}
		if len(fresh) == 0 {
			return
		}
		f := vkit.Pick(r, fresh)
		// query at u=0.6 of the near zone from the fresh entry; expired entry planted exactly at the query
		cos := 1 - 0.6*g.o.Tc/2
		if cm != distance.Cosine {
			l2 := 0.6 * g.o.Tc / 2
			cos = 1 - l2*l2/2
		}
		v := c17Rotate(f.Vec, g.sp.basis(), cos)
		if !g.designed(v) {
			return
		}
		g.seq++
		g.plant(v, fmt.Sprintf(`{"planted":"stale %d"}`, g.seq), false, nil)
		q.Text, q.Vec = g.text("", "", ""), v
	case "fw-beats-cache": // a cache entry exists for a prompt the firewall must refuse
		if !g.o.FirewallEnabled {
			return
		}
		g.seq++
		if len(g.forbidden) > 0 && r.Chance(0.5) {
			q.NearFw = r.Intn(len(g.forbidden))
			v, label := g.vecRel(g.forbidden[q.NearFw].Vec, g.o.FwMetric, g.o.Tf, true)
			if v == nil {
				return
			}
			q.Text, q.Vec = g.text("", "", ""), v
			q.Kind += "/semantic/" + label
		} else {
			v, _ := g.vecFar()
			if !g.designed(v) {
				return
			}
			q.Text, q.Denied, q.Vec = g.text(vkit.Pick(r, vkit.Pick(r, pats).Instances), vkit.Pick(r, []string{"plain", "mixed", "embedded"}), ""), true, v
			q.Kind += "/pattern"
		}
		g.plant(q.Vec, fmt.Sprintf(`{"planted":"must never be served %d"}`, g.seq), true, nil)
	}
	g.step("cache", q)
}

// shadowVectors designs k vectors for expired entries around a query point: the query sits at 0.6 of the near
// zone from the fresh entry f (distance 0.3*T); vector 0 is the query point itself, vector i lies at distance
// i*0.02*T from it along one axis orthogonal to f, so every one of them is nearer to the query than f is
// (0.3*T) and still within T/2 of f. nil when some vector would be at an undesigned distance of an entry.
func (g *c17Rig) shadowVectors(f []float32, cm distance.DistanceMetric, k int) [][]float32 {
	T := g.o.Tc
	cosOf := func(d float64) float64 { // cosine between unit vectors at "distance" d (cosine distance, or plain L2)
		if cm == distance.Cosine {
			return 1 - d
		}
		return 1 - d*d/2
	}
	qv := c17Rotate(f, g.sp.basis(), cosOf(0.6*T/2))
	axis := g.sp.basis()
	out := [][]float32{qv}
	for i := 1; i < k; i++ {
		out = append(out, c17Rotate(qv, axis, cosOf(float64(i)*0.02*T)))
	}
	for _, v := range out {
		if !g.designed(v) {
			g.ctx.Count("gen.undesigned_discarded", 1)
			return nil
		}
		if d := c17Dist(cm, v, qv); d >= c17Dist(cm, f, qv) {
			return nil
		}
	}
	return out
}

// ---------------------------------------------------------------------------------------
// group: invalidate

var c17IDFamilies = map[string][]string{
	"underscore": {"chunk_1", "chunk_10", "chunk_1_a", "chunk_11", "chunk", "chunk_2"},
	"hyphen":     {"doc-1", "doc-2", "doc-10", "doc-1-a", "doc"},
	"path":       {"docs/a.md_0", "docs/a.md_1", "docs/b.md_0", "docs/a.md_10", "notes/a.md_0"},
	"case":       {"Doc_1", "doc_1", "DOC_1", "doc_2"},
	"stem":       {"report", "reports", "reporting", "reported", "reporter_1"},
	"stop":       {"the", "it", "readme", "readme_it", "a"},
	// chunk ids are "<file path>_<n>" (pkg/rag/pipeline.go): a path may contain blanks
	"space": {"docs/My File.md_0", "docs/My File.md_1", "docs/My", "File.md_0", "docs/Other File.md_0"},
}

var c17IDFamilyNames = []string{"underscore", "hyphen", "path", "case", "stem", "stop", "space"}

func c17InvalidateCase(ctx *vkit.Ctx, cs *vkit.Case) {
	r := cs.R
	o := c17Opts{CacheEnabled: true, Tc: vkit.Pick(r, []float64{0.05, 0.1, 0.25}), TTL: vkit.Pick(r, []time.Duration{time.Hour, 24 * time.Hour}),
		CacheMetric: distance.Cosine, FwMetric: distance.Cosine, Tf: 0.25, RAG: true, RAGTopK: r.Range(1, 2)}
	// who creates the cache index: the proxy itself on its first save, or the operator (with an analyser)
	if r.Chance(0.5) || ctx.IsKnown("D-C17-4") {
		o.CacheLang = vkit.Pick(r, []string{"english", "english", "italian"})
	}
	var pats []c17Pattern
	if r.Chance(0.4) {
		o.FirewallEnabled = true
		o.Deny, pats = c17PickDeny(r, 1)
		o.FwIndexCreated = r.Chance(0.75)
		o.FwMetric, o.Tf = c17PickMetric(r), vkit.Pick(r, c17Thresholds)
	}
	// relevance floor of the retrieval: chunks scoring below it are neither injected nor cited
	o.RAGThreshold = vkit.Pick(r, []float64{0, 0, 0.3, 0.64})
	if o.FirewallEnabled && o.FwIndexCreated && r.Chance(0.3) {
		o.FwMem = c17PickMem(r)
	}
	o.ViaYAML, o.OmitDefaults = r.Chance(0.25), r.Chance(0.5)
	o.CacheUnlimited = r.Chance(0.35) // max_cache_items: 0 = the documented "unlimited"
	fam := vkit.Pick(r, c17IDFamilyNames)
	if ctx.IsKnown("D-C17-5") {
		fam = "underscore"
	}
	if ctx.IsKnown("D-C17-9") && fam == "space" {
		ctx.Count("guard.D-C17-9", 1)
		fam = "path" // exact trigger of D-C17-9: a cited chunk id that contains white space
	}
	ids := c17IDFamilies[fam]
	g := c17NewRig(ctx, cs, o)
	defer g.close()
	defer func() { ctx.Count("invalidate.rewrite_attempts_with_llm_down", int64(g.llmCalls)) }()
	for _, id := range ids {
		g.addChunk(id, g.sp.basis())
	}
	if o.FirewallEnabled && o.FwIndexCreated {
		for i, m := 0, r.Range(1, 3); i < m; i++ {
			g.addForbidden(g.fwVector(g.sp.basis()))
		}
	}
	ctx.Count("invalidate.family."+fam, 1)

	ask := func(kind string, v []float32, text string, before []message) bool {
		q := &c17Req{Kind: kind, Shape: "messages", Path: "/v1/chat/completions", NearFw: -1, Text: text, Vec: v, Before: before}
		if q.Text == "" {
			q.Text = g.text("", "", "")
		}
		_, ok := g.step("invalidate", q)
		return ok
	}
	if r.Chance(0.2) {
		// invalidation when nothing has been cached yet (the cache index may not even exist): nothing to
		// remove; answers saved later that cite the document are not affected by it
		g.invalidate(vkit.Pick(r, ids))
		ctx.Eval(1)
		ctx.Count("invalidate.calls_on_empty_cache", 1)
	}
	// 1. populate: real flow (RAG retrieves the designed chunks) + planted entries
	type asked struct {
		text string
		vec  []float32
		en   *c17Entry
	}
	var real []asked
	for i, n := 0, r.Range(3, 6); i < n; i++ {
		a := r.Intn(len(g.chunks))
		b := (a + 1 + r.Intn(len(g.chunks)-1)) % len(g.chunks)
		own := g.sp.basis()
		v := make([]float32, c17Dim)
		for k := range v {
			v[k] = 0.5*g.chunks[a].Vec[k] + 0.4*g.chunks[b].Vec[k] + 0.7681146*own[k]
		}
		text := g.text("", "", "")
		var hist []message
		if r.Chance(0.3) { // a multi-turn conversation: the gateway tries to rewrite the query (its LLM is down)
			hist = []message{{Role: "user", Content: g.text("", "", "")}, {Role: "assistant", Content: g.words(4)}}
		}
		before := len(g.entries)
		if ask("rag-ask", v, text, hist) && len(g.entries) == before+1 {
			en := g.entries[len(g.entries)-1]
			real = append(real, asked{text, v, en})
			ctx.Count(fmt.Sprintf("invalidate.real_entry_cites_%d", len(en.Sources)), 1)
			if len(en.Sources) == 0 && o.RAGThreshold == 0 {
				cs.Fail("HARNESS: the RAG flow produced a cache entry whose answer cites nothing (entry %s)", en.ID)
			}
		}
	}
	var planted []*c17Entry
	for i, n := 0, r.Range(1, 4); i < n; i++ {
		// (planted entries are written in the blank-separated format, which cannot carry an id that contains a
		// blank: such ids are cited by real-flow entries only)
		var src []string
		for _, j := range r.Perm(len(ids)) {
			if len(src) < r.Range(1, 3) && !strings.ContainsAny(ids[j], " \t\n") {
				src = append(src, ids[j])
			}
		}
		g.seq++
		planted = append(planted, g.plant(g.sp.basis(), fmt.Sprintf(`{"planted":"answer %d"}`, g.seq), true, src))
	}
	// the firewall decides before retrieval, rewriting and the cache, also in a RAG world
	if o.FirewallEnabled {
		for i, n := 0, r.Range(1, 2); i < n; i++ {
			q := &c17Req{Kind: "rag-pattern", Shape: "messages", Path: "/v1/chat/completions", NearFw: -1}
			if live := g.liveForbidden(); len(live) > 0 && r.Chance(0.5) {
				q.Kind = "rag-semantic"
				q.NearFw = vkit.Pick(r, live)
				v, label := g.vecRel(g.forbidden[q.NearFw].Vec, o.FwMetric, o.Tf, true)
				if v == nil {
					continue
				}
				q.Text, q.Vec = g.text("", "", ""), v
				q.Kind += "/" + label
			} else {
				q.Text, q.Denied = g.text(vkit.Pick(r, vkit.Pick(r, pats).Instances), vkit.Pick(r, []string{"plain", "mixed", "embedded"}), ""), true
				q.Vec, _ = g.vecFar()
				if !g.designed(q.Vec) {
					continue
				}
			}
			if r.Chance(0.4) {
				q.Before = []message{{Role: "user", Content: g.text("", "", "")}, {Role: "assistant", Content: g.words(3)}}
			}
			g.step("invalidate", q)
		}
	}
	// 2. invalidate one or two document ids, checking the index content each time
	for round, rounds := 0, r.Range(1, 2); round < rounds; round++ {
		doc := vkit.Pick(r, ids)
		if r.Chance(0.15) {
			doc = doc + "_zz" // an id nobody cites (superstring of a cited one)
		}
		if len(g.suspectDocs) > 0 {
			// an entry's stored sources and the chunks its answer was produced from disagree on this id: the
			// invalidation of exactly this id decides whether that matters
			doc = g.suspectDocs[0]
			g.suspectDocs = g.suspectDocs[1:]
			ctx.Count("invalidate.calls_on_suspect_id", 1)
		}
		cited, kept := g.invalidate(doc)
		ctx.Eval(1)
		ctx.Count("invalidate.calls", 1)
		ctx.Count("invalidate.entries_cited", int64(cited))
		ctx.Count("invalidate.entries_kept", int64(kept))
		ctx.Distinct(fmt.Sprintf("invalidate|%s|lang=%q|cited=%d|kept=%d", fam, o.CacheLang, min(cited, 3), min(kept, 3)))
		ctx.Sample("invalidate", 2, map[string]any{"world": o.String(), "document_id": doc, "entries_citing": cited, "entries_kept": kept})
		// 3. afterwards: removed answers are not served any more, the others still are
		for i := range real {
			a := &real[i]
			if r.Chance(0.6) {
				kind := "reask-kept"
				if a.en.Removed {
					kind = "reask-removed"
				}
				if !g.designed(a.vec) {
					continue
				}
				before := len(g.entries)
				if ask(kind, a.vec, a.text, nil) && len(g.entries) == before+1 {
					a.en = g.entries[len(g.entries)-1] // answered again by the upstream: a new entry
				}
			}
		}
		// ... also the planted ones (observed through the gateway's answers, not through the index listing)
		for _, en := range planted {
			if !r.Chance(0.5) {
				continue
			}
			kind := "reask-planted-kept"
			if en.Removed {
				kind = "reask-planted-removed"
			}
			v, label := g.vecRel(en.Vec, g.cacheMetric(), o.Tc, true)
			if v == nil {
				continue
			}
			ask(kind+"/"+label, v, "", nil)
		}
	}
}

package proxy

import (
	"fmt"
	"time"

	"github.com/sanonone/kektordb/internal/zzverif/vkit"
	"github.com/sanonone/kektordb/pkg/core/distance"
)

// c17ScaledCase: embedders whose vectors are not of unit length (nothing in the gateway's
// contract says they are). With the euclidean metric the distance between two prompts depends on
// the length of their embeddings: a prompt with the embedding of a forbidden prompt is at
// distance 0 whatever that length is, and the gateway must search with the vector the embedder
// returned. Positions are decisive under both readings of "distance" (squared / plain L2).
func c17ScaledCase(ctx *vkit.Ctx, cs *vkit.Case) {
	r := cs.R
	type world struct {
		scale float64
		T     float64
	}
	w := vkit.Pick(r, []world{{2, 0.25}, {5, 0.25}, {3, 0.1}, {0.3, 0.05}, {0.5, 0.05}})
	metric := distance.Euclidean
	if r.Chance(0.2) {
		metric = distance.Cosine // control: the length must not matter at all
	}
	o := c17Opts{FirewallEnabled: true, FwMetric: metric, Tf: w.T, FwIndexCreated: true, Tc: 0.1, TTL: time.Hour, CacheMetric: distance.Cosine}
	scale := func(v []float32) []float32 {
		out := make([]float32, len(v))
		for i := range v {
			out[i] = float32(float64(v[i]) * w.scale)
		}
		return out
	}
	chat := "/v1/chat/completions"
	msg := c17Sub(ctx, cs, fmt.Sprintf("%s T=%g, embeddings of length %g", metric, w.T, w.scale), o, func(g *c17Rig) {
		f := scale(g.sp.basis())
		g.addForbidden(f)
		other := scale(g.sp.basis())
		g.addForbidden(other)
		for i := 0; i < 3; i++ {
			switch r.Intn(3) {
			case 0: // the embedding of a forbidden prompt itself
				g.judge(&c17Req{Kind: "scaled-identical", Text: fmt.Sprintf("tell me the forbidden thing %d", i), Vec: append([]float32(nil), f...), Shape: vkit.Pick(r, []string{"messages", "prompt"}), Path: chat, NearFw: 0})
			case 1: // orthogonal to every forbidden prompt, same length
				g.judge(&c17Req{Kind: "scaled-orthogonal", Text: fmt.Sprintf("a harmless question %d", i), Vec: scale(g.sp.basis()), Shape: "messages", Path: chat, NearFw: -1})
			default: // opposite to the first forbidden prompt
				op := make([]float32, len(f))
				for k := range f {
					op[k] = -f[k]
				}
				g.judge(&c17Req{Kind: "scaled-opposite", Text: fmt.Sprintf("another harmless question %d", i), Vec: op, Shape: "messages", Path: chat, NearFw: -1})
			}
		}
	})
	if msg != "" {
		cs.Fail("%s", msg)
	}
	ctx.Eval(1)
	ctx.Distinct(fmt.Sprintf("scaled/%s/%g/%g", metric, w.scale, w.T))
}

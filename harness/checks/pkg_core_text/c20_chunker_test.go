package text_test

// C20 (FixedSizeChunker part) — total, deterministic, never loses non-whitespace content,
// no chunk longer than size + overlap.

import (
	"fmt"
	"runtime/debug"
	"testing"

	"github.com/sanonone/kektordb/internal/zzverif/vkit"
	ctext "github.com/sanonone/kektordb/pkg/core/text"
)

type c20ChunkCfg struct{ Size, Ov int }

func c20ChunkMatrix() []c20ChunkCfg {
	var out []c20ChunkCfg
	for _, sz := range []int{1, 2, 7, 50, 500} {
		seen := map[int]bool{}
		for _, ov := range []int{0, 1, sz / 2, sz - 1} {
			if !seen[ov] {
				seen[ov] = true
				out = append(out, c20ChunkCfg{sz, ov})
			}
		}
	}
	// parameters the function documents as invalid (whole text returned as one chunk)
	return append(out, c20ChunkCfg{0, 0}, c20ChunkCfg{-1, 0}, c20ChunkCfg{5, 5}, c20ChunkCfg{5, 9}, c20ChunkCfg{5, -1})
}

type c20ChunkStats struct{ calls, chunks, multi, invalid int64 }

func c20ChunkOnce(cfg c20ChunkCfg, text string, need []rune, st *c20ChunkStats) (msg string) {
	defer func() {
		if r := recover(); r != nil {
			msg = fmt.Sprintf("panic in FixedSizeChunker(size=%d, overlap=%d): %v\n%s", cfg.Size, cfg.Ov, r, debug.Stack())
		}
	}()
	a := ctext.FixedSizeChunker(text, cfg.Size, cfg.Ov)
	b := ctext.FixedSizeChunker(text, cfg.Size, cfg.Ov)
	st.calls += 2
	st.chunks += int64(len(a))
	if len(a) > 1 {
		st.multi++
	}
	if len(a) != len(b) {
		return fmt.Sprintf("FixedSizeChunker(size=%d, overlap=%d) is not deterministic: %d chunks, then %d", cfg.Size, cfg.Ov, len(a), len(b))
	}
	for i := range a {
		if a[i] != b[i] {
			return fmt.Sprintf("FixedSizeChunker(size=%d, overlap=%d) is not deterministic at chunk %d", cfg.Size, cfg.Ov, i)
		}
	}
	valid := cfg.Size > 0 && cfg.Ov >= 0 && cfg.Ov < cfg.Size
	if !valid {
		st.invalid++
	}
	have := make([]rune, 0, len(need)+8)
	for i, c := range a {
		if n := c20Runes(c.Content); valid && n > cfg.Size+cfg.Ov {
			return fmt.Sprintf("chunk %d of %d has %d runes > size+overlap = %d (size=%d overlap=%d): %q", i, len(a), n, cfg.Size+cfg.Ov, cfg.Size, cfg.Ov, c20Show(c.Content))
		}
		have = c20NonWS(have, c.Content)
	}
	if ok, at := c20Subseq(need, have); !ok {
		return fmt.Sprintf("content lost (size=%d overlap=%d): non-whitespace rune #%d %q of the input is missing from the chunks (%d chunks)", cfg.Size, cfg.Ov, at, string(need[at]), len(a))
	}
	return ""
}

func TestVerifC20Chunker(t *testing.T) {
	vkit.Run(t, "C20", func(ctx *vkit.Ctx) {
		ctx.Assume("FixedSizeChunker parameters it documents as invalid (size<=0, overlap<0, overlap>=size) are exempt from the size+overlap bound (documented fallback: the whole text as one chunk); no-loss, determinism and totality still apply")
		matrix := c20ChunkMatrix()
		run := func(cs *vkit.Case, class, text string, cfgs []c20ChunkCfg) {
			cs.Op("chunk class=%s bytes=%d configs=%d text=%q", class, len(text), len(cfgs), c20Show(text))
			need := c20NonWS(nil, text)
			var st c20ChunkStats
			for _, cfg := range cfgs {
				if m := c20ChunkOnce(cfg, text, need, &st); m != "" {
					cs.Attach("input", text)
					cs.Attach("input_quoted", fmt.Sprintf("%q", text))
					cs.Attach("config", cfg)
					cs.Fail("%s", m)
				}
				ctx.Touch()
			}
			ctx.Eval(1)
			ctx.Count("chunker.strings", 1)
			ctx.Count("chunker.calls", st.calls)
			ctx.Count("chunker.chunks", st.chunks)
			ctx.Count("chunker.calls_with_invalid_parameters", 2*st.invalid)
			ctx.Count("chunker.class."+class, 1)
			if st.multi > 0 && len(need) > 0 {
				ctx.Distinct(fmt.Sprintf("chunker|%s|%d|%d", class, len(need)/8, st.chunks))
			}
			ctx.Sample("chunker", 2, map[string]any{"class": class, "text": c20Show(text), "configs": len(cfgs), "chunks_total": st.chunks})
		}
		ctx.Group("chunker-matrix", ctx.N(6000, 200000), func(cs *vkit.Case) {
			class, text := c20Gen(cs.R, 300)
			cfgs := matrix
			if cs.R.Chance(0.3) { // plus random settings
				cfgs = append([]c20ChunkCfg{}, matrix...)
				for i := 0; i < 4; i++ {
					sz := cs.R.Range(1, 600)
					cfgs = append(cfgs, c20ChunkCfg{sz, cs.R.Range(0, sz-1)})
				}
			}
			run(cs, class, text, cfgs)
		})
		ctx.Group("chunker-huge", ctx.N(16, 400), func(cs *vkit.Case) {
			class, text := c20Huge(cs.R)
			var cfgs []c20ChunkCfg
			for i := 0; i < 4; i++ { // output kept below ~2x the input, except for tiny sizes
				sz := vkit.Pick(cs.R, []int{1, 2, 7, 50, 500})
				ov := vkit.Pick(cs.R, []int{0, 1, sz / 2})
				if sz <= 7 && cs.R.Chance(0.5) {
					ov = sz - 1
				}
				if ov >= sz {
					ov = sz - 1
				}
				cfgs = append(cfgs, c20ChunkCfg{sz, ov})
			}
			cfgs = append(cfgs, c20ChunkCfg{0, 0})
			run(cs, class, text, cfgs)
			ctx.Count("chunker.huge_inputs", 1)
		})
	})
}

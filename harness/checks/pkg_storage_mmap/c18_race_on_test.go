//go:build race

package mmap

const c18Race = true

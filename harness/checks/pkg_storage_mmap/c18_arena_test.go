package mmap

// C18 (arena part) — "storage slots are never shared between live vectors nor expose another
// vector's bytes after slot reuse, relocation or reopen".
//
// The product never calls FreeSlot (vacuum clears bytes but keeps the slot), so slot reuse and
// relocation cannot be reached through the engine API: VectorArena and AsyncCompactor.RunCycle
// are driven directly, against a shadow map id -> content stamp.
//
// Geometry: vector size 256 KiB => (64 MiB - 64) / 256 KiB = 255 slots per chunk; ids up to
// 700 => 3 chunks. Every written vector carries three 64-byte stamps (head, middle, tail) that
// encode (id, generation); all other bytes stay zero, so the 64 MiB chunk files stay sparse.
//
// What the oracle demands (nothing else):
//   * for every id whose content was written and that is still allocated:
//       GetBytes(id) succeeds and returns exactly the bytes written last (stamps after every
//       operation; the full 256 KiB every few operations and at the end of each history);
//   * the allocated part of the slot table is injective (no two live ids on one slot);
//   * no slot is both in the free list and allocated;
//   * every UpdateNodePointer(id, bytes) call made by the compactor delivers exactly the
//     bytes of id.
// It does NOT demand anything about: the content of an allocated-but-never-written slot
// (a reused slot legitimately still holds the bytes of its previous, freed owner), which free
// slot AllocSlot picks, whether RunCycle actually reduces fragmentation, or termination of
// RunCycle (its free-slot livelock is acknowledged in /repo's own tests; RunCycle is cut
// after a move budget that is a function of the case only — see c18Updater).

import (
	"bytes"
	"encoding/binary"
	"fmt"
	"os"
	"runtime"
	"sort"
	"strconv"
	"strings"
	"sync"
	"sync/atomic"
	"syscall"
	"testing"
	"time"

	"github.com/sanonone/kektordb/internal/zzverif/vkit"
)

const (
	c18VecSize = 256 * 1024
	c18Stamp   = 64
	c18MaxID   = 700
)

var c18Zero = make([]byte, c18VecSize)

// c18PutStamp writes the three stamps of (id, gen) into b (len c18VecSize).
func c18PutStamp(b []byte, id, gen uint32) {
	for _, off := range [3]int{0, c18VecSize/2 - c18Stamp/2, c18VecSize - c18Stamp} {
		s := b[off : off+c18Stamp]
		for k := 0; k < c18Stamp; k += 16 {
			binary.LittleEndian.PutUint32(s[k:], 0xC18C18C1)
			binary.LittleEndian.PutUint32(s[k+4:], id)
			binary.LittleEndian.PutUint32(s[k+8:], gen)
			binary.LittleEndian.PutUint32(s[k+12:], uint32(off)^id*2654435761^gen*40503)
		}
	}
}

// c18Describe renders what a stamp region contains (for witnesses).
func c18Describe(s []byte) string {
	if len(s) < 16 {
		return "short"
	}
	if bytes.Equal(s[:16], c18Zero[:16]) {
		return "zeros"
	}
	if binary.LittleEndian.Uint32(s) == 0xC18C18C1 {
		return fmt.Sprintf("stamp(id=%d,gen=%d)", binary.LittleEndian.Uint32(s[4:]), binary.LittleEndian.Uint32(s[8:]))
	}
	return fmt.Sprintf("bytes %x", s[:16])
}

// c18CheckStamps compares the three stamp regions of b with (id, gen). "" = equal.
func c18CheckStamps(b []byte, id, gen uint32, scratch []byte) string {
	if len(b) != c18VecSize {
		return fmt.Sprintf("GetBytes length %d, want %d", len(b), c18VecSize)
	}
	want := scratch[:c18Stamp]
	for _, off := range [3]int{0, c18VecSize/2 - c18Stamp/2, c18VecSize - c18Stamp} {
		for k := 0; k < c18Stamp; k += 16 {
			binary.LittleEndian.PutUint32(want[k:], 0xC18C18C1)
			binary.LittleEndian.PutUint32(want[k+4:], id)
			binary.LittleEndian.PutUint32(want[k+8:], gen)
			binary.LittleEndian.PutUint32(want[k+12:], uint32(off)^id*2654435761^gen*40503)
		}
		if !bytes.Equal(b[off:off+c18Stamp], want) {
			return fmt.Sprintf("offset %d holds %s, want stamp(id=%d,gen=%d)", off, c18Describe(b[off:off+c18Stamp]), id, gen)
		}
	}
	return ""
}

// c18CheckFull compares all c18VecSize bytes. "" = equal.
func c18CheckFull(b []byte, id, gen uint32, scratch []byte) string {
	if msg := c18CheckStamps(b, id, gen, scratch); msg != "" {
		return msg
	}
	mid := c18VecSize/2 - c18Stamp/2
	if !bytes.Equal(b[c18Stamp:mid], c18Zero[c18Stamp:mid]) || !bytes.Equal(b[mid+c18Stamp:c18VecSize-c18Stamp], c18Zero[mid+c18Stamp:c18VecSize-c18Stamp]) {
		for i := c18Stamp; i < c18VecSize-c18Stamp; i++ {
			if (i < mid || i >= mid+c18Stamp) && b[i] != 0 {
				return fmt.Sprintf("byte %d is %#x inside the never-written part (holds %s)", i, b[i], c18Describe(b[i&^15:]))
			}
		}
	}
	return ""
}

type c18Rec struct {
	gen     uint32
	written bool
}

// c18Updater is the recording NodePointerUpdater. It runs inside moveBatch (arena locks held),
// so it only compares the delivered bytes with the shadow and counts. When the number of
// relocations of one RunCycle exceeds budget it sets the compactor's draining flag, which makes
// RunCycle return at its next check (RunCycle has a known free-slot livelock: a vector can
// bounce forever between two free slots). The budget is a number of calls, not a duration.
type c18Updater struct {
	ac      *AsyncCompactor
	shadow  map[uint32]*c18Rec // sequential phase only
	moves   int
	budget  int
	cut     bool
	bad     string
	scratch []byte
	moved   map[uint32]int
}

func (u *c18Updater) UpdateNodePointer(id uint32, b []byte) {
	u.moves++
	u.moved[id]++
	if u.bad == "" {
		r := u.shadow[id]
		switch {
		case r == nil:
			u.bad = fmt.Sprintf("UpdateNodePointer(%d) for an id that is not allocated", id)
		case r.written:
			if msg := c18CheckFull(b, id, r.gen, u.scratch); msg != "" {
				u.bad = fmt.Sprintf("UpdateNodePointer(%d) delivered wrong bytes: %s", id, msg)
			}
		}
	}
	if u.moves >= u.budget && !u.cut {
		u.cut = true
		u.ac.draining.Store(true)
	}
}

type c18Arena struct {
	cs      *vkit.Case
	ctx     *vkit.Ctx
	dir     string
	va      *VectorArena
	ac      *AsyncCompactor
	up      *c18Updater
	shadow  map[uint32]*c18Rec
	freed   []uint32 // ids freed at least once (candidates for re-alloc)
	gen     uint32
	scratch []byte
	kinds   map[string]bool
	reloc   int
	reuse   int
	chunks  int
	dropped int
}

func (a *c18Arena) open() {
	va, err := NewVectorArena(a.dir, c18VecSize, c18VecSize/4, PrecFloat32)
	if err != nil {
		a.cs.Fail("NewVectorArena: %v", err)
	}
	a.va = va
	a.dropped = 0
	cfg := ArenaCompactionConfig{Enabled: true, Interval: time.Hour, Threshold: 0.01, BatchSize: 100, BatchDelay: time.Nanosecond}
	a.ac = NewAsyncCompactor(va, cfg)
	a.up = &c18Updater{ac: a.ac, shadow: a.shadow, scratch: make([]byte, c18Stamp), moved: map[uint32]int{}}
	a.ac.SetNodeUpdater(a.up)
}

func (a *c18Arena) liveIDs() []uint32 {
	ids := make([]uint32, 0, len(a.shadow))
	for id := range a.shadow {
		ids = append(ids, id)
	}
	sort.Slice(ids, func(i, j int) bool { return ids[i] < ids[j] })
	return ids
}

func (a *c18Arena) alloc(id uint32) {
	st0 := a.va.GetState()
	had := len(st0.FreeSlots)
	slot, err := a.va.AllocSlot(id)
	if err != nil {
		a.cs.Fail("AllocSlot(%d): %v", id, err)
	}
	if _, live := a.shadow[id]; !live {
		a.shadow[id] = &c18Rec{}
		if had > 0 {
			a.reuse++
		}
	}
	_ = slot
}

func (a *c18Arena) write(id uint32) {
	b, err := a.va.GetBytes(id)
	if err != nil {
		a.cs.Fail("GetBytes(%d) of an allocated id: %v", id, err)
	}
	if len(b) != c18VecSize {
		a.cs.Fail("GetBytes(%d) returned %d bytes, want %d", id, len(b), c18VecSize)
	}
	a.gen++
	r := a.shadow[id]
	if !r.written {
		// a reused slot may hold the previous owner's bytes: the first write defines all of it
		copy(b, c18Zero)
	}
	c18PutStamp(b, id, a.gen)
	r.gen, r.written = a.gen, true
}

func (a *c18Arena) free(id uint32) {
	a.va.FreeSlot(id)
	delete(a.shadow, id)
	a.freed = append(a.freed, id)
}

// verify is run after every operation. Stamps (head, middle, tail) of every live id are
// compared each time; all 256 KiB are compared for nfull ids drawn from the case PRNG
// (nfull < 0: for every live id).
func (a *c18Arena) verify(nfull int, after string) {
	fullSet := map[uint32]bool{}
	if nfull > 0 {
		live := a.liveIDs()
		for k := 0; k < nfull && len(live) > 0; k++ {
			fullSet[live[a.cs.R.Intn(len(live))]] = true
		}
	}
	st := a.va.GetState()
	owner := map[uint32]uint32{}
	for id, slot := range st.SlotTable {
		if slot == UnallocatedSlot {
			if _, live := a.shadow[uint32(id)]; live {
				a.cs.Fail("after %s: id %d was allocated and never freed but the slot table says unallocated", after, id)
			}
			continue
		}
		if _, live := a.shadow[uint32(id)]; !live {
			a.cs.Fail("after %s: id %d is allocated in the slot table (slot %d) but was freed / never allocated", after, id, slot)
		}
		if o, dup := owner[slot]; dup {
			a.cs.Fail("after %s: physical slot %d is assigned to both id %d and id %d (slot table not injective)", after, slot, o, id)
		}
		owner[slot] = uint32(id)
	}
	for id := range a.shadow {
		if int(id) >= len(st.SlotTable) {
			a.cs.Fail("after %s: live id %d is beyond the slot table (len %d)", after, id, len(st.SlotTable))
		}
	}
	for _, fs := range st.FreeSlots {
		if o, used := owner[fs]; used {
			a.cs.Fail("after %s: physical slot %d is in the free list and allocated to id %d", after, fs, o)
		}
	}
	for id, r := range a.shadow {
		b, err := a.va.GetBytes(id)
		if err != nil {
			a.cs.Fail("after %s: GetBytes(%d) of a live id failed: %v", after, id, err)
		}
		if !r.written {
			continue
		}
		var msg string
		if nfull < 0 || fullSet[id] {
			a.ctx.Count("arena.full_256k_compares", 1)
			msg = c18CheckFull(b, id, r.gen, a.scratch)
		} else {
			msg = c18CheckStamps(b, id, r.gen, a.scratch)
		}
		if msg != "" {
			a.cs.Attach("slot_of_id", st.SlotTable[id])
			a.cs.Fail("after %s: GetBytes(%d) != last written content: %s", after, id, msg)
		}
	}
	a.ctx.Count("arena.getbytes_verified", int64(len(a.shadow)))
	a.va.mu.RLock()
	if n := len(a.va.chunks); n > a.chunks {
		a.chunks = n
	}
	a.va.mu.RUnlock()
}

func (a *c18Arena) runCycle() {
	a.up.moves, a.up.cut, a.up.bad = 0, false, ""
	// Move budget of this cycle, drawn from the case PRNG. A chunk holds 255 vectors, so a
	// converging pass over one chunk needs at most 255 moves: the largest budget lets such a
	// pass finish; the small budgets keep the cost of the livelocked cycles bounded (each move
	// copies 256 KiB twice, and a livelocked cycle may move a single vector per iteration).
	a.up.budget = vkit.Pick(a.cs.R, []int{3, 10, 10, 40, 40, 150, 150, 400})
	if v, err := strconv.Atoi(os.Getenv("C18_ARENA_BUDGET")); err == nil && v > 0 {
		a.up.budget = v // experiment knob: e.g. a huge value to see whether every RunCycle terminates by itself
	}
	a.ac.RunCycle()
	a.ac.draining.Store(false)
	if a.up.bad != "" {
		a.cs.Fail("during RunCycle: %s", a.up.bad)
	}
	a.reloc += a.up.moves
	a.va.mu.RLock()
	if d := len(a.va.droppedChunks); d > a.dropped {
		a.ctx.Count("arena.chunks_dropped", int64(d-a.dropped))
		a.dropped = d
	}
	a.va.mu.RUnlock()
	a.ctx.Count("arena.relocations", int64(a.up.moves))
	if a.up.cut {
		a.ctx.Count("arena.cycles_cut_by_move_budget", 1)
	} else {
		a.ctx.Count("arena.cycles_completed", 1)
	}
}

func (a *c18Arena) reopen(closeFirst bool) {
	st := a.va.GetState()
	old := a.va
	if closeFirst {
		if err := old.Close(); err != nil {
			a.cs.Fail("Close: %v", err)
		}
	}
	a.open()
	a.va.LoadState(ArenaState{SlotTable: append([]uint32(nil), st.SlotTable...), FreeSlots: append([]uint32(nil), st.FreeSlots...), NextPhysSlot: st.NextPhysSlot})
	if !closeFirst {
		if err := old.Close(); err != nil {
			a.cs.Fail("Close (old arena, after the fresh one was opened): %v", err)
		}
	}
}

func c18DiskUsage(dir string) (apparent, blocks int64) {
	ents, _ := os.ReadDir(dir)
	for _, e := range ents {
		if fi, err := e.Info(); err == nil {
			apparent += fi.Size()
			blocks += c18Blocks(fi)
		}
	}
	return
}

func c18Blocks(fi os.FileInfo) int64 {
	if st, ok := fi.Sys().(*syscall.Stat_t); ok {
		return st.Blocks * 512
	}
	return 0
}

func TestVerifC18Arena(t *testing.T) {
	vkit.Run(t, "C18", func(ctx *vkit.Ctx) {
		c18ArenaProbes(ctx)
		ctx.Group("arena", ctx.N(40, 1500), func(cs *vkit.Case) {
			a := &c18Arena{cs: cs, ctx: ctx, dir: cs.SubDir("arena"), shadow: map[uint32]*c18Rec{}, scratch: make([]byte, c18Stamp), kinds: map[string]bool{}}
			a.open()
			defer func() { a.va.Close() }()
			r := cs.R
			// universe of ids for this history: a window so that small and large histories both occur
			maxID := uint32(vkit.Pick(r, []int{40, 300, 520, c18MaxID}))
			nops := 200
			do := func(kind, desc string, full bool, fn func()) {
				cs.Op("%s", desc)
				fn()
				a.kinds[kind] = true
				ctx.Count("arena.op."+kind, 1)
				nfull := 2
				if full {
					nfull = 40
				}
				a.verify(nfull, desc)
			}
			// start populated so that several chunks are in play from the beginning
			first := r.Range(int(maxID)/3, int(maxID))
			do("bulk_alloc", fmt.Sprintf("bulk alloc+write ids 0..%d", first-1), false, func() {
				for id := 0; id < first; id++ {
					a.alloc(uint32(id))
					a.write(uint32(id))
				}
			})
			for i := 0; i < nops; i++ {
				full := i%25 == 24 || i == nops-1
				live := a.liveIDs()
				p := r.Intn(100)
				switch {
				case p < 16: // alloc a new (or freed) id, usually followed by a write
					id := uint32(r.Intn(int(maxID)))
					if _, ok := a.shadow[id]; ok {
						do("alloc_again", fmt.Sprintf("AllocSlot(%d) of an already allocated id", id), full, func() { a.alloc(id) })
						break
					}
					wr := r.Chance(0.85)
					do("alloc", fmt.Sprintf("AllocSlot(%d) write=%v", id, wr), full, func() {
						a.alloc(id)
						if wr {
							a.write(id)
						}
					})
				case p < 24 && len(a.freed) > 0: // re-alloc an id that was freed before (slot reuse)
					id := vkit.Pick(r, a.freed)
					if _, ok := a.shadow[id]; ok {
						break
					}
					do("realloc", fmt.Sprintf("AllocSlot(%d) again after FreeSlot + write", id), full, func() { a.alloc(id); a.write(id) })
				case p < 36 && len(live) > 0: // overwrite
					id := vkit.Pick(r, live)
					do("write", fmt.Sprintf("write(%d)", id), full, func() { a.write(id) })
				case p < 52 && len(live) > 0:
					id := vkit.Pick(r, live)
					do("free", fmt.Sprintf("FreeSlot(%d)", id), full, func() { a.free(id) })
				case p < 60 && len(live) > 4: // free a stride / a range (fragmentation, empty trailing chunks)
					lo := r.Intn(len(live))
					n := r.Range(2, max(2, len(live)/2))
					step := vkit.Pick(r, []int{1, 1, 2, 3})
					do("bulk_free", fmt.Sprintf("FreeSlot of %d live ids from rank %d step %d", n, lo, step), full, func() {
						for k, c := lo, 0; k < len(live) && c < n; k, c = k+step, c+1 {
							a.free(live[k])
						}
					})
				case p < 63 && len(live) > 0: // empty the last chunk(s): gives tryDropEmptyChunks something to drop
					st := a.va.GetState()
					var top uint32
					for _, id := range live {
						if s := st.SlotTable[id]; s > top {
							top = s
						}
					}
					lastChunk := top / 255
					if lastChunk == 0 {
						break
					}
					do("free_tail", fmt.Sprintf("FreeSlot of every live id stored in chunk %d", lastChunk), full, func() {
						for _, id := range live {
							if st.SlotTable[id]/255 == lastChunk {
								a.free(id)
							}
						}
					})
				case p < 66: // bulk alloc
					n := r.Range(2, 120)
					do("bulk_alloc", fmt.Sprintf("alloc+write %d random ids", n), full, func() {
						for c := 0; c < n; c++ {
							id := uint32(r.Intn(int(maxID)))
							if _, ok := a.shadow[id]; !ok {
								a.alloc(id)
								a.write(id)
							}
						}
					})
				case p < 84:
					do("run_cycle", "RunCycle()", full, func() { a.runCycle() })
				case p < 92:
					do("reopen", "GetState; Close; NewVectorArena(same dir); LoadState", true, func() { a.reopen(true) })
				case p < 96:
					do("load_fresh", "GetState; NewVectorArena(same dir); LoadState; Close(old)", true, func() { a.reopen(false) })
				default:
					do("get_state", "GetState (read-only)", full, func() { _ = a.va.GetState() })
				}
			}
			a.verify(-1, "the last operation (final full comparison)")
			app, blk := c18DiskUsage(a.dir)
			if app > 0 {
				ctx.Sample("arena_disk", 2, map[string]any{"apparent_bytes": app, "allocated_bytes": blk})
			}
			ctx.Eval(1)
			ctx.Count("arena.histories", 1)
			if a.reloc > 0 && a.reuse > 0 && a.kinds["reopen"] {
				ctx.Distinct(fmt.Sprintf("arena/%d", cs.Idx))
			}
			if a.chunks >= 3 {
				ctx.Count("arena.histories_with_3_chunks", 1)
			}
			ctx.Sample("arena_history", 1, map[string]any{"ops": cs.Ops()[:min(len(cs.Ops()), 20)], "relocations": a.reloc, "slot_reuses": a.reuse})
		})
	})
}

// ---------------------------------------------------------------------------------------
// Concurrent phase: readers verify immutable contents while the compactor cycles and
// writers alloc/free disjoint ids. Run with and without the race detector.
//
// Reader protocol (what a zero-copy reader can legitimately expect): the slice returned by
// GetBytes(id) is the content of id as long as id was not relocated in between. The arena
// tells its owner about relocations only through UpdateNodePointer, so a reader samples the
// per-id relocation counter (bumped by the recording updater inside moveBatch, i.e. before the
// old slot can be handed out again) before GetBytes and after copying the stamps; if the
// counter moved, the observation is discarded (counted), otherwise the bytes must be id's.
// ---------------------------------------------------------------------------------------

type c18ConcUpdater struct {
	ac      *AsyncCompactor
	moves   [c18MaxID + 64]atomic.Uint32
	gens    []uint32 // immutable ids: generation written before the concurrent phase (0 = not immutable)
	total   atomic.Int64
	cycle   atomic.Int64
	budget  atomic.Int64
	touch   func()
	badMu   sync.Mutex
	bad     string
	scratch []byte
}

func (u *c18ConcUpdater) UpdateNodePointer(id uint32, b []byte) {
	if int(id) < len(u.moves) {
		u.moves[id].Add(1)
	}
	u.total.Add(1)
	if int(id) < len(u.gens) && u.gens[id] != 0 {
		if msg := c18CheckFull(b, id, u.gens[id], u.scratch); msg != "" {
			u.badMu.Lock()
			if u.bad == "" {
				u.bad = fmt.Sprintf("UpdateNodePointer(%d) delivered wrong bytes for an immutable vector: %s", id, msg)
			}
			u.badMu.Unlock()
		}
	}
	if u.touch != nil {
		u.touch()
	}
	if u.cycle.Add(1) >= u.budget.Load() {
		u.ac.draining.Store(true)
	}
}

func c18Concurrent(ctx *vkit.Ctx, cs *vkit.Case, withWriters bool) {
	r := cs.R
	dir := cs.SubDir("arena")
	va, err := NewVectorArena(dir, c18VecSize, c18VecSize/4, PrecFloat32)
	if err != nil {
		cs.Fail("NewVectorArena: %v", err)
	}
	defer va.Close()
	cfg := ArenaCompactionConfig{Enabled: true, Interval: time.Hour, Threshold: 0.01, BatchSize: 100, BatchDelay: time.Nanosecond}
	ac := NewAsyncCompactor(va, cfg)
	up := &c18ConcUpdater{ac: ac, gens: make([]uint32, c18MaxID+64), scratch: make([]byte, c18Stamp), touch: ctx.Touch}
	ac.SetNodeUpdater(up)

	// ids 0..nImm+nHole-1 are allocated in order; a seed-chosen subset is freed again (holes)
	// before the concurrent phase so that the compactor has work. Immutable ids keep their content.
	total := r.Range(300, 560) // 255 slots per chunk: two or three chunks
	if c18Race {
		total = r.Range(262, 330)
	}
	var imm []uint32
	scratch := make([]byte, c18Stamp)
	cs.Op("setup: alloc+write ids 0..%d", total-1)
	for id := 0; id < total; id++ {
		if _, err := va.AllocSlot(uint32(id)); err != nil {
			cs.Fail("AllocSlot(%d): %v", id, err)
		}
		b, err := va.GetBytes(uint32(id))
		if err != nil {
			cs.Fail("GetBytes(%d): %v", id, err)
		}
		c18PutStamp(b, uint32(id), uint32(id)+1)
	}
	holeP := vkit.Pick(r, []float64{0.1, 0.3, 0.5})
	nholes := 0
	for id := 0; id < total; id++ {
		if r.Chance(holeP) {
			va.FreeSlot(uint32(id))
			nholes++
		} else {
			imm = append(imm, uint32(id))
			up.gens[id] = uint32(id) + 1
		}
	}
	cs.Op("setup: freed %d of %d ids (holes); %d immutable ids; writers=%v", nholes, total, len(imm), withWriters)
	if len(imm) == 0 || nholes == 0 {
		return
	}

	stop := make(chan struct{})
	var wg sync.WaitGroup
	var mu sync.Mutex
	var failure string
	fail := func(s string) {
		mu.Lock()
		if failure == "" {
			failure = s
		}
		mu.Unlock()
	}
	var verified, discarded, staleForeign atomic.Int64
	nReaders := 8
	seeds := make([]uint64, nReaders+2)
	for i := range seeds {
		seeds[i] = r.Uint64()
	}
	for g := 0; g < nReaders; g++ {
		wg.Add(1)
		go func(g int) {
			defer wg.Done()
			rr := vkit.NewRand(seeds[g], uint64(g))
			local := make([]byte, 3*c18Stamp)
			sc := make([]byte, c18Stamp)
			for n := 0; ; n++ {
				select {
				case <-stop:
					return
				default:
				}
				id := imm[rr.Intn(len(imm))]
				c1 := up.moves[id].Load()
				b, err := va.GetBytes(id)
				if err != nil {
					fail(fmt.Sprintf("reader %d: GetBytes(%d) of a live immutable id failed: %v", g, id, err))
					return
				}
				copy(local[0:], b[0:c18Stamp])
				copy(local[c18Stamp:], b[c18VecSize/2-c18Stamp/2:c18VecSize/2+c18Stamp/2])
				copy(local[2*c18Stamp:], b[c18VecSize-c18Stamp:])
				b2, err2 := va.GetBytes(id) // takes slotMu.RLock: orders the copies above before the counter load
				c2 := up.moves[id].Load()
				if err2 != nil {
					fail(fmt.Sprintf("reader %d: GetBytes(%d) of a live immutable id failed: %v", g, id, err2))
					return
				}
				if c1 != c2 || &b[0] != &b2[0] {
					discarded.Add(1)
					if binary.LittleEndian.Uint32(local[4:]) != id || binary.LittleEndian.Uint32(local[c18Stamp+4:]) != id || binary.LittleEndian.Uint32(local[2*c18Stamp+4:]) != id {
						staleForeign.Add(1) // the slice obtained before the relocation already shows another vector (see D-C18-2)
					}
					continue
				}
				for k, off := range [3]int{0, c18VecSize/2 - c18Stamp/2, c18VecSize - c18Stamp} {
					exp := sc
					for j := 0; j < c18Stamp; j += 16 {
						binary.LittleEndian.PutUint32(exp[j:], 0xC18C18C1)
						binary.LittleEndian.PutUint32(exp[j+4:], id)
						binary.LittleEndian.PutUint32(exp[j+8:], id+1)
						binary.LittleEndian.PutUint32(exp[j+12:], uint32(off)^id*2654435761^(id+1)*40503)
					}
					if !bytes.Equal(local[k*c18Stamp:(k+1)*c18Stamp], exp) {
						fail(fmt.Sprintf("reader %d: GetBytes(%d) (not relocated during the read: move counter %d before and after) offset %d holds %s, want stamp(id=%d,gen=%d)",
							g, id, c1, off, c18Describe(local[k*c18Stamp:(k+1)*c18Stamp]), id, id+1))
						return
					}
				}
				verified.Add(1)
				if n%2 == 1 {
					runtime.Gosched() // keep the slot lock available to the compactor and the writers
				}
			}
		}(g)
	}
	// Generator guard for the recorded finding D-C18-1 (FreeSlot/AllocSlot between the steps of a
	// compaction batch): while it is listed as "known", writers do not issue AllocSlot/FreeSlot
	// while a RunCycle is in flight (they still run concurrently with the readers and alternate
	// with the cycles). The guard removes exactly that overlap; when the finding is marked fixed
	// the writers run freely against the compactor again.
	var gate sync.RWMutex
	gated := withWriters && ctx.IsKnown("D-C18-1")
	if gated {
		ctx.Count("conc.cases_with_guard_D-C18-1", 1)
	}
	var writerOps atomic.Int64
	if withWriters {
		// two writers churn the free list with ids of their own (disjoint from every other id)
		for w := 0; w < 2; w++ {
			wg.Add(1)
			go func(w int) {
				defer wg.Done()
				rr := vkit.NewRand(seeds[nReaders+w], uint64(100+w))
				base := uint32(total + 8 + w*40)
				var mine []uint32
				step := func() bool {
					if gated {
						gate.RLock()
						defer gate.RUnlock()
					}
					if len(mine) < 30 && (len(mine) == 0 || rr.Chance(0.55)) {
						id := base + uint32(rr.Intn(40))
						for _, m := range mine {
							if m == id {
								return true
							}
						}
						if _, err := va.AllocSlot(id); err != nil {
							fail(fmt.Sprintf("writer %d: AllocSlot(%d): %v", w, id, err))
							return false
						}
						if _, err := va.GetBytes(id); err != nil {
							fail(fmt.Sprintf("writer %d: GetBytes(%d): %v", w, id, err))
							return false
						}
						mine = append(mine, id)
					} else {
						k := rr.Intn(len(mine))
						va.FreeSlot(mine[k])
						mine = append(mine[:k], mine[k+1:]...)
					}
					writerOps.Add(1)
					return true
				}
				for {
					select {
					case <-stop:
						return
					default:
					}
					if !step() {
						return
					}
					ctx.Touch()
				}
			}(w)
		}
	}
	// the compactor: a fixed number of cycles, each cut after a fixed number of relocations
	// Under the race detector every map access of identifyVectorsToMove costs ~10x and a
	// livelocked cycle may relocate one vector per iteration: smaller budgets there.
	ncycles := ctx.N(8, 16)
	choices := []int{20, 60, 60, 200, 400}
	if c18Race {
		ncycles = ctx.N(5, 10)
		choices = []int{4, 10, 25, 60}
	}
	budgets := make([]int64, ncycles)
	for i := range budgets {
		budgets[i] = int64(vkit.Pick(r, choices))
	}
	cs.Op("concurrent phase: %d readers, %d cycles with relocation budgets %v", nReaders, ncycles, budgets)
	// At least ncycles cycles; more (same budgets again, at most 30x) until the readers have
	// completed a minimum number of observations, so that a fast compactor does not end the
	// phase before the readers overlapped it. The stop rule counts work, never time.
	minReads := int64(20000)
	if c18Race {
		minReads = 4000
	}
	for c := 0; c < 30*ncycles; c++ {
		if c >= ncycles && verified.Load()+discarded.Load() >= minReads {
			break
		}
		ctx.Count("conc.cycles", 1)
		up.cycle.Store(0)
		up.budget.Store(budgets[c%ncycles])
		if gated {
			gate.Lock()
		}
		ac.RunCycle()
		ac.draining.Store(false)
		if gated {
			gate.Unlock()
			for t0 := writerOps.Load(); writerOps.Load() < t0+12; { // let the writers churn between two cycles
				runtime.Gosched()
				mu.Lock()
				f := failure
				mu.Unlock()
				if f != "" {
					break
				}
			}
		}
		ctx.Touch()
		mu.Lock()
		f := failure
		mu.Unlock()
		if f != "" {
			break
		}
	}
	close(stop)
	wg.Wait()
	ctx.Count("conc.relocations", up.total.Load())
	ctx.Count("conc.writer_ops", writerOps.Load())
	ctx.Count("conc.reads_verified", verified.Load())
	ctx.Count("conc.reads_discarded_relocated", discarded.Load())
	ctx.Count("conc.reads_discarded_that_showed_foreign_bytes", staleForeign.Load())
	if failure != "" {
		cs.Fail("%s", failure)
	}
	if up.bad != "" {
		cs.Fail("%s", up.bad)
	}
	// quiescent state: every immutable id still reads its own bytes; table injective; free/allocated disjoint
	st := va.GetState()
	owner := map[uint32]uint32{}
	for id, slot := range st.SlotTable {
		if slot == UnallocatedSlot {
			continue
		}
		if o, dup := owner[slot]; dup {
			cs.Fail("after the concurrent phase: physical slot %d is assigned to both id %d and id %d", slot, o, id)
		}
		owner[slot] = uint32(id)
	}
	for _, fs := range st.FreeSlots {
		if o, used := owner[fs]; used {
			cs.Fail("after the concurrent phase: physical slot %d is in the free list and allocated to id %d", fs, o)
		}
	}
	for _, id := range imm {
		b, err := va.GetBytes(id)
		if err != nil {
			cs.Fail("after the concurrent phase: GetBytes(%d): %v", id, err)
		}
		if msg := c18CheckFull(b, id, id+1, scratch); msg != "" {
			cs.Fail("after the concurrent phase: immutable id %d: %s", id, msg)
		}
	}
	ctx.Eval(1)
	if up.total.Load() > 0 && verified.Load() > 0 {
		ctx.Distinct(fmt.Sprintf("conc/%v/%d", withWriters, cs.Idx))
	}
}

func TestVerifC18ArenaConcurrent(t *testing.T) {
	vkit.Run(t, "C18", func(ctx *vkit.Ctx) {
		n := ctx.N(4, 48)
		if c18Race {
			n = ctx.N(4, 24)
		}
		ctx.Group("conc_readers", n, func(cs *vkit.Case) { c18Concurrent(ctx, cs, false) })
		ctx.Group("conc_readers_writers", n, func(cs *vkit.Case) { c18Concurrent(ctx, cs, true) })
	})
}

// ---------------------------------------------------------------------------------------
// Fixed scenarios of recorded findings.
// ---------------------------------------------------------------------------------------

// c18ProbeArena builds an arena with ids 0..n-1 allocated in order (id i on slot i) and written.
func c18ProbeArena(cs *vkit.Case, n int) (*VectorArena, *AsyncCompactor, *c18Updater) {
	va, err := NewVectorArena(cs.SubDir("arena"), c18VecSize, c18VecSize/4, PrecFloat32)
	if err != nil {
		cs.Fail("NewVectorArena: %v", err)
	}
	ac := NewAsyncCompactor(va, ArenaCompactionConfig{Enabled: true, Interval: time.Hour, Threshold: 0.01, BatchSize: 100, BatchDelay: time.Nanosecond})
	up := &c18Updater{ac: ac, shadow: map[uint32]*c18Rec{}, scratch: make([]byte, c18Stamp), moved: map[uint32]int{}, budget: 1 << 30}
	ac.SetNodeUpdater(up)
	for id := uint32(0); id < uint32(n); id++ {
		c18ProbeAllocWrite(cs, va, id, id+1)
	}
	return va, ac, up
}

func c18ProbeAllocWrite(cs *vkit.Case, va *VectorArena, id, gen uint32) {
	cs.Op("AllocSlot(%d) + write stamp(id=%d,gen=%d)", id, id, gen)
	if _, err := va.AllocSlot(id); err != nil {
		cs.Fail("AllocSlot(%d): %v", id, err)
	}
	b, err := va.GetBytes(id)
	if err != nil {
		cs.Fail("GetBytes(%d): %v", id, err)
	}
	copy(b, c18Zero)
	c18PutStamp(b, id, gen)
}

// c18ProbeRead returns "" when GetBytes(id) holds stamp (id, gen).
func c18ProbeRead(va *VectorArena, id, gen uint32) string {
	b, err := va.GetBytes(id)
	if err != nil {
		return fmt.Sprintf("GetBytes(%d): %v", id, err)
	}
	if msg := c18CheckFull(b, id, gen, make([]byte, c18Stamp)); msg != "" {
		return fmt.Sprintf("GetBytes(%d): %s", id, msg)
	}
	return ""
}

// c18ProbeSnapshot does what compactChunk does between identifyVectorsToMove and moveBatch for
// one id (compactor.go: the read loop under slotMu.RLock): slot lookup + copy of the bytes.
func c18ProbeSnapshot(va *VectorArena, id uint32) vectorData {
	va.slotMu.RLock()
	defer va.slotMu.RUnlock()
	slot := va.slotTable[id]
	if slot == UnallocatedSlot {
		return vectorData{} // compactChunk `continue`s and leaves the zero value in the batch
	}
	chunk := int(slot) / va.vecsPerChk
	off := ArenaHeaderSize + int(slot%uint32(va.vecsPerChk))*va.vectorSize
	vec := make([]byte, va.vectorSize)
	va.mu.RLock()
	copy(vec, va.chunks[chunk].Data[off:off+va.vectorSize])
	va.mu.RUnlock()
	return vectorData{internalID: id, fromSlot: slot, data: vec}
}

func c18ArenaProbes(ctx *vkit.Ctx) {
	// D-C18-1: relocation is not safe against FreeSlot/AllocSlot calls that fall between the
	// steps of one compaction batch (identify -> read -> FindFreeSlots -> moveBatch; the arena
	// locks are released between the steps). Three deterministic interleavings, each placed at a
	// point where compactChunk holds no lock:
	ctx.Probe("D-C18-1", func(cs *vkit.Case) string {
		var out []string
		// (a) FindFreeSlots hands out a sub-slice of the free list's backing array; a FreeSlot
		//     after it overwrites the reserved target in place.
		{
			va, ac, _ := c18ProbeArena(cs, 6)
			cs.Op("(a) FreeSlot(1); FreeSlot(2)")
			va.FreeSlot(1)
			va.FreeSlot(2)
			v := c18ProbeSnapshot(va, 5) // the compactor read id 5 (slot 5) for relocation
			cs.Op("(a) FindFreeSlots(1)")
			targets := va.FindFreeSlots(1)
			reserved := targets[0]
			cs.Op("(a) FreeSlot(3) by another goroutine, before moveBatch takes the locks")
			va.FreeSlot(3)
			cs.Op("(a) moveBatch(id 5 -> reserved target)")
			ac.moveBatch([]vectorData{v}, targets)
			c18ProbeAllocWrite(cs, va, 9, 100) // two new vectors are stored
			c18ProbeAllocWrite(cs, va, 10, 101)
			msg := c18ProbeRead(va, 5, 6)
			va.Close()
			if msg != "" {
				out = append(out, fmt.Sprintf("(a) FindFreeSlots reserved slot %d, FreeSlot(3) turned the reservation into slot %d (still in the free list); after moveBatch and AllocSlot+write of ids 9 and 10: %s", reserved, targets[0], msg))
			}
		}
		// (b) an id of the batch is freed and its slot re-allocated between the read and
		//     moveBatch: moveBatch skips the move but still pushes the old slot on the free list.
		{
			va, ac, _ := c18ProbeArena(cs, 6)
			cs.Op("(b) FreeSlot(0)")
			va.FreeSlot(0) // a hole below, so that ids 1.. are relocation candidates
			v := c18ProbeSnapshot(va, 4)
			targets := va.FindFreeSlots(1)
			cs.Op("(b) FreeSlot(4); AllocSlot(7)+write (reuses slot 4) by another goroutine, before moveBatch")
			va.FreeSlot(4)
			c18ProbeAllocWrite(cs, va, 7, 70)
			cs.Op("(b) moveBatch(id 4 -> free slot)")
			ac.moveBatch([]vectorData{v}, targets)
			c18ProbeAllocWrite(cs, va, 8, 80)
			msg := c18ProbeRead(va, 7, 70)
			va.Close()
			if msg != "" {
				out = append(out, "(b) id 4 was freed and its slot given to id 7 before moveBatch ran; moveBatch put that slot on the free list again and the next AllocSlot+write (id 8) landed on it: "+msg)
			}
		}
		// (c) an id of the batch is freed between identifyVectorsToMove and the read loop:
		//     compactChunk leaves a zero vectorData{} (internalID 0, fromSlot 0, data nil) in the
		//     batch and moveBatch "relocates" id 0 from slot 0 without any bytes.
		{
			va, ac, _ := c18ProbeArena(cs, 6)
			cs.Op("(c) FreeSlot(2)")
			va.FreeSlot(2)
			cs.Op("(c) identifyVectorsToMove picked id 3; FreeSlot(3) by another goroutine; read loop")
			va.FreeSlot(3)
			v := c18ProbeSnapshot(va, 3) // zero value, as in compactChunk
			targets := va.FindFreeSlots(1)
			cs.Op("(c) moveBatch(zero entry)")
			ac.moveBatch([]vectorData{v}, targets)
			msg := c18ProbeRead(va, 0, 1)
			va.Close()
			if msg != "" {
				out = append(out, "(c) id 3 was freed between identifyVectorsToMove and the read loop; the zero batch entry made moveBatch relocate id 0 without copying its bytes: "+msg)
			}
		}
		return strings.Join(out, " || ")
	})
}

package mmap

// C18 (arena part) — "storage slots are never shared between live vectors nor expose another
// vector's bytes after slot reuse, relocation or reopen".
//
// The product never calls FreeSlot (vacuum clears bytes but keeps the slot), so slot reuse and
// relocation cannot be reached through the engine API: VectorArena and AsyncCompactor.RunCycle
// are driven directly, against a shadow map id -> content stamp.
//
// Geometry: vector size 256 KiB => (64 MiB - 64) / 256 KiB = 255 slots per chunk; ids up to
// 700 => 3 chunks. Every written vector carries three 64-byte stamps (head, middle, tail) that
// encode (id, generation); all other bytes stay zero, so the 64 MiB chunk files stay sparse.
//
// What the oracle demands (nothing else):
//   * for every id whose content was written and that is still allocated:
//       GetBytes(id) succeeds and returns exactly the bytes written last (stamps after every
//       operation; the full 256 KiB every few operations and at the end of each history);
//   * the allocated part of the slot table is injective (no two live ids on one slot);
//   * no slot is both in the free list and allocated;
//   * every UpdateNodePointer(id, bytes) call made by the compactor delivers exactly the
//     bytes of id.
// It does NOT demand anything about: the content of an allocated-but-never-written slot
// (a reused slot legitimately still holds the bytes of its previous, freed owner), which free
// slot AllocSlot picks, whether RunCycle actually reduces fragmentation, or termination of
// RunCycle (its free-slot livelock is acknowledged in /repo's own tests; RunCycle is cut
// after a move budget that is a function of the case only — see c18Updater).

import (
	"bytes"
	"encoding/binary"
	"fmt"
	"os"
	"os/exec"
	"regexp"
	"runtime"
	"sort"
	"strconv"
	"strings"
	"sync"
	"sync/atomic"
	"syscall"
	"testing"
	"time"
	"unsafe"

	"github.com/sanonone/kektordb/internal/zzverif/vkit"
)

const (
	c18VecSize = 256 * 1024
	c18Stamp   = 64
	c18MaxID   = 700
)

var c18Zero = make([]byte, c18VecSize)

// c18PutStamp writes the three stamps of (id, gen) into b (len c18VecSize).
func c18PutStamp(b []byte, id, gen uint32) {
	for _, off := range [3]int{0, c18VecSize/2 - c18Stamp/2, c18VecSize - c18Stamp} {
		s := b[off : off+c18Stamp]
		for k := 0; k < c18Stamp; k += 16 {
			binary.LittleEndian.PutUint32(s[k:], 0xC18C18C1)
			binary.LittleEndian.PutUint32(s[k+4:], id)
			binary.LittleEndian.PutUint32(s[k+8:], gen)
			binary.LittleEndian.PutUint32(s[k+12:], uint32(off)^id*2654435761^gen*40503)
		}
	}
}

// c18Describe renders what a stamp region contains (for witnesses).
func c18Describe(s []byte) string {
	if len(s) < 16 {
		return "short"
	}
	if bytes.Equal(s[:16], c18Zero[:16]) {
		return "zeros"
	}
	if binary.LittleEndian.Uint32(s) == 0xC18C18C1 {
		return fmt.Sprintf("stamp(id=%d,gen=%d)", binary.LittleEndian.Uint32(s[4:]), binary.LittleEndian.Uint32(s[8:]))
	}
	return fmt.Sprintf("bytes %x", s[:16])
}

// c18CheckStamps compares the three stamp regions of b with (id, gen). "" = equal.
func c18CheckStamps(b []byte, id, gen uint32, scratch []byte) string {
	if len(b) != c18VecSize {
		return fmt.Sprintf("GetBytes length %d, want %d", len(b), c18VecSize)
	}
	want := scratch[:c18Stamp]
	for _, off := range [3]int{0, c18VecSize/2 - c18Stamp/2, c18VecSize - c18Stamp} {
		for k := 0; k < c18Stamp; k += 16 {
			binary.LittleEndian.PutUint32(want[k:], 0xC18C18C1)
			binary.LittleEndian.PutUint32(want[k+4:], id)
			binary.LittleEndian.PutUint32(want[k+8:], gen)
			binary.LittleEndian.PutUint32(want[k+12:], uint32(off)^id*2654435761^gen*40503)
		}
		if !bytes.Equal(b[off:off+c18Stamp], want) {
			return fmt.Sprintf("offset %d holds %s, want stamp(id=%d,gen=%d)", off, c18Describe(b[off:off+c18Stamp]), id, gen)
		}
	}
	return ""
}

// c18CheckFull compares all c18VecSize bytes. "" = equal.
func c18CheckFull(b []byte, id, gen uint32, scratch []byte) string {
	if msg := c18CheckStamps(b, id, gen, scratch); msg != "" {
		return msg
	}
	mid := c18VecSize/2 - c18Stamp/2
	if !bytes.Equal(b[c18Stamp:mid], c18Zero[c18Stamp:mid]) || !bytes.Equal(b[mid+c18Stamp:c18VecSize-c18Stamp], c18Zero[mid+c18Stamp:c18VecSize-c18Stamp]) {
		for i := c18Stamp; i < c18VecSize-c18Stamp; i++ {
			if (i < mid || i >= mid+c18Stamp) && b[i] != 0 {
				return fmt.Sprintf("byte %d is %#x inside the never-written part (holds %s)", i, b[i], c18Describe(b[i&^15:]))
			}
		}
	}
	return ""
}

type c18Rec struct {
	gen     uint32
	written bool
}

// c18Updater is the recording NodePointerUpdater. It runs inside moveBatch (arena locks held),
// so it only compares the delivered bytes with the shadow and counts. When the number of
// relocations of one RunCycle exceeds budget it sets the compactor's draining flag, which makes
// RunCycle return at its next check (RunCycle has a known free-slot livelock: a vector can
// bounce forever between two free slots). The budget is a number of calls, not a duration.
type c18Updater struct {
	ac      *AsyncCompactor
	shadow  map[uint32]*c18Rec // sequential phase only
	moves   int
	budget  int
	cut     bool
	bad     string
	scratch []byte
	moved   map[uint32]int
}

func (u *c18Updater) UpdateNodePointer(id uint32, b []byte) {
	u.moves++
	u.moved[id]++
	if u.bad == "" {
		r := u.shadow[id]
		switch {
		case r == nil:
			u.bad = fmt.Sprintf("UpdateNodePointer(%d) for an id that is not allocated", id)
		case r.written:
			if msg := c18CheckFull(b, id, r.gen, u.scratch); msg != "" {
				u.bad = fmt.Sprintf("UpdateNodePointer(%d) delivered wrong bytes: %s", id, msg)
			}
		}
	}
	if u.moves >= u.budget && !u.cut {
		u.cut = true
		u.ac.draining.Store(true)
	}
}

type c18Arena struct {
	cs      *vkit.Case
	ctx     *vkit.Ctx
	dir     string
	va      *VectorArena
	ac      *AsyncCompactor
	up      *c18Updater
	shadow  map[uint32]*c18Rec
	freed   []uint32 // ids freed at least once (candidates for re-alloc)
	gen     uint32
	scratch []byte
	kinds   map[string]bool
	reloc   int
	reuse   int
	chunks  int
	dropped int
}

func (a *c18Arena) open() {
	va, err := NewVectorArena(a.dir, c18VecSize, c18VecSize/4, PrecFloat32)
	if err != nil {
		a.cs.Fail("NewVectorArena: %v", err)
	}
	a.va = va
	a.dropped = 0
	cfg := ArenaCompactionConfig{Enabled: true, Interval: time.Hour, Threshold: 0.01, BatchSize: 100, BatchDelay: time.Nanosecond}
	a.ac = NewAsyncCompactor(va, cfg)
	a.up = &c18Updater{ac: a.ac, shadow: a.shadow, scratch: make([]byte, c18Stamp), moved: map[uint32]int{}}
	a.ac.SetNodeUpdater(a.up)
}

func (a *c18Arena) liveIDs() []uint32 {
	ids := make([]uint32, 0, len(a.shadow))
	for id := range a.shadow {
		ids = append(ids, id)
	}
	sort.Slice(ids, func(i, j int) bool { return ids[i] < ids[j] })
	return ids
}

func (a *c18Arena) alloc(id uint32) {
	st0 := a.va.GetState()
	had := len(st0.FreeSlots)
	slot, err := a.va.AllocSlot(id)
	if err != nil {
		a.cs.Fail("AllocSlot(%d): %v", id, err)
	}
	if _, live := a.shadow[id]; !live {
		a.shadow[id] = &c18Rec{}
		if had > 0 {
			a.reuse++
		}
	}
	_ = slot
}

func (a *c18Arena) write(id uint32) {
	b, err := a.va.GetBytes(id)
	if err != nil {
		a.cs.Fail("GetBytes(%d) of an allocated id: %v", id, err)
	}
	if len(b) != c18VecSize {
		a.cs.Fail("GetBytes(%d) returned %d bytes, want %d", id, len(b), c18VecSize)
	}
	a.gen++
	r := a.shadow[id]
	if !r.written && !bytes.Equal(b, c18Zero) {
		// a reused slot may hold the previous owner's bytes: the first write defines all of it
		// (a slot that was never used reads as zeros already; not writing zeros over it keeps
		// the 64 MiB chunk files sparse)
		copy(b, c18Zero)
	}
	c18PutStamp(b, id, a.gen)
	r.gen, r.written = a.gen, true
}

func (a *c18Arena) free(id uint32) {
	a.va.FreeSlot(id)
	delete(a.shadow, id)
	a.freed = append(a.freed, id)
}

// getDead reads an id that is not allocated. The product answers with an error; what the
// property forbids is handing out bytes that belong to a live vector ("nor expose another
// vector's bytes after slot reuse").
func (a *c18Arena) getDead(id uint32) {
	b, err := a.va.GetBytes(id)
	if err != nil {
		a.ctx.Count("arena.get_dead_refused", 1)
		return
	}
	a.ctx.Count("arena.get_dead_returned_bytes", 1)
	if len(b) >= 16 && binary.LittleEndian.Uint32(b) == 0xC18C18C1 {
		oid, ogen := binary.LittleEndian.Uint32(b[4:]), binary.LittleEndian.Uint32(b[8:])
		if r, live := a.shadow[oid]; live && r.written && r.gen == ogen {
			a.cs.Fail("GetBytes(%d) of an id that is not allocated returned the bytes of the live vector %d (%s)", id, oid, c18Describe(b))
		}
	}
}

// verify is run after every operation. Stamps (head, middle, tail) of every live id are
// compared each time; all 256 KiB are compared for nfull ids drawn from the case PRNG
// (nfull < 0: for every live id).
func (a *c18Arena) verify(nfull int, after string) {
	fullSet := map[uint32]bool{}
	if nfull > 0 {
		live := a.liveIDs()
		for k := 0; k < nfull && len(live) > 0; k++ {
			fullSet[live[a.cs.R.Intn(len(live))]] = true
		}
	}
	st := a.va.GetState()
	owner := map[uint32]uint32{}
	for id, slot := range st.SlotTable {
		if slot == UnallocatedSlot {
			if _, live := a.shadow[uint32(id)]; live {
				a.cs.Fail("after %s: id %d was allocated and never freed but the slot table says unallocated", after, id)
			}
			continue
		}
		if _, live := a.shadow[uint32(id)]; !live {
			a.cs.Fail("after %s: id %d is allocated in the slot table (slot %d) but was freed / never allocated", after, id, slot)
		}
		if o, dup := owner[slot]; dup {
			a.cs.Fail("after %s: physical slot %d is assigned to both id %d and id %d (slot table not injective)", after, slot, o, id)
		}
		owner[slot] = uint32(id)
	}
	for id := range a.shadow {
		if int(id) >= len(st.SlotTable) {
			a.cs.Fail("after %s: live id %d is beyond the slot table (len %d)", after, id, len(st.SlotTable))
		}
	}
	// Free-list entries are the slots the next AllocSlot calls hand out, fresh slots start at
	// NextPhysSlot: an entry that is allocated, listed twice, or not below NextPhysSlot (and an
	// allocated slot not below NextPhysSlot) is a slot that two live vectors will share after
	// the next allocations; the "unallocated" marker in the list would be handed out as a slot.
	inFree := map[uint32]bool{}
	for _, fs := range st.FreeSlots {
		if o, used := owner[fs]; used {
			a.cs.Fail("after %s: physical slot %d is in the free list and allocated to id %d", after, fs, o)
		}
		if fs == UnallocatedSlot {
			a.cs.Fail("after %s: the free list contains the unallocated marker %#x", after, fs)
		}
		if inFree[fs] {
			a.cs.Fail("after %s: physical slot %d is in the free list twice", after, fs)
		}
		inFree[fs] = true
		if fs >= st.NextPhysSlot {
			a.cs.Fail("after %s: free slot %d is not below the next fresh slot %d", after, fs, st.NextPhysSlot)
		}
	}
	for slot, o := range owner {
		if slot >= st.NextPhysSlot {
			a.cs.Fail("after %s: id %d holds slot %d, not below the next fresh slot %d", after, o, slot, st.NextPhysSlot)
		}
	}
	for id, r := range a.shadow {
		b, err := a.va.GetBytes(id)
		if err != nil {
			a.cs.Fail("after %s: GetBytes(%d) of a live id failed: %v", after, id, err)
		}
		if !r.written {
			continue
		}
		var msg string
		if nfull < 0 || fullSet[id] {
			a.ctx.Count("arena.full_256k_compares", 1)
			msg = c18CheckFull(b, id, r.gen, a.scratch)
		} else {
			msg = c18CheckStamps(b, id, r.gen, a.scratch)
		}
		if msg != "" {
			a.cs.Attach("slot_of_id", st.SlotTable[id])
			a.cs.Fail("after %s: GetBytes(%d) != last written content: %s", after, id, msg)
		}
	}
	a.ctx.Count("arena.getbytes_verified", int64(len(a.shadow)))
	a.va.mu.RLock()
	if n := len(a.va.chunks); n > a.chunks {
		a.chunks = n
	}
	a.va.mu.RUnlock()
}

func (a *c18Arena) runCycle() {
	a.up.moves, a.up.cut, a.up.bad = 0, false, ""
	// Move budget of this cycle, drawn from the case PRNG. A chunk holds 255 vectors, so a
	// converging pass over one chunk needs at most 255 moves: the largest budget lets such a
	// pass finish; the small budgets keep the cost of the livelocked cycles bounded (each move
	// copies 256 KiB twice, and a livelocked cycle may move a single vector per iteration).
	a.up.budget = vkit.Pick(a.cs.R, []int{3, 10, 10, 40, 40, 150, 150, 400})
	if v, err := strconv.Atoi(os.Getenv("C18_ARENA_BUDGET")); err == nil && v > 0 {
		a.up.budget = v // experiment knob: e.g. a huge value to see whether every RunCycle terminates by itself
	}
	a.ac.RunCycle()
	a.ac.draining.Store(false)
	if a.up.bad != "" {
		a.cs.Fail("during RunCycle: %s", a.up.bad)
	}
	a.reloc += a.up.moves
	a.va.mu.RLock()
	if d := len(a.va.droppedChunks); d > a.dropped {
		a.ctx.Count("arena.chunks_dropped", int64(d-a.dropped))
		a.dropped = d
	}
	a.va.mu.RUnlock()
	a.ctx.Count("arena.relocations", int64(a.up.moves))
	if a.up.cut {
		a.ctx.Count("arena.cycles_cut_by_move_budget", 1)
	} else {
		a.ctx.Count("arena.cycles_completed", 1)
	}
}

func (a *c18Arena) reopen(closeFirst bool) {
	st := a.va.GetState()
	old := a.va
	if closeFirst {
		if err := old.Close(); err != nil {
			a.cs.Fail("Close: %v", err)
		}
	}
	a.open()
	a.va.LoadState(ArenaState{SlotTable: append([]uint32(nil), st.SlotTable...), FreeSlots: append([]uint32(nil), st.FreeSlots...), NextPhysSlot: st.NextPhysSlot})
	if !closeFirst {
		if err := old.Close(); err != nil {
			a.cs.Fail("Close (old arena, after the fresh one was opened): %v", err)
		}
	}
}

func c18DiskUsage(dir string) (apparent, blocks int64) {
	ents, _ := os.ReadDir(dir)
	for _, e := range ents {
		if fi, err := e.Info(); err == nil {
			apparent += fi.Size()
			blocks += c18Blocks(fi)
		}
	}
	return
}

func c18Blocks(fi os.FileInfo) int64 {
	if st, ok := fi.Sys().(*syscall.Stat_t); ok {
		return st.Blocks * 512
	}
	return 0
}

func TestVerifC18Arena(t *testing.T) {
	vkit.Run(t, "C18", func(ctx *vkit.Ctx) {
		c18ArenaProbes(ctx)
		ctx.Group("arena", ctx.N(40, 1500), func(cs *vkit.Case) {
			a := &c18Arena{cs: cs, ctx: ctx, dir: cs.SubDir("arena"), shadow: map[uint32]*c18Rec{}, scratch: make([]byte, c18Stamp), kinds: map[string]bool{}}
			a.open()
			defer func() { a.va.Close() }()
			r := cs.R
			// universe of ids for this history: a window so that small and large histories both occur
			maxID := uint32(vkit.Pick(r, []int{40, 300, 520, c18MaxID}))
			nops := 200
			do := func(kind, desc string, full bool, fn func()) {
				cs.Op("%s", desc)
				fn()
				a.kinds[kind] = true
				ctx.Count("arena.op."+kind, 1)
				nfull := 2
				if full {
					nfull = 40
				}
				a.verify(nfull, desc)
			}
			// start populated so that several chunks are in play from the beginning
			first := r.Range(int(maxID)/3, int(maxID))
			do("bulk_alloc", fmt.Sprintf("bulk alloc+write ids 0..%d", first-1), false, func() {
				for id := 0; id < first; id++ {
					a.alloc(uint32(id))
					a.write(uint32(id))
				}
			})
			for i := 0; i < nops; i++ {
				full := i%25 == 24 || i == nops-1
				live := a.liveIDs()
				p := r.Intn(100)
				switch {
				case p < 16: // alloc a new (or freed) id, usually followed by a write
					id := uint32(r.Intn(int(maxID)))
					if _, ok := a.shadow[id]; ok {
						do("alloc_again", fmt.Sprintf("AllocSlot(%d) of an already allocated id", id), full, func() { a.alloc(id) })
						break
					}
					wr := r.Chance(0.85)
					do("alloc", fmt.Sprintf("AllocSlot(%d) write=%v", id, wr), full, func() {
						a.alloc(id)
						if wr {
							a.write(id)
						}
					})
				case p < 24 && len(a.freed) > 0: // re-alloc an id that was freed before (slot reuse)
					id := vkit.Pick(r, a.freed)
					if _, ok := a.shadow[id]; ok {
						break
					}
					do("realloc", fmt.Sprintf("AllocSlot(%d) again after FreeSlot + write", id), full, func() { a.alloc(id); a.write(id) })
				case p < 36 && len(live) > 0: // overwrite
					id := vkit.Pick(r, live)
					do("write", fmt.Sprintf("write(%d)", id), full, func() { a.write(id) })
				case p < 52 && len(live) > 0:
					id := vkit.Pick(r, live)
					do("free", fmt.Sprintf("FreeSlot(%d)", id), full, func() { a.free(id) })
				case p < 60 && len(live) > 4: // free a stride / a range (fragmentation, empty trailing chunks)
					lo := r.Intn(len(live))
					n := r.Range(2, max(2, len(live)/2))
					step := vkit.Pick(r, []int{1, 1, 2, 3})
					do("bulk_free", fmt.Sprintf("FreeSlot of %d live ids from rank %d step %d", n, lo, step), full, func() {
						for k, c := lo, 0; k < len(live) && c < n; k, c = k+step, c+1 {
							a.free(live[k])
						}
					})
				case p < 63 && len(live) > 0: // empty the last chunk(s): gives tryDropEmptyChunks something to drop
					st := a.va.GetState()
					var top uint32
					for _, id := range live {
						if s := st.SlotTable[id]; s > top {
							top = s
						}
					}
					lastChunk := top / 255
					if lastChunk == 0 {
						break
					}
					do("free_tail", fmt.Sprintf("FreeSlot of every live id stored in chunk %d", lastChunk), full, func() {
						for _, id := range live {
							if st.SlotTable[id]/255 == lastChunk {
								a.free(id)
							}
						}
					})
				case p < 66: // bulk alloc
					n := r.Range(2, 120)
					do("bulk_alloc", fmt.Sprintf("alloc+write %d random ids", n), full, func() {
						for c := 0; c < n; c++ {
							id := uint32(r.Intn(int(maxID)))
							if _, ok := a.shadow[id]; !ok {
								a.alloc(id)
								a.write(id)
							}
						}
					})
				case p < 84:
					do("run_cycle", "RunCycle()", full, func() { a.runCycle() })
				case p < 92:
					do("reopen", "GetState; Close; NewVectorArena(same dir); LoadState", true, func() { a.reopen(true) })
				case p < 96:
					do("load_fresh", "GetState; NewVectorArena(same dir); LoadState; Close(old)", true, func() { a.reopen(false) })
				default:
					// an id that is not live: freed before, never allocated (inside or beyond the slot
					// table), or far out of range
					var dead uint32
					switch r.Intn(4) {
					case 0:
						dead = uint32(r.Intn(int(maxID) + 60))
					case 1:
						dead = maxID + uint32(r.Intn(100))
					case 2:
						dead = uint32(1<<30) + uint32(r.Intn(1000))
					default:
						if len(a.freed) > 0 {
							dead = vkit.Pick(r, a.freed)
						}
					}
					_, isLive := a.shadow[dead]
					switch k := r.Intn(3); {
					case k == 0 || isLive:
						do("get_state", "GetState (read-only)", full, func() { _ = a.va.GetState() })
					case k == 1:
						// must leave every live vector and the allocator state as they are (verify)
						do("free_dead", fmt.Sprintf("FreeSlot(%d) of an id that is not allocated", dead), full, func() { a.va.FreeSlot(dead) })
					default:
						do("get_dead", fmt.Sprintf("GetBytes(%d) of an id that is not allocated", dead), full, func() { a.getDead(dead) })
					}
				}
			}
			a.verify(-1, "the last operation (final full comparison)")
			app, blk := c18DiskUsage(a.dir)
			if app > 0 {
				ctx.Sample("arena_disk", 2, map[string]any{"apparent_bytes": app, "allocated_bytes": blk})
			}
			ctx.Eval(1)
			ctx.Count("arena.histories", 1)
			if a.reloc > 0 && a.reuse > 0 && a.kinds["reopen"] {
				ctx.Distinct(fmt.Sprintf("arena/%d", cs.Idx))
			}
			if a.chunks >= 3 {
				ctx.Count("arena.histories_with_3_chunks", 1)
			}
			ctx.Sample("arena_history", 1, map[string]any{"ops": cs.Ops()[:min(len(cs.Ops()), 20)], "relocations": a.reloc, "slot_reuses": a.reuse})
		})
		ctx.Group("arena_geometry", ctx.N(8, 240), func(cs *vkit.Case) { c18Geometry(ctx, cs) })
	})
}

// ---------------------------------------------------------------------------------------
// Other geometries. The histories above use one vector size (256 KiB: 255 slots per chunk). The
// slot -> (chunk, offset) arithmetic exists in several copies (GetBytes, moveBatch source and
// target, identifyVectorsToMove, tryDropEmptyChunks, getChunkStats); with the vector sizes real
// indexes have (dim 3 float32 = 12 bytes: 5 592 400 slots per chunk; dim 33 float16 = 66; dim 257
// int8 = 257; dim 768 float32 = 3072) a slip that is invisible at 255 slots per chunk would make
// neighbouring slots overlap or the last slots of a chunk run past its end. White-box set-up:
// LoadState places the next fresh slot a few slots below a chunk boundary and puts a few low
// slots on the free list, so that a dozen allocations cover both ends of the slot range and
// straddle the boundary. Oracle (same clauses as above): GetBytes(id) has the vector size and
// holds the bytes written last for every live id, after every step; the byte ranges of live ids
// are pairwise disjoint (a slot is never shared, not even in part); UpdateNodePointer delivers
// the bytes of the id.
// ---------------------------------------------------------------------------------------

func c18GeomFill(b []byte, id, gen uint32) {
	for j := range b {
		b[j] = byte(uint32(j)*131 + id*31 + gen*17 + uint32(j>>8))
	}
}

type c18GeomUpdater struct {
	gen   map[uint32]uint32
	moves int
	bad   string
}

func (u *c18GeomUpdater) UpdateNodePointer(id uint32, b []byte) {
	u.moves++
	g, ok := u.gen[id]
	if !ok {
		if u.bad == "" {
			u.bad = fmt.Sprintf("UpdateNodePointer(%d) for an id that is not allocated", id)
		}
		return
	}
	want := make([]byte, len(b))
	c18GeomFill(want, id, g)
	if !bytes.Equal(b, want) && u.bad == "" {
		u.bad = fmt.Sprintf("UpdateNodePointer(%d) delivered %d bytes that are not the content of id %d", id, len(b), id)
	}
}

func c18Geometry(ctx *vkit.Ctx, cs *vkit.Case) {
	r := cs.R
	type geo struct {
		vs, dim int
		prec    uint8
	}
	g := vkit.Pick(r, []geo{{12, 3, PrecFloat32}, {66, 33, PrecFloat16}, {257, 257, PrecInt8}, {3072, 768, PrecFloat32}, {3072, 768, PrecFloat32}, {4, 1, PrecFloat32}, {1 << 20, 1 << 18, PrecFloat32}})
	dir := cs.SubDir("arena")
	up := &c18GeomUpdater{gen: map[uint32]uint32{}}
	var va *VectorArena
	var ac *AsyncCompactor
	open := func() {
		v, err := NewVectorArena(dir, g.vs, g.dim, g.prec)
		if err != nil {
			cs.Fail("NewVectorArena(vectorSize %d): %v", g.vs, err)
		}
		va = v
		ac = NewAsyncCompactor(va, ArenaCompactionConfig{Enabled: true, Interval: time.Hour, Threshold: 0.01, BatchSize: 100, BatchDelay: time.Nanosecond})
		ac.SetNodeUpdater(up)
	}
	open()
	defer func() { va.Close() }()
	vpc := va.vecsPerChk
	k := r.Range(1, 2)
	start := uint32(k*vpc - r.Range(1, 5))
	// free list: the first slots of the chunk whose last slots are about to be used (always: the
	// ids stored there, once freed again, leave the gap the compactor moves the chunk's last
	// vectors into), and some slots of the chunk before it
	base := uint32((k - 1) * vpc)
	var free []uint32
	if k == 2 {
		for _, f := range []uint32{0, uint32(vpc) / 2, uint32(vpc) - 1} {
			if r.Chance(0.5) {
				free = append(free, f)
			}
		}
	}
	free = append(free, base+1, base) // handed out last-in first-out: base, then base+1
	cs.Op("vector size %d (%d slots per chunk); LoadState(next fresh slot %d = %d below the end of chunk %d, free list %v)", g.vs, vpc, start, uint32(k*vpc)-start, k-1, free)
	va.LoadState(ArenaState{SlotTable: []uint32{}, FreeSlots: append([]uint32(nil), free...), NextPhysSlot: start})
	gen := uint32(0)
	verify := func(after string) {
		type span struct {
			lo, hi uintptr
			id     uint32
		}
		var spans []span
		want := make([]byte, g.vs)
		ids := make([]uint32, 0, len(up.gen))
		for id := range up.gen {
			ids = append(ids, id)
		}
		sort.Slice(ids, func(i, j int) bool { return ids[i] < ids[j] })
		for _, id := range ids {
			b, err := va.GetBytes(id)
			if err != nil {
				cs.Fail("after %s: GetBytes(%d) of a live id: %v", after, id, err)
			}
			if len(b) != g.vs {
				cs.Fail("after %s: GetBytes(%d) returned %d bytes, vector size is %d", after, id, len(b), g.vs)
			}
			c18GeomFill(want, id, up.gen[id])
			if !bytes.Equal(b, want) {
				j := 0
				for j < len(b) && b[j] == want[j] {
					j++
				}
				cs.Fail("after %s: GetBytes(%d) differs from the content written last from byte %d of %d on", after, id, j, g.vs)
			}
			lo := uintptr(unsafe.Pointer(&b[0]))
			spans = append(spans, span{lo, lo + uintptr(len(b)), id})
		}
		sort.Slice(spans, func(i, j int) bool { return spans[i].lo < spans[j].lo })
		for i := 1; i < len(spans); i++ {
			if spans[i].lo < spans[i-1].hi {
				cs.Fail("after %s: the bytes of id %d and id %d overlap (%d bytes shared)", after, spans[i-1].id, spans[i].id, spans[i-1].hi-spans[i].lo)
			}
		}
		ctx.Count("geometry.getbytes_verified", int64(len(ids)))
	}
	write := func(id uint32) {
		b, err := va.GetBytes(id)
		if err != nil {
			cs.Fail("GetBytes(%d) of an allocated id: %v", id, err)
		}
		gen++
		c18GeomFill(b, id, gen)
		up.gen[id] = gen
	}
	next := uint32(0)
	nops := r.Range(12, 30)
	relocs, reopened := 0, false
	for i := 0; i < nops; i++ {
		p := r.Intn(100)
		switch {
		case p < 45 || len(up.gen) < 3:
			id := next
			next++
			cs.Op("AllocSlot(%d) + write", id)
			if _, err := va.AllocSlot(id); err != nil {
				cs.Fail("AllocSlot(%d): %v", id, err)
			}
			write(id)
			verify(fmt.Sprintf("AllocSlot(%d) + write", id))
		case p < 60:
			var ids []uint32
			for id := range up.gen {
				ids = append(ids, id)
			}
			sort.Slice(ids, func(i, j int) bool { return ids[i] < ids[j] })
			id := vkit.Pick(r, ids)
			if r.Chance(0.6) { // the id on the lowest slot of that chunk: leaves a gap below its last vectors, so that a cycle has something to move
				st := va.GetState()
				best := uint32(UnallocatedSlot)
				for _, x := range ids {
					if sl := st.SlotTable[x]; sl >= base && sl < best {
						best, id = sl, x
					}
				}
			}
			cs.Op("FreeSlot(%d)", id)
			va.FreeSlot(id)
			delete(up.gen, id)
			verify(fmt.Sprintf("FreeSlot(%d)", id))
		case p < 80:
			if vpc > 1100000 {
				// the compactor scans the slot range of a chunk once per vector: with millions of
				// slots per chunk (vector sizes 4 and 12) a cycle costs seconds; those geometries are
				// covered for allocation, read/write and reopen only
				ctx.Count("geometry.cycles_skipped_slots_per_chunk_above_1.1M", 1)
				continue
			}
			if len(up.gen) > 3 && r.Chance(0.6) { // first open a gap at the low end of the chunk (see above)
				st := va.GetState()
				best, bid := uint32(UnallocatedSlot), uint32(0)
				for x := range up.gen {
					if sl := st.SlotTable[x]; sl >= base && sl < best {
						best, bid = sl, x
					}
				}
				if best != UnallocatedSlot {
					cs.Op("FreeSlot(%d) (lowest slot of chunk %d)", bid, k-1)
					va.FreeSlot(bid)
					delete(up.gen, bid)
				}
			}
			cs.Op("RunCycle()")
			up.moves, up.bad = 0, ""
			ac.RunCycle()
			if up.bad != "" {
				cs.Fail("during RunCycle: %s", up.bad)
			}
			relocs += up.moves
			ctx.Count("geometry.relocations", int64(up.moves))
			verify("RunCycle()")
		default:
			cs.Op("GetState; Close; NewVectorArena(same dir); LoadState")
			st := va.GetState()
			if err := va.Close(); err != nil {
				cs.Fail("Close: %v", err)
			}
			open()
			va.LoadState(st)
			reopened = true
			verify("reopen")
		}
		ctx.Touch()
	}
	ctx.Eval(1)
	ctx.Count("geometry.cases", 1)
	if (relocs > 0 || vpc > 1100000) && reopened {
		ctx.Distinct(fmt.Sprintf("geometry/%d/%d", g.vs, cs.Idx))
	}
}

// ---------------------------------------------------------------------------------------
// Concurrent phase: readers verify immutable contents while the compactor cycles and
// writers alloc/free disjoint ids. Run with and without the race detector.
//
// Reader protocol (what a zero-copy reader can legitimately expect): the slice returned by
// GetBytes(id) is the content of id as long as id was not relocated in between. The arena
// tells its owner about relocations only through UpdateNodePointer, so a reader samples the
// per-id relocation counter (bumped by the recording updater inside moveBatch, i.e. before the
// old slot can be handed out again) before GetBytes and after copying the stamps; if the
// counter moved, the observation is discarded (counted), otherwise the bytes must be id's.
// ---------------------------------------------------------------------------------------

type c18ConcUpdater struct {
	ac      *AsyncCompactor
	moves   [c18MaxID + 64]atomic.Uint32
	gens    []uint32 // immutable ids: generation written before the concurrent phase (0 = not immutable)
	total   atomic.Int64
	cycle   atomic.Int64
	budget  atomic.Int64
	touch   func()
	badMu   sync.Mutex
	bad     string
	scratch []byte
}

func (u *c18ConcUpdater) UpdateNodePointer(id uint32, b []byte) {
	if int(id) < len(u.moves) {
		u.moves[id].Add(1)
	}
	u.total.Add(1)
	if int(id) < len(u.gens) && u.gens[id] != 0 {
		if msg := c18CheckFull(b, id, u.gens[id], u.scratch); msg != "" {
			u.badMu.Lock()
			if u.bad == "" {
				u.bad = fmt.Sprintf("UpdateNodePointer(%d) delivered wrong bytes for an immutable vector: %s", id, msg)
			}
			u.badMu.Unlock()
		}
	}
	if u.touch != nil {
		u.touch()
	}
	if u.cycle.Add(1) >= u.budget.Load() {
		u.ac.draining.Store(true)
	}
}

func c18Concurrent(ctx *vkit.Ctx, cs *vkit.Case, withWriters bool) {
	r := cs.R
	dir := cs.SubDir("arena")
	va, err := NewVectorArena(dir, c18VecSize, c18VecSize/4, PrecFloat32)
	if err != nil {
		cs.Fail("NewVectorArena: %v", err)
	}
	defer va.Close()
	cfg := ArenaCompactionConfig{Enabled: true, Interval: time.Hour, Threshold: 0.01, BatchSize: 100, BatchDelay: time.Nanosecond}
	ac := NewAsyncCompactor(va, cfg)
	up := &c18ConcUpdater{ac: ac, gens: make([]uint32, c18MaxID+64), scratch: make([]byte, c18Stamp), touch: ctx.Touch}
	ac.SetNodeUpdater(up)

	// ids 0..nImm+nHole-1 are allocated in order; a seed-chosen subset is freed again (holes)
	// before the concurrent phase so that the compactor has work. Immutable ids keep their content.
	total := r.Range(300, 560) // 255 slots per chunk: two or three chunks
	if c18Race {
		total = r.Range(262, 330)
	}
	var imm []uint32
	scratch := make([]byte, c18Stamp)
	cs.Op("setup: alloc+write ids 0..%d", total-1)
	for id := 0; id < total; id++ {
		if _, err := va.AllocSlot(uint32(id)); err != nil {
			cs.Fail("AllocSlot(%d): %v", id, err)
		}
		b, err := va.GetBytes(uint32(id))
		if err != nil {
			cs.Fail("GetBytes(%d): %v", id, err)
		}
		c18PutStamp(b, uint32(id), uint32(id)+1)
	}
	holeP := vkit.Pick(r, []float64{0.1, 0.3, 0.5})
	nholes := 0
	for id := 0; id < total; id++ {
		if r.Chance(holeP) {
			va.FreeSlot(uint32(id))
			nholes++
		} else {
			imm = append(imm, uint32(id))
			up.gens[id] = uint32(id) + 1
		}
	}
	cs.Op("setup: freed %d of %d ids (holes); %d immutable ids; writers=%v", nholes, total, len(imm), withWriters)
	if len(imm) == 0 || nholes == 0 {
		return
	}

	stop := make(chan struct{})
	var wg sync.WaitGroup
	var mu sync.Mutex
	var failure string
	fail := func(s string) {
		mu.Lock()
		if failure == "" {
			failure = s
		}
		mu.Unlock()
	}
	var verified, discarded, staleForeign atomic.Int64
	nReaders := 8
	seeds := make([]uint64, nReaders+2)
	for i := range seeds {
		seeds[i] = r.Uint64()
	}
	for g := 0; g < nReaders; g++ {
		wg.Add(1)
		go func(g int) {
			defer wg.Done()
			rr := vkit.NewRand(seeds[g], uint64(g))
			local := make([]byte, 3*c18Stamp)
			sc := make([]byte, c18Stamp)
			for n := 0; ; n++ {
				select {
				case <-stop:
					return
				default:
				}
				id := imm[rr.Intn(len(imm))]
				c1 := up.moves[id].Load()
				b, err := va.GetBytes(id)
				if err != nil {
					fail(fmt.Sprintf("reader %d: GetBytes(%d) of a live immutable id failed: %v", g, id, err))
					return
				}
				copy(local[0:], b[0:c18Stamp])
				copy(local[c18Stamp:], b[c18VecSize/2-c18Stamp/2:c18VecSize/2+c18Stamp/2])
				copy(local[2*c18Stamp:], b[c18VecSize-c18Stamp:])
				b2, err2 := va.GetBytes(id) // takes slotMu.RLock: orders the copies above before the counter load
				c2 := up.moves[id].Load()
				if err2 != nil {
					fail(fmt.Sprintf("reader %d: GetBytes(%d) of a live immutable id failed: %v", g, id, err2))
					return
				}
				if c1 != c2 || &b[0] != &b2[0] {
					discarded.Add(1)
					if binary.LittleEndian.Uint32(local[4:]) != id || binary.LittleEndian.Uint32(local[c18Stamp+4:]) != id || binary.LittleEndian.Uint32(local[2*c18Stamp+4:]) != id {
						staleForeign.Add(1) // the slice obtained before the relocation already shows another vector (see D-C18-2)
					}
					continue
				}
				for k, off := range [3]int{0, c18VecSize/2 - c18Stamp/2, c18VecSize - c18Stamp} {
					exp := sc
					for j := 0; j < c18Stamp; j += 16 {
						binary.LittleEndian.PutUint32(exp[j:], 0xC18C18C1)
						binary.LittleEndian.PutUint32(exp[j+4:], id)
						binary.LittleEndian.PutUint32(exp[j+8:], id+1)
						binary.LittleEndian.PutUint32(exp[j+12:], uint32(off)^id*2654435761^(id+1)*40503)
					}
					if !bytes.Equal(local[k*c18Stamp:(k+1)*c18Stamp], exp) {
						fail(fmt.Sprintf("reader %d: GetBytes(%d) (not relocated during the read: move counter %d before and after) offset %d holds %s, want stamp(id=%d,gen=%d)",
							g, id, c1, off, c18Describe(local[k*c18Stamp:(k+1)*c18Stamp]), id, id+1))
						return
					}
				}
				verified.Add(1)
				if n%2 == 1 {
					runtime.Gosched() // keep the slot lock available to the compactor and the writers
				}
			}
		}(g)
	}
	// Generator guard for the recorded finding D-C18-1 (FreeSlot/AllocSlot between the steps of a
	// compaction batch): while it is listed as "known", writers do not issue AllocSlot/FreeSlot
	// while a RunCycle is in flight (they still run concurrently with the readers and alternate
	// with the cycles). The guard removes exactly that overlap; when the finding is marked fixed
	// the writers run freely against the compactor again.
	var gate sync.RWMutex
	gated := withWriters && ctx.IsKnown("D-C18-1")
	if gated {
		ctx.Count("conc.cases_with_guard_D-C18-1", 1)
	}
	var writerOps atomic.Int64
	if withWriters {
		// two writers churn the free list with ids of their own (disjoint from every other id)
		for w := 0; w < 2; w++ {
			wg.Add(1)
			go func(w int) {
				defer wg.Done()
				rr := vkit.NewRand(seeds[nReaders+w], uint64(100+w))
				base := uint32(total + 8 + w*40)
				var mine []uint32
				step := func() bool {
					if gated {
						gate.RLock()
						defer gate.RUnlock()
					}
					if len(mine) < 30 && (len(mine) == 0 || rr.Chance(0.55)) {
						id := base + uint32(rr.Intn(40))
						for _, m := range mine {
							if m == id {
								return true
							}
						}
						if _, err := va.AllocSlot(id); err != nil {
							fail(fmt.Sprintf("writer %d: AllocSlot(%d): %v", w, id, err))
							return false
						}
						if _, err := va.GetBytes(id); err != nil {
							fail(fmt.Sprintf("writer %d: GetBytes(%d): %v", w, id, err))
							return false
						}
						mine = append(mine, id)
					} else {
						k := rr.Intn(len(mine))
						va.FreeSlot(mine[k])
						mine = append(mine[:k], mine[k+1:]...)
					}
					writerOps.Add(1)
					return true
				}
				for {
					select {
					case <-stop:
						return
					default:
					}
					if !step() {
						return
					}
					ctx.Touch()
				}
			}(w)
		}
	}
	// the compactor: a fixed number of cycles, each cut after a fixed number of relocations
	// Under the race detector every map access of identifyVectorsToMove costs ~10x and a
	// livelocked cycle may relocate one vector per iteration: smaller budgets there.
	ncycles := ctx.N(8, 16)
	choices := []int{20, 60, 60, 200, 400}
	if c18Race {
		ncycles = ctx.N(5, 10)
		choices = []int{4, 10, 25, 60}
	}
	budgets := make([]int64, ncycles)
	for i := range budgets {
		budgets[i] = int64(vkit.Pick(r, choices))
	}
	cs.Op("concurrent phase: %d readers, %d cycles with relocation budgets %v", nReaders, ncycles, budgets)
	// At least ncycles cycles; more (same budgets again, at most 30x) until the readers have
	// completed a minimum number of observations, so that a fast compactor does not end the
	// phase before the readers overlapped it. The stop rule counts work, never time.
	minReads := int64(20000)
	if c18Race {
		minReads = 4000
	}
	for c := 0; c < 30*ncycles; c++ {
		if c >= ncycles && verified.Load()+discarded.Load() >= minReads {
			break
		}
		ctx.Count("conc.cycles", 1)
		up.cycle.Store(0)
		up.budget.Store(budgets[c%ncycles])
		if gated {
			gate.Lock()
		}
		ac.RunCycle()
		ac.draining.Store(false)
		if gated {
			gate.Unlock()
			for t0 := writerOps.Load(); writerOps.Load() < t0+12; { // let the writers churn between two cycles
				runtime.Gosched()
				mu.Lock()
				f := failure
				mu.Unlock()
				if f != "" {
					break
				}
			}
		}
		ctx.Touch()
		mu.Lock()
		f := failure
		mu.Unlock()
		if f != "" {
			break
		}
	}
	close(stop)
	wg.Wait()
	ctx.Count("conc.relocations", up.total.Load())
	ctx.Count("conc.writer_ops", writerOps.Load())
	ctx.Count("conc.reads_verified", verified.Load())
	ctx.Count("conc.reads_discarded_relocated", discarded.Load())
	ctx.Count("conc.reads_discarded_that_showed_foreign_bytes", staleForeign.Load())
	if failure != "" {
		cs.Fail("%s", failure)
	}
	if up.bad != "" {
		cs.Fail("%s", up.bad)
	}
	// quiescent state: every immutable id still reads its own bytes; table injective; free/allocated disjoint
	st := va.GetState()
	owner := map[uint32]uint32{}
	for id, slot := range st.SlotTable {
		if slot == UnallocatedSlot {
			continue
		}
		if o, dup := owner[slot]; dup {
			cs.Fail("after the concurrent phase: physical slot %d is assigned to both id %d and id %d", slot, o, id)
		}
		owner[slot] = uint32(id)
	}
	for _, fs := range st.FreeSlots {
		if o, used := owner[fs]; used {
			cs.Fail("after the concurrent phase: physical slot %d is in the free list and allocated to id %d", fs, o)
		}
	}
	for _, id := range imm {
		b, err := va.GetBytes(id)
		if err != nil {
			cs.Fail("after the concurrent phase: GetBytes(%d): %v", id, err)
		}
		if msg := c18CheckFull(b, id, id+1, scratch); msg != "" {
			cs.Fail("after the concurrent phase: immutable id %d: %s", id, msg)
		}
	}
	ctx.Eval(1)
	if up.total.Load() > 0 && verified.Load() > 0 {
		ctx.Distinct(fmt.Sprintf("conc/%v/%d", withWriters, cs.Idx))
	}
}

// c18Growth: chunks are created while compaction cycles and other allocations are in flight
// (the schedule of inserts that cross chunk boundaries during compactor ticks; quantifier:
// "readers running concurrently with the compactor"). Vector size 40 MiB => one slot per chunk,
// so every fresh slot that is read or written the first time creates a chunk (GetBytes slow path)
// and a freed trailing slot lets the compactor drop its chunk again; nothing is ever relocated
// (the compactor only moves inside a chunk), so a reader may compare every observation. Only the
// first 64 bytes of a slot are touched: the 64 MiB chunk files stay sparse.
// Oracle: GetBytes(id) of a live id whose content was written returns its stamp, for the grower
// right after each write and for the readers at any time; at the end every kept id still reads
// its stamp and the slot table is injective. A call that never returns stops all progress: the
// harness watchdog reports the child with its goroutine dump.
func c18Growth(ctx *vkit.Ctx, cs *vkit.Case) {
	r := cs.R
	const vs = 40 << 20
	va, err := NewVectorArena(cs.SubDir("arena"), vs, vs/4, PrecFloat32)
	if err != nil {
		cs.Fail("NewVectorArena: %v", err)
	}
	defer va.Close()
	if va.vecsPerChk != 1 {
		cs.Fail("harness: expected one 40 MiB slot per chunk, arena says %d", va.vecsPerChk)
	}
	ac := NewAsyncCompactor(va, ArenaCompactionConfig{Enabled: true, Interval: time.Hour, Threshold: 0.01, BatchSize: 100, BatchDelay: time.Nanosecond})
	up := &c18GeomUpdater{gen: map[uint32]uint32{}}
	ac.SetNodeUpdater(up)
	n := r.Range(40, 70) // ids the grower stores: as many chunk creations, plus re-creations after drops
	stamp := func(b []byte, id uint32) {
		for k := 0; k < c18Stamp; k += 16 {
			binary.LittleEndian.PutUint32(b[k:], 0xC18C18C1)
			binary.LittleEndian.PutUint32(b[k+4:], id)
			binary.LittleEndian.PutUint32(b[k+8:], id+1)
			binary.LittleEndian.PutUint32(b[k+12:], id*2654435761^0x5bd1e995)
		}
	}
	check := func(b []byte, id uint32) string {
		if len(b) != vs {
			return fmt.Sprintf("GetBytes(%d) returned %d bytes, want %d", id, len(b), vs)
		}
		want := make([]byte, c18Stamp)
		stamp(want, id)
		if !bytes.Equal(b[:c18Stamp], want) {
			return fmt.Sprintf("GetBytes(%d) holds %s, want stamp(id=%d,gen=%d)", id, c18Describe(b[:c18Stamp]), id, id+1)
		}
		return ""
	}
	var mu sync.Mutex
	var failure string
	fail := func(s string) {
		mu.Lock()
		if failure == "" {
			failure = s
		}
		mu.Unlock()
	}
	failed := func() bool { mu.Lock(); defer mu.Unlock(); return failure != "" }
	var written atomic.Int64 // ids 0..written-1 are stored; those with id%4 != 3 are kept for good
	var growerDone atomic.Bool
	var verified atomic.Int64
	seeds := []uint64{r.Uint64(), r.Uint64(), r.Uint64(), r.Uint64(), r.Uint64(), r.Uint64(), r.Uint64()}
	cs.Op("concurrent: grower stores ids 0..%d (one chunk each; every 4th is freed again a little later), 2 churners AllocSlot/FreeSlot ids of their own, 4 readers, RunCycle in a loop", n-1)
	var wg sync.WaitGroup
	stop := make(chan struct{})
	wg.Add(1)
	go func() { // grower
		defer wg.Done()
		defer growerDone.Store(true)
		rr := vkit.NewRand(seeds[0], 1)
		var toFree []uint32
		for id := uint32(0); id < uint32(n) && !failed(); id++ {
			if _, err := va.AllocSlot(id); err != nil {
				fail(fmt.Sprintf("grower: AllocSlot(%d): %v", id, err))
				return
			}
			b, err := va.GetBytes(id)
			if err != nil {
				fail(fmt.Sprintf("grower: GetBytes(%d) of an id just allocated: %v", id, err))
				return
			}
			if len(b) != vs {
				fail(fmt.Sprintf("grower: GetBytes(%d) returned %d bytes, want %d", id, len(b), vs))
				return
			}
			stamp(b, id)
			b2, err := va.GetBytes(id)
			if err != nil {
				fail(fmt.Sprintf("grower: GetBytes(%d) after the write: %v", id, err))
				return
			}
			if msg := check(b2, id); msg != "" {
				fail("grower, right after the write: " + msg)
				return
			}
			written.Store(int64(id) + 1)
			if id%4 == 3 {
				toFree = append(toFree, id)
			}
			if len(toFree) > 0 && rr.Chance(0.5) {
				va.FreeSlot(toFree[0]) // a trailing chunk may now be empty: the compactor drops it
				toFree = toFree[1:]
			}
			ctx.Touch()
			if rr.Chance(0.3) {
				runtime.Gosched()
			}
		}
	}()
	var churnOps atomic.Int64
	for w := 0; w < 2; w++ {
		wg.Add(1)
		go func(w int) { // churners: writers queued on the slot lock
			defer wg.Done()
			rr := vkit.NewRand(seeds[1+w], uint64(10+w))
			base := uint32(200 + 40*w)
			var mine []uint32
			for !growerDone.Load() && !failed() {
				if len(mine) < 6 && (len(mine) == 0 || rr.Chance(0.5)) {
					id := base + uint32(rr.Intn(40))
					dup := false
					for _, m := range mine {
						dup = dup || m == id
					}
					if dup {
						continue
					}
					if _, err := va.AllocSlot(id); err != nil {
						fail(fmt.Sprintf("churner %d: AllocSlot(%d): %v", w, id, err))
						return
					}
					mine = append(mine, id)
				} else {
					k := rr.Intn(len(mine))
					va.FreeSlot(mine[k])
					mine = append(mine[:k], mine[k+1:]...)
				}
				churnOps.Add(1)
				if rr.Chance(0.2) {
					runtime.Gosched()
				}
			}
		}(w)
	}
	for g := 0; g < 4; g++ {
		wg.Add(1)
		go func(g int) { // readers of the ids that are kept for good
			defer wg.Done()
			rr := vkit.NewRand(seeds[3+g], uint64(20+g))
			for {
				select {
				case <-stop:
					return
				default:
				}
				w := written.Load()
				if w == 0 {
					runtime.Gosched()
					continue
				}
				id := uint32(rr.Intn(int(w)))
				if id%4 == 3 {
					continue
				}
				b, err := va.GetBytes(id)
				if err != nil {
					fail(fmt.Sprintf("reader %d: GetBytes(%d) of a live id: %v", g, id, err))
					return
				}
				if msg := check(b, id); msg != "" {
					fail(fmt.Sprintf("reader %d: %s", g, msg))
					return
				}
				verified.Add(1)
				runtime.Gosched()
			}
		}(g)
	}
	cycles := 0
	for !growerDone.Load() && !failed() {
		ac.RunCycle()
		cycles++
		ctx.Touch()
	}
	for i := 0; i < 3; i++ { // a few cycles on the quiescent arena (drops what is droppable)
		ac.RunCycle()
		cycles++
	}
	close(stop)
	wg.Wait()
	ctx.Count("growth.cycles", int64(cycles))
	ctx.Count("growth.churn_ops", churnOps.Load())
	ctx.Count("growth.reads_verified", verified.Load())
	ctx.Count("growth.relocations", int64(up.moves))
	if failure != "" {
		cs.Fail("%s", failure)
	}
	st := va.GetState()
	owner := map[uint32]uint32{}
	for id, slot := range st.SlotTable {
		if slot == UnallocatedSlot {
			continue
		}
		if o, dup := owner[slot]; dup {
			cs.Fail("after the concurrent phase: physical slot %d is assigned to both id %d and id %d", slot, o, id)
		}
		owner[slot] = uint32(id)
	}
	for id := uint32(0); id < uint32(n); id++ {
		if id%4 == 3 {
			continue
		}
		b, err := va.GetBytes(id)
		if err != nil {
			cs.Fail("after the concurrent phase: GetBytes(%d): %v", id, err)
		}
		if msg := check(b, id); msg != "" {
			cs.Fail("after the concurrent phase: %s", msg)
		}
	}
	va.mu.RLock()
	created := len(va.chunks) + len(va.droppedChunks)
	dropped := len(va.droppedChunks)
	va.mu.RUnlock()
	ctx.Count("growth.chunks_created", int64(created))
	ctx.Count("growth.chunks_dropped", int64(dropped))
	ctx.Eval(1)
	if created > 8 && verified.Load() > 0 && cycles > 3 {
		ctx.Distinct(fmt.Sprintf("growth/%d", cs.Idx))
	}
}

func TestVerifC18ArenaConcurrent(t *testing.T) {
	vkit.Run(t, "C18", func(ctx *vkit.Ctx) {
		n := ctx.N(4, 48)
		if c18Race {
			n = ctx.N(4, 24)
		}
		c18LockOrderProbe(ctx)
		ctx.Group("conc_readers", n, func(cs *vkit.Case) { c18Concurrent(ctx, cs, false) })
		ctx.Group("conc_readers_writers", n, func(cs *vkit.Case) { c18Concurrent(ctx, cs, true) })
		// Generator guard for the recorded finding D-C18-4 (getChunkStats takes mu before slotMu:
		// three-party deadlock with a chunk-creating GetBytes and a queued AllocSlot/FreeSlot):
		// while it is listed as "known" no chunk is created while cycles run (in the two groups
		// above all chunks exist after the setup and the writers only reuse holes); the
		// chunk-growth group runs once the finding is marked fixed.
		// Same for D-C18-5 in the race build (RunCycle reads the chunk list without the chunk
		// lock while a chunk is appended: the race detector reports it as soon as a chunk is
		// created while cycles run).
		c18RaceProbe(ctx)
		if ctx.IsKnown("D-C18-4") || (c18Race && ctx.IsKnown("D-C18-5")) {
			ctx.Count("conc.growth_group_skipped_guard_D-C18-4_D-C18-5", 1)
		} else {
			ctx.Group("conc_chunk_growth", ctx.N(3, 16), func(cs *vkit.Case) { c18Growth(ctx, cs) })
		}
	})
}

// ---------------------------------------------------------------------------------------
// Fixed scenarios of recorded findings.
// ---------------------------------------------------------------------------------------

// c18ProbeArena builds an arena with ids 0..n-1 allocated in order (id i on slot i) and written.
func c18ProbeArena(cs *vkit.Case, n int) (*VectorArena, *AsyncCompactor, *c18Updater) {
	va, err := NewVectorArena(cs.SubDir("arena"), c18VecSize, c18VecSize/4, PrecFloat32)
	if err != nil {
		cs.Fail("NewVectorArena: %v", err)
	}
	ac := NewAsyncCompactor(va, ArenaCompactionConfig{Enabled: true, Interval: time.Hour, Threshold: 0.01, BatchSize: 100, BatchDelay: time.Nanosecond})
	up := &c18Updater{ac: ac, shadow: map[uint32]*c18Rec{}, scratch: make([]byte, c18Stamp), moved: map[uint32]int{}, budget: 1 << 30}
	ac.SetNodeUpdater(up)
	for id := uint32(0); id < uint32(n); id++ {
		c18ProbeAllocWrite(cs, va, id, id+1)
	}
	return va, ac, up
}

func c18ProbeAllocWrite(cs *vkit.Case, va *VectorArena, id, gen uint32) {
	cs.Op("AllocSlot(%d) + write stamp(id=%d,gen=%d)", id, id, gen)
	if _, err := va.AllocSlot(id); err != nil {
		cs.Fail("AllocSlot(%d): %v", id, err)
	}
	b, err := va.GetBytes(id)
	if err != nil {
		cs.Fail("GetBytes(%d): %v", id, err)
	}
	copy(b, c18Zero)
	c18PutStamp(b, id, gen)
}

// c18ProbeRead returns "" when GetBytes(id) holds stamp (id, gen).
func c18ProbeRead(va *VectorArena, id, gen uint32) string {
	b, err := va.GetBytes(id)
	if err != nil {
		return fmt.Sprintf("GetBytes(%d): %v", id, err)
	}
	if msg := c18CheckFull(b, id, gen, make([]byte, c18Stamp)); msg != "" {
		return fmt.Sprintf("GetBytes(%d): %s", id, msg)
	}
	return ""
}

// c18ProbeSnapshot does what compactChunk does between identifyVectorsToMove and moveBatch for
// one id (compactor.go: the read loop under slotMu.RLock): slot lookup + copy of the bytes.
func c18ProbeSnapshot(va *VectorArena, id uint32) vectorData {
	va.slotMu.RLock()
	defer va.slotMu.RUnlock()
	slot := va.slotTable[id]
	if slot == UnallocatedSlot {
		return vectorData{} // compactChunk `continue`s and leaves the zero value in the batch
	}
	chunk := int(slot) / va.vecsPerChk
	off := ArenaHeaderSize + int(slot%uint32(va.vecsPerChk))*va.vectorSize
	vec := make([]byte, va.vectorSize)
	va.mu.RLock()
	copy(vec, va.chunks[chunk].Data[off:off+va.vectorSize])
	va.mu.RUnlock()
	return vectorData{internalID: id, fromSlot: slot, data: vec}
}

func c18ArenaProbes(ctx *vkit.Ctx) {
	// D-C18-1: relocation is not safe against FreeSlot/AllocSlot calls that fall between the
	// steps of one compaction batch (identify -> read -> FindFreeSlots -> moveBatch; the arena
	// locks are released between the steps). Three deterministic interleavings, each placed at a
	// point where compactChunk holds no lock:
	ctx.Probe("D-C18-1", func(cs *vkit.Case) string {
		var out []string
		// (a) FindFreeSlots hands out a sub-slice of the free list's backing array; a FreeSlot
		//     after it overwrites the reserved target in place.
		{
			va, ac, _ := c18ProbeArena(cs, 6)
			cs.Op("(a) FreeSlot(1); FreeSlot(2)")
			va.FreeSlot(1)
			va.FreeSlot(2)
			v := c18ProbeSnapshot(va, 5) // the compactor read id 5 (slot 5) for relocation
			cs.Op("(a) FindFreeSlots(1)")
			targets := va.FindFreeSlots(1)
			reserved := targets[0]
			cs.Op("(a) FreeSlot(3) by another goroutine, before moveBatch takes the locks")
			va.FreeSlot(3)
			cs.Op("(a) moveBatch(id 5 -> reserved target)")
			ac.moveBatch([]vectorData{v}, targets)
			c18ProbeAllocWrite(cs, va, 9, 100) // two new vectors are stored
			c18ProbeAllocWrite(cs, va, 10, 101)
			msg := c18ProbeRead(va, 5, 6)
			va.Close()
			if msg != "" {
				out = append(out, fmt.Sprintf("(a) FindFreeSlots reserved slot %d, FreeSlot(3) turned the reservation into slot %d (still in the free list); after moveBatch and AllocSlot+write of ids 9 and 10: %s", reserved, targets[0], msg))
			}
		}
		// (b) an id of the batch is freed and its slot re-allocated between the read and
		//     moveBatch: moveBatch skips the move but still pushes the old slot on the free list.
		{
			va, ac, _ := c18ProbeArena(cs, 6)
			cs.Op("(b) FreeSlot(0)")
			va.FreeSlot(0) // a hole below, so that ids 1.. are relocation candidates
			v := c18ProbeSnapshot(va, 4)
			targets := va.FindFreeSlots(1)
			cs.Op("(b) FreeSlot(4); AllocSlot(7)+write (reuses slot 4) by another goroutine, before moveBatch")
			va.FreeSlot(4)
			c18ProbeAllocWrite(cs, va, 7, 70)
			cs.Op("(b) moveBatch(id 4 -> free slot)")
			ac.moveBatch([]vectorData{v}, targets)
			c18ProbeAllocWrite(cs, va, 8, 80)
			msg := c18ProbeRead(va, 7, 70)
			va.Close()
			if msg != "" {
				out = append(out, "(b) id 4 was freed and its slot given to id 7 before moveBatch ran; moveBatch put that slot on the free list again and the next AllocSlot+write (id 8) landed on it: "+msg)
			}
		}
		// (c) an id of the batch is freed between identifyVectorsToMove and the read loop:
		//     compactChunk leaves a zero vectorData{} (internalID 0, fromSlot 0, data nil) in the
		//     batch and moveBatch "relocates" id 0 from slot 0 without any bytes.
		{
			va, ac, _ := c18ProbeArena(cs, 6)
			cs.Op("(c) FreeSlot(2)")
			va.FreeSlot(2)
			cs.Op("(c) identifyVectorsToMove picked id 3; FreeSlot(3) by another goroutine; read loop")
			va.FreeSlot(3)
			v := c18ProbeSnapshot(va, 3) // zero value, as in compactChunk
			targets := va.FindFreeSlots(1)
			cs.Op("(c) moveBatch(zero entry)")
			ac.moveBatch([]vectorData{v}, targets)
			msg := c18ProbeRead(va, 0, 1)
			va.Close()
			if msg != "" {
				out = append(out, "(c) id 3 was freed between identifyVectorsToMove and the read loop; the zero batch entry made moveBatch relocate id 0 without copying its bytes: "+msg)
			}
		}
		return strings.Join(out, " || ")
	})
}

// ---------------------------------------------------------------------------------------
// D-C18-4: lock order. The arena's documented order is slotMu -> mu (GetBytes, moveBatch,
// tryDropEmptyChunks); AsyncCompactor.getChunkStats (every RunCycle via analyzeFragmentation,
// and VectorArena.GetFragmentationStats) takes mu.RLock and then slotMu.RLock. Three product
// calls, placed by the probe where the scheduler can place them:
//   T3 GetBytes(id) of the first id of a chunk that does not exist yet: holds slotMu.RLock, needs mu.Lock;
//   T2 AllocSlot(other id): queued on slotMu.Lock behind T3's read lock (a queued writer blocks new readers);
//   T1 getChunkStats(): holds mu.RLock, needs slotMu.RLock — blocked by the queued T2; T3 waits for T1.
// Placement: the probe holds mu itself while the three calls queue up (each is seen parked on
// its lock in the goroutine dump before the next one starts), then releases it. Verdict: all
// three calls returned, or the dump shows the three of them parked on the cycle described above
// (goroutine wait states, not elapsed time). The deadlocked arena is left behind un-closed
// (Close needs mu).
// ---------------------------------------------------------------------------------------

var c18WaitRe = map[string]*regexp.Regexp{
	"RLock": regexp.MustCompile(`^goroutine \d+ \[sync\.RWMutex\.RLock[,\]]`),
	"Lock":  regexp.MustCompile(`^goroutine \d+ \[sync\.RWMutex\.Lock[,\]]`),
}

// c18Parked reports whether a goroutine with fn on its stack is blocked in RWMutex.<kind>.
func c18Parked(fn, kind string) bool {
	buf := make([]byte, 4<<20)
	buf = buf[:runtime.Stack(buf, true)]
	for _, g := range strings.Split(string(buf), "\n\n") {
		if strings.Contains(g, fn) && c18WaitRe[kind].MatchString(g) {
			return true
		}
	}
	return false
}

func c18LockOrderProbe(ctx *vkit.Ctx) {
	ctx.Probe("D-C18-4", func(cs *vkit.Case) string {
		va, err := NewVectorArena(cs.SubDir("arena"), c18VecSize, c18VecSize/4, PrecFloat32)
		if err != nil {
			cs.Fail("NewVectorArena: %v", err)
		}
		ac := NewAsyncCompactor(va, ArenaCompactionConfig{Enabled: true, Interval: time.Hour, Threshold: 0.01, BatchSize: 100, BatchDelay: time.Nanosecond})
		cs.Op("AllocSlot(0) on an arena without chunks")
		if _, err := va.AllocSlot(0); err != nil {
			cs.Fail("AllocSlot(0): %v", err)
		}
		until := func(what string, f func() bool) bool {
			for i := 0; i < 400000; i++ {
				if f() {
					return true
				}
				ctx.Touch()
				runtime.Gosched()
				time.Sleep(20 * time.Microsecond)
			}
			cs.Op("probe could not place: %s", what)
			return false
		}
		var d1, d2, d3 atomic.Bool
		va.mu.Lock()
		cs.Op("T3: GetBytes(0) (chunk 0 does not exist: it will be created)")
		go func() { va.GetBytes(0); d3.Store(true) }()
		ok := until("GetBytes parked on mu (holding slotMu.RLock)", func() bool { return c18Parked("(*VectorArena).GetBytes", "RLock") })
		if ok {
			cs.Op("T2: AllocSlot(1)")
			go func() { va.AllocSlot(1); d2.Store(true) }()
			ok = until("AllocSlot parked on slotMu.Lock", func() bool { return c18Parked("(*VectorArena).AllocSlot", "Lock") })
		}
		if ok {
			cs.Op("T1: getChunkStats() (as RunCycle -> analyzeFragmentation calls it)")
			go func() { ac.getChunkStats(); d1.Store(true) }()
			ok = until("getChunkStats parked on a read lock", func() bool { return c18Parked("(*AsyncCompactor).getChunkStats", "RLock") })
		}
		va.mu.Unlock()
		if !ok {
			ctx.Count("conc.lock_order_probe_not_placed", 1)
			return "" // nothing decided (the schedule could not be set up)
		}
		cycle := false
		until("the three calls return, or are parked on each other", func() bool {
			if d1.Load() && d2.Load() && d3.Load() {
				return true
			}
			cycle = c18Parked("(*VectorArena).GetBytes", "Lock") && c18Parked("(*VectorArena).AllocSlot", "Lock") && c18Parked("(*AsyncCompactor).getChunkStats", "RLock")
			return cycle
		})
		if d1.Load() && d2.Load() && d3.Load() {
			va.Close()
			return ""
		}
		if !cycle {
			ctx.Count("conc.lock_order_probe_undecided", 1)
			return ""
		}
		return "deadlock: GetBytes(0) creating chunk 0 holds slotMu.RLock and waits for mu.Lock (arena.go GetBytes slow path); AllocSlot(1) waits for slotMu.Lock; getChunkStats holds mu.RLock and waits for slotMu.RLock behind the queued writer (compactor.go getChunkStats takes mu before slotMu, against the documented order slotMu -> mu); none of the three calls can return"
	})
}

// ---------------------------------------------------------------------------------------
// D-C18-5: data race on the chunk list. RunCycle ends with a log line that reads
// len(arena.chunks) without the chunk lock (compactor.go, "Compaction cycle completed"), while
// GetBytes -> addChunk appends to that slice under mu.Lock when an insert crosses a chunk
// boundary. The race detector writes its report out of band (the driver turns every report of
// the run into a violation), so the fixed scenario runs in a child process of this test binary
// with a report file of its own; the probe reads that file. Race build only.
// ---------------------------------------------------------------------------------------

// TestVerifC18RaceChild is the scenario (run only as the child of the probe below).
func TestVerifC18RaceChild(t *testing.T) {
	dir := os.Getenv("C18_RACE_CHILD_DIR")
	if dir == "" {
		t.Skip("child of the D-C18-5 probe")
	}
	const vs = 40 << 20 // one slot per chunk
	va, err := NewVectorArena(dir, vs, vs/4, PrecFloat32)
	if err != nil {
		t.Fatal(err)
	}
	defer va.Close()
	ac := NewAsyncCompactor(va, ArenaCompactionConfig{Enabled: true, Interval: time.Hour, Threshold: 0.01, BatchSize: 100, BatchDelay: time.Nanosecond})
	ac.SetNodeUpdater(&c18GeomUpdater{gen: map[uint32]uint32{}})
	// physical slot 0 (= chunk 0) is never handed out: one chunk stays unused, the fragmentation
	// ratio stays above the threshold (1/80 > 0.01) and every cycle runs to its end
	va.LoadState(ArenaState{SlotTable: []uint32{}, FreeSlots: []uint32{}, NextPhysSlot: 1})
	for id := uint32(0); id < 2; id++ {
		va.AllocSlot(id)
		if _, err := va.GetBytes(id); err != nil {
			t.Fatal(err)
		}
	}
	done := make(chan struct{})
	go func() {
		defer close(done)
		for id := uint32(2); id < 78; id++ {
			va.AllocSlot(id)
			if _, err := va.GetBytes(id); err != nil { // creates chunk id
				t.Logf("GetBytes(%d): %v", id, err)
				return
			}
			// pacing only (so that many cycles overlap the 78 chunk creations): the verdict is the
			// race detector's, which looks at synchronisation, not at time. It must not be a
			// channel or an atomic: those would order the compactor's read before the append.
			time.Sleep(300 * time.Microsecond)
		}
	}()
	for {
		select {
		case <-done:
			return
		default:
			ac.RunCycle()
		}
	}
}

func c18RaceProbe(ctx *vkit.Ctx) {
	if !c18Race {
		return
	}
	ctx.Probe("D-C18-5", func(cs *vkit.Case) string {
		dir := cs.SubDir("child")
		logp := dir + "/report"
		cmd := exec.Command(os.Args[0], "-test.run", "^TestVerifC18RaceChild$", "-test.count=1", "-test.timeout=300s")
		env := []string{"C18_RACE_CHILD_DIR=" + cs.SubDir("child-arena"), "GORACE=halt_on_error=0 log_path=" + logp + " history_size=2"}
		for _, kv := range os.Environ() {
			if !strings.HasPrefix(kv, "GORACE=") && !strings.HasPrefix(kv, "VERIF_") {
				env = append(env, kv)
			}
		}
		cmd.Env = env
		cs.Op("child process: RunCycle in a loop while ids 2..77 are stored one per chunk (GetBytes creates 76 chunks)")
		out, err := cmd.CombinedOutput()
		ctx.Touch()
		files, _ := os.ReadDir(dir)
		var rep []byte
		for _, f := range files {
			if strings.HasPrefix(f.Name(), "report") {
				b, _ := os.ReadFile(dir + "/" + f.Name())
				rep = append(rep, b...)
			}
		}
		for _, blk := range strings.Split(string(rep), "==================") {
			if strings.Contains(blk, "DATA RACE") && strings.Contains(blk, "(*AsyncCompactor).RunCycle()") && strings.Contains(blk, "(*VectorArena).addChunk()") {
				var tops []string
				for _, l := range strings.Split(blk, "\n") {
					if strings.Contains(l, "/pkg/storage/mmap/") && !strings.Contains(l, "zz_verif_") {
						tops = append(tops, strings.TrimSpace(strings.SplitN(strings.TrimSpace(l), " ", 2)[0]))
					}
				}
				return fmt.Sprintf("data race (Go race detector, child process): RunCycle reads the chunk list without the chunk lock while GetBytes -> addChunk appends to it: %s", strings.Join(tops[:min(len(tops), 4)], " | "))
			}
		}
		cs.Op("child: err=%v, %d bytes of race report, %d bytes of output", err, len(rep), len(out))
		return ""
	})
}

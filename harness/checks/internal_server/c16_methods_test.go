package server

// C16 — the HTTP-method dimension of the quantifier ("all registered routes x HTTP methods x
// ...") and the authentication gate on EVERY route.
//
// Group "methods": one case per parsed route. For every method of c16Methods (the standard
// methods, CONNECT, TRACE, OPTIONS, two extension methods and a lower-case spelling) the case
// sends, with the route's real parameters and body:
//
//   - the ROOT token, for the methods that do not write (control: tells whether a handler
//     serves this (route, method) at all; not judged),
//   - read / write tokens restricted to [A] and global ([*]): judged by the state based oracles
//     (1)-(3) of c16_test.go exactly like the requests of the sweep,
//   - credentials that are NOT "the root token or a token issued by this server that is
//     unexpired, untampered and not revoked" (no header, scheme variants, forged, re-signed,
//     expired, revoked, one altered byte, root look-alikes): judged by checkRefused - such a
//     request must not be served, whatever the route and the method.
//
// "Served" for a refused credential: a 2xx answer from a route that is mounted behind the
// authentication chain, or ANY effect (state change, a mutating engine operation / snapshot /
// rewrite started, data of an index / the KV canary / the signing key / the root token / a
// fresh token in the response). Routes mounted on the outermost mux next to the chain are
// public by construction (health probe, JWKS public key): for them only the effect oracles
// apply. Which routes those are is read from the handler the server really built
// (http.ServeMux.Handler of the outermost mux), never from a list kept here.

import (
	"bytes"
	"fmt"
	"net/http"
	"net/http/httptest"
	"net/url"
	"os"
	"strings"

	"github.com/sanonone/kektordb/internal/zzverif/vexec"
	"github.com/sanonone/kektordb/internal/zzverif/vkit"
	"github.com/sanonone/kektordb/pkg/verifhook"
)

// c16Methods: every method a client can put on the request line. "QUERY" and "PROPFIND" stand
// for extension methods, "get" for a case variant (method names are case sensitive: it is not GET).
var c16Methods = []string{"GET", "HEAD", "POST", "PUT", "PATCH", "DELETE", "OPTIONS", "TRACE", "CONNECT", "PROPFIND", "QUERY", "get"}

// c16WritingMethod: methods whose root-token control request is not sent (it would legitimately
// rewrite the fixture on most routes).
func c16WritingMethod(m string) bool {
	return m == "POST" || m == "PUT" || m == "PATCH" || m == "DELETE"
}

// c16Cred is one value of the Authorization header (or its absence).
type c16Cred struct {
	Name   string
	Header string
	With   bool
}

func (c c16Cred) String() string {
	if !c.With {
		return c.Name
	}
	return fmt.Sprintf("%s (Authorization: %s)", c.Name, c16Trunc(c.Header))
}

// refusedCreds: the class of credentials the property says must never be served.
func (f *c16Fix) refusedCreds(valid, revoked *c16Token) []c16Cred {
	out := []c16Cred{
		{"no Authorization header", "", false},
		{"empty Authorization header", "", true},
		{"Bearer without token", "Bearer ", true},
		{"scheme only", "Bearer", true},
		{"Basic scheme with the root token", "Basic " + c16Root, true},
		{"lower-case scheme with a root look-alike", "bearer " + c16Root + "x", true},
	}
	for _, fg := range f.forgeries(valid, revoked) {
		out = append(out, c16Cred{fg.Name, "Bearer " + fg.Token, true})
	}
	// "untampered": one altered byte of a valid token (never an equivalent spelling)
	tok := []byte(valid.Token)
	for k := 0; k < 6; k++ {
		pos := f.cs.R.Intn(len(tok))
		alt := append([]byte(nil), tok...)
		alt[pos] = "ABCDEFGHIJKLMNOPQRSTUVWXYZabcdefghijklmnopqrstuvwxyz0123456789-_"[f.cs.R.Intn(64)]
		if alt[pos] == tok[pos] || c16Equivalent(valid.Token, string(alt)) {
			continue
		}
		out = append(out, c16Cred{"valid token with one altered byte", "Bearer " + string(alt), true})
	}
	return out
}

// outsideChain reports whether the server answers (method, target) from a route mounted on its
// outermost mux instead of handing it to the authentication chain (mounted at "/").
// known == false: the outermost handler is not a mux any more, the question cannot be answered.
func (f *c16Fix) outsideChain(method, target string) (outside bool, pattern string, known bool) {
	mux, ok := f.h.(*http.ServeMux)
	if !ok {
		return false, "", false
	}
	_, pattern = mux.Handler(httptest.NewRequest(method, target, nil))
	return pattern != "" && pattern != "/", pattern, true
}

// checkRefused sends q with a credential of the refused class and judges it.
func (f *c16Fix) checkRefused(cr c16Cred, q *c16Req) []c16Viol {
	before := f.lastObs
	if before == nil {
		before = f.observe()
	}
	hb := verifhook.Hits()
	keyR := f.keyRenderings()
	f.cs.Op("%s -> %s", cr, q)
	rs := f.doHdr(q.Method, q.Target, cr.Header, cr.With, q.Body)
	f.settle()
	after := f.observe()
	ha := verifhook.Hits()
	f.lastObs = after
	f.ctx.Count("gate_requests", 1)
	f.ctx.Count(fmt.Sprintf("gate_status.%d", rs.Code), 1)
	var out []c16Viol
	add := func(format string, a ...any) {
		out = append(out, c16Viol{"auth", fmt.Sprintf(format, a...) + fmt.Sprintf(" | request: %s | credential: %s | response: %d %s", q, cr, rs.Code, c16Trunc(string(rs.Body)))})
	}
	outside, pat, known := f.outsideChain(q.Method, q.Target)
	if !known {
		f.ctx.Inconclusive("C16 methods: the outermost handler of NewServer is no longer an http.ServeMux: the routes mounted outside the authentication chain cannot be told from the others")
		return nil
	}
	if outside {
		f.ctx.Count("gate_requests_to_public_routes", 1)
		f.ctx.Sample("public-route", 4, pat)
	}
	if rs.Code >= 200 && rs.Code < 300 && !outside {
		add("a request that carries neither the root token nor a valid issued token was served (status %d) by %s %s", rs.Code, q.Method, q.path())
	}
	if d := vexec.Diff(before, after); len(d) > 0 {
		add("a request that carries neither the root token nor a valid issued token changed the state: %s", strings.Join(d[:min(len(d), 5)], " ; "))
	}
	mutB, _ := c16MutHits(hb)
	mutA, mutNames := c16MutHits(ha)
	if mutA != mutB {
		add("a request that carries neither the root token nor a valid issued token reached a mutating engine operation: hook counters now %s", mutNames)
	}
	for _, h := range []string{"rw.begin", "snap.begin"} {
		if n := c16HookDelta(hb, ha, h); n > 0 {
			add("a request that carries neither the root token nor a valid issued token started a snapshot / rewrite (%s +%d)", h, n)
		}
	}
	// nothing the server keeps may be in the answer
	for _, ix := range f.idx {
		for _, c := range ix.Canaries {
			if c != "" && bytes.Contains(rs.Body, []byte(c)) {
				add("the response to a request without a valid credential contains data of index %q (canary %s)", ix.Name, c)
				break
			}
		}
	}
	if f.kvCan != "" && bytes.Contains(rs.Body, []byte(f.kvCan)) {
		add("the response to a request without a valid credential contains a value of the KV store (canary %s)", f.kvCan)
	}
	for _, kr := range keyR {
		if len(kr) > 0 && bytes.Contains(rs.Body, kr) {
			add("the response to a request without a valid credential contains the signing key")
			break
		}
	}
	if bytes.Contains(rs.Body, []byte(c16Root)) && !bytes.Contains(q.Body, []byte(c16Root)) && !strings.Contains(q.Target, c16Root) {
		add("the response to a request without a valid credential contains the root token")
	}
	if m := f.mintedTokens(rs.Body, strings.TrimPrefix(cr.Header, "Bearer ")); len(m) > 0 {
		add("the response to a request without a valid credential carries %d token(s) that this server accepts", len(m))
	}
	return out
}

// c16RespellPath rewrites the path of q into another spelling a client can send for the same
// resource (doubled / trailing slash, a "." segment, a ".." detour, an escaped letter): a gate
// that recognises paths by their text must not be talked out of asking for a credential.
func c16RespellPath(r *vkit.Rand, q *c16Req) {
	path, query := q.Target, ""
	if i := strings.Index(path, "?"); i >= 0 {
		path, query = path[:i], path[i:]
	}
	segs := strings.Split(strings.TrimPrefix(path, "/"), "/")
	alt := path
	switch r.Intn(6) {
	case 0:
		alt = "/" + path
	case 1:
		alt = strings.TrimSuffix(path, "/") + "/"
	case 2:
		alt = "/./" + strings.TrimPrefix(path, "/")
	case 3:
		alt = "/" + segs[0] + "/../" + strings.TrimPrefix(path, "/")
	case 4:
		if len(segs[0]) > 0 {
			alt = fmt.Sprintf("/%%%02X%s", segs[0][0], strings.TrimPrefix(path, "/")[1:])
		}
	default:
		k := r.Intn(len(segs))
		segs[k] = segs[k] + "/"
		alt = "/" + strings.Join(segs, "/")
	}
	if _, err := url.ParseRequestURI(alt + query); err != nil || strings.ContainsAny(alt, " \t\r\n") {
		return
	}
	q.Target = alt + query
	q.Tags = append(q.Tags, "respelled-path")
}

// c16WithCmdline runs fn while the process' command line is that of a deployed server whose
// root token was passed the documented way (kektordb --auth-token <token>, cmd/kektordb/main.go):
// the property quantifies over configurations, and anything that prints the command line then
// prints the root token.
func c16WithCmdline(fn func()) {
	saved := os.Args
	if !strings.Contains(strings.Join(saved, "\x00"), c16Root) {
		os.Args = append(append([]string(nil), saved...), "--auth-token", c16Root)
	}
	defer func() { os.Args = saved }()
	fn()
}

func c16MethodGroups(ctx *vkit.Ctx, routes []c16Route, words []string) {
	ctx.Assume("routes that NewServer mounts on its outermost mux next to the authentication chain (read from that mux at run time: the health probe and the JWKS public key) are public by construction; for them a 2xx answer to a request without credential is not a verdict, the effect oracles (state, hooks, canaries, secrets in the response) still are")
	ctx.Assume("an answer other than 2xx that changed nothing and disclosed nothing is a refusal, whatever its status (401, 403, 404, 405, a redirect)")
	ctx.Assume("the process command line is that of a deployment that passes the root token as --auth-token (os.Args of the child is extended accordingly)")
	nCred := ctx.N(2, 10)
	tokSpecs := []struct{ Role, NS string }{{"read", "A"}, {"read", "*"}, {"write", "A"}, {"write", "*"}}
	ctx.Group("methods", len(routes), func(cs *vkit.Case) {
		rt := routes[cs.Idx]
		names := c16NamePairs[cs.R.Intn(len(c16NamePairs))]
		if defs := c16DefaultIdx[rt.File]; len(defs) > 0 && cs.R.Chance(0.5) {
			names = c16DefaultTriple(vkit.Pick(cs.R, defs))
		}
		c16Artifacts = strings.Contains(rt.Path, "artifact")
		var f *c16Fix
		var g *c16Gen
		var toks []*c16Token
		var creds []c16Cred
		var valid *c16Token
		build := func() {
			if f != nil {
				f.close()
				ctx.Count("fixture_rebuilt", 1)
			}
			f = newC16Fix(ctx, cs, names)
			f.installPipelines()
			g = &c16Gen{f: f, r: cs.R, words: words, routes: routes}
			toks = nil
			for _, sp := range tokSpecs {
				toks = append(toks, f.mintSpec(sp.Role, sp.NS))
			}
			valid = f.mintSpec("write", "A")
			revoked := f.mintSpec(vkit.Pick(cs.R, []string{"admin", "write", "read"}), "*")
			f.rootJSON("DELETE", "/auth/keys/"+revoked.JTI, nil)
			creds = f.refusedCreds(valid, revoked)
		}
		build()
		defer func() { f.close() }()
		// the request of one (method, sender): the route's own parameters and body, method replaced
		request := func(m string, tok *c16Token) *c16Req {
			q := g.instantiate(rt, tok, nil)
			q.Method = m
			// a GET / HEAD keeps the route's body unless the route is a GET route itself (a route that
			// answers a method it was not meant for must not take a read-role GET for a read)
			if (m == "GET" || m == "HEAD") && rt.Method == "GET" {
				if cs.R.Chance(0.9) {
					q.Body, q.IdxVar = nil, "no-body"
				}
			} else if q.Body == nil || (rt.Method != m && cs.R.Chance(0.6)) {
				// (a method the route does not name: mostly the well-formed body the handler expects)
				q.IdxVar = vkit.Pick(cs.R, []string{"own", "own", "foreign", "missing"})
				q.Body = g.buildBody(rt.Path, q.IdxVar, q.Own, q.Foreign)
			}
			q.Tags = append(q.Tags, "method-sweep")
			return q
		}
		for _, m := range c16Methods {
			registered := rt.Method == "" || rt.Method == m || (rt.Method == "GET" && m == "HEAD")
			// control (not judged): does the root token get an answer from a handler here?
			servable := "unknown"
			if !c16WritingMethod(m) {
				q := request(m, valid)
				cs.Op("root (control) -> %s", q)
				rs := f.do(q.Method, q.Target, c16Root, q.Body)
				f.settle()
				f.lastObs = nil
				servable = "refused-for-root"
				if rs.Code >= 200 && rs.Code < 300 {
					servable = "served-for-root"
					ctx.Count("methods_pairs_served_for_root", 1)
					if !registered {
						ctx.Count("methods_pairs_served_for_root_unregistered_method", 1)
						ctx.Count("methods_served_for_root_unregistered: "+m+" on route "+rt.Pattern, 1)
					}
				}
				if f.damaged() {
					build()
				}
			}
			// issued tokens: oracles (1)-(3)
			for k, tok := range toks {
				q := request(m, tok)
				if c16Guarded(ctx, tok, q) {
					continue
				}
				vs := f.check(tok, q)
				ctx.Eval(1)
				ctx.Count("methods_token_requests", 1)
				ctx.Distinct(fmt.Sprintf("methods|%s|%s|%s|%s|%s", rt.Pattern, m, tok.Role, tokSpecs[k].NS, q.IdxVar))
				c16Report(ctx, cs, tok, q, vs)
				if f.damaged() {
					build()
				}
			}
			// refused credentials: the request without any header always, the others sampled
			picked := []c16Cred{creds[0]}
			for k := 0; k < nCred; k++ {
				picked = append(picked, vkit.Pick(cs.R, creds))
			}
			for _, cr := range picked {
				q := request(m, valid)
				if cs.R.Chance(0.25) {
					c16RespellPath(cs.R, q)
				}
				vs := f.checkRefused(cr, q)
				ctx.Eval(1)
				ctx.Distinct(fmt.Sprintf("gate|%s|%s|%s|%s", rt.Pattern, m, servable, strings.Split(cr.Name, "(")[0]))
				if len(vs) > 0 {
					var msgs []string
					for _, v := range vs {
						msgs = append(msgs, "["+v.Kind+"] "+v.Msg)
					}
					cs.Fail("%s", strings.Join(msgs, "\n"))
				}
				if f.damaged() {
					build() // only a violation can get here; kept so that a collect run goes on
				}
			}
		}
		ctx.Sample("methods", 2, map[string]any{"route": rt.Pattern, "ops": cs.Ops()[:min(len(cs.Ops()), 8)]})
	})
}

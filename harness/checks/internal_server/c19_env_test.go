package server

// C19 — environment: a real engine + the full HTTP handler chain (no auth) over a data
// directory that sits next to a sentinel tree, plus the monitors (panic-recovery counter,
// response well-formedness, state digest, file manifest outside the data directory).

import (
	"bufio"
	"bytes"
	"context"
	"crypto/sha256"
	"encoding/hex"
	"encoding/json"
	"fmt"
	"io"
	"io/fs"
	"log/slog"
	"net/http"
	"net/http/httptest"
	"os"
	"path/filepath"
	"runtime"
	"runtime/debug"
	"sort"
	"strings"
	"sync"
	"sync/atomic"
	"time"

	"github.com/sanonone/kektordb/internal/zzverif/vexec"
	"github.com/sanonone/kektordb/internal/zzverif/vkit"
	"github.com/sanonone/kektordb/pkg/core/distance"
	"github.com/sanonone/kektordb/pkg/embeddings"
	"github.com/sanonone/kektordb/pkg/engine"
	"github.com/sanonone/kektordb/pkg/verifhook"
)

// ---- panic-recovery monitors (process-wide) ---------------------------------------------

var (
	c19PanicMu    sync.Mutex
	c19PanicLast  string
	c19SlogPanics atomic.Int64
	c19Once       sync.Once
)

// c19SlogHandler is the secondary signal: an error-level record that carries a stack.
type c19SlogHandler struct{}

func (c19SlogHandler) Enabled(_ context.Context, l slog.Level) bool { return l >= slog.LevelError }
func (c19SlogHandler) Handle(_ context.Context, r slog.Record) error {
	r.Attrs(func(a slog.Attr) bool {
		if a.Key == "stack" {
			c19SlogPanics.Add(1)
			return false
		}
		return true
	})
	return nil
}
func (h c19SlogHandler) WithAttrs([]slog.Attr) slog.Handler { return h }
func (h c19SlogHandler) WithGroup(string) slog.Handler      { return h }

func c19InstallMonitors() {
	c19Once.Do(func() {
		slog.SetDefault(slog.New(c19SlogHandler{}))
		verifhook.Set("http.panic_recovered", func(_ string, data any) {
			c19PanicMu.Lock()
			c19PanicLast = fmt.Sprintf("recovered value: %v\n%s", data, debug.Stack())
			c19PanicMu.Unlock()
		})
	})
}

func c19PanicHits() int64 { return verifhook.Hits()["http.panic_recovered"] }

// ---- environment ------------------------------------------------------------------------

type c19Env struct {
	cs  *vkit.Case
	ctx *vkit.Ctx

	seq                    int
	keep, base, root, data string
	opts                   engine.Options
	eng                    *engine.Engine
	srv                    *Server
	h                      http.Handler
	uni                    vexec.Universe
	seedKey                string
	curKey                 string
	cur                    *vexec.Obs
	manifest               map[string]string
	requests               int
	dirty                  bool
	commits                bool
}

func c19NewEnv(ctx *vkit.Ctx, cs *vkit.Case) *c19Env {
	c19InstallMonitors()
	e := &c19Env{cs: cs, ctx: ctx}
	e.fresh()
	return e
}

func c19Must(err error) {
	if err != nil {
		panic("C19 harness: " + err.Error())
	}
}

// fresh builds a new instance: directory tree, sentinel files, seeded engine, server.
func (e *c19Env) fresh() {
	e.seq++
	e.keep = filepath.Join(e.cs.TempDir(), fmt.Sprintf("n%d", e.seq))
	e.base = filepath.Join(e.keep, "a", "b", "c")
	e.root = filepath.Join(e.base, "root")
	e.data = filepath.Join(e.root, "data")
	c19Must(os.MkdirAll(filepath.Join(e.root, "sentinel", "sub"), 0o755))
	c19Must(os.MkdirAll(filepath.Join(e.root, "arenas", "i0"), 0o755)) // decoy with the same shape as the real arena dir
	files := map[string]string{
		filepath.Join(e.root, "sentinel", "keep.txt"):           "sentinel file\n",
		filepath.Join(e.root, "sentinel", "sub", "deep.bin"):    "\x00\x01\x02deep",
		filepath.Join(e.root, "arenas", "i0", "arena_0000.bin"): "decoy arena",
		filepath.Join(e.root, "keep.txt"):                       "next to data\n",
		filepath.Join(e.root, "kektordb.aof"):                   "decoy aof",
		filepath.Join(e.base, "outer_c.txt"):                    "one level above root\n",
		filepath.Join(e.keep, "a", "b", "outer_b.txt"):          "two levels above root\n",
		filepath.Join(e.keep, "top.txt"):                        "top of the case tree\n",
	}
	for p, c := range files {
		c19Must(os.WriteFile(p, []byte(c), 0o644))
	}
	e.opts = vexec.Options(e.data)
	eng, err := engine.Open(e.opts)
	c19Must(err)
	e.eng = eng
	e.seed()
	e.serve()
	e.settle()
	e.manifest = c19Manifest(e.keep, e.data)
	e.cur = vexec.Observe(e.eng, e.uni)
	e.curKey = c19ObsKey(e.cur)
	e.seedKey = e.curKey
	e.dirty, e.commits = false, false
}

func (e *c19Env) open() (*engine.Engine, error) { return engine.Open(e.opts) }

func (e *c19Env) serve() {
	s, err := NewServer(e.eng, ":0", "", "", e.data, "", embeddings.NoopEmbedder{})
	c19Must(err)
	e.srv = s
	e.h = s.httpServer.Handler
}

// seed puts a small, fixed state behind the server (direct engine calls: the HTTP layer is
// the thing under test, not the way to prepare it).
func (e *c19Env) seed() {
	en := e.eng
	c19Must(en.VCreate(c19Idx0, distance.Euclidean, 8, 50, distance.Float32, "", nil, nil, nil))
	c19Must(en.VCreate(c19Idx1, distance.Cosine, 8, 50, distance.Float32, "english", nil, nil, nil))
	for i, id := range []string{"a", "b", "c", "d"} {
		v := []float32{float32(i) + 0.1, 0.2, 0.3, float32(i) * 0.5}
		// metadata of every JSON kind a client may have stored: scalars, a list, a nested
		// object and a null (requests that rewrite the metadata of these nodes meet them)
		c19Must(en.VAdd(c19Idx0, id, v, map[string]any{"tag": "x", "n": float64(i), "content": "alpha beta " + id,
			"labels": []any{"l1", float64(i)}, "author": map[string]any{"name": "n" + id, "tags": []any{"t"}}, "gone": nil}))
	}
	c19Must(en.VAdd(c19Idx0, "r0", []float32{0.4, 0.4, 0.4, 0.4}, map[string]any{"type": "reflection", "status": "unresolved", "content": "Conflict detected"}))
	for i, id := range []string{"a", "b"} {
		c19Must(en.VAdd(c19Idx1, id, []float32{0.1 + float32(i), 0.5, 0.9}, map[string]any{"content": "gamma delta " + id}))
	}
	// indexes in the states a client can leave them in: never written to; everything deleted
	// again; another storage precision
	c19Must(en.VCreate(c19IdxEmpty, distance.Euclidean, 8, 50, distance.Float32, "", nil, nil, nil))
	c19Must(en.VCreate(c19IdxDeleted, distance.Euclidean, 8, 50, distance.Float32, "english", nil, nil, nil))
	for _, id := range []string{"a", "b"} {
		c19Must(en.VAdd(c19IdxDeleted, id, []float32{0.3, 0.1, 0.2, 0.9}, map[string]any{"tag": "x", "n": 1.0, "content": "alpha " + id}))
	}
	for _, id := range []string{"a", "b"} {
		c19Must(en.VDelete(c19IdxDeleted, id))
	}
	c19Must(en.VCreate(c19IdxHalf, distance.Euclidean, 8, 50, distance.Float16, "", nil, nil, nil))
	for i, id := range []string{"a", "b", "c"} {
		v := []float32{0.5, float32(i) * 0.25, 0.125, 1}
		if id == "a" {
			// a component beyond the float16 range (legal JSON, legal float32): the index holds
			// it as +Inf, and every route that returns this vector must still answer with a
			// well-formed response
			v[0] = 70000
		}
		c19Must(en.VAdd(c19IdxHalf, id, v, map[string]any{"tag": "x", "n": float64(i)}))
	}
	c19Must(en.VLink(c19Idx0, "a", "b", "rel", "inv", 1, map[string]any{"p": "q"}))
	c19Must(en.VLink(c19Idx0, "a", "c", "rel", "", 0.5, nil))
	c19Must(en.VLink(c19Idx0, "b", "c", "next", "", 1, nil))
	c19Must(en.KVSet("k0", []byte("v0")))
	c19Must(en.KVSet("k1", []byte("v1")))
	ids := []string{"a", "b", "c", "d", "r0", "new1", "nb0", "nb1", "nbx", "nby", "nbz", "nonexistent_zz"}
	e.uni = vexec.Universe{
		Indexes: []string{c19Idx0, c19Idx1, c19IdxEmpty, c19IdxDeleted, c19IdxHalf, "inew", "nonexistent_zz"},
		IDs:     ids,
		Keys:    []string{"k0", "k1", "nonexistent_zz"},
		Rels:    []string{"rel", "inv", "next", "invalidates"},
	}
	for _, ix := range []string{c19Idx0, c19Idx1, c19IdxEmpty, c19IdxDeleted, c19IdxHalf} {
		for _, id := range ids {
			e.uni.Nodes = append(e.uni.Nodes, vexec.GraphID(ix, id))
		}
	}
}

// settle waits until the asynchronous work started by earlier requests is finished:
// delete cascades, physical arena removal, tasks of the task manager.
func (e *c19Env) settle() { e.settleTo(0) }

// settleTo additionally waits (bounded) until the goroutines started while the request was
// served are gone or parked: handlers start background work that no hook announces (e.g. the
// self-repair unlink of VGetConnections), and the digest must not be read while it runs.
// goroutines = runtime.NumGoroutine() sampled just before the request. Requests that leave a
// long-lived goroutine behind (first insert into an index: arena compactor; compress;
// import/commit) are recognised by looking at the goroutine states: select / sleep / chan
// receive / IO wait is "parked", anything runnable, running or waiting for a lock is work.
func (e *c19Env) settleTo(goroutines int) {
	if goroutines > 0 && runtime.NumGoroutine() > goroutines {
		limit := time.Now().Add(10 * time.Second)
		for spins := 0; runtime.NumGoroutine() > goroutines; spins++ {
			if spins >= 3 && c19ActiveGoroutines() == 0 {
				e.ctx.Count("requests_leaving_parked_goroutines", 1)
				break
			}
			if time.Now().After(limit) {
				e.ctx.Count("goroutines_still_active_after_10s", 1)
				ops := e.cs.Ops()
				e.ctx.Sample("goroutines-active", 4, fmt.Sprintf("%d > %d after %s", runtime.NumGoroutine(), goroutines, ops[len(ops)-1]))
				break
			}
			e.ctx.Touch()
			time.Sleep(50 * time.Microsecond)
		}
	}
	deadline := time.Now().Add(60 * time.Second)
	for {
		h := verifhook.Hits()
		ok := h["op.VDelete.applied"] == h["cascade.done"] && h["op.VDeleteIndex.applied"] == h["op.VDeleteIndex.remove_done"]
		if ok && e.srv != nil {
			e.srv.taskManager.mu.RLock()
			for _, t := range e.srv.taskManager.tasks {
				st := t.Snapshot().Status
				if st != TaskStatusCompleted && st != TaskStatusFailed {
					ok = false
				}
			}
			e.srv.taskManager.mu.RUnlock()
		}
		if ok {
			return
		}
		if time.Now().After(deadline) {
			e.ctx.Inconclusive("C19: background work started by a request did not finish within 60 s (case " + e.cs.Group + ")")
			return
		}
		e.ctx.Touch()
		time.Sleep(200 * time.Microsecond)
	}
}

// retire performs the final Close/Open of this instance and checks confinement once more.
func (e *c19Env) retire(why string) {
	if e.eng == nil {
		return
	}
	e.cs.Op("-- retire instance n%d (%s): Close, Open, Close, compare the manifest outside data/", e.seq, why)
	e.settle()
	if e.commits {
		time.Sleep(20 * time.Millisecond) // lets the refine pass started by import/commit leave the index before it is unmapped
	}
	e.srv.taskManager.StopCleanup()
	e.eng.Close()
	e.eng, e.srv, e.h = nil, nil, nil
	eng, err := engine.Open(e.opts)
	if err != nil {
		e.ctx.Count("reopen_failed", 1)
		e.ctx.Sample("reopen-failed", 3, fmt.Sprintf("%v after: %s", err, strings.Join(e.cs.Ops()[max(0, len(e.cs.Ops())-3):], " ;; ")))
	} else {
		e.eng = eng
		e.settle()
		eng.Close()
		e.eng = nil
		e.ctx.Count("reopen_ok", 1)
	}
	e.checkManifest("after the final Close/Open of the engine")
	e.ctx.Count("instances_retired", 1)
	os.RemoveAll(e.keep)
}

func (e *c19Env) checkManifest(when string) {
	now := c19Manifest(e.keep, e.data)
	if d := c19ManifestDiff(e.manifest, now); len(d) > 0 {
		e.cs.Attach("files_outside_data_dir_changed", d)
		e.cs.Attach("data_dir", e.data)
		e.cs.Fail("confinement: files outside the data directory changed %s: %s", when, strings.Join(d, "; "))
	}
	e.ctx.Count("manifest_checks", 1)
}

var c19StackBuf = make([]byte, 1<<20)

// c19ActiveGoroutines counts goroutines other than the caller that are runnable, running,
// in a syscall or waiting for a lock.
func c19ActiveGoroutines() int {
	var n int
	for {
		n = runtime.Stack(c19StackBuf, true)
		if n < len(c19StackBuf) {
			break
		}
		c19StackBuf = make([]byte, 2*len(c19StackBuf))
	}
	active, first := 0, true
	for _, blk := range bytes.Split(c19StackBuf[:n], []byte("\n\n")) {
		if !bytes.HasPrefix(blk, []byte("goroutine ")) {
			continue
		}
		if first { // the caller
			first = false
			continue
		}
		i, j := bytes.IndexByte(blk, '['), bytes.IndexByte(blk, ']')
		if i < 0 || j < i {
			continue
		}
		st := string(blk[i+1 : j])
		if k := strings.IndexByte(st, ','); k >= 0 {
			st = st[:k]
		}
		switch {
		case st == "runnable", st == "running", st == "syscall", st == "semacquire",
			strings.HasPrefix(st, "sync.Mutex"), strings.HasPrefix(st, "sync.RWMutex"), strings.HasPrefix(st, "sync.WaitGroup"):
			active++
		}
	}
	return active
}

// ---- manifest ---------------------------------------------------------------------------

func c19Manifest(keep, data string) map[string]string {
	m := map[string]string{}
	filepath.WalkDir(keep, func(p string, d fs.DirEntry, err error) error {
		if err != nil {
			return nil
		}
		if p == data {
			return filepath.SkipDir
		}
		rel, _ := filepath.Rel(keep, p)
		switch {
		case d.IsDir():
			m[rel] = "dir"
		case d.Type()&fs.ModeSymlink != 0:
			t, _ := os.Readlink(p)
			m[rel] = "symlink->" + t
		default:
			b, rerr := os.ReadFile(p)
			if rerr != nil {
				m[rel] = "unreadable"
			} else {
				s := sha256.Sum256(b)
				m[rel] = fmt.Sprintf("file size=%d sha256=%s", len(b), hex.EncodeToString(s[:8]))
			}
		}
		return nil
	})
	return m
}

func c19ManifestDiff(a, b map[string]string) []string {
	var out []string
	for k, v := range a {
		if w, ok := b[k]; !ok {
			out = append(out, "deleted "+k)
		} else if w != v {
			out = append(out, fmt.Sprintf("altered %s (%s -> %s)", k, v, w))
		}
	}
	for k, v := range b {
		if _, ok := a[k]; !ok {
			out = append(out, fmt.Sprintf("created %s (%s)", k, v))
		}
	}
	sort.Strings(out)
	if len(out) > 12 {
		out = append(out[:12], fmt.Sprintf("... %d more", len(out)-12))
	}
	return out
}

// ---- digest -----------------------------------------------------------------------------

func c19ObsKey(o *vexec.Obs) string {
	h := sha256.New()
	ks := make([]string, 0, len(o.Vals))
	for k := range o.Vals {
		ks = append(ks, k)
	}
	sort.Strings(ks)
	for _, k := range ks {
		fmt.Fprintf(h, "%d:%s=%d:%s\n", len(k), k, len(o.Vals[k]), o.Vals[k])
	}
	ks = ks[:0]
	for k := range o.Vecs {
		ks = append(ks, k)
	}
	sort.Strings(ks)
	for _, k := range ks {
		fmt.Fprintf(h, "%d:%s=%x\n", len(k), k, o.Vecs[k])
	}
	return hex.EncodeToString(h.Sum(nil))
}

// ---- sending ----------------------------------------------------------------------------

type c19Resp struct {
	Code     int
	Header   http.Header
	Body     []byte
	Rejected string // non-empty: net/http's request parser refused the request (the server answers 400 itself)
	Escaped  string // non-empty: a panic left the handler chain
}

func (e *c19Env) send(it *c19Item) *c19Resp {
	var hdr bytes.Buffer
	fmt.Fprintf(&hdr, "%s %s HTTP/1.1\r\nHost: c19.test\r\n", it.Method, it.Target)
	var rd io.Reader
	switch {
	case it.Stream != nil:
		s, n := it.Stream()
		fmt.Fprintf(&hdr, "Content-Type: application/json\r\nContent-Length: %d\r\n\r\n", n)
		rd = io.MultiReader(bytes.NewReader(hdr.Bytes()), s)
	case it.Body != nil:
		fmt.Fprintf(&hdr, "Content-Type: application/json\r\nContent-Length: %d\r\n\r\n", len(it.Body))
		rd = io.MultiReader(bytes.NewReader(hdr.Bytes()), bytes.NewReader(it.Body))
	default:
		hdr.WriteString("\r\n")
		rd = bytes.NewReader(hdr.Bytes())
	}
	req, err := http.ReadRequest(bufio.NewReaderSize(rd, 64<<10))
	if err != nil {
		return &c19Resp{Rejected: err.Error()}
	}
	req.RemoteAddr = "127.0.0.1:40000"
	if it.Chunked {
		// what the server sees of a chunked request: no declared length, the body still streams
		req.ContentLength = -1
		req.Header.Del("Content-Length")
		req.TransferEncoding = []string{"chunked"}
	}
	w := httptest.NewRecorder()
	resp := &c19Resp{}
	func() {
		defer func() {
			if r := recover(); r != nil {
				resp.Escaped = fmt.Sprintf("%v\n%s", r, debug.Stack())
			}
		}()
		e.h.ServeHTTP(w, req)
	}()
	resp.Code, resp.Header, resp.Body = w.Code, w.Header(), w.Body.Bytes()
	return resp
}

func c19Short(b []byte) string {
	if len(b) > 300 {
		return fmt.Sprintf("%q…(%d bytes)", b[:300], len(b))
	}
	return fmt.Sprintf("%q", b)
}

func (it *c19Item) describe() string {
	b := "no body"
	if it.Stream != nil {
		b = "streamed body"
	} else if it.Body != nil {
		b = "body " + c19Short(it.Body)
	}
	t := it.Target
	if len(t) > 400 {
		t = fmt.Sprintf("%s…(%d bytes)", t[:400], len(t))
	}
	return fmt.Sprintf("[%s %s] %s %q %s", it.Kind, it.Field, it.Method, t, b)
}

// do sends one request and applies every oracle of the property to it.
func (e *c19Env) do(r *c19Route, it *c19Item) *c19Resp {
	e.cs.Op("%s", it.describe())
	e.requests++
	hits0, slog0 := c19PanicHits(), c19SlogPanics.Load()
	g0 := runtime.NumGoroutine()
	resp := e.send(it)
	e.ctx.Eval(1)
	e.ctx.Count("requests", 1)
	e.ctx.Count("kind."+it.Kind, 1)
	if resp.Rejected != "" {
		// malformed request line: net/http answers 400 before any handler runs
		e.ctx.Count("rejected_by_http_parser", 1)
		return resp
	}
	witness := func() {
		e.cs.Attach("request", map[string]any{"route": r.Key(), "handler": r.Handler, "method": it.Method, "target": it.Target, "body": c19Short(it.Body), "mutation": it.Kind, "field": it.Field})
		e.cs.Attach("response", map[string]any{"status": resp.Code, "content_type": resp.Header.Get("Content-Type"), "body": c19Short(resp.Body)})
	}
	// (1) the panic-recovery path is never taken
	if resp.Escaped != "" {
		witness()
		e.cs.Fail("a panic left the handler chain (not even recovered): %s", resp.Escaped)
	}
	if d := c19PanicHits() - hits0; d != 0 {
		witness()
		c19PanicMu.Lock()
		last := c19PanicLast
		c19PanicMu.Unlock()
		e.cs.Attach("recovered_panic", strings.Split(last, "\n"))
		e.cs.Fail("the request was answered through the panic-recovery path (hook http.panic_recovered +%d, status %d): %s", d, resp.Code, strings.SplitN(last, "\n", 2)[0])
	}
	if d := c19SlogPanics.Load() - slog0; d != 0 {
		witness()
		e.cs.Fail("an error-level log record carrying a stack was emitted while serving the request (+%d) although the recovery hook did not fire", d)
	}
	// (2) well-formed response
	if resp.Code < 100 || resp.Code > 599 {
		witness()
		e.cs.Fail("malformed response: status %d", resp.Code)
	}
	ct := resp.Header.Get("Content-Type")
	if strings.HasPrefix(ct, "application/json") && resp.Code != http.StatusNoContent && resp.Code != http.StatusNotModified {
		if !json.Valid(bytes.TrimSpace(resp.Body)) {
			witness()
			e.cs.Fail("malformed response: Content-Type %q with status %d but the body is not one JSON value: %s", ct, resp.Code, c19Short(resp.Body))
		}
	}
	e.ctx.Count(fmt.Sprintf("status.%dxx", resp.Code/100), 1)
	is4xx := resp.Code >= 400 && resp.Code < 500
	// (3)/(5) answers the property demands to be 4xx
	if it.Want4xx != "" {
		e.ctx.Count("demanded_4xx", 1)
		if !is4xx {
			witness()
			e.cs.Fail("expected a 4xx answer because %s; got %d %s", it.Want4xx, resp.Code, c19Short(resp.Body))
		}
	}
	// (4) a 4xx answer leaves the database unchanged
	if r.Commits && resp.Code/100 == 2 {
		g0++ // import/commit leaves a refine goroutine behind that sleeps for 10 s
	}
	e.settleTo(g0)
	now := vexec.Observe(e.eng, e.uni)
	key := c19ObsKey(now)
	if is4xx {
		e.ctx.Count("digest_checks_on_4xx", 1)
		if key != e.curKey {
			time.Sleep(20 * time.Millisecond)
			again := vexec.Observe(e.eng, e.uni)
			if c19ObsKey(again) != key {
				e.ctx.Inconclusive("C19: the state digest is not stable between two read-outs without a request in between")
			} else {
				witness()
				d := vexec.Diff(e.cur, now)
				e.cs.Attach("digest_diff", d)
				e.cs.Fail("the request was refused with %d but the database changed: %s", resp.Code, strings.Join(d[:min(len(d), 4)], " | "))
			}
		}
	}
	if key != e.curKey {
		e.ctx.Count("state_changing_requests", 1)
	}
	e.cur, e.curKey = now, key
	e.dirty = key != e.seedKey
	if r.Commits && resp.Code/100 == 2 {
		e.commits = true
	}
	// (6) confinement
	when := "after the request"
	if it.Hostile {
		when = "after a request that carried a hostile name"
		e.ctx.Count("hostile_requests", 1)
	}
	e.checkManifestReq(when, witness)
	return resp
}

func (e *c19Env) checkManifestReq(when string, witness func()) {
	now := c19Manifest(e.keep, e.data)
	if d := c19ManifestDiff(e.manifest, now); len(d) > 0 {
		witness()
		e.cs.Attach("files_outside_data_dir_changed", d)
		e.cs.Attach("data_dir", e.data)
		e.cs.Fail("confinement: files outside the data directory changed %s: %s", when, strings.Join(d, "; "))
	}
	e.ctx.Count("manifest_checks", 1)
}

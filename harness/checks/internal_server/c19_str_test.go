package server

// C19 — string fields whose CONTENT the server interprets (filter expressions, free-text
// queries, enumerations, names): a string of the right JSON type can still be a malformed
// request. The property demands of those only what it demands of every request: a
// well-formed answer that does not come from the panic-recovery path, an unchanged database
// when the answer is 4xx, confinement. No status is demanded.
//
// Two generators:
//   - c19Derive: deterministic edits of a VALID value of the field (every truncation, every
//     suffix, every single-byte deletion, token drop / duplication / swap, every
//     metacharacter of the documented little languages appended, prepended and substituted,
//     quote and parenthesis imbalance, case, padding, NUL / newline / multi-byte runes,
//     long repetitions) - the systematic group sends all of them;
//   - c19Soup: seed-driven token soups over the words, operators and metacharacters of the
//     valid values - the random group sends them, alone and combined with a second
//     mutation of another field.

import (
	"fmt"
	"sort"
	"strings"

	"github.com/sanonone/kektordb/internal/zzverif/vkit"
)

// c19RichStr: further documented-valid values per field name (DOCUMENTATION.md: filter
// operators = != < <= > >=, AND / OR, CONTAINS(field,'text'); metrics, precisions, text
// languages, traversal directions, maintenance task types, decay models). Each is sent as
// it is (a valid alternative of the template value) and is a base of c19Derive.
var c19RichStr = map[string][]string{
	"filter": {
		`tag='x' AND n>=1`,
		`n < 2 OR tag != "y"`,
		`CONTAINS(content, 'alpha') AND n <= 3`,
		`n > 0`,
	},
	"property_filter": {
		`tag='x' AND n>=1`,
		`n < 2 OR type != "reflection"`,
		`status = 'unresolved' OR n > 1 AND n <= 3`,
	},
	"query_text":     {"alpha beta"},
	"query":          {"alpha beta"},
	"metric":         {"cosine"},
	"precision":      {"float16", "int8"},
	"text_language":  {"italian"},
	"direction":      {"in", "both"},
	"type":           {"refine"},
	"decay_model":    {"linear", "step"},
	"metadata_field": {"content", "author.name"},
	"relation_type":  {"next"},
}

// metacharacters of the little languages the server parses out of strings (filter
// operators and quotes, CONTAINS call syntax, "index::id" graph ids, dotted relation
// paths, durations / numbers), plus bytes that are classic trouble inside any parser
const c19Meta = "<>!='\"(),.:;*%\\/&|+-[]{}#?$^~` \t"

type c19DerivedStr struct{ Tag, S string }

// c19Derive returns the edits of the valid value v. full=false keeps the cheap subset
// (used for plain names where the hostile-name list already covers most of the alphabet).
func c19Derive(v string, full bool) []c19DerivedStr {
	var out []c19DerivedStr
	seen := map[string]bool{v: true}
	add := func(tag, s string) {
		if !seen[s] {
			seen[s] = true
			out = append(out, c19DerivedStr{tag, s})
		}
	}
	// truncation after every byte, and from the front
	for i := 1; i < len(v); i++ {
		add("str-truncated", v[:i])
	}
	for i := 1; i < len(v); i++ {
		add("str-suffix", v[i:])
	}
	// one byte missing
	for i := 0; i < len(v); i++ {
		add("str-byte-deleted", v[:i]+v[i+1:])
	}
	// a metacharacter after / before the valid value
	for _, c := range c19Meta {
		add("str-meta-appended", v+string(c))
		if full {
			add("str-meta-appended", v+" "+string(c))
			add("str-meta-prepended", string(c)+v)
		}
	}
	add("str-padded", "  \t"+v+" \n ")
	add("str-upper", strings.ToUpper(v))
	add("str-nul-inside", v[:len(v)/2]+"\x00"+v[len(v)/2:])
	add("str-newline-inside", v[:len(v)/2]+"\r\n"+v[len(v)/2:])
	add("str-multibyte-inside", v[:len(v)/2]+"é😀‮"+v[len(v)/2:])
	add("str-invalid-utf8-inside", v[:len(v)/2]+"\xff\xc0"+v[len(v)/2:])
	add("str-doubled", v+v)
	if !full {
		return out
	}
	// every metacharacter position of the value replaced by every other metacharacter of the value
	var pos []int
	own := map[byte]bool{}
	for i := 0; i < len(v); i++ {
		if strings.IndexByte(c19Meta, v[i]) >= 0 && v[i] != ' ' {
			pos = append(pos, i)
			own[v[i]] = true
		}
	}
	alts := []byte("<>!='\"(),")
	for _, i := range pos {
		for _, c := range alts {
			if c != v[i] {
				add("str-meta-substituted", v[:i]+string(c)+v[i+1:])
			}
		}
		add("str-meta-doubled", v[:i+1]+string(v[i])+v[i+1:])
		add("str-space-around-meta", v[:i]+" "+string(v[i])+" "+v[i+1:])
	}
	// token level
	toks := strings.Fields(v)
	if len(toks) > 1 {
		for i := range toks {
			var d []string
			d = append(d, toks[:i]...)
			d = append(d, toks[i+1:]...)
			add("str-token-dropped", strings.Join(d, " "))
			var u []string
			u = append(u, toks[:i+1]...)
			u = append(u, toks[i:]...)
			add("str-token-doubled", strings.Join(u, " "))
			if i+1 < len(toks) {
				s := append([]string(nil), toks...)
				s[i], s[i+1] = s[i+1], s[i]
				add("str-token-swapped", strings.Join(s, " "))
			}
			add("str-token-alone", toks[i])
		}
		add("str-no-spaces", strings.Join(toks, ""))
		add("str-many-spaces", strings.Join(toks, "   \t  "))
	}
	// connectives of the filter language around / between copies of the value
	for _, k := range []string{"AND", "OR", "and", "Or", "NOT", "CONTAINS"} {
		add("str-connective", v+" "+k)
		add("str-connective", k+" "+v)
		add("str-connective", v+" "+k+" "+k+" "+v)
		add("str-connective", v+" "+k+" "+v)
		add("str-connective", "("+v+") "+k+" ("+v+")")
	}
	add("str-connectives-only", "AND OR AND")
	add("str-connectives-only", " OR ")
	add("str-long-chain", strings.TrimSuffix(strings.Repeat(v+" AND ", 3000), " AND "))
	add("str-long-chain", strings.TrimSuffix(strings.Repeat(v+" OR ", 3000), " OR "))
	add("str-long-value", v+strings.Repeat("9", 100000))
	add("str-long-quoted", `'`+strings.Repeat(v, 2000))
	return out
}

// c19StrBases: the valid values of string field name on which edits are based.
func c19StrBases(name, tmplVal string) (bases []string, rich bool) {
	if r, ok := c19RichStr[name]; ok {
		return r, true
	}
	if tmplVal != "" {
		return []string{tmplVal}, false
	}
	return nil, false
}

// c19Words: vocabulary of the soups for field name.
func c19Words(name, tmplVal string) []string {
	set := map[string]bool{}
	split := func(s string) {
		cur := ""
		for i := 0; i < len(s); i++ {
			if strings.IndexByte(c19Meta, s[i]) >= 0 {
				if cur != "" {
					set[cur] = true
					cur = ""
				}
				continue
			}
			cur += string(s[i])
		}
		if cur != "" {
			set[cur] = true
		}
	}
	split(tmplVal)
	for _, s := range c19RichStr[name] {
		split(s)
	}
	for _, s := range []string{"tag", "n", "content", "labels", "author", "gone", "x", "alpha", "1", "-1", "1e309", "0x10", "NaN", "true", "null", "i0", "a", "AND", "OR", "and", "or", "NOT", "CONTAINS", "contains"} {
		set[s] = true
	}
	var out []string
	for w := range set {
		out = append(out, w)
	}
	sort.Strings(out)
	return out
}

var c19Ops = []string{"=", "!=", "<", "<=", ">", ">=", "==", "<>", "=<", "=>", "!", "'", `"`, "(", ")", ",", "::", ".", " ", " ", " ", "  "}

// c19Soup draws one token soup for the field.
func c19Soup(r *vkit.Rand, words []string) string {
	n := r.Range(1, 9)
	var b strings.Builder
	for i := 0; i < n; i++ {
		switch r.Intn(10) {
		case 0, 1, 2, 3:
			b.WriteString(vkit.Pick(r, words))
		case 4, 5, 6, 7:
			b.WriteString(vkit.Pick(r, c19Ops))
		case 8:
			b.WriteByte(c19Meta[r.Intn(len(c19Meta))])
		default:
			q := vkit.Pick(r, []string{"'", `"`})
			b.WriteString(q + vkit.Pick(r, words))
			if r.Chance(0.7) {
				b.WriteString(q)
			}
		}
		if r.Chance(0.5) {
			b.WriteByte(' ')
		}
	}
	return b.String()
}

// c19StrItems appends the interpreted-string family of one top-level or nested string
// field. set renders the body with the field replaced by the raw JSON string.
func c19StrItems(e *c19Env, r *c19Route, name, label, tmplRaw string, set func(raw string) []byte, add func(c19Item)) {
	tv := ""
	if len(tmplRaw) >= 2 && tmplRaw[0] == '"' {
		tv = strings.ReplaceAll(strings.ReplaceAll(tmplRaw[1:len(tmplRaw)-1], `\"`, `"`), `\\`, `\`)
	}
	bases, rich := c19StrBases(name, tv)
	for _, b := range bases {
		if rich && b != tv && c19SafeName(e, b) {
			add(c19Item{Kind: "str-valid-alternative", Field: label, Body: set(c19Str(b))})
		}
		for _, d := range c19Derive(b, rich) {
			if !c19SafeName(e, d.S) { // harness safety: the string may be used as a name
				continue
			}
			esc := (r.Creates || r.Drops) && name == "index_name" && c19EscapesData(e, d.S)
			add(c19Item{Kind: d.Tag, Field: label, Body: set(c19Str(d.S)), Escapes: esc})
		}
	}
}

// c19RandomStrItem: one soup in one string field of the route (nil when it has none).
func c19RandomStrItem(e *c19Env, r *c19Route, rnd *vkit.Rand) *c19Item {
	tmpl := c19Template(r)
	if tmpl == nil {
		return nil
	}
	var fs []c19Field
	for _, f := range r.Fields {
		if _, ok := tmpl.Vals[f.Name]; ok && f.Kind == "string" {
			fs = append(fs, f)
		}
	}
	if len(fs) == 0 {
		return nil
	}
	// fields with a little language of their own are drawn more often
	f := vkit.Pick(rnd, fs)
	for i := 0; i < 2; i++ {
		if _, ok := c19RichStr[f.Name]; ok {
			break
		}
		f = vkit.Pick(rnd, fs)
	}
	s := c19Soup(rnd, c19Words(f.Name, ""))
	if !c19SafeName(e, s) {
		return nil
	}
	it := &c19Item{Kind: "str-soup", Field: f.Name, Method: r.Method, Target: c19Target(r, nil, nil, ""), Body: []byte(tmpl.set(f.Name, c19Str(s)).raw())}
	it.Escapes = (r.Creates || r.Drops) && f.Name == "index_name" && c19EscapesData(e, s)
	return it
}

// c19ComboItem: two or three fields of the valid template mutated at once (drop, null, a
// value sample, a string edit / soup). Demands 4xx only when one of the values has the wrong
// JSON type for its field - the same demand the single mutation carries.
func c19ComboItem(e *c19Env, r *c19Route, rnd *vkit.Rand) *c19Item {
	tmpl := c19Template(r)
	if tmpl == nil {
		return nil
	}
	var fs []c19Field
	for _, f := range r.Fields {
		if _, ok := tmpl.Vals[f.Name]; ok {
			fs = append(fs, f)
		}
	}
	if len(fs) < 2 {
		return nil
	}
	k := min(len(fs), rnd.Range(2, 3))
	perm := rnd.Perm(len(fs))
	it := &c19Item{Kind: "combo", Method: r.Method, Target: c19Target(r, nil, nil, "")}
	o := tmpl
	var labels []string
	for _, pi := range perm[:k] {
		f := fs[pi]
		switch c := rnd.Intn(10); {
		case c < 2:
			o = o.drop(f.Name)
			labels = append(labels, f.Name+":drop")
		case c < 3:
			o = o.set(f.Name, "null")
			labels = append(labels, f.Name+":null")
		case c < 6 && f.Kind == "string":
			var s string
			if bases, rich := c19StrBases(f.Name, ""); len(bases) > 0 && rnd.Chance(0.5) {
				d := c19Derive(vkit.Pick(rnd, bases), rich)
				s = d[rnd.Intn(len(d))].S
				if len(s) > 4096 {
					s = s[:4096]
				}
			} else {
				s = c19Soup(rnd, c19Words(f.Name, ""))
			}
			if !c19SafeName(e, s) {
				return nil
			}
			if (r.Creates || r.Drops) && f.Name == "index_name" && c19EscapesData(e, s) {
				it.Escapes = true
			}
			o = o.set(f.Name, c19Str(s))
			labels = append(labels, f.Name+":str")
		case c < 7 && c19IsVecField(f):
			o = o.set(f.Name, vkit.Pick(rnd, []string{"[]", c19Vec(1), c19Vec(c19Dim + 1), c19Vec(3), `[0,0,0,0]`, `[1e-45,0,0,0]`}))
			labels = append(labels, f.Name+":vec")
		default:
			s := vkit.Pick(rnd, c19Samples)
			neg := strings.HasPrefix(s.Raw, "-") && s.Raw != "-0"
			if f.Name == "ef_search" && f.Kind == "number" && neg {
				it.NegEf = true
			}
			if f.Name == "refine_ef_construction" && f.Kind == "number" && neg {
				it.NegRefEf = true
			}
			if c19Wrong(f, s) && it.Want4xx == "" {
				it.Want4xx = fmt.Sprintf("field %q is declared %s and was sent a JSON %s", f.Name, c19Decl(f), c19SampleDecl(s))
			}
			o = o.set(f.Name, s.Raw)
			labels = append(labels, f.Name+":"+s.Tag)
		}
	}
	it.Field = strings.Join(labels, "+")
	it.Body = []byte(o.raw())
	return it
}

package server

// C19 — no HTTP request can crash the server, slip past limits or escape the data dir.
//
// Oracles (DESIGN.md, section C19): (1) the panic-recovery path is never taken (verifhook
// counter http.panic_recovered; secondary: error-level log record with a stack; child exit
// status is watched by the driver); (2) well-formed response; (3) body-reading routes answer
// non-JSON / wrong-typed bodies with 4xx; (4) a 4xx answer leaves the state digest
// unchanged; (5) requests over the published limits get 4xx and change nothing;
// (6) nothing outside the data directory is created, altered or deleted - after every
// request and after a final Close/Open of the engine.

import (
	"bytes"
	"encoding/json"
	"fmt"
	"io"
	"os"
	"os/exec"
	"path/filepath"
	"runtime"
	"sort"
	"strings"
	"testing"
	"time"

	"github.com/sanonone/kektordb/internal/zzverif/vexec"
	"github.com/sanonone/kektordb/internal/zzverif/vkit"
)

const (
	c19FindEscape   = "D-C19-1" // index names reach filepath.Join / RemoveAll unvalidated
	c19FindTrailing = "D-C19-2" // bytes after the first JSON value are ignored
	c19FindUTF8     = "D-C19-3" // request path that is not UTF-8 panics in the metrics middleware
	c19FindBatchDim = "D-C19-4" // the dimension limit is not applied to batch / import items
	c19FindNegEf    = "D-C19-5" // negative ef_search kills the process
	c19FindNegRefEf = "D-C19-6" // negative refine_ef_construction kills the process at the next vacuum
	c19FindInfJSON  = "D-C19-7" // float16 overflow is stored as Inf and answered with an empty 200
	c19Chunk        = 70
)

type c19PlanItem struct{ route, from, to int }

func c19DummyEnv() *c19Env {
	e := &c19Env{keep: "/c19tmp/n1"}
	e.base = e.keep + "/a/b/c"
	e.root = e.base + "/root"
	e.data = e.root + "/data"
	return e
}

func c19Setup(ctx *vkit.Ctx, report bool) *c19Src {
	src, err := c19ScanSource()
	if err != nil {
		ctx.Inconclusive("C19: cannot read the server source under " + c19RepoDir() + ": " + err.Error())
		return nil
	}
	if len(src.Routes) < 5 {
		ctx.Inconclusive(fmt.Sprintf("C19: only %d data-plane routes found in the handler registration source", len(src.Routes)))
		return nil
	}
	if ctx.Shard == 0 && report {
		body, typed := 0, 0
		for _, r := range src.Routes {
			if r.ReadsBody {
				body++
			}
			if r.BodyType != nil {
				typed++
			}
		}
		ctx.Count("routes.in_scope", int64(len(src.Routes)))
		ctx.Count("routes.reading_body", int64(body))
		ctx.Count("routes.with_reflected_type", int64(typed))
		var lim []string
		for _, k := range []string{"maxK", "maxBatchSize", "maxVectorDim", "defaultMaxBodySize"} {
			lim = append(lim, k+" from "+src.Limits.Source[k])
		}
		ctx.Sample("limits", 1, map[string]any{"k": src.Limits.MaxK, "batch": src.Limits.MaxBatch, "dimension": src.Limits.MaxDim, "body_bytes": src.Limits.MaxBody, "origin": lim})
		for _, n := range src.Notes {
			ctx.Sample("source-scan-note", 6, n)
		}
	}
	return src
}

func TestVerifC19(t *testing.T) {
	vkit.Run(t, "C19", func(ctx *vkit.Ctx) {
		src := c19Setup(ctx, true)
		if src == nil {
			return
		}
		if ctx.Quick() {
			ctx.Assume("quick tier omits the request with a body larger than the published body limit (512 MB); the thorough tier runs it in its own part under a memory limit")
		}
		c19Probes(ctx, src)
		thorough := !ctx.Quick()

		// ---- systematic: every route x every mutation, each against the seeded state
		dummy := c19DummyEnv()
		var plan []c19PlanItem
		counts := make([]int, len(src.Routes))
		for i, r := range src.Routes {
			n := len(c19Items(dummy, r, src.Limits, thorough))
			counts[i] = n
			for from := 0; from < n; from += c19Chunk {
				plan = append(plan, c19PlanItem{i, from, min(from+c19Chunk, n)})
			}
		}
		ctx.Group("systematic", len(plan), func(cs *vkit.Case) {
			pi := plan[cs.Idx]
			r := src.Routes[pi.route]
			e := c19NewEnv(ctx, cs)
			defer e.abandon()
			items := c19Items(e, r, src.Limits, thorough)
			if len(items) != counts[pi.route] {
				panic(fmt.Sprintf("C19 harness: item list of %s is not deterministic (%d vs %d)", r.Key(), len(items), counts[pi.route]))
			}
			for i := pi.from; i < pi.to; i++ {
				it := &items[i]
				if c19Guarded(ctx, it, false) {
					continue
				}
				if e.dirty {
					e.retire("state diverged from the seed")
					e.fresh()
				}
				it.Seeded = true
				resp := e.do(r, it)
				c19Account(ctx, r, it, resp)
				if it.Hostile && (r.Creates || r.Drops) {
					e.retire("hostile name sent to a route that creates or drops an index")
					e.fresh()
				}
			}
			e.retire("end of case")
		})

		// ---- stateful: hostile index names through a whole index life cycle
		names := c19Hostile(dummy)
		ctx.Group("lifecycle", 2*len(names), func(cs *vkit.Case) {
			e := c19NewEnv(ctx, cs)
			defer e.abandon()
			real := c19Hostile(e)
			if cs.Idx/2 >= len(real) {
				return
			}
			name := real[cs.Idx/2]
			c19Lifecycle(ctx, e, src, name, cs.Idx%2 == 0)
			e.retire("end of case")
		})

		// ---- random: sequences over all routes with accumulating state
		ctx.Group("random", ctx.N(40, 2400), func(cs *vkit.Case) {
			e := c19NewEnv(ctx, cs)
			defer e.abandon()
			cache := map[int][]c19Item{}
			n := cs.R.Range(40, ctx.N(80, 160))
			for step := 0; step < n; step++ {
				ri := cs.R.Intn(len(src.Routes))
				r := src.Routes[ri]
				if _, ok := cache[ri]; !ok {
					cache[ri] = c19Items(e, r, src.Limits, false)
				}
				items := cache[ri]
				it := items[cs.R.Intn(len(items))]
				switch c := cs.R.Intn(100); {
				case c < 25:
					it = items[0] // the valid template: keeps the state moving
				case c < 40: // a token soup in one string field
					if x := c19RandomStrItem(e, r, cs.R); x != nil {
						it = *x
						it.BadUTF8 = c19BadUTF8Path(it.Target)
					}
				case c < 55: // two or three fields mutated at once
					if x := c19ComboItem(e, r, cs.R); x != nil {
						it = *x
						it.BadUTF8 = c19BadUTF8Path(it.Target)
					}
				}
				if it.Stream != nil && !cs.R.Chance(0.05) {
					continue
				}
				if len(it.Body) > 150000 && !cs.R.Chance(0.1) {
					continue
				}
				if c19Guarded(ctx, &it, true) {
					continue
				}
				resp := e.do(r, &it)
				c19Account(ctx, r, &it, resp)
				if cs.R.Chance(0.02) {
					e.restart()
				}
			}
			e.retire("end of case")
		})
	})
}

// c19Guarded applies the narrow generator guards of the recorded findings.
func c19Guarded(ctx *vkit.Ctx, it *c19Item, stateful bool) bool {
	// triggers that need a later request to fire are only avoided where state accumulates
	if stateful && it.NegRefEf && ctx.IsKnown(c19FindNegRefEf) {
		ctx.Count("guard_skipped."+c19FindNegRefEf, 1)
		return true
	}
	if stateful && it.HugeVec && ctx.IsKnown(c19FindInfJSON) {
		ctx.Count("guard_skipped."+c19FindInfJSON, 1)
		return true
	}
	if it.Escapes && ctx.IsKnown(c19FindEscape) {
		ctx.Count("guard_skipped."+c19FindEscape, 1)
		return true
	}
	if it.BadUTF8 && ctx.IsKnown(c19FindUTF8) {
		ctx.Count("guard_skipped."+c19FindUTF8, 1)
		return true
	}
	if it.BatchDim && ctx.IsKnown(c19FindBatchDim) {
		ctx.Count("guard_skipped."+c19FindBatchDim, 1)
		return true
	}
	if it.NegEf && ctx.IsKnown(c19FindNegEf) {
		ctx.Count("guard_skipped."+c19FindNegEf, 1)
		return true
	}
	if it.Trailing && ctx.IsKnown(c19FindTrailing) {
		ctx.Count("guard_skipped."+c19FindTrailing, 1)
		return true
	}
	return false
}

func c19Account(ctx *vkit.Ctx, r *c19Route, it *c19Item, resp *c19Resp) {
	if resp.Rejected != "" {
		return
	}
	if it.Base {
		if it.Seeded { // sent against the seeded state: tells whether the template is a valid request
			if resp.Code/100 == 2 {
				ctx.Count("templates_accepted_on_seeded_state", 1)
			} else {
				ctx.Count("templates_not_accepted_on_seeded_state", 1)
				ctx.Sample("template-not-2xx", 8, fmt.Sprintf("%s -> %d %s", r.Key(), resp.Code, c19Short(resp.Body)))
			}
		}
		return
	}
	// distinct, non-trivial = a mutated / hostile request that reached the handler chain,
	// keyed by (route, mutation family, status)
	ctx.Distinct(fmt.Sprintf("%s|%s|%d", r.Key(), it.Kind, resp.Code))
	if it.Want4xx != "" || it.Hostile {
		ctx.Sample("request", 3, fmt.Sprintf("%s -> %d", it.describe(), resp.Code))
	}
}

func (e *c19Env) abandon() {
	if e.eng != nil {
		if e.srv != nil {
			e.srv.taskManager.StopCleanup()
		}
		e.eng.Close()
		e.eng = nil
	}
}

// restart closes and reopens the engine in place (random group) and re-checks confinement.
func (e *c19Env) restart() {
	e.cs.Op("-- Close/Open in place")
	e.settle()
	e.srv.taskManager.StopCleanup()
	e.eng.Close()
	e.eng = nil
	eng, err := e.open()
	if err != nil {
		e.ctx.Count("reopen_failed", 1)
		e.ctx.Sample("reopen-failed", 3, fmt.Sprintf("%v after: %s", err, strings.Join(e.cs.Ops()[max(0, len(e.cs.Ops())-4):], " ;; ")))
		e.checkManifest("after Close/Open of the engine")
		// continue on a fresh instance
		os.RemoveAll(e.keep)
		e.fresh()
		return
	}
	e.eng = eng
	e.serve()
	e.settle()
	e.checkManifest("after Close/Open of the engine")
	e.cur = vexec.Observe(e.eng, e.uni)
	e.curKey = c19ObsKey(e.cur)
	e.ctx.Count("restarts_in_place", 1)
}

// ---- life cycle of one hostile index name ---------------------------------------------

func c19Find(src *c19Src, pred func(r *c19Route) bool) *c19Route {
	for _, r := range src.Routes {
		if pred(r) {
			return r
		}
	}
	return nil
}

func c19Lifecycle(ctx *vkit.Ctx, e *c19Env, src *c19Src, name string, dropBeforeRestart bool) {
	esc := c19EscapesData(e, name)
	if esc && ctx.IsKnown(c19FindEscape) {
		ctx.Count("guard_skipped."+c19FindEscape, 1)
		return
	}
	suffix := func(s string) func(*c19Route) bool {
		return func(r *c19Route) bool { return r.Method == "POST" && strings.HasSuffix(r.Pattern, s) }
	}
	step := func(r *c19Route, kind string, o *c19Obj, vals map[string]string) *c19Resp {
		if r == nil {
			ctx.Count("lifecycle_step_without_route."+kind, 1)
			return nil
		}
		it := &c19Item{Kind: "lifecycle-" + kind, Field: "index", Method: r.Method, Target: c19Target(r, vals, nil, ""), Hostile: true}
		if o != nil {
			it.Body = []byte(o.raw())
		}
		it.BadUTF8 = c19BadUTF8Path(it.Target)
		if c19Guarded(ctx, it, true) {
			return nil
		}
		resp := e.do(r, it)
		c19Account(ctx, r, it, resp)
		return resp
	}
	with := func(r *c19Route) *c19Obj {
		if r == nil {
			return nil
		}
		t := c19Template(r)
		if t == nil {
			return nil
		}
		if _, ok := t.Vals["index_name"]; ok {
			t = t.set("index_name", c19Str(name))
		}
		return t
	}
	create := c19Find(src, func(r *c19Route) bool { return r.Creates && r.ReadsBody })
	step(create, "create", with(create), nil)
	add := c19Find(src, suffix("/actions/add"))
	for i := 0; i < 3 && add != nil; i++ {
		step(add, "add", with(add).set("id", fmt.Sprintf(`"lc%d"`, i)), nil)
	}
	if r := c19Find(src, suffix("/actions/add-batch")); r != nil {
		step(r, "add-batch", with(r), nil)
	}
	if r := c19Find(src, suffix("/actions/search")); r != nil {
		step(r, "search", with(r), nil)
	}
	if r := c19Find(src, func(r *c19Route) bool {
		return r.Method == "GET" && len(r.Params) == 1 && r.Params[0] == "name" && strings.HasSuffix(r.Pattern, "/{name}") && strings.HasPrefix(r.Pattern, "/vector/")
	}); r != nil {
		step(r, "info", nil, map[string]string{"name": name})
	}
	if r := c19Find(src, suffix("/system/save")); r != nil {
		step(r, "save", nil, nil)
	}
	if r := c19Find(src, suffix("/actions/compress")); r != nil {
		step(r, "compress", with(r).set("precision", `"int8"`), nil)
	}
	if r := c19Find(src, suffix("/system/aof-rewrite")); r != nil {
		step(r, "aof-rewrite", nil, nil)
	}
	if r := c19Find(src, suffix("/maintenance")); r != nil {
		step(r, "maintenance", c19Template(r), map[string]string{"name": name})
	}
	if !dropBeforeRestart {
		e.restart()
	}
	drop := c19Find(src, func(r *c19Route) bool { return r.Drops })
	step(drop, "drop", nil, map[string]string{"name": name})
	if create != nil && dropBeforeRestart {
		step(create, "re-create", with(create), nil)
	}
}

// ---- probes of the recorded findings ----------------------------------------------------

func c19Probes(ctx *vkit.Ctx, src *c19Src) {
	drop := c19Find(src, func(r *c19Route) bool { return r.Drops })
	create := c19Find(src, func(r *c19Route) bool { return r.Creates && r.ReadsBody })
	add := c19Find(src, func(r *c19Route) bool { return r.Method == "POST" && strings.HasSuffix(r.Pattern, "/actions/add") })
	kvset := c19Find(src, func(r *c19Route) bool { return r.Method == "POST" && strings.HasPrefix(r.Pattern, "/kv/") })

	// D-C19-1: an index name is joined to <data>/arenas unvalidated.
	ctx.Probe(c19FindEscape, func(cs *vkit.Case) string {
		if drop == nil || create == nil || add == nil {
			return ""
		}
		var failed []string
		scenario := func(title string, run func(e *c19Env)) {
			e := c19NewEnv(ctx, cs)
			defer e.abandon()
			run(e)
			e.settle()
			live := c19ManifestDiff(e.manifest, c19Manifest(e.keep, e.data))
			e.srv.taskManager.StopCleanup()
			e.eng.Close()
			e.eng = nil
			if eng, err := e.open(); err == nil {
				e.eng = eng
				e.settle()
				eng.Close()
				e.eng = nil
			}
			after := c19ManifestDiff(e.manifest, c19Manifest(e.keep, e.data))
			switch {
			case len(live) > 0:
				failed = append(failed, fmt.Sprintf("%s => outside the data directory, while the server was running: %s", title, strings.Join(live, "; ")))
			case len(after) > 0:
				failed = append(failed, fmt.Sprintf("%s => outside the data directory, after the next Close/Open: %s", title, strings.Join(after, "; ")))
			}
			os.RemoveAll(e.keep)
		}
		raw := func(e *c19Env, r *c19Route, method, target, body string) int {
			it := &c19Item{Kind: "probe", Method: method, Target: target}
			if body != "" {
				it.Body = []byte(body)
			}
			cs.Op("%s", it.describe())
			resp := e.send(it)
			e.settle()
			return resp.Code
		}
		scenario(`(a) DELETE /vector/indexes/..%2F..%2Fsentinel (no such index)`, func(e *c19Env) {
			raw(e, drop, "DELETE", c19Target(drop, map[string]string{"name": "../../sentinel"}, nil, ""), "")
		})
		scenario(`(b) create {"index_name":"../../escaped"} then add one vector to it`, func(e *c19Env) {
			raw(e, create, "POST", c19Target(create, nil, nil, ""), `{"index_name":"../../escaped"}`)
			raw(e, add, "POST", c19Target(add, nil, nil, ""), `{"index_name":"../../escaped","id":"v","vector":[1,2,3,4]}`)
		})
		scenario(`(c) create {"index_name":"../../sentinel"} then DELETE /vector/indexes/..%2F..%2Fsentinel`, func(e *c19Env) {
			raw(e, create, "POST", c19Target(create, nil, nil, ""), `{"index_name":"../../sentinel"}`)
			raw(e, drop, "DELETE", c19Target(drop, map[string]string{"name": "../../sentinel"}, nil, ""), "")
		})
		return strings.Join(failed, " || ")
	})

	// D-C19-4: the published dimension limit is enforced for single adds only.
	ctx.Probe(c19FindBatchDim, func(cs *vkit.Case) string {
		var out []string
		for _, r := range src.Routes {
			var bf *c19Field
			for i := range r.Fields {
				if c19IsBatchField(r.Fields[i]) {
					bf = &r.Fields[i]
				}
			}
			if bf == nil || create == nil {
				continue
			}
			e := c19NewEnv(ctx, cs)
			it := &c19Item{Kind: "probe", Method: "POST", Target: c19Target(create, nil, nil, ""), Body: []byte(`{"index_name":"inew"}`)}
			cs.Op("%s", it.describe())
			e.send(it)
			dim := int(src.Limits.MaxDim) + 1
			body := c19Template(r).set("index_name", `"inew"`).set(bf.Name, fmt.Sprintf(`[{"id":"big","vector":%s}]`, c19Vec(dim)))
			it = &c19Item{Kind: "probe", Method: r.Method, Target: c19Target(r, nil, nil, ""), Body: []byte(body.raw())}
			cs.Op("%s", it.describe())
			resp := e.send(it)
			stored := 0
			if d, err := e.eng.VGet("inew", "big"); err == nil {
				stored = len(d.Vector)
			}
			if !(resp.Code >= 400 && resp.Code < 500) {
				out = append(out, fmt.Sprintf("%s with one item whose vector has %d components (limit %d) on the empty index inew was answered %d, expected 4xx; dimension of the vector stored under id big afterwards: %d", r.Key(), dim, src.Limits.MaxDim, resp.Code, stored))
			}
			e.abandon()
			os.RemoveAll(e.keep)
		}
		return strings.Join(out, " || ")
	})

	// D-C19-5: a negative ef_search panics in a goroutine the recovery middleware does not
	// cover; the scenario runs in a subprocess because it kills the process.
	ctx.Probe(c19FindNegEf, func(cs *vkit.Case) string {
		search := c19Find(src, func(r *c19Route) bool { return r.Method == "POST" && strings.HasSuffix(r.Pattern, "/actions/search") })
		if search == nil {
			return ""
		}
		body := `{"index_name":"i0","k":3,"query_vector":[0.1,0.2,0.3,0.4],"ef_search":-1}`
		code, outp := c19Subprocess(cs, [3]string{"POST", c19Target(search, nil, nil, ""), body})
		if code == 0 {
			return ""
		}
		return fmt.Sprintf("POST %s %s: the server process died (exit status %d): %s", search.Pattern, body, code, c19CrashHead(outp))
	})

	// D-C19-6: a negative refine_ef_construction is accepted and the next vacuum dies.
	ctx.Probe(c19FindNegRefEf, func(cs *vkit.Case) string {
		cfg := c19Find(src, func(r *c19Route) bool { return r.Method == "POST" && strings.HasSuffix(r.Pattern, "/{name}/config") })
		maint := c19Find(src, func(r *c19Route) bool {
			return r.Method == "POST" && strings.HasSuffix(r.Pattern, "/{name}/maintenance")
		})
		del := c19Find(src, func(r *c19Route) bool { return r.Method == "POST" && strings.HasSuffix(r.Pattern, "/delete_vector") })
		if cfg == nil || maint == nil || del == nil {
			return ""
		}
		script := [][3]string{
			{"POST", c19Target(cfg, nil, nil, ""), `{"refine_ef_construction":-1}`},
			{"POST", c19Target(del, nil, nil, ""), `{"index_name":"i0","id":"d"}`},
			{"POST", c19Target(maint, nil, nil, ""), `{"type":"vacuum"}`},
		}
		code, outp := c19Subprocess(cs, script...)
		if code == 0 {
			return ""
		}
		var accepted []string
		for _, l := range strings.Split(outp, "\n") {
			if strings.HasPrefix(l, "HELPER ") {
				accepted = append(accepted, strings.TrimPrefix(l, "HELPER "))
			}
		}
		return fmt.Sprintf(`POST /vector/indexes/i0/config {"refine_ef_construction":-1}, delete_vector d, maintenance vacuum [%s]: the server process died (exit status %d): %s`, strings.Join(accepted, "; "), code, c19CrashHead(outp))
	})

	// D-C19-7: a component beyond the float16 range is stored as +Inf; reads answer 200 with
	// Content-Type application/json and no body.
	ctx.Probe(c19FindInfJSON, func(cs *vkit.Case) string {
		getv := c19Find(src, func(r *c19Route) bool { return r.Method == "GET" && strings.HasSuffix(r.Pattern, "/vectors/{id}") })
		if create == nil || add == nil || getv == nil {
			return ""
		}
		e := c19NewEnv(ctx, cs)
		defer e.abandon()
		var out string
		for _, st := range [][3]string{
			{"POST", c19Target(create, nil, nil, ""), `{"index_name":"h","precision":"float16"}`},
			{"POST", c19Target(add, nil, nil, ""), `{"index_name":"h","id":"big","vector":[70000,1,1,1]}`},
			{"GET", c19Target(getv, map[string]string{"name": "h", "id": "big"}, nil, ""), ""},
		} {
			it := &c19Item{Kind: "probe", Method: st[0], Target: st[1]}
			if st[2] != "" {
				it.Body = []byte(st[2])
			}
			cs.Op("%s", it.describe())
			resp := e.send(it)
			ct := resp.Header.Get("Content-Type")
			if strings.HasPrefix(ct, "application/json") && resp.Code != 204 && !json.Valid(bytes.TrimSpace(resp.Body)) {
				out = fmt.Sprintf(`create {"index_name":"h","precision":"float16"}; add {"index_name":"h","id":"big","vector":[70000,1,1,1]} (accepted); then %s %s answers %d with Content-Type %q and body %s - not a JSON value`, st[0], st[1], resp.Code, ct, c19Short(resp.Body))
			}
		}
		os.RemoveAll(e.keep)
		return out
	})

	// D-C19-3: a path that is not UTF-8 panics in the metrics middleware.
	ctx.Probe(c19FindUTF8, func(cs *vkit.Case) string {
		kvget := c19Find(src, func(r *c19Route) bool { return r.Method == "GET" && strings.HasPrefix(r.Pattern, "/kv/") })
		if kvget == nil {
			return ""
		}
		e := c19NewEnv(ctx, cs)
		defer e.abandon()
		it := &c19Item{Kind: "probe", Method: "GET", Target: c19Target(kvget, map[string]string{"key": "\xff\xfe"}, nil, "")}
		cs.Op("%s", it.describe())
		h0 := c19PanicHits()
		resp := e.send(it)
		os.RemoveAll(e.keep)
		if d := c19PanicHits() - h0; d != 0 {
			c19PanicMu.Lock()
			last := strings.SplitN(c19PanicLast, "\n", 2)[0]
			c19PanicMu.Unlock()
			return fmt.Sprintf("GET %s was answered through the panic-recovery path (%s); status %d, body %s", it.Target, last, resp.Code, c19Short(resp.Body))
		}
		return ""
	})

	// D-C19-2: a body that is a JSON value followed by garbage is accepted.
	ctx.Probe(c19FindTrailing, func(cs *vkit.Case) string {
		if kvset == nil {
			return ""
		}
		e := c19NewEnv(ctx, cs)
		defer e.abandon()
		it := &c19Item{Kind: "probe", Method: "POST", Target: c19Target(kvset, map[string]string{"key": "k0"}, nil, ""), Body: []byte(`{"value":"changed"} trailing garbage`)}
		cs.Op("%s", it.describe())
		resp := e.send(it)
		v, _ := e.eng.KVGet("k0")
		var out []string
		if !(resp.Code >= 400 && resp.Code < 500) {
			out = append(out, fmt.Sprintf(`POST /kv/k0 with body {"value":"changed"} trailing garbage (not JSON) was answered %d, expected 4xx; value of k0 afterwards: %q`, resp.Code, v))
		}
		// how widespread: every body-reading route, same garbage after its valid template
		var accepted []string
		for _, r := range src.Routes {
			t := c19Template(r)
			if t == nil || r == kvset {
				continue
			}
			if e.dirty {
				e.abandon()
				os.RemoveAll(e.keep)
				e.fresh()
			}
			it := &c19Item{Kind: "probe", Method: r.Method, Target: c19Target(r, nil, nil, ""), Body: []byte(t.raw() + " trailing garbage")}
			cs.Op("%s", it.describe())
			resp := e.send(it)
			e.settle()
			e.cur = vexec.Observe(e.eng, e.uni)
			e.dirty = c19ObsKey(e.cur) != e.seedKey
			if resp.Rejected == "" && !(resp.Code >= 400 && resp.Code < 500) {
				accepted = append(accepted, fmt.Sprintf("%s=%d", r.Key(), resp.Code))
			}
		}
		if len(accepted) > 0 {
			sort.Strings(accepted)
			out = append(out, fmt.Sprintf("%d further body-reading routes answer the same kind of body without a 4xx: %s", len(accepted), strings.Join(accepted, ", ")))
		}
		os.RemoveAll(e.keep)
		return strings.Join(out, " || ")
	})
}

// ---- process-fatal scenarios run in a subprocess ---------------------------------------

// c19Subprocess re-executes this test binary so that one request is served by a server in
// another process; returns that process's exit status and output.
func c19Subprocess(cs *vkit.Case, script ...[3]string) (int, string) {
	dir := cs.SubDir("subprocess")
	js, _ := json.Marshal(script)
	cmd := exec.Command(os.Args[0], "-test.run", "^TestVerifC19Helper$", "-test.count=1", "-test.timeout=120s")
	cmd.Env = append(os.Environ(), "C19_HELPER=1", "C19_HELPER_SCRIPT="+string(js),
		"VERIF_OUT="+filepath.Join(dir, "out"), "VERIF_TMP="+dir, "VERIF_SHARD=", "VERIF_CASE=", "VERIF_TIER=quick")
	cs.Op("subprocess: %s", js)
	out, err := cmd.CombinedOutput()
	code := 0
	if err != nil {
		code = -1
		if ee, ok := err.(*exec.ExitError); ok {
			code = ee.ExitCode()
		}
	}
	return code, string(out)
}

func c19CrashHead(out string) string {
	lines := strings.Split(out, "\n")
	for i, l := range lines {
		if strings.HasPrefix(l, "panic:") || strings.HasPrefix(l, "fatal error:") {
			var keep []string
			for _, x := range lines[i:min(len(lines), i+12)] {
				if x = strings.TrimSpace(x); x != "" && !strings.HasPrefix(x, "goroutine ") {
					keep = append(keep, x)
				}
			}
			return strings.Join(keep[:min(len(keep), 5)], " | ")
		}
	}
	if len(out) > 400 {
		out = out[len(out)-400:]
	}
	return out
}

// TestVerifC19Helper serves exactly one request in this process (see c19Subprocess).
func TestVerifC19Helper(t *testing.T) {
	if os.Getenv("C19_HELPER") == "" {
		t.Skip("helper of TestVerifC19")
	}
	vkit.Run(t, "C19", func(ctx *vkit.Ctx) {
		ctx.RunCase("helper", 0, func(cs *vkit.Case) {
			e := c19NewEnv(ctx, cs)
			var script [][3]string
			json.Unmarshal([]byte(os.Getenv("C19_HELPER_SCRIPT")), &script)
			for _, st := range script {
				it := &c19Item{Kind: "helper", Method: st[0], Target: st[1]}
				if st[2] != "" {
					it.Body = []byte(st[2])
				}
				g0 := runtime.NumGoroutine()
				resp := e.send(it)
				e.settleTo(g0)
				fmt.Printf("HELPER %s %s -> %d\n", st[0], st[1], resp.Code)
			}
			time.Sleep(50 * time.Millisecond)
			fmt.Printf("HELPER-SURVIVED\n")
			e.abandon()
		})
	})
}

// ---- body larger than the published body limit (thorough tier, own part) ----------------

func TestVerifC19BigBody(t *testing.T) {
	vkit.Run(t, "C19", func(ctx *vkit.Ctx) {
		src := c19Setup(ctx, false)
		if src == nil {
			return
		}
		var routes []*c19Route
		if r := c19Find(src, func(r *c19Route) bool {
			return r.Method == "POST" && strings.HasPrefix(r.Pattern, "/kv/") && r.ReadsBody
		}); r != nil {
			routes = append(routes, r)
		}
		if r := c19Find(src, func(r *c19Route) bool {
			return r.Method == "POST" && strings.HasSuffix(r.Pattern, "/actions/add") && r.ReadsBody
		}); r != nil {
			routes = append(routes, r)
		}
		if len(routes) == 0 {
			ctx.Inconclusive("C19 bigbody: no body-reading KV or add route in the source")
			return
		}
		// each route twice: with the length declared, and as a chunked body of unknown length
		ctx.Group("bigbody", 2*len(routes), func(cs *vkit.Case) {
			r := routes[cs.Idx%len(routes)]
			chunked := cs.Idx >= len(routes)
			e := c19NewEnv(ctx, cs)
			defer e.abandon()
			total := src.Limits.MaxBody + 4096
			var pre, fill, post string
			if strings.HasPrefix(r.Pattern, "/kv/") {
				pre, fill, post = `{"value":"`, "v", `"}`
			} else {
				pre, fill, post = `{"index_name":"i0","id":"big","vector":[`, "0,", `0]}`
			}
			kind := "limit-body-over"
			if chunked {
				kind = "limit-body-over-chunked"
			}
			it := &c19Item{Kind: kind, Chunked: chunked, Field: "body", Method: r.Method, Target: c19Target(r, nil, nil, ""),
				Want4xx: fmt.Sprintf("the body has %d bytes, more than the published limit of %d", total, src.Limits.MaxBody),
				Stream: func() (io.Reader, int64) {
					n := total - int64(len(pre)+len(post))
					n -= n % int64(len(fill))
					return io.MultiReader(strings.NewReader(pre), &c19Repeat{unit: fill, left: n, ctx: ctx}, strings.NewReader(post)), int64(len(pre)+len(post)) + n
				}}
			resp := e.do(r, it)
			c19Account(ctx, r, it, resp)
			ctx.Distinct(fmt.Sprintf("%s|bigbody|%d|%v", r.Key(), resp.Code, chunked))
			ctx.Distinct(fmt.Sprintf("%s|bigbody-followup|%v", r.Key(), chunked))
			// the server keeps working afterwards
			base := &c19Item{Kind: "baseline", Base: true, Method: r.Method, Target: c19Target(r, nil, nil, ""), Body: []byte(c19Template(r).raw())}
			resp = e.do(r, base)
			c19Account(ctx, r, base, resp)
			ctx.Count("peak_rss_mb", c19PeakRSSMB())
			e.retire("end of case")
		})
	})
}

type c19Repeat struct {
	unit string
	left int64
	ctx  *vkit.Ctx
	n    int
}

func (r *c19Repeat) Read(p []byte) (int, error) {
	if r.left <= 0 {
		return 0, io.EOF
	}
	n := 0
	for n+len(r.unit) <= len(p) && r.left > 0 {
		n += copy(p[n:], r.unit)
		r.left -= int64(len(r.unit))
	}
	if n == 0 { // buffer smaller than one unit
		n = copy(p, r.unit[:len(p)])
		r.left -= int64(n)
	}
	if r.n++; r.n%4096 == 0 {
		r.ctx.Touch()
	}
	return n, nil
}

func c19PeakRSSMB() int64 {
	b, err := os.ReadFile("/proc/self/status")
	if err != nil {
		return 0
	}
	for _, l := range strings.Split(string(b), "\n") {
		if strings.HasPrefix(l, "VmHWM:") {
			var kb int64
			fmt.Sscanf(strings.TrimSpace(strings.TrimPrefix(l, "VmHWM:")), "%d", &kb)
			return kb / 1024
		}
	}
	return 0
}

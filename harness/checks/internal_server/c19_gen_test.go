package server

// C19 — request generation: valid templates by reflection over the decoded request types,
// and the mutation families of the property's quantifier.

import (
	"bytes"
	"encoding/json"
	"fmt"
	"io"
	"net/url"
	"path/filepath"
	"reflect"
	"strings"
	"unicode/utf8"
)

// c19Item is one request of the workload together with what the property demands of it.
type c19Item struct {
	Kind     string // mutation family (evidence / distinctness)
	Field    string // field or path parameter the mutation touches ("" = whole request)
	Method   string
	Target   string // request-target as written on the wire
	Body     []byte // nil = no body
	Stream   func() (io.Reader, int64)
	Chunked  bool   // the body arrives without a declared length (Transfer-Encoding: chunked)
	Want4xx  string // non-empty: the property demands a 4xx answer; text says why
	Hostile  bool   // carries a hostile name
	Escapes  bool   // index name whose arena path would leave the data directory (finding D-C19-1 trigger)
	Trailing bool   // valid JSON value followed by garbage (finding D-C19-2 trigger)
	BadUTF8  bool   // request path that is not valid UTF-8 once percent-decoded (finding D-C19-3 trigger)
	BatchDim bool   // batch item with a vector above the dimension limit (finding D-C19-4 trigger)
	NegEf    bool   // negative ef_search (finding D-C19-5 trigger)
	NegRefEf bool   // negative refine_ef_construction (finding D-C19-6 trigger, needs a later vacuum)
	HugeVec  bool   // vector component beyond the float16 range (finding D-C19-7 trigger, needs float16 storage)
	Base     bool   // unmutated template
	Seeded   bool   // sent against the seeded state (systematic group)
}

// ordered JSON object with raw values
type c19Obj struct {
	Keys []string
	Vals map[string]string
}

func (o *c19Obj) clone() *c19Obj {
	n := &c19Obj{Keys: append([]string(nil), o.Keys...), Vals: map[string]string{}}
	for k, v := range o.Vals {
		n.Vals[k] = v
	}
	return n
}
func (o *c19Obj) set(k, raw string) *c19Obj {
	n := o.clone()
	if _, ok := n.Vals[k]; !ok {
		n.Keys = append(n.Keys, k)
	}
	n.Vals[k] = raw
	return n
}
func (o *c19Obj) drop(k string) *c19Obj {
	n := o.clone()
	delete(n.Vals, k)
	var ks []string
	for _, x := range n.Keys {
		if x != k {
			ks = append(ks, x)
		}
	}
	n.Keys = ks
	return n
}
func (o *c19Obj) raw() string {
	var b strings.Builder
	b.WriteByte('{')
	for i, k := range o.Keys {
		if i > 0 {
			b.WriteByte(',')
		}
		b.WriteString(c19Str(k))
		b.WriteByte(':')
		b.WriteString(o.Vals[k])
	}
	b.WriteByte('}')
	return b.String()
}

func c19Str(s string) string {
	// manual encoder: keeps every byte (json.Marshal would replace invalid UTF-8)
	var b strings.Builder
	b.WriteByte('"')
	for _, r := range []byte(s) {
		switch {
		case r == '"':
			b.WriteString(`\"`)
		case r == '\\':
			b.WriteString(`\\`)
		case r < 0x20:
			fmt.Fprintf(&b, `\u%04x`, r)
		default:
			b.WriteByte(r)
		}
	}
	b.WriteByte('"')
	return b.String()
}

func c19Vec(n int) string {
	var b strings.Builder
	b.WriteByte('[')
	for i := 0; i < n; i++ {
		if i > 0 {
			b.WriteByte(',')
		}
		fmt.Fprintf(&b, "0.%d", (i%9)+1)
	}
	b.WriteByte(']')
	return b.String()
}

// ---------------------------------------------------------------------------------------
// templates

const (
	c19Idx0 = "i0" // euclidean float32, dimension 4
	c19Idx1 = "i1" // cosine float32 english, dimension 3
	c19Dim  = 4

	c19IdxEmpty   = "ie" // created, never written to
	c19IdxDeleted = "id" // two vectors added and deleted again
	c19IdxHalf    = "ih" // euclidean float16, dimension 4
)

var c19IdxVariants = []string{c19IdxEmpty, c19IdxDeleted, c19IdxHalf, c19Idx1}

var c19Methods = []string{"GET", "HEAD", "POST", "PUT", "PATCH", "DELETE", "OPTIONS", "TRACE", "CONNECT", "get", "QUERY"}

var c19StrHints = map[string]string{
	"index_name": c19Idx0, "source_index": c19Idx0, "target_index": c19Idx1,
	"id": "a", "source_id": "a", "target_id": "b", "node_id": "a", "root_id": "a", "old_id": "c",
	"memory_id": "a", "discard_id": "", "metric": "euclidean", "precision": "float32",
	"text_language": "english", "decay_model": "exponential", "type": "vacuum", "direction": "out",
	"relation_type": "rel", "inverse_relation_type": "inv", "filter": "tag='x'", "property_filter": "tag='x'",
	"query_text": "", "query": "", "new_content": "", "value": "v", "reason": "because",
	"resolution": "done", "metadata_field": "tag",
}

var c19NumHints = map[string]string{
	"k": "3", "limit": "3", "max_depth": "2", "m": "8", "ef_construction": "50", "ef_search": "20",
	"refine_batch_size": "10", "refine_ef_construction": "20", "delete_threshold": "0.1", "weight": "1",
	"alpha": "0.5", "semantic_threshold": "0.5", "at_time": "0",
}

var c19ListHints = map[string]string{
	"ids": `["a","b"]`, "relations": `["rel"]`, "include_relations": `["rel"]`, "paths": `["rel"]`,
}

var c19Marshaler = reflect.TypeOf((*json.Marshaler)(nil)).Elem()

// c19RawFor renders a valid JSON value for a field of type t named name.
func c19RawFor(t reflect.Type, name string, depth int) string {
	if t.Implements(c19Marshaler) || t.Implements(c19Unmarshaler) || reflect.PointerTo(t).Implements(c19Unmarshaler) {
		b, err := json.Marshal(reflect.Zero(t).Interface())
		if err == nil {
			return string(b)
		}
		return "null"
	}
	switch t.Kind() {
	case reflect.Pointer:
		return c19RawFor(t.Elem(), name, depth)
	case reflect.String:
		if v, ok := c19StrHints[name]; ok {
			return c19Str(v)
		}
		return `"s"`
	case reflect.Bool:
		return "false"
	case reflect.Int, reflect.Int8, reflect.Int16, reflect.Int32, reflect.Int64,
		reflect.Uint, reflect.Uint8, reflect.Uint16, reflect.Uint32, reflect.Uint64:
		if v, ok := c19NumHints[name]; ok && !strings.Contains(v, ".") {
			return v
		}
		return "1"
	case reflect.Float32, reflect.Float64:
		if v, ok := c19NumHints[name]; ok {
			return v
		}
		return "0.5"
	case reflect.Slice, reflect.Array:
		if v, ok := c19ListHints[name]; ok {
			return v
		}
		if t.Elem().Kind() == reflect.Float32 || t.Elem().Kind() == reflect.Float64 {
			return c19Vec(c19Dim)
		}
		if depth > 4 {
			return "[]"
		}
		return "[" + c19RawFor(t.Elem(), name, depth+1) + "]"
	case reflect.Map:
		if t.Elem().Kind() == reflect.Interface {
			return `{"tag":"x","n":1}`
		}
		if depth > 4 {
			return "{}"
		}
		return `{"k":` + c19RawFor(t.Elem(), "k", depth+1) + `}`
	case reflect.Struct:
		if depth > 4 {
			return "{}"
		}
		o := &c19Obj{Vals: map[string]string{}}
		for _, f := range c19FieldsOf(t) {
			o = o.set(f.Name, c19RawFor(f.Type, f.Name, depth+1))
		}
		return o.raw()
	case reflect.Interface:
		return `"x"`
	}
	return "null"
}

// c19Template builds the valid body of a route (nil when the route reads no body).
func c19Template(r *c19Route) *c19Obj {
	if !r.ReadsBody {
		return nil
	}
	o := &c19Obj{Vals: map[string]string{}}
	if r.BodyType == nil {
		return o.set("index_name", c19Str(c19Idx0))
	}
	for _, f := range r.Fields {
		o = o.set(f.Name, c19RawFor(f.Type, f.Name, 0))
	}
	// route-specific values so that the unmutated template is accepted (workload only)
	has := func(k string) bool { _, ok := o.Vals[k]; return ok }
	switch {
	case r.Creates && has("index_name"):
		o = o.set("index_name", `"inew"`)
	case strings.HasSuffix(r.Pattern, "/actions/add") && has("id"):
		o = o.set("id", `"new1"`)
	case strings.HasSuffix(r.Pattern, "/delete_vector") && has("id"):
		o = o.set("id", `"d"`)
	case strings.HasSuffix(r.Pattern, "/compress") && has("precision"):
		o = o.set("precision", `"float16"`)
	case strings.HasSuffix(r.Pattern, "/actions/link") && has("target_id"):
		o = o.set("target_id", `"d"`)
	}
	if has("vectors") {
		o = o.set("vectors", fmt.Sprintf(`[{"id":"nb0","vector":%s,"metadata":{"tag":"x"}},{"id":"nb1","vector":%s}]`, c19Vec(c19Dim), c19Vec(c19Dim)))
	}
	return o
}

func c19ParamValue(r *c19Route, p string) string {
	switch p {
	case "key":
		return "k0"
	case "name":
		if strings.Contains(r.Pattern, "/vectorizers/") {
			return "none"
		}
		return c19Idx0
	case "id":
		switch {
		case strings.Contains(r.Pattern, "/vectors/"):
			return "a"
		case strings.Contains(r.Pattern, "/reflections/"):
			return "r0"
		}
		return "nope"
	}
	return "x"
}

// c19Target substitutes path wildcards. vals are the decoded values; raw[p]=true writes
// the value without percent-encoding.
func c19Target(r *c19Route, vals map[string]string, raw map[string]bool, query string) string {
	segs := strings.Split(r.Pattern, "/")
	for i, s := range segs {
		if strings.HasPrefix(s, "{") && strings.HasSuffix(s, "}") {
			p := strings.TrimSuffix(strings.Trim(s, "{}"), "...")
			v, ok := vals[p]
			if !ok {
				v = c19ParamValue(r, p)
			}
			if raw[p] {
				segs[i] = v
			} else {
				segs[i] = url.PathEscape(v)
			}
		}
	}
	t := strings.Join(segs, "/")
	if query != "" {
		t += "?" + query
	}
	return t
}

// ---------------------------------------------------------------------------------------
// hostile names

// c19Hostile returns the hostile names of the property's quantifier, restricted to those
// whose every interpretation stays inside the case directory keep (harness safety: a
// genuine escape deletes or creates files, so nothing may resolve outside keep).
func c19Hostile(e *c19Env) []string {
	sent := filepath.Join(e.root, "sentinel")
	cands := []string{
		"..", ".", "../../sentinel", "../../sentinel/keep.txt", "../../sentinel/sub", "../../../outer_c",
		"../x", "a/b", "a/../../../sentinel", "../../escaped", "../../../../outer_b",
		sent, filepath.Join(sent, "keep.txt"), filepath.Join(e.base, "abs_new"),
		"..%2F..%2Fsentinel", "%2e%2e%2f%2e%2e%2fsentinel", "..%252F..%252Fsentinel", `..\..\sentinel`, "..%5c..%5csentinel",
		"a\x00b", "../../sentinel\x00.bin", strings.Repeat("A", 4096), "../../" + strings.Repeat("B", 4090),
		"x::y", "i0::a", "*", "", " ", "a b", "é/ü", "a\r\nX-Inject: 1", "?x=1#frag", "%", "%zz", "\xff\xfe",
	}
	var out []string
	for _, c := range cands {
		if c19SafeName(e, c) {
			out = append(out, c)
		}
	}
	return out
}

// c19SafeName: every plausible resolution of name (as given, percent-decoded once or
// twice, backslashes as separators, cut at NUL) against the directories the server could
// join it to stays inside e.keep.
func c19SafeName(e *c19Env, name string) bool {
	forms := map[string]bool{name: true}
	for i := 0; i < 2; i++ {
		for f := range forms {
			if u, err := url.PathUnescape(f); err == nil {
				forms[u] = true
			}
			if u, err := url.QueryUnescape(f); err == nil {
				forms[u] = true
			}
		}
	}
	for f := range forms {
		forms[strings.ReplaceAll(f, `\`, "/")] = true
	}
	for f := range forms {
		if i := strings.IndexByte(f, 0); i >= 0 {
			forms[f[:i]] = true
		}
	}
	bases := []string{filepath.Join(e.data, "arenas"), e.data, e.root, filepath.Join(e.data, "assets")}
	inside := func(p string) bool {
		p = filepath.Clean(p)
		return p == e.keep || strings.HasPrefix(p, e.keep+string(filepath.Separator))
	}
	for f := range forms {
		if filepath.IsAbs(f) && !inside(f) {
			return false
		}
		for _, b := range bases {
			if !inside(filepath.Join(b, f)) || !inside(filepath.Join(b, f+".old_compress")) {
				return false
			}
		}
	}
	return true
}

// c19BadUTF8Path: the path part of the request-target decodes to bytes that are not UTF-8.
func c19BadUTF8Path(target string) bool {
	p := target
	if i := strings.IndexByte(p, '?'); i >= 0 {
		p = p[:i]
	}
	u, err := url.PathUnescape(p)
	if err != nil {
		return !utf8.ValidString(p)
	}
	return !utf8.ValidString(u)
}

// c19EscapesData: would filepath.Join(data,"arenas",name) leave the data directory?
func c19EscapesData(e *c19Env, name string) bool {
	p := filepath.Clean(filepath.Join(e.data, "arenas", name))
	return !(p == e.data || strings.HasPrefix(p, e.data+string(filepath.Separator)))
}

// ---------------------------------------------------------------------------------------
// mutations

type c19Sample struct {
	Raw, Kind, Elem, Tag string
}

var c19Samples = []c19Sample{
	{`"x"`, "string", "", "string"}, {`""`, "string", "", "empty-string"}, {`"NaN"`, "string", "", "nan-string"},
	{`"Infinity"`, "string", "", "inf-string"}, {`7`, "number", "", "number"}, {`0`, "number", "", "zero"},
	{`-1`, "number", "", "minus-one"}, {`9223372036854775808`, "number", "", "2^63"}, {`1e308`, "number", "", "1e308"},
	{`1.5`, "number", "", "fraction"}, {`-0`, "number", "", "neg-zero"}, {`true`, "bool", "", "bool"},
	{`[1]`, "array", "number", "array-num"}, {`["x"]`, "array", "string", "array-str"}, {`[]`, "array", "", "empty-array"},
	{`[null]`, "array", "", "array-null"}, {`[[1]]`, "array", "array", "array-array"}, {`[{"a":1}]`, "array", "object", "array-obj"},
	{`{"a":1}`, "object", "", "object"}, {`{}`, "object", "", "empty-object"},
}

func c19Deep(n int) string { return strings.Repeat("[", n) + strings.Repeat("]", n) }

// c19Wrong: is sample s a value of the wrong JSON type for field f?
func c19Wrong(f c19Field, s c19Sample) bool {
	if f.Kind == "free" {
		return false
	}
	if f.Kind == "duration" {
		return s.Kind != "string" && s.Kind != "number"
	}
	if s.Kind != f.Kind {
		return true
	}
	if f.Kind == "array" && f.Elem != "free" && f.Elem != "" && s.Elem != "" && s.Elem != f.Elem {
		return true
	}
	return false
}

func c19IsVecField(f c19Field) bool {
	t := f.Type
	for t.Kind() == reflect.Pointer {
		t = t.Elem()
	}
	return t.Kind() == reflect.Slice && (t.Elem().Kind() == reflect.Float32 || t.Elem().Kind() == reflect.Float64)
}

func c19IsBatchField(f c19Field) bool {
	t := f.Type
	for t.Kind() == reflect.Pointer {
		t = t.Elem()
	}
	if t.Kind() != reflect.Slice {
		return false
	}
	et := t.Elem()
	if et.Kind() != reflect.Struct {
		return false
	}
	hasID, hasVec := false, false
	for _, sf := range c19FieldsOf(et) {
		if sf.Name == "id" {
			hasID = true
		}
		if sf.Name == "vector" && c19IsVecField(sf) {
			hasVec = true
		}
	}
	return hasID && hasVec
}

// c19Items enumerates the systematic workload of one route (deterministic: depends only on
// the source-derived route description and the environment's directory names).
func c19Items(e *c19Env, r *c19Route, lim c19Limits, thorough bool) []c19Item {
	var out []c19Item
	tmpl := c19Template(r)
	baseTarget := c19Target(r, nil, nil, "")
	body := func(o *c19Obj) []byte {
		if o == nil {
			return nil
		}
		return []byte(o.raw())
	}
	add := func(it c19Item) {
		if it.Method == "" {
			it.Method = r.Method
		}
		if it.Target == "" {
			it.Target = baseTarget
		}
		it.BadUTF8 = c19BadUTF8Path(it.Target)
		out = append(out, it)
	}
	hostile := c19Hostile(e)
	add(c19Item{Kind: "baseline", Body: body(tmpl), Base: true})

	// --- every other method on the same route (with the valid body, if the route has one)
	for _, m := range c19Methods {
		if m != r.Method {
			add(c19Item{Kind: "other-method", Field: m, Method: m, Body: body(tmpl)})
		}
	}

	// --- path parameters
	for _, p := range r.Params {
		if v := c19ParamValue(r, p); v == c19Idx0 || v == c19Idx1 {
			for _, ix := range c19IdxVariants {
				if ix != v {
					add(c19Item{Kind: "param-other-index", Field: p + "=" + ix, Target: c19Target(r, map[string]string{p: ix}, nil, ""), Body: body(tmpl)})
				}
			}
		}
		add(c19Item{Kind: "param-unknown", Field: p, Target: c19Target(r, map[string]string{p: "nonexistent_zz"}, nil, ""), Body: body(tmpl)})
		for _, h := range hostile {
			esc := (r.Creates || r.Drops) && p == "name" && c19EscapesData(e, h)
			add(c19Item{Kind: "param-hostile", Field: p, Target: c19Target(r, map[string]string{p: h}, nil, ""), Body: body(tmpl), Hostile: true, Escapes: esc})
			if h != url.PathEscape(h) {
				// the same name written raw on the request line (the HTTP parser or the mux may
				// refuse it); the server sees the once-decoded form of it
				seen := h
				if u, err := url.PathUnescape(h); err == nil {
					seen = u
				}
				escRaw := (r.Creates || r.Drops) && p == "name" && (c19EscapesData(e, seen) || c19EscapesData(e, h))
				add(c19Item{Kind: "param-hostile-raw", Field: p, Target: c19Target(r, map[string]string{p: h}, map[string]bool{p: true}, ""), Body: body(tmpl), Hostile: true, Escapes: escRaw})
			}
		}
	}
	if r.Method == "GET" {
		for _, q := range []string{"limit=-1&offset=-1", "limit=999999999999999999999&offset=1e9", "limit=abc&offset=%00", "status=x%27%20OR%201=1", "index_name=..%2F..%2Fsentinel&status=unresolved", "limit=10000000&offset=0"} {
			add(c19Item{Kind: "query", Field: q, Target: c19Target(r, nil, nil, q), Hostile: strings.Contains(q, "sentinel")})
		}
	}
	if !r.ReadsBody {
		// a route that reads no body must not care what the body is
		for _, b := range []string{"{", "\x00\xff\xfe", `{"index_name":"../../sentinel"}`} {
			add(c19Item{Kind: "body-on-bodyless", Body: []byte(b), Hostile: strings.Contains(b, "sentinel")})
		}
		return out
	}

	// --- whole-body families
	base := tmpl.raw()
	nonjson := []struct{ tag, b string }{
		{"empty", ""}, {"open-brace", "{"}, {"close-open", "}{"}, {"binary", "\x00\x01\xff\xfe\x80garbage\x00"},
		{"text", "not json at all"}, {"missing-value", `{"index_name":}`}, {"truncated", base[:len(base)/2]},
		{"single-quotes", strings.ReplaceAll(base, `"`, `'`)}, {"unterminated-string", `{"index_name":"abc`},
		{"xml", "<index_name>i0</index_name>"}, {"form", "index_name=i0&k=3"},
	}
	for _, n := range nonjson {
		if json.Valid([]byte(n.b)) {
			continue
		}
		add(c19Item{Kind: "nonjson-" + n.tag, Body: []byte(n.b), Want4xx: "the body is not JSON"})
	}
	for _, n := range []struct{ tag, b string }{{"number", "123"}, {"string", `"str"`}, {"bool", "true"}, {"array", "[1,2]"}, {"deep-array", c19Deep(10000)}, {"deeper-array", c19Deep(100000)}} {
		add(c19Item{Kind: "scalar-body-" + n.tag, Body: []byte(n.b), Want4xx: "the body is a JSON " + n.tag + " where an object is declared"})
	}
	add(c19Item{Kind: "null-body", Body: []byte("null")})
	add(c19Item{Kind: "empty-object", Body: []byte("{}")})
	for _, g := range []string{" trailing garbage", "}", `{"index_name":"other"}`, "\x00"} {
		add(c19Item{Kind: "trailing-garbage", Field: g, Body: []byte(base + g), Want4xx: "the body is a JSON value followed by garbage, i.e. not JSON", Trailing: true})
	}
	add(c19Item{Kind: "unknown-field", Body: body(tmpl.set("zz_unknown_field", `{"a":[1,2,3]}`))})
	add(c19Item{Kind: "deep-unknown-field", Body: body(tmpl.set("zz_deep", c19Deep(10000)))})
	add(c19Item{Kind: "bom-prefix", Body: []byte("\xef\xbb\xbf" + base)})
	add(c19Item{Kind: "whitespace-padded", Body: []byte(strings.Repeat(" \n\t", 2000) + base + "\n\n")})

	// --- per-field families
	for _, f := range r.Fields {
		if _, ok := tmpl.Vals[f.Name]; !ok {
			continue
		}
		add(c19Item{Kind: "drop", Field: f.Name, Body: body(tmpl.drop(f.Name))})
		add(c19Item{Kind: "null", Field: f.Name, Body: body(tmpl.set(f.Name, "null"))})
		for _, s := range c19Samples {
			it := c19Item{Kind: "value-" + s.Tag, Field: f.Name, Body: body(tmpl.set(f.Name, s.Raw))}
			it.NegEf = f.Name == "ef_search" && f.Kind == "number" && strings.HasPrefix(s.Raw, "-") && s.Raw != "-0"
			it.NegRefEf = f.Name == "refine_ef_construction" && f.Kind == "number" && strings.HasPrefix(s.Raw, "-") && s.Raw != "-0"
			if c19Wrong(f, s) {
				it.Want4xx = fmt.Sprintf("field %q is declared %s and was sent a JSON %s", f.Name, c19Decl(f), c19SampleDecl(s))
			}
			add(it)
		}
		deep := c19Item{Kind: "value-deep-nesting", Field: f.Name, Body: body(tmpl.set(f.Name, c19Deep(10000)))}
		if c19Wrong(f, c19Sample{Kind: "array", Elem: "array"}) {
			deep.Want4xx = fmt.Sprintf("field %q is declared %s and was sent nested arrays", f.Name, c19Decl(f))
		}
		add(deep)
		// duplicate keys (both orders)
		other := `"zz_other"`
		if f.Kind != "string" {
			other = "null"
		}
		add(c19Item{Kind: "duplicate-key", Field: f.Name, Body: []byte(`{` + c19Str(f.Name) + `:` + other + `,` + base[1:])})
		add(c19Item{Kind: "duplicate-key-last", Field: f.Name, Body: []byte(base[:len(base)-1] + `,` + c19Str(f.Name) + `:` + other + `}`)})
		add(c19Item{Kind: "case-variant-key", Field: f.Name, Body: body(tmpl.drop(f.Name).set(strings.ToUpper(f.Name), tmpl.Vals[f.Name]))})

		switch {
		case f.Kind == "string":
			add(c19Item{Kind: "unknown-name", Field: f.Name, Body: body(tmpl.set(f.Name, `"nonexistent_zz"`))})
			if v := tmpl.Vals[f.Name]; v == c19Str(c19Idx0) || v == c19Str(c19Idx1) {
				// the same valid request against an index in another state (empty, emptied, other
				// precision / metric / dimension), alone and with each other field dropped
				for _, ix := range c19IdxVariants {
					if c19Str(ix) == v {
						continue
					}
					add(c19Item{Kind: "other-index", Field: f.Name + "=" + ix, Body: body(tmpl.set(f.Name, c19Str(ix)))})
					for _, g := range r.Fields {
						if _, ok := tmpl.Vals[g.Name]; ok && g.Name != f.Name {
							add(c19Item{Kind: "other-index-drop", Field: f.Name + "=" + ix + " -" + g.Name, Body: body(tmpl.set(f.Name, c19Str(ix)).drop(g.Name))})
						}
					}
				}
			}
			for _, g := range r.Fields { // aliasing: two fields carry the same name
				if g.Name != f.Name && g.Kind == "string" && tmpl.Vals[g.Name] != tmpl.Vals[f.Name] && tmpl.Vals[g.Name] != `""` {
					add(c19Item{Kind: "alias", Field: f.Name + "=" + g.Name, Body: body(tmpl.set(f.Name, tmpl.Vals[g.Name]))})
				}
			}
			for _, h := range hostile {
				esc := (r.Creates || r.Drops) && f.Name == "index_name" && c19EscapesData(e, h)
				add(c19Item{Kind: "hostile-name", Field: f.Name, Body: body(tmpl.set(f.Name, c19Str(h))), Hostile: true, Escapes: esc})
			}
			// the content of the string, read by the server as a name, an enumeration value, a
			// filter expression, a query ...: edits of valid values (c19_str_test.go)
			c19StrItems(e, r, f.Name, f.Name, tmpl.Vals[f.Name], func(raw string) []byte { return body(tmpl.set(f.Name, raw)) }, add)
		case c19IsVecField(f):
			for _, n := range []int{1, c19Dim - 1, c19Dim + 1, 1024} {
				add(c19Item{Kind: "wrong-dimension", Field: f.Name, Body: body(tmpl.set(f.Name, c19Vec(n)))})
			}
			add(c19Item{Kind: "vector-huge-values", Field: f.Name, Body: body(tmpl.set(f.Name, `[3.4e38,-3.4e38,1e-45,0]`)), HugeVec: true})
			add(c19Item{Kind: "vector-overflow-values", Field: f.Name, Body: body(tmpl.set(f.Name, `[1e39,1,1,1]`))})
			add(c19Item{Kind: "vector-wrong-elem", Field: f.Name, Body: body(tmpl.set(f.Name, `[0.1,"0.2",0.3,0.4]`)), Want4xx: fmt.Sprintf("field %q is an array of numbers and carried a string element", f.Name)})
			add(c19Item{Kind: "vector-null-elem", Field: f.Name, Body: body(tmpl.set(f.Name, `[0.1,null,0.3,0.4]`))})
		case f.Kind == "array" && f.Elem == "string":
			add(c19Item{Kind: "unknown-name", Field: f.Name, Body: body(tmpl.set(f.Name, `["nonexistent_zz","a"]`))})
			for _, h := range hostile {
				add(c19Item{Kind: "hostile-name", Field: f.Name, Body: body(tmpl.set(f.Name, `[`+c19Str(h)+`,"a"]`)), Hostile: true})
			}
			if first := c19FirstElem(tmpl.Vals[f.Name]); first != "" {
				c19StrItems(e, r, f.Name, f.Name+"[0]", first, func(raw string) []byte { return body(tmpl.set(f.Name, "["+raw+`,"a"]`)) }, add)
			}
			if thorough {
				add(c19Item{Kind: "long-list", Field: f.Name, Body: body(tmpl.set(f.Name, "["+strings.Repeat(`"a",`, 200000)+`"b"]`))})
			}
		}
		// nested object fields (one level)
		if f.Kind == "object" && len(f.Sub) > 0 {
			sub := c19SubObj(f)
			for _, sf := range f.Sub {
				add(c19Item{Kind: "nested-drop", Field: f.Name + "." + sf.Name, Body: body(tmpl.set(f.Name, sub.drop(sf.Name).raw()))})
				add(c19Item{Kind: "nested-null", Field: f.Name + "." + sf.Name, Body: body(tmpl.set(f.Name, sub.set(sf.Name, "null").raw()))})
				if sf.Kind == "string" {
					sf := sf
					c19StrItems(e, r, sf.Name, f.Name+"."+sf.Name, sub.Vals[sf.Name], func(raw string) []byte { return body(tmpl.set(f.Name, sub.set(sf.Name, raw).raw())) }, add)
				}
				for _, s := range c19Samples {
					it := c19Item{Kind: "nested-value-" + s.Tag, Field: f.Name + "." + sf.Name, Body: body(tmpl.set(f.Name, sub.set(sf.Name, s.Raw).raw()))}
					it.NegRefEf = sf.Name == "refine_ef_construction" && sf.Kind == "number" && strings.HasPrefix(s.Raw, "-") && s.Raw != "-0"
					if c19Wrong(sf, s) {
						it.Want4xx = fmt.Sprintf("field %q is declared %s and was sent a JSON %s", f.Name+"."+sf.Name, c19Decl(sf), c19SampleDecl(s))
					}
					add(it)
				}
			}
		}
		// arrays of objects (batch items, auto-link rules): element fields
		if f.Kind == "array" && f.Elem == "object" {
			et := f.Type
			for et.Kind() == reflect.Pointer {
				et = et.Elem()
			}
			et = et.Elem()
			if et.Kind() == reflect.Struct {
				esub := &c19Obj{Vals: map[string]string{}}
				efs := c19FieldsOf(et)
				for _, sf := range efs {
					v := c19RawFor(sf.Type, sf.Name, 1)
					if sf.Name == "id" {
						v = `"nbx"`
					}
					esub = esub.set(sf.Name, v)
				}
				for _, sf := range efs {
					add(c19Item{Kind: "elem-drop", Field: f.Name + "[]." + sf.Name, Body: body(tmpl.set(f.Name, "["+esub.drop(sf.Name).raw()+"]"))})
					add(c19Item{Kind: "elem-null", Field: f.Name + "[]." + sf.Name, Body: body(tmpl.set(f.Name, "["+esub.set(sf.Name, "null").raw()+"]"))})
					for _, s := range c19Samples {
						it := c19Item{Kind: "elem-value-" + s.Tag, Field: f.Name + "[]." + sf.Name, Body: body(tmpl.set(f.Name, "["+esub.set(sf.Name, s.Raw).raw()+"]"))}
						if c19Wrong(sf, s) {
							it.Want4xx = fmt.Sprintf("field %q is declared %s and was sent a JSON %s", f.Name+"[]."+sf.Name, c19Decl(sf), c19SampleDecl(s))
						}
						add(it)
					}
					if sf.Kind == "string" {
						for _, h := range hostile {
							add(c19Item{Kind: "elem-hostile-name", Field: f.Name + "[]." + sf.Name, Body: body(tmpl.set(f.Name, "["+esub.set(sf.Name, c19Str(h)).raw()+"]")), Hostile: true})
						}
					}
					if c19IsVecField(sf) {
						for _, n := range []int{1, c19Dim + 1} {
							add(c19Item{Kind: "elem-wrong-dimension", Field: f.Name + "[]." + sf.Name, Body: body(tmpl.set(f.Name, "["+esub.set(sf.Name, c19Vec(n)).raw()+"]"))})
						}
						add(c19Item{Kind: "elem-mixed-dimension", Field: f.Name + "[]." + sf.Name, Body: body(tmpl.set(f.Name, "["+esub.raw()+","+esub.set("id", `"nby"`).set(sf.Name, c19Vec(c19Dim+2)).raw()+"]"))})
					}
				}
				add(c19Item{Kind: "elem-duplicate-ids", Field: f.Name, Body: body(tmpl.set(f.Name, "["+esub.raw()+","+esub.raw()+"]"))})
				add(c19Item{Kind: "elem-existing-id", Field: f.Name, Body: body(tmpl.set(f.Name, "["+esub.set("id", `"nbz"`).raw()+","+esub.set("id", `"a"`).raw()+"]"))})
			}
		}
	}

	// --- published limits
	for _, f := range r.Fields {
		f := f
		if _, ok := tmpl.Vals[f.Name]; !ok {
			continue
		}
		if f.Name == "k" && f.Kind == "number" {
			add(c19Item{Kind: "limit-k-at", Field: "k", Body: body(tmpl.set("k", fmt.Sprint(lim.MaxK)))})
			add(c19Item{Kind: "limit-k-over", Field: "k", Body: body(tmpl.set("k", fmt.Sprint(lim.MaxK+1))), Want4xx: fmt.Sprintf("k=%d exceeds the published limit %d", lim.MaxK+1, lim.MaxK)})
			add(c19Item{Kind: "limit-k-over", Field: "k", Body: body(tmpl.set("k", "2147483647")), Want4xx: fmt.Sprintf("k=2147483647 exceeds the published limit %d", lim.MaxK)})
		}
		if c19IsVecField(f) {
			it := c19Item{Kind: "limit-dim-over", Field: f.Name, Body: body(tmpl.set(f.Name, c19Vec(int(lim.MaxDim)+1)))}
			if f.Name == "vector" {
				it.Want4xx = fmt.Sprintf("vector of dimension %d exceeds the published limit %d", lim.MaxDim+1, lim.MaxDim)
			}
			add(it)
		}
		if c19IsBatchField(f) {
			n := int(lim.MaxBatch) + 1
			pre := tmpl.drop(f.Name).raw()
			pre = pre[:len(pre)-1] + "," + c19Str(f.Name) + ":["
			add(c19Item{Kind: "limit-batch-over", Field: f.Name, Stream: func() (io.Reader, int64) { return c19BatchStream(pre, n, c19Dim) },
				Want4xx: fmt.Sprintf("batch of %d items exceeds the published limit %d", n, lim.MaxBatch)})
			big := fmt.Sprintf(`[{"id":"nbdim","vector":%s}]`, c19Vec(int(lim.MaxDim)+1))
			add(c19Item{Kind: "limit-dim-over", Field: f.Name + "[].vector", Body: body(tmpl.set(f.Name, big)), BatchDim: true,
				Want4xx: fmt.Sprintf("batch item with a vector of dimension %d exceeds the published limit %d", lim.MaxDim+1, lim.MaxDim)})
			// the oversized vector is not the first item (behind a regular one, behind one without a vector)
			for tag, first := range map[string]string{"after-regular": fmt.Sprintf(`{"id":"nbok","vector":%s}`, c19Vec(c19Dim)), "after-empty": `{"id":"nbok","vector":[]}`} {
				later := fmt.Sprintf(`[%s,{"id":"nbdim2","vector":%s}]`, first, c19Vec(int(lim.MaxDim)+1))
				add(c19Item{Kind: "limit-dim-over-" + tag, Field: f.Name + "[1].vector", Body: body(tmpl.set(f.Name, later)), BatchDim: true,
					Want4xx: fmt.Sprintf("batch whose second item has a vector of dimension %d exceeds the published limit %d", lim.MaxDim+1, lim.MaxDim)})
			}
		}
	}
	return out
}

// c19FirstElem: the first element of a raw JSON array of strings ("" when there is none).
func c19FirstElem(raw string) string {
	var xs []string
	if json.Unmarshal([]byte(raw), &xs) != nil || len(xs) == 0 {
		return ""
	}
	return c19Str(xs[0])
}

func c19SubObj(f c19Field) *c19Obj {
	t := f.Type
	for t.Kind() == reflect.Pointer {
		t = t.Elem()
	}
	o := &c19Obj{Vals: map[string]string{}}
	for _, sf := range f.Sub {
		o = o.set(sf.Name, c19RawFor(sf.Type, sf.Name, 1))
	}
	return o
}

func c19Decl(f c19Field) string {
	if f.Kind == "array" && f.Elem != "" {
		return "array of " + f.Elem
	}
	return f.Kind
}

func c19SampleDecl(s c19Sample) string {
	if s.Kind == "array" && s.Elem != "" {
		return "array of " + s.Elem
	}
	return s.Kind
}

// c19BatchStream streams `pre` + n batch items + "]}" without materialising the body.
func c19BatchStream(pre string, n, dim int) (io.Reader, int64) {
	item := func(i int) string { return fmt.Sprintf(`{"id":"lb%07d","vector":%s}`, i, c19Vec(dim)) }
	one := int64(len(item(0)))
	total := int64(len(pre)) + int64(n)*one + int64(n-1) + 2
	i := 0
	var cur bytes.Buffer
	cur.WriteString(pre)
	done := false
	return readerFunc(func(p []byte) (int, error) {
		for cur.Len() == 0 {
			if done {
				return 0, io.EOF
			}
			if i < n {
				if i > 0 {
					cur.WriteByte(',')
				}
				cur.WriteString(item(i))
				i++
			} else {
				cur.WriteString("]}")
				done = true
			}
		}
		return cur.Read(p)
	}), total
}

type readerFunc func(p []byte) (int, error)

func (f readerFunc) Read(p []byte) (int, error) { return f(p) }

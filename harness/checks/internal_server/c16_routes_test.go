package server

// C16 — request generator. The route table is parsed from the CURRENT source of the server
// package at run time (every mux.Handle/HandleFunc registration), path parameters are
// instantiated from a hostile name set, and bodies are the route's valid template with the
// index reference placed in every way a client can place it.

import (
	"encoding/json"
	"fmt"
	"net/url"
	"os"
	"path/filepath"
	"regexp"
	"sort"
	"strings"

	"github.com/sanonone/kektordb/internal/zzverif/vkit"
)

type c16Route struct {
	Pattern string // as registered, e.g. "POST /vector/indexes/{name}/config"
	Method  string // "" = any
	Path    string
	File    string
}

var c16RouteRe = regexp.MustCompile(`\.(?:HandleFunc|Handle)\(\s*"([^"]+)"`)

// c16DefaultIdxRe finds a string literal assigned to something called *index* (`indexName =
// "x"`, `req.IndexName = "x"`, `const defaultIndex = "x"`).
var c16DefaultIdxRe = regexp.MustCompile(`\b\w*[iI]ndex\w*\s*:?=\s*"([A-Za-z0-9_.\-]+)"`)

// c16DefaultIdx: source file -> literal index names its handlers fall back to.
var c16DefaultIdx = map[string][]string{}
var c16DefaultAll []string
var c16ListedWords int

func c16RepoDir() string {
	d := os.Getenv("VERIF_REPO")
	if d == "" {
		d = "/repo"
	}
	return d
}

// c16ParseRoutes reads internal/server/*.go (non-test, non-injected files).
func c16ParseRoutes() ([]c16Route, []string, error) {
	dir := filepath.Join(c16RepoDir(), "internal", "server")
	files, err := filepath.Glob(filepath.Join(dir, "*.go"))
	if err != nil || len(files) == 0 {
		return nil, nil, fmt.Errorf("no source files in %s", dir)
	}
	sort.Strings(files)
	var routes []c16Route
	seen := map[string]bool{}
	wordSet := map[string]bool{}
	for _, fn := range files {
		base := filepath.Base(fn)
		if strings.HasSuffix(base, "_test.go") || strings.HasPrefix(base, "zz_verif_") {
			continue
		}
		b, err := os.ReadFile(fn)
		if err != nil {
			return nil, nil, err
		}
		src := c16StripComments(string(b))
		for _, m := range c16RouteRe.FindAllStringSubmatch(src, -1) {
			pat := m[1]
			if seen[pat] {
				continue
			}
			seen[pat] = true
			r := c16Route{Pattern: pat, File: base}
			if i := strings.Index(pat, " "); i > 0 {
				r.Method, r.Path = pat[:i], strings.TrimSpace(pat[i+1:])
			} else {
				r.Path = pat
			}
			routes = append(routes, r)
		}
		// index names a handler falls back to when the request does not name one
		// (indexName = "mcp_memory"): they are namespaces like any other
		for _, m := range c16DefaultIdxRe.FindAllStringSubmatch(src, -1) {
			dup := false
			for _, n := range c16DefaultIdx[base] {
				dup = dup || n == m[1]
			}
			if !dup {
				c16DefaultIdx[base] = append(c16DefaultIdx[base], m[1])
				c16DefaultAll = append(c16DefaultAll, m[1])
			}
		}
		if base == "middleware.go" {
			// the registered patterns the middleware lists by name (readOnlyPostRoutes): their last
			// segments are the words a resource name must not be able to imitate
			for _, m := range regexp.MustCompile(`"(?:GET|POST|PUT|DELETE|PATCH) (/[^"{}]+)"\s*:`).FindAllStringSubmatch(src, -1) {
				p := strings.Trim(m[1], "/")
				wordSet[p[strings.LastIndex(p, "/")+1:]] = true
				if strings.Count(p, "/") == 1 {
					wordSet[p] = true // "rag/retrieve", "ui/explore"
				}
				c16ListedWords++
			}
			for _, m := range regexp.MustCompile(`HasSuffix\(path,\s*"([^"]+)"\)`).FindAllStringSubmatch(src, -1) {
				c16SuffixWords = append(c16SuffixWords, m[1])
			}
			for _, re := range []string{`HasSuffix\(path,\s*"([^"]+)"\)`, `HasPrefix\(path,\s*"([^"]+)"\)`, `path == "([^"]+)"`} {
				for _, m := range regexp.MustCompile(re).FindAllStringSubmatch(src, -1) {
					wordSet[strings.Trim(m[1], "/")] = true
				}
			}
		}
	}
	for _, w := range []string{"search", "search-with-scores", "get-vectors", "get-links", "get-incoming", "traverse", "extract-subgraph",
		"search-nodes", "get-node-properties", "get-edges", "get-all-relations", "get-all-incoming", "find-path", "rag/retrieve", "ui", "system", "auth"} {
		wordSet[w] = true
	}
	if len(c16SuffixWords) == 0 {
		c16SuffixWords = []string{"search", "search-with-scores", "get-vectors", "get-links", "get-incoming", "traverse", "extract-subgraph",
			"search-nodes", "get-node-properties", "get-edges", "get-all-relations", "get-all-incoming", "find-path"}
	}
	var words []string
	for w := range wordSet {
		if w != "" {
			words = append(words, w)
		}
	}
	sort.Strings(words)
	sort.Slice(routes, func(i, j int) bool { return routes[i].Pattern < routes[j].Pattern })
	return routes, words, nil
}

func c16StripComments(s string) string {
	for {
		i := strings.Index(s, "/*")
		if i < 0 {
			break
		}
		j := strings.Index(s[i+2:], "*/")
		if j < 0 {
			s = s[:i]
			break
		}
		s = s[:i] + s[i+2+j+2:]
	}
	var out []string
	for _, l := range strings.Split(s, "\n") {
		if strings.HasPrefix(strings.TrimSpace(l), "//") {
			continue
		}
		out = append(out, l)
	}
	return strings.Join(out, "\n")
}

// ---- a generated request ----------------------------------------------------------------

type c16Req struct {
	Route   c16Route
	Method  string
	Target  string
	Body    []byte
	Params  map[string]string // decoded parameter values
	IdxVar  string            // how the index reference was placed in the body
	Own     string            // index the token may use (or A)
	Foreign string            // index the token may not use ("" if none)
	Tags    []string
	fixIdx  []string // names of the fixture indexes A, B, C
}

func (q *c16Req) String() string {
	b := string(q.Body)
	if len(b) > 400 {
		b = b[:400] + "…"
	}
	return fmt.Sprintf("%s %s body=%s [route %q, index-variant %s]", q.Method, q.Target, b, q.Route.Pattern, q.IdxVar)
}

func (q *c16Req) path() string {
	u, err := url.ParseRequestURI(q.Target)
	if err != nil {
		return q.Target
	}
	return u.Path
}

type c16Gen struct {
	f                  *c16Fix
	r                  *vkit.Rand
	words              []string
	routes             []c16Route
	curOwn, curForeign string
	curOwn2            string // another index the token covers (== curOwn if there is none)
}

// ordered JSON object that may contain duplicate keys
type c16KV struct {
	K      string
	V      any
	RawKey string // if set, written verbatim as the key (including quotes)
}

func c16Obj(kvs []c16KV) []byte {
	var sb strings.Builder
	sb.WriteByte('{')
	for i, kv := range kvs {
		if i > 0 {
			sb.WriteByte(',')
		}
		if kv.RawKey != "" {
			sb.WriteString(kv.RawKey)
		} else {
			k, _ := json.Marshal(kv.K)
			sb.Write(k)
		}
		sb.WriteByte(':')
		if raw, ok := kv.V.(json.RawMessage); ok {
			sb.Write(raw)
		} else {
			v, _ := json.Marshal(kv.V)
			sb.Write(v)
		}
	}
	sb.WriteByte('}')
	return []byte(sb.String())
}

func (g *c16Gen) id() string {
	// hostile ids: an id that, glued to the token's own index with the graph-id separator,
	// spells a node of another index ("t" + "::" + "u::n0" == "t::u" + "::" + "n0")
	if g.curForeign != "" && g.r.Chance(0.25) {
		n := vkit.Pick(g.r, []string{"n0", "n1", "n2"})
		if strings.HasPrefix(g.curForeign, g.curOwn+"::") {
			return strings.TrimPrefix(g.curForeign, g.curOwn+"::") + "::" + n
		}
		return vkit.Pick(g.r, []string{g.curForeign + "::" + n, "::" + g.curForeign + "::" + n, "../" + g.curForeign + "::" + n})
	}
	return vkit.Pick(g.r, []string{"n0", "n1", "n2", "n3", "ghost", "zz_new", "_profile::u1", "u1"})
}
func (g *c16Gen) rel() string    { return vkit.Pick(g.r, g.f.rels) }
func (g *c16Gen) vec() []float32 { return []float32{g.r.F32(), g.r.F32(), g.r.F32(), g.r.F32()} }

// template returns the route's body fields WITHOUT the index reference, and the name of the
// field(s) through which the handler takes its index ("index_name" unless noted).
func (g *c16Gen) template(path string) (fields []c16KV, idxField string) {
	idxField = "index_name"
	last := path[strings.LastIndex(path, "/")+1:]
	switch {
	case path == "/vector/indexes" || path == "/vector/actions/create":
		fields = []c16KV{{K: "metric", V: "euclidean"}, {K: "m", V: 8}}
	case last == "add":
		fields = []c16KV{{K: "id", V: g.id()}, {K: "vector", V: g.vec()}, {K: "metadata", V: map[string]any{"content": "w" + g.id()}}}
	case last == "add-batch" || last == "import":
		fields = []c16KV{{K: "vectors", V: []map[string]any{{"id": g.id(), "vector": g.vec(), "metadata": map[string]any{"content": "b"}}}}}
	case last == "commit":
	case last == "search":
		switch g.r.Intn(4) {
		case 0:
			fields = []c16KV{{K: "k", V: 5}, {K: "query_vector", V: g.vec()}}
		case 1:
			fields = []c16KV{{K: "k", V: 5}, {K: "filter", V: "type='doc'"}}
		case 2:
			fields = []c16KV{{K: "k", V: 5}, {K: "query_vector", V: g.vec()}, {K: "include_relations", V: []string{"next", "parent"}}, {K: "hydrate_relations", V: true}}
		default:
			fields = []c16KV{{K: "k", V: 5}, {K: "query_text", V: "hello"}, {K: "hydrate", V: true}}
		}
	case last == "search-with-scores":
		fields = []c16KV{{K: "k", V: 5}, {K: "query_vector", V: g.vec()}}
	case last == "delete_vector":
		fields = []c16KV{{K: "id", V: g.id()}}
	case last == "compress":
		fields = []c16KV{{K: "precision", V: vkit.Pick(g.r, []string{"float16", "int8", "bogus"})}}
	case last == "get-vectors" || last == "reinforce":
		fields = []c16KV{{K: "ids", V: []string{g.id(), g.id()}}}
	case last == "link" || last == "unlink":
		fields = []c16KV{{K: "source_id", V: g.id()}, {K: "target_id", V: g.id()}, {K: "relation_type", V: g.rel()}}
		if g.r.Chance(0.3) {
			fields = append(fields, c16KV{K: "inverse_relation_type", V: "inv_" + g.rel()})
		}
		if last == "unlink" && g.r.Chance(0.5) {
			fields = append(fields, c16KV{K: "hard_delete", V: true})
		}
	case last == "get-links" || last == "get-connections":
		fields = []c16KV{{K: "source_id", V: g.id()}, {K: "relation_type", V: g.rel()}}
	case last == "traverse":
		fields = []c16KV{{K: "source_id", V: g.id()}, {K: "paths", V: []string{"next.next", "parent"}}}
	case last == "get-incoming":
		fields = []c16KV{{K: "target_id", V: g.id()}, {K: "relation_type", V: g.rel()}}
	case last == "extract-subgraph":
		fields = []c16KV{{K: "root_id", V: g.id()}, {K: "relations", V: g.f.rels}, {K: "max_depth", V: 2}}
	case last == "set-node-properties":
		fields = []c16KV{{K: "node_id", V: g.id()}, {K: "properties", V: map[string]any{"color": "red"}}}
	case last == "get-node-properties" || last == "get-all-relations" || last == "get-all-incoming":
		fields = []c16KV{{K: "node_id", V: g.id()}}
	case last == "search-nodes":
		fields = []c16KV{{K: "property_filter", V: vkit.Pick(g.r, []string{"", "type='doc'"})}, {K: "limit", V: 10}}
	case last == "get-edges":
		fields = []c16KV{{K: "source_id", V: g.id()}, {K: "target_id", V: g.id()}, {K: "relation_type", V: g.rel()}, {K: "direction", V: vkit.Pick(g.r, []string{"out", "in"})}}
	case last == "find-path":
		fields = []c16KV{{K: "source_id", V: "n2"}, {K: "target_id", V: vkit.Pick(g.r, []string{"n1", "n0", "ghost"})}, {K: "relations", V: g.f.rels}, {K: "max_depth", V: 4}}
	case last == "belief-assessment":
		fields = []c16KV{{K: "query_vec", V: g.vec()}, {K: "limit", V: 5}}
	case last == "invalidate":
		fields = []c16KV{{K: "target_id", V: g.id()}, {K: "source_id", V: g.id()}, {K: "reason", V: "c16"}}
	case last == "evolve":
		fields = []c16KV{{K: "old_id", V: g.id()}, {K: "new_vector", V: g.vec()}, {K: "reason", V: "c16"}}
	case last == "get-evolution":
		fields = []c16KV{{K: "memory_id", V: g.id()}}
	case last == "resolve":
		fields = []c16KV{{K: "resolution", V: "done"}}
		if g.r.Chance(0.5) {
			fields = append(fields, c16KV{K: "discard_id", V: g.id()})
		}
		idxField = ""
	case last == "think":
		idxField = ""
	case path == "/sessions":
		fields = []c16KV{{K: "session_id", V: "sess-" + g.id()}, {K: "user_id", V: "u1"}}
	case last == "end":
	case path == "/transfer/memory":
		fields = []c16KV{{K: "query", V: "hello"}, {K: "limit", V: 5}, {K: "with_graph", V: g.r.Chance(0.5)}}
		idxField = "source_index+target_index"
	case strings.HasPrefix(path, "/rag/retrieve"):
		fields = []c16KV{{K: "query", V: "hello"}, {K: "k", V: 5}, {K: "include_provenance", V: g.r.Chance(0.5)}}
		idxField = "pipeline_name"
	case last == "config":
		fields = []c16KV{{K: "delete_threshold", V: 0.5}, {K: "refine_enabled", V: true}}
		idxField = ""
	case last == "maintenance":
		fields = []c16KV{{K: "type", V: vkit.Pick(g.r, []string{"vacuum", "refine"})}}
		idxField = ""
	case last == "auto-links":
		fields = []c16KV{{K: "rules", V: []map[string]any{{"metadata_field": "parent", "relation_type": "child_of", "create_node": true}}}}
		idxField = ""
	case path == "/ui/explore":
		fields = []c16KV{{K: "limit", V: 50}}
	case strings.HasPrefix(path, "/kv/"):
		fields = []c16KV{{K: "value", V: "c16-written"}}
		idxField = ""
	case path == "/auth/keys":
		fields = []c16KV{{K: "role", V: vkit.Pick(g.r, []string{"admin", "write", "read"})}, {K: "namespaces", V: []string{"*"}}, {K: "description", V: "esc"}}
		idxField = ""
	case path == "/compile" || path == "/compile/validate":
		// "entity_card" / "topic_overview" are built-in templates that accept any entity type (the
		// compile succeeds and stores an artifact); "entity_profile" is not a template (the compile
		// reads the index and then fails)
		fields = []c16KV{{K: "name", V: vkit.Pick(g.r, []string{"art1", "art1", "art2"})}, {K: "template", V: vkit.Pick(g.r, []string{"entity_card", "entity_card", "topic_overview", "entity_profile"})},
			{K: "sources", V: map[string]any{"type": vkit.Pick(g.r, []string{"all", "all", "graph_query", "semantic_search"}), "entity": map[string]any{"type": "doc", "id": vkit.Pick(g.r, []string{"n0", "n0", g.id()})}}}}
	case strings.HasPrefix(path, "/system/") || strings.HasPrefix(path, "/auth/"):
		idxField = ""
	default:
		fields = []c16KV{{K: "id", V: g.id()}, {K: "name", V: g.id()}}
	}
	return
}

var c16IdxVariants = []string{"own", "foreign", "missing", "wrongtype", "dupcase-own-first", "dupcase-foreign-first",
	"dup-own-first", "dup-foreign-first", "nested", "unicode-key", "two-docs", "array", "decoy-own", "empty",
	"sibling-wrongtype", "fresh"}

// c16SiblingFields are the body fields requestNamespaces (middleware.go) reads next to index_name.
var c16SiblingFields = []string{"index_name", "source_index", "target_index", "pipeline_name"}

// wrongTyped returns a JSON value that is not a string (null is left out: encoding/json accepts
// null for a string field).
func (g *c16Gen) wrongTyped() any {
	return vkit.Pick(g.r, []any{0, 7, true, []string{}, map[string]any{}, []any{"x"}, 1.5})
}

// siblingWrong appends one index-carrying field that the route's handler does NOT read, with a
// non-string value: a decoder that knows the field rejects the body, a handler that ignores
// unknown fields accepts it.
func (g *c16Gen) siblingWrong(fields []c16KV, used ...string) []c16KV {
	var cand []string
	for _, s := range c16SiblingFields {
		skip := false
		for _, u := range used {
			skip = skip || u == s
		}
		if !skip {
			cand = append(cand, s)
		}
	}
	kv := c16KV{K: vkit.Pick(g.r, cand), V: g.wrongTyped()}
	if g.r.Chance(0.5) {
		return append(fields, kv)
	}
	return append([]c16KV{kv}, fields...)
}

// freshName: an index that does not exist and that a restricted token does not cover.
func (g *c16Gen) freshName(own, foreign string) string {
	c := []string{own + "2", "fresh_" + vkit.Pick(g.r, g.words), "new-" + own}
	if foreign != "" {
		c = append(c, foreign+"x")
	}
	return strings.NewReplacer("/", "-", "::", "-").Replace(vkit.Pick(g.r, c))
}

// buildBody places the index reference. own/foreign are index names.
func (g *c16Gen) buildBody(path, variant, own, foreign string) []byte {
	fields, idxField := g.template(path)
	tgt := foreign
	if tgt == "" {
		tgt = own
	}
	// handlers that take their index from other fields: the hostile shape is "index_name = own
	// (what the middleware reads) + the real field = foreign"
	switch idxField {
	case "source_index+target_index":
		src, dst := tgt, own
		if g.r.Chance(0.3) {
			src, dst = own, tgt
		}
		if variant == "fresh" { // copy out of an index of the token into an index that does not exist yet
			src, dst = own, g.freshName(own, foreign)
		}
		if variant == "own" { // the benign shape: both ends inside the token
			src, dst = own, g.curOwn2
		}
		fields = append(fields, c16KV{K: "source_index", V: src}, c16KV{K: "target_index", V: dst})
		switch variant {
		case "missing", "wrongtype", "empty", "array":
		case "sibling-wrongtype":
			fields = g.siblingWrong(fields, "source_index", "target_index")
		case "foreign":
			fields = append([]c16KV{{K: "index_name", V: tgt}}, fields...)
		default:
			fields = append([]c16KV{{K: "index_name", V: own}}, fields...)
		}
		return c16Obj(fields)
	case "pipeline_name":
		pipe := "pipeB"
		if tgt == g.f.idx[0].Name {
			pipe = "pipeA"
		}
		if variant == "own" {
			pipe = "pipeA"
			if own == g.f.idx[1].Name {
				pipe = "pipeB"
			}
		}
		fields = append(fields, c16KV{K: "pipeline_name", V: pipe})
		switch variant {
		case "missing", "wrongtype", "empty", "array":
		case "sibling-wrongtype":
			fields = g.siblingWrong(fields, "pipeline_name")
		default:
			fields = append([]c16KV{{K: "index_name", V: own}}, fields...)
		}
		return c16Obj(fields)
	case "":
		// the handler takes no index from the body; "decoy" shapes still add one
		switch variant {
		case "own", "decoy-own", "dupcase-own-first", "dup-own-first", "nested", "unicode-key":
			fields = append([]c16KV{{K: "index_name", V: own}}, fields...)
		case "foreign":
			fields = append([]c16KV{{K: "index_name", V: tgt}}, fields...)
		case "sibling-wrongtype":
			fields = g.siblingWrong(append([]c16KV{{K: "index_name", V: tgt}}, fields...), "index_name")
		case "fresh":
			fields = append([]c16KV{{K: "index_name", V: g.freshName(own, foreign)}}, fields...)
		case "empty":
			return nil
		}
		return c16Obj(fields)
	}
	switch variant {
	case "own", "decoy-own":
		fields = append([]c16KV{{K: "index_name", V: own}}, fields...)
	case "foreign":
		fields = append([]c16KV{{K: "index_name", V: tgt}}, fields...)
	case "sibling-wrongtype":
		fields = g.siblingWrong(append([]c16KV{{K: "index_name", V: tgt}}, fields...), "index_name")
	case "fresh":
		fields = append([]c16KV{{K: "index_name", V: g.freshName(own, foreign)}}, fields...)
	case "missing":
	case "wrongtype":
		fields = append([]c16KV{{K: "index_name", V: vkit.Pick(g.r, []any{7, nil, []string{tgt}, map[string]any{"index_name": tgt}, true})}}, fields...)
	case "dupcase-own-first":
		fields = append([]c16KV{{K: "index_name", V: own}, {K: vkit.Pick(g.r, []string{"Index_Name", "INDEX_NAME", "index_Name"}), V: tgt}}, fields...)
	case "dupcase-foreign-first":
		fields = append([]c16KV{{K: vkit.Pick(g.r, []string{"Index_Name", "INDEX_NAME", "index_Name"}), V: tgt}, {K: "index_name", V: own}}, fields...)
	case "dup-own-first":
		fields = append([]c16KV{{K: "index_name", V: own}}, append(fields, c16KV{K: "index_name", V: tgt})...)
	case "dup-foreign-first":
		fields = append([]c16KV{{K: "index_name", V: tgt}}, append(fields, c16KV{K: "index_name", V: own})...)
	case "nested":
		fields = append([]c16KV{{K: "index_name", V: own}, {K: "metadata_x", V: map[string]any{"index_name": tgt}}}, fields...)
	case "unicode-key":
		fields = append([]c16KV{{K: "index_name", V: own}}, append(fields, c16KV{RawKey: `"index\u005fname"`, V: tgt})...)
	case "two-docs":
		a := c16Obj(append([]c16KV{{K: "index_name", V: own}}, fields...))
		b := c16Obj(append([]c16KV{{K: "index_name", V: tgt}}, fields...))
		if g.r.Chance(0.5) {
			a, b = b, a
		}
		return append(append(a, ' '), b...)
	case "array":
		return append(append([]byte("["), c16Obj(append([]c16KV{{K: "index_name", V: tgt}}, fields...))...), ']')
	case "empty":
		return nil
	}
	return c16Obj(fields)
}

// hostile values for one path parameter. kind: "index" (segment after /vector/indexes/),
// "key" (/kv/{key}), "jti" (/auth/keys/{id}), "other".
func (g *c16Gen) paramValues(kind, own, foreign string) []string {
	var out []string
	w := func() string { return vkit.Pick(g.r, g.words) }
	switch kind {
	case "index":
		tgt := foreign
		if tgt == "" {
			tgt = own
		}
		out = []string{own, tgt, tgt, "missing_idx", own + w(), tgt + w(), "x" + w(), w(), own + "/" + w(), tgt + "/" + w(), w() + "/" + tgt,
			strings.ToUpper(tgt), strings.ToLower(tgt), strings.ToUpper(own), own + "%2F" + tgt, own + "/../" + tgt, "../" + tgt, "..", "*",
			own + "::" + "n0", "_sys_auth::ecdsa_private_key", own + "/" + tgt, tgt + "/", " " + tgt, tgt + " "}
	case "key":
		jti := "none"
		if len(g.f.tokens) > 0 {
			jti = vkit.Pick(g.r, g.f.tokens).JTI
		}
		out = append(out, g.f.kvKeys...)
		out = append(out, "newkey", "new"+w(), "k/"+w(), w(), "K%2F"+w(), "..", "_sys_auth::ecdsa_private_key", "_sys_auth::ecdsa_private_key",
			"_sys_auth::revoked::"+jti, "_sys_auth::revoked::"+jti, "_sys_auth::revoked::planted-"+w(), "_SYS_AUTH::ecdsa_private_key", "_sys_auth::"+w(),
			"_sys_auth::revoked::"+jti+"/"+w())
	case "jti":
		for _, t := range g.f.tokens {
			out = append(out, t.JTI)
		}
		out = append(out, "no-such-jti", "x"+w(), "a/"+w(), "..")
	case "artifact": // the fixture compiles artifact "art1" (entity doc/n0) in every index
		out = []string{"art1", "art1", "art1", "art1", "art2", "art1' OR type='doc", "x" + w(), "a/" + w(), ".."}
	default:
		out = []string{"n0", "n1", "n2", "u1", "ghost", "art1", "pipeA", "pipeB", "x" + w(), w(), "a/" + w(), "..", own, foreign + "x", "_sys_auth::ecdsa_private_key", "A%2F" + w()}
	}
	return out
}

// encodeSeg renders a decoded parameter value as URL path text.
func (g *c16Gen) encodeSeg(v string) string {
	switch g.r.Intn(10) {
	case 0: // raw: slashes stay slashes (extra segments), other bytes escaped
		parts := strings.Split(v, "/")
		for i := range parts {
			parts[i] = url.PathEscape(parts[i])
		}
		return strings.Join(parts, "/")
	case 1: // over-escaped: every byte as %XX
		var sb strings.Builder
		for i := 0; i < len(v); i++ {
			fmt.Fprintf(&sb, "%%%02X", v[i])
		}
		return sb.String()
	default:
		return url.PathEscape(v)
	}
}

// c16Directive pins the parts of a request that the directed sweep wants fixed, so that the
// shapes the property singles out are sent for every route whatever the seed.
type c16Directive struct {
	Name    string
	Param   string // "own" | "foreign": value of an index-like path parameter
	Variant string // body index variant
	Query   string // "own" | "foreign": adds ?index_name=&index= with that index; "own-name": only ?index_name=own; "foreign-then-own": both keys twice, foreign first
	Body    bool   // only meaningful for requests that carry a body (skipped for GET / HEAD routes)
	Global  bool   // also sent with the unrestricted read / write tokens
	// LastParam, if set, is the value of the route's last {param} (whatever its kind)
	LastParam string
	NoAB      bool // not repeated for the two-index tokens (the shape does not depend on the list length)
}

var c16Directed = []c16Directive{
	{Name: "path=foreign body=own", Param: "foreign", Variant: "decoy-own"},
	{Name: "path=own body=foreign", Param: "own", Variant: "foreign"},
	{Name: "path=foreign body=own query=own", Param: "foreign", Variant: "own", Query: "own"},
	{Name: "path=own body=own query=foreign", Param: "own", Variant: "own", Query: "foreign"},
	{Name: "path=own body=own (benign)", Param: "own", Variant: "own"},
	{Name: "path=foreign body=foreign", Param: "foreign", Variant: "foreign"},
	// the URL names an index of the token, the body names another one
	{NoAB: true, Name: "query=own body=foreign", Param: "own", Variant: "foreign", Query: "own-name", Body: true},
	// ... and the body is one that a strict decoder of the index fields rejects
	{NoAB: true, Name: "query=own body=foreign+wrongly typed sibling", Param: "own", Variant: "sibling-wrongtype", Query: "own-name", Body: true},
	// the URL names an index of the token in a parameter the handler may not read, nothing
	// else does: a handler with a default index works on that default
	{NoAB: true, Name: "query=index_name=own only", Param: "own", Variant: "missing", Query: "own-name"},
	// repeated query parameters in the hostile order: a handler reads the first value
	// (Query().Get), a checker that looks at the last one sees an index of the token
	{NoAB: true, Name: "query=foreign,own (first value foreign)", Param: "own", Variant: "own", Query: "foreign-then-own"},
	// an index that does not exist yet and is outside the token
	{NoAB: true, Name: "query=own body=fresh index", Param: "own", Variant: "fresh", Query: "own-name", Body: true, Global: true},
}

// instantiate builds one request for a route (dir == nil: everything random).
func (g *c16Gen) instantiate(rt c16Route, tok *c16Token, dir *c16Directive) *c16Req {
	f := g.f
	own, foreign := f.idx[0].Name, ""
	var allowed, denied []string
	for _, ix := range f.idx {
		if tok == nil || tok.allows(ix.Name) {
			allowed = append(allowed, ix.Name)
		} else {
			denied = append(denied, ix.Name)
		}
	}
	if len(allowed) > 0 {
		own = vkit.Pick(g.r, allowed)
	}
	if len(denied) > 0 {
		foreign = vkit.Pick(g.r, denied)
	} else if tok != nil && tok.global() {
		foreign = ""
	}
	g.curOwn, g.curForeign, g.curOwn2 = own, foreign, own
	for _, n := range allowed {
		if n != own {
			g.curOwn2 = n
		}
	}
	q := &c16Req{Route: rt, Params: map[string]string{}, Own: own, Foreign: foreign}
	for _, ix := range f.idx {
		q.fixIdx = append(q.fixIdx, ix.Name)
	}
	// method
	q.Method = rt.Method
	if q.Method == "" {
		q.Method = vkit.Pick(g.r, []string{"GET", "POST", "PUT", "DELETE"})
	} else if dir == nil && g.r.Chance(0.08) {
		q.Method = vkit.Pick(g.r, []string{"GET", "POST", "PUT", "DELETE", "PATCH", "HEAD", "OPTIONS"})
		q.Tags = append(q.Tags, "other-method")
	}
	// path
	segs := strings.Split(strings.TrimPrefix(rt.Path, "/"), "/")
	var outSegs []string
	for i, s := range segs {
		if strings.HasPrefix(s, "{") && strings.HasSuffix(s, "}") {
			kind := "other"
			switch {
			case i >= 2 && segs[i-1] == "indexes" && segs[i-2] == "vector":
				kind = "index"
			case i >= 1 && segs[i-1] == "kv":
				kind = "key"
			case i >= 2 && segs[i-1] == "keys" && segs[i-2] == "auth":
				kind = "jti"
			case i >= 1 && segs[i-1] == "artifact":
				kind = "artifact"
			}
			v := vkit.Pick(g.r, g.paramValues(kind, own, foreign))
			if dir != nil && dir.LastParam != "" && i == len(segs)-1 {
				v = dir.LastParam
				if kind == "index" {
					v = own + strings.TrimPrefix(v, "x")
				}
				q.Params[strings.Trim(s, "{}.")] = v
				outSegs = append(outSegs, url.PathEscape(v))
				continue
			}
			if dir != nil && kind == "index" {
				v = own
				if dir.Param == "foreign" && foreign != "" {
					v = foreign
				}
				q.Params[strings.Trim(s, "{}.")] = v
				outSegs = append(outSegs, url.PathEscape(v))
				continue
			}
			q.Params[strings.Trim(s, "{}.")] = v
			outSegs = append(outSegs, g.encodeSeg(v))
			continue
		}
		if s == "" && i == len(segs)-1 { // subtree pattern "/x/"
			if g.r.Chance(0.5) {
				outSegs = append(outSegs, vkit.Pick(g.r, []string{"", "index.html", "heap", "cmdline", "x" + vkit.Pick(g.r, g.words)}))
			} else {
				outSegs = append(outSegs, "")
			}
			continue
		}
		outSegs = append(outSegs, s)
	}
	target := "/" + strings.Join(outSegs, "/")
	// query string
	tgt := foreign
	if tgt == "" {
		tgt = own
	}
	var qs []string
	if dir != nil {
		if dir.Query != "" {
			v := own
			if dir.Query == "foreign" {
				v = tgt
			}
			if dir.Query == "own-name" {
				qs = append(qs, "index_name="+url.QueryEscape(own), "entity_type=doc", "entity_id=n0")
			} else if dir.Query == "foreign-then-own" {
				qs = append(qs, "index_name="+url.QueryEscape(tgt), "index="+url.QueryEscape(tgt), "index_name="+url.QueryEscape(own), "index="+url.QueryEscape(own), "entity_type=doc", "entity_id=n0")
			} else {
				qs = append(qs, "index_name="+url.QueryEscape(v), "index="+url.QueryEscape(v), "entity_type=doc", "entity_id=n0")
			}
		}
	} else if q.Method == "GET" || q.Method == "HEAD" || g.r.Chance(0.2) {
		switch g.r.Intn(11) {
		case 0:
			qs = append(qs, "index_name="+url.QueryEscape(tgt))
		case 1:
			qs = append(qs, "index="+url.QueryEscape(tgt), "entity_type=doc", "entity_id=n0")
		case 2:
			qs = append(qs, "index_name="+url.QueryEscape(own), "index_name="+url.QueryEscape(tgt))
		case 3:
			qs = append(qs, "status=unresolved", "limit=100")
		case 4: // the hostile order for a "first value" reader
			qs = append(qs, "index_name="+url.QueryEscape(tgt), "index_name="+url.QueryEscape(own))
		case 5: // the key one kind of handler reads first, the other key with an index of the token
			a, b := "index", "index_name"
			if g.r.Chance(0.5) {
				a, b = b, a
			}
			qs = append(qs, a+"="+url.QueryEscape(tgt), b+"="+url.QueryEscape(own), "entity_type=doc", "entity_id=n0")
		case 6: // an index of the token alone: the body (or a handler default) decides
			qs = append(qs, vkit.Pick(g.r, []string{"index_name", "index"})+"="+url.QueryEscape(own), "entity_type=doc", "entity_id=n0")
		case 7: // an empty first value: Query().Get() sees "", a reader of all values sees own
			k := vkit.Pick(g.r, []string{"index_name", "index"})
			qs = append(qs, k+"=", k+"="+url.QueryEscape(own), "entity_type=doc", "entity_id=n0")
		}
	}
	if strings.HasPrefix(rt.Path, "/artifact") && dir == nil {
		// what the artifact routes need to get past their parameter checks
		has := strings.Contains(strings.Join(qs, "&"), "entity_type=")
		if !has && g.r.Chance(0.8) {
			qs = append(qs, "entity_type=doc", "entity_id=n0")
		}
		switch {
		case strings.HasSuffix(rt.Path, "/diff"):
			qs = append(qs, "v1=1", "v2="+vkit.Pick(g.r, []string{"1", "2"}))
		case strings.HasSuffix(rt.Path, "/at"):
			qs = append(qs, "time=99999999999")
		}
	} else if strings.HasPrefix(rt.Path, "/artifact") {
		if strings.HasSuffix(rt.Path, "/diff") {
			qs = append(qs, "v1=1", "v2=1")
		} else if strings.HasSuffix(rt.Path, "/at") {
			qs = append(qs, "time=99999999999")
		}
	}
	if strings.HasPrefix(rt.Path, "/debug/pprof") {
		qs = append(qs, "seconds=1")
	}
	if len(qs) > 0 {
		target += "?" + strings.Join(qs, "&")
	}
	if _, err := url.ParseRequestURI(target); err != nil || strings.ContainsAny(target, " \t\r\n") {
		target = "/" + strings.Join(segs, "/")
		target = strings.NewReplacer("{", "", "}", "").Replace(target)
	}
	q.Target = target
	// body
	if q.Method != "GET" && q.Method != "HEAD" || g.r.Chance(0.05) {
		q.IdxVar = vkit.Pick(g.r, c16IdxVariants)
		// bias towards the shapes that matter most
		if g.r.Chance(0.35) {
			q.IdxVar = vkit.Pick(g.r, []string{"own", "foreign", "decoy-own"})
		}
		if dir != nil {
			q.IdxVar = dir.Variant
		}
		q.Body = g.buildBody(rt.Path, q.IdxVar, own, foreign)
	} else {
		q.IdxVar = "no-body"
	}
	return q
}

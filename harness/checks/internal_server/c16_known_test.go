package server

// C16 — recorded findings: one fixed probe per finding + the narrow generator guard that
// keeps exploratory requests off exactly that trigger while the finding is listed as
// "known" in known_findings.json. The oracles in c16_test.go are never relaxed.

import (
	"bytes"
	"encoding/json"
	"errors"
	"fmt"
	"net/url"
	"strings"

	"github.com/sanonone/kektordb/internal/zzverif/vkit"
)

// c16SuffixWords are read from middleware.go at run time (c16ParseRoutes); this copy is
// only used by the guard of D-C16-1 and is refreshed by TestVerifC16.
var c16SuffixWords []string

// c16Guarded reports whether (tok, q) is exactly the trigger of a finding that is currently
// listed as known. Everything adjacent stays in the generator.
func c16Guarded(ctx *vkit.Ctx, tok *c16Token, q *c16Req) bool {
	if tok.Role == "admin" {
		return false
	}
	p := q.path()
	mutMethod := q.Method == "POST" || q.Method == "PUT" || q.Method == "DELETE"
	lastIsParam := strings.HasSuffix(q.Route.Path, "}")

	// D-C16-1: required role derived from the path suffix. Trigger = read token, mutating
	// method, last path segment supplied by the client (a {param}) and the path ends in one
	// of the words the middleware treats as "this POST is a read".
	if ctx.IsKnown("D-C16-1") && tok.Role == "read" && mutMethod && lastIsParam &&
		!strings.HasPrefix(p, "/system/") && !strings.HasPrefix(p, "/auth/") {
		for _, w := range c16SuffixWords {
			if strings.HasSuffix(p, w) {
				ctx.Count("guarded.D-C16-1", 1)
				return true
			}
		}
	}
	// D-C16-2: the KV routes serve and accept the reserved _sys_auth:: keys.
	if ctx.IsKnown("D-C16-2") && strings.HasPrefix(p, "/kv/_sys_auth::") {
		ctx.Count("guarded.D-C16-2", 1)
		return true
	}
	// D-C16-3: a required role of "admin" is not enforced by HasAccess: /system/* and
	// /auth/* are served to read / write tokens whose namespace list matches.
	if ctx.IsKnown("D-C16-3") && (strings.HasPrefix(p, "/system/") || strings.HasPrefix(p, "/auth/")) {
		// trigger only when the namespace test lets the request through: a [*] token, or a
		// POST whose body carries index_name = an index of the token
		pass := tok.global()
		if !pass && q.Method == "POST" && len(q.Body) > 0 {
			var pl struct {
				IndexName string `json:"index_name"`
			}
			if json.Unmarshal(q.Body, &pl) == nil && pl.IndexName != "" && tok.allows(pl.IndexName) {
				pass = true
			}
		}
		if pass {
			ctx.Count("guarded.D-C16-3", 1)
			return true
		}
	}
	// D-C16-4: namespace taken from body.index_name while the handler works on
	// source_index/target_index (POST /transfer/memory) or on the pipeline's index
	// (POST /rag/retrieve, /rag/retrieve-adaptive). Trigger = restricted token, one of
	// these routes, and the field the handler really uses names an index outside the token.
	if ctx.IsKnown("D-C16-4") && !tok.global() && q.Method == "POST" && len(q.Body) > 0 {
		var m map[string]any
		if json.Unmarshal(firstJSONDoc(q.Body), &m) == nil {
			bad := false
			switch {
			case p == "/transfer/memory":
				for _, k := range []string{"source_index", "target_index"} {
					if s, ok := m[k].(string); ok && !tok.allows(s) {
						bad = true
					}
				}
			case strings.HasPrefix(p, "/rag/retrieve"):
				if s, ok := m["pipeline_name"].(string); ok {
					for i, name := range []string{"pipeA", "pipeB"} {
						if s == name && !tok.allows(q.fixIdx[i]) {
							bad = true
						}
					}
				}
			}
			if bad {
				ctx.Count("guarded.D-C16-4", 1)
				return true
			}
		}
	}
	// D-C16-6: the namespace is cut out of the DECODED path (strings.Split(r.URL.Path, "/")[3])
	// while the mux binds {name} from the escaped path: /vector/indexes/p%2Fq/... is checked as
	// "p" and served as "p/q". Trigger = restricted token, escaped slash inside the 4th segment,
	// text before the slash is an index of the token, the whole name is not.
	if ctx.IsKnown("D-C16-6") && !tok.global() {
		if u, err := url.ParseRequestURI(q.Target); err == nil {
			segs := strings.Split(u.EscapedPath(), "/")
			if len(segs) >= 4 && segs[1] == "vector" && segs[2] == "indexes" {
				if full, err := url.PathUnescape(segs[3]); err == nil && strings.Contains(full, "/") {
					if tok.allows(strings.SplitN(full, "/", 2)[0]) && !tok.allows(full) {
						ctx.Count("guarded.D-C16-6", 1)
						return true
					}
				}
			}
		}
	}
	// D-C16-7: graph node ids are index + "::" + id, so index "t" with id "u::n0" and index
	// "t::u" with id "n0" are the same node. Trigger = restricted token, a fixture index
	// outside the token named <index of the token>::<suffix>, and a body string that starts
	// with "<suffix>::".
	if ctx.IsKnown("D-C16-7") && !tok.global() && len(q.Body) > 0 {
		for _, foreign := range q.fixIdx {
			if tok.allows(foreign) {
				continue
			}
			for _, own := range q.fixIdx {
				if tok.allows(own) && strings.HasPrefix(foreign, own+"::") {
					if bytes.Contains(q.Body, []byte(`"`+strings.TrimPrefix(foreign, own+"::")+"::")) {
						ctx.Count("guarded.D-C16-7", 1)
						return true
					}
				}
			}
		}
	}
	// D-C16-8: requestNamespaces (middleware.go) takes the body's index fields only when its own
	// Decode of {index_name, source_index, target_index, pipeline_name} returns no error; a
	// wrongly typed one of these makes it drop them all, while a handler that does not know that
	// field (decodeJSONLenient) accepts the body. Trigger = restricted token, POST, the
	// middleware's decode fails with a type error, and a field that did decode names an index
	// outside the token.
	if ctx.IsKnown("D-C16-8") && !tok.global() && q.Method == "POST" && len(q.Body) > 0 {
		pl, err := c16MiddlewareDecode(q.Body)
		var te *json.UnmarshalTypeError
		if err != nil && errors.As(err, &te) {
			bad := false
			for _, n := range []string{pl.IndexName, pl.SourceIndex, pl.TargetIndex} {
				if n != "" && !tok.allows(n) {
					bad = true
				}
			}
			for i, name := range []string{"pipeA", "pipeB"} {
				if pl.PipelineName == name && !tok.allows(q.fixIdx[i]) {
					bad = true
				}
			}
			if bad {
				ctx.Count("guarded.D-C16-8", 1)
				return true
			}
		}
	}
	// D-C16-9: the compiler handlers fall back to a default index ("mcp_memory") when THEIR
	// selector (?index for the GET routes, body.index_name for POST /compile) is empty, while the
	// middleware is satisfied by an index named anywhere else in the URL. Trigger = restricted
	// token that does not cover the default index, that index exists, a route of a source file
	// with such a default, the handler's selector empty, and the URL names some index.
	if ctx.IsKnown("D-C16-9") && !tok.global() && len(c16DefaultIdx[q.Route.File]) > 0 {
		exposed := false
		for _, d := range c16DefaultIdx[q.Route.File] {
			for _, n := range q.fixIdx {
				if n == d && !tok.allows(d) {
					exposed = true
				}
			}
		}
		if u, err := url.ParseRequestURI(q.Target); err == nil && exposed {
			qv := u.Query()
			named := false
			for _, k := range []string{"index", "index_name"} {
				for _, v := range qv[k] {
					named = named || v != ""
				}
			}
			selector := qv.Get("index")
			if q.Method == "POST" {
				pl, _ := c16MiddlewareDecode(q.Body)
				selector = pl.IndexName
			}
			if named && selector == "" {
				ctx.Count("guarded.D-C16-9", 1)
				return true
			}
		}
	}
	// D-C16-11: the profiling routes are served to any read / write token that names an index of
	// its own (or is global), and /debug/pprof/cmdline prints the command line of the process -
	// which holds the root token when it was passed as --auth-token. Trigger = non-admin token +
	// exactly that path (the other profiling routes stay in the generator).
	if ctx.IsKnown("D-C16-11") && p == "/debug/pprof/cmdline" {
		ctx.Count("guarded.D-C16-11", 1)
		return true
	}
	return false
}

type c16IdxPayload struct {
	IndexName    string `json:"index_name"`
	SourceIndex  string `json:"source_index"`
	TargetIndex  string `json:"target_index"`
	PipelineName string `json:"pipeline_name"`
}

// c16MiddlewareDecode decodes the first JSON document of a body into the four index fields
// the way encoding/json does for any struct: on a type error the other fields are still filled.
func c16MiddlewareDecode(b []byte) (c16IdxPayload, error) {
	var pl c16IdxPayload
	err := json.NewDecoder(bytes.NewReader(b)).Decode(&pl)
	return pl, err
}

func firstJSONDoc(b []byte) []byte {
	dec := json.NewDecoder(bytes.NewReader(b))
	var raw json.RawMessage
	if dec.Decode(&raw) == nil {
		return raw
	}
	return b
}

func c16Probes(ctx *vkit.Ctx, routes []c16Route, words []string) {
	names := [3]string{"mysearch", "beta", "gamma"}
	c16Artifacts = true
	defer func() { c16Artifacts = false }()

	// D-C16-1 — DESIGN D16 (first half)
	ctx.Probe("D-C16-1", func(cs *vkit.Case) string {
		f := newC16Fix(ctx, cs, names)
		defer f.close()
		var fails []string
		tA := f.mint("read", []string{"mysearch"})
		cs.Op("read[mysearch]: DELETE /vector/indexes/mysearch")
		rs := f.do("DELETE", "/vector/indexes/mysearch", tA.Token, nil)
		f.settle()
		if !f.eng.IndexExists("mysearch") {
			fails = append(fails, fmt.Sprintf("DELETE /vector/indexes/mysearch with a READ token for namespace [mysearch] answered %d and the index is gone (expected: refused, index intact); middleware.go:160-166 classifies any POST/PUT/DELETE whose path ends in \"search\" (…) as read", rs.Code))
		}
		tS := f.mint("read", []string{"*"})
		cs.Op("read[*]: DELETE /kv/xsearch")
		rs = f.do("DELETE", "/kv/xsearch", tS.Token, nil)
		if _, ok := f.eng.KVGet("xsearch"); !ok {
			fails = append(fails, fmt.Sprintf("DELETE /kv/xsearch with a READ token [*] answered %d and the key is gone", rs.Code))
		}
		cs.Op("read[*]: PUT /kv/new-traverse")
		rs = f.do("PUT", "/kv/new-traverse", tS.Token, []byte(`{"value":"w"}`))
		if _, ok := f.eng.KVGet("new-traverse"); ok {
			fails = append(fails, fmt.Sprintf("PUT /kv/new-traverse with a READ token [*] answered %d and the key was written", rs.Code))
		}
		return strings.Join(fails, " || ")
	})

	// D-C16-2 — DESIGN D16 (second half)
	ctx.Probe("D-C16-2", func(cs *vkit.Case) string {
		f := newC16Fix(ctx, cs, names)
		defer f.close()
		var fails []string
		tR := f.mint("read", []string{"*"})
		tW := f.mint("write", []string{"*"})
		victim := f.mint("admin", []string{"*"})
		cs.Op("read[*]: GET /kv/_sys_auth::ecdsa_private_key")
		rs := f.do("GET", "/kv/_sys_auth::ecdsa_private_key", tR.Token, nil)
		for _, kr := range f.keyRenderings() {
			if bytes.Contains(rs.Body, kr) {
				fails = append(fails, fmt.Sprintf("GET /kv/_sys_auth::ecdsa_private_key with a READ token [*] answered %d with the stored signing key in the body (http_handlers.go:427 handleKVGet has no reserved-prefix check)", rs.Code))
				break
			}
		}
		cs.Op("write[*]: PUT /kv/_sys_auth::revoked::<jti of an admin token>")
		rs = f.do("PUT", "/kv/_sys_auth::revoked::"+victim.JTI, tW.Token, []byte(`{"value":"1"}`))
		if _, err := f.srv.authService.VerifyToken(victim.Token); err != nil {
			fails = append(fails, fmt.Sprintf("PUT /kv/_sys_auth::revoked::<jti> with a WRITE token answered %d and revoked another (admin) token", rs.Code))
		}
		revoked := f.mint("read", []string{"*"})
		f.rootJSON("DELETE", "/auth/keys/"+revoked.JTI, nil)
		cs.Op("write[*]: DELETE /kv/_sys_auth::revoked::<jti of a revoked token>")
		rs = f.do("DELETE", "/kv/_sys_auth::revoked::"+revoked.JTI, tW.Token, nil)
		if _, err := f.srv.authService.VerifyToken(revoked.Token); err == nil {
			fails = append(fails, fmt.Sprintf("DELETE /kv/_sys_auth::revoked::<jti> with a WRITE token answered %d and un-revoked a revoked token", rs.Code))
		}
		return strings.Join(fails, " || ")
	})

	// D-C16-3 — new: admin requirement not enforced
	ctx.Probe("D-C16-3", func(cs *vkit.Case) string {
		f := newC16Fix(ctx, cs, names)
		defer f.close()
		var fails []string
		tR := f.mint("read", []string{"*"})
		cs.Op("read[*]: POST /auth/keys {role:admin}")
		rs := f.do("POST", "/auth/keys", tR.Token, []byte(`{"role":"admin","namespaces":["*"],"description":"escalated"}`))
		if m := f.mintedTokens(rs.Body, tR.Token); len(m) > 0 {
			p, _ := f.srv.authService.VerifyToken(m[0])
			fails = append(fails, fmt.Sprintf("POST /auth/keys {\"role\":\"admin\"} with a READ token [*] answered %d and returned a valid %s token (rbac.go:119-124 HasAccess only rejects when requiredRole==write; requiredRole==admin set at middleware.go:157 is never compared)", rs.Code, p.Role))
		}
		tA := f.mint("read", []string{"mysearch"})
		h0 := c16Hits()
		cs.Op("read[mysearch]: POST /system/save {index_name:mysearch}")
		rs = f.do("POST", "/system/save", tA.Token, []byte(`{"index_name":"mysearch"}`))
		if d := c16Hits()["snap.begin"] - h0["snap.begin"]; d > 0 {
			fails = append(fails, fmt.Sprintf("POST /system/save {\"index_name\":\"mysearch\"} with a READ token restricted to [mysearch] answered %d and a snapshot was taken", rs.Code))
		}
		victim := f.mint("admin", []string{"*"})
		tW := f.mint("write", []string{"*"})
		cs.Op("write[*]: DELETE /auth/keys/<jti of an admin token>")
		rs = f.do("DELETE", "/auth/keys/"+victim.JTI, tW.Token, nil)
		if _, err := f.srv.authService.VerifyToken(victim.Token); err != nil {
			fails = append(fails, fmt.Sprintf("DELETE /auth/keys/<jti> with a WRITE token [*] answered %d and revoked an admin token", rs.Code))
		}
		return strings.Join(fails, " || ")
	})

	// D-C16-4 — new: namespace read from a field the handler does not use
	ctx.Probe("D-C16-4", func(cs *vkit.Case) string {
		f := newC16Fix(ctx, cs, [3]string{"alpha", "beta", "gamma"})
		defer f.close()
		f.installPipelines()
		var fails []string
		has := func(b []byte, ix *c16Index) string {
			for _, c := range ix.Canaries {
				if bytes.Contains(b, []byte(c)) {
					return c
				}
			}
			return ""
		}
		tR := f.mint("read", []string{"alpha"})
		cs.Op("read[alpha]: POST /rag/retrieve {index_name:alpha, pipeline_name:pipeB}")
		rs := f.do("POST", "/rag/retrieve", tR.Token, []byte(`{"index_name":"alpha","pipeline_name":"pipeB","query":"hello","k":5}`))
		if c := has(rs.Body, f.idx[1]); c != "" {
			fails = append(fails, fmt.Sprintf("POST /rag/retrieve {\"index_name\":\"alpha\",\"pipeline_name\":\"pipeB\"} with a READ token restricted to [alpha] answered %d with content of index beta (%s) (middleware.go:209-216 reads only index_name; http_handlers.go:1705 uses pipeline_name)", rs.Code, c))
		}
		tW := f.mint("write", []string{"alpha"})
		before := f.observe()
		cs.Op("write[alpha]: POST /transfer/memory {index_name:alpha, source_index:beta, target_index:alpha}")
		rs = f.do("POST", "/transfer/memory", tW.Token, []byte(`{"index_name":"alpha","source_index":"beta","target_index":"alpha","query":"hello","limit":5}`))
		f.settle()
		after := f.observe()
		pa := c16PartOf("alpha", after)
		pb := c16PartOf("alpha", before)
		for k, v := range pa {
			for _, c := range f.idx[1].Canaries {
				if strings.Contains(v, c) && !strings.Contains(pb[k], c) {
					fails = append(fails, fmt.Sprintf("POST /transfer/memory {index_name:alpha, source_index:beta, target_index:alpha} with a WRITE token restricted to [alpha] answered %d and copied beta's data into alpha (%s) (http_handlers.go:273 uses source_index/target_index)", rs.Code, k))
					goto second
				}
			}
		}
	second:
		cs.Op("write[alpha]: POST /transfer/memory {index_name:alpha, source_index:alpha, target_index:beta}")
		rs = f.do("POST", "/transfer/memory", tW.Token, []byte(`{"index_name":"alpha","source_index":"alpha","target_index":"beta","query":"hello","limit":5}`))
		f.settle()
		if d := c16DiffMaps(c16PartOf("beta", after), c16PartOf("beta", f.observe())); len(d) > 0 {
			fails = append(fails, fmt.Sprintf("POST /transfer/memory {index_name:alpha, source_index:alpha, target_index:beta} with a WRITE token restricted to [alpha] answered %d and modified beta: %s", rs.Code, c16Trunc(d[0])))
		}
		return strings.Join(fails, " || ")
	})

	// D-C16-6 — new: namespace cut from the decoded path, handler bound from the escaped path
	ctx.Probe("D-C16-6", func(cs *vkit.Case) string {
		f := newC16Fix(ctx, cs, [3]string{"p", "p/q", "q"})
		defer f.close()
		if f.namesRejected {
			return "" // an index called "p/q" cannot exist: the scenario has no subject
		}
		var fails []string
		tR := f.mint("read", []string{"p"})
		cs.Op("read[p]: GET /vector/indexes/p%%2Fq/vectors/n0")
		rs := f.do("GET", "/vector/indexes/p%2Fq/vectors/n0", tR.Token, nil)
		for _, c := range f.idx[1].Canaries {
			if bytes.Contains(rs.Body, []byte(c)) {
				fails = append(fails, fmt.Sprintf("GET /vector/indexes/p%%2Fq/vectors/n0 with a READ token restricted to [p] answered %d with data of index \"p/q\" (%s): middleware.go:193-196 splits the decoded r.URL.Path and checks \"p\"; the mux binds {name}=\"p/q\"", rs.Code, c))
				break
			}
		}
		tW := f.mint("write", []string{"p"})
		cs.Op("write[p]: DELETE /vector/indexes/p%%2Fq")
		rs = f.do("DELETE", "/vector/indexes/p%2Fq", tW.Token, nil)
		f.settle()
		if !f.eng.IndexExists("p/q") {
			fails = append(fails, fmt.Sprintf("DELETE /vector/indexes/p%%2Fq with a WRITE token restricted to [p] answered %d and index \"p/q\" is gone", rs.Code))
		}
		return strings.Join(fails, " || ")
	})

	// D-C16-7 — new: graph ids of different indexes collide
	ctx.Probe("D-C16-7", func(cs *vkit.Case) string {
		f := newC16Fix(ctx, cs, [3]string{"t", "t::u", "u"})
		defer f.close()
		if f.namesRejected {
			return "" // an index called "t::u" cannot exist: the scenario has no subject
		}
		var fails []string
		tR := f.mint("read", []string{"t"})
		cs.Op("read[t]: POST /graph/actions/get-edges {index_name:t, source_id:u::n0}")
		rs := f.do("POST", "/graph/actions/get-edges", tR.Token, []byte(`{"index_name":"t","source_id":"u::n0","relation_type":"next","direction":"out"}`))
		for _, c := range f.idx[1].Canaries {
			if bytes.Contains(rs.Body, []byte(c)) {
				fails = append(fails, fmt.Sprintf("POST /graph/actions/get-edges {\"index_name\":\"t\",\"source_id\":\"u::n0\",...} with a READ token restricted to [t] answered %d with an edge of index \"t::u\" (%s): pkg/engine/graph.go:25-30 buildGraphID = index+\"::\"+id is ambiguous", rs.Code, c))
				break
			}
		}
		tW := f.mint("write", []string{"t"})
		before := c16PartOf("t::u", f.observe())
		cs.Op("write[t]: POST /graph/actions/link {index_name:t, source_id:u::n2, target_id:zz}")
		rs = f.do("POST", "/graph/actions/link", tW.Token, []byte(`{"index_name":"t","source_id":"u::n2","target_id":"zz","relation_type":"parent"}`))
		if d := c16DiffMaps(before, c16PartOf("t::u", f.observe())); len(d) > 0 {
			fails = append(fails, fmt.Sprintf("POST /graph/actions/link {\"index_name\":\"t\",\"source_id\":\"u::n2\",...} with a WRITE token restricted to [t] answered %d and changed the graph of index \"t::u\": %s", rs.Code, c16Trunc(d[0])))
		}
		return strings.Join(fails, " || ")
	})
	hasCanary := func(b []byte, ix *c16Index) string {
		for _, c := range ix.Canaries {
			if c != "" && bytes.Contains(b, []byte(c)) {
				return c
			}
		}
		return ""
	}

	// D-C16-8 — new: a wrongly typed sibling field makes the middleware ignore the body's indexes
	ctx.Probe("D-C16-8", func(cs *vkit.Case) string {
		f := newC16Fix(ctx, cs, [3]string{"alpha", "beta", "gamma"})
		defer f.close()
		var fails []string
		tR := f.mint("read", []string{"alpha"})
		tW := f.mint("write", []string{"alpha"})
		// control: the same requests without the sibling field are refused
		cs.Op("read[alpha]: POST /graph/actions/get-links?index_name=alpha {index_name:beta} (control)")
		rs := f.do("POST", "/graph/actions/get-links?index_name=alpha", tR.Token, []byte(`{"index_name":"beta","source_id":"n0","relation_type":"next"}`))
		if c := hasCanary(rs.Body, f.idx[1]); c != "" {
			fails = append(fails, fmt.Sprintf("POST /graph/actions/get-links?index_name=alpha {\"index_name\":\"beta\",...} with a READ token restricted to [alpha] answered %d with data of beta (%s)", rs.Code, c))
		}
		cs.Op("read[alpha]: POST /graph/actions/get-links?index_name=alpha {index_name:beta, pipeline_name:7}")
		rs = f.do("POST", "/graph/actions/get-links?index_name=alpha", tR.Token, []byte(`{"index_name":"beta","source_id":"n0","relation_type":"next","pipeline_name":7}`))
		if c := hasCanary(rs.Body, f.idx[1]); c != "" {
			fails = append(fails, fmt.Sprintf("POST /graph/actions/get-links?index_name=alpha {\"index_name\":\"beta\",\"source_id\":\"n0\",\"relation_type\":\"next\",\"pipeline_name\":7} with a READ token restricted to [alpha] answered %d with data of index beta (%s); expected 403 as without \"pipeline_name\":7 (middleware.go:275 uses the body's index fields only if Decode returned no error - the type error on pipeline_name discards index_name too; handleGraphGetLinks decodes leniently and ignores the unknown field)", rs.Code, c))
		}
		before := c16PartOf("beta", f.observe())
		cs.Op("write[alpha]: POST /graph/actions/link?index=alpha {index_name:beta, target_index:[]}")
		rs = f.do("POST", "/graph/actions/link?index=alpha", tW.Token, []byte(`{"index_name":"beta","source_id":"n3","target_id":"n0","relation_type":"parent","target_index":[]}`))
		f.settle()
		if d := c16DiffMaps(before, c16PartOf("beta", f.observe())); len(d) > 0 {
			fails = append(fails, fmt.Sprintf("POST /graph/actions/link?index=alpha {\"index_name\":\"beta\",\"source_id\":\"n3\",\"target_id\":\"n0\",\"relation_type\":\"parent\",\"target_index\":[]} with a WRITE token restricted to [alpha] answered %d and modified index beta: %s", rs.Code, c16Trunc(d[len(d)-1])))
		}
		return strings.Join(fails, " || ")
	})

	// D-C16-9 — new: handler default index behind a namespace check satisfied elsewhere
	ctx.Probe("D-C16-9", func(cs *vkit.Case) string {
		f := newC16Fix(ctx, cs, [3]string{"alpha", "mcp_memory", "gamma"})
		defer f.close()
		if f.namesRejected {
			return "" // an index called "mcp_memory" cannot exist: the scenario has no subject
		}
		var fails []string
		tR := f.mint("read", []string{"alpha"})
		tW := f.mint("write", []string{"alpha"})
		cs.Op("read[alpha]: GET /artifacts?index=mcp_memory (control)")
		rs := f.do("GET", "/artifacts?index=mcp_memory", tR.Token, nil)
		if c := hasCanary(rs.Body, f.idx[1]); c != "" {
			fails = append(fails, fmt.Sprintf("GET /artifacts?index=mcp_memory with a READ token restricted to [alpha] answered %d with data of mcp_memory (%s)", rs.Code, c))
		}
		cs.Op("read[alpha]: GET /artifacts?index_name=alpha")
		rs = f.do("GET", "/artifacts?index_name=alpha", tR.Token, nil)
		if c := hasCanary(rs.Body, f.idx[1]); c != "" {
			fails = append(fails, fmt.Sprintf("GET /artifacts?index_name=alpha with a READ token restricted to [alpha] answered %d with the artifacts of index mcp_memory (%s); expected: refused or alpha's artifacts (middleware.go:252 accepts ?index_name=alpha as the namespace; compiler_handlers.go:96-98 reads only ?index and falls back to \"mcp_memory\")", rs.Code, c))
		}
		cs.Op("read[alpha]: GET /artifact/art1?index=&index=alpha&entity_type=doc&entity_id=n0")
		rs = f.do("GET", "/artifact/art1?index=&index=alpha&entity_type=doc&entity_id=n0", tR.Token, nil)
		if c := hasCanary(rs.Body, f.idx[1]); c != "" {
			fails = append(fails, fmt.Sprintf("GET /artifact/art1?index=&index=alpha&entity_type=doc&entity_id=n0 with a READ token restricted to [alpha] answered %d with an artifact of index mcp_memory (%s) (the middleware checks every ?index value, the handler's Query().Get sees the empty first one: compiler_handlers.go:118-122)", rs.Code, c))
		}
		before := c16PartOf("mcp_memory", f.observe())
		cs.Op("write[alpha]: POST /compile?index=alpha {name:art2,...} without index_name")
		rs = f.do("POST", "/compile?index=alpha", tW.Token, []byte(`{"name":"art2","template":"entity_card","sources":{"type":"all","entity":{"type":"doc","id":"n0"}}}`))
		f.settle()
		if d := c16DiffMaps(before, c16PartOf("mcp_memory", f.observe())); len(d) > 0 {
			fails = append(fails, fmt.Sprintf("POST /compile?index=alpha {\"name\":\"art2\",\"template\":\"entity_card\",\"sources\":{...}} (no index_name) with a WRITE token restricted to [alpha] answered %d and wrote an artifact into index mcp_memory (compiler_handlers.go:40-42): %s", rs.Code, c16Trunc(d[len(d)-1])))
		}
		return strings.Join(fails, " || ")
	})
	// D-C16-10 — the event stream carries the events of every index
	ctx.Probe("D-C16-10", func(cs *vkit.Case) string {
		c16Artifacts = false
		f := newC16Fix(ctx, cs, [3]string{"alpha", "beta", "gamma"})
		defer f.close()
		var fails []string
		tR := f.mint("read", []string{"alpha"})
		cs.Op("read[alpha]: GET /events/stream (no index named; control: must be refused)")
		code, evs, _, _ := f.streamEpisode(tR, "/events/stream", "alpha", []string{"beta"})
		if code >= 200 && code < 300 {
			fails = append(fails, fmt.Sprintf("GET /events/stream with a READ token restricted to [alpha] answered %d (%d events)", code, len(evs)))
		}
		for _, target := range []string{"/events/stream?index=alpha", "/events/stream?index_name=alpha"} {
			cs.Op("read[alpha]: GET %s while root adds a vector to beta, gamma, then alpha", target)
			code, evs, raw, seen := f.streamEpisode(tR, target, "alpha", []string{"beta", "gamma"})
			if !seen {
				continue // refused, or the stream does not report additions: nothing was read
			}
			for _, ev := range evs {
				if !tR.allows(ev.IndexName) {
					fails = append(fails, fmt.Sprintf("GET %s with a READ token restricted to [alpha] answered %d and streamed the events of other indexes: %s id %q of index %q (expected: only alpha's events, or a refusal) - http_handlers.go:2127 subscribes to the engine-wide bus and forwards every event; stream: %s", target, code, ev.Type, ev.ID, ev.IndexName, c16Trunc(string(raw))))
					break
				}
			}
		}
		return strings.Join(fails, " || ")
	})
	// D-C16-11 - the command line (with the root token) is served to read / write tokens
	ctx.Probe("D-C16-11", func(cs *vkit.Case) string {
		c16Artifacts = false
		f := newC16Fix(ctx, cs, [3]string{"alpha", "beta", "gamma"})
		defer f.close()
		var fails []string
		c16WithCmdline(func() {
			tA := f.mint("read", []string{"alpha"})
			cs.Op("read[alpha]: GET /debug/pprof/cmdline?index_name=alpha (control: a restricted token must be refused)")
			rs := f.do("GET", "/debug/pprof/cmdline?index_name=alpha", tA.Token, nil)
			if bytes.Contains(rs.Body, []byte(c16Root)) {
				fails = append(fails, fmt.Sprintf("GET /debug/pprof/cmdline?index_name=alpha with a READ token restricted to [alpha] answered %d with the command line of the process, which contains the root token", rs.Code))
			}
			for _, role := range []string{"read", "write"} {
				t := f.mint(role, []string{"*"})
				m := map[string]string{"read": "GET", "write": "POST"}[role]
				cs.Op("%s[*]: %s /debug/pprof/cmdline", role, m)
				rs := f.do(m, "/debug/pprof/cmdline", t.Token, nil)
				if bytes.Contains(rs.Body, []byte(c16Root)) {
					fails = append(fails, fmt.Sprintf("%s /debug/pprof/cmdline with a %s token [*] answered %d with the command line of the process (server started as `kektordb --auth-token <root>`), i.e. with the root token: requiredRoleFor (internal/server/middleware.go) asks only read (GET/HEAD) or write for /debug/pprof/*, so a non-admin token obtains the credential that opens /system and /auth", m, strings.ToUpper(role), rs.Code))
				}
			}
		})
		return strings.Join(fails, " || ")
	})
}

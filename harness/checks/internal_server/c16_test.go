package server

// C16 — authentication and role/namespace checks cannot be bypassed.
//
// Oracles are state based (DESIGN.md C16): what a request *did* is read from a full engine
// read-out taken before and after it, from the instrumentation counters of the engine's
// mutating operations / snapshot / rewrite, and from the bytes of the response — never from
// how the middleware classified the route.

import (
	"bytes"
	"fmt"
	"net/url"
	"os"
	"sort"
	"strings"
	"testing"

	"github.com/sanonone/kektordb/internal/zzverif/vexec"
	"github.com/sanonone/kektordb/internal/zzverif/vkit"
	"github.com/sanonone/kektordb/pkg/verifhook"
)

type c16Viol struct {
	Kind string // read-mutation | admin-reach | ns-modify | ns-read | ns-leak | auth
	Msg  string
}

// c16Check sends q with tok and evaluates oracles (1)-(3). It returns the violations found.
func (f *c16Fix) check(tok *c16Token, q *c16Req) []c16Viol {
	before := f.lastObs
	if before == nil {
		before = f.observe()
	}
	hb := verifhook.Hits()
	keyR := f.keyRenderings()
	f.cs.Op("%s -> %s", tok, q)
	rs := f.do(q.Method, q.Target, tok.Token, q.Body)
	f.settle()
	after := f.observe()
	ha := verifhook.Hits()
	f.lastObs = after
	f.ctx.Count("requests", 1)
	f.ctx.Count(fmt.Sprintf("status.%dxx", rs.Code/100), 1)
	f.ctx.Count("role."+tok.Role, 1)
	served := rs.Code >= 200 && rs.Code < 300
	if served {
		f.ctx.Count("served."+tok.Role, 1)
	}
	var out []c16Viol
	add := func(kind, format string, a ...any) {
		out = append(out, c16Viol{kind, fmt.Sprintf(format, a...) + fmt.Sprintf(" | request: %s | token: %s | response: %d %s", q, tok, rs.Code, c16Trunc(string(rs.Body)))})
	}
	if tok.Role == "admin" {
		return nil // full access by definition (pkg/auth/rbac.go: "Admin can do anything anywhere")
	}
	diff := vexec.Diff(before, after)
	mutB, _ := c16MutHits(hb)
	mutA, mutNames := c16MutHits(ha)

	// (1) read role => no mutation
	if tok.Role == "read" {
		if len(diff) > 0 {
			add("read-mutation", "a read-role token changed the state: %s", strings.Join(diff[:min(len(diff), 6)], " ; "))
		} else if mutA != mutB {
			add("read-mutation", "a read-role token reached a mutating engine operation (journal written): hook counters now %s", mutNames)
		}
	}
	// (2) non-admin => no system / auth administration
	if d := c16DiffMaps(c16SysPart(before), c16SysPart(after)); len(d) > 0 {
		add("admin-reach", "a %s-role token changed the auth state kept in the KV store (signing key / revocation markers): %s", tok.Role, strings.Join(d, " ; "))
	}
	if n := c16HookDelta(hb, ha, "rw.begin"); n > 0 {
		add("admin-reach", "a %s-role token started an AOF rewrite (rw.begin +%d)", tok.Role, n)
	}
	snap := c16HookDelta(hb, ha, "snap.begin")
	// snapshots that data-plane operations take as part of their own durability (import
	// commit, index drop, compression) are not administration
	legit := c16HookDelta(hb, ha, "op.VImportCommit.saved") + c16HookDelta(hb, ha, "op.VDeleteIndex.applied") + c16HookDelta(hb, ha, "op.VCompress.rebuilt")
	if snap > legit {
		add("admin-reach", "a %s-role token triggered a snapshot (snap.begin +%d, of which %d belong to import-commit / index-drop)", tok.Role, snap, legit)
	}
	for _, kr := range keyR {
		if len(kr) > 0 && bytes.Contains(rs.Body, kr) {
			add("admin-reach", "the response to a %s-role token contains the signing key", tok.Role)
			break
		}
	}
	// the root token is the key to all administration ("served only if it carries the root
	// token ..."): a response that hands it to a read / write token hands over /system and /auth
	if bytes.Contains(rs.Body, []byte(c16Root)) && !bytes.Contains(q.Body, []byte(c16Root)) && !strings.Contains(q.Target, c16Root) {
		add("admin-reach", "the response to a %s-role token contains the root token", tok.Role)
	}
	if m := f.mintedTokens(rs.Body, tok.Token); len(m) > 0 {
		add("admin-reach", "the response to a %s-role token carries %d freshly minted token(s) that this server accepts", tok.Role, len(m))
	}
	p := q.path()
	if served && (strings.HasPrefix(p, "/system/") || strings.HasPrefix(p, "/auth/")) &&
		(strings.HasPrefix(q.Route.Path, "/system/") || strings.HasPrefix(q.Route.Path, "/auth/")) {
		add("admin-reach", "a %s-role token was served by an administration route (%s)", tok.Role, q.Route.Pattern)
	}
	// (3) namespace
	if !tok.global() {
		bi := strings.Split(before.Vals["indexes"], ",")
		ai := strings.Split(after.Vals["indexes"], ",")
		for _, n := range c16SetDiff(bi, ai) {
			if n != "" && !tok.allows(n) {
				add("ns-modify", "a token restricted to %v created or dropped index %q", tok.NS, n)
			}
		}
		for _, ix := range f.idx {
			if tok.allows(ix.Name) {
				continue
			}
			if d := c16DiffMaps(c16PartOf(ix.Name, before), c16PartOf(ix.Name, after)); len(d) > 0 {
				add("ns-modify", "a token restricted to %v modified index %q: %s", tok.NS, ix.Name, strings.Join(d[:min(len(d), 5)], " ; "))
			}
			for _, c := range ix.Canaries {
				if c != "" && bytes.Contains(rs.Body, []byte(c)) {
					add("ns-read", "a token restricted to %v received data of index %q (canary %s in the response)", tok.NS, ix.Name, c)
					break
				}
			}
			// data copied out of the foreign index into an index the token can read
			for _, own := range f.idx {
				if !tok.allows(own.Name) {
					continue
				}
				pb, pa := c16PartOf(own.Name, before), c16PartOf(own.Name, after)
				leak := ""
				for k, v := range pa {
					if v == pb[k] {
						continue
					}
					for _, c := range ix.Canaries {
						if c != "" && strings.Contains(v, c) && !strings.Contains(pb[k], c) {
							leak = fmt.Sprintf("%s now contains %s", k, c)
						}
					}
				}
				if leak != "" {
					add("ns-leak", "a token restricted to %v copied data of index %q into index %q: %s", tok.NS, ix.Name, own.Name, leak)
				}
			}
		}
	}
	return out
}

func c16SetDiff(a, b []string) []string {
	ma, mb := map[string]bool{}, map[string]bool{}
	for _, x := range a {
		ma[x] = true
	}
	for _, x := range b {
		mb[x] = true
	}
	var out []string
	for x := range ma {
		if !mb[x] {
			out = append(out, x)
		}
	}
	for x := range mb {
		if !ma[x] {
			out = append(out, x)
		}
	}
	sort.Strings(out)
	return out
}

// fixtureDamaged reports whether a (legitimate) request destroyed what later requests need
// to be meaningful: then the case rebuilds the fixture.
func (f *c16Fix) damaged() bool {
	for _, ix := range f.idx {
		if !f.eng.IndexExists(ix.Name) {
			return true
		}
		d, err := f.eng.VGet(ix.Name, "n0")
		if err != nil || d.Metadata["content"] == nil {
			return true
		}
	}
	if _, ok := f.eng.KVGet("_sys_auth::ecdsa_private_key"); !ok {
		return true
	}
	return false
}

var c16TokenSpecs = []struct {
	Role string
	NS   string // "A" | "AB" | "*"
}{
	{"read", "A"}, {"read", "AB"}, {"read", "*"},
	{"write", "A"}, {"write", "AB"}, {"write", "*"},
	{"admin", "A"}, {"admin", "AB"}, {"admin", "*"},
}

func (f *c16Fix) mintSpec(role, ns string) *c16Token {
	switch ns {
	case "A":
		return f.mint(role, []string{f.idx[0].Name})
	case "AB":
		return f.mint(role, []string{f.idx[0].Name, f.idx[1].Name})
	case "AA": // a duplicate entry restricts like a single one
		return f.mint(role, []string{f.idx[0].Name, f.idx[0].Name})
	case "A+missing": // an entry for an index that does not exist widens nothing
		return f.mint(role, []string{f.idx[0].Name, "no_such_index"})
	case "E": // the empty name is no index: such a token covers nothing
		return f.mint(role, []string{""})
	case "A*": // a list that contains the wildcard is global
		return f.mint(role, []string{f.idx[0].Name, "*"})
	}
	return f.mint(role, []string{"*"})
}

// c16OddSpecs: namespace-list shapes beyond [A], [A,B], [*] (random group only).
var c16OddSpecs = []string{"AA", "A+missing", "E", "A*"}

var c16Collect = os.Getenv("VERIF_C16_COLLECT") != "" // development aid: tally instead of failing

// c16Report turns violations into a verdict (or a tally in collect mode).
func c16Report(ctx *vkit.Ctx, cs *vkit.Case, tok *c16Token, q *c16Req, vs []c16Viol) {
	if len(vs) == 0 {
		return
	}
	if c16Collect {
		for _, v := range vs {
			ctx.Count(fmt.Sprintf("COLLECT %s | %s | %s ns=%d | idx=%s", v.Kind, q.Route.Pattern, tok.Role, len(tok.NS), q.IdxVar), 1)
			ctx.Sample("collect."+v.Kind+"."+q.Route.Pattern, 1, v.Msg)
		}
		return
	}
	var msgs []string
	for _, v := range vs {
		msgs = append(msgs, "["+v.Kind+"] "+v.Msg)
	}
	cs.Fail("%s", strings.Join(msgs, "\n"))
}

func TestVerifC16(t *testing.T) {
	vkit.Run(t, "C16", func(ctx *vkit.Ctx) {
		routes, words, err := c16ParseRoutes()
		if err != nil || len(routes) == 0 {
			ctx.Inconclusive(fmt.Sprintf("route table could not be parsed from %s: %v", c16RepoDir(), err))
			return
		}
		ctx.Count("routes_parsed", int64(len(routes)))
		ctx.Count("middleware_words", int64(len(words)))
		ctx.Count("middleware_listed_route_words", int64(c16ListedWords))
		ctx.Count("default_index_names_parsed", int64(len(c16DefaultAll)))
		ctx.Assume("an admin-role token is unrestricted whatever its namespace list says (pkg/auth/rbac.go: \"Admin can do anything anywhere\"); oracles 1-3 apply to read and write tokens")
		ctx.Assume("the KV store is not an index: namespace oracle (3) is evaluated on vector indexes and their graph data only; _sys_auth::* keys are covered by oracles (1) and (2)")
		ctx.Assume("fixture indexes have no memory/decay configuration, so searches have no bookkeeping side effects")

		// the child is a deployed server: its command line carries the root token (--auth-token)
		savedArgs := os.Args
		defer func() { os.Args = savedArgs }()
		os.Args = append(append([]string(nil), savedArgs...), "--auth-token", c16Root)

		c16Probes(ctx, routes, words)

		// ---- sweep: every parsed route x every token class, hostile instantiations ----------
		perTok := ctx.N(2, 16)
		ctx.Group("sweep", len(routes), func(cs *vkit.Case) {
			rt := routes[cs.Idx]
			names := c16NamePairs[cs.R.Intn(len(c16NamePairs))]
			if defs := c16DefaultIdx[rt.File]; len(defs) > 0 && cs.R.Chance(0.6) {
				// the route is registered in a file whose handlers fall back to a default index:
				// that index must exist, hold data and be outside the restricted tokens
				names = c16DefaultTriple(vkit.Pick(cs.R, defs))
				ctx.Count("sweep_default_index_fixture", 1)
			} else if len(c16DefaultAll) > 0 && cs.R.Chance(0.05) {
				names = c16DefaultTriple(vkit.Pick(cs.R, c16DefaultAll))
				ctx.Count("sweep_default_index_fixture", 1)
			}
			c16Artifacts = len(c16DefaultIdx[rt.File]) > 0 || strings.Contains(rt.Path, "artifact") || cs.R.Chance(0.15)
			f := newC16Fix(ctx, cs, names)
			defer func() { f.close() }()
			f.installPipelines()
			g := &c16Gen{f: f, r: cs.R, words: words, routes: routes}
			for _, spec := range c16TokenSpecs {
				if spec.Role == "admin" && spec.NS != "A" {
					continue
				}
				tok := f.mintSpec(spec.Role, spec.NS)
				var plan []*c16Directive
				for k := range c16Directed {
					plan = append(plan, &c16Directed[k])
				}
				if spec.Role == "read" && spec.NS != "AB" && strings.HasSuffix(rt.Path, "}") && rt.Method != "GET" && rt.Method != "" {
					// a mutating route whose last path segment is chosen by the client: once per word the
					// middleware lists for its read-only routes, the resource name ends in that word (a
					// role derived from how the path ends would take the request for a read)
					for _, w := range words {
						plan = append(plan, &c16Directive{Name: "last segment ends in a listed word", Param: "own", Variant: "own", Query: "own", LastParam: "x" + w, Global: true})
					}
				}
				for k := 0; k < perTok; k++ {
					plan = append(plan, nil)
				}
				if (rt.Method == "GET" || rt.Method == "") && strings.HasSuffix(rt.Path, "/stream") {
					c16StreamCheck(ctx, cs, f, tok, rt.Path)
				}
				for _, dir := range plan {
					if dir != nil && (tok.Role == "admin" || (tok.global() && !dir.Global) || (dir.NoAB && spec.NS == "AB")) {
						continue // the directed shapes are about restricted tokens
					}
					q := g.instantiate(rt, tok, dir)
					if dir != nil && dir.Body && q.Body == nil {
						continue // a shape about the body, on a request without one
					}
					if c16Guarded(ctx, tok, q) {
						continue
					}
					if dir != nil {
						ctx.Count("directed", 1)
						ctx.Count("directed."+dir.Name, 1)
					}
					vs := f.check(tok, q)
					ctx.Eval(1)
					dk := q.IdxVar
					if dir != nil && dir.Query != "" {
						dk += "?" + dir.Query
					}
					ctx.Distinct(fmt.Sprintf("%s|%s|%s|%s", rt.Pattern, tok.Role, spec.NS, dk))
					c16Report(ctx, cs, tok, q, vs)
					if f.damaged() {
						f.close()
						f = newC16Fix(ctx, cs, names)
						f.installPipelines()
						g.f = f
						tok = f.mintSpec(spec.Role, spec.NS)
						ctx.Count("fixture_rebuilt", 1)
					}
				}
			}
			ctx.Sample("sweep", 2, map[string]any{"route": rt.Pattern, "ops": cs.Ops()[:min(len(cs.Ops()), 6)]})
		})

		// ---- random: one token per case, random routes --------------------------------------
		ctx.Group("random", ctx.N(96, 4000), func(cs *vkit.Case) {
			names := c16NamePairs[cs.R.Intn(len(c16NamePairs))]
			c16Artifacts = cs.R.Chance(0.3)
			f := newC16Fix(ctx, cs, names)
			defer func() { f.close() }()
			f.installPipelines()
			g := &c16Gen{f: f, r: cs.R, words: words, routes: routes}
			spec := c16TokenSpecs[cs.R.Intn(6)] // read / write only
			if cs.R.Chance(0.2) {
				spec.NS = vkit.Pick(cs.R, c16OddSpecs)
			}
			f.mintSpec("write", "*") // a second token whose jti the generator can aim at
			tok := f.mintSpec(spec.Role, spec.NS)
			n := cs.R.Range(20, ctx.N(40, 80))
			var streams []string
			for _, rt := range routes {
				if (rt.Method == "GET" || rt.Method == "") && strings.HasSuffix(rt.Path, "/stream") {
					streams = append(streams, rt.Path)
				}
			}
			streamAt := -1
			if len(streams) > 0 && cs.R.Chance(0.5) {
				streamAt = cs.R.Intn(n) // somewhere inside the episode, after some of its own requests
			}
			for k := 0; k < n; k++ {
				if k == streamAt {
					c16StreamCheck(ctx, cs, f, tok, vkit.Pick(cs.R, streams))
				}
				q := g.instantiate(vkit.Pick(cs.R, routes), tok, nil)
				if c16Guarded(ctx, tok, q) {
					continue
				}
				vs := f.check(tok, q)
				ctx.Eval(1)
				ctx.Distinct(fmt.Sprintf("%s|%s|%s|%s", q.Route.Pattern, tok.Role, spec.NS, q.IdxVar))
				c16Report(ctx, cs, tok, q, vs)
				if f.damaged() {
					break
				}
			}
		})

		c16MethodGroups(ctx, routes, words)

		c16AuthGroups(ctx)
	})
}

// c16StreamCheck: a restricted token holds a stream route open while the root token writes to
// every index. Clause: "a token restricted to some namespaces can never read ... another index" -
// an event {type, index_name, id, target_id, rel_type} of an index outside the token is data of
// that index. While D-C16-10 is listed as known the root writes go to the token's own indexes
// only (the stream is still exercised; the exact trigger - an event of another index - is not).
func c16StreamCheck(ctx *vkit.Ctx, cs *vkit.Case, f *c16Fix, tok *c16Token, path string) {
	if tok.global() || tok.Role == "admin" {
		return
	}
	var own string
	var foreign []string
	for _, ix := range f.idx {
		if tok.allows(ix.Name) {
			own = ix.Name
		} else {
			foreign = append(foreign, ix.Name)
		}
	}
	if own == "" {
		return
	}
	if ctx.IsKnown("D-C16-10") {
		ctx.Count("guarded.D-C16-10", 1)
		foreign = nil
	}
	target := path + "?" + vkit.Pick(cs.R, []string{"index", "index_name"}) + "=" + url.QueryEscape(own)
	cs.Op("%s -> GET %s held open while root adds vectors to %v, then %s", tok, target, foreign, own)
	code, evs, raw, seen := f.streamEpisode(tok, target, own, foreign)
	ctx.Count("stream_episodes", 1)
	if !seen {
		ctx.Count("stream_episodes_without_events", 1)
		return
	}
	ctx.Eval(1)
	ctx.Distinct(fmt.Sprintf("stream|%s|%s|%d", path, tok.Role, len(tok.NS)))
	ctx.Count("stream_events_read", int64(len(evs)))
	for _, ev := range evs {
		if !tok.allows(ev.IndexName) {
			cs.Fail("[ns-read] a token restricted to %v received an event of index %q (%s id %q) on a stream | request: GET %s | token: %s | response: %d %s", tok.NS, ev.IndexName, ev.Type, ev.ID, target, tok, code, c16Trunc(string(raw)))
		}
	}
}

package server

// C16 — oracle (4) authentication, and the restart histories.
//
// "Served" is observed by effect, not by status: a battery of two requests is sent with the
// credential under test — a KV write of a fresh nonce (did the value land?) and a read of a
// canary vector (is the canary in the response?). A credential is *refused* iff neither
// effect is observed.

import (
	"bytes"
	"crypto/ecdsa"
	"crypto/elliptic"
	"crypto/hmac"
	"crypto/rand"
	"crypto/sha256"
	"crypto/sha512"
	"crypto/x509"
	"encoding/base64"
	"encoding/json"
	"encoding/pem"
	"fmt"
	"hash"
	"net/url"
	"strings"
	"time"

	"github.com/golang-jwt/jwt/v5"
	"github.com/sanonone/kektordb/internal/zzverif/vexec"
	"github.com/sanonone/kektordb/internal/zzverif/vkit"
)

// battery sends the two witness requests with a raw Authorization header value.
// It returns whether any effect was observed and the two status codes.
func (f *c16Fix) battery(authHeader string, withAuth bool) (served bool, how string) {
	f.nonce++
	nonce := fmt.Sprintf("nonce-%d", f.nonce)
	a := f.idx[0]
	r1 := f.doHdr("PUT", "/kv/c16_auth_canary", authHeader, withAuth, []byte(`{"value":"`+nonce+`"}`))
	if v, ok := f.eng.KVGet("c16_auth_canary"); ok && string(v) == nonce {
		served = true
		how += "KV write landed; "
	}
	r2 := f.doHdr("GET", "/vector/indexes/"+url.PathEscape(a.Name)+"/vectors/n0", authHeader, withAuth, nil)
	for _, c := range a.Canaries {
		if bytes.Contains(r2.Body, []byte(c)) {
			served = true
			how += "canary vector returned; "
			break
		}
	}
	f.ctx.Count("battery_requests", 2)
	return served, fmt.Sprintf("%sstatus PUT /kv=%d GET vector=%d", how, r1.Code, r2.Code)
}

func (f *c16Fix) servedTok(tok string) (bool, string) { return f.battery("Bearer "+tok, true) }

// signerKey loads the provider's signing key from where the provider keeps it.
func (f *c16Fix) signerKey() *ecdsa.PrivateKey {
	der, ok := f.eng.KVGet("_sys_auth::ecdsa_private_key")
	if !ok {
		f.cs.Fail("fixture: no signing key in the KV store")
	}
	k, err := x509.ParsePKCS8PrivateKey(der)
	if err != nil {
		f.cs.Fail("fixture: stored signing key does not parse: %v", err)
	}
	return k.(*ecdsa.PrivateKey)
}

func c16B64(b []byte) string { return base64.RawURLEncoding.EncodeToString(b) }

func c16DecodeSeg(s string) ([]byte, error) { return base64.RawURLEncoding.DecodeString(s) }

// c16Equivalent: the altered string is the *same token* in a different spelling — header
// and claims text identical (they are the signed bytes) and the signature segment decodes
// to the same bytes (base64url leaves 4 unused bits in the last character of a 64-byte
// signature). Such a spelling grants nothing the issued token does not grant.
func c16Equivalent(orig, alt string) bool {
	o := strings.Split(orig, ".")
	a := strings.Split(strings.TrimSpace(alt), ".")
	if len(o) != 3 || len(a) != 3 || o[0] != a[0] || o[1] != a[1] {
		return false
	}
	so, e1 := c16DecodeSeg(o[2])
	sa, e2 := c16DecodeSeg(a[2])
	return e1 == nil && e2 == nil && bytes.Equal(so, sa)
}

type c16Forgery struct {
	Name  string
	Token string
}

// forgeries builds the structured manipulations of one valid token.
func (f *c16Fix) forgeries(valid *c16Token, revoked *c16Token) []c16Forgery {
	var out []c16Forgery
	parts := strings.Split(valid.Token, ".")
	if len(parts) != 3 {
		f.cs.Fail("issued token does not have three segments: %q", valid.Token)
	}
	hdrJSON, _ := c16DecodeSeg(parts[0])
	claimsJSON, _ := c16DecodeSeg(parts[1])
	var claims map[string]any
	json.Unmarshal(claimsJSON, &claims)
	withClaims := func(mod func(m map[string]any)) string {
		m := map[string]any{}
		for k, v := range claims {
			m[k] = v
		}
		mod(m)
		b, _ := json.Marshal(m)
		return c16B64(b)
	}
	hdr := func(kv map[string]any) string {
		b, _ := json.Marshal(kv)
		return c16B64(b)
	}
	adminClaims := withClaims(func(m map[string]any) { m["role"] = "admin"; m["namespaces"] = []string{"*"} })
	priv := f.signerKey()
	pub := &priv.PublicKey

	// alg none
	for _, alg := range []string{"none", "None", "NONE", "nOnE"} {
		h := hdr(map[string]any{"alg": alg, "typ": "JWT"})
		out = append(out, c16Forgery{"alg=" + alg + " empty signature", h + "." + parts[1] + "."})
		out = append(out, c16Forgery{"alg=" + alg + " original signature", h + "." + parts[1] + "." + parts[2]})
		out = append(out, c16Forgery{"alg=" + alg + " admin claims", h + "." + adminClaims + "."})
		out = append(out, c16Forgery{"alg=" + alg + " two segments", h + "." + adminClaims})
	}
	// HMAC keyed with the public key in every usual encoding
	pkix, _ := x509.MarshalPKIXPublicKey(pub)
	pemPub := pem.EncodeToMemory(&pem.Block{Type: "PUBLIC KEY", Bytes: pkix})
	ecdhPub, _ := pub.ECDH()
	raw := ecdhPub.Bytes()
	jwks, _ := f.srv.keyManager.PublicKeyJWKS()
	keys := map[string][]byte{"PKIX DER": pkix, "PEM": pemPub, "PEM trimmed": bytes.TrimSpace(pemPub), "uncompressed point": raw, "X||Y": raw[1:], "JWKS document": jwks, "empty": {}}
	for _, alg := range []struct {
		n string
		h func() hash.Hash
	}{{"HS256", sha256.New}, {"HS384", sha512.New384}, {"HS512", sha512.New}} {
		for kn, kb := range keys {
			h := hdr(map[string]any{"alg": alg.n, "typ": "JWT"})
			for cn, cl := range map[string]string{"same claims": parts[1], "admin claims": adminClaims} {
				mac := hmac.New(alg.h, kb)
				mac.Write([]byte(h + "." + cl))
				out = append(out, c16Forgery{fmt.Sprintf("alg=%s HMAC keyed with the public key (%s), %s", alg.n, kn, cn), h + "." + cl + "." + c16B64(mac.Sum(nil))})
			}
		}
	}
	// another key
	other, _ := ecdsa.GenerateKey(elliptic.P256(), rand.Reader)
	signWith := func(k *ecdsa.PrivateKey, m jwt.SigningMethod, header map[string]any, cl jwt.MapClaims) string {
		t := jwt.NewWithClaims(m, cl)
		for k, v := range header {
			t.Header[k] = v
		}
		s, err := t.SignedString(k)
		if err != nil {
			f.cs.Fail("harness: signing failed: %v", err)
		}
		return s
	}
	mc := jwt.MapClaims{}
	for k, v := range claims {
		mc[k] = v
	}
	out = append(out, c16Forgery{"same claims signed by another P-256 key", signWith(other, jwt.SigningMethodES256, nil, mc)})
	oj := map[string]any{"kty": "EC", "crv": "P-256", "x": c16B64(other.PublicKey.X.FillBytes(make([]byte, 32))), "y": c16B64(other.PublicKey.Y.FillBytes(make([]byte, 32)))}
	out = append(out, c16Forgery{"another key, announced in a jwk header", signWith(other, jwt.SigningMethodES256, map[string]any{"jwk": oj}, mc)})
	out = append(out, c16Forgery{"another key, with kid/jku/x5u headers", signWith(other, jwt.SigningMethodES256, map[string]any{"kid": "../../dev/null", "jku": "http://127.0.0.1:1/jwks.json", "x5u": "http://127.0.0.1:1/x"}, mc)})
	o384, _ := ecdsa.GenerateKey(elliptic.P384(), rand.Reader)
	out = append(out, c16Forgery{"ES384 with another key", signWith(o384, jwt.SigningMethodES384, nil, mc)})
	// claims swapped under the original signature
	out = append(out, c16Forgery{"claims rewritten to admin/*, original signature", parts[0] + "." + adminClaims + "." + parts[2]})
	out = append(out, c16Forgery{"jti rewritten, original signature", parts[0] + "." + withClaims(func(m map[string]any) { m["jti"] = "fresh-jti" }) + "." + parts[2]})
	out = append(out, c16Forgery{"header alg rewritten to ES384, original signature", hdr(map[string]any{"alg": "ES384", "typ": "JWT"}) + "." + parts[1] + "." + parts[2]})
	out = append(out, c16Forgery{"header alg rewritten to es256 (case), original signature", hdr(map[string]any{"alg": "es256", "typ": "JWT"}) + "." + parts[1] + "." + parts[2]})
	_ = hdrJSON
	// time claims, signed with the provider's own key (white box)
	now := time.Now()
	tc := func(mod func(m jwt.MapClaims)) string {
		m := jwt.MapClaims{}
		for k, v := range claims {
			m[k] = v
		}
		m["jti"] = fmt.Sprintf("c16-%d", f.cs.R.Uint32())
		mod(m)
		return signWith(priv, jwt.SigningMethodES256, nil, m)
	}
	out = append(out, c16Forgery{"expired one hour ago (signed with the server key)", tc(func(m jwt.MapClaims) { m["exp"] = now.Add(-time.Hour).Unix() })})
	// "unexpired" has no grace period: a token is refused from the second after its expiry on
	for _, ago := range []time.Duration{2 * time.Second, 20 * time.Second, 90 * time.Second, 10 * time.Minute} {
		ago := ago
		out = append(out, c16Forgery{fmt.Sprintf("expired %v ago (signed with the server key)", ago), tc(func(m jwt.MapClaims) { m["exp"] = now.Add(-ago).Unix() })})
	}
	out = append(out, c16Forgery{"expired long ago, admin (signed with the server key)", tc(func(m jwt.MapClaims) {
		m["exp"] = now.Add(-100 * 24 * time.Hour).Unix()
		m["iat"] = now.Add(-190 * 24 * time.Hour).Unix()
		m["nbf"] = m["iat"]
		m["role"] = "admin"
	})})
	out = append(out, c16Forgery{"not valid before one hour from now (signed with the server key)", tc(func(m jwt.MapClaims) { m["nbf"] = now.Add(time.Hour).Unix() })})
	out = append(out, c16Forgery{"exp as a string in the past (signed with the server key)", tc(func(m jwt.MapClaims) { m["exp"] = fmt.Sprint(now.Add(-time.Hour).Unix()) })})
	// structure
	out = append(out, c16Forgery{"signature removed", parts[0] + "." + parts[1] + "."})
	out = append(out, c16Forgery{"signature segment dropped", parts[0] + "." + parts[1]})
	out = append(out, c16Forgery{"token truncated by one character", valid.Token[:len(valid.Token)-1]})
	out = append(out, c16Forgery{"token with a fourth segment", valid.Token + "." + parts[2]})
	out = append(out, c16Forgery{"token doubled", valid.Token + valid.Token})
	out = append(out, c16Forgery{"empty token", ""})
	out = append(out, c16Forgery{"signature of another valid token", parts[0] + "." + parts[1] + "." + strings.Split(f.tokens[0].Token, ".")[2]})
	if revoked != nil {
		out = append(out, c16Forgery{"revoked token", revoked.Token})
	}
	// root token look-alikes
	for _, v := range []string{c16Root[:len(c16Root)-1], c16Root + "x", strings.ToUpper(c16Root), c16Root + "\x00", "x" + c16Root, c16Root[:1], c16Root + "." + c16Root} {
		out = append(out, c16Forgery{fmt.Sprintf("root look-alike %q", v), v})
	}
	return out
}

func c16AuthGroups(ctx *vkit.Ctx) {
	c16Artifacts = false // the authentication / restart cases do not use the artifact routes
	c16AuthProbes(ctx)

	// ---- forged / manipulated credentials ------------------------------------------------
	ctx.Group("forgery", ctx.N(16, 128), func(cs *vkit.Case) {
		f := newC16Fix(ctx, cs, c16NamePairs[cs.R.Intn(len(c16NamePairs))])
		defer func() { f.close() }()
		spec := c16TokenSpecs[cs.R.Intn(len(c16TokenSpecs))]
		f.mintSpec("read", "A")
		valid := f.mintSpec(spec.Role, spec.NS)
		revoked := f.mintSpec(vkit.Pick(cs.R, []string{"admin", "write", "read"}), "*")
		// controls: the monitor must be able to see a served request
		if ok, how := f.servedTok(valid.Token); !ok {
			ctx.Inconclusive(fmt.Sprintf("control failed: a freshly issued %s token is not served (%s)", valid, how))
			return
		}
		if ok, how := f.servedTok(revoked.Token); !ok {
			ctx.Inconclusive(fmt.Sprintf("control failed: token %s is not served before its revocation (%s)", revoked, how))
			return
		}
		cs.Op("root: DELETE /auth/keys/%s", revoked.JTI)
		f.rootJSON("DELETE", "/auth/keys/"+revoked.JTI, nil)
		before := f.observe()
		for _, fg := range f.forgeries(valid, revoked) {
			cs.Op("forgery %q: %s", fg.Name, c16Trunc(fg.Token))
			ok, how := f.servedTok(fg.Token)
			ctx.Eval(1)
			ctx.Distinct("forgery|" + strings.Split(fg.Name, "(")[0])
			ctx.Count("forgeries", 1)
			if ok {
				cs.Fail("[auth] a request carrying a forged / invalid credential was served (%s): %s | credential: %s | derived from valid token %s", how, fg.Name, fg.Token, valid)
			}
		}
		// header shapes
		for _, hv := range []struct {
			name, val string
			with      bool
		}{{"no Authorization header", "", false}, {"empty Authorization header", "", true}, {"Bearer without token", "Bearer ", true},
			{"Basic scheme with the root token", "Basic " + c16Root, true}, {"scheme only", "Bearer", true}} {
			cs.Op("header %q", hv.name)
			ok, how := f.battery(hv.val, hv.with)
			ctx.Eval(1)
			ctx.Distinct("header|" + hv.name)
			if ok {
				cs.Fail("[auth] a request with %s was served (%s)", hv.name, how)
			}
		}
		// nothing but the nonce key may have changed — and that one must not have changed either
		if d := vexec.Diff(before, f.observe()); len(d) > 0 {
			cs.Fail("[auth] refused credentials changed the state: %s", strings.Join(d[:min(len(d), 5)], " ; "))
		}
		// positive control again: the valid token still works after all that
		if ok, how := f.servedTok(valid.Token); !ok {
			ctx.Inconclusive(fmt.Sprintf("control failed: valid token no longer served at the end of the case (%s)", how))
		}
	})

	// ---- every single-byte alteration ----------------------------------------------------
	// thorough: all positions x all 255 other byte values, split over the cases; quick: sampled.
	nb := ctx.N(16, 64)
	ctx.Group("bytes", nb, func(cs *vkit.Case) {
		f := newC16Fix(ctx, cs, c16NamePairs[0])
		defer func() { f.close() }()
		spec := c16TokenSpecs[cs.R.Intn(len(c16TokenSpecs))]
		if cs.Idx%2 == 0 {
			spec = c16TokenSpecs[8] // admin/* : any acceptance is visible through both witnesses
		}
		valid := f.mintSpec(spec.Role, spec.NS)
		if ok, how := f.servedTok(valid.Token); !ok {
			ctx.Inconclusive(fmt.Sprintf("control failed: a freshly issued %s token is not served (%s)", valid, how))
			return
		}
		before := f.observe()
		tok := []byte(valid.Token)
		try := func(pos int, val byte) {
			if tok[pos] == val {
				return
			}
			alt := append([]byte(nil), tok...)
			alt[pos] = val
			if c16Equivalent(valid.Token, string(alt)) {
				// same signed text, same signature bytes, different base64 spelling: no verdict,
				// but measure what the server does with it
				ctx.Count("equivalent_spelling_skipped", 1)
				if ok, _ := f.servedTok(string(alt)); ok {
					ctx.Count("equivalent_spelling_served", 1)
					before = f.observe() // that (legitimate) request wrote the nonce key: new baseline
				}
				return
			}
			ok, how := f.servedTok(string(alt))
			ctx.Eval(1)
			ctx.Count("byte_alterations", 1)
			if ok {
				cs.Op("altered byte %d: %q -> %q", pos, tok[pos], val)
				cs.Fail("[auth] a token with one altered byte was served (%s): position %d of %d, %q -> %q | altered: %s | original: %s", how, pos, len(tok), tok[pos], val, alt, valid.Token)
			}
		}
		seg := func(pos int) string {
			d1 := strings.Index(valid.Token, ".")
			d2 := strings.LastIndex(valid.Token, ".")
			switch {
			case pos < d1:
				return "header"
			case pos == d1 || pos == d2:
				return "dot"
			case pos < d2:
				return "claims"
			}
			return "signature"
		}
		if ctx.Quick() {
			for k := 0; k < 400; k++ {
				pos := cs.R.Intn(len(tok))
				var val byte
				switch cs.R.Intn(3) {
				case 0:
					val = "ABCDEFGHIJKLMNOPQRSTUVWXYZabcdefghijklmnopqrstuvwxyz0123456789-_"[cs.R.Intn(64)]
				case 1:
					val = tok[pos] ^ (1 << cs.R.Intn(8))
				default:
					val = byte(cs.R.Intn(256))
				}
				try(pos, val)
				ctx.Distinct(fmt.Sprintf("byte|%s|%d", seg(pos), pos%16))
			}
		} else {
			for pos := cs.Idx; pos < len(tok); pos += nb {
				for v := 0; v < 256; v++ {
					try(pos, byte(v))
				}
				ctx.Count("positions_exhausted", 1)
				ctx.Distinct(fmt.Sprintf("byte|%s|%d", seg(pos), pos))
			}
		}
		// the last signature character always, in both tiers (it carries unused base64 bits)
		for v := 0; v < 256; v++ {
			try(len(tok)-1, byte(v))
		}
		// "untampered" also rules out a byte put in or taken out (every segment's length changes,
		// so the signed text or the signature bytes differ: never an equivalent spelling, except a
		// dropped / added final signature character that leaves the decoded signature unchanged)
		tryStr := func(kind, alt string, pos int) {
			// (white space around the token and base64 padding after it are spellings of the same token)
			if alt == valid.Token || c16Equivalent(valid.Token, alt) || strings.TrimRight(strings.TrimSpace(alt), "=") == valid.Token {
				ctx.Count("equivalent_spelling_skipped", 1)
				return
			}
			ok, how := f.servedTok(alt)
			ctx.Eval(1)
			ctx.Count("byte_"+kind, 1)
			ctx.Distinct(fmt.Sprintf("byte-%s|%s|%d", kind, seg(min(pos, len(tok)-1)), pos%8))
			if ok {
				cs.Op("%s at %d", kind, pos)
				cs.Fail("[auth] a token with one %s byte was served (%s): position %d of %d | altered: %q | original: %s", kind, how, pos, len(tok), alt, valid.Token)
			}
		}
		const b64 = "ABCDEFGHIJKLMNOPQRSTUVWXYZabcdefghijklmnopqrstuvwxyz0123456789-_"
		for k := 0; k < ctx.N(24, 120); k++ {
			pos := cs.R.Intn(len(tok) + 1)
			ins := b64[cs.R.Intn(64)]
			if cs.R.Chance(0.25) {
				ins = "=.\x00 /+"[cs.R.Intn(6)]
			}
			tryStr("inserted", string(tok[:pos])+string(ins)+string(tok[pos:]), pos)
			del := cs.R.Intn(len(tok))
			tryStr("deleted", string(tok[:del])+string(tok[del+1:]), del)
		}
		cs.Op("altered %d bytes of %s", len(tok), valid)
		if d := vexec.Diff(before, f.observe()); len(d) > 0 {
			cs.Fail("[auth] refused credentials changed the state: %s", strings.Join(d[:min(len(d), 5)], " ; "))
		}
	})

	// ---- restart histories ----------------------------------------------------------------
	ctx.Group("restart", ctx.N(24, 480), func(cs *vkit.Case) {
		f := newC16Fix(ctx, cs, c16NamePairs[cs.R.Intn(len(c16NamePairs))])
		defer func() { f.close() }()
		type tk struct {
			*c16Token
			revoked bool
		}
		var toks []*tk
		dirty := true // auth state (signing key, revocation markers) not yet covered by a snapshot / rewrite
		var kinds []string
		restarts := 0
		checkAll := func(when string) {
			for _, t := range toks {
				ok, how := f.servedTok(t.c16Token.Token)
				ctx.Eval(1)
				if t.revoked && ok {
					cs.Fail("[auth] a revoked token is served %s (%s) | token %s jti %s | history: %s", when, how, t.c16Token, t.JTI, strings.Join(kinds, " "))
				}
				if !t.revoked && !ok {
					if restarts == 0 {
						ctx.Inconclusive(fmt.Sprintf("control failed: valid token %s not served before any restart (%s)", t.c16Token, how))
						return
					}
					cs.Fail("[auth] a token issued before a restart is no longer served %s (%s) | token %s | history: %s", when, how, t.c16Token, strings.Join(kinds, " "))
				}
			}
		}
		persist := func() {
			if cs.R.Chance(0.5) {
				kinds = append(kinds, "save")
				cs.Op("root: POST /system/save")
				f.rootJSON("POST", "/system/save", nil)
			} else {
				kinds = append(kinds, "rewrite")
				cs.Op("root: POST /system/aof-rewrite")
				f.rootJSON("POST", "/system/aof-rewrite", nil)
				f.settle()
			}
			dirty = false
		}
		n := cs.R.Range(6, 14)
		wantRestarts := cs.R.Range(1, 3)
		for step := 0; step < n || restarts < wantRestarts; step++ {
			k := cs.R.Intn(10)
			if step >= n {
				k = 9
			}
			switch {
			case k <= 2 || len(toks) == 0:
				spec := c16TokenSpecs[cs.R.Intn(len(c16TokenSpecs))]
				if spec.Role == "read" && spec.NS != "*" && spec.NS != "A" {
					spec.NS = "A"
				}
				t := f.mintSpec(spec.Role, spec.NS)
				toks = append(toks, &tk{c16Token: t})
				kinds = append(kinds, "issue")
			case k <= 4:
				t := vkit.Pick(cs.R, toks)
				cs.Op("root: DELETE /auth/keys/%s (%s)", t.JTI, t.c16Token)
				f.rootJSON("DELETE", "/auth/keys/"+t.JTI, nil)
				t.revoked = true
				dirty = true
				kinds = append(kinds, "revoke")
			case k == 5:
				persist()
			case k == 6:
				kinds = append(kinds, "write")
				cs.Op("root: journaled writes")
				f.rootJSON("PUT", "/kv/after_"+fmt.Sprint(step), map[string]any{"value": "x"})
				f.rootJSON("POST", "/vector/actions/add", map[string]any{"index_name": f.idx[2].Name, "id": fmt.Sprintf("w%d", step), "vector": []float32{1, 2, 3, 4}})
			case k == 7 && cs.R.Chance(0.5):
				checkAll("(no restart)")
			case k == 7:
				// persistence paths other than the two admin routes: the snapshots that data-plane
				// operations take for their own durability (index drop, compression, import commit)
				// must carry the signing key and the revocation markers like any other snapshot
				scratch := fmt.Sprintf("scratch%d", step)
				mk := func() {
					f.rootJSON("POST", "/vector/actions/create", map[string]any{"index_name": scratch, "metric": "euclidean", "m": 8, "ef_construction": 32})
				}
				h0 := c16Hits()["snap.begin"]
				switch cs.R.Intn(3) {
				case 0:
					kinds = append(kinds, "drop-index")
					cs.Op("root: create + DELETE /vector/indexes/%s", scratch)
					mk()
					f.rootJSON("POST", "/vector/actions/add", map[string]any{"index_name": scratch, "id": "s0", "vector": []float32{1, 2, 3, 4}})
					f.rootJSON("DELETE", "/vector/indexes/"+scratch, nil)
					f.settle() // the arena is removed in the background
				case 1:
					kinds = append(kinds, "compress")
					cs.Op("root: create + POST /vector/actions/compress %s", scratch)
					mk()
					for j := 0; j < 3; j++ {
						f.rootJSON("POST", "/vector/actions/add", map[string]any{"index_name": scratch, "id": fmt.Sprintf("s%d", j), "vector": []float32{float32(j), 2, 3, 4}})
					}
					f.do("POST", "/vector/actions/compress", c16Root, []byte(fmt.Sprintf(`{"index_name":%q,"precision":"float16"}`, scratch)))
					f.settle() // the compression runs as a background task: wait for it (a rewrite racing with it is another property's business)
				default:
					kinds = append(kinds, "import-commit")
					cs.Op("root: create + import + commit %s", scratch)
					mk()
					f.do("POST", "/vector/actions/import", c16Root, []byte(fmt.Sprintf(`{"index_name":%q,"vectors":[{"id":"i0","vector":[1,2,3,4]},{"id":"i1","vector":[2,2,3,4]}]}`, scratch)))
					f.do("POST", "/vector/actions/import/commit", c16Root, []byte(fmt.Sprintf(`{"index_name":%q}`, scratch)))
				}
				if c16Hits()["snap.begin"] > h0 {
					ctx.Count("restart_dataplane_snapshots", 1)
					dirty = false
				}
			default:
				if dirty && ctx.IsKnown("D-C16-5") {
					// guard: exactly the trigger of D-C16-5 is a restart while the signing key or a
					// revocation marker exists only in memory; persist first.
					ctx.Count("guarded.D-C16-5", 1)
					persist()
				}
				if cs.R.Chance(0.3) {
					kinds = append(kinds, "write")
					f.rootJSON("PUT", "/kv/late_"+fmt.Sprint(step), map[string]any{"value": "y"})
				}
				kinds = append(kinds, "RESTART")
				f.restart()
				restarts++
				ctx.Count("restarts", 1)
				checkAll(fmt.Sprintf("after restart #%d", restarts))
			}
		}
		checkAll("at the end")
		ctx.Distinct("restart|" + strings.Join(kinds, ","))
		ctx.Sample("restart-history", 3, strings.Join(kinds, " "))
	})
}

func c16AuthProbes(ctx *vkit.Ctx) {
	// D-C16-5 — DESIGN D15
	ctx.Probe("D-C16-5", func(cs *vkit.Case) string {
		var fails []string
		{
			f := newC16Fix(ctx, cs, c16NamePairs[0])
			t := f.mint("admin", []string{"*"})
			if ok, how := f.servedTok(t.Token); !ok {
				f.close()
				return "control: fresh token not served: " + how
			}
			cs.Op("issue -> restart (no snapshot)")
			f.restart()
			if ok, how := f.servedTok(t.Token); !ok {
				fails = append(fails, "issue token -> restart (no snapshot, no rewrite) -> the token is refused ("+how+"): the signing key is stored with kvStore.Set, bypassing the journal (pkg/auth/keys.go:60), so a new key is generated on restart")
			}
			f.close()
		}
		for _, how := range []string{"save", "rewrite"} {
			f := newC16Fix(ctx, cs, c16NamePairs[0])
			t := f.mint("admin", []string{"*"})
			if how == "save" {
				f.rootJSON("POST", "/system/save", nil)
			} else {
				f.rootJSON("POST", "/system/aof-rewrite", nil)
				f.settle()
			}
			f.rootJSON("DELETE", "/auth/keys/"+t.JTI, nil)
			if ok, _ := f.servedTok(t.Token); ok {
				f.close()
				return "control: revoked token served before restart"
			}
			cs.Op("issue -> %s -> revoke -> restart", how)
			f.restart()
			if ok, h := f.servedTok(t.Token); ok {
				fails = append(fails, "issue -> "+how+" -> revoke -> restart -> the revoked token is served again ("+h+"): RevokeKey writes the marker with kvStore.Set, bypassing the journal (pkg/auth/jwt_provider.go:150)")
			}
			f.close()
		}
		return strings.Join(fails, " || ")
	})
}

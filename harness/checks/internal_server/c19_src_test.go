package server

// C19 — workload configuration derived from the CURRENT server source (never a verdict):
// the route table, which handlers read a body, the Go type they decode into, the path
// wildcards, whether the handler reaches VCreate / VDeleteIndex, and the published limits.

import (
	"encoding/json"
	"fmt"
	"go/ast"
	"go/parser"
	"go/token"
	"os"
	"path/filepath"
	"reflect"
	"sort"
	"strconv"
	"strings"

	"github.com/sanonone/kektordb/pkg/core/hnsw"
	"github.com/sanonone/kektordb/pkg/core/types"
	"github.com/sanonone/kektordb/pkg/engine"
)

// c19Groups are the documented data-plane groups of the property (DOCUMENTATION.md 5.1-5.4,
// 5.8): KV, vector, index, graph, system. Everything else (rag, ui, auth, sessions, transfer,
// users, compiler, debug, metrics, SSE) is outside the quantifier.
var c19Groups = []string{"/kv/", "/vector/", "/graph/", "/system/"}

type c19Route struct {
	Method, Pattern, Handler string
	Params                   []string // wildcard names of the pattern, in order
	ReadsBody                bool
	Strict                   bool // uses decodeJSON (informational only)
	BodyTypeName             string
	BodyType                 reflect.Type // nil: unknown (generic template)
	Creates, Drops           bool         // handler source calls .VCreate( / .VDeleteIndex(
	Commits                  bool         // handler source calls .VImportCommit(
	Fields                   []c19Field
}

func (r *c19Route) Key() string { return r.Method + " " + r.Pattern }

type c19Limits struct {
	MaxK, MaxBatch, MaxDim int64
	MaxBody                int64
	Source                 map[string]string // name -> "source" | "property text"
}

type c19Src struct {
	Routes []*c19Route
	Limits c19Limits
	Notes  []string
}

// foreign (non-server-package) types that request structs refer to; anything not listed
// here degrades to `any` (no type-change expectation for it).
var c19Foreign = map[string]reflect.Type{
	"hnsw.AutoMaintenanceConfig": reflect.TypeOf(hnsw.AutoMaintenanceConfig{}),
	"hnsw.AutoLinkRule":          reflect.TypeOf(hnsw.AutoLinkRule{}),
	"hnsw.MemoryConfig":          reflect.TypeOf(hnsw.MemoryConfig{}),
	"engine.GraphQuery":          reflect.TypeOf(engine.GraphQuery{}),
	"types.BatchObject":          reflect.TypeOf(types.BatchObject{}),
}

var c19Basic = map[string]reflect.Type{
	"string": reflect.TypeOf(""), "bool": reflect.TypeOf(false),
	"int": reflect.TypeOf(int(0)), "int8": reflect.TypeOf(int8(0)), "int16": reflect.TypeOf(int16(0)),
	"int32": reflect.TypeOf(int32(0)), "int64": reflect.TypeOf(int64(0)),
	"uint": reflect.TypeOf(uint(0)), "uint8": reflect.TypeOf(uint8(0)), "uint16": reflect.TypeOf(uint16(0)),
	"uint32": reflect.TypeOf(uint32(0)), "uint64": reflect.TypeOf(uint64(0)),
	"float32": reflect.TypeOf(float32(0)), "float64": reflect.TypeOf(float64(0)),
	"any": reflect.TypeOf((*any)(nil)).Elem(),
}

var c19Any = reflect.TypeOf((*any)(nil)).Elem()

type c19Pkg struct {
	fset    *token.FileSet
	files   []*ast.File
	types   map[string]ast.Expr      // package-level type specs
	funcs   map[string]*ast.FuncDecl // methods and functions by name
	built   map[string]reflect.Type
	helpers map[string]bool
}

func c19RepoDir() string {
	if v := os.Getenv("VERIF_REPO"); v != "" {
		return v
	}
	return "/repo"
}

func c19LoadPkg(dir string) (*c19Pkg, error) {
	p := &c19Pkg{fset: token.NewFileSet(), types: map[string]ast.Expr{}, funcs: map[string]*ast.FuncDecl{}, built: map[string]reflect.Type{}}
	ents, err := os.ReadDir(dir)
	if err != nil {
		return nil, err
	}
	for _, e := range ents {
		n := e.Name()
		if e.IsDir() || !strings.HasSuffix(n, ".go") || strings.HasSuffix(n, "_test.go") {
			continue
		}
		f, err := parser.ParseFile(p.fset, filepath.Join(dir, n), nil, 0)
		if err != nil {
			return nil, err
		}
		p.files = append(p.files, f)
		for _, d := range f.Decls {
			switch x := d.(type) {
			case *ast.GenDecl:
				if x.Tok == token.TYPE {
					for _, s := range x.Specs {
						ts := s.(*ast.TypeSpec)
						p.types[ts.Name.Name] = ts.Type
					}
				}
			case *ast.FuncDecl:
				p.funcs[x.Name.Name] = x
			}
		}
	}
	return p, nil
}

// resolve turns a type expression of the server package into a reflect.Type that is
// structurally identical for encoding/json (field names, tags, kinds).
func (p *c19Pkg) resolve(e ast.Expr, depth int) reflect.Type {
	if depth > 6 {
		return c19Any
	}
	switch x := e.(type) {
	case *ast.Ident:
		if t, ok := c19Basic[x.Name]; ok {
			return t
		}
		if t, ok := p.built[x.Name]; ok {
			return t
		}
		if te, ok := p.types[x.Name]; ok {
			t := p.resolve(te, depth+1)
			p.built[x.Name] = t
			return t
		}
		return c19Any
	case *ast.SelectorExpr:
		if id, ok := x.X.(*ast.Ident); ok {
			if t, ok := c19Foreign[id.Name+"."+x.Sel.Name]; ok {
				return t
			}
		}
		return c19Any
	case *ast.StarExpr:
		return reflect.PointerTo(p.resolve(x.X, depth+1))
	case *ast.ArrayType:
		return reflect.SliceOf(p.resolve(x.Elt, depth+1))
	case *ast.MapType:
		k := p.resolve(x.Key, depth+1)
		if k.Kind() != reflect.String {
			return c19Any
		}
		return reflect.MapOf(k, p.resolve(x.Value, depth+1))
	case *ast.InterfaceType:
		return c19Any
	case *ast.StructType:
		var fs []reflect.StructField
		for _, f := range x.Fields.List {
			ft := p.resolve(f.Type, depth+1)
			tag := ""
			if f.Tag != nil {
				tag, _ = strconv.Unquote(f.Tag.Value)
			}
			for _, n := range f.Names {
				if !n.IsExported() {
					continue
				}
				fs = append(fs, reflect.StructField{Name: n.Name, Type: ft, Tag: reflect.StructTag(tag)})
			}
		}
		return reflect.StructOf(fs)
	}
	return c19Any
}

func c19InGroups(path string) bool {
	for _, g := range c19Groups {
		if strings.HasPrefix(path, g) || path == strings.TrimSuffix(g, "/") {
			return true
		}
	}
	return false
}

func c19Wildcards(pattern string) []string {
	var out []string
	for _, seg := range strings.Split(pattern, "/") {
		if strings.HasPrefix(seg, "{") && strings.HasSuffix(seg, "}") {
			out = append(out, strings.TrimSuffix(strings.Trim(seg, "{}"), "..."))
		}
	}
	return out
}

// c19ScanSource builds the workload configuration from <repo>/internal/server.
func c19ScanSource() (*c19Src, error) {
	dir := filepath.Join(c19RepoDir(), "internal", "server")
	p, err := c19LoadPkg(dir)
	if err != nil {
		return nil, err
	}
	src := &c19Src{}
	seen := map[string]bool{}
	for _, f := range p.files {
		ast.Inspect(f, func(n ast.Node) bool {
			call, ok := n.(*ast.CallExpr)
			if !ok || len(call.Args) != 2 {
				return true
			}
			sel, ok := call.Fun.(*ast.SelectorExpr)
			if !ok || (sel.Sel.Name != "HandleFunc" && sel.Sel.Name != "Handle") {
				return true
			}
			lit, ok := call.Args[0].(*ast.BasicLit)
			if !ok || lit.Kind != token.STRING {
				return true
			}
			pat, _ := strconv.Unquote(lit.Value)
			method, path := "", pat
			if i := strings.Index(pat, " "); i > 0 {
				method, path = pat[:i], strings.TrimSpace(pat[i+1:])
			}
			if !c19InGroups(path) {
				return true
			}
			handler := ""
			if hs, ok := call.Args[1].(*ast.SelectorExpr); ok {
				handler = hs.Sel.Name
			}
			methods := []string{method}
			if method == "" {
				methods = []string{"GET", "POST"}
			}
			for _, m := range methods {
				r := &c19Route{Method: m, Pattern: path, Handler: handler, Params: c19Wildcards(path)}
				if seen[r.Key()] {
					continue
				}
				seen[r.Key()] = true
				src.Routes = append(src.Routes, r)
			}
			return true
		})
	}
	sort.Slice(src.Routes, func(i, j int) bool { return src.Routes[i].Key() < src.Routes[j].Key() })
	for _, r := range src.Routes {
		p.scanHandler(r, src)
	}
	src.Limits = p.scanLimits()
	return src, nil
}

// decodeHelpers: non-handler functions of the package that (transitively) read
// json.NewDecoder(<request>.Body) - e.g. decodeJSON.
func (p *c19Pkg) decodeHelpers() map[string]bool {
	if p.helpers != nil {
		return p.helpers
	}
	p.helpers = map[string]bool{}
	for changed := true; changed; {
		changed = false
		for name, fd := range p.funcs {
			if p.helpers[name] || fd.Body == nil || strings.HasPrefix(name, "handle") {
				continue
			}
			hit := false
			ast.Inspect(fd.Body, func(n ast.Node) bool {
				c, ok := n.(*ast.CallExpr)
				if !ok {
					return true
				}
				switch f := c.Fun.(type) {
				case *ast.SelectorExpr:
					if f.Sel.Name == "NewDecoder" && len(c.Args) == 1 {
						if bs, ok := c.Args[0].(*ast.SelectorExpr); ok && bs.Sel.Name == "Body" {
							hit = true
						}
					}
					if p.helpers[f.Sel.Name] {
						hit = true
					}
				case *ast.Ident:
					if p.helpers[f.Name] {
						hit = true
					}
				}
				return true
			})
			if hit {
				p.helpers[name] = true
				changed = true
			}
		}
	}
	return p.helpers
}

// scanHandler looks inside the handler for the decode call and the decoded variable's type.
func (p *c19Pkg) scanHandler(r *c19Route, src *c19Src) {
	fd := p.funcs[r.Handler]
	if fd == nil || fd.Body == nil {
		if r.Handler != "" {
			src.Notes = append(src.Notes, "handler not found in source: "+r.Handler)
		}
		return
	}
	decls := map[string]ast.Expr{}
	var target string
	ast.Inspect(fd.Body, func(n ast.Node) bool {
		switch x := n.(type) {
		case *ast.DeclStmt:
			if gd, ok := x.Decl.(*ast.GenDecl); ok && gd.Tok == token.VAR {
				for _, s := range gd.Specs {
					vs := s.(*ast.ValueSpec)
					for _, nm := range vs.Names {
						if vs.Type != nil {
							decls[nm.Name] = vs.Type
						}
					}
				}
			}
		case *ast.AssignStmt:
			if x.Tok == token.DEFINE && len(x.Lhs) == 1 && len(x.Rhs) == 1 {
				if id, ok := x.Lhs[0].(*ast.Ident); ok {
					if cl, ok := x.Rhs[0].(*ast.CompositeLit); ok && cl.Type != nil {
						decls[id.Name] = cl.Type
					}
				}
			}
		case *ast.CallExpr:
			// a decode helper of the package (decodeJSON and whatever wraps json.NewDecoder(r.Body))
			fname := ""
			switch f := x.Fun.(type) {
			case *ast.Ident:
				fname = f.Name
			case *ast.SelectorExpr:
				fname = f.Sel.Name
			}
			if p.decodeHelpers()[fname] {
				for _, a := range x.Args {
					if u, ok := a.(*ast.UnaryExpr); ok && u.Op == token.AND {
						r.ReadsBody = true
						if fname == "decodeJSON" {
							r.Strict = true
						}
						if target == "" {
							target = c19AddrIdent(a)
						}
					}
				}
			}
			sel, ok := x.Fun.(*ast.SelectorExpr)
			if !ok {
				return true
			}
			switch sel.Sel.Name {
			case "VCreate":
				r.Creates = true
			case "VDeleteIndex":
				r.Drops = true
			case "VImportCommit":
				r.Commits = true
			case "Decode":
				// json.NewDecoder(r.Body).Decode(&v)
				if inner, ok := sel.X.(*ast.CallExpr); ok {
					if is, ok := inner.Fun.(*ast.SelectorExpr); ok && is.Sel.Name == "NewDecoder" && len(inner.Args) == 1 {
						if bs, ok := inner.Args[0].(*ast.SelectorExpr); ok && bs.Sel.Name == "Body" {
							r.ReadsBody = true
							if target == "" && len(x.Args) == 1 {
								target = c19AddrIdent(x.Args[0])
							}
						}
					}
				}
			case "ReadAll":
				if len(x.Args) == 1 {
					if bs, ok := x.Args[0].(*ast.SelectorExpr); ok && bs.Sel.Name == "Body" {
						r.ReadsBody = true
					}
				}
			}
		}
		return true
	})
	if !r.ReadsBody {
		return
	}
	if te, ok := decls[target]; ok {
		r.BodyTypeName = c19ExprString(te)
		r.BodyType = p.resolve(te, 0)
		if r.BodyType.Kind() != reflect.Struct {
			r.BodyType = nil
		}
	}
	if r.BodyType == nil {
		src.Notes = append(src.Notes, fmt.Sprintf("%s: decoded type not resolved (target %q) - generic template", r.Key(), target))
	} else {
		r.Fields = c19FieldsOf(r.BodyType)
	}
}

func c19AddrIdent(e ast.Expr) string {
	if u, ok := e.(*ast.UnaryExpr); ok && u.Op == token.AND {
		if id, ok := u.X.(*ast.Ident); ok {
			return id.Name
		}
	}
	if id, ok := e.(*ast.Ident); ok {
		return id.Name
	}
	return ""
}

func c19ExprString(e ast.Expr) string {
	switch x := e.(type) {
	case *ast.Ident:
		return x.Name
	case *ast.SelectorExpr:
		return c19ExprString(x.X) + "." + x.Sel.Name
	case *ast.StarExpr:
		return "*" + c19ExprString(x.X)
	case *ast.StructType:
		return "struct{...}"
	}
	return fmt.Sprintf("%T", e)
}

// scanLimits evaluates the constants that publish the request limits. Missing ones fall
// back on the numbers quoted by the property text (recorded in the evidence).
func (p *c19Pkg) scanLimits() c19Limits {
	consts := map[string]int64{}
	for _, f := range p.files {
		for _, d := range f.Decls {
			gd, ok := d.(*ast.GenDecl)
			if !ok || gd.Tok != token.CONST {
				continue
			}
			for _, s := range gd.Specs {
				vs := s.(*ast.ValueSpec)
				for i, nm := range vs.Names {
					if i < len(vs.Values) {
						if v, ok := c19EvalInt(vs.Values[i]); ok {
							consts[nm.Name] = v
						}
					}
				}
			}
		}
	}
	l := c19Limits{Source: map[string]string{}}
	get := func(name string, def int64) int64 {
		if v, ok := consts[name]; ok && v > 0 {
			l.Source[name] = "source"
			return v
		}
		l.Source[name] = "property text"
		return def
	}
	l.MaxK = get("maxK", 10000)
	l.MaxBatch = get("maxBatchSize", 50000)
	l.MaxDim = get("maxVectorDim", 65536)
	l.MaxBody = get("defaultMaxBodySize", 512<<20)
	return l
}

func c19EvalInt(e ast.Expr) (int64, bool) {
	switch x := e.(type) {
	case *ast.BasicLit:
		if x.Kind == token.INT {
			v, err := strconv.ParseInt(strings.ReplaceAll(x.Value, "_", ""), 0, 64)
			return v, err == nil
		}
	case *ast.ParenExpr:
		return c19EvalInt(x.X)
	case *ast.BinaryExpr:
		a, ok1 := c19EvalInt(x.X)
		b, ok2 := c19EvalInt(x.Y)
		if !ok1 || !ok2 {
			return 0, false
		}
		switch x.Op {
		case token.SHL:
			return a << uint(b), true
		case token.MUL:
			return a * b, true
		case token.ADD:
			return a + b, true
		case token.SUB:
			return a - b, true
		}
	}
	return 0, false
}

// ---------------------------------------------------------------------------------------
// field descriptors (reflection over the decoded type)

type c19Field struct {
	Name string // JSON name
	Type reflect.Type
	Kind string // "string" | "number" | "bool" | "array" | "object" | "free"
	Elem string // for arrays: kind of the element
	Sub  []c19Field
}

var c19Unmarshaler = reflect.TypeOf((*json.Unmarshaler)(nil)).Elem()

func c19KindOf(t reflect.Type) string {
	if t == reflect.TypeOf(hnsw.Duration(0)) {
		// documented JSON forms: a duration string ("90m") or a number of nanoseconds
		return "duration"
	}
	if t.Implements(c19Unmarshaler) || reflect.PointerTo(t).Implements(c19Unmarshaler) {
		return "free"
	}
	switch t.Kind() {
	case reflect.Pointer:
		return c19KindOf(t.Elem())
	case reflect.String:
		return "string"
	case reflect.Bool:
		return "bool"
	case reflect.Int, reflect.Int8, reflect.Int16, reflect.Int32, reflect.Int64,
		reflect.Uint, reflect.Uint8, reflect.Uint16, reflect.Uint32, reflect.Uint64,
		reflect.Float32, reflect.Float64:
		return "number"
	case reflect.Slice, reflect.Array:
		if t.Elem().Kind() == reflect.Uint8 {
			return "free" // []byte is a base64 string for encoding/json
		}
		return "array"
	case reflect.Map, reflect.Struct:
		return "object"
	}
	return "free"
}

func c19FieldsOf(t reflect.Type) []c19Field {
	for t.Kind() == reflect.Pointer {
		t = t.Elem()
	}
	if t.Kind() != reflect.Struct {
		return nil
	}
	var out []c19Field
	for i := 0; i < t.NumField(); i++ {
		sf := t.Field(i)
		if !sf.IsExported() {
			continue
		}
		name := sf.Name
		if tag, ok := sf.Tag.Lookup("json"); ok {
			n := strings.Split(tag, ",")[0]
			if n == "-" {
				continue
			}
			if n != "" {
				name = n
			}
		}
		f := c19Field{Name: name, Type: sf.Type, Kind: c19KindOf(sf.Type)}
		ft := sf.Type
		for ft.Kind() == reflect.Pointer {
			ft = ft.Elem()
		}
		if f.Kind == "array" {
			f.Elem = c19KindOf(ft.Elem())
		}
		if f.Kind == "object" && ft.Kind() == reflect.Struct {
			f.Sub = c19FieldsOf(ft)
		}
		out = append(out, f)
	}
	return out
}

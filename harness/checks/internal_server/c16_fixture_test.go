package server

// C16 — fixture: a real engine + the full handler chain of NewServer with a root token,
// three indexes carrying unique canaries, tokens minted through POST /auth/keys, a full
// state read-out ("digest") and the helpers that send requests and wait for the
// asynchronous work a request may have started.

import (
	"bytes"
	"context"
	"crypto/sha256"
	"encoding/base64"
	"encoding/hex"
	"encoding/json"
	"fmt"
	"net/http"
	"net/http/httptest"
	"os"
	"path/filepath"
	"regexp"
	"runtime"
	"sort"
	"strings"
	"sync"
	"time"

	"github.com/sanonone/kektordb/internal/zzverif/vexec"
	"github.com/sanonone/kektordb/internal/zzverif/vkit"
	"github.com/sanonone/kektordb/pkg/engine"
	"github.com/sanonone/kektordb/pkg/rag"
	"github.com/sanonone/kektordb/pkg/verifhook"
)

const c16Root = "r00t-C16-master-token"

// c16Emb is a deterministic embedder (a deployment may configure one: --embedder); it makes
// the text-query code paths (query_text, /transfer/memory, /rag/retrieve) reachable offline.
type c16Emb struct{}

func (c16Emb) Embed(text string) ([]float32, error) {
	h := sha256.Sum256([]byte(text))
	v := make([]float32, 4)
	for i := range v {
		v[i] = float32(h[i])/255.0 + 0.01
	}
	return v, nil
}
func (e c16Emb) EmbedBatch(texts []string) ([][]float32, error) {
	out := make([][]float32, len(texts))
	for i, t := range texts {
		out[i], _ = e.Embed(t)
	}
	return out, nil
}

// c16Index is one tenant index of the fixture.
type c16Index struct {
	Name     string
	Canaries []string // strings that exist only inside this index (ids, metadata, edge props)
}

type c16Token struct {
	Role  string
	NS    []string // as minted
	Token string
	JTI   string
}

func (t *c16Token) String() string { return fmt.Sprintf("%s%v", t.Role, t.NS) }

func (t *c16Token) allows(index string) bool {
	if t.Role == "admin" {
		return true
	}
	for _, n := range t.NS {
		if n == "*" || n == index {
			return true
		}
	}
	return false
}

func (t *c16Token) global() bool { return t.allows("\x00no-such-index\x00") }

type c16Fix struct {
	cs            *vkit.Case
	ctx           *vkit.Ctx
	dir           string
	opts          engine.Options
	eng           *engine.Engine
	srv           *Server
	h             http.Handler
	idx           []*c16Index // A, B, C
	shared        []string    // ids present in every index (never canaries)
	rels          []string
	kvKeys        []string
	kvCan         string // canary stored in the KV store
	baseG         int
	uni           vexec.Universe
	tokens        []*c16Token
	nonce         int
	pipes         bool
	namesRejected bool // a requested (hostile) index name was refused; its benign counterpart is in use
	rejectedIdx   int
	lastObs       *vexec.Obs
}

// c16NamePairs: (A, B, C) index-name triples. Every name is a legal index name for the
// product; the hostile ones end in / contain the words the middleware special-cases, differ
// only by case, or embed the graph-id separator.
var c16NamePairs = [][3]string{
	{"alpha", "beta", "gamma"},
	{"docs", "docssearch", "docs-traverse"},
	{"mysearch", "search", "find-path"},
	{"Tenant", "tenant", "TENANT"},
	{"get-links", "get-vectors", "extract-subgraph"},
	{"a.b", "a.b.search", "a_b"},
	{"idx", "idx2", "system"},
	{"auth", "ui", "vector"},
	{"t", "t::u", "u"},
	{"p", "p/q", "q"},
	// the index the compiler handlers fall back to when a request names none, as the foreign
	// index and as the token's own index
	{"alpha", "mcp_memory", "gamma"},
	{"mcp_memory", "Mcp_Memory", "mcp_memory2"},
	// names that need escaping in a URL / look like the wildcard / like a field name
	{"a b", "a+b", "a%2Fb"},
	{"x", "*", "index_name"},
	{"Aé", "aé", "A\u00c9"},
}

// c16DefaultTriple puts a handler's default index in the place of the foreign index.
func c16DefaultTriple(def string) [3]string { return [3]string{"alpha", def, "gamma"} }

var c16FixSeq int

// c16Artifacts: whether populate compiles an artifact in every index. Set by the case before it
// builds its fixture (cases of one process run one after the other). The artifact's metadata
// makes every state read-out noticeably more expensive, so only the cases that can use it ask
// for it: always for routes of a source file with a default index, a sample of the others.
var c16Artifacts bool

func c16Opts(dir string) engine.Options {
	o := engine.DefaultOptions(dir)
	o.AutoSaveInterval = 0
	o.AutoSaveThreshold = 0
	o.AofRewritePercentage = 0
	o.MaintenanceInterval = time.Hour
	return o
}

// newC16Fix opens an engine in a deeply nested data directory (hostile names containing
// ".." must never be able to leave the case's scratch directory) and builds the server.
func newC16Fix(ctx *vkit.Ctx, cs *vkit.Case, names [3]string) *c16Fix {
	f := buildC16Fix(ctx, cs, names)
	rejected := false
	for try := 0; f.namesRejected; try++ {
		// the product refuses one of the hostile index names at creation time (a legitimate
		// way to close a name-based hole): only that name is replaced by its benign counterpart,
		// the other hostile names stay
		k := f.rejectedIdx
		f.close()
		ctx.Count("index_names_rejected_at_creation", 1)
		if try >= 3 || names[k] == c16NamePairs[0][k] {
			cs.Fail("fixture: the product refuses to create the benign index %q", names[k])
		}
		names[k] = c16NamePairs[0][k]
		for j := range names {
			if j != k && names[j] == names[k] {
				names = c16NamePairs[0]
			}
		}
		rejected = true
		f = buildC16Fix(ctx, cs, names)
	}
	f.namesRejected = rejected
	return f
}

func buildC16Fix(ctx *vkit.Ctx, cs *vkit.Case, names [3]string) *c16Fix {
	c16FixSeq++
	dir := filepath.Join(cs.SubDir(fmt.Sprintf("fx%d", c16FixSeq)), "n2", "n3", "n4", "data")
	os.MkdirAll(dir, 0o755)
	f := &c16Fix{cs: cs, ctx: ctx, dir: dir, opts: c16Opts(dir)}
	f.shared = []string{"n0", "n1", "n2", "n3"}
	f.rels = []string{"next", "parent", "related_to"}
	f.open()
	for _, n := range names {
		f.idx = append(f.idx, &c16Index{Name: n})
	}
	// create the indexes first: a 4xx here means the name itself is refused
	for _, ix := range f.idx {
		b, _ := json.Marshal(map[string]any{"index_name": ix.Name, "metric": "euclidean", "m": 8, "ef_construction": 32})
		rs := f.do("POST", "/vector/actions/create", c16Root, b)
		if rs.Code >= 400 && rs.Code < 500 && rs.Code != http.StatusConflict {
			f.namesRejected = true
			f.rejectedIdx = len(f.idx) - 1
			for k := range f.idx {
				if f.idx[k] == ix {
					f.rejectedIdx = k
				}
			}
			return f
		}
		if rs.Code >= 300 {
			cs.Fail("fixture request POST /vector/actions/create %s failed: %d %s", b, rs.Code, rs.Body)
		}
	}
	f.populate()
	return f
}

func (f *c16Fix) open() {
	e, err := engine.Open(f.opts)
	if err != nil {
		f.cs.Fail("engine.Open: %v", err)
	}
	f.eng = e
	s, err := NewServer(e, ":0", "", c16Root, f.dir, "", c16Emb{})
	if err != nil {
		f.cs.Fail("NewServer: %v", err)
	}
	f.srv = s
	f.h = s.httpServer.Handler
	f.lastObs = nil
	if f.pipes {
		f.installPipelines()
	}
}

// installPipelines configures two RAG pipelines (what a vectorizers.yaml would do), one per
// index A and B, so that /rag/retrieve has something to serve. Done white-box because the
// YAML path needs a reachable embedding service.
func (f *c16Fix) installPipelines() {
	f.pipes = true
	var cfgs []VectorizerConfig
	var ps []*rag.Pipeline
	for i, ix := range f.idx[:2] {
		name := []string{"pipeA", "pipeB"}[i]
		cfgs = append(cfgs, VectorizerConfig{Name: name, KektorIndex: ix.Name})
		ps = append(ps, rag.NewPipeline(rag.Config{Name: name, IndexName: ix.Name}, rag.NewKektorAdapter(f.eng), c16Emb{}, nil, nil))
	}
	f.srv.vectorizerConfig = &Config{Vectorizers: cfgs}
	if f.srv.vectorizerService == nil {
		f.srv.vectorizerService = &VectorizerService{server: f.srv}
	}
	f.srv.vectorizerService.pipelines = ps
}

func (f *c16Fix) close() {
	if f.eng == nil {
		return
	}
	f.settle()
	if f.srv != nil && f.srv.taskManager != nil {
		f.srv.taskManager.StopCleanup()
	}
	f.eng.Close()
	f.eng = nil
}

// restart closes the engine and reopens engine + server on the same directory.
func (f *c16Fix) restart() {
	f.cs.Op("RESTART")
	f.close()
	f.open()
	f.baseG = runtime.NumGoroutine()
}

type c16Resp struct {
	Code int
	Body []byte
}

// do sends one request through the full chain.
func (f *c16Fix) do(method, target, token string, body []byte) c16Resp {
	return f.doHdr(method, target, "Bearer "+token, token != "", body)
}

func (f *c16Fix) doHdr(method, target, authHeader string, withAuth bool, body []byte) c16Resp {
	ctx, cancel := context.WithTimeout(context.Background(), 150*time.Millisecond)
	defer cancel()
	var rd *bytes.Reader
	if body != nil {
		rd = bytes.NewReader(body)
	} else {
		rd = bytes.NewReader(nil)
	}
	f.ctx.Touch()
	r := httptest.NewRequest(method, target, rd).WithContext(ctx)
	if body == nil {
		r.Body = http.NoBody
	}
	if withAuth {
		r.Header["Authorization"] = []string{authHeader}
	}
	w := httptest.NewRecorder()
	f.h.ServeHTTP(w, r)
	return c16Resp{Code: w.Code, Body: w.Body.Bytes()}
}

func (f *c16Fix) rootJSON(method, target string, body any) c16Resp {
	var b []byte
	if body != nil {
		b, _ = json.Marshal(body)
	}
	rs := f.do(method, target, c16Root, b)
	if rs.Code >= 300 {
		f.cs.Fail("fixture request %s %s %s failed: %d %s", method, target, b, rs.Code, rs.Body)
	}
	return rs
}

// populate creates the three indexes, their vectors / metadata / edges and the KV entries,
// all through the HTTP API with the root token.
func (f *c16Fix) populate() {
	r := f.cs.R
	mk := func(tag string) string { return fmt.Sprintf("cnry%s%08x", tag, r.Uint32()) }
	f.kvCan = mk("KV")
	f.kvKeys = []string{"plain_key", "xsearch", "cfg/traverse", "get-links"}
	for k, ix := range f.idx {
		tag := string(rune('A' + k))
		ix.Canaries = nil
		cid := make([]string, 2)
		for j := range cid {
			cid[j] = mk(tag + "id")
			ix.Canaries = append(ix.Canaries, cid[j])
		}
		ids := append(append([]string{}, f.shared...), cid...)
		for j, id := range ids {
			meta := mk(tag + "meta")
			ix.Canaries = append(ix.Canaries, meta)
			md := map[string]any{"content": meta, "type": "doc", "n": j}
			if j == 1 {
				md["type"] = "reflection"
				md["status"] = "unresolved"
			}
			if j == 2 {
				md["type"] = "user_profile"
			}
			f.rootJSON("POST", "/vector/actions/add", map[string]any{"index_name": ix.Name, "id": id,
				"vector": []float32{float32(k) + 0.1*float32(j), 0.5, float32(j), 1}, "metadata": md})
		}
		f.rootJSON("POST", "/vector/actions/add", map[string]any{"index_name": ix.Name, "id": "_profile::u1",
			"vector": []float32{9, 9, 9, float32(k)}, "metadata": map[string]any{"type": "user_profile", "profile_data": mk(tag + "prof")}})
		ix.Canaries = append(ix.Canaries, f.lastMetaCanary(ix.Name, "_profile::u1", "profile_data"))
		link := func(s, t, rel string) {
			p := mk(tag + "edge")
			ix.Canaries = append(ix.Canaries, p)
			f.rootJSON("POST", "/graph/actions/link", map[string]any{"index_name": ix.Name, "source_id": s, "target_id": t, "relation_type": rel, "props": map[string]any{"note": p}})
		}
		link("n0", "n1", "next")
		link("n1", cid[0], "next")
		link("n0", cid[1], "parent")
		link("n2", "n0", "related_to")
	}
	// one compiled knowledge artifact per index ("art1" about entity doc/n0; its data carries the
	// index's own canaries), so that /artifacts and /artifact/{name}* have something to serve
	for _, ix := range f.idx {
		if !c16Artifacts {
			break
		}
		b, _ := json.Marshal(map[string]any{"name": "art1", "template": "entity_card", "index_name": ix.Name,
			"sources": map[string]any{"type": "all", "entity": map[string]any{"type": "doc", "id": "n0"}}})
		if rs := f.do("POST", "/compile", c16Root, b); rs.Code >= 200 && rs.Code < 300 {
			f.ctx.Count("fixture_artifacts", 1)
		} else {
			f.ctx.Count("fixture_artifact_not_compiled", 1) // not a verdict: the artifact routes are then status tests only
		}
	}
	for _, k := range f.kvKeys {
		f.rootJSON("PUT", "/kv/"+strings.ReplaceAll(k, "/", "%2F"), map[string]any{"value": f.kvCan + "-" + k})
	}
	f.uni = vexec.Universe{
		IDs:  append(append([]string{}, f.shared...), "_profile::u1", "ghost", "zz_new"),
		Keys: append(append([]string{}, f.kvKeys...), "c16_auth_canary"),
		Rels: append(append([]string{}, f.rels...), "invalidated_by", "evolves_from"),
	}
	for _, ix := range f.idx {
		f.uni.Indexes = append(f.uni.Indexes, ix.Name)
		for _, c := range ix.Canaries {
			if strings.Contains(c, "id") {
				f.uni.IDs = append(f.uni.IDs, c)
			}
		}
	}
	for _, ix := range f.uni.Indexes {
		for _, id := range f.uni.IDs {
			f.uni.Nodes = append(f.uni.Nodes, vexec.GraphID(ix, id))
		}
	}
	f.settle()
	f.baseG = runtime.NumGoroutine()
}

func (f *c16Fix) lastMetaCanary(index, id, field string) string {
	d, err := f.eng.VGet(index, id)
	if err != nil {
		f.cs.Fail("fixture: VGet(%s,%s): %v", index, id, err)
	}
	s, _ := d.Metadata[field].(string)
	return s
}

// mint issues a token through POST /auth/keys with the root token.
func (f *c16Fix) mint(role string, ns []string) *c16Token {
	rs := f.rootJSON("POST", "/auth/keys", map[string]any{"role": role, "namespaces": ns, "description": "c16"})
	var out struct {
		Token  string `json:"token"`
		Policy struct {
			ID string `json:"id"`
		} `json:"policy"`
	}
	if err := json.Unmarshal(rs.Body, &out); err != nil || out.Token == "" {
		f.cs.Fail("fixture: POST /auth/keys returned %d %s", rs.Code, rs.Body)
	}
	t := &c16Token{Role: role, NS: ns, Token: out.Token, JTI: out.Policy.ID}
	f.tokens = append(f.tokens, t)
	return t
}

// settle waits (bounded) for asynchronous work started by a request: task-manager tasks,
// the physical arena removal of VDeleteIndex, and any other goroutine the request spawned.
// It only delays observation; no verdict depends on how long it took.
func (f *c16Fix) settle() {
	deadline := time.Now().Add(2 * time.Second)
	idle, iter := 0, 0
	for {
		busy := false
		if f.srv != nil && f.srv.taskManager != nil {
			f.srv.taskManager.mu.RLock()
			for _, t := range f.srv.taskManager.tasks {
				st := t.Snapshot().Status
				if st == TaskStatusStarted || st == TaskStatusRunning {
					busy = true
				}
			}
			f.srv.taskManager.mu.RUnlock()
		}
		h := verifhook.Hits()
		if h["op.VDeleteIndex.remove_start"] != h["op.VDeleteIndex.remove_done"] {
			busy = true
		}
		if f.baseG > 0 && runtime.NumGoroutine() > f.baseG {
			// goroutines that have finished their work and only sleep before returning (the
			// 10 s "yield" at the end of a turbo-refine pass started by import/commit) are idle:
			// read from the goroutine dump, re-read every 64 rounds
			if iter%64 == 0 {
				idle = c16IdleSleepers()
			}
			iter++
			if runtime.NumGoroutine()-idle > f.baseG {
				busy = true
			}
		}
		if !busy {
			return
		}
		if time.Now().After(deadline) {
			f.ctx.Count("settle_timeouts", 1)
			f.baseG = runtime.NumGoroutine() // whatever is still running is the new baseline
			return
		}
		time.Sleep(200 * time.Microsecond)
		f.ctx.Touch()
	}
}

// ---- digest ---------------------------------------------------------------------------

// observe = full engine read-out (vexec.Observe) + the files of the data directory.
func (f *c16Fix) observe() *vexec.Obs {
	// indexes created by a request (legitimately, by a token that may) must be read out too
	u := f.uni
	seen := map[string]bool{}
	for _, n := range u.Indexes {
		seen[n] = true
	}
	for _, n := range f.eng.ListIndexes() {
		if !seen[n] {
			u.Indexes = append(u.Indexes, n)
			for _, id := range f.uni.IDs {
				u.Nodes = append(u.Nodes, vexec.GraphID(n, id))
			}
		}
	}
	o := vexec.Observe(f.eng, u)
	for k, v := range o.Vecs { // VGet hands out slices of the mmap'ed arena: copy before the index can go away
		o.Vecs[k] = append([]float32(nil), v...)
	}
	ents, _ := os.ReadDir(f.dir)
	var files []string
	for _, e := range ents {
		if !e.IsDir() && !strings.HasSuffix(e.Name(), ".tmp") {
			files = append(files, e.Name())
		}
	}
	sort.Strings(files)
	o.Vals["files"] = strings.Join(files, ",")
	return o
}

// c16Part restricts a diff to the lines that belong to one index: its info / ids / vectors
// / metadata, every graph view of its nodes, every stored edge version touching its nodes,
// and its presence in the index list.
func c16PartOf(index string, o *vexec.Obs) map[string]string {
	out := map[string]string{}
	pfxI := "idx/" + index + "/"
	node := index + "::"
	for k, v := range o.Vals {
		switch {
		case strings.HasPrefix(k, pfxI):
			out[k] = v
		case strings.HasPrefix(k, "out/"+node), strings.HasPrefix(k, "in/"+node), strings.HasPrefix(k, "links/"+node),
			strings.HasPrefix(k, "incoming/"+node), strings.HasPrefix(k, "rels/"+node), strings.HasPrefix(k, "inrels/"+node):
			out[k] = v
		}
	}
	var vers []string
	for _, l := range strings.Split(o.Vals["graph.versions"], "\n") {
		if strings.HasPrefix(l, node) || strings.Contains(l, "]-> "+node) {
			vers = append(vers, l)
		}
	}
	out["graph.versions"] = strings.Join(vers, "\n")
	out["exists"] = "no"
	for _, n := range strings.Split(o.Vals["indexes"], ",") {
		if n == index {
			out["exists"] = "yes"
		}
	}
	for k, v := range o.Vecs {
		if strings.HasPrefix(k, pfxI) {
			out[k] = fmt.Sprint(v)
		}
	}
	return out
}

func c16DiffMaps(a, b map[string]string) []string {
	var out []string
	keys := map[string]bool{}
	for k := range a {
		keys[k] = true
	}
	for k := range b {
		keys[k] = true
	}
	ks := make([]string, 0, len(keys))
	for k := range keys {
		ks = append(ks, k)
	}
	sort.Strings(ks)
	for _, k := range ks {
		if a[k] != b[k] {
			out = append(out, fmt.Sprintf("%s: before=%q after=%q", k, c16Trunc(a[k]), c16Trunc(b[k])))
		}
	}
	return out
}

func c16Trunc(s string) string {
	if len(s) > 300 {
		return s[:300] + "…"
	}
	return s
}

// c16SysPart = the auth state kept in the KV store: signing key and revocation markers.
func c16SysPart(o *vexec.Obs) map[string]string {
	out := map[string]string{}
	for k, v := range o.Vals {
		if strings.HasPrefix(k, "kv/_sys_auth::") {
			out[k] = v
		}
	}
	return out
}

// keyRenderings returns the ways the stored signing key could appear in a response body.
func (f *c16Fix) keyRenderings() [][]byte {
	der, ok := f.eng.KVGet("_sys_auth::ecdsa_private_key")
	if !ok || len(der) == 0 {
		return nil
	}
	js, _ := json.Marshal(string(der)) // what handleKVGet-style string(value) JSON encoding produces
	return [][]byte{
		der,
		js[1 : len(js)-1],
		[]byte(base64.StdEncoding.EncodeToString(der)),
		[]byte(base64.RawURLEncoding.EncodeToString(der)),
		[]byte(hex.EncodeToString(der)),
	}
}

var c16JWTRe = regexp.MustCompile(`eyJ[A-Za-z0-9_-]+\.[A-Za-z0-9_-]+\.[A-Za-z0-9_-]+`)

// mintedTokens returns every string in body that this server accepts as a token and that is
// not the token the request itself presented.
func (f *c16Fix) mintedTokens(body []byte, presented string) []string {
	var out []string
	for _, m := range c16JWTRe.FindAll(body, -1) {
		if string(m) == presented {
			continue
		}
		if _, err := f.srv.authService.VerifyToken(string(m)); err == nil {
			out = append(out, string(m))
		}
	}
	return out
}

func c16Hits() map[string]int64 { return verifhook.Hits() }

func c16HookDelta(before, after map[string]int64, name string) int64 {
	return after[name] - before[name]
}

// mutatingOpHits sums the "journaled" points of all mutating engine operations.
func c16MutHits(h map[string]int64) (int64, string) {
	var n int64
	var names []string
	for k, v := range h {
		if strings.HasPrefix(k, "op.") && (strings.HasSuffix(k, ".journaled") || strings.HasSuffix(k, ".saved")) {
			n += v
			names = append(names, fmt.Sprintf("%s=%d", k, v))
		}
	}
	sort.Strings(names)
	return n, strings.Join(names, " ")
}

// c16IdleSleepers counts the goroutines that sit in the time.Sleep of GraphOptimizer.RunTurboRefine.
func c16IdleSleepers() int {
	buf := make([]byte, 1<<20)
	buf = buf[:runtime.Stack(buf, true)]
	n := 0
	for _, g := range bytes.Split(buf, []byte("\n\n")) {
		if bytes.Contains(g, []byte("time.Sleep")) && bytes.Contains(g, []byte(").RunTurboRefine(")) {
			n++
		}
	}
	return n
}

// ---- long-lived (streaming) requests --------------------------------------------------------

// c16StreamWriter is a ResponseWriter that can be read while the handler is still writing.
type c16StreamWriter struct {
	mu   sync.Mutex
	hdr  http.Header
	code int
	buf  bytes.Buffer
}

func (w *c16StreamWriter) Header() http.Header { return w.hdr }
func (w *c16StreamWriter) WriteHeader(c int) {
	w.mu.Lock()
	if w.code == 0 {
		w.code = c
	}
	w.mu.Unlock()
}
func (w *c16StreamWriter) Write(b []byte) (int, error) {
	w.mu.Lock()
	defer w.mu.Unlock()
	if w.code == 0 {
		w.code = 200
	}
	return w.buf.Write(b)
}
func (w *c16StreamWriter) Flush() {}
func (w *c16StreamWriter) snapshot() (int, []byte) {
	w.mu.Lock()
	defer w.mu.Unlock()
	return w.code, append([]byte(nil), w.buf.Bytes()...)
}

type c16Event struct {
	Type      string `json:"type"`
	IndexName string `json:"index_name"`
	ID        string `json:"id"`
}

// streamEpisode opens GET target with tok through the full chain and keeps the request open
// while the ROOT token adds one vector with a fresh id to each index of `foreign` and then one
// to `own` (the sentinel). Events reach a subscriber in the order they were emitted, so once the
// sentinel's event is in the stream every earlier event that was going to be delivered has been
// written. It returns the status, the events the stream carried, and whether the sentinel was
// seen (if not - the stream was refused, or does not report vector additions - there is nothing
// to judge). Waiting is bounded and only delays the read; no verdict depends on its length.
func (f *c16Fix) streamEpisode(tok *c16Token, target, own string, foreign []string) (code int, evs []c16Event, raw []byte, sentinelSeen bool) {
	ctx, cancel := context.WithCancel(context.Background())
	w := &c16StreamWriter{hdr: http.Header{}}
	r := httptest.NewRequest("GET", target, http.NoBody).WithContext(ctx)
	r.Header["Authorization"] = []string{"Bearer " + tok.Token}
	done := make(chan struct{})
	go func() {
		defer close(done)
		f.h.ServeHTTP(w, r)
	}()
	wait := func(cond func() bool) bool {
		deadline := time.Now().Add(3 * time.Second)
		for !cond() {
			select {
			case <-done:
				return cond()
			default:
			}
			if time.Now().After(deadline) {
				return cond()
			}
			time.Sleep(200 * time.Microsecond)
			f.ctx.Touch()
		}
		return true
	}
	// the handler answers (status line) once it has subscribed or refused
	wait(func() bool { c, _ := w.snapshot(); return c != 0 })
	f.nonce++
	add := func(index, id string) {
		b, _ := json.Marshal(map[string]any{"index_name": index, "id": id, "vector": []float32{3, 1, 4, 1}, "metadata": map[string]any{"type": "doc"}})
		f.do("POST", "/vector/actions/add", c16Root, b)
	}
	if c, _ := w.snapshot(); c >= 200 && c < 300 {
		for k, ix := range foreign {
			add(ix, fmt.Sprintf("evcnry%d_%d", f.nonce, k))
		}
		sentinel := fmt.Sprintf("evsentinel%d", f.nonce)
		add(own, sentinel)
		sentinelSeen = wait(func() bool { _, b := w.snapshot(); return bytes.Contains(b, []byte(sentinel)) })
	}
	cancel()
	<-done
	code, raw = w.snapshot()
	for _, line := range bytes.Split(raw, []byte("\n")) {
		if !bytes.HasPrefix(line, []byte("data:")) {
			continue
		}
		var ev c16Event
		if json.Unmarshal(bytes.TrimSpace(line[5:]), &ev) == nil {
			evs = append(evs, ev)
		}
	}
	f.lastObs = nil // the root writes changed the state: the next request takes a fresh baseline
	f.settle()
	return
}

package core_test

import (
	"fmt"
	"sort"
	"strings"
	"testing"

	"github.com/sanonone/kektordb/internal/zzverif/vexec"
	"github.com/sanonone/kektordb/internal/zzverif/vkit"
	"github.com/sanonone/kektordb/pkg/core"
)

// One step of the exhaustive alphabet.
type c10Op struct {
	kind     string // link | soft | hard | vac
	src, tgt string
	w        float32
	props    string
	inv      bool
	cut      int // vac: 0 before first, 1 middle, 2 after last
}

func (o c10Op) String() string {
	switch o.kind {
	case "link":
		return fmt.Sprintf("link(%s->%s w=%v p=%q inv=%v)", o.src, o.tgt, o.w, o.props, o.inv)
	case "vac":
		return fmt.Sprintf("vacuum(cut=%d)", o.cut)
	}
	return fmt.Sprintf("%s(%s->%s inv=%v)", o.kind, o.src, o.tgt, o.inv)
}

func c10Alphabet() []c10Op {
	var ops []c10Op
	pairs := [][2]string{{"a", "b"}, {"b", "a"}, {"a", "a"}}
	for _, p := range pairs {
		for _, w := range []float32{1, 2} {
			for _, pr := range []string{"", `{"k":"v"}`} {
				for _, inv := range []bool{false, true} {
					ops = append(ops, c10Op{kind: "link", src: p[0], tgt: p[1], w: w, props: pr, inv: inv})
				}
			}
		}
		for _, inv := range []bool{false, true} {
			ops = append(ops, c10Op{kind: "soft", src: p[0], tgt: p[1], inv: inv})
			ops = append(ops, c10Op{kind: "hard", src: p[0], tgt: p[1], inv: inv})
		}
	}
	for c := 0; c < 3; c++ {
		ops = append(ops, c10Op{kind: "vac", cut: c})
	}
	return ops
}

type c10State struct {
	db    *core.DB
	m     *vexec.Model
	step  int
	descr []string
}

func (s *c10State) apply(o c10Op) {
	s.step++
	ts := int64(10 * s.step)
	s.descr = append(s.descr, fmt.Sprintf("%s @%d", o, ts))
	var props []byte
	if o.props != "" {
		props = []byte(o.props)
	}
	switch o.kind {
	case "link":
		s.db.AddEdge(o.src, o.tgt, "r", o.w, props, ts)
		s.m.Link(o.src, o.tgt, "r", o.w, o.props, ts, ts, nil)
		if o.inv {
			s.db.AddEdge(o.tgt, o.src, "ri", o.w, props, ts)
			s.m.Link(o.tgt, o.src, "ri", o.w, o.props, ts, ts, nil)
		}
	case "soft", "hard":
		hard := o.kind == "hard"
		s.db.RemoveEdge(o.src, o.tgt, "r", hard, ts)
		s.m.Unlink(o.src, o.tgt, "r", hard, ts, ts)
		if o.inv {
			s.db.RemoveEdge(o.tgt, o.src, "ri", hard, ts)
			s.m.Unlink(o.tgt, o.src, "ri", hard, ts, ts)
		}
	case "vac":
		cut := int64(5)
		switch o.cut {
		case 1:
			cut = int64(10*((s.step+1)/2)) + 0 // exactly a middle stamp: "deleted <= cutoff" boundary
		case 2:
			cut = ts + 5
		}
		s.descr[len(s.descr)-1] += fmt.Sprintf(" cutoff=%d", cut)
		if msg := s.m.BindEdges(c10Real(s.db)); msg != "" { // bind the explicit stamps before pruning
			panic("state before vacuum: " + msg)
		}
		s.db.VacuumGraph(cut)
		s.m.Vacuum(cut)
	}
}

func c10Real(db *core.DB) []vexec.RealEdge {
	var out []vexec.RealEdge
	db.IterateGraphEdges(func(source, target, rel string, weight float32, props []byte, c, d int64) {
		out = append(out, vexec.RealEdge{Src: source, Tgt: target, Rel: rel, Weight: weight, Props: string(props), Created: c, Deleted: d})
	})
	return out
}

// check compares every engine-observable view of the core edge store with the model.
func (s *c10State) check() string {
	if msg := s.m.BindEdges(c10Real(s.db)); msg != "" {
		return msg
	}
	times := []int64{0}
	for _, st := range s.m.Stamps() {
		times = append(times, st-1, st, st+1)
	}
	times = append(times, int64(10*s.step+7))
	for _, node := range []string{"a", "b"} {
		for _, rel := range []string{"r", "ri"} {
			for _, t := range times {
				want := s.m.OutAt(node, rel, t)
				got, found := s.db.GetOutEdges(node, rel, t)
				if found != (len(want) > 0) {
					return fmt.Sprintf("GetOutEdges(%s,%s,@%d) found=%v model=%d", node, rel, t, found, len(want))
				}
				var g, w []string
				for _, e := range got {
					g = append(g, fmt.Sprintf("%s|%v|%s|%d|%d", e.TargetID, e.Weight, string(e.Props), e.CreatedAt, e.DeletedAt))
				}
				for _, v := range want {
					w = append(w, fmt.Sprintf("%s|%v|%s|%d|%d", v.Target, v.Weight, v.Props, v.Created, v.Deleted))
				}
				sort.Strings(g)
				sort.Strings(w)
				if strings.Join(g, ";") != strings.Join(w, ";") {
					return fmt.Sprintf("GetOutEdges(%s,%s,@%d)=%v want %v", node, rel, t, g, w)
				}
				// incoming view as the engine exposes it: sources from the reverse index,
				// kept when the source has a forward edge to the node active at t.
				srcs, _ := s.db.GetInEdges(node, rel, t)
				seen := map[string]bool{}
				var hyd []string
				for _, src := range srcs {
					outs, _ := s.db.GetOutEdges(src, rel, t)
					for _, oe := range outs {
						if oe.TargetID == node {
							if seen[src] {
								return fmt.Sprintf("incoming view of %s/%s @%d lists source %s twice", node, rel, t, src)
							}
							seen[src] = true
							hyd = append(hyd, src)
							break
						}
					}
				}
				sort.Strings(hyd)
				wantIn := s.m.InAt(node, rel, t)
				if strings.Join(hyd, ",") != strings.Join(wantIn, ",") {
					return fmt.Sprintf("incoming(%s,%s,@%d)=%v want %v (raw reverse index: %v)", node, rel, t, hyd, wantIn, srcs)
				}
				if t == 0 {
					// current-time forward / reverse agreement on the raw reverse index
					raw := append([]string(nil), srcs...)
					sort.Strings(raw)
					if strings.Join(raw, ",") != strings.Join(wantIn, ",") {
						return fmt.Sprintf("GetInEdges(%s,%s,now)=%v but forward edges say %v", node, rel, raw, wantIn)
					}
				}
			}
		}
		for _, dir := range []string{"out", "in"} {
			got := s.db.GetAllRelations(node, dir)
			want := map[string][]string{}
			for _, rel := range []string{"r", "ri"} {
				var l []string
				if dir == "out" {
					for _, v := range s.m.OutAt(node, rel, 0) {
						l = append(l, v.Target)
					}
				} else {
					l = s.m.InAt(node, rel, 0)
				}
				if len(l) > 0 {
					sort.Strings(l)
					want[rel] = l
				}
			}
			gs := map[string][]string{}
			for k, v := range got {
				if len(v) > 0 {
					c := append([]string(nil), v...)
					sort.Strings(c)
					gs[k] = c
				}
			}
			if fmt.Sprint(gs) != fmt.Sprint(want) {
				return fmt.Sprintf("GetAllRelations(%s,%s)=%v want %v", node, dir, gs, want)
			}
		}
	}
	return ""
}

// TestVerifC10Exhaustive enumerates ALL operation sequences up to length L over the
// alphabet (3 node pairs x {8 link variants, soft/hard unlink with/without inverse} + 3
// vacuum cutoffs) against the in-memory core edge store, with explicit timestamps.
func TestVerifC10Exhaustive(t *testing.T) {
	vkit.Run(t, "C10", func(ctx *vkit.Ctx) {
		alpha := c10Alphabet()
		n := len(alpha)
		L := ctx.N(3, 4)
		ctx.Count("exhaustive_alphabet", int64(n))
		ctx.Count("exhaustive_length", int64(L))
		ctx.Group("exhaustive", n*n, func(cs *vkit.Case) {
			first, second := alpha[cs.Idx/n], alpha[cs.Idx%n]
			var rec func(prefix []c10Op, depth int)
			rec = func(prefix []c10Op, depth int) {
				s := &c10State{db: core.NewDB(), m: vexec.NewModel()}
				for _, o := range prefix {
					s.apply(o)
				}
				// the prefix was checked step by step by shorter sequences; check the last step
				if msg := s.check(); msg != "" {
					cs.Attach("sequence", s.descr)
					cs.Fail("after %v: %s", s.descr, msg)
				}
				ctx.Eval(1)
				if depth == L {
					return
				}
				for _, o := range alpha {
					rec(append(append([]c10Op(nil), prefix...), o), depth+1)
				}
			}
			rec([]c10Op{first, second}, 2)
			ctx.Distinct(fmt.Sprintf("%v|%v", first, second))
			ctx.Count("exhaustive_sequences", int64(pow(n, L-2)))
			ctx.Sample("sequence", 2, []string{first.String(), second.String(), "… x all continuations"})
		})
		// length-1 sequences (prefixes of the above are implicitly covered from length 2 on)
		ctx.Group("single", n, func(cs *vkit.Case) {
			s := &c10State{db: core.NewDB(), m: vexec.NewModel()}
			s.apply(alpha[cs.Idx])
			if msg := s.check(); msg != "" {
				cs.Fail("after %v: %s", s.descr, msg)
			}
			ctx.Eval(1)
		})
	})
}

func pow(a, b int) int {
	r := 1
	for i := 0; i < b; i++ {
		r *= a
	}
	return r
}

package distance

// C18 (kernel / quantiser part) — default pure-Go build (no `rust`, no `avo` tag).
//
// Kernels: every function held by the dispatch catalogs (what GetFloat32Func / GetFloat16Func /
// GetInt8Func return) plus the pure-Go cosine fallback, against a float64 reference loop.
//
// Tolerance derivation (u = 2^-24, unit roundoff of float32; all kernels accumulate in float32):
//   squared euclidean: term_i = fl(fl(a_i-b_i)^2) carries (1+d)^3, the n-1 additions at most
//     (1+d)^(n-1) more, in any order (gonum sums in SIMD lanes) => |fl(S) - S| <= g(n+2) * S
//     with S = sum (a_i-b_i)^2 (all terms >= 0) and g(k) = k*u / (1 - k*u).
//   dot product: |fl(D) - D| <= g(n) * sum |a_i*b_i| (one rounding per product, n-1 additions,
//     any order); the cosine kernels return 1 - float64(fl(D)), exact in float64 up to 2^-53.
//   underflow: a product that lands in the subnormal range has absolute error <= 2^-150 instead
//     of a relative one (additions and subtractions are exact there) => + n * 2^-149.
//   overflow: float32 accumulation overflows when partial sums exceed MaxFloat32; the property
//     speaks of floating-point tolerance, so a case whose exact sum of |terms| reaches
//     MaxFloat32 / 2 is only counted (kernels.overflow_skipped), not judged.
//   int8 dot product: integer arithmetic, must be exact (n * 128^2 < 2^31 for n <= 131071).
// Symmetry d(a,b) vs d(b,a): both are within tol of the same reference value => |diff| <= 2*tol
//   (all kernels here are in fact bitwise symmetric; counted in kernels.symmetric_bitwise).
// d(a,a): euclidean reference is exactly 0 => |d(a,a)| <= n * 2^-149 (in fact 0); cosine on an
//   input normalised in float64 and rounded to float32: reference 1 - sum a_i^2 is computed in
//   float64 and the kernel must be within the same tol of it (so |d(a,a)| <= (n+2)u + tol).
// Non-negativity: euclidean d >= -tol; cosine on normalised input d >= 1 - |a||b| - tol
//   (Cauchy-Schwarz on the exact values), i.e. >= -(small) — "within that tolerance".
// Length mismatch: err != nil, and no byte outside the operands is touched: the operands are
//   placed so that they end exactly at (or start exactly after) a PROT_NONE page; an access
//   outside faults, which debug.SetPanicOnFault turns into a recorded violation.

import (
	"fmt"
	"math"
	"runtime/debug"
	"sort"
	"testing"
	"unsafe"

	"github.com/sanonone/kektordb/internal/zzverif/vkit"
	"github.com/x448/float16"
	"golang.org/x/sys/unix"
)

const c18U = 1.0 / (1 << 24)

func c18Gamma(k int) float64 { return float64(k) * c18U / (1 - float64(k)*c18U) }

var c18Dims = []int{0, 1, 2, 3, 7, 8, 9, 15, 16, 17, 31, 33, 127, 128, 129, 1000}

// ---- guarded memory ------------------------------------------------------------------------

// c18Guard is [PROT_NONE page][data pages][PROT_NONE page].
type c18Guard struct {
	region []byte
	data   []byte
	page   int
}

func c18NewGuard(dataPages int) *c18Guard {
	pg := unix.Getpagesize()
	region, err := unix.Mmap(-1, 0, (dataPages+2)*pg, unix.PROT_READ|unix.PROT_WRITE, unix.MAP_ANON|unix.MAP_PRIVATE)
	if err != nil {
		panic(fmt.Sprintf("mmap guard region: %v", err))
	}
	if err := unix.Mprotect(region[:pg], unix.PROT_NONE); err != nil {
		panic(err)
	}
	if err := unix.Mprotect(region[(dataPages+1)*pg:], unix.PROT_NONE); err != nil {
		panic(err)
	}
	return &c18Guard{region: region, data: region[pg : (dataPages+1)*pg : (dataPages+1)*pg], page: pg}
}

// bytes returns n bytes that end at the trailing guard page (atEnd) or start right after the
// leading guard page.
func (g *c18Guard) bytes(n int, atEnd bool) []byte {
	if n > len(g.data) {
		panic("guard region too small")
	}
	if atEnd {
		return g.data[len(g.data)-n : len(g.data) : len(g.data)]
	}
	return g.data[0:n:n]
}

func c18F32At(g *c18Guard, n int, atEnd bool) []float32 {
	if n == 0 {
		return []float32{}
	}
	b := g.bytes(4*n, atEnd)
	return unsafe.Slice((*float32)(unsafe.Pointer(&b[0])), n)
}
func c18U16At(g *c18Guard, n int, atEnd bool) []uint16 {
	if n == 0 {
		return []uint16{}
	}
	b := g.bytes(2*n, atEnd)
	return unsafe.Slice((*uint16)(unsafe.Pointer(&b[0])), n)
}
func c18I8At(g *c18Guard, n int, atEnd bool) []int8 {
	if n == 0 {
		return []int8{}
	}
	b := g.bytes(n, atEnd)
	return unsafe.Slice((*int8)(unsafe.Pointer(&b[0])), n)
}

var c18GA, c18GB *c18Guard

func c18Guards() (*c18Guard, *c18Guard) {
	if c18GA == nil {
		c18GA, c18GB = c18NewGuard(1), c18NewGuard(1) // 4096 bytes >= 1000 float32
	}
	return c18GA, c18GB
}

// c18FaultToFail turns a guard-page fault (runtime error with a fault address, raised because
// of debug.SetPanicOnFault) into a violation that says what it means.
func c18FaultToFail(cs *vkit.Case, what string) {
	if r := recover(); r != nil {
		if e, ok := r.(interface{ Addr() uintptr }); ok {
			ga, gb := c18Guards()
			cs.Fail("%s: the kernel touched memory outside its operands: fault at address %#x (operand pages: a=[%#x,%#x) b=[%#x,%#x), each between two PROT_NONE pages); %v",
				what, e.Addr(), uintptr(unsafe.Pointer(&ga.data[0])), uintptr(unsafe.Pointer(&ga.data[0]))+uintptr(len(ga.data)),
				uintptr(unsafe.Pointer(&gb.data[0])), uintptr(unsafe.Pointer(&gb.data[0]))+uintptr(len(gb.data)), r)
		}
		panic(r)
	}
}

// ---- generators ----------------------------------------------------------------------------

var c18Classes = []string{"denormal", "tiny", "small", "unit", "normalised", "1e3", "1e9", "1e18", "mixed", "zeros", "negzeros", "onehot"}

// c18Value draws one component of the class.
func c18Value(r *vkit.Rand, class string) float32 {
	sign := float32(1)
	if r.Chance(0.5) {
		sign = -1
	}
	switch class {
	case "denormal": // subnormal float32: 1..2^23-1 units of 2^-149
		return sign * math.Float32frombits(uint32(1+r.Intn(1<<23-1)))
	case "tiny":
		return sign * float32(r.Float64()) * 1e-30
	case "small":
		return sign * float32(r.Float64()) * 1e-3
	case "unit", "normalised":
		return r.F32()
	case "1e3":
		return r.F32() * 1e3
	case "1e9":
		return r.F32() * 1e9
	case "1e18":
		return r.F32() * 1e18
	case "mixed": // any exponent from subnormal to 2^60, any mantissa
		e := uint32(r.Intn(188))
		return sign * math.Float32frombits(e<<23|uint32(r.Intn(1<<23)))
	case "negzeros":
		return float32(math.Copysign(0, -1))
	}
	return 0
}

func c18Fill(r *vkit.Rand, v []float32, class string) {
	for i := range v {
		v[i] = c18Value(r, class)
		if class != "zeros" && class != "negzeros" && r.Chance(0.03) { // sprinkle signed zeros
			v[i] = float32(math.Copysign(0, float64(r.Intn(2))*2-1))
		}
	}
	switch class {
	case "onehot":
		for i := range v {
			v[i] = 0
		}
		if len(v) > 0 {
			v[r.Intn(len(v))] = c18Value(r, vkit.Pick(r, []string{"unit", "1e9", "denormal"}))
		}
	case "normalised":
		var ss float64
		for _, x := range v {
			ss += float64(x) * float64(x)
		}
		if ss > 0 {
			n := math.Sqrt(ss)
			for i := range v {
				v[i] = float32(float64(v[i]) / n)
			}
		}
	}
}

// ---- references ----------------------------------------------------------------------------

// c18F16ToF64 decodes IEEE binary16 independently of the x448 library.
func c18F16ToF64(h uint16) float64 {
	s := 1.0
	if h&0x8000 != 0 {
		s = -1
	}
	e := int(h>>10) & 0x1f
	m := float64(h & 0x3ff)
	switch e {
	case 0:
		return s * m * math.Ldexp(1, -24)
	case 31:
		if m == 0 {
			return s * math.Inf(1)
		}
		return math.NaN()
	}
	return s * (1 + m/1024) * math.Ldexp(1, e-15)
}

// c18F32ToF16 converts with round-to-nearest-even, independently of the x448 library.
func c18F32ToF16(f float32) uint16 {
	b := math.Float32bits(f)
	sign := uint16(b>>16) & 0x8000
	x := float64(f)
	if x < 0 {
		x = -x
	}
	switch {
	case math.IsNaN(x):
		return sign | 0x7e00
	case x >= 65520: // halfway between 65504 and 2^16 rounds to even = infinity
		return sign | 0x7c00
	case x < math.Ldexp(1, -14): // subnormal half: multiples of 2^-24
		q := math.RoundToEven(x * (1 << 24))
		return sign | uint16(q) // q == 1024 yields the smallest normal, as it should
	}
	e := math.Floor(math.Log2(x))
	if math.Ldexp(1, int(e)) > x { // guard against log2 rounding up
		e--
	} else if math.Ldexp(1, int(e)+1) <= x {
		e++
	}
	m := math.RoundToEven((x/math.Ldexp(1, int(e)) - 1) * 1024)
	he := int(e) + 15
	if m == 1024 {
		m = 0
		he++
	}
	if he >= 31 {
		return sign | 0x7c00
	}
	return sign | uint16(he)<<10 | uint16(m)
}

type c18Kernel struct {
	name string
	kind string // "f32euc" "f32cos" "f16euc" "i8dot"
	f32  DistanceFuncF32
	f16  DistanceFuncF16
	i8   DistanceFuncI8
}

func c18Catalog() []c18Kernel {
	var ks []c18Kernel
	for _, m := range []DistanceMetric{Euclidean, Cosine} {
		if f, err := GetFloat32Func(m); err == nil {
			kind := "f32euc"
			if m == Cosine {
				kind = "f32cos"
			}
			ks = append(ks, c18Kernel{name: "GetFloat32Func(" + string(m) + ")", kind: kind, f32: f})
		}
		if f, err := GetFloat16Func(m); err == nil {
			if m != Euclidean {
				panic("float16 kernel for a metric this check has no reference for: " + string(m))
			}
			ks = append(ks, c18Kernel{name: "GetFloat16Func(" + string(m) + ")", kind: "f16euc", f16: f})
		}
		if f, err := GetInt8Func(m); err == nil {
			if m != Cosine {
				panic("int8 kernel for a metric this check has no reference for: " + string(m))
			}
			ks = append(ks, c18Kernel{name: "GetInt8Func(" + string(m) + ")", kind: "i8dot", i8: f})
		}
	}
	// not dispatched in the default build (init installs the Gonum version) but still the
	// documented reference implementation and the fallback of the catalog literal
	ks = append(ks, c18Kernel{name: "dotProductAsDistanceGo", kind: "f32cos", f32: dotProductAsDistanceGo})
	return ks
}

// c18RefF32 returns the reference value, the tolerance and whether float32 overflow is possible.
func c18RefF32(kind string, a, b []float64) (ref, tol float64, overflow bool) {
	n := len(a)
	var s, sabs float64
	for i := range a {
		var t float64
		if kind == "f32cos" {
			t = a[i] * b[i]
		} else {
			d := a[i] - b[i]
			t = d * d
		}
		s += t
		sabs += math.Abs(t)
	}
	under := float64(n) * math.Ldexp(1, -149)
	if sabs >= math.MaxFloat32/2 {
		overflow = true
	}
	if kind == "f32cos" {
		return 1 - s, c18Gamma(n)*sabs + under + math.Ldexp(1, -52)*(1+math.Abs(s)), overflow
	}
	return s, c18Gamma(n+2)*sabs + under, overflow
}

func c18ToF64(v []float32) []float64 {
	o := make([]float64, len(v))
	for i, x := range v {
		o[i] = float64(x)
	}
	return o
}

func c18Norm(v []float64) float64 {
	var s float64
	for _, x := range v {
		s += x * x
	}
	return math.Sqrt(s)
}

// c18KernelCase runs one (kernel, dim, class, placement) cell with `pairs` operand pairs.
func c18KernelCase(ctx *vkit.Ctx, cs *vkit.Case, k c18Kernel, dim int, class string, atEnd bool, pairs int) {
	r := cs.R
	ga, gb := c18Guards()
	debug.SetPanicOnFault(true)
	defer debug.SetPanicOnFault(false)
	defer c18FaultToFail(cs, fmt.Sprintf("%s dim=%d class=%s", k.name, dim, class))
	cs.Op("kernel %s dim=%d class=%s operands %s guard page, %d pairs", k.name, dim, class, map[bool]string{true: "end at", false: "start after"}[atEnd], pairs)
	fail := func(what string, a, b any, got, ref, tol float64) {
		cs.Attach("a", fmt.Sprintf("%v", a))
		cs.Attach("b", fmt.Sprintf("%v", b))
		cs.Fail("%s dim=%d class=%s: %s: got %.17g, reference %.17g, tolerance %.3g", k.name, dim, class, what, got, ref, tol)
	}
	for p := 0; p < pairs; p++ {
		mode := r.Intn(10) // 0: b == a, 1: b == -a, else independent
		switch k.kind {
		case "f32euc", "f32cos":
			a, b := c18F32At(ga, dim, atEnd), c18F32At(gb, dim, atEnd)
			c18Fill(r, a, class)
			c18Fill(r, b, class)
			if mode == 0 {
				copy(b, a)
			} else if mode == 1 {
				for i := range a {
					b[i] = -a[i]
				}
			}
			a64, b64 := c18ToF64(a), c18ToF64(b)
			ref, tol, ovf := c18RefF32(k.kind, a64, b64)
			d1, err1 := k.f32(a, b)
			d2, err2 := k.f32(b, a)
			if err1 != nil || err2 != nil {
				cs.Fail("%s dim=%d: error on equal lengths: %v %v", k.name, dim, err1, err2)
			}
			if ovf {
				ctx.Count("kernels.overflow_skipped", 1)
				continue
			}
			if math.IsNaN(d1) || math.Abs(d1-ref) > tol {
				fail("d(a,b) vs float64 reference loop", a, b, d1, ref, tol)
			}
			if math.IsNaN(d2) || math.Abs(d1-d2) > 2*tol {
				fail("symmetry d(a,b) vs d(b,a)", a, b, d2, d1, 2*tol)
			}
			if math.Float64bits(d1) == math.Float64bits(d2) {
				ctx.Count("kernels.symmetric_bitwise", 1)
			}
			if k.kind == "f32euc" {
				if d1 < -tol {
					fail("non-negativity", a, b, d1, 0, tol)
				}
			} else if class == "normalised" {
				if lo := 1 - c18Norm(a64)*c18Norm(b64); d1 < lo-tol {
					fail("non-negativity on normalised input (d >= 1-|a||b|)", a, b, d1, lo, tol)
				}
			}
			// d(a,a)
			daa, err := k.f32(a, a)
			if err != nil {
				cs.Fail("%s dim=%d: d(a,a) error %v", k.name, dim, err)
			}
			refaa, tolaa, ovfaa := c18RefF32(k.kind, a64, a64)
			if !ovfaa && (math.IsNaN(daa) || math.Abs(daa-refaa) > tolaa) {
				fail("d(a,a)", a, a, daa, refaa, tolaa)
			}
			if k.kind == "f32euc" && !ovfaa && daa != 0 {
				fail("d(a,a) of the squared euclidean kernel must be exactly 0", a, a, daa, 0, 0)
			}
			ctx.Count("kernels.evaluations", 3)
		case "f16euc":
			a, b := c18U16At(ga, dim, atEnd), c18U16At(gb, dim, atEnd)
			for i := range a { // every finite binary16 pattern (subnormals, +-0, up to 65504)
				a[i], b[i] = c18F16Bits(r, class), c18F16Bits(r, class)
			}
			if mode == 0 {
				copy(b, a)
			} else if mode == 1 {
				for i := range a {
					b[i] = a[i] ^ 0x8000
				}
			}
			a64, b64 := make([]float64, dim), make([]float64, dim)
			for i := range a {
				a64[i], b64[i] = c18F16ToF64(a[i]), c18F16ToF64(b[i])
			}
			ref, tol, ovf := c18RefF32("f32euc", a64, b64)
			d1, err1 := k.f16(a, b)
			d2, err2 := k.f16(b, a)
			if err1 != nil || err2 != nil {
				cs.Fail("%s dim=%d: error on equal lengths: %v %v", k.name, dim, err1, err2)
			}
			if ovf {
				ctx.Count("kernels.overflow_skipped", 1)
				continue
			}
			if math.IsNaN(d1) || math.Abs(d1-ref) > tol {
				fail("d(a,b) vs float64 reference loop over independently decoded binary16", a, b, d1, ref, tol)
			}
			if math.IsNaN(d2) || math.Abs(d1-d2) > 2*tol {
				fail("symmetry d(a,b) vs d(b,a)", a, b, d2, d1, 2*tol)
			}
			if math.Float64bits(d1) == math.Float64bits(d2) {
				ctx.Count("kernels.symmetric_bitwise", 1)
			}
			if d1 < -tol {
				fail("non-negativity", a, b, d1, 0, tol)
			}
			if daa, err := k.f16(a, a); err != nil || daa != 0 {
				fail(fmt.Sprintf("d(a,a) must be exactly 0 (err=%v)", err), a, a, daa, 0, 0)
			}
			ctx.Count("kernels.evaluations", 3)
		case "i8dot":
			a, b := c18I8At(ga, dim, atEnd), c18I8At(gb, dim, atEnd)
			for i := range a {
				a[i], b[i] = c18I8Value(r, class), c18I8Value(r, class)
			}
			if mode == 0 {
				copy(b, a)
			}
			var ref, refaa int64
			for i := range a {
				ref += int64(a[i]) * int64(b[i])
				refaa += int64(a[i]) * int64(a[i])
			}
			d1, err1 := k.i8(a, b)
			d2, err2 := k.i8(b, a)
			daa, err3 := k.i8(a, a)
			if err1 != nil || err2 != nil || err3 != nil {
				cs.Fail("%s dim=%d: error on equal lengths: %v %v %v", k.name, dim, err1, err2, err3)
			}
			if int64(d1) != ref || int64(d2) != ref || int64(daa) != refaa {
				cs.Attach("a", fmt.Sprintf("%v", a))
				cs.Attach("b", fmt.Sprintf("%v", b))
				cs.Fail("%s dim=%d: int8 dot product must be exact: a.b=%d b.a=%d want %d; a.a=%d want %d", k.name, dim, d1, d2, ref, daa, refaa)
			}
			ctx.Count("kernels.symmetric_bitwise", 1)
			ctx.Count("kernels.evaluations", 3)
		}
	}
}

func c18F16Bits(r *vkit.Rand, class string) uint16 {
	sign := uint16(r.Intn(2)) << 15
	switch class {
	case "denormal":
		return sign | uint16(1+r.Intn(1023))
	case "zeros":
		return 0
	case "negzeros":
		return 0x8000
	case "tiny", "small":
		return sign | uint16(r.Intn(5))<<10 | uint16(r.Intn(1024))
	case "unit", "normalised", "onehot":
		return sign | uint16(10+r.Intn(5))<<10 | uint16(r.Intn(1024))
	case "1e3", "1e9", "1e18":
		return sign | uint16(24+r.Intn(7))<<10 | uint16(r.Intn(1024)) // up to 65504
	}
	return sign | uint16(r.Intn(31))<<10 | uint16(r.Intn(1024)) // mixed: any finite pattern
}

func c18I8Value(r *vkit.Rand, class string) int8 {
	switch class {
	case "zeros", "negzeros":
		return 0
	case "1e18", "1e9": // saturated, including -128 (Quantize never emits it; the kernel's domain has it)
		return vkit.Pick(r, []int8{-128, -127, 127, 127})
	case "denormal", "tiny":
		return int8(r.Intn(3) - 1)
	}
	return int8(r.Intn(256) - 128)
}

// c18Mismatch: different lengths => error, and no access outside the operands.
func c18Mismatch(ctx *vkit.Ctx, cs *vkit.Case, k c18Kernel) {
	r := cs.R
	ga, gb := c18Guards()
	debug.SetPanicOnFault(true)
	defer debug.SetPanicOnFault(false)
	defer c18FaultToFail(cs, k.name+" with operands of different lengths")
	n := vkit.Pick(r, c18Dims)
	m := vkit.Pick(r, c18Dims)
	if r.Chance(0.5) {
		m = n + vkit.Pick(r, []int{-1, 1, 2, -2, 7, -7, 8})
	}
	if m < 0 {
		m = 0
	}
	if m > 1000 {
		m = 999
	}
	if m == n {
		m = n + 1
		if m > 1000 {
			m = n - 1
		}
	}
	atEnd := r.Chance(0.7)
	cs.Op("length mismatch %s len(a)=%d len(b)=%d operands %s guard page", k.name, n, m, map[bool]string{true: "end at", false: "start after"}[atEnd])
	var err1, err2 error
	switch k.kind {
	case "f32euc", "f32cos":
		a, b := c18F32At(ga, n, atEnd), c18F32At(gb, m, atEnd)
		c18Fill(r, a, "unit")
		c18Fill(r, b, "unit")
		_, err1 = k.f32(a, b)
		_, err2 = k.f32(b, a)
	case "f16euc":
		a, b := c18U16At(ga, n, atEnd), c18U16At(gb, m, atEnd)
		_, err1 = k.f16(a, b)
		_, err2 = k.f16(b, a)
	case "i8dot":
		a, b := c18I8At(ga, n, atEnd), c18I8At(gb, m, atEnd)
		_, err1 = k.i8(a, b)
		_, err2 = k.i8(b, a)
	}
	if err1 == nil || err2 == nil {
		cs.Fail("%s: lengths %d and %d differ but no error was returned (errors: %v, %v)", k.name, n, m, err1, err2)
	}
	ctx.Count("kernels.length_mismatch_calls", 2)
}

func TestVerifC18Kernels(t *testing.T) {
	vkit.Run(t, "C18", func(ctx *vkit.Ctx) {
		ks := c18Catalog()
		for _, k := range ks {
			ctx.Count("kernels.catalog."+k.name, 1)
		}
		// GetXFunc must refuse what the catalog does not hold (no nil function with nil error)
		for _, m := range []DistanceMetric{Euclidean, Cosine, "manhattan", ""} {
			if f, err := GetFloat32Func(m); (f == nil) != (err != nil) {
				t.Fatalf("GetFloat32Func(%q): fn nil=%v err=%v", m, f == nil, err)
			}
			if f, err := GetFloat16Func(m); (f == nil) != (err != nil) {
				t.Fatalf("GetFloat16Func(%q): fn nil=%v err=%v", m, f == nil, err)
			}
			if f, err := GetInt8Func(m); (f == nil) != (err != nil) {
				t.Fatalf("GetInt8Func(%q): fn nil=%v err=%v", m, f == nil, err)
			}
		}
		pairs := ctx.N(18, 60)
		if c18Race {
			pairs = ctx.N(3, 10)
		}
		// one cell = kernel x dim x class x placement; the grid is enumerated, the PRNG fills it
		type cell struct {
			k     c18Kernel
			dim   int
			class string
			atEnd bool
		}
		var cells []cell
		for _, k := range ks {
			for _, d := range c18Dims {
				for _, c := range c18Classes {
					cells = append(cells, cell{k, d, c, true}, cell{k, d, c, false})
				}
			}
		}
		rounds := ctx.N(1, 30)
		if c18Race {
			rounds = ctx.N(1, 4)
		}
		ctx.Group("kernels", len(cells)*rounds, func(cs *vkit.Case) {
			c := cells[cs.Idx%len(cells)]
			dim := c.dim
			if cs.Idx >= len(cells) && cs.R.Chance(0.3) { // later rounds also visit dimensions off the list
				dim = cs.R.Range(1, 1000)
			}
			c18KernelCase(ctx, cs, c.k, dim, c.class, c.atEnd, pairs)
			ctx.Eval(int64(pairs))
			if dim >= 1 && c.class != "zeros" && c.class != "negzeros" {
				ctx.Distinct(fmt.Sprintf("%s/%d/%s/%v", c.k.name, dim, c.class, c.atEnd))
			}
		})
		ctx.Group("mismatch", len(ks)*ctx.N(60, 2000), func(cs *vkit.Case) {
			c18Mismatch(ctx, cs, ks[cs.Idx%len(ks)])
			ctx.Eval(1)
		})
		// the engine's largest dimension (65 536) with saturated int8 operands: the accumulator
		// must hold 65 536 * 128^2 = 2^30 (exactness clause of the int8 kernel, see the header)
		var i8ks []c18Kernel
		for _, k := range ks {
			if k.kind == "i8dot" {
				i8ks = append(i8ks, k)
			}
		}
		ctx.Group("int8_max_dim", 5*len(i8ks), func(cs *vkit.Case) {
			k := i8ks[cs.Idx%len(i8ks)]
			pat := cs.Idx / len(i8ks)
			const dim = 65536
			a, b := make([]int8, dim), make([]int8, dim)
			for i := range a {
				switch pat {
				case 0:
					a[i], b[i] = 127, 127
				case 1:
					a[i], b[i] = -128, -128
				case 2:
					a[i], b[i] = 127, -128
				case 3:
					a[i], b[i] = -127, 127
				default:
					a[i], b[i] = c18I8Value(cs.R, "1e18"), c18I8Value(cs.R, "1e18")
				}
			}
			var ref, refaa int64
			for i := range a {
				ref += int64(a[i]) * int64(b[i])
				refaa += int64(a[i]) * int64(a[i])
			}
			cs.Op("kernel %s dim=%d saturated operands, pattern %d", k.name, dim, pat)
			d1, err1 := k.i8(a, b)
			d2, err2 := k.i8(b, a)
			daa, err3 := k.i8(a, a)
			if err1 != nil || err2 != nil || err3 != nil {
				cs.Fail("%s dim=%d: error on equal lengths: %v %v %v", k.name, dim, err1, err2, err3)
			}
			if int64(d1) != ref || int64(d2) != ref || int64(daa) != refaa {
				cs.Fail("%s dim=%d saturated operands (pattern %d): int8 dot product must be exact: a.b=%d b.a=%d want %d; a.a=%d want %d", k.name, dim, pat, d1, d2, ref, daa, refaa)
			}
			ctx.Count("kernels.evaluations", 3)
			ctx.Eval(1)
			ctx.Distinct(fmt.Sprintf("%s/%d/saturated%d", k.name, dim, pat))
		})
		if !c18Race {
			c18QuantGroups(ctx)
		}
	})
}

// ---------------------------------------------------------------------------------------
// Quantiser and float16 conversion
// ---------------------------------------------------------------------------------------
//
// Error bound of one Quantize/Dequantize round trip for |x| <= A (A = trained AbsMax > 0), all
// arithmetic in float32 (u = 2^-24):
//   scaled  = fl(fl(x/A) * 127)            => |scaled - 127x/A| <= 127(2u+u^2) (+127*2^-150 if x/A underflows)
//   q       = round-half-away(scaled)      => |q - 127x/A| <= 1/2 + 127(2u+u^2)
//   x'      = fl(fl(q/127) * A)            => |x' - qA/127| <= A(2u+u^2) + 2^-149 (last term: A subnormal)
//   total   |x' - x| <= A/254 + 2A(2u+u^2) + 2^-149 + (A/127)*127*2^-150
//                    <= A/254 + 4.001*u*A + 2^-148.
// ("one rounding step" is read as in DESIGN.md 2.4: half a quantisation step A/127, plus the
// float32 slack derived above — 6e-5 relative to the half step.)
// Out of range (|x| > A): q must be +-127 with the sign of x and x' = +-A exactly ((127/127)*A).
// For every x: q in [-127,127] (never -128), sign(q) never opposite to sign(x), |x'| <= A.

func c18QuantTol(A float64) float64 { return A/254 + 4.001*c18U*A + math.Ldexp(1, -148) }

func c18QuantGroups(ctx *vkit.Ctx) {
	ctx.Group("quantizer", ctx.N(300, 10000), func(cs *vkit.Case) {
		r := cs.R
		class := vkit.Pick(r, []string{"denormal", "tiny", "small", "unit", "normalised", "1e3", "1e9", "1e18", "mixed", "unit", "unit"})
		// training set sizes: below and above the 1000-value point where the 99.9th percentile
		// starts to exclude the maximum; rarely above 10 000 vectors (stride sampling)
		nvec := vkit.Pick(r, []int{1, 1, 2, 3, 10, 40, 100, 333, 1000, 2500})
		dim := vkit.Pick(r, []int{1, 2, 3, 8, 16, 33})
		if r.Chance(0.02) {
			nvec, dim = r.Range(10001, 30000), vkit.Pick(r, []int{1, 2})
		}
		outliers := r.Chance(0.5)
		train := make([][]float32, nvec)
		var abs []float64
		for i := range train {
			train[i] = make([]float32, dim)
			c18Fill(r, train[i], class)
			if outliers && r.Chance(0.002) {
				train[i][r.Intn(dim)] *= 50
			}
			for _, x := range train[i] {
				abs = append(abs, math.Abs(float64(x)))
			}
		}
		cs.Op("Train: %d vectors x dim %d, class %s, outliers=%v", nvec, dim, class, outliers)
		var q Quantizer
		q.Train(train)
		A := float64(q.Range())
		sort.Float64s(abs)
		N := len(abs)
		if nvec <= 10000 {
			// 99.9th percentile of the absolute values: the documented rule is
			// sorted[int(N*0.999)] (clamped); the nearest-rank convention ceil(0.999N)-1 is the
			// only other standard reading and is accepted as well (they differ by one rank at most).
			doc := int(float64(N) * 0.999)
			alt := (999*N+999)/1000 - 1
			ok := false
			for _, k := range []int{doc, alt, 999 * N / 1000} {
				if k >= N {
					k = N - 1
				}
				if k < 0 {
					k = 0
				}
				if abs[k] == A {
					ok = true
				}
			}
			if kd := min(doc, N-1); abs[kd] == A {
				ctx.Count("quant.absmax_equals_documented_rank", 1)
			}
			if !ok {
				cs.Attach("sorted_abs_tail", abs[max(0, N-6):])
				cs.Fail("Train: AbsMax=%v is not the 99.9th percentile of the %d absolute training values (rank %d holds %v, max %v)", A, N, min(doc, N-1), abs[min(doc, N-1)], abs[N-1])
			}
			if N > 1000 && abs[N-1] > abs[min(doc, N-1)] {
				ctx.Count("quant.percentile_excludes_max", 1)
			}
		} else {
			// sampled training (documented): only membership and the upper bound are required
			k := sort.SearchFloat64s(abs, A)
			if k >= N || abs[k] != A {
				cs.Fail("Train (sampled, %d vectors): AbsMax=%v is not one of the absolute training values", nvec, A)
			}
			ctx.Count("quant.sampled_training_sets", 1)
		}
		if q.IsTrained() != (A != 0) {
			cs.Fail("IsTrained()=%v but Range()=%v", q.IsTrained(), A)
		}
		// probe values: the training values, the boundaries, just outside, far outside, zeros
		var xs []float32
		for i := 0; i < 40 && i < nvec; i++ {
			xs = append(xs, train[r.Intn(nvec)]...)
		}
		a32 := float32(A)
		xs = append(xs, 0, float32(math.Copysign(0, -1)), a32, -a32, math.Nextafter32(a32, float32(math.Inf(1))), -math.Nextafter32(a32, float32(math.Inf(1))),
			math.Nextafter32(a32, 0), a32*2, -a32*2, a32*1000, -a32*1000, math.MaxFloat32, -math.MaxFloat32, math.SmallestNonzeroFloat32, -math.SmallestNonzeroFloat32)
		for k := 0; k <= 254; k++ { // the rounding boundaries (k+1/2) steps and their neighbours
			h := float32((float64(k) - 127 + 0.5) / 127 * A)
			xs = append(xs, h, math.Nextafter32(h, float32(math.Inf(1))), math.Nextafter32(h, float32(math.Inf(-1))))
		}
		for i := 0; i < 64; i++ {
			xs = append(xs, float32((r.Float64()*2-1)*A), float32((r.Float64()*2-1)*A*3))
		}
		fin := xs[:0]
		for _, x := range xs { // the property quantifies over finite values ("denormal to large")
			if !math.IsInf(float64(x), 0) && !math.IsNaN(float64(x)) {
				fin = append(fin, x)
			}
		}
		xs = fin
		cs.Op("Quantize/Dequantize %d values, A=%v", len(xs), A)
		qs := q.Quantize(xs)
		back := q.Dequantize(qs)
		if len(qs) != len(xs) || len(back) != len(xs) {
			cs.Fail("Quantize/Dequantize changed the length: %d -> %d -> %d", len(xs), len(qs), len(back))
		}
		tol := c18QuantTol(A)
		for i, x := range xs {
			x64, b64 := float64(x), float64(back[i])
			if A == 0 { // untrained / all-zero training data: everything maps to 0
				if qs[i] != 0 || back[i] != 0 {
					cs.Fail("untrained quantizer (A=0): x=%v -> q=%d -> %v, want 0", x, qs[i], back[i])
				}
				continue
			}
			if qs[i] == -128 {
				cs.Fail("Quantize(%v) with A=%v produced -128 (outside the symmetric range)", x, A)
			}
			if (x64 > 0 && qs[i] < 0) || (x64 < 0 && qs[i] > 0) || (x64 > 0 && b64 < 0) || (x64 < 0 && b64 > 0) {
				cs.Fail("sign not preserved (wrapped?): x=%v A=%v -> q=%d -> %v", x, A, qs[i], back[i])
			}
			if math.Abs(b64) > A {
				cs.Fail("|dequantized| exceeds the trained range: x=%v A=%v -> q=%d -> %v", x, A, qs[i], back[i])
			}
			switch {
			case math.Abs(x64) > A:
				want := int8(127)
				if x64 < 0 {
					want = -127
				}
				if qs[i] != want || math.Abs(b64) != A {
					cs.Fail("out-of-range value not clipped to the range end: x=%v A=%v -> q=%d (want %d) -> %v (want %v)", x, A, qs[i], want, back[i], math.Copysign(A, x64))
				}
				ctx.Count("quant.clipped_values", 1)
			default:
				if math.Abs(b64-x64) > tol {
					cs.Fail("round trip error too large: x=%v A=%v -> q=%d -> %v, |error|=%g > A/254+slack=%g", x, A, qs[i], back[i], math.Abs(b64-x64), tol)
				}
				ctx.Count("quant.in_range_values", 1)
			}
		}
		ctx.Eval(1)
		if A != 0 && N > 1 {
			ctx.Distinct(fmt.Sprintf("quant/%s/%d/%d/%v", class, nvec, dim, outliers))
		}
	})

	// float16: the library conversion used by the index (float16.Fromfloat32 / Frombits.Float32)
	// against an independent round-to-nearest-even implementation.
	ctx.Group("float16", ctx.N(8, 64), func(cs *vkit.Case) {
		r := cs.R
		if cs.Idx == 0 { // decode: all 65536 patterns
			cs.Op("float16 decode: all 65536 bit patterns")
			for h := 0; h < 1<<16; h++ {
				got := float64(float16.Frombits(uint16(h)).Float32())
				want := c18F16ToF64(uint16(h))
				if got != want && !(math.IsNaN(got) && math.IsNaN(want)) {
					cs.Fail("float16 decode of %#04x: library %v, reference %v", h, got, want)
				}
			}
			ctx.Count("f16.decode_patterns", 1<<16)
		}
		n := ctx.N(20000, 200000)
		cs.Op("float16 encode: %d values (random bit patterns, halfway points, range ends)", n)
		for i := 0; i < n; i++ {
			var x float32
			switch r.Intn(4) {
			case 0: // any float32 in the half range and a bit beyond
				x = math.Float32frombits(uint32(r.Intn(2))<<31 | uint32(96+r.Intn(50))<<23 | uint32(r.Intn(1<<23)))
			case 1: // exact halfway points between two adjacent halves and their float32 neighbours
				h := uint16(r.Intn(0x7bff))
				mid := float32((c18F16ToF64(h) + c18F16ToF64(h+1)) / 2)
				x = vkit.Pick(r, []float32{mid, math.Nextafter32(mid, 0), math.Nextafter32(mid, float32(math.Inf(1)))})
				if r.Chance(0.5) {
					x = -x
				}
			case 2: // around the overflow threshold and the subnormal/normal boundary
				x = vkit.Pick(r, []float32{65504, 65519.996, 65520, 65536, 1e9, 6.1035156e-05, 6.0975552e-05, 5.9604645e-08, 2.9802322e-08, 2.98e-08, 3e-08, 1e-10, 0})
				if r.Chance(0.5) {
					x = -x
				}
			default:
				x = r.F32() * vkit.Pick(r, []float32{1, 1e-3, 1e-6, 100, 7e4})
			}
			got := float16.Fromfloat32(x).Bits()
			want := c18F32ToF16(x)
			if got != want {
				cs.Fail("float16 encode of %v (%#08x): library %#04x, round-to-nearest-even reference %#04x", x, math.Float32bits(x), got, want)
			}
		}
		ctx.Count("f16.encode_values", int64(n))
		ctx.Eval(1)
		ctx.Distinct(fmt.Sprintf("f16/%d", cs.Idx))
	})
}

//go:build race

package distance

const c18Race = true

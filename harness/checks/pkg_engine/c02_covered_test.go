package engine_test

import (
	"bufio"
	"bytes"
	"fmt"
	"os"
	"path/filepath"
	"testing"
	"time"

	"github.com/sanonone/kektordb/internal/zzverif/vexec"
	"github.com/sanonone/kektordb/internal/zzverif/vkit"
	"github.com/sanonone/kektordb/pkg/core/distance"
	"github.com/sanonone/kektordb/pkg/engine"
	"github.com/sanonone/kektordb/pkg/persistence"
	"github.com/sanonone/kektordb/pkg/verifhook"
)

// c02ProbeD69: an int8 index that the snapshot holds untrained (no vector yet), vectors in the
// log, and the VQUANT record of the auto-trained range lost in a torn tail.
func c02ProbeD69(ctx *vkit.Ctx) {
	ctx.Probe("D69", func(cs *vkit.Case) string {
		dir := cs.SubDir("data")
		e, err := engine.Open(vexec.Options(dir))
		if err != nil {
			return fmt.Sprintf("open: %v", err)
		}
		if err := e.VCreate("q", distance.Cosine, 4, 8, distance.Int8, "", nil, nil, nil); err != nil {
			e.Close()
			return fmt.Sprintf("VCreate: %v", err)
		}
		e.SaveSnapshot() // the snapshot holds the index without a vector: quantizer untrained
		e.VAdd("q", "a", []float32{0.0001, 0.0002, 0.0001, 0.0003}, nil)
		e.AOF.Flush()
		e.Close()
		// process death with the log torn inside the record that follows the first VADD (the
		// VQUANT record of the range the add trained): keep the frames up to and including the VADD
		logPath := filepath.Join(dir, "kektordb.aof")
		f, err := os.Open(logPath)
		if err != nil {
			return fmt.Sprintf("harness: %v", err)
		}
		r := bufio.NewReader(f)
		keep := int64(0)
		for {
			payload, n, err := persistence.ReadFrame(r)
			if err != nil {
				break
			}
			keep += int64(n)
			if bytes.Contains(payload, []byte("VADD")) {
				break
			}
		}
		f.Close()
		if keep == 0 {
			return "harness: no VADD frame in the log"
		}
		cs.Op("log cut after the VADD record (%d bytes) + 5 bytes of the next record", keep)
		if err := os.Truncate(logPath, keep+5); err != nil {
			return fmt.Sprintf("harness: %v", err)
		}
		e, err = engine.Open(vexec.Options(dir))
		if err != nil {
			return fmt.Sprintf("Open of the torn directory: %v", err)
		}
		defer func() { e.Close() }()
		if err := e.VAdd("q", "b", []float32{0.5, 0.5, 0.5, 0.5}, nil); err != nil {
			return fmt.Sprintf("VAdd(b) on the recovered engine: %v", err)
		}
		if err := e.VDelete("q", "a"); err != nil {
			return fmt.Sprintf("VDelete(a) on the recovered engine: %v", err)
		}
		time.Sleep(2 * time.Millisecond)
		u := vexec.Universe{Indexes: []string{"q"}, IDs: []string{"a", "b"}}
		e2, msg := c01cRestartSame(e, dir, u)
		if e2 != nil {
			e = e2
		}
		if msg != "" {
			return "int8 index held untrained by the snapshot, VQUANT record lost in a torn tail, recovered, VAdd(b), VDelete(a), clean restart: " + msg
		}
		return ""
	})
}

// C02 (group covered) — "... its last durable write (flushed, or covered by a completed
// snapshot or compaction)": writes acknowledged WHILE a snapshot / compaction is running are
// covered once it has completed. The operation is parked at one of its phases, a client
// gets N writes acknowledged, the operation is released and completes, and the process dies
// right after it returned (image of the data directory, nothing flushed by the harness). Every
// one of those writes, and everything acknowledged before the operation, must be recovered.
func TestVerifC02Covered(t *testing.T) {
	vkit.Run(t, "C02", func(ctx *vkit.Ctx) {
		c02ProbeD69(ctx)
		type row struct{ admin, phase string }
		var rows []row
		for _, a := range []string{"snapshot", "rewrite"} {
			for _, ph := range c14AdminOf(a).phases {
				rows = append(rows, row{a, ph})
			}
		}
		ctx.Group("covered", len(rows)*ctx.N(3, 20), func(cs *vkit.Case) {
			defer verifhook.Reset()
			rw := rows[cs.Idx%len(rows)]
			adm := c14AdminOf(rw.admin)
			x := c14Base(cs)
			defer func() {
				if x.E != nil {
					x.E.Close()
				}
			}()
			e := x.E
			nBefore := cs.R.Range(1, 40)
			for i := 0; i < nBefore; i++ {
				e.KVSet(fmt.Sprintf("before%d", i), []byte(fmt.Sprintf("b%d", i)))
			}
			g := newGate()
			verifhook.Set(rw.phase, g.handler)
			defer g.open()
			adminDone := make(chan error, 1)
			go func() { adminDone <- c14AdminRun(adm, x) }()
			select {
			case <-g.reached:
			case err := <-adminDone:
				adminDone <- err
				ctx.Inconclusive(fmt.Sprintf("covered: %s finished without passing %s", rw.admin, rw.phase))
				return
			case <-time.After(30 * time.Second):
				ctx.Inconclusive(fmt.Sprintf("covered: %s did not reach %s", rw.admin, rw.phase))
				return
			}
			// writes that arrive while the operation is at the phase; the ones that cannot be
			// acknowledged while it is parked are acknowledged after its release
			nDuring := cs.R.Range(1, vkit.Pick(cs.R, []int{8, 60, 400}))
			acked := make(chan int, 1)
			go func() {
				n := 0
				for i := 0; i < nDuring; i++ {
					if e.KVSet(fmt.Sprintf("during%d", i), []byte(fmt.Sprintf("d%d", i))) == nil {
						n++
					}
				}
				if e.VAdd("ix", "during_v", []float32{7, 7}, map[string]any{"seq": 3.0}) == nil {
					n++
				}
				acked <- n
			}()
			var nAcked int
			early := false
			select {
			case nAcked = <-acked:
				early = true
			case <-time.After(200 * time.Millisecond):
			}
			g.open()
			if err := <-adminDone; err != nil {
				cs.Fail("%s: %v", rw.admin, err)
			}
			if !early {
				// the writer was held back by the parked operation: its writes were acknowledged after
				// the release, possibly after the operation completed - then only a flush covers them
				nAcked = <-acked
				e.AOF.Flush()
				ctx.Count("covered.writes_waited_for_the_operation", 1)
			} else {
				ctx.Count("covered.writes_acknowledged_while_parked", 1)
			}
			img := cs.SubDir("img")
			if err := vexec.ImageDir(x.Dir, img); err != nil {
				ctx.Inconclusive("crash image could not be taken: " + err.Error())
				return
			}
			cs.Op("%s parked at %s; %d writes acknowledged meanwhile (%d expected); released, completed; process death right after it returned", rw.admin, rw.phase, nAcked, nDuring+1)
			verifhook.Reset()
			y, err := engine.Open(vexec.Options(img))
			if err != nil {
				cs.Fail("Open after a process death right after %s returned failed: %v", rw.admin, err)
			}
			defer y.Close()
			if nAcked != nDuring+1 {
				cs.Fail("only %d of %d writes issued during %s were acknowledged", nAcked, nDuring+1, rw.admin)
			}
			for i := 0; i < nBefore; i++ {
				if v, ok := y.KVGet(fmt.Sprintf("before%d", i)); !ok || string(v) != fmt.Sprintf("b%d", i) {
					cs.Fail("%s (parked at %s) completed, then the process died: key before%d, acknowledged before the operation began, is %q/%v after recovery", rw.admin, rw.phase, i, v, ok)
				}
			}
			lost := 0
			first := -1
			for i := 0; i < nDuring; i++ {
				if v, ok := y.KVGet(fmt.Sprintf("during%d", i)); !ok || string(v) != fmt.Sprintf("d%d", i) {
					lost++
					if first < 0 {
						first = i
					}
				}
			}
			if lost > 0 {
				cs.Fail("%s (parked at %s) completed, then the process died: %d of %d writes acknowledged while it was running are missing after recovery (first: during%d) although the completed %s covers them", rw.admin, rw.phase, lost, nDuring, first, rw.admin)
			}
			if _, err := y.VGet("ix", "during_v"); err != nil {
				cs.Fail("%s (parked at %s) completed, then the process died: the vector acknowledged while it was running is missing after recovery: %v", rw.admin, rw.phase, err)
			}
			ctx.Eval(1)
			ctx.Count("covered."+rw.admin+"."+rw.phase, 1)
			ctx.Distinct(fmt.Sprintf("covered/%s/%s/%d/%v", rw.admin, rw.phase, nDuring/20, early))
		})
	})
}

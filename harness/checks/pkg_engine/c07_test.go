package engine_test

// C07 — approximate search stays close to exact search.
//
// Three monitors share this file:
//
//  (a) EXACT regime  (TestVerifC07Exact, group "exact"): random histories over one index that
//      never holds more than 2*M nodes (live + soft-deleted-not-yet-vacuumed) and whose
//      efConstruction is >= 2*M. After every operation a handful of k-NN queries is compared
//      with brute force over the vectors the engine itself returns through VGet: the multiset
//      of reference distances of the returned ids must equal the brute-force top-k multiset
//      (precision-aware reference distance, float tolerance; ties are free).
//  (b) LARGE regime  (TestVerifC07Large, group "large"): a fixed list of batches (data set x
//      size x M x insertion path), each followed by delete / vacuum / refine / restart /
//      compress stages; per stage mean recall@10 and self-retrieval rate over 100 queries are
//      compared with per-batch floors calibrated on the current tree (c07Floors below).
//  (c) STRUCTURE: after every operation of (a) and every stage of (b) the graph exported by
//      hnsw.Index.SnapshotData() is walked: degree bounds, no self loops, no neighbour id
//      pointing at a vacuumed slot, entry point present at the top level (live after vacuum),
//      and — exact regime only — every live node reachable from the entry point at level 0.

import (
	"fmt"
	"math"
	"math/rand"
	"os"
	"sort"
	"strings"
	"testing"
	"time"

	"github.com/sanonone/kektordb/internal/zzverif/vexec"
	"github.com/sanonone/kektordb/internal/zzverif/vkit"
	"github.com/sanonone/kektordb/pkg/core/distance"
	"github.com/sanonone/kektordb/pkg/core/hnsw"
	"github.com/sanonone/kektordb/pkg/core/types"
	"github.com/sanonone/kektordb/pkg/engine"
	"github.com/x448/float16"
)

// ---------------------------------------------------------------------------------------
// Calibrated floors (large regime).
//
// How they were obtained (DESIGN.md section 4, C07): the thorough batch list (c07Batches, two
// rounds per batch, all stages) was run at VERIF_SEED=1..10, and then also 11..30, with
//
//	VERIF_REPO=/tmp/fix-C07 VERIF_SEED=$s C07_CALIBRATE=1 ./check C07 --tier thorough --part large
//
// on the REPAIRED tree: kektordb 0343457 + the five patches of /verif patches/D-C07-{5,1,2,3,4}.diff
// (all findings "fixed", so no guard is active and the stage toplayer-deleted is measured
// too). The "C07CAL {json}" lines of the child logs (2360 + 4720 stage measurements) are in
// evidence/calibration/C07-large-seeds1-10-repaired.jsonl and ...seeds11-30-repaired.jsonl
// (20 more seeds than DESIGN.md asks for: the self-retrieval rate after a vacuum that had to
// re-elect the entry point has a wide spread, 0.45..1.0 on clustered data, and a minimum over
// 20 samples of it was not a safe basis for "never alarms"); the two calibrations made on
// the unrepaired tree are in evidence/calibration/pre-repair/. Per batch, rmin is the
// minimum over all 30 seeds, rounds and stages (built / deleted / vacuum / readd / refine /
// toplayer-deleted / toplayer-deleted+vacuum / restart / compress / compress+restart,
// plus imported(boost) on the import batches) of the stage mean over 100 queries;
// floor = min(rmin - 0.10, 0.85), not below 0.
// Order of the three numbers: recall@10 with the default efSearch (=k), recall@10 with
// efSearch=100, self-retrieval rate (k=1, default efSearch). The same floor applies to every
// stage of the batch.
type c07Calib struct{ rmin, floor c07Floor }

var c07Floors = map[string]c07Calib{
	"uniform16-single-M16":        {rmin: c07Floor{0.940, 1.000, 0.960}, floor: c07Floor{0.840, 0.850, 0.850}}, // 600 stage measurements
	"clustered32-cos-batch-M16":   {rmin: c07Floor{0.939, 1.000, 0.480}, floor: c07Floor{0.839, 0.850, 0.380}}, // 600 stage measurements
	"clustered256-cos-import-M16": {rmin: c07Floor{0.956, 0.999, 0.760}, floor: c07Floor{0.850, 0.850, 0.660}}, // 660 stage measurements
	"uniform2-single-M8":          {rmin: c07Floor{0.999, 1.000, 0.980}, floor: c07Floor{0.850, 0.850, 0.850}}, // 600 stage measurements
	"uniform8-import-M8":          {rmin: c07Floor{0.924, 0.997, 0.830}, floor: c07Floor{0.824, 0.850, 0.730}}, // 660 stage measurements
	"dups16-single-M8":            {rmin: c07Floor{0.930, 0.998, 0.810}, floor: c07Floor{0.830, 0.850, 0.710}}, // 600 stage measurements
	"zeros24-cos-batch-M16":       {rmin: c07Floor{0.565, 0.999, 0.590}, floor: c07Floor{0.465, 0.850, 0.490}}, // 600 stage measurements
	"uniform128-single-M16":       {rmin: c07Floor{0.693, 0.995, 0.760}, floor: c07Floor{0.593, 0.850, 0.660}}, // 600 stage measurements
	"clustered32-f16-single-M16":  {rmin: c07Floor{0.970, 1.000, 0.650}, floor: c07Floor{0.850, 0.850, 0.550}}, // 480 stage measurements
	"uniform32-int8-batch-M16":    {rmin: c07Floor{0.827, 0.999, 0.910}, floor: c07Floor{0.727, 0.850, 0.810}}, // 480 stage measurements
	"uniform8-single-M4":          {rmin: c07Floor{0.893, 0.999, 0.740}, floor: c07Floor{0.793, 0.850, 0.640}}, // 600 stage measurements
	"grid4-batch-M16":             {rmin: c07Floor{0.998, 1.000, 0.940}, floor: c07Floor{0.850, 0.850, 0.840}}, // 600 stage measurements
}

const (
	c07D20     = "D-C07-1" // top layer entirely soft-deleted -> search returns nothing
	c07DOrphan = "D-C07-2" // vectors added while every node is soft-deleted get no links
	c07DSelf   = "D-C07-3" // first parallel batch into an emptied graph creates a self loop
	c07DStar   = "D-C07-4" // parallel batch path (reachable after vacuum) does not link the batch's nodes to each other
	c07DPrune  = "D-C07-5" // single-add path prunes full neighbour lists by list order, not by distance
)

// ---------------------------------------------------------------------------------------
// Reference distance (what "exact" means for an index of a given metric and precision).

type c07Ref struct {
	metric distance.DistanceMetric
	prec   distance.PrecisionType
	absMax float32 // int8 only: trained range exported by the index
}

func c07Normalize32(v []float32) []float32 {
	out := append([]float32(nil), v...)
	var s float32
	for _, x := range out {
		s += x * x
	}
	if s > 0 {
		inv := 1.0 / float32(math.Sqrt(float64(s)))
		for i := range out {
			out[i] *= inv
		}
	}
	return out
}

// queryRepr maps a query to the representation the index compares stored vectors with:
// cosine -> unit length; float16 -> rounded to half precision; int8 -> scalar-quantised with
// the index's trained range (and scaled back, cosine is scale free).
func (rf c07Ref) queryRepr(q []float32) []float64 {
	v := q
	if rf.metric == distance.Cosine {
		v = c07Normalize32(q)
	}
	out := make([]float64, len(v))
	switch rf.prec {
	case distance.Float16:
		for i, x := range v {
			out[i] = float64(float16.Fromfloat32(x).Float32())
		}
	case distance.Int8:
		if rf.absMax == 0 {
			return out // untrained quantiser: the engine compares with the zero vector
		}
		for i, x := range v {
			sc := (x / rf.absMax) * 127.0
			if sc > 127 {
				sc = 127
			} else if sc < -127 {
				sc = -127
			}
			out[i] = math.Round(float64(sc))
		}
	default:
		for i, x := range v {
			out[i] = float64(x)
		}
	}
	return out
}

// dist is the reference distance between a prepared query and a stored vector (as returned by VGet).
func (rf c07Ref) dist(q []float64, v []float32) float64 {
	if rf.metric == distance.Euclidean {
		var s float64
		for i := range q {
			d := q[i] - float64(v[i])
			s += d * d
		}
		return s
	}
	var dot, nq, nv float64
	for i := range q {
		dot += q[i] * float64(v[i])
		nq += q[i] * q[i]
		nv += float64(v[i]) * float64(v[i])
	}
	if rf.prec == distance.Int8 {
		// the int8 path divides by both norms and answers 1.0 for a zero norm
		if nq == 0 || nv == 0 {
			return 1.0
		}
		s := dot / (math.Sqrt(nq) * math.Sqrt(nv))
		if s > 1 {
			s = 1
		} else if s < -1 {
			s = -1
		}
		return 1 - s
	}
	// float32 cosine: stored vectors and the query are unit length (or zero): 1 - dot
	return 1 - dot
}

// tol is the float tolerance for comparing two reference distances of magnitude d.
func (rf c07Ref) tol(d, scale float64) float64 {
	if rf.metric == distance.Euclidean {
		return 2e-4*math.Abs(d) + 1e-5*scale + 1e-9
	}
	return 2e-4
}

// ---------------------------------------------------------------------------------------
// One index under observation.

type c07Index struct {
	cs     *vkit.Case
	ctx    *vkit.Ctx
	dir    string
	e      *engine.Engine
	name   string
	M, efC int
	metric distance.DistanceMetric
	prec   distance.PrecisionType
	dim    int

	live   map[string][]float32 // id -> vector as supplied
	ids    []string             // live ids in insertion order (deterministic picks)
	nextID int
	kinds  []string
	scale  float64 // largest squared magnitude seen (data and queries), for the euclidean tolerance

	afterVacuum bool            // no operation since the last vacuum
	uncommitted bool            // VImport'ed items not yet made durable by VImportCommit (by design lost on restart)
	snapLive    map[string]bool // ids live in the snapshot on disk (nil: no snapshot yet)
	snapTotal   int             // nodes (live + soft-deleted) in that snapshot
	searches    int64
}

func (x *c07Index) kind(k string) {
	x.kinds = append(x.kinds, k)
	x.ctx.Count("op."+k, 1)
}

func (x *c07Index) open() {
	x.cs.Op("Open")
	e, err := engine.Open(vexec.Options(x.dir))
	if err != nil {
		x.cs.Fail("engine.Open: %v", err)
	}
	x.e = e
}

func (x *c07Index) close() {
	if x.e != nil {
		x.cs.Op("Close")
		if err := x.e.Close(); err != nil {
			x.cs.Fail("Close: %v", err)
		}
		x.e = nil
	}
}

func (x *c07Index) h() *hnsw.Index {
	idx, ok := x.e.DB.GetVectorIndex(x.name)
	if !ok {
		x.cs.Fail("index %s disappeared", x.name)
	}
	h, ok := idx.(*hnsw.Index)
	if !ok {
		x.cs.Fail("index %s is not an HNSW index", x.name)
	}
	return h
}

func (x *c07Index) ref() c07Ref {
	h := x.h()
	rf := c07Ref{metric: h.Metric(), prec: h.Precision()}
	if rf.prec == distance.Int8 {
		if q := h.Quantizer(); q != nil {
			rf.absMax = q.Range()
		}
	}
	return rf
}

func (x *c07Index) noteScale(v []float32) {
	var s float64
	for _, c := range v {
		s += float64(c) * float64(c)
	}
	if s > x.scale {
		x.scale = s
	}
}

func (x *c07Index) newID() string {
	x.nextID++
	return fmt.Sprintf("v%d", x.nextID)
}

func (x *c07Index) remember(id string, v []float32) {
	x.live[id] = append([]float32(nil), v...)
	x.ids = append(x.ids, id)
	x.noteScale(v)
}

func (x *c07Index) forget(id string) {
	delete(x.live, id)
	for i, s := range x.ids {
		if s == id {
			x.ids = append(x.ids[:i], x.ids[i+1:]...)
			break
		}
	}
}

func c07VecStr(v []float32) string {
	if len(v) > 8 {
		return fmt.Sprintf("%v…(dim %d)", v[:8], len(v))
	}
	return fmt.Sprintf("%v", v)
}

func (x *c07Index) add(v []float32) {
	id := x.newID()
	x.kind("add")
	x.cs.Op("VAdd(%s, %s)", id, c07VecStr(v))
	if err := x.e.VAdd(x.name, id, append([]float32(nil), v...), nil); err != nil {
		x.cs.Fail("VAdd(%s) rejected: %v", id, err)
	}
	x.remember(id, v)
	x.afterVacuum = false
}

func (x *c07Index) addMany(kind string, vs [][]float32) {
	items := make([]types.BatchObject, len(vs))
	ids := make([]string, len(vs))
	for i, v := range vs {
		ids[i] = x.newID()
		items[i] = types.BatchObject{Id: ids[i], Vector: append([]float32(nil), v...)}
	}
	x.kind(kind)
	if len(vs) <= 40 {
		for i, v := range vs {
			x.cs.Op("  %s item %s %s", kind, ids[i], c07VecStr(v))
		}
	}
	x.cs.Op("%s(%d items %s..%s)", kind, len(vs), ids[0], ids[len(ids)-1])
	var err error
	if kind == "import" {
		err = x.e.VImport(x.name, items)
	} else {
		err = x.e.VAddBatch(x.name, items)
	}
	if err != nil {
		x.cs.Fail("%s rejected: %v", kind, err)
	}
	for i, v := range vs {
		x.remember(ids[i], v)
	}
	x.afterVacuum = false
	if kind == "import" {
		x.uncommitted = true
	}
}

// parallelPath predicts whether a batch insertion takes the parallel path: while D-C07-4 is
// open the engine compares the id counter with the threshold, afterwards the number of live
// nodes (used for the evidence counters and the D-C07-4 guard only, never for a verdict).
func (x *c07Index) parallelPath(s c07Snap, threshold int) bool {
	if x.ctx.IsKnown(c07DStar) {
		return int(s.counter) >= threshold
	}
	return s.liveN >= threshold
}

// addManyGuarded: parallel tells whether the index will take the parallel batch path
// (ids ever handed out >= the path's threshold). Guard D-C07-4: on that path a batch of
// two or more items is issued as one-item batches.
func (x *c07Index) addManyGuarded(kind string, vs [][]float32, parallel bool) {
	if parallel {
		x.ctx.Count("exact.parallel_path_"+kind, 1)
	}
	if parallel && len(vs) > 1 && x.ctx.IsKnown(c07DStar) {
		x.ctx.Count("guard.D-C07-4.split_into_one_item_batches", 1)
		for _, v := range vs {
			x.addMany(kind, [][]float32{v})
		}
		return
	}
	x.addMany(kind, vs)
}

func (x *c07Index) importCommit() {
	x.kind("importcommit")
	x.cs.Op("VImportCommit")
	if err := x.e.VImportCommit(x.name); err != nil {
		x.cs.Fail("VImportCommit: %v", err)
	}
	x.uncommitted = false
	x.snapshotTaken()
	c07WaitTurboIdle(x.cs)
}

// snapshotTaken records what the snapshot on disk holds (VImportCommit and VCompress save one).
func (x *c07Index) snapshotTaken() {
	x.snapLive = map[string]bool{}
	for _, id := range x.ids {
		x.snapLive[id] = true
	}
	x.snapTotal = x.snap().total
}

// c07WaitTurboIdle waits until the background goroutine started by VImportCommit
// (RunTurboRefine: one Refine pass, then a 10 s sleep) is past its Refine pass. The property
// quantifies over histories, not over schedules: a Refine pass that overlaps later
// operations is a concurrency scenario (it commits neighbour lists computed before them).
// There is no hook at the end of Refine, so the goroutine dump is polled.
func c07WaitTurboIdle(cs *vkit.Case) {
	deadline := time.Now().Add(5 * time.Minute)
	for time.Now().Before(deadline) {
		cs.C.Touch()
		busy := false
		for _, g := range strings.Split(vkit.DumpGoroutines(), "\n\n") {
			if (strings.Contains(g, "RunTurboRefine") || strings.Contains(g, "VImportCommit.func")) && !strings.Contains(g, "time.Sleep") {
				busy = true
				break
			}
		}
		if !busy {
			return
		}
		time.Sleep(200 * time.Microsecond)
	}
	cs.C.Inconclusive("turbo refine started by VImportCommit did not reach its sleep within the polling budget")
}

func (x *c07Index) del(id string) {
	x.kind("delete")
	x.cs.Op("VDelete(%s)", id)
	if err := x.e.VDelete(x.name, id); err != nil {
		x.cs.Fail("VDelete(%s) rejected: %v", id, err)
	}
	x.forget(id)
	x.afterVacuum = false
}

func (x *c07Index) maint(task string) {
	x.kind(task)
	x.cs.Op("VTriggerMaintenance(%s)", task)
	if err := x.e.VTriggerMaintenance(x.name, task); err != nil {
		x.cs.Fail("VTriggerMaintenance(%s): %v", task, err)
	}
	x.afterVacuum = task == "vacuum"
}

func (x *c07Index) compress() bool {
	var target distance.PrecisionType
	switch {
	case x.prec == distance.Float32 && x.metric == distance.Euclidean:
		target = distance.Float16
	case x.prec == distance.Float32 && x.metric == distance.Cosine:
		target = distance.Int8
	default:
		return false
	}
	if len(x.live) == 0 {
		return false
	}
	x.kind("compress")
	x.cs.Op("VCompress(%s)", target)
	if err := x.e.VCompress(x.name, target); err != nil {
		x.cs.Fail("VCompress(%s): %v", target, err)
	}
	x.prec = target
	x.afterVacuum = false
	x.snapshotTaken()
	return true
}

func (x *c07Index) restart() {
	if x.uncommitted {
		// VImport bypasses the journal by design; only VImportCommit makes the items durable
		x.importCommit()
	}
	if x.ctx.IsKnown(c07DOrphan) && len(x.ids) > 0 && x.snapTotal > 0 {
		// guard D-C07-2 (replay flavour): Open loads the snapshot, applies the journaled
		// deletions and then re-adds the journaled vectors. If every node of the snapshot is
		// deleted by the journal, those vectors are added to an index that holds only
		// soft-deleted nodes. Take a snapshot first so that the restart does not replay that.
		survivors := 0
		for id := range x.snapLive {
			if _, ok := x.live[id]; ok {
				survivors++
			}
		}
		if survivors == 0 {
			x.ctx.Count("guard.D-C07-2.snapshot_before_restart", 1)
			x.cs.Op("SaveSnapshot (guard)")
			if err := x.e.SaveSnapshot(); err != nil {
				x.cs.Fail("SaveSnapshot: %v", err)
			}
			x.snapshotTaken()
		}
	}
	x.kind("restart")
	x.close()
	x.open()
	x.afterVacuum = false
}

// ---------------------------------------------------------------------------------------
// Structure (SnapshotData).

type c07Snap struct {
	nodes    map[uint32]*hnsw.Node
	entry    uint32
	maxLevel int
	counter  uint32 // last internal id handed out (never decreases)
	total    int    // non-nil nodes (live + soft-deleted not yet vacuumed)
	liveN    int
}

func (x *c07Index) snap() c07Snap {
	nodes, _, counter, entry, maxLevel, _, _, _, _, _ := x.h().SnapshotData()
	s := c07Snap{nodes: nodes, entry: entry, maxLevel: maxLevel, counter: counter}
	for _, n := range nodes {
		if n == nil {
			continue
		}
		s.total++
		if !n.Deleted.Load() {
			s.liveN++
		}
	}
	return s
}

// reach returns the set of nodes reachable from `from` following level-`lvl` links (through
// deleted nodes too, exactly like the search does).
func (s c07Snap) reach(from uint32, lvl int) map[uint32]bool {
	seen := map[uint32]bool{}
	if n := s.nodes[from]; n == nil {
		return seen
	}
	seen[from] = true
	stack := []uint32{from}
	for len(stack) > 0 {
		cur := stack[len(stack)-1]
		stack = stack[:len(stack)-1]
		n := s.nodes[cur]
		if n == nil || lvl >= len(n.Connections) {
			continue
		}
		for _, nb := range n.Connections[lvl] {
			if !seen[nb] && s.nodes[nb] != nil {
				seen[nb] = true
				stack = append(stack, nb)
			}
		}
	}
	return seen
}

// topLive lists the live nodes reachable from the entry point inside the top layer.
func (s c07Snap) topLive(except string) []uint32 {
	var out []uint32
	if s.maxLevel < 1 {
		return out
	}
	for id := range s.reach(s.entry, s.maxLevel) {
		n := s.nodes[id]
		if n != nil && !n.Deleted.Load() && n.Id != except {
			out = append(out, id)
		}
	}
	return out
}

// d20State: the graph has upper layers and the entry point's top layer holds no live node
// (finding D-C07-1: the level descent then fails and every search returns nothing).
func (s c07Snap) d20State() bool {
	return s.maxLevel >= 1 && s.liveN > 0 && len(s.topLive("")) == 0
}

// checkStructure returns "" or the description of a broken structural invariant.
func (x *c07Index) checkStructure(s c07Snap, exact bool) string {
	for id, n := range s.nodes {
		if n == nil {
			continue
		}
		for lvl, layer := range n.Connections {
			max := x.M
			if lvl == 0 {
				max = 2 * x.M
			}
			if len(layer) > max {
				return fmt.Sprintf("node %d (%s) has %d neighbours at level %d, bound is %d", id, n.Id, len(layer), lvl, max)
			}
			if n.Deleted.Load() {
				continue // frozen lists of soft-deleted nodes are not maintained (and are never results)
			}
			for _, nb := range layer {
				if nb == id {
					return fmt.Sprintf("node %d (%s) lists itself as neighbour at level %d", id, n.Id, lvl)
				}
				if s.nodes[nb] == nil {
					return fmt.Sprintf("live node %d (%s) level %d lists neighbour %d which is an empty (vacuumed or never filled) slot", id, n.Id, lvl, nb)
				}
			}
		}
	}
	if s.total == 0 {
		return ""
	}
	if s.liveN > 0 || s.maxLevel >= 0 {
		ep := s.nodes[s.entry]
		if s.maxLevel < 0 {
			return fmt.Sprintf("index holds %d live nodes but maxLevel is %d", s.liveN, s.maxLevel)
		}
		if ep == nil {
			return fmt.Sprintf("entry point %d is an empty slot (maxLevel %d, %d nodes)", s.entry, s.maxLevel, s.total)
		}
		if len(ep.Connections)-1 < s.maxLevel {
			return fmt.Sprintf("entry point %d (%s) has level %d but maxLevel is %d", s.entry, ep.Id, len(ep.Connections)-1, s.maxLevel)
		}
		if len(ep.Connections)-1 > s.maxLevel {
			x.ctx.Count("struct.entry_level_above_maxlevel", 1)
		}
		if x.afterVacuum && s.liveN > 0 && ep.Deleted.Load() {
			return fmt.Sprintf("after vacuum the entry point %d (%s) is a deleted node", s.entry, ep.Id)
		}
	}
	if x.afterVacuum && s.total != s.liveN {
		return fmt.Sprintf("after vacuum %d soft-deleted nodes are still in the node table", s.total-s.liveN)
	}
	if exact && s.liveN > 0 {
		r := s.reach(s.entry, 0)
		for id, n := range s.nodes {
			if n != nil && !n.Deleted.Load() && !r[id] {
				return fmt.Sprintf("live node %d (%s) is not reachable from entry point %d at level 0 (%d of %d nodes reachable)", id, n.Id, s.entry, len(r), s.total)
			}
		}
	}
	return ""
}

func (s c07Snap) describe() []string {
	ids := make([]int, 0, len(s.nodes))
	for id := range s.nodes {
		ids = append(ids, int(id))
	}
	sort.Ints(ids)
	out := []string{fmt.Sprintf("entry=%d maxLevel=%d nodes=%d live=%d", s.entry, s.maxLevel, s.total, s.liveN)}
	for _, id := range ids {
		n := s.nodes[uint32(id)]
		if n == nil {
			continue
		}
		out = append(out, fmt.Sprintf("node %d id=%s deleted=%v conns=%v", id, n.Id, n.Deleted.Load(), n.Connections))
		if len(out) > 80 {
			out = append(out, "…")
			break
		}
	}
	return out
}

// ---------------------------------------------------------------------------------------
// Brute force over what the engine itself stores.

type c07Stored struct {
	ids  []string
	vecs [][]float32
}

func (x *c07Index) stored() c07Stored {
	st := c07Stored{}
	for _, id := range x.ids {
		d, err := x.e.VGet(x.name, id)
		if err != nil {
			x.cs.Fail("VGet(%s) of a live id failed: %v", id, err)
		}
		if len(d.Vector) != x.dim {
			x.cs.Fail("VGet(%s) returned a vector of dimension %d, index dimension is %d", id, len(d.Vector), x.dim)
		}
		// The brute-force reference works on the vectors as the index holds them. For a
		// cosine/float32 index that must be the unit-length form of what was supplied,
		// otherwise "exact search" over the stored values is not cosine search over the
		// user's vectors (zero vectors stay zero).
		if x.metric == distance.Cosine && x.prec == distance.Float32 {
			if sup, ok := x.live[id]; ok {
				want := c07Normalize32(sup)
				for j := range want {
					if diff := float64(d.Vector[j]) - float64(want[j]); diff > 1e-4 || diff < -1e-4 {
						x.cs.Fail("VGet(%s) on a cosine index returns %s, which is not the unit-length form %s of the supplied vector: searches rank by length, not by angle", id, c07VecStr(d.Vector), c07VecStr(want))
					}
				}
			}
		}
		st.ids = append(st.ids, id)
		st.vecs = append(st.vecs, append([]float32(nil), d.Vector...)) // copy: the slice may alias the arena
	}
	return st
}

// exactQuery runs one k-NN query and compares it with brute force. api: "ids" (VSearch) or
// "scores" (VSearchWithScores, efSearch fixed to 0 by the engine).
func (x *c07Index) exactQuery(st c07Stored, rf c07Ref, q []float32, k, ef int, api string) {
	x.noteScale(q)
	var got []string
	if api == "scores" {
		x.cs.Op("VSearchWithScores(k=%d, q=%s)", k, c07VecStr(q))
		res, err := x.e.VSearchWithScores(x.name, append([]float32(nil), q...), k)
		if err != nil {
			x.cs.Fail("VSearchWithScores: %v", err)
		}
		for _, r := range res {
			got = append(got, r.ID)
		}
	} else {
		x.cs.Op("VSearch(k=%d, ef=%d, q=%s)", k, ef, c07VecStr(q))
		res, err := x.e.VSearch(x.name, append([]float32(nil), q...), k, "", "", ef, 1.0, nil)
		if err != nil {
			x.cs.Fail("VSearch: %v", err)
		}
		got = res
	}
	x.searches++
	x.ctx.Count("exact.searches", 1)
	x.ctx.Count(fmt.Sprintf("exact.searches.ef%d", ef), 1)

	qr := rf.queryRepr(q)
	pos := map[string]int{}
	all := make([]float64, len(st.ids))
	for i, id := range st.ids {
		pos[id] = i
		all[i] = rf.dist(qr, st.vecs[i])
	}
	want := append([]float64(nil), all...)
	sort.Float64s(want)
	kk := k
	if kk > len(want) {
		kk = len(want)
	}
	want = want[:kk]
	fail := func(msg string) {
		x.cs.Attach("query", q)
		x.cs.Attach("k", k)
		x.cs.Attach("efSearch", ef)
		x.cs.Attach("api", api)
		x.cs.Attach("returned_ids", got)
		tbl := []string{}
		for i, id := range st.ids {
			tbl = append(tbl, fmt.Sprintf("%s d=%.9g v=%s", id, all[i], c07VecStr(st.vecs[i])))
		}
		x.cs.Attach("live_vectors_and_reference_distances", tbl)
		x.cs.Attach("graph", x.snap().describe())
		x.cs.Attach("config", fmt.Sprintf("M=%d efC=%d metric=%s precision=%s dim=%d", x.M, x.efC, rf.metric, rf.prec, x.dim))
		x.cs.Fail("%s", msg)
	}
	seen := map[string]bool{}
	gd := make([]float64, 0, len(got))
	for _, id := range got {
		i, ok := pos[id]
		if !ok {
			fail(fmt.Sprintf("search returned id %q which is not a live id of the index", id))
		}
		if seen[id] {
			fail(fmt.Sprintf("search returned id %q twice", id))
		}
		seen[id] = true
		gd = append(gd, all[i])
	}
	if len(got) != kk {
		fail(fmt.Sprintf("exact regime (%d live, M=%d): k=%d efSearch=%d returned %d results, brute force has %d", len(st.ids), x.M, k, ef, len(got), kk))
	}
	sort.Float64s(gd)
	for i := range want {
		if math.Abs(gd[i]-want[i]) > rf.tol(want[i], x.scale) {
			fail(fmt.Sprintf("exact regime (%d live, M=%d): k=%d efSearch=%d: rank %d of the returned distance multiset is %.9g, brute force top-k has %.9g (returned %v want %v)",
				len(st.ids), x.M, k, ef, i, gd[i], want[i], gd, want))
		}
	}
	if k > 1 && len(want) > 1 && want[0] == want[len(want)-1] {
		x.ctx.Count("exact.searches_all_tied", 1)
	} else if len(all) > kk && kk > 0 {
		// a tie straddling the cut
		sorted := append([]float64(nil), all...)
		sort.Float64s(sorted)
		if sorted[kk]-sorted[kk-1] <= rf.tol(sorted[kk], x.scale) {
			x.ctx.Count("exact.searches_tie_at_cut", 1)
		}
	}
}

// ---------------------------------------------------------------------------------------
// Data sets.

type c07Data struct {
	kind    string
	dim     int
	r       *vkit.Rand
	centers [][]float32
	scale   float32
	pool    [][]float32 // duplicates: small pool of values
}

func c07NewData(r *vkit.Rand, kind string, dim int) *c07Data {
	d := &c07Data{kind: kind, dim: dim, r: r, scale: vkit.Pick(r, []float32{1, 1, 10, 0.01})}
	switch kind {
	case "clustered":
		nc := r.Range(2, 5)
		for i := 0; i < nc; i++ {
			c := make([]float32, dim)
			for j := range c {
				c[j] = r.F32() * d.scale
			}
			d.centers = append(d.centers, c)
		}
	case "dups":
		np := r.Range(2, 5)
		for i := 0; i < np; i++ {
			d.pool = append(d.pool, d.gridVec())
		}
	}
	return d
}

func (d *c07Data) gridVec() []float32 {
	v := make([]float32, d.dim)
	for j := range v {
		v[j] = float32(d.r.Intn(3)) // 0,1,2: many exact ties, exactly representable in float16
	}
	return v
}

func (d *c07Data) vec() []float32 {
	r := d.r
	switch d.kind {
	case "clustered":
		c := vkit.Pick(r, d.centers)
		v := make([]float32, d.dim)
		for j := range v {
			v[j] = c[j] + r.F32()*0.02*d.scale
		}
		return v
	case "dups":
		if r.Chance(0.7) {
			return append([]float32(nil), vkit.Pick(r, d.pool)...)
		}
		return d.gridVec()
	case "zeros":
		if r.Chance(0.35) {
			return make([]float32, d.dim)
		}
		if r.Chance(0.3) { // axis vectors: exact cosine ties
			v := make([]float32, d.dim)
			v[r.Intn(d.dim)] = vkit.Pick(r, []float32{1, -1, 2})
			return v
		}
	}
	v := make([]float32, d.dim)
	for j := range v {
		v[j] = r.F32() * d.scale
	}
	return v
}

func (d *c07Data) query(x *c07Index) []float32 {
	r := d.r
	p := r.Float64()
	switch {
	case p < 0.25 && len(x.ids) > 0: // a stored value
		return append([]float32(nil), x.live[vkit.Pick(r, x.ids)]...)
	case p < 0.40 && len(x.ids) > 0: // next to a stored value
		v := append([]float32(nil), x.live[vkit.Pick(r, x.ids)]...)
		for j := range v {
			v[j] += r.F32() * 1e-3 * d.scale
		}
		return v
	case p < 0.48:
		return make([]float32, d.dim)
	case p < 0.55:
		v := d.vec()
		for j := range v {
			v[j] *= 50
		}
		return v
	}
	return d.vec()
}

// ---------------------------------------------------------------------------------------
// (a) exact regime.

var c07Combos = []struct {
	metric distance.DistanceMetric
	prec   distance.PrecisionType
}{
	{distance.Euclidean, distance.Float32},
	{distance.Cosine, distance.Float32},
	{distance.Euclidean, distance.Float16},
	{distance.Cosine, distance.Int8},
}

func c07PickDim(r *vkit.Rand) int {
	if r.Chance(0.6) {
		return r.Range(2, 6)
	}
	return vkit.Pick(r, []int{7, 8, 16, 31, 32, 33, 64, 100, 128, 255, 256})
}

// seedLevels makes the HNSW level assignment (global math/rand) a function of the case
// seed when the binary runs with GODEBUG=randseednop=0 (set by checks.d/C07.json); without
// it the call is a no-op and only replay fidelity is lost — no verdict depends on it.
func c07SeedLevels(cs *vkit.Case) {
	rand.Seed(int64(cs.R.Uint64() >> 1)) //nolint:staticcheck
}

func c07ExactCase(ctx *vkit.Ctx, cs *vkit.Case) {
	c07SeedLevels(cs)
	r := cs.R
	M := vkit.Pick(r, []int{2, 4, 8, 16})
	cap := 2 * M
	efC := vkit.Pick(r, []int{cap, cap + 1, 2*cap + 3, 200})
	combo := vkit.Pick(r, c07Combos)
	dim := c07PickDim(r)
	kind := vkit.Pick(r, []string{"random", "clustered", "dups", "zeros"})
	data := c07NewData(r, kind, dim)
	x := &c07Index{cs: cs, ctx: ctx, dir: cs.SubDir("data"), name: "ix", M: M, efC: efC,
		metric: combo.metric, prec: combo.prec, dim: dim, live: map[string][]float32{}}
	x.open()
	defer func() {
		if x.e != nil {
			x.e.Close()
		}
	}()
	cs.Op("VCreate(M=%d efC=%d %s/%s) data=%s dim=%d", M, efC, combo.metric, combo.prec, kind, dim)
	if err := x.e.VCreate(x.name, combo.metric, M, efC, combo.prec, "", nil, nil, nil); err != nil {
		cs.Fail("VCreate: %v", err)
	}
	guard := ctx.IsKnown(c07D20)
	nops := r.Range(8, ctx.N(22, 40))
	checks := 0
	for i := 0; i < nops; i++ {
		s := x.snap()
		room := cap - s.total
		p := r.Float64()
		if (p < 0.52 || p >= 0.96) && room > 0 && s.total > 0 && s.liveN == 0 && ctx.IsKnown(c07DOrphan) {
			// guard D-C07-2: no insertion into an index that holds only soft-deleted nodes
			ctx.Count("guard.D-C07-2.vacuum_before_add", 1)
			x.maint("vacuum")
			s = x.snap()
			room = cap - s.total
		}
		manyOK := true
		if s.liveN == 0 && int(s.counter) >= min(efC, 40) && ctx.IsKnown(c07DSelf) {
			// guard D-C07-3: the first insertion into a graph without live nodes (emptied by vacuum,
			// or - once D-C07-2 is repaired - holding only soft-deleted nodes) is a single add
			manyOK = false
		}
		switch {
		case p < 0.30 && room > 0:
			x.add(data.vec())
		case p < 0.42 && room > 0:
			if !manyOK {
				ctx.Count("guard.D-C07-3.single_add_first", 1)
				x.add(data.vec())
				room--
			}
			if room > 0 {
				n := r.Range(1, room)
				vs := make([][]float32, n)
				for j := range vs {
					vs[j] = data.vec()
				}
				x.addManyGuarded("batch", vs, x.parallelPath(s, efC))
			}
		case p < 0.52 && room > 0:
			if !manyOK {
				ctx.Count("guard.D-C07-3.single_add_first", 1)
				x.add(data.vec())
				room--
			}
			if room > 0 {
				n := r.Range(1, room)
				vs := make([][]float32, n)
				for j := range vs {
					vs[j] = data.vec()
				}
				x.addManyGuarded("import", vs, x.parallelPath(s, max(2*M, 40)))
				if r.Chance(0.5) {
					x.importCommit()
				}
			}
		case p < 0.72 && len(x.ids) > 0:
			x.del(vkit.Pick(r, x.ids))
		case p < 0.80:
			x.maint("vacuum")
		case p < 0.87:
			x.maint("refine")
		case p < 0.91:
			if !x.compress() {
				x.maint("refine")
			}
		case p < 0.96:
			x.restart()
			if s2 := x.snap(); s2.total > cap {
				// a restart replays the journal on top of the last snapshot: nodes vacuumed after that
				// snapshot come back as soft-deleted nodes, so the index may now hold more than 2*M
				// nodes. That is outside the regime the property speaks about: stop the episode.
				ctx.Count("exact.left_regime_after_restart", 1)
				i = nops
				continue
			}
		default:
			if room > 0 {
				x.add(data.vec())
			} else {
				x.maint("vacuum")
			}
		}
		// ---- observe ----
		s = x.snap()
		if os.Getenv("C07_TRACE") != "" {
			for _, l := range s.describe() {
				cs.Op("    G %s", l)
			}
		}
		if s.total > cap {
			cs.Fail("harness error: %d nodes > 2*M=%d although insertions are capped", s.total, cap)
		}
		if s.liveN != len(x.ids) {
			x.cs.Attach("graph", s.describe())
			cs.Fail("index holds %d live nodes, %d ids were added and not deleted", s.liveN, len(x.ids))
		}
		if msg := x.checkStructure(s, true); msg != "" {
			x.cs.Attach("graph", s.describe())
			cs.Fail("structure after op %d (%s): %s", i, x.kinds[len(x.kinds)-1], msg)
		}
		ctx.Count("exact.structure_checks", 1)
		if s.d20State() {
			ctx.Count("exact.states_in_D20_trigger", 1)
			if guard {
				ctx.Count("guard.D-C07-1.search_rounds_skipped", 1)
				continue
			}
		}
		if len(x.ids) == 0 && r.Chance(0.5) {
			continue
		}
		st := x.stored()
		rf := x.ref()
		n := len(st.ids)
		nq := r.Range(2, 4)
		for j := 0; j < nq; j++ {
			k := vkit.Pick(r, []int{1, 3, n, 2 * n, r.Range(1, n+1)})
			if k < 1 {
				k = 1
			}
			ef := vkit.Pick(r, []int{0, 1, 10, 200})
			api := "ids"
			if r.Chance(0.3) {
				api = "scores"
				ef = 0
			}
			x.exactQuery(st, rf, data.query(x), k, ef, api)
		}
		checks++
	}
	ctx.Eval(1)
	key := fmt.Sprintf("M%d/%s/%s/%s/", M, combo.metric, combo.prec, kind) + strings.Join(x.kinds, ",")
	has := func(k string) bool {
		for _, s := range x.kinds {
			if s == k {
				return true
			}
		}
		return false
	}
	if checks > 0 && has("delete") && (has("vacuum") || has("refine") || has("compress") || has("restart") || has("import") || has("batch")) {
		ctx.Distinct(key)
	}
	ctx.Count(fmt.Sprintf("exact.cases.M%d", M), 1)
	ctx.Count(fmt.Sprintf("exact.cases.%s_%s", combo.metric, combo.prec), 1)
	ctx.Count("exact.cases.data_"+kind, 1)
	if ctx.Shard == 0 {
		ctx.Sample("exact.episode", 2, map[string]any{"config": fmt.Sprintf("M=%d efC=%d %s/%s dim=%d data=%s", M, efC, combo.metric, combo.prec, dim, kind),
			"kinds": strings.Join(x.kinds, ","), "search_rounds": checks, "searches": x.searches})
	}
}

// ---------------------------------------------------------------------------------------
// Probes.

// c07ProbeD20: build 2*M vectors (M=4), soft-delete every node of the top layer, search.
// Level assignment is random, so the probe inspects the graph and retries (fresh index) until
// the graph has an upper layer; with M=4 and 8 nodes that happens in ~90% of the trials.
func c07ProbeD20(ctx *vkit.Ctx) {
	ctx.Probe(c07D20, func(cs *vkit.Case) string {
		c07SeedLevels(cs)
		for trial := 0; trial < 40; trial++ {
			x := &c07Index{cs: cs, ctx: ctx, dir: cs.SubDir(fmt.Sprintf("d%d", trial)), name: "ix", M: 4, efC: 200,
				metric: distance.Euclidean, prec: distance.Float32, dim: 2, live: map[string][]float32{}}
			x.open()
			if err := x.e.VCreate(x.name, x.metric, x.M, x.efC, x.prec, "", nil, nil, nil); err != nil {
				x.e.Close()
				return "VCreate: " + err.Error()
			}
			for i := 0; i < 8; i++ {
				x.add([]float32{float32(i), float32(i % 3)})
			}
			s := x.snap()
			if s.maxLevel < 1 {
				x.close()
				continue
			}
			ctx.Count("probe.D-C07-1.trials_until_upper_layer", int64(trial+1))
			var top []string
			for _, n := range s.nodes {
				if n != nil && len(n.Connections)-1 >= s.maxLevel {
					top = append(top, n.Id)
				}
			}
			sort.Strings(top)
			for _, id := range top {
				x.del(id)
			}
			cs.Op("top layer (level %d) held %v; all soft-deleted, no vacuum", s.maxLevel, top)
			got, err := x.e.VSearch(x.name, []float32{3.1, 0.2}, 3, "", "", 0, 1.0, nil)
			live := len(x.ids)
			x.close()
			if err != nil {
				return "VSearch error: " + err.Error()
			}
			want := 3
			if live < want {
				want = live
			}
			if len(got) != want {
				return fmt.Sprintf("8 vectors (M=4), the %d node(s) of the top layer (level %d) soft-deleted, no vacuum: VSearch(k=3) returned %d ids %v although %d live vectors exist", len(top), s.maxLevel, len(got), got, live)
			}
			return ""
		}
		return ""
	})
}

func c07ProbeIndex(ctx *vkit.Ctx, cs *vkit.Case, tag string, M, efC int) *c07Index {
	x := &c07Index{cs: cs, ctx: ctx, dir: cs.SubDir(tag), name: "ix", M: M, efC: efC,
		metric: distance.Euclidean, prec: distance.Float32, dim: 2, live: map[string][]float32{}}
	x.open()
	if err := x.e.VCreate(x.name, x.metric, x.M, x.efC, x.prec, "", nil, nil, nil); err != nil {
		cs.Fail("VCreate: %v", err)
	}
	return x
}

// c07ProbeOrphan (D-C07-2): VAdd a; VDelete a; VAdd b; VAdd c; search. b and c are added
// while the only node of the index is soft-deleted: Add links a new node only to live
// candidates, so both stay without links and the entry point stays on a. One trial in M
// is masked by chance (b draws a level >= 1 and becomes the entry point): retry.
func c07ProbeOrphan(ctx *vkit.Ctx) {
	ctx.Probe(c07DOrphan, func(cs *vkit.Case) string {
		c07SeedLevels(cs)
		for trial := 0; trial < 20; trial++ {
			x := c07ProbeIndex(ctx, cs, fmt.Sprintf("o%d", trial), 16, 200)
			x.add([]float32{0, 0})
			x.del("v1")
			x.add([]float32{1, 1})
			x.add([]float32{5, 5})
			s := x.snap()
			if ep := s.nodes[s.entry]; ep == nil || !ep.Deleted.Load() {
				x.close() // masked: a new node drew a higher level and became the entry point
				continue
			}
			ctx.Count("probe.D-C07-2.trials", int64(trial+1))
			before, err := x.e.VSearch(x.name, []float32{1, 1}, 2, "", "", 0, 1.0, nil)
			if err != nil {
				return "VSearch: " + err.Error()
			}
			x.maint("vacuum")
			after, err := x.e.VSearch(x.name, []float32{5, 5}, 2, "", "", 200, 1.0, nil)
			if err != nil {
				return "VSearch: " + err.Error()
			}
			x.close()
			if len(before) != 2 || len(after) != 2 {
				return fmt.Sprintf("VAdd(v1) VDelete(v1) VAdd(v2=[1 1]) VAdd(v3=[5 5]) on M=16: VSearch(k=2) returned %v (want v2 and v3); after a vacuum VSearch(q=[5 5], k=2, efSearch=200) returned %v (want v3 and v2)", before, after)
			}
			return ""
		}
		return ""
	})
}

// c07ProbeSelfLoop (D-C07-3): M=2, efConstruction=4: four adds, four deletes, vacuum (graph is
// empty, but four ids were handed out, so the next batch takes the parallel path), then a
// one-item VAddBatch. Deterministic.
func c07ProbeSelfLoop(ctx *vkit.Ctx) {
	ctx.Probe(c07DSelf, func(cs *vkit.Case) string {
		c07SeedLevels(cs)
		x := c07ProbeIndex(ctx, cs, "s", 2, 4)
		defer x.close()
		for i := 0; i < 4; i++ {
			x.add([]float32{float32(i), 1})
		}
		for _, id := range []string{"v1", "v2", "v3", "v4"} {
			x.del(id)
		}
		x.maint("vacuum")
		x.addMany("batch", [][]float32{{7, 7}})
		s := x.snap()
		for id, n := range s.nodes {
			if n == nil {
				continue
			}
			for lvl, layer := range n.Connections {
				for _, nb := range layer {
					if nb == id {
						return fmt.Sprintf("M=2 efC=4: 4 x VAdd, 4 x VDelete, vacuum, VAddBatch(1 item): node %d (%s) lists itself as neighbour at level %d (connections %v)", id, n.Id, lvl, n.Connections)
					}
				}
			}
		}
		return ""
	})
}

// c07ProbeStar (D-C07-4): M=2 (2*M = 4), efConstruction=4. Four adds, four deletes and a
// vacuum leave an empty graph with nodeCounter=4; VAdd(hub) makes it 5 >= efConstruction,
// so VAddBatch(a, b) takes the parallel path: a and b are linked to the hub but not to each
// other. The index holds 3 vectors. Query a's value and b's value with k=1: when a or b is
// the entry point (75% of the trials: one of them drew a level >= 1) the search starts
// there, the hub is farther away than the start node and is not expanded, so the other
// one is never seen.
func c07ProbeStar(ctx *vkit.Ctx) {
	ctx.Probe(c07DStar, func(cs *vkit.Case) string {
		c07SeedLevels(cs)
		for trial := 0; trial < 30; trial++ {
			x := c07ProbeIndex(ctx, cs, fmt.Sprintf("t%d", trial), 2, 4)
			for i := 0; i < 4; i++ {
				x.add([]float32{float32(i), 1})
			}
			for _, id := range []string{"v1", "v2", "v3", "v4"} {
				x.del(id)
			}
			x.maint("vacuum")
			x.add([]float32{100, 100})                       // v5, the hub
			x.addMany("batch", [][]float32{{0, 8}, {0, 10}}) // v6, v7
			s := x.snap()
			linked := false
			var a, b uint32
			for id, n := range s.nodes {
				if n != nil && n.Id == "v6" {
					a = id
				}
				if n != nil && n.Id == "v7" {
					b = id
				}
			}
			for _, nb := range s.nodes[a].Connections[0] {
				if nb == b {
					linked = true
				}
			}
			msg := ""
			for _, q := range [][]float32{{0, 8}, {0, 10}} {
				got, err := x.e.VSearch(x.name, q, 1, "", "", 0, 1.0, nil)
				if err != nil {
					return "VSearch: " + err.Error()
				}
				want := "v6"
				if q[1] == 10 {
					want = "v7"
				}
				if len(got) != 1 || got[0] != want {
					msg = fmt.Sprintf("M=2 efC=4, index holds 3 vectors (v5=[100 100] added singly, v6=[0 8] and v7=[0 10] by one VAddBatch after 4 adds+4 deletes+vacuum): v6 and v7 linked to each other at level 0: %v; VSearch(q=%v, k=1) returned %v, the stored vector equal to the query is %s", linked, q, got, want)
				}
			}
			x.close()
			if msg != "" {
				ctx.Count("probe.D-C07-4.trials", int64(trial+1))
				return msg
			}
			if linked {
				return "" // fixed: the batch's nodes are linked
			}
		}
		return ""
	})
}

// c07ProbePrune (D-C07-5): 600 uniform 8-dimensional vectors, M=4, efConstruction=50, added
// one by one with VAdd. Every stored vector is then searched by its own value with the most
// generous setting (k=1, efSearch=200). The property promises a fixed floor for that rate; the
// probe uses 0.85, the highest floor DESIGN.md allows a calibration to produce. On the tree
// under test the rate is about 0.6 because ~40% of the nodes end up with no incoming link at
// level 0; with the candidates sorted by distance before the pruning it is 1.0.
func c07ProbePrune(ctx *vkit.Ctx) {
	ctx.Probe(c07DPrune, func(cs *vkit.Case) string {
		c07SeedLevels(cs)
		x := c07ProbeIndex(ctx, cs, "p", 4, 50)
		x.dim = 8
		defer x.close()
		r := vkit.NewRand(7, 7) // fixed data set
		n := 600
		for i := 0; i < n; i++ {
			v := make([]float32, 8)
			for j := range v {
				v[j] = r.F32()
			}
			id := x.newID()
			if err := x.e.VAdd(x.name, id, append([]float32(nil), v...), nil); err != nil {
				return "VAdd: " + err.Error()
			}
			x.remember(id, v)
		}
		cs.Op("VAdd x %d (uniform, dim 8, M=4, efC=50)", n)
		s := x.snap()
		reach := s.reach(s.entry, 0)
		unreach := 0
		for id, nd := range s.nodes {
			if nd != nil && !nd.Deleted.Load() && !reach[id] {
				unreach++
			}
		}
		found := 0
		for _, id := range x.ids {
			got, err := x.e.VSearch(x.name, append([]float32(nil), x.live[id]...), 1, "", "", 200, 1.0, nil)
			if err != nil {
				return "VSearch: " + err.Error()
			}
			if len(got) == 1 && got[0] == id {
				found++
			}
		}
		rate := float64(found) / float64(n)
		ctx.Count("probe.D-C07-5.self_retrieval_permille", int64(rate*1000))
		ctx.Count("probe.D-C07-5.unreachable_nodes", int64(unreach))
		if rate < 0.85 {
			return fmt.Sprintf("600 uniform 8-dim vectors added singly (M=4, efC=50): only %d of 600 are returned by VSearch(own value, k=1, efSearch=200) (rate %.3f); %d live nodes have no path from the entry point at level 0", found, rate, unreach)
		}
		return ""
	})
}

func TestVerifC07Exact(t *testing.T) {
	vkit.Run(t, "C07", func(ctx *vkit.Ctx) {
		c07ProbeD20(ctx)
		c07ProbeOrphan(ctx)
		c07ProbeSelfLoop(ctx)
		c07ProbeStar(ctx)
		c07ProbePrune(ctx)
		ctx.Group("exact", ctx.N(400, 60000), func(cs *vkit.Case) { c07ExactCase(ctx, cs) })
	})
}

// ---------------------------------------------------------------------------------------
// (b) large regime.

type c07Batch struct {
	name   string
	data   string
	n, dim int
	M, efC int
	metric distance.DistanceMetric
	prec   distance.PrecisionType
	path   string // single | batch | import
	quick  bool   // part of the quick tier
}

var c07Batches = []c07Batch{
	{"uniform16-single-M16", "uniform", 2000, 16, 16, 200, distance.Euclidean, distance.Float32, "single", true},
	{"clustered32-cos-batch-M16", "clustered", 2000, 32, 16, 200, distance.Cosine, distance.Float32, "batch", true},
	{"uniform8-import-M8", "uniform", 1000, 8, 8, 100, distance.Euclidean, distance.Float32, "import", true},
	{"dups16-single-M8", "dups", 1500, 16, 8, 100, distance.Euclidean, distance.Float32, "single", false},
	{"zeros24-cos-batch-M16", "zeros", 1000, 24, 16, 200, distance.Cosine, distance.Float32, "batch", true},
	{"uniform128-single-M16", "uniform", 1000, 128, 16, 200, distance.Euclidean, distance.Float32, "single", false},
	{"clustered32-f16-single-M16", "clustered", 1500, 32, 16, 200, distance.Euclidean, distance.Float16, "single", false},
	{"uniform32-int8-batch-M16", "uniform", 1500, 32, 16, 200, distance.Cosine, distance.Int8, "batch", false},
	{"uniform8-single-M4", "uniform", 1500, 8, 4, 50, distance.Euclidean, distance.Float32, "single", false},
	{"grid4-batch-M16", "grid", 2000, 4, 16, 200, distance.Euclidean, distance.Float32, "batch", false},
	{"clustered256-cos-import-M16", "clustered", 1000, 256, 16, 200, distance.Cosine, distance.Float32, "import", false},
	{"uniform2-single-M8", "uniform", 3000, 2, 8, 100, distance.Euclidean, distance.Float32, "single", false},
}

type c07Floor struct{ recallDef, recallHigh, self float64 }

// c07LargeData generates the data set of a batch.
type c07LargeData struct {
	kind    string
	dim     int
	r       *vkit.Rand
	centers [][]float32
	pool    [][]float32
	scale   bool
}

func c07NewLargeData(r *vkit.Rand, kind string, dim, n int) *c07LargeData {
	d := &c07LargeData{kind: kind, dim: dim, r: r}
	switch kind {
	case "clustered":
		for i := 0; i < 20; i++ {
			c := make([]float32, dim)
			for j := range c {
				c[j] = r.F32()
			}
			d.centers = append(d.centers, c)
		}
	case "dups":
		for i := 0; i < n/4; i++ {
			v := make([]float32, dim)
			for j := range v {
				v[j] = r.F32()
			}
			d.pool = append(d.pool, v)
		}
	}
	return d
}

// vec returns the next vector. For cosine/float32 batches (scale set) its length is then
// stretched by a factor in [0.2, 5] derived from the vector itself (no PRNG draw, so the
// directions - and with them the graph a correct index builds and the calibrated floors -
// are exactly those of the unscaled data): cosine search must not care about lengths.
func (d *c07LargeData) vec() []float32 {
	v := d.rawVec()
	if d.scale && len(v) > 0 {
		h := math.Float32bits(v[0])*2654435761 + math.Float32bits(v[len(v)-1])
		f := float32(0.2 + 4.8*float64(h%1000)/1000)
		for j := range v {
			v[j] *= f
		}
	}
	return v
}

func (d *c07LargeData) rawVec() []float32 {
	r := d.r
	v := make([]float32, d.dim)
	switch d.kind {
	case "clustered":
		c := vkit.Pick(r, d.centers)
		for j := range v {
			v[j] = c[j] + float32(r.NormFloat64())*0.1
		}
		return v
	case "dups":
		return append([]float32(nil), vkit.Pick(r, d.pool)...)
	case "grid":
		for j := range v {
			v[j] = float32(r.Intn(8))
		}
		return v
	case "zeros":
		if r.Chance(0.1) {
			return v
		}
	}
	for j := range v {
		v[j] = r.F32()
	}
	return v
}

type c07Measure struct {
	Batch      string  `json:"batch"`
	Stage      string  `json:"stage"`
	Live       int     `json:"live"`
	RecallDef  float64 `json:"recall10_ef_default"`
	RecallHigh float64 `json:"recall10_ef100"`
	Self       float64 `json:"self_retrieval_k1"`
	Unreach    int     `json:"live_nodes_unreachable_at_level0"`
	Seed       int64   `json:"seed"`
}

// measure runs the fixed query set and the self-retrieval set against the current state.
func (x *c07Index) measure(b c07Batch, stage string, queries [][]float32, s c07Snap) c07Measure {
	x.cs.Op("measure stage=%s live=%d", stage, len(x.ids))
	st := x.stored()
	rf := x.ref()
	pos := map[string]int{}
	for i, id := range st.ids {
		pos[id] = i
	}
	m := c07Measure{Batch: b.name, Stage: stage, Live: len(st.ids), Seed: x.ctx.Seed}
	dists := make([]float64, len(st.ids))
	sorted := make([]float64, len(st.ids))
	recall := func(ef int) float64 {
		var sum float64
		for _, q := range queries {
			qr := rf.queryRepr(q)
			for i := range st.vecs {
				dists[i] = rf.dist(qr, st.vecs[i])
			}
			copy(sorted, dists)
			sort.Float64s(sorted)
			kk := min(10, len(sorted))
			if kk == 0 {
				continue
			}
			cut := sorted[kk-1] + rf.tol(sorted[kk-1], x.scale)
			got, err := x.e.VSearch(x.name, append([]float32(nil), q...), 10, "", "", ef, 1.0, nil)
			if err != nil {
				x.cs.Fail("VSearch: %v", err)
			}
			hit := 0
			seen := map[string]bool{}
			for _, id := range got {
				i, ok := pos[id]
				if !ok {
					x.cs.Fail("stage %s: search returned id %q which is not live", stage, id)
				}
				if !seen[id] && dists[i] <= cut {
					hit++
				}
				seen[id] = true
			}
			if hit > kk {
				hit = kk
			}
			sum += float64(hit) / float64(kk)
			x.ctx.Touch()
		}
		return sum / float64(len(queries))
	}
	m.RecallDef = recall(0)
	m.RecallHigh = recall(100)
	// self retrieval: the value of a stored vector as query, k=1, default efSearch
	nself := min(100, len(x.ids))
	ok := 0
	for j := 0; j < nself; j++ {
		id := x.ids[(j*7919)%len(x.ids)]
		q := x.live[id]
		qr := rf.queryRepr(q)
		best := math.Inf(1)
		for i := range st.vecs {
			if d := rf.dist(qr, st.vecs[i]); d < best {
				best = d
			}
		}
		got, err := x.e.VSearch(x.name, append([]float32(nil), q...), 1, "", "", 0, 1.0, nil)
		if err != nil {
			x.cs.Fail("VSearch: %v", err)
		}
		if len(got) == 1 {
			if i, live := pos[got[0]]; live && rf.dist(qr, st.vecs[i]) <= best+rf.tol(best, x.scale) {
				ok++
			}
		}
	}
	if nself > 0 {
		m.Self = float64(ok) / float64(nself)
	}
	if s.liveN > 0 {
		r := s.reach(s.entry, 0)
		for id, n := range s.nodes {
			if n != nil && !n.Deleted.Load() && !r[id] {
				m.Unreach++
				if os.Getenv("C07_DEBUG_UNREACH") != "" {
					v := x.live[n.Id]
					zero := true
					for _, c := range v {
						if c != 0 {
							zero = false
						}
					}
					indeg := 0
					for _, o := range s.nodes {
						if o != nil && len(o.Connections) > 0 {
							for _, nb := range o.Connections[0] {
								if nb == id {
									indeg++
								}
							}
						}
					}
					fmt.Printf("C07UNREACH stage=%s node=%d id=%s zero=%v levels=%d outdeg0=%d indeg0=%d\n", stage, id, n.Id, zero, len(n.Connections), len(n.Connections[0]), indeg)
				}
			}
		}
	}
	x.searches += int64(2*len(queries) + nself)
	x.ctx.Count("large.searches", int64(2*len(queries)+nself))
	return m
}

func c07Bucket(v float64) string {
	lo := math.Floor(v*20) / 20
	if lo >= 1 {
		lo = 0.95
	}
	return fmt.Sprintf("%.2f-%.2f", lo, lo+0.05)
}

func c07LargeCase(ctx *vkit.Ctx, cs *vkit.Case, b c07Batch, round int) {
	c07SeedLevels(cs)
	r := cs.R
	n := b.n
	data := c07NewLargeData(r, b.data, b.dim, n)
	data.scale = b.metric == distance.Cosine && b.prec == distance.Float32
	x := &c07Index{cs: cs, ctx: ctx, dir: cs.SubDir("data"), name: "ix", M: b.M, efC: b.efC,
		metric: b.metric, prec: b.prec, dim: b.dim, live: map[string][]float32{}}
	x.open()
	defer func() {
		if x.e != nil {
			x.e.Close()
		}
	}()
	cs.Op("batch %s: VCreate(M=%d efC=%d %s/%s) n=%d dim=%d path=%s", b.name, b.M, b.efC, b.metric, b.prec, n, b.dim, b.path)
	if err := x.e.VCreate(x.name, b.metric, b.M, b.efC, b.prec, "", nil, nil, nil); err != nil {
		cs.Fail("VCreate: %v", err)
	}
	vecs := make([][]float32, n)
	for i := range vecs {
		vecs[i] = data.vec()
	}
	queries := make([][]float32, 100)
	for i := range queries {
		queries[i] = data.vec()
		if b.data == "dups" || b.data == "grid" { // off-grid queries: fewer total ties
			for j := range queries[i] {
				queries[i][j] += r.F32() * 0.05
			}
		}
	}
	cal, calibrated := c07Floors[b.name]
	floor := cal.floor
	calibrating := os.Getenv("C07_CALIBRATE") != "" || !calibrated
	var measures []c07Measure
	var stages []string
	observe := func(stage string) {
		s := x.snap()
		if msg := x.checkStructure(s, false); msg != "" {
			cs.Fail("batch %s stage %s: structure: %s", b.name, stage, msg)
		}
		ctx.Count("large.structure_checks", 1)
		m := x.measure(b, stage, queries, s)
		stages = append(stages, stage)
		fmt.Printf("C07CAL %s\n", vkit.JSON(m))
		ctx.Count("large.stages", 1)
		ctx.Count("large.stage."+stage, 1)
		ctx.Count("large.recall10_default_ef.bucket."+c07Bucket(m.RecallDef), 1)
		ctx.Count("large.recall10_ef100.bucket."+c07Bucket(m.RecallHigh), 1)
		ctx.Count("large.self_retrieval.bucket."+c07Bucket(m.Self), 1)
		if m.Unreach > 0 {
			ctx.Count("large.stages_with_unreachable_live_nodes", 1)
		}
		measures = append(measures, m)
		if calibrating {
			return
		}
		bad := ""
		switch {
		case m.RecallDef < floor.recallDef:
			bad = fmt.Sprintf("mean recall@10 (default efSearch) %.3f is below the calibrated floor %.3f", m.RecallDef, floor.recallDef)
		case m.RecallHigh < floor.recallHigh:
			bad = fmt.Sprintf("mean recall@10 (efSearch=100) %.3f is below the calibrated floor %.3f", m.RecallHigh, floor.recallHigh)
		case m.Self < floor.self:
			bad = fmt.Sprintf("self-retrieval rate %.3f is below the calibrated floor %.3f", m.Self, floor.self)
		}
		if bad != "" {
			cs.Attach("measurement", m)
			cs.Attach("stages", stages)
			cs.Fail("batch %s after stage %s (%d live vectors, %d queries): %s", b.name, stage, m.Live, len(queries), bad)
		}
	}

	// ---- build ----
	switch b.path {
	case "single":
		for _, v := range vecs {
			id := x.newID()
			if err := x.e.VAdd(x.name, id, append([]float32(nil), v...), nil); err != nil {
				cs.Fail("VAdd(%s): %v", id, err)
			}
			x.remember(id, v)
			ctx.Touch()
		}
		x.kind("add")
		cs.Op("VAdd x %d", n)
	case "batch":
		for i := 0; i < n; i += 256 {
			x.addMany("batch", vecs[i:min(n, i+256)])
		}
	case "import":
		for i := 0; i < n; i += 500 {
			x.addMany("import", vecs[i:min(n, i+500)])
		}
		x.kind("importcommit")
		cs.Op("VImportCommit")
		if err := x.e.VImportCommit(x.name); err != nil {
			cs.Fail("VImportCommit: %v", err)
		}
		x.uncommitted = false
		x.snapshotTaken()
		observe("imported(boost)")
		// wait for the background turbo refine (one Refine pass per 500 nodes, 10 s apart)
		deadline := time.Now().Add(15 * time.Minute) // generous: only a wait for a background task of the product
		for x.h().NeedsRefine() {
			if time.Now().After(deadline) {
				ctx.Inconclusive("needs-refine flag still set long after VImportCommit")
				return
			}
			time.Sleep(100 * time.Millisecond)
			ctx.Touch()
		}
	}
	observe("built")

	// ---- delete 20% ----
	s := x.snap()
	protect := ""
	if ctx.IsKnown(c07D20) {
		if tl := s.topLive(""); len(tl) > 0 {
			sort.Slice(tl, func(i, j int) bool { return tl[i] < tl[j] })
			protect = s.nodes[tl[0]].Id // guard D-C07-1: one live node of the top layer survives
		}
	}
	var victims []string
	for i, id := range x.ids {
		if i%5 == 2 && id != protect {
			victims = append(victims, id)
		}
	}
	for _, id := range victims {
		if err := x.e.VDelete(x.name, id); err != nil {
			cs.Fail("VDelete(%s): %v", id, err)
		}
		x.forget(id)
	}
	x.kind("delete")
	cs.Op("VDelete x %d", len(victims))
	x.afterVacuum = false
	observe("deleted")

	x.maint("vacuum")
	observe("vacuum")

	// ---- re-add 10% through the batch API (parallel path) ----
	extra := make([][]float32, n/10)
	for i := range extra {
		extra[i] = data.vec()
	}
	x.addMany("batch", extra)
	observe("readd")

	x.maint("refine")
	observe("refine")

	// ---- lose the entry point: delete the live top layer, vacuum re-elects ----
	s = x.snap()
	tl := s.topLive("")
	if len(tl) > 0 && len(tl) < len(x.ids)/2 {
		for _, in := range tl {
			id := s.nodes[in].Id
			if err := x.e.VDelete(x.name, id); err != nil {
				cs.Fail("VDelete(%s): %v", id, err)
			}
			x.forget(id)
		}
		x.kind("delete")
		cs.Op("VDelete of the %d live top-layer nodes (level %d)", len(tl), s.maxLevel)
		x.afterVacuum = false
		if !ctx.IsKnown(c07D20) {
			observe("toplayer-deleted")
		}
		x.maint("vacuum")
		observe("toplayer-deleted+vacuum")
	}

	if ctx.IsKnown(c07D20) && x.snapLive != nil {
		// guard D-C07-1 (replay flavour): the snapshot on disk still holds the old top layer; the
		// restart replays the journaled deletions on it (the vacuum is not persisted) and would
		// leave that top layer entirely soft-deleted. Save a snapshot of the vacuumed graph first.
		ctx.Count("guard.D-C07-1.snapshot_before_restart", 1)
		cs.Op("SaveSnapshot (guard)")
		if err := x.e.SaveSnapshot(); err != nil {
			cs.Fail("SaveSnapshot: %v", err)
		}
		x.snapshotTaken()
	}
	x.restart()
	observe("restart")

	if x.compress() {
		observe("compress")
		x.restart()
		observe("compress+restart")
	}
	ctx.Eval(1)
	ctx.Count("large.batches", 1)
	ctx.Count("large.batch."+b.name, 1)
	ctx.Distinct(fmt.Sprintf("%s/round%d/%s", b.name, round, strings.Join(stages, ",")))
	if cs.Idx < 8 {
		ctx.Sample("large."+b.name, 1, map[string]any{"batch": fmt.Sprintf("%+v", b), "calibrated_rmin": fmt.Sprintf("%+v", cal.rmin), "floor": fmt.Sprintf("%+v", floor), "stages": measures})
	}
}

func TestVerifC07Large(t *testing.T) {
	vkit.Run(t, "C07", func(ctx *vkit.Ctx) {
		var list []c07Batch
		for _, b := range c07Batches {
			if b.quick || !ctx.Quick() {
				list = append(list, b)
			}
		}
		if ctx.Shard == 0 {
			// both calibration numbers go into the evidence (counters are summed over shards: shard 0 only)
			for _, b := range list {
				c := c07Floors[b.name]
				ctx.Count("large.calibrated_rmin_permille."+b.name+".recall10_default_ef", int64(math.Round(c.rmin.recallDef*1000)))
				ctx.Count("large.calibrated_rmin_permille."+b.name+".recall10_ef100", int64(math.Round(c.rmin.recallHigh*1000)))
				ctx.Count("large.calibrated_rmin_permille."+b.name+".self_retrieval", int64(math.Round(c.rmin.self*1000)))
				ctx.Count("large.floor_permille."+b.name+".recall10_default_ef", int64(math.Round(c.floor.recallDef*1000)))
				ctx.Count("large.floor_permille."+b.name+".recall10_ef100", int64(math.Round(c.floor.recallHigh*1000)))
				ctx.Count("large.floor_permille."+b.name+".self_retrieval", int64(math.Round(c.floor.self*1000)))
			}
			ctx.Sample("large.calibration", 1, map[string]any{"method": "per batch: minimum stage mean over VERIF_SEED=1..10 and all stages (rmin); floor = min(rmin-0.10, 0.85); numbers are in the counters large.calibrated_rmin_permille.* and large.floor_permille.*"})
		}
		rounds := ctx.N(1, 2) // thorough: every batch twice (second round = other data, same floors)
		ctx.Group("large", len(list)*rounds, func(cs *vkit.Case) {
			c07LargeCase(ctx, cs, list[cs.Idx%len(list)], cs.Idx/len(list))
		})
	})
}

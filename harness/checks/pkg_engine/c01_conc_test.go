package engine_test

import (
	"fmt"
	"os"
	"runtime"
	"strings"
	"sync"
	"sync/atomic"
	"testing"
	"time"

	"github.com/sanonone/kektordb/internal/zzverif/vexec"
	"github.com/sanonone/kektordb/internal/zzverif/vkit"
	"github.com/sanonone/kektordb/pkg/core/distance"
	"github.com/sanonone/kektordb/pkg/core/hnsw"
	"github.com/sanonone/kektordb/pkg/core/types"
	"github.com/sanonone/kektordb/pkg/engine"
	"github.com/sanonone/kektordb/pkg/verifhook"
)

// c01cRestartSame closes and reopens the engine and reports the first observable that changed.
func c01cRestartSame(e *engine.Engine, dir string, u vexec.Universe) (*engine.Engine, string) {
	before := vexec.Observe(e, u)
	if err := e.Close(); err != nil {
		return nil, fmt.Sprintf("Close: %v", err)
	}
	e2, err := engine.Open(vexec.Options(dir))
	if err != nil {
		return nil, fmt.Sprintf("Open after Close failed: %v", err)
	}
	after := vexec.Observe(e2, u)
	if diff := vexec.Diff(before, after); len(diff) > 0 {
		return e2, fmt.Sprintf("%d observable(s) changed across Close/Open, first: %s", len(diff), diff[0])
	}
	return e2, ""
}

// c01cProbes: fixed schedules of the two defects the concurrent histories found (D66, D67).
func c01cProbes(ctx *vkit.Ctx) {
	// D66: a compression arrives while a log compaction has the journal in snapshot mode.
	ctx.Probe("D66", func(cs *vkit.Case) string {
		defer verifhook.Reset()
		dir := cs.SubDir("data")
		e, err := engine.Open(vexec.Options(dir))
		if err != nil {
			return fmt.Sprintf("open: %v", err)
		}
		defer func() { e.Close() }()
		e.VCreate("ic", distance.Euclidean, 4, 8, distance.Float32, "", nil, nil, nil)
		e.VAdd("ic", "a5", []float32{1, 2, 3}, map[string]any{"cat": "x"})
		e.KVSet("k0", []byte("v"))
		gate := make(chan struct{})
		parked := make(chan struct{})
		var once sync.Once
		verifhook.Set("rw.begin", func(string, any) {
			once.Do(func() { close(parked); <-gate })
		})
		rwDone := make(chan error, 1)
		go func() { rwDone <- e.RewriteAOF() }()
		<-parked
		cs.Op("RewriteAOF parked at rw.begin (journal in snapshot mode); VCompress(ic,float16) issued")
		cDone := make(chan error, 1)
		go func() { cDone <- e.VCompress("ic", distance.Float16) }()
		var cErr error
		returned := false
		select {
		case cErr = <-cDone:
			returned = true
		case <-time.After(300 * time.Millisecond): // it waits for the compaction: fine
		}
		close(gate)
		if err := <-rwDone; err != nil {
			return fmt.Sprintf("RewriteAOF: %v", err)
		}
		if !returned {
			cErr = <-cDone
		}
		cs.Op("VCompress returned %v (before the compaction finished: %v)", cErr, returned)
		info, _ := e.DB.GetSingleVectorIndexInfoAPI("ic")
		if cErr != nil && info.Precision != distance.Float32 {
			return fmt.Sprintf("VCompress(ic,float16) issued during a log compaction returned an error (%v) but the index now has precision %s", cErr, info.Precision)
		}
		u := vexec.Universe{Indexes: []string{"ic"}, IDs: []string{"a5"}, Keys: []string{"k0"}}
		e2, msg := c01cRestartSame(e, dir, u)
		if e2 != nil {
			e = e2
		}
		if msg != "" {
			return fmt.Sprintf("VCompress(ic,float16) issued during a log compaction (returned %v), then restart: %s", cErr, msg)
		}
		return ""
	})
	// D67: a delete runs between the two halves of a snapshot's state capture.
	ctx.Probe("D67", func(cs *vkit.Case) string {
		defer verifhook.Reset()
		dir := cs.SubDir("data")
		e, err := engine.Open(vexec.Options(dir))
		if err != nil {
			return fmt.Sprintf("open: %v", err)
		}
		defer func() { e.Close() }()
		e.VCreate("ia", distance.Euclidean, 4, 8, distance.Float32, "english", nil, nil, nil)
		e.VAdd("ia", "t0", []float32{1, 2, 3}, map[string]any{"cat": "x", "n": 3.0, "content": "alpha"})
		e.VAdd("ia", "t1", []float32{3, 2, 1}, map[string]any{"cat": "y", "n": 0.0, "content": "beta gamma"})
		gate := make(chan struct{})
		parked := make(chan struct{})
		var once sync.Once
		verifhook.Set("dbsnap.meta_frozen", func(string, any) {
			once.Do(func() { close(parked); <-gate })
		})
		snapDone := make(chan error, 1)
		go func() { snapDone <- e.SaveSnapshot() }()
		select {
		case <-parked:
		case err := <-snapDone:
			return fmt.Sprintf("HARNESS: SaveSnapshot returned (%v) without reaching hook dbsnap.meta_frozen", err)
		}
		cs.Op("SaveSnapshot parked after freezing the metadata; VDelete(ia,t0) issued")
		delDone := make(chan error, 1)
		go func() { delDone <- e.VDelete("ia", "t0") }()
		// the delete marks the node and then waits for the metadata lock the snapshot holds
		for i := 0; i < 200000; i++ {
			if _, err := e.VGet("ia", "t0"); err != nil {
				break
			}
			select {
			case <-delDone:
				i = 200000
			default:
				time.Sleep(10 * time.Microsecond)
			}
		}
		close(gate)
		if err := <-snapDone; err != nil {
			return fmt.Sprintf("SaveSnapshot: %v", err)
		}
		if err := <-delDone; err != nil {
			return fmt.Sprintf("VDelete: %v", err)
		}
		base := verifhook.Hits()["cascade.done"]
		_ = base
		time.Sleep(2 * time.Millisecond)
		u := vexec.Universe{Indexes: []string{"ia"}, IDs: []string{"t0", "t1"}}
		e2, msg := c01cRestartSame(e, dir, u)
		if e2 != nil {
			e = e2
		}
		if msg != "" {
			return "VDelete(ia,t0) while a snapshot was capturing its state, then restart: " + msg
		}
		ids, _ := e.VFilter("ia", "cat = 'x'", 100)
		for _, id := range ids {
			if id == "t0" {
				return "after the restart VFilter(cat = 'x') returns t0, which was deleted before the shutdown"
			}
		}
		return ""
	})
	// D68: an index is created again while (or right after) an index of the same name is dropped.
	ctx.Probe("D68", func(cs *vkit.Case) string {
		for _, variant := range []string{"removal_delayed", "create_during_drop"} {
			msg := func() string {
				defer verifhook.Reset()
				dir := cs.SubDir("data-" + variant)
				e, err := engine.Open(vexec.Options(dir))
				if err != nil {
					return fmt.Sprintf("open: %v", err)
				}
				defer func() { e.Close() }()
				e.VCreate("ic", distance.Euclidean, 4, 8, distance.Float32, "", nil, nil, nil)
				e.VAdd("ic", "old", []float32{1, 2, 3}, nil)
				recreate := func() error {
					if err := e.VCreate("ic", distance.Euclidean, 4, 8, distance.Float32, "", nil, nil, nil); err != nil {
						return fmt.Errorf("VCreate(ic) after the drop: %w", err)
					}
					return e.VAdd("ic", "new", []float32{4, 5, 6}, map[string]any{"cat": "x"})
				}
				if variant == "removal_delayed" {
					// the goroutine that removes the arena directory is slow to start
					verifhook.Set("op.VDeleteIndex.remove_start", func(string, any) { time.Sleep(30 * time.Millisecond) })
					cs.Op("VDeleteIndex(ic) with a slow removal goroutine, then VCreate(ic) + VAdd(ic,new) at once")
					if err := e.VDeleteIndex("ic"); err != nil {
						return fmt.Sprintf("VDeleteIndex: %v", err)
					}
					if err := recreate(); err != nil {
						return err.Error()
					}
					time.Sleep(40 * time.Millisecond)
				} else {
					gate := make(chan struct{})
					parked := make(chan struct{})
					var once sync.Once
					verifhook.Set("op.VDeleteIndex.applied", func(string, any) {
						once.Do(func() { close(parked); <-gate })
					})
					dropDone := make(chan error, 1)
					go func() { dropDone <- e.VDeleteIndex("ic") }()
					<-parked
					cs.Op("VDeleteIndex(ic) parked after the in-memory removal; VCreate(ic) + VAdd(ic,new) issued by another client")
					crDone := make(chan error, 1)
					go func() { crDone <- recreate() }()
					var crErr error
					returned := false
					select {
					case crErr = <-crDone:
						returned = true
					case <-time.After(300 * time.Millisecond): // it waits for the drop: fine
					}
					close(gate)
					if err := <-dropDone; err != nil {
						return fmt.Sprintf("VDeleteIndex: %v", err)
					}
					if !returned {
						crErr = <-crDone
					}
					if crErr != nil {
						return fmt.Sprintf("creation racing the drop failed: %v", crErr)
					}
				}
				if err := e.SaveSnapshot(); err != nil {
					return fmt.Sprintf("SaveSnapshot: %v", err)
				}
				u := vexec.Universe{Indexes: []string{"ic"}, IDs: []string{"old", "new"}}
				e2, msg := c01cRestartSame(e, dir, u)
				if e2 != nil {
					e = e2
				}
				if msg != "" {
					return fmt.Sprintf("%s: drop of ic, re-creation, add, snapshot, restart: %s", variant, msg)
				}
				d, err := e.VGet("ic", "new")
				if err != nil || len(d.Vector) != 3 || d.Vector[0] != 4 {
					return fmt.Sprintf("%s: after the restart VGet(ic,new) = %v, %v; stored [4 5 6]", variant, d.Vector, err)
				}
				return ""
			}()
			if msg != "" {
				return msg
			}
		}
		return ""
	})
}

// C01 (concurrent histories) — "whatever sequence of writes, deletes, re-adds, index drops,
// snapshots, log compactions, compressions and maintenance runs preceded the shutdown": the
// sequence here is the one that overlapping calls of several clients and of one or two
// administration goroutines produce. No model: once everything has come to rest, what is
// observable before Close must be observable after Open, twice.
func TestVerifC01Conc(t *testing.T) {
	vkit.Run(t, "C01", func(ctx *vkit.Ctx) {
		c01cProbes(ctx)
		ctx.Group("conc", ctx.N(96, 1600), func(cs *vkit.Case) {
			defer verifhook.Reset()
			r := cs.R
			procs := vkit.Pick(r, []int{2, 4, 16})
			prev := runtime.GOMAXPROCS(procs)
			defer runtime.GOMAXPROCS(prev)
			dir := cs.SubDir("data")
			e, err := engine.Open(vexec.Options(dir))
			if err != nil {
				cs.Fail("open: %v", err)
			}
			closed := false
			defer func() {
				if !closed {
					e.Close()
				}
			}()
			e.VCreate("ia", distance.Euclidean, 4, 8, distance.Float32, "english", nil, []hnsw.AutoLinkRule{{MetadataField: "cat", RelationType: "in_cat"}}, nil)
			mem := hnsw.MemoryConfig{Enabled: true, DecayModel: hnsw.DecayExponential, DecayHalfLife: hnsw.Duration(time.Hour)}
			e.VCreate("ib", distance.Cosine, 8, 16, vkit.Pick(r, []distance.PrecisionType{distance.Float32, distance.Float16}), "", nil, nil, &mem)
			ids := []string{"s0", "s1", "s2", "s3", "t0", "t1"}
			for _, ix := range []string{"ia", "ib"} {
				e.VAdd(ix, "keep", []float32{1, 2, 3}, map[string]any{"cat": "keep"})
				for i := 0; i < 4; i++ {
					e.VAdd(ix, fmt.Sprintf("s%d", i), []float32{float32(i), 1, 0.5}, map[string]any{"cat": "x", "n": float64(i), "content": "alpha beta"})
				}
			}
			// mode 0: clients only, restart from the plain log; 1: two administration goroutines
			// (snapshots and compactions overlap each other and the writes); 2: one, first half only
			mode := cs.Idx % 3
			nClients := r.Range(2, 6)
			per := r.Range(40, ctx.N(160, 400))
			cs.Op("mode=%d clients=%d ops/client=%d GOMAXPROCS=%d", mode, nClients, per, procs)
			hits := concYields(r)
			var ackedDeletes, opsDone, adminOps atomic.Int64
			cascadeBase := verifhook.Hits()["cascade.done"]
			var panics atomic.Value
			var wg sync.WaitGroup
			total := int64(nClients * per)
			for c := 0; c < nClients; c++ {
				wr := vkit.NewRand(uint64(r.Intn(1<<30)), uint64(c))
				wg.Add(1)
				go func(c int, wr *vkit.Rand) {
					defer wg.Done()
					defer func() {
						if p := recover(); p != nil {
							panics.CompareAndSwap(nil, fmt.Sprintf("client %d panicked: %v", c, p))
						}
					}()
					for i := 0; i < per; i++ {
						opsDone.Add(1)
						ctx.Touch()
						ix := vkit.Pick(wr, []string{"ia", "ib"})
						id := vkit.Pick(wr, ids)
						switch p := wr.Intn(100); {
						case p < 14:
							e.VAdd(ix, id, []float32{wr.F32(), wr.F32(), wr.F32()}, map[string]any{"cat": vkit.Pick(wr, []string{"x", "y"}), "n": float64(wr.Intn(5)), "content": vkit.Pick(wr, []string{"alpha", "beta gamma"})})
						case p < 22:
							if e.VDelete(ix, id) == nil {
								ackedDeletes.Add(1)
							}
						case p < 34:
							e.VSetMetadata(ix, vkit.Pick(wr, []string{"keep", id}), map[string]any{fmt.Sprintf("c%d_%d", c, i%5): float64(i)})
						case p < 40:
							e.VReinforce(ix, []string{"keep", id})
						case p < 60:
							var props map[string]any
							if wr.Chance(0.5) {
								props = map[string]any{"by": fmt.Sprintf("c%d.%d", c, i)}
								if wr.Chance(0.3) {
									var doc []any
									for k, n := 0, wr.Range(2, 40); k < n; k++ {
										doc = append(doc, strings.Repeat("y", 1000))
									}
									props["doc"] = doc
								}
							}
							inv := ""
							if wr.Chance(0.3) {
								inv = "inv_r"
							}
							e.VLink(ix, vkit.Pick(wr, ids[:3]), vkit.Pick(wr, ids[:3]), "r", inv, float32(c*1000+i), props)
						case p < 70:
							e.VUnlink(ix, vkit.Pick(wr, ids[:3]), vkit.Pick(wr, ids[:3]), "r", "", wr.Chance(0.25))
						case p < 78:
							e.VAddBatch(ix, []types.BatchObject{{Id: fmt.Sprintf("b%d_%d", c, i), Vector: []float32{wr.F32(), 1, 1}}, {Id: fmt.Sprintf("b%d_%dx", c, i), Vector: []float32{1, wr.F32(), 1}, Metadata: map[string]any{"cat": "x"}}})
						case p < 90:
							key := vkit.Pick(wr, []string{"k0", "k1", "k2"})
							if wr.Chance(0.7) {
								e.KVSet(key, []byte(fmt.Sprintf("%d.%d", c, i)))
							} else {
								e.KVDelete(key)
							}
						default:
							e.VGet(ix, id)
							e.VSearch(ix, []float32{wr.F32(), wr.F32(), wr.F32()}, 3, "", "", 0, 1.0, nil)
						}
					}
				}(c, wr)
			}
			stop := make(chan struct{})
			var adminWg sync.WaitGroup
			var logMu sync.Mutex
			alog := func(g int, what string, err error) {
				logMu.Lock()
				cs.Op("admin%d %s -> %v (client ops so far %d)", g, what, err, opsDone.Load())
				logMu.Unlock()
			}
			adminLoop := func(offset int, half bool) {
				defer adminWg.Done()
				defer func() {
					if p := recover(); p != nil {
						panics.CompareAndSwap(nil, fmt.Sprintf("administration goroutine panicked: %v", p))
					}
				}()
				for i := offset; ; i++ {
					select {
					case <-stop:
						return
					default:
					}
					if half && opsDone.Load() > total/2 {
						return
					}
					switch i % 6 {
					case 0:
						alog(offset, "SaveSnapshot", e.SaveSnapshot())
					case 1:
						alog(offset, "RewriteAOF", e.RewriteAOF())
					case 2:
						alog(offset, "vacuum(ia)", e.VTriggerMaintenance("ia", "vacuum"))
					case 3:
						alog(offset, "SaveSnapshot", e.SaveSnapshot())
						e.RunGraphVacuum()
					case 4:
						alog(offset, "RewriteAOF", e.RewriteAOF())
						alog(offset, "refine(ib)", e.VTriggerMaintenance("ib", "refine"))
					case 5:
						alog(offset, "VCreate(ic)", e.VCreate("ic", distance.Euclidean, 4, 8, distance.Float32, "", nil, nil, nil))
						alog(offset, fmt.Sprintf("VAdd(ic,a%d)", i), e.VAdd("ic", fmt.Sprintf("a%d", i), []float32{1, 2, 3}, map[string]any{"cat": "x"}))
						if i%12 == 5 {
							alog(offset, "VCompress(ic,float16)", e.VCompress("ic", distance.Float16))
						}
						if i%18 == 17 {
							alog(offset, "VDeleteIndex(ic)", e.VDeleteIndex("ic"))
						}
					}
					adminOps.Add(1)
					ctx.Touch()
					time.Sleep(100 * time.Microsecond)
				}
			}
			switch mode {
			case 1:
				adminWg.Add(2)
				go adminLoop(0, false)
				go adminLoop(1, false) // snapshot in one, compaction in the other
			case 2:
				adminWg.Add(1)
				go adminLoop(0, true)
			}
			wg.Wait()
			close(stop)
			adminWg.Wait()
			verifhook.SetGlobal(nil)
			if v := panics.Load(); v != nil {
				cs.Fail("%s", v.(string))
			}
			ctx.Count("conc.client_ops", opsDone.Load())
			ctx.Count("conc.admin_ops", adminOps.Load())
			ctx.Count("conc.hook_hits", int64(hits.Load()))
			for i := 0; verifhook.Hits()["cascade.done"]-cascadeBase < ackedDeletes.Load(); i++ {
				if i > 4000000 {
					cs.Fail("delete cascades did not finish")
				}
				time.Sleep(20 * time.Microsecond)
			}
			u := vexec.Universe{Indexes: []string{"ia", "ib", "ic"}, IDs: append([]string{"keep", "a0", "a5", "a11"}, ids...), Keys: []string{"k0", "k1", "k2"}, Rels: []string{"r", "inv_r", "in_cat"}}
			for _, ix := range u.Indexes {
				for _, id := range u.IDs {
					u.Nodes = append(u.Nodes, vexec.GraphID(ix, id))
				}
			}
			for round := 1; round <= 2; round++ {
				before := vexec.Observe(e, u)
				if err := e.Close(); err != nil {
					cs.Fail("Close: %v", err)
				}
				closed = true
				keep := ""
				if k := os.Getenv("VERIF_KEEP"); k != "" {
					keep = fmt.Sprintf("%s/%s-%d-r%d", k, fmt.Sprintf("%s_%d", cs.Group, cs.Idx), os.Getpid(), round)
					vexec.ImageDir(dir, keep)
					cs.Attach("kept_image", keep)
				}
				e2, err := engine.Open(vexec.Options(dir))
				if err != nil {
					cs.Attach("log_records", c13DumpLog(dir))
					cs.Fail("restart %d after concurrent clients (mode %d): Open failed: %v", round, mode, err)
				}
				e, closed = e2, false
				after := vexec.Observe(e, u)
				if diff := vexec.Diff(before, after); len(diff) > 0 {
					cs.Attach("diff", diff)
					cs.Attach("log_records", c13DumpLog(dir))
					if parts := strings.SplitN(diff[0], "/", 3); len(parts) == 3 {
						pre := parts[0] + "/" + parts[1] + "/"
						ctxVals := map[string]string{}
						for k, v := range before.Vals {
							if strings.HasPrefix(k, pre) && len(v) < 400 {
								ctxVals["before "+k] = v
							}
						}
						for k, v := range after.Vals {
							if strings.HasPrefix(k, pre) && len(v) < 400 && before.Vals[k] != v {
								ctxVals["after  "+k] = v
							}
						}
						cs.Attach("read_out_of_that_index", ctxVals)
					}
					cs.Fail("restart %d after concurrent clients (mode %d): %d observable(s) changed across Close/Open, first: %s", round, mode, len(diff), diff[0])
				}
				ctx.Count("conc.restarts", 1)
				if keep != "" {
					os.RemoveAll(keep)
				}
				if round == 1 { // the reopened engine is usable; a little more history for the second restart
					base := verifhook.Hits()["cascade.done"]
					e.VAdd("ia", "late", []float32{3, 3, 3}, map[string]any{"cat": "y"})
					e.VLink("ia", "late", "keep", "r", "inv_r", 5, nil)
					e.KVSet("k1", []byte("late"))
					dels := int64(0)
					if e.VDelete("ia", "s0") == nil {
						dels++
					}
					for i := 0; verifhook.Hits()["cascade.done"]-base < dels; i++ {
						if i > 4000000 {
							cs.Fail("delete cascade did not finish")
						}
						time.Sleep(20 * time.Microsecond)
					}
					u.IDs = append(u.IDs, "late")
					u.Nodes = append(u.Nodes, vexec.GraphID("ia", "late"))
				}
			}
			ctx.Eval(1)
			ctx.Distinct(fmt.Sprintf("conc/mode%d/c%d/p%d/a%d/h%d", mode, nClients, procs, adminOps.Load()/8, hits.Load()/400))
			ctx.Sample("conc", 2, map[string]any{"mode": mode, "clients": nClients, "ops_per_client": per, "admin_ops": adminOps.Load()})
		})
	})
}

package engine

// C03 — the log codec is lossless; corruption never fabricates or garbles commands.
//
// Two test functions (two parts in checks.d/C03.json):
//
//   TestVerifC03Codec   round trip FormatCommand -> frame write -> ReadFrame -> ParseCommand
//                       for generated names/arguments, and the white-box vector text codec
//                       (float32SliceToHexString / parseVectorFromString, hex + legacy decimal).
//   TestVerifC03Corrupt a log of self-identifying commands is written with the real AOF
//                       writer, damaged at byte level and given to engine.Open; the oracle is
//                       items (1)-(6) of DESIGN.md "C03".
//
// All randomness comes from cs.R.

import (
	"bufio"
	"bytes"
	"encoding/binary"
	"encoding/hex"
	"fmt"
	"hash/crc32"
	"io"
	"math"
	"os"
	"path/filepath"
	"runtime"
	"runtime/debug"
	"strconv"
	"strings"
	"testing"

	"github.com/sanonone/kektordb/internal/zzverif/vkit"
	"github.com/sanonone/kektordb/pkg/core"
	"github.com/sanonone/kektordb/pkg/persistence"
)

// ---------------------------------------------------------------------------------------
// byte generators shared by both parts

var c03Special = []byte{'\r', '\n', 0, '$', '*', 0xA5, '-', '1', '0', ':', ' ', 0xFF, 0x01}

var c03Fragments = [][]byte{
	[]byte("\r\n"), []byte("$-1\r\n"), []byte("$0\r\n\r\n"), []byte("*2\r\n$3\r\nSET\r\n"),
	[]byte("*1\r\n"), []byte("$5\r\n"), {0xA5, 0x01}, {0xA5, 0x01, 0, 0, 0, 0, 0, 0, 0, 0},
	{0xA5, 0xA5, 0xA5}, []byte("\n\n"), []byte("\r"), {0},
}

// c03Bytes returns 0..maxLen bytes biased towards the characters the codec treats specially.
func c03Bytes(r *vkit.Rand, maxLen int) []byte {
	if maxLen <= 0 {
		return []byte{}
	}
	n := r.Intn(maxLen + 1)
	switch r.Intn(6) {
	case 0: // uniformly random
		return r.Bytes(n)
	case 1: // only special bytes
		b := make([]byte, n)
		for i := range b {
			b[i] = vkit.Pick(r, c03Special)
		}
		return b
	case 2: // one long run of a special byte
		return bytes.Repeat([]byte{vkit.Pick(r, c03Special)}, n)
	case 3: // protocol fragments glued together
		var b []byte
		for len(b) < n {
			b = append(b, vkit.Pick(r, c03Fragments)...)
		}
		return b[:n]
	case 4: // printable text with specials sprinkled in
		b := make([]byte, n)
		for i := range b {
			if r.Chance(0.2) {
				b[i] = vkit.Pick(r, c03Special)
			} else {
				b[i] = byte('a' + r.Intn(26))
			}
		}
		return b
	default: // random with 0xA5 / CR / LF sprinkled in
		b := r.Bytes(n)
		for i := range b {
			if r.Chance(0.15) {
				b[i] = vkit.Pick(r, c03Special)
			}
		}
		return b
	}
}

// c03Name returns a command name that is already upper-case ASCII without CR/LF
// (ParseCommand upper-cases names: RESP command names are case-insensitive).
func c03Name(r *vkit.Rand) string {
	n := r.Range(0, 12)
	if r.Chance(0.05) {
		n = r.Range(13, 300)
	}
	b := make([]byte, n)
	wild := r.Chance(0.3)
	for i := range b {
		if wild { // any ASCII byte except lower-case letters, CR and LF
			for {
				c := byte(r.Intn(128))
				if (c >= 'a' && c <= 'z') || c == '\r' || c == '\n' {
					continue
				}
				b[i] = c
				break
			}
		} else {
			b[i] = "ABCDEFGHIJKLMNOPQRSTUVWXYZ0123456789_"[r.Intn(37)]
		}
	}
	return string(b)
}

// c03Val returns 0..maxLen bytes for the payloads of the corruption part. Like c03Bytes it
// contains CR, LF, NUL, '$', '*' and the magic byte, but most magic bytes stand in a context
// that recovery can dismiss cheaply: resync treats every 0xA5 of a damaged stretch as a
// possible header and allocates+zeroes the announced length (anything up to 1 GB) before it
// looks at the checksum, i.e. a magic byte followed by ASCII punctuation/digits costs
// 0.1-1 GB of memory traffic each. Five letters (>= 0x41, length field > cap) after a magic
// byte make the candidate cheap; the expensive context is kept, but rare.
func c03Val(r *vkit.Rand, maxLen int) []byte {
	if maxLen <= 0 {
		return []byte{}
	}
	pricey := r.Chance(0.03)
	for {
		b := c03ValRaw(r, maxLen)
		if pricey || c03Cost(append(append([]byte(nil), b...), "\r\n$9\r\n"...)) == 0 {
			return b
		}
	}
}

func c03ValRaw(r *vkit.Rand, maxLen int) []byte {
	n := r.Intn(maxLen + 1)
	letters := func(b []byte, k int) []byte {
		for i := 0; i < k; i++ {
			b = append(b, "ABCDEFGHIJKLMNOPQRSTUVWXYZabcdefghijklmnopqrstuvwxyz"[r.Intn(52)])
		}
		return b
	}
	b := make([]byte, 0, n+16)
	for len(b) < n {
		x := r.Intn(100)
		switch {
		case x < 62:
			b = letters(b, r.Range(1, 8))
		case x < 80:
			b = append(b, vkit.Pick(r, []byte{'\r', '\n', 0, '$', '*', '-', ':', ' ', '1', '0'}))
		case x < 84:
			b = append(b, vkit.Pick(r, c03Fragments[:6])...)
		case x < 90: // magic byte(s), cheap context
			b = append(b, bytes.Repeat([]byte{0xA5}, vkit.Pick(r, []int{1, 1, 1, 2, 7}))...)
			b = letters(b, 5)
		case x < 92: // magic byte announcing an empty payload
			b = append(b, 0xA5, 0x01, 0, 0, 0, 0)
			b = append(b, r.Bytes(4)...)
		case x < 93: // magic byte in the expensive context
			b = append(b, 0xA5)
		default: // high bytes
			for k := r.Range(1, 4); k > 0; k-- {
				c := byte(0x80 + r.Intn(0x80))
				if c == 0xA5 {
					c = 0xFF
				}
				b = append(b, c)
			}
		}
	}
	return b
}

// c03LogUniform draws an integer in [lo, hi] whose logarithm is uniform: every order of
// magnitude of a length is equally likely.
func c03LogUniform(r *vkit.Rand, lo, hi int) int {
	if lo < 1 {
		lo = 1
	}
	if hi <= lo {
		return lo
	}
	x := math.Exp(math.Log(float64(lo)) + r.Float64()*(math.Log(float64(hi)+1)-math.Log(float64(lo))))
	n := int(x)
	if n < lo {
		n = lo
	}
	if n > hi {
		n = hi
	}
	return n
}

// c03Affordable rewrites b in place so that no magic byte of b announces a payload between
// 1 MiB and the cap (see c03Val: resync allocates and zeroes the announced length of every
// magic byte of a damaged stretch). Only the most significant length byte of such a candidate
// is changed; magic bytes stay where they are. The last five bytes are made letters so that
// the verdict does not depend on what follows b.
func c03Affordable(r *vkit.Rand, b []byte) []byte {
	for i := len(b) - 5; i < len(b); i++ {
		if i >= 0 {
			b[i] = byte('A' + r.Intn(26))
		}
	}
	for i := 0; i+6 <= len(b); i++ {
		if b[i] != persistence.MagicByte {
			continue
		}
		if l := binary.LittleEndian.Uint32(b[i+2 : i+6]); l > 1<<20 && l <= persistence.MaxPayloadSize {
			b[i+5] = byte(0xC0 + r.Intn(0x3F))
		}
	}
	return b
}

var c03LongModes = []string{"random", "sprinkled", "runs", "allmagic", "headers", "resp", "letters", "zeros"}

// c03LongBytes returns exactly n (>= 6) bytes of "arbitrary binary content" for values and
// garbage that are longer than anything a reader keeps in one buffer: uniformly random bytes,
// random bytes with the magic byte sprinkled in at 1..20 %, runs of magic bytes, nothing but
// magic bytes, plausible headers / checksum-valid non-command frames, RESP text, plain
// letters, zeros. Never a complete well-formed frame.
func c03LongBytes(r *vkit.Rand, n int, mode string) []byte {
	if n < 6 {
		n = 6
	}
	b := make([]byte, 0, n+64)
	switch mode {
	case "random":
		b = r.Bytes(n)
	case "sprinkled":
		b = r.Bytes(n)
		p := vkit.Pick(r, []float64{0.01, 0.05, 0.2})
		for i := range b {
			if r.Chance(p) {
				b[i] = persistence.MagicByte
			}
		}
	case "runs":
		for len(b) < n {
			b = append(b, bytes.Repeat([]byte{persistence.MagicByte}, r.Range(1, 40))...)
			if r.Chance(0.5) {
				b = append(b, r.Bytes(r.Range(1, 40))...)
			} else {
				for k := r.Range(1, 40); k > 0; k-- {
					b = append(b, byte('a'+r.Intn(26)))
				}
			}
		}
	case "allmagic":
		b = bytes.Repeat([]byte{persistence.MagicByte}, n)
	case "headers":
		for len(b) < n {
			b = append(b, c03GarbageRaw(r, r.Range(1, 60), false)...)
		}
	case "resp":
		for len(b) < n {
			b = append(b, c03ValRaw(r, 200)...)
		}
	case "zeros":
		b = make([]byte, n)
	default:
		for len(b) < n {
			b = append(b, byte('a'+r.Intn(26)))
		}
	}
	return c03Affordable(r, b[:n])
}

type c03Cmd struct {
	name string
	args [][]byte
}

func c03GenCmd(r *vkit.Rand, maxArg int) c03Cmd {
	c := c03Cmd{name: c03Name(r)}
	na := r.Range(0, 8)
	tiny := false
	if r.Chance(0.06) { // argument counts with 2..4 digits (batch records carry thousands of arguments)
		na = c03LogUniform(r, 9, 3000)
		tiny = true
	}
	for i := 0; i < na; i++ {
		if tiny && r.Chance(0.9) {
			switch r.Intn(4) {
			case 0:
				c.args = append(c.args, nil)
			case 1:
				c.args = append(c.args, []byte{})
			default:
				c.args = append(c.args, c03Bytes(r, 3))
			}
			continue
		}
		switch r.Intn(5) {
		case 0:
			c.args = append(c.args, nil)
		case 1:
			c.args = append(c.args, []byte{})
		default:
			m := 24
			if r.Chance(0.1) {
				m = maxArg
			}
			a := c03Bytes(r, m)
			if a == nil {
				a = []byte{}
			}
			c.args = append(c.args, a)
		}
	}
	return c
}

// shape is the distinctness key of a generated command.
func (c c03Cmd) shape() (string, bool) {
	var sb strings.Builder
	nontrivial := false
	fmt.Fprintf(&sb, "n%d:", len(c.name))
	if len(c.args) > 8 { // many arguments: the shape is the count bucket plus which kinds occur
		var kinds [3]bool
		for _, a := range c.args {
			switch {
			case a == nil:
				kinds[0] = true
			case len(a) == 0:
				kinds[1] = true
			default:
				kinds[2] = true
			}
		}
		return fmt.Sprintf("many:%d:%v", len(strconv.Itoa(len(c.args)+1)), kinds), true
	}
	for _, a := range c.args {
		switch {
		case a == nil:
			sb.WriteByte('N')
			nontrivial = true
		case len(a) == 0:
			sb.WriteByte('E')
			nontrivial = true
		default:
			f := 0
			for bit, ch := range []byte{'\r', '\n', 0, '$', '*', 0xA5} {
				if bytes.IndexByte(a, ch) >= 0 {
					f |= 1 << bit
				}
			}
			if f != 0 {
				nontrivial = true
			}
			lb := 0
			for l := len(a); l > 0; l >>= 2 {
				lb++
			}
			fmt.Fprintf(&sb, "B%x.%d", f, lb)
		}
		sb.WriteByte(',')
	}
	return sb.String(), nontrivial
}

func c03Short(b []byte) string {
	if b == nil {
		return "nil"
	}
	if len(b) > 48 {
		return fmt.Sprintf("%q…(%d bytes)", b[:48], len(b))
	}
	return fmt.Sprintf("%q", b)
}

// c03CompareCmd is the round-trip oracle: name, argument count, each argument byte for byte
// and nil-ness.
func c03CompareCmd(want c03Cmd, got *persistence.Command) string {
	if got.Name != want.name {
		return fmt.Sprintf("name: wrote %q, read %q", want.name, got.Name)
	}
	if len(got.Args) != len(want.args) {
		return fmt.Sprintf("argument count: wrote %d, read %d", len(want.args), len(got.Args))
	}
	for i := range want.args {
		w, g := want.args[i], got.Args[i]
		if (w == nil) != (g == nil) {
			return fmt.Sprintf("argument %d: wrote %s, read %s (nil-ness lost)", i, c03Short(w), c03Short(g))
		}
		if !bytes.Equal(w, g) {
			return fmt.Sprintf("argument %d: wrote %s, read %s", i, c03Short(w), c03Short(g))
		}
	}
	return ""
}

// ---------------------------------------------------------------------------------------
// part 1: codec

func TestVerifC03Codec(t *testing.T) {
	vkit.Run(t, "C03", func(ctx *vkit.Ctx) {
		ctx.Assume("command names are generated upper-case ASCII without CR/LF (ParseCommand upper-cases names)")
		ctx.Assume("legacy decimal vector text = space separated strconv.FormatFloat in 'f'/'g'/'e' form with 32- or 64-bit shortest digits; NaN payloads are only required to survive the hex form")

		// ---- command round trip --------------------------------------------------------
		ctx.Group("roundtrip", ctx.N(400, 6000), func(cs *vkit.Case) {
			r := cs.R
			n := r.Range(40, 160)
			maxArg := 4096
			if r.Chance(0.08) {
				maxArg = ctx.N(100_000, 1_000_000)
				n = 12
			}
			cmds := make([]c03Cmd, n)
			for i := range cmds {
				cmds[i] = c03GenCmd(r, maxArg)
			}
			viaFile := cs.Idx%4 == 0
			cs.Op("roundtrip of %d commands viaAOFWriter=%v first=%q/%d args", n, viaFile, cmds[0].name, len(cmds[0].args))

			var stream []byte
			payloads := make([][]byte, n)
			for i, c := range cmds {
				payloads[i] = []byte(persistence.FormatCommand(c.name, c.args...))
			}
			if viaFile {
				path := filepath.Join(cs.TempDir(), "rt.aof")
				w, err := persistence.NewAOFWriter(path, r.Range(0, 1)*r.Range(16, 8192))
				if err != nil {
					cs.Fail("NewAOFWriter: %v", err)
				}
				for i := range cmds {
					if err := w.Write(string(payloads[i])); err != nil {
						cs.Fail("AOFWriter.Write: %v", err)
					}
					if r.Chance(0.2) {
						w.Flush()
					}
				}
				if err := w.Close(); err != nil {
					cs.Fail("AOFWriter.Close: %v", err)
				}
				b, err := os.ReadFile(path)
				if err != nil {
					cs.Fail("read back: %v", err)
				}
				stream = b
			} else {
				var buf bytes.Buffer
				fw := persistence.NewFrameWriter(&buf)
				for i := range cmds {
					if err := fw.WriteFrame(payloads[i]); err != nil {
						cs.Fail("WriteFrame: %v", err)
					}
				}
				stream = buf.Bytes()
			}

			rd := bytes.NewReader(stream)
			for i, c := range cmds {
				payload, sz, err := persistence.ReadFrame(rd)
				if err != nil {
					cs.Attach("command", map[string]any{"name": c.name, "args": c03ArgsHex(c.args)})
					cs.Fail("command %d: ReadFrame failed on an undamaged frame: %v", i, err)
				}
				if sz != persistence.HeaderSize+len(payloads[i]) || !bytes.Equal(payload, payloads[i]) {
					cs.Attach("command", map[string]any{"name": c.name, "args": c03ArgsHex(c.args)})
					cs.Fail("command %d: frame payload changed: wrote %d bytes, read %d bytes (size reported %d)", i, len(payloads[i]), len(payload), sz)
				}
				got, err := persistence.ParseCommand(bufio.NewReader(bytes.NewReader(payload)))
				if err != nil {
					cs.Attach("command", map[string]any{"name": c.name, "args": c03ArgsHex(c.args)})
					cs.Fail("command %d (name %q, %d args): ParseCommand rejects what FormatCommand wrote: %v", i, c.name, len(c.args), err)
				}
				if msg := c03CompareCmd(c, got); msg != "" {
					cs.Attach("command", map[string]any{"name": c.name, "args": c03ArgsHex(c.args)})
					cs.Fail("command %d (name %q, %d args) not read back identical: %s", i, c.name, len(c.args), msg)
				}
				key, nt := c.shape()
				if nt {
					ctx.Distinct("rt:" + key)
				}
				for _, a := range c.args {
					switch {
					case a == nil:
						ctx.Count("codec.args_nil", 1)
					case len(a) == 0:
						ctx.Count("codec.args_empty", 1)
					default:
						ctx.Count("codec.args_bytes", 1)
					}
				}
			}
			if _, _, err := persistence.ReadFrame(rd); err != io.EOF {
				cs.Fail("after the last frame ReadFrame returned %v, want io.EOF", err)
			}
			ctx.Eval(int64(n))
			ctx.Count("codec.commands", int64(n))
			if viaFile {
				ctx.Count("codec.commands_via_aofwriter", int64(n))
			}
			ctx.Sample("roundtrip", 1, map[string]any{"name": cmds[0].name, "args": c03ArgsHex(cmds[0].args)})
		})

		// ---- vector text codec: classes -----------------------------------------------
		ctx.Group("vector", ctx.N(200, 3000), func(cs *vkit.Case) {
			r := cs.R
			for k := 0; k < 100; k++ {
				dim := r.Range(1, 48)
				if r.Chance(0.03) {
					dim = 1536
				}
				v := make([]float32, dim)
				hasNaN := false
				classes := 0
				for i := range v {
					bits, cl := c03FloatBits(r)
					classes |= 1 << cl
					v[i] = math.Float32frombits(bits)
					if v[i] != v[i] {
						hasNaN = true
					}
				}
				cs.Op("vector dim=%d classes=%b first=%08x", dim, classes, math.Float32bits(v[0]))
				if msg := c03CheckHex(v); msg != "" {
					cs.Attach("vector_bits", c03Bits(v))
					cs.Fail("hex vector codec: %s", msg)
				}
				ctx.Count("vector.hex", 1)
				if hasNaN { // the decimal form is only required to carry non-NaN values
					for i := range v {
						for v[i] != v[i] {
							bits, _ := c03FloatBits(r)
							v[i] = math.Float32frombits(bits)
						}
					}
				}
				form := r.Intn(5)
				if msg := c03CheckDecimal(v, form, r); msg != "" {
					cs.Attach("vector_bits", c03Bits(v))
					cs.Fail("legacy decimal vector form %d: %s", form, msg)
				}
				ctx.Count("vector.decimal", 1)
				ctx.Eval(1)
				ctx.Distinct(fmt.Sprintf("vec:%b:%v", classes, dim > 48))
			}
		})

		// ---- vector hex codec: sweep over the float32 bit patterns ----------------------
		// thorough: every one of the 2^32 patterns; quick: every 1024th (rotating offset).
		const sweepCases = 4096
		ctx.Group("hexsweep", sweepCases, func(cs *vkit.Case) {
			per := uint64(1) << 32 / sweepCases // 2^20 patterns per case
			base := uint64(cs.Idx) * per
			stride := uint64(1)
			if ctx.Quick() {
				stride = 1024
			}
			off := uint64(0)
			if stride > 1 {
				off = uint64(cs.R.Intn(int(stride)))
			}
			cs.Op("hex sweep bits %08x.. stride %d offset %d", base, stride, off)
			const chunk = 4096
			v := make([]float32, 0, chunk)
			flush := func() {
				if len(v) == 0 {
					return
				}
				if msg := c03CheckHex(v); msg != "" {
					cs.Fail("hex vector codec (sweep from %08x): %s", math.Float32bits(v[0]), msg)
				}
				ctx.Count("vector.sweep_patterns", int64(len(v)))
				v = v[:0]
			}
			for b := base + off; b < base+per; b += stride {
				v = append(v, math.Float32frombits(uint32(b)))
				if len(v) == chunk {
					flush()
				}
			}
			flush()
			ctx.Eval(1)
			if !ctx.Quick() {
				ctx.Count("vector.sweep_exhaustive_cases", 1)
			}
		})
	})
}

func c03ArgsHex(args [][]byte) []any {
	out := make([]any, len(args))
	for i, a := range args {
		if a == nil {
			out[i] = nil
		} else if len(a) > 512 {
			out[i] = hex.EncodeToString(a[:512]) + fmt.Sprintf("…(%d bytes)", len(a))
		} else {
			out[i] = hex.EncodeToString(a)
		}
	}
	return out
}

func c03Bits(v []float32) []string {
	out := make([]string, 0, len(v))
	for i, f := range v {
		if i >= 64 {
			break
		}
		out = append(out, fmt.Sprintf("%08x", math.Float32bits(f)))
	}
	return out
}

// c03FloatBits draws a float32 bit pattern from all classes.
func c03FloatBits(r *vkit.Rand) (uint32, int) {
	sign := uint32(r.Intn(2)) << 31
	switch r.Intn(10) {
	case 0: // ±0
		return sign, 0
	case 1: // denormals
		m := uint32(r.Intn(1<<23-1)) + 1
		switch r.Intn(4) {
		case 0:
			m = 1
		case 1:
			m = 1<<23 - 1
		}
		return sign | m, 1
	case 2: // ±Inf
		return sign | 0x7F800000, 2
	case 3: // NaN payloads (quiet and signalling)
		m := uint32(r.Intn(1<<23-1)) + 1
		switch r.Intn(4) {
		case 0:
			m = 1
		case 1:
			m = 1 << 22
		case 2:
			m = 1<<23 - 1
		}
		return sign | 0x7F800000 | m, 3
	case 4: // extremes of the normal range
		return sign | vkit.Pick(r, []uint32{0x00800000, 0x7F7FFFFF, 0x3F800000, 0x3F7FFFFF, 0x3F800001, 0x4B000000, 0x4B800000}), 4
	case 5, 6: // typical embedding components
		return math.Float32bits(r.F32()), 5
	default: // any pattern
		return r.Uint32(), 6
	}
}

func c03CheckHex(v []float32) string {
	s := float32SliceToHexString(v)
	got, err := parseVectorFromString(s)
	if err != nil {
		return fmt.Sprintf("parseVectorFromString rejects the encoder's output (dim %d): %v", len(v), err)
	}
	if len(got) != len(v) {
		return fmt.Sprintf("dimension changed: wrote %d, read %d", len(v), len(got))
	}
	for i := range v {
		if math.Float32bits(v[i]) != math.Float32bits(got[i]) {
			return fmt.Sprintf("component %d: wrote bits %08x, read bits %08x", i, math.Float32bits(v[i]), math.Float32bits(got[i]))
		}
	}
	return ""
}

func c03CheckDecimal(v []float32, form int, r *vkit.Rand) string {
	parts := make([]string, len(v))
	for i, f := range v {
		switch form {
		case 0:
			parts[i] = strconv.FormatFloat(float64(f), 'f', -1, 32)
		case 1:
			parts[i] = strconv.FormatFloat(float64(f), 'g', -1, 32)
		case 2:
			parts[i] = strconv.FormatFloat(float64(f), 'e', -1, 32)
		case 3:
			parts[i] = strconv.FormatFloat(float64(f), 'f', -1, 64)
		default:
			parts[i] = strconv.FormatFloat(float64(f), 'g', -1, 64)
		}
	}
	sep := " "
	if r.Chance(0.1) {
		sep = "  "
	}
	s := strings.Join(parts, sep)
	got, err := parseVectorFromString(s)
	if err != nil {
		return fmt.Sprintf("parseVectorFromString rejects %q: %v", c03Short([]byte(s)), err)
	}
	if len(got) != len(v) {
		return fmt.Sprintf("dimension changed: wrote %d, read %d", len(v), len(got))
	}
	for i := range v {
		if math.Float32bits(v[i]) != math.Float32bits(got[i]) {
			return fmt.Sprintf("component %d (%s): wrote bits %08x, read bits %08x", i, parts[i], math.Float32bits(v[i]), math.Float32bits(got[i]))
		}
	}
	return ""
}

// ---------------------------------------------------------------------------------------
// part 2: corruption

// TestVerifC03H carries the helpers that call into the product (Open, the AOF writer,
// runtime.ReadMemStats). Its name makes their stack frames recognisable as harness frames
// (".TestVerif") for the vkit watchdog, which would otherwise take a helper of this
// white-box file (package engine) that waits in ReadMemStats on a starved machine for a
// product goroutine blocked on a lock.
type TestVerifC03H struct{}

var c03H TestVerifC03H

const (
	c03KSet    = 0
	c03KLink   = 1
	c03KFiller = 2 // a genuinely appended record that replay gives no effect (unknown name)
	c03KBadNum = 3 // GLINK/GUNLINK whose numeric field is not a number: replay skips it (finding D-C03-1)
)

type c03Frame struct {
	kind       int
	start, end int // byte range in the undamaged file
	payload    []byte
	// SET
	key string
	val []byte
	// GLINK
	src, tgt, rel, inv string
	weight             float32
	props              []byte
	ts                 int64
	desc               string
}

type c03Log struct {
	frames []c03Frame
	base   []byte
	// expectations derived from the frames
	keyFrames  map[string][]int // key -> frames that SET it, in order
	tsFrame    map[int64]int    // GLINK timestamp -> frame
	listFrames map[[2]string]bool
}

type c03LogOpts struct {
	minCmds, maxCmds int
	maxBytes         int     // 0 = unlimited
	bigValues        bool    // some values long enough to push the file over the 8 KB resync chunk
	badNumeric       bool    // include GLINK/GUNLINK records with a non-numeric field
	longP            float64 // probability that a SET value / filler argument is long: 64..longMax bytes, log-uniform
	longMax          int
	longMode         string // "" = drawn per value
}

// c03GenLog draws 6..30 self-identifying commands.
func c03GenLog(r *vkit.Rand, o c03LogOpts) []c03Frame {
	for {
		n := r.Range(o.minCmds, o.maxCmds)
		frames := make([]c03Frame, 0, n)
		var keys []string
		tsBase := int64(1_700_000_000_000_000_000) + int64(r.Intn(1_000_000))
		src := vkit.Pick(r, []string{"S", "idx::src", "node A"})
		rel := vkit.Pick(r, []string{"r", "rel_to", "R\r\n"})
		evolving := fmt.Sprintf("tE%d", r.Intn(100))
		pSet := 0.35 + 0.3*r.Float64()
		total := 0
		for i := 0; i < n; i++ {
			var f c03Frame
			x := r.Float64()
			switch {
			case o.badNumeric && x < 0.06:
				f.kind = c03KBadNum
				junk := string(c03Val(r, 12)) + "x"
				switch r.Intn(3) {
				case 0: // GLINK with an unparseable weight
					f.payload = []byte(persistence.FormatCommand("GLINK", []byte(""), []byte(src), []byte(fmt.Sprintf("bad%d", i)), []byte(rel), []byte(""), []byte(junk), c03Val(r, 200), []byte("17")))
				case 1: // GLINK with an unparseable timestamp
					f.payload = []byte(persistence.FormatCommand("GLINK", []byte(""), []byte(src), []byte(fmt.Sprintf("bad%d", i)), []byte(rel), []byte(""), []byte("1"), c03Val(r, 200), []byte(junk)))
				default: // GUNLINK with an unparseable timestamp
					f.payload = []byte(persistence.FormatCommand("GUNLINK", []byte(""), []byte(src), []byte(fmt.Sprintf("bad%d", i)), []byte(rel), []byte(""), []byte("false"), []byte(junk)))
				}
				f.desc = fmt.Sprintf("#%d skipped-numeric record (%d bytes)", i, len(f.payload))
			case x < 0.12:
				f.kind = c03KFiller
				c := c03Cmd{name: "X" + c03Name(r)} // never a name replay knows
				if len(c.name) > 20 {
					c.name = c.name[:20]
				}
				for k := r.Range(0, 8); k > 0; k-- {
					switch r.Intn(4) {
					case 0:
						c.args = append(c.args, nil)
					case 1:
						c.args = append(c.args, []byte{})
					default:
						c.args = append(c.args, c03Val(r, 40))
					}
				}
				if o.longP > 0 && r.Chance(o.longP) {
					c.args = append(c.args, c03LongVal(r, o))
				}
				f.payload = []byte(persistence.FormatCommand(c.name, c.args...))
				f.desc = fmt.Sprintf("#%d filler %q/%d args", i, c.name, len(c.args))
			case x < 0.12+pSet:
				f.kind = c03KSet
				if len(keys) > 0 && r.Chance(0.15) {
					f.key = vkit.Pick(r, keys) // overwritten key: makes application order observable in the KV store
				} else {
					f.key = fmt.Sprintf("k%d_%x", i, r.Intn(1<<16))
					if r.Chance(0.2) {
						f.key += string(c03Val(r, 6))
					}
					keys = append(keys, f.key)
				}
				m := 24
				if o.bigValues && r.Chance(0.12) {
					m = 6000
				}
				f.val = append([]byte(fmt.Sprintf("v%d:", i)), c03Val(r, m)...)
				if o.longP > 0 && r.Chance(o.longP) {
					f.val = append([]byte(fmt.Sprintf("v%d:", i)), c03LongVal(r, o)...)
				}
				f.payload = []byte(persistence.FormatCommand("SET", []byte(f.key), f.val))
				f.desc = fmt.Sprintf("#%d SET %q = %s", i, f.key, c03Short(f.val))
			default:
				f.kind = c03KLink
				f.src, f.rel = src, rel
				if r.Chance(0.25) {
					f.tgt = evolving // same target again with another weight: a new edge version
				} else {
					f.tgt = fmt.Sprintf("t%d", i)
				}
				if r.Chance(0.3) {
					f.inv = "inv"
				}
				f.weight = float32(i) + 0.5 // unique per frame
				if r.Chance(0.1) {
					f.weight = -f.weight / 3
				}
				if r.Chance(0.6) {
					f.props = []byte(fmt.Sprintf(`{"i":%d,"x":"%x"}`, i, r.Intn(1<<20)))
				}
				f.ts = tsBase + int64(i)*1000 + int64(r.Intn(900))
				idx := vkit.Pick(r, []string{"", "idx"})
				f.payload = []byte(persistence.FormatCommand("GLINK", []byte(idx), []byte(f.src), []byte(f.tgt), []byte(f.rel), []byte(f.inv),
					[]byte(strconv.FormatFloat(float64(f.weight), 'f', -1, 32)), f.props, []byte(strconv.FormatInt(f.ts, 10))))
				f.desc = fmt.Sprintf("#%d GLINK %q -[%q/%q]-> %q w=%v props=%s ts=%d", i, f.src, f.rel, f.inv, f.tgt, f.weight, c03Short(f.props), f.ts)
			}
			total += persistence.HeaderSize + len(f.payload)
			frames = append(frames, f)
		}
		if o.maxBytes > 0 && total > o.maxBytes {
			continue
		}
		return frames
	}
}

func c03LongVal(r *vkit.Rand, o c03LogOpts) []byte {
	mode := o.longMode
	if mode == "" {
		mode = vkit.Pick(r, c03LongModes)
	}
	return c03LongBytes(r, c03LogUniform(r, 64, o.longMax), mode)
}

// c03WriteLog writes the frames with the real AOF writer and records the frame boundaries
// as observed on the file.
func (TestVerifC03H) writeLog(cs *vkit.Case, frames []c03Frame) *c03Log {
	path := filepath.Join(cs.TempDir(), "base.aof")
	os.Remove(path)
	w, err := persistence.NewAOFWriter(path, 0)
	if err != nil {
		cs.Fail("NewAOFWriter: %v", err)
	}
	pos := 0
	for i := range frames {
		if err := w.Write(string(frames[i].payload)); err != nil {
			cs.Fail("AOFWriter.Write: %v", err)
		}
		if err := w.Flush(); err != nil {
			cs.Fail("AOFWriter.Flush: %v", err)
		}
		st, err := os.Stat(path)
		if err != nil {
			cs.Fail("stat: %v", err)
		}
		frames[i].start, frames[i].end = pos, int(st.Size())
		pos = int(st.Size())
		if frames[i].end-frames[i].start != persistence.HeaderSize+len(frames[i].payload) {
			cs.Fail("AOF writer produced a frame of %d bytes for a %d byte payload", frames[i].end-frames[i].start, len(frames[i].payload))
		}
	}
	if err := w.Close(); err != nil {
		cs.Fail("AOFWriter.Close: %v", err)
	}
	base, err := os.ReadFile(path)
	if err != nil {
		cs.Fail("read log: %v", err)
	}
	lg := &c03Log{frames: frames, base: base, keyFrames: map[string][]int{}, tsFrame: map[int64]int{}, listFrames: map[[2]string]bool{}}
	for i, f := range frames {
		switch f.kind {
		case c03KSet:
			lg.keyFrames[f.key] = append(lg.keyFrames[f.key], i)
		case c03KLink:
			lg.tsFrame[f.ts] = i
			lg.listFrames[[2]string{f.src, f.rel}] = true
			if f.inv != "" {
				lg.listFrames[[2]string{f.tgt, f.inv}] = true
			}
		}
	}
	return lg
}

// ---- damage ---------------------------------------------------------------------------

type c03Dmg struct {
	data      []byte
	orig      []int32 // for every byte of the damaged file: its offset in the undamaged file, -1 = not an original byte
	desc      []string
	kinds     []string
	classes   []string
	firstOrig int // smallest original offset at which damage happened
	changed   bool
}

func c03NewDmg(base []byte) *c03Dmg {
	d := &c03Dmg{data: append([]byte(nil), base...), orig: make([]int32, len(base)), firstOrig: len(base) + 1}
	for i := range d.orig {
		d.orig[i] = int32(i)
	}
	return d
}

// origAt maps an index of the current buffer to the original offset it stands at
// (for inserted bytes: the next original byte after it).
func (d *c03Dmg) origAt(i int, baseLen int) int {
	for ; i < len(d.orig); i++ {
		if d.orig[i] >= 0 {
			return int(d.orig[i])
		}
	}
	return baseLen
}

// indexOfOrig maps an original offset to the current index of that byte (or of the first
// surviving byte after it).
func (d *c03Dmg) indexOfOrig(o int) int {
	for i, x := range d.orig {
		if int(x) >= o {
			return i
		}
	}
	return len(d.orig)
}

func (d *c03Dmg) note(baseLen, i int) {
	if o := d.origAt(i, baseLen); o < d.firstOrig {
		d.firstOrig = o
	}
}

func (d *c03Dmg) set(i int, v byte, baseLen int) {
	if i < 0 || i >= len(d.data) || d.data[i] == v {
		return
	}
	d.note(baseLen, i)
	d.data[i] = v
	d.orig[i] = -1
	d.changed = true
}

func (d *c03Dmg) overwrite(i int, g []byte, baseLen int) {
	for k, b := range g {
		d.set(i+k, b, baseLen)
	}
}

func (d *c03Dmg) del(i, n, baseLen int) {
	if i < 0 || i >= len(d.data) || n <= 0 {
		return
	}
	if i+n > len(d.data) {
		n = len(d.data) - i
	}
	d.note(baseLen, i)
	d.data = append(d.data[:i:i], d.data[i+n:]...)
	d.orig = append(d.orig[:i:i], d.orig[i+n:]...)
	d.changed = true
}

func (d *c03Dmg) insert(i int, g []byte, baseLen int) {
	if i < 0 || i > len(d.data) || len(g) == 0 {
		return
	}
	d.note(baseLen, i)
	nd := make([]byte, 0, len(d.data)+len(g))
	nd = append(append(append(nd, d.data[:i]...), g...), d.data[i:]...)
	no := make([]int32, 0, len(d.orig)+len(g))
	no = append(no, d.orig[:i]...)
	for range g {
		no = append(no, -1)
	}
	no = append(no, d.orig[i:]...)
	d.data, d.orig = nd, no
	d.changed = true
}

func (d *c03Dmg) truncate(i, baseLen int) {
	if i < 0 || i >= len(d.data) {
		return
	}
	d.note(baseLen, i)
	d.data, d.orig = d.data[:i], d.orig[:i]
	d.changed = true
}

// c03Header builds a plausible frame header.
func c03Header(length, crc uint32, op byte) []byte {
	h := make([]byte, persistence.HeaderSize)
	h[0] = persistence.MagicByte
	h[1] = op
	binary.LittleEndian.PutUint32(h[2:6], length)
	binary.LittleEndian.PutUint32(h[6:10], crc)
	return h
}

// c03Garbage returns n.. bytes of inserted/overwriting garbage biased to contain the magic
// byte and plausible headers. It never contains a complete well-formed frame (valid checksum
// AND parseable command): frames with a valid checksum are only produced around payloads that
// ParseCommand rejects. heavy = allow length fields close to the 1 GB cap.
func c03Garbage(r *vkit.Rand, n int, heavy bool) []byte {
	// Every 0xA5 that recovery meets while resynchronising is tried as a header and the
	// announced length (up to 1 GB) is allocated and zeroed before the checksum is looked at.
	// To keep the run affordable most garbage is drawn so that its magic bytes announce either
	// a small or an over-the-cap length (rejection sampling on c03Cost, and five letters at the
	// end so that the verdict does not depend on the bytes that follow); one in eight pieces
	// of garbage is left as it comes.
	if heavy || r.Chance(0.125) {
		return c03GarbageRaw(r, n, heavy)
	}
	for {
		g := c03GarbageRaw(r, n, false)
		for i := 0; i < 5; i++ {
			g = append(g, byte('A'+r.Intn(26)))
		}
		if c03Cost(g) == 0 {
			return g
		}
	}
}

// c03Cost counts the magic bytes of b that announce a payload between 1 MiB and the cap
// (the candidates that are expensive for resync), magic bytes too close to the end included.
func c03Cost(b []byte) int {
	n := 0
	for i, c := range b {
		if c != persistence.MagicByte {
			continue
		}
		if i+6 > len(b) {
			n++
			continue
		}
		if l := binary.LittleEndian.Uint32(b[i+2 : i+6]); l > 1<<20 && l <= persistence.MaxPayloadSize {
			n++
		}
	}
	return n
}

func c03GarbageRaw(r *vkit.Rand, n int, heavy bool) []byte {
	var g []byte
	for len(g) < n {
		switch r.Intn(8) {
		case 0:
			g = append(g, r.Bytes(r.Range(1, 16))...)
		case 1:
			g = append(g, bytes.Repeat([]byte{0xA5}, r.Range(1, 12))...)
		case 2: // header with an arbitrary length and checksum
			lengths := []uint32{0, 1, 7, 40, 300, 65536, 1 << 20, 1 << 24, 0x40000001, 0x80000000, 0xFFFFFFFF, 0xA5A5A5A5}
			if heavy {
				lengths = append(lengths, 0x10000000, 0x3FFFFFFF, 0x40000000)
			}
			g = append(g, c03Header(vkit.Pick(r, lengths), r.Uint32(), byte(r.Intn(3)))...)
		case 3: // header followed by something that looks like a command, wrong checksum
			p := []byte(persistence.FormatCommand("SET", []byte(fmt.Sprintf("forged%d", r.Intn(1000))), []byte("forged")))
			// wrong in one bit of EACH checksum byte: a damage of one bit / one byte / one short
			// range of the test cannot turn it into the valid checksum (a single wrong bit could be
			// flipped back by a bit-flip damage, which would make the harness append a frame itself)
			crc := crc32.ChecksumIEEE(p) ^ (0x01010101 << uint(r.Intn(8)))
			g = append(g, c03Header(uint32(len(p)), crc, 1)...)
			g = append(g, p...)
		case 4: // checksum-valid frame around a payload that is not a command
			var p []byte
			for tries := 0; ; tries++ {
				switch r.Intn(4) {
				case 0:
					p = []byte{}
				case 1:
					p = r.Bytes(r.Range(1, 20))
				case 2:
					p = []byte("*2\r\n$3\r\nSET\r\n") // announces more arguments than it carries
				default:
					p = []byte("*1\r\n$9\r\nSET\r\n")
				}
				if _, err := persistence.ParseCommand(bufio.NewReader(bytes.NewReader(p))); err != nil {
					break
				}
			}
			g = append(g, c03Header(uint32(len(p)), crc32.ChecksumIEEE(p), 1)...)
			g = append(g, p...)
		case 5:
			g = append(g, vkit.Pick(r, c03Fragments)...)
		case 6: // truncated header
			g = append(g, c03Header(uint32(r.Intn(200)), r.Uint32(), 1)[:r.Range(1, 9)]...)
		default:
			g = append(g, c03Bytes(r, 24)...)
		}
	}
	return g
}

var c03Classes = []string{"magic", "opcode", "len0", "len1", "len2", "len3", "crc0", "crc1", "crc2", "crc3", "payload_start", "payload_mid", "payload_end", "boundary"}

// c03ClassPos returns the original offset of a position class of frame f.
func c03ClassPos(f c03Frame, class string, r *vkit.Rand) int {
	plen := f.end - f.start - persistence.HeaderSize
	switch class {
	case "magic", "boundary":
		return f.start
	case "opcode":
		return f.start + 1
	case "len0", "len1", "len2", "len3":
		return f.start + 2 + int(class[3]-'0')
	case "crc0", "crc1", "crc2", "crc3":
		return f.start + 6 + int(class[3]-'0')
	case "payload_start":
		return f.start + persistence.HeaderSize
	case "payload_end":
		return f.end - 1
	default:
		if plen <= 2 {
			return f.start + persistence.HeaderSize
		}
		return f.start + persistence.HeaderSize + 1 + r.Intn(plen-2)
	}
}

// c03ClassOf names the position class of an original offset.
func c03ClassOf(lg *c03Log, o int) (int, string) {
	for i, f := range lg.frames {
		if o >= f.start && o < f.end {
			k := o - f.start
			switch {
			case k < persistence.HeaderSize:
				return i, c03Classes[k]
			case k == persistence.HeaderSize:
				return i, "payload_start"
			case o == f.end-1:
				return i, "payload_end"
			default:
				return i, "payload_mid"
			}
		}
	}
	return len(lg.frames), "eof"
}

var c03Kinds = []string{"flip", "setA5", "overwrite", "delete", "insert", "truncate"}

// random multi-damage draws setA5 less often: a fresh magic byte in front of RESP text makes
// recovery allocate and zero several hundred MB (see c03Garbage).
var c03KindsRandom = []string{"flip", "flip", "overwrite", "overwrite", "delete", "delete", "insert", "insert", "truncate", "setA5"}

// c03ApplyDamage applies one damage of the given kind at the given position class of frame fi.
func c03ApplyDamage(r *vkit.Rand, lg *c03Log, d *c03Dmg, kind, class string, fi int, heavy bool) {
	f := lg.frames[fi]
	o := c03ClassPos(f, class, r)
	i := d.indexOfOrig(o)
	bl := len(lg.base)
	switch kind {
	case "flip":
		if i < len(d.data) {
			bit := uint(r.Intn(8))
			d.set(i, d.data[i]^(1<<bit), bl)
			d.desc = append(d.desc, fmt.Sprintf("flip bit %d of byte %d (frame %d %s)", bit, i, fi, class))
		}
	case "setA5":
		d.set(i, 0xA5, bl)
		d.desc = append(d.desc, fmt.Sprintf("set byte %d to 0xA5 (frame %d %s)", i, fi, class))
	case "overwrite":
		n := r.Range(1, 40)
		if r.Chance(0.1) {
			n = r.Range(41, 400)
		}
		g := c03Garbage(r, n, heavy)
		d.overwrite(i, g, bl)
		d.desc = append(d.desc, fmt.Sprintf("overwrite %d bytes at %d (frame %d %s) with %x", len(g), i, fi, class, c03Clip(g)))
	case "delete":
		n := r.Range(1, 30)
		switch r.Intn(5) {
		case 0: // exactly up to the same class position of the next frame (keeps a header shape)
			if fi+1 < len(lg.frames) {
				n = lg.frames[fi+1].start - f.start
			}
		case 1:
			n = r.Range(31, 300)
		case 2: // whole frames
			if class == "boundary" {
				n = f.end - f.start
			}
		}
		d.del(i, n, bl)
		d.desc = append(d.desc, fmt.Sprintf("delete %d bytes at %d (frame %d %s)", n, i, fi, class))
	case "insert":
		n := r.Range(1, 60)
		g := c03Garbage(r, n, heavy)
		d.insert(i, g, bl)
		d.desc = append(d.desc, fmt.Sprintf("insert %d bytes at %d (frame %d %s): %x", len(g), i, fi, class, c03Clip(g)))
	case "truncate":
		d.truncate(i, bl)
		d.desc = append(d.desc, fmt.Sprintf("truncate at %d (frame %d %s)", i, fi, class))
	}
	d.kinds = append(d.kinds, kind)
	d.classes = append(d.classes, class)
}

func c03Clip(b []byte) []byte {
	if len(b) > 96 {
		return b[:96]
	}
	return b
}

// ---- observation and oracle -------------------------------------------------------------

type c03Judge struct {
	intact      []bool
	nIntact     int
	intactAfter int // intact frames that lie after the first damaged byte
	a5          int // 0xA5 bytes of the damaged file outside intact frames
}

func c03Analyse(lg *c03Log, d *c03Dmg) c03Judge {
	j := c03Judge{intact: make([]bool, len(lg.frames))}
	pos := make([]int32, len(lg.base))
	for i := range pos {
		pos[i] = -1
	}
	for p, o := range d.orig {
		if o >= 0 {
			pos[o] = int32(p)
		}
	}
	covered := make([]bool, len(d.data))
	for fi, f := range lg.frames {
		p0 := pos[f.start]
		ok := p0 >= 0
		for o := f.start; ok && o < f.end; o++ {
			if pos[o] != p0+int32(o-f.start) {
				ok = false
			}
		}
		if ok {
			j.intact[fi] = true
			j.nIntact++
			if f.start >= d.firstOrig {
				j.intactAfter++
			}
			for p := int(p0); p < int(p0)+f.end-f.start; p++ {
				covered[p] = true
			}
		}
	}
	for p, b := range d.data {
		if b == persistence.MagicByte && !covered[p] {
			j.a5++
		}
	}
	return j
}

type c03Version struct {
	target           string
	created, deleted int64
	weight           float32
	props            []byte
}

const c03GiB = uint64(1) << 30

// safeOpen calls engine.Open and turns a panic into a message (item (1) of the oracle), so that
// the witness carries the log, the damage and the stack instead of the bare panic.
func (TestVerifC03H) safeOpen(opts Options) (e *Engine, err error, panicked string) {
	defer func() {
		if p := recover(); p != nil {
			panicked = fmt.Sprintf("%v\n%s", p, debug.Stack())
		}
	}()
	e, err = Open(opts)
	return
}

// c03OpenAndJudge writes the damaged file, opens the engine on it and applies the oracle.
// It returns "" or the description of the violation, plus what happened. With restart the
// engine is closed and opened a second time on what the first recovery left behind, and the
// same oracle is applied again (the damaged bytes are still in the file; recovery itself must
// not have cut or rewritten anything that makes an untouched frame unreachable).
func (TestVerifC03H) openAndJudge(ctx *vkit.Ctx, cs *vkit.Case, dir string, lg *c03Log, d *c03Dmg, j c03Judge, restart ...bool) (string, string) {
	aof := filepath.Join(dir, "kektordb.aof")
	if err := os.WriteFile(aof, d.data, 0o644); err != nil {
		cs.Fail("write damaged log: %v", err)
	}
	opts := DefaultOptions(dir)
	opts.AutoSaveInterval = 0
	opts.AutoSaveThreshold = 0
	opts.AofRewritePercentage = 0

	starts := 1
	if len(restart) > 0 && restart[0] {
		starts = 2
	}
	what := "opened"
	for s := 1; s <= starts; s++ {
		pre := ""
		if s == 2 {
			pre = "second start on the log as the first recovery left it: "
			ctx.Count("corrupt.second_starts", 1)
		}
		var m0, m1 runtime.MemStats
		runtime.ReadMemStats(&m0)
		e, err, panicked := c03H.safeOpen(opts) // (1) no panic; a hang is caught by the watchdog
		runtime.ReadMemStats(&m1)
		if panicked != "" {
			return pre + "engine.Open panicked on the damaged log: " + panicked, "panic"
		}

		// (6) bounded allocation
		alloc := m1.TotalAlloc - m0.TotalAlloc
		bound := c03GiB*uint64(j.a5+1) + 64<<20
		if alloc > bound {
			if e != nil {
				e.Close()
			}
			return fmt.Sprintf("%sOpen allocated %d bytes; bound is 1 GiB x (%d magic bytes in damaged regions + 1) + 64 MiB = %d", pre, alloc, j.a5, bound), "alloc"
		}
		if alloc > 16<<20 {
			ctx.Count("corrupt.opens_allocating_over_16MiB", 1)
		}

		// (5) refusal to start
		if err != nil {
			if s == 1 && len(d.data) > 0 && d.data[0] != persistence.MagicByte {
				return "", "refused"
			}
			first := "empty file"
			if len(d.data) > 0 {
				first = fmt.Sprintf("first byte %#x", d.data[0])
			}
			return fmt.Sprintf("%sOpen refused to start (%v) although the file begins with a valid frame marker (%s)", pre, err, first), "refused"
		}
		msg := c03JudgeState(e, lg, j)
		e.Close()
		if msg != "" {
			return pre + msg, what
		}
	}
	return "", what
}

// c03JudgeState reads the recovered state back and applies items (2)-(4) of the oracle.
func c03JudgeState(e *Engine, lg *c03Log, j c03Judge) string {
	msg, _ := c03JudgeState2(e, lg, j)
	return msg
}

func c03JudgeState2(e *Engine, lg *c03Log, j c03Judge) (string, string) {
	// ---- read the state back
	kv := map[string][]byte{}
	e.DB.IterateKV(func(p core.KVPair) { kv[p.Key] = p.Value })
	lists := map[[2]string][]c03Version{}
	var listOrder [][2]string
	e.DB.IterateGraphEdges(func(source, target, rel string, weight float32, props []byte, cTime, dTime int64) {
		k := [2]string{source, rel}
		if _, ok := lists[k]; !ok {
			listOrder = append(listOrder, k)
		}
		lists[k] = append(lists[k], c03Version{target, cTime, dTime, weight, append([]byte(nil), props...)})
	})
	if idx := e.ListIndexes(); len(idx) != 0 {
		return fmt.Sprintf("fabricated: vector indexes %q exist after recovery; the log never created one", idx), "opened"
	}

	// (2)+(4) key/value store
	for k, v := range kv {
		fs, ok := lg.keyFrames[k]
		if !ok {
			return fmt.Sprintf("fabricated: key %q (value %s) exists after recovery but was never appended", k, c03Short(v)), "opened"
		}
		at := -1
		for _, fi := range fs {
			if bytes.Equal(lg.frames[fi].val, v) {
				at = fi
			}
		}
		if at < 0 {
			return fmt.Sprintf("garbled: key %q holds %s which no appended SET wrote (appended: %s)", k, c03Short(v), c03Short(lg.frames[fs[0]].val)), "opened"
		}
		for _, fi := range fs {
			if fi > at && j.intact[fi] {
				return fmt.Sprintf("order/loss: key %q holds the value of frame %d although the untouched later frame %d (%s) sets it again", k, at, fi, lg.frames[fi].desc), "opened"
			}
		}
	}
	for k, fs := range lg.keyFrames {
		if _, ok := kv[k]; ok {
			continue
		}
		for _, fi := range fs {
			if j.intact[fi] {
				return fmt.Sprintf("lost: untouched frame %d (%s, bytes %d..%d of the undamaged file) was not applied: key %q is absent", fi, lg.frames[fi].desc, lg.frames[fi].start, lg.frames[fi].end, k), "opened"
			}
		}
	}

	// (2)+(3)+(4) edges
	seenFwd := map[int]bool{}
	seenInv := map[int]bool{}
	for _, lk := range listOrder {
		vs := lists[lk]
		if !lg.listFrames[lk] {
			if len(vs) == 0 {
				continue
			}
			return fmt.Sprintf("fabricated: edge list (%q,%q) with %d entries (first target %q) was never appended", lk[0], lk[1], len(vs), vs[0].target), "opened"
		}
		prev := -1
		lastOfTarget := map[string]int{}
		for vi, v := range vs {
			fi, ok := lg.tsFrame[v.created]
			if !ok {
				return fmt.Sprintf("fabricated/garbled: edge (%q,%q)->%q has creation time %d which no appended GLINK carries", lk[0], lk[1], v.target, v.created), "opened"
			}
			f := lg.frames[fi]
			var wantTarget string
			switch {
			case lk == [2]string{f.src, f.rel}:
				wantTarget = f.tgt
				if seenFwd[fi] {
					return fmt.Sprintf("re-applied: frame %d (%s) appears twice in edge list (%q,%q)", fi, f.desc, lk[0], lk[1]), "opened"
				}
				seenFwd[fi] = true
			case f.inv != "" && lk == [2]string{f.tgt, f.inv}:
				wantTarget = f.src
				if seenInv[fi] {
					return fmt.Sprintf("re-applied: frame %d (%s) appears twice in inverse edge list (%q,%q)", fi, f.desc, lk[0], lk[1]), "opened"
				}
				seenInv[fi] = true
			default:
				return fmt.Sprintf("garbled: edge of frame %d (%s) shows up in list (%q,%q)", fi, f.desc, lk[0], lk[1]), "opened"
			}
			if v.target != wantTarget || math.Float32bits(v.weight) != math.Float32bits(f.weight) || !bytes.Equal(v.props, f.props) {
				return fmt.Sprintf("garbled: edge of frame %d (%s) recovered as target=%q weight=%v props=%s", fi, f.desc, v.target, v.weight, c03Short(v.props)), "opened"
			}
			if fi <= prev {
				return fmt.Sprintf("order: edge list (%q,%q) holds the edge of frame %d after the edge of frame %d; appended order was the opposite", lk[0], lk[1], fi, prev), "opened"
			}
			prev = fi
			if pv, ok := lastOfTarget[v.target]; ok {
				if vs[pv].deleted != v.created {
					return fmt.Sprintf("garbled history: version of frame %d for target %q closed at %d, next applied version was created at %d", lg.tsFrame[vs[pv].created], v.target, vs[pv].deleted, v.created), "opened"
				}
			}
			lastOfTarget[v.target] = vi
		}
		var active []c03Version
		for t, vi := range lastOfTarget {
			if vs[vi].deleted != 0 {
				return fmt.Sprintf("garbled history: newest version for target %q in (%q,%q) is marked deleted at %d; no unlink was appended", t, lk[0], lk[1], vs[vi].deleted), "opened"
			}
		}
		for _, v := range vs {
			if v.deleted == 0 {
				active = append(active, v)
			}
		}
		// the API view agrees with the full enumeration, in the same order
		got, _ := e.DB.GetOutEdges(lk[0], lk[1], 0)
		if len(got) != len(active) {
			return fmt.Sprintf("GetOutEdges(%q,%q) returns %d edges, enumeration has %d active", lk[0], lk[1], len(got), len(active)), "opened"
		}
		for i := range got {
			if got[i].TargetID != active[i].target || got[i].CreatedAt != active[i].created {
				return fmt.Sprintf("order: GetOutEdges(%q,%q)[%d] = %q@%d, enumeration has %q@%d", lk[0], lk[1], i, got[i].TargetID, got[i].CreatedAt, active[i].target, active[i].created), "opened"
			}
		}
	}
	for fi, f := range lg.frames {
		if f.kind != c03KLink {
			continue
		}
		if j.intact[fi] && !seenFwd[fi] {
			return fmt.Sprintf("lost: untouched frame %d (%s, bytes %d..%d of the undamaged file) was not applied: edge absent", fi, f.desc, f.start, f.end), "opened"
		}
		if f.inv != "" && seenFwd[fi] != seenInv[fi] {
			return fmt.Sprintf("garbled: frame %d (%s) applied in one direction only (forward=%v inverse=%v)", fi, f.desc, seenFwd[fi], seenInv[fi]), "opened"
		}
	}
	return "", "opened"
}

// c03Run evaluates one damaged log and does the bookkeeping.
func (TestVerifC03H) run(ctx *vkit.Ctx, cs *vkit.Case, dir string, lg *c03Log, d *c03Dmg, group string) c03Judge {
	if !d.changed {
		ctx.Count("corrupt.noop_damage_skipped", 1)
		return c03Judge{}
	}
	j := c03Analyse(lg, d)
	// every fourth damaged log of the older groups, and every one of the long-log groups, is
	// started twice (a function of the damage, not of a counter: replays take the same path)
	restart := group == "longscan" || group == "scanedge" || (len(d.data)+d.firstOrig)%4 == 0
	cs.Op("%s: %s | file %d->%d bytes, intact %d/%d, intact after damage %d", group, strings.Join(d.desc, "; "), len(lg.base), len(d.data), j.nIntact, len(lg.frames), j.intactAfter)
	msg, what := c03H.openAndJudge(ctx, cs, dir, lg, d, j, restart)
	if msg != "" {
		var fr []string
		for i, f := range lg.frames {
			fr = append(fr, fmt.Sprintf("[%d..%d) intact=%v %s", f.start, f.end, j.intact[i], f.desc))
		}
		cs.Attach("frames", fr)
		cs.Attach("damage", d.desc)
		cs.Attach("original_log_hex", hex.EncodeToString(c03ClipN(lg.base, 16384)))
		cs.Attach("damaged_log_hex", hex.EncodeToString(c03ClipN(d.data, 16384)))
		cs.Fail("%s", msg)
	}
	ctx.Eval(1)
	ctx.Count("corrupt.damaged_logs", 1)
	ctx.Count("corrupt.open_"+what, 1)
	ctx.Count("corrupt.intact_frames_required", int64(j.nIntact))
	ctx.Count("corrupt.intact_frames_after_damage_required", int64(j.intactAfter))
	for i, k := range d.kinds {
		ctx.Count("corrupt.kind."+k, 1)
		ctx.Count("corrupt.class."+d.classes[i], 1)
	}
	if j.intactAfter > 0 || what == "refused" {
		fb := "mid"
		fi, _ := c03ClassOf(lg, d.firstOrig)
		if fi == 0 {
			fb = "first"
		} else if fi >= len(lg.frames)-1 {
			fb = "last"
		}
		ctx.Distinct(fmt.Sprintf("%s|%s|%s|%s|%d", what, strings.Join(d.kinds, "+"), strings.Join(d.classes, "+"), fb, len(lg.frames)))
	}
	return j
}

func c03ClipN(b []byte, n int) []byte {
	if len(b) > n {
		return b[:n]
	}
	return b
}

func c03DataDir(cs *vkit.Case) string { return cs.SubDir("data") }

func TestVerifC03Corrupt(t *testing.T) {
	vkit.Run(t, "C03", func(ctx *vkit.Ctx) {
		ctx.Assume("no generated argument, and no inserted garbage, contains a complete well-formed frame (valid checksum and parseable command)")
		ctx.Assume("a frame counts as untouched only if all its bytes survive contiguously; an identical-value overwrite is not damage")
		ctx.Assume("application order is observed through the order of DB.IterateGraphEdges/GetOutEdges per (source, relation) and through overwritten KV keys")

		c03Probes(ctx)
		badNumeric := !ctx.IsKnown("D-C03-1")

		// ---- sampled position classes + random multi-damage ------------------------------
		const perLog = 25
		ctx.Group("sampled", ctx.N(120, 500), func(cs *vkit.Case) {
			r := cs.R
			frames := c03GenLog(r, c03LogOpts{minCmds: 6, maxCmds: 30, bigValues: r.Chance(0.25), badNumeric: badNumeric})
			lg := c03H.writeLog(cs, frames)
			dir := c03DataDir(cs)
			ctx.Sample("log", 1, map[string]any{"frames": c03Descs(lg), "bytes": len(lg.base)})
			for k := 0; k < perLog; k++ {
				d := c03NewDmg(lg.base)
				nd := 1
				if k >= 10 {
					nd = r.Range(1, 4)
				}
				heavy := r.Chance(0.01)
				for x := 0; x < nd; x++ {
					// the first 10 patterns of a log walk the classes systematically, the rest is random
					class := vkit.Pick(r, c03Classes)
					kind := vkit.Pick(r, c03KindsRandom)
					if k < 10 {
						class = c03Classes[(cs.Idx*10+k)%len(c03Classes)]
						kind = c03Kinds[(cs.Idx*10+k)/len(c03Classes)%len(c03Kinds)]
					}
					if kind == "truncate" && nd > 1 && x < nd-1 {
						kind = "delete"
					}
					c03ApplyDamage(r, lg, d, kind, class, r.Intn(len(lg.frames)), heavy)
				}
				c03H.run(ctx, cs, dir, lg, d, "sampled")
				if len(d.kinds) > 1 {
					ctx.Count("corrupt.multi_damage_logs", 1)
				}
			}
			ctx.Count("corrupt.logs", 1)
		})

		// ---- every byte x {flip bit 0, flip bit 7, set 0xA5} ------------------------------
		// thorough: every byte of logs <= 2 KB; quick: every 8th byte (rotating) of logs <= 450 bytes.
		ctx.Group("everybyte", ctx.N(12, 16), func(cs *vkit.Case) {
			r := cs.R
			maxBytes, stride := 2048, 1
			maxCmds := 30
			if ctx.Quick() {
				maxBytes, stride, maxCmds = 450, 8, 8
			}
			frames := c03GenLog(r, c03LogOpts{minCmds: 6, maxCmds: maxCmds, maxBytes: maxBytes, badNumeric: badNumeric})
			lg := c03H.writeLog(cs, frames)
			dir := c03DataDir(cs)
			bl := len(lg.base)
			ctx.Sample("log", 1, map[string]any{"frames": c03Descs(lg), "bytes": bl})
			for p := cs.Idx % stride; p < bl; p += stride {
				fi, class := c03ClassOf(lg, p)
				for m := 0; m < 3; m++ {
					d := c03NewDmg(lg.base)
					switch m {
					case 0:
						d.set(p, d.data[p]^0x01, bl)
						d.desc = append(d.desc, fmt.Sprintf("flip bit 0 of byte %d (frame %d %s)", p, fi, class))
						d.kinds = append(d.kinds, "flip0")
					case 1:
						d.set(p, d.data[p]^0x80, bl)
						d.desc = append(d.desc, fmt.Sprintf("flip bit 7 of byte %d (frame %d %s)", p, fi, class))
						d.kinds = append(d.kinds, "flip7")
					default:
						d.set(p, 0xA5, bl)
						d.desc = append(d.desc, fmt.Sprintf("set byte %d to 0xA5 (frame %d %s)", p, fi, class))
						d.kinds = append(d.kinds, "setA5")
					}
					d.classes = append(d.classes, class)
					c03H.run(ctx, cs, dir, lg, d, "everybyte")
				}
				ctx.Count("corrupt.everybyte_offsets", 1)
			}
			ctx.Count("corrupt.logs", 1)
			if stride == 1 {
				ctx.Count("corrupt.everybyte_exhaustive_logs", 1)
			}
		})

		// ---- truncation at every offset of a small log --------------------------------------
		ctx.Group("everycut", ctx.N(8, 16), func(cs *vkit.Case) {
			r := cs.R
			maxBytes, stride := 2048, 1
			if ctx.Quick() {
				maxBytes, stride = 700, 3
			}
			frames := c03GenLog(r, c03LogOpts{minCmds: 6, maxCmds: 14, maxBytes: maxBytes, badNumeric: badNumeric})
			lg := c03H.writeLog(cs, frames)
			dir := c03DataDir(cs)
			bl := len(lg.base)
			for p := cs.Idx % stride; p < bl; p += stride {
				fi, class := c03ClassOf(lg, p)
				d := c03NewDmg(lg.base)
				d.truncate(p, bl)
				d.desc = append(d.desc, fmt.Sprintf("truncate at %d (frame %d %s)", p, fi, class))
				d.kinds = append(d.kinds, "truncate")
				d.classes = append(d.classes, class)
				if fi+1 < len(lg.frames) && r.Chance(0.5) {
					// a later frame survives the cut (the tail got lost and writing resumed): only the middle is gone
					nf := lg.frames[fi+1+r.Intn(len(lg.frames)-fi-1)]
					d.data = append(d.data, lg.base[nf.start:]...)
					for o := nf.start; o < bl; o++ {
						d.orig = append(d.orig, int32(o))
					}
					d.desc = append(d.desc, fmt.Sprintf("…and keep original bytes from %d on", nf.start))
					d.kinds[0] = "delete"
				}
				c03H.run(ctx, cs, dir, lg, d, "everycut")
			}
			ctx.Count("corrupt.logs", 1)
		})

		// ---- long logs, long damaged regions ------------------------------------------------
		// Values and filler arguments of 64 B .. 48 KB (log-uniform) of arbitrary binary content
		// (random, magic byte sprinkled / in runs / nothing else, header-like, RESP text, zeros),
		// and damage whose extent is log-uniform up to 40 KB: the region recovery has to scan
		// over is longer than any buffer it reads into, and holds magic bytes at every phase.
		ctx.Group("longscan", ctx.N(48, 160), func(cs *vkit.Case) {
			r := cs.R
			o := c03LogOpts{minCmds: 5, maxCmds: 16, badNumeric: badNumeric, longP: 0.15 + 0.35*r.Float64(), longMax: 48 << 10}
			if r.Chance(0.3) {
				o.longMode = vkit.Pick(r, c03LongModes)
			}
			frames := c03GenLog(r, o)
			lg := c03H.writeLog(cs, frames)
			dir := c03DataDir(cs)
			ctx.Sample("longlog", 1, map[string]any{"frames": c03Descs(lg), "bytes": len(lg.base)})
			for k := 0; k < ctx.N(10, 16); k++ {
				d := c03NewDmg(lg.base)
				nd := vkit.Pick(r, []int{1, 1, 1, 2, 3})
				for x := 0; x < nd; x++ {
					c03ApplyLongDamage(r, lg, d, x == nd-1)
				}
				j := c03H.run(ctx, cs, dir, lg, d, "longscan")
				if d.changed {
					ctx.Count("corrupt.long_damaged_logs", 1)
					if span := c03DamagedSpan(lg, d, j); span > 8192 {
						ctx.Count("corrupt.long_damaged_span_over_8KiB", 1)
					}
				}
			}
			ctx.Count("corrupt.logs", 1)
		})

		// ---- the distance from the damage to the next untouched frame, swept ----------------
		// A damaged frame is followed by untouched ones; its size is chosen so that the next
		// untouched frame begins D bytes after the start of the damaged one (or at absolute file
		// offset D), for every D in a window around each multiple of 4 KiB (quick; thorough: of
		// 1 KiB) up to 32 KiB (64 KiB): wherever a block-wise scan draws its block boundaries, a
		// frame header straddles one, ends on one and begins on one. The damaged payload is
		// either free of magic bytes or dense with them.
		step, top, win := 4096, 32768, 8
		if !ctx.Quick() {
			step, top, win = 1024, 65536, 16
		}
		contents := []string{"letters", "runs", "sprinkled", "allmagic"}
		nEdge := (top / step) * 2
		ctx.Group("scanedge", nEdge, func(cs *vkit.Case) {
			r := cs.R
			P := (cs.Idx/2 + 1) * step
			content := "letters"
			if cs.Idx%2 == 1 {
				content = contents[1+(cs.Idx/2)%3]
			}
			// small frames around the victim
			nPre := r.Range(1, 3)
			if r.Chance(0.4) {
				nPre = 0 // the damaged frame is the first of the file: relative = absolute
			}
			// the frame right behind the victim must have an effect that nothing later hides
			// (a lost filler record or a lost SET of a key that is set again cannot be seen)
			var small []c03Frame
			for {
				small = c03GenLog(r, c03LogOpts{minCmds: 6, maxCmds: 10, badNumeric: badNumeric})
				if c03Observable(small, nPre) {
					break
				}
			}
			absolute := nPre > 0 && r.Chance(0.5)
			dir := c03DataDir(cs)
			for D := P - win; D <= P+win; D++ {
				frames := make([]c03Frame, 0, len(small)+1)
				frames = append(frames, small[:nPre]...)
				preBytes := 0
				for _, f := range frames {
					preBytes += persistence.HeaderSize + len(f.payload)
				}
				rel := D
				if absolute {
					rel = D - preBytes
				}
				victim, ok := c03VictimFrame(r, rel, content)
				if !ok {
					ctx.Count("corrupt.scanedge_unreachable_sizes", 1)
					continue
				}
				frames = append(frames, victim)
				frames = append(frames, small[nPre:]...)
				lg := c03H.writeLog(cs, frames)
				v := lg.frames[nPre]
				if v.end-v.start != rel {
					cs.Fail("harness: victim frame is %d bytes, wanted %d", v.end-v.start, rel)
				}
				d := c03NewDmg(lg.base)
				bl := len(lg.base)
				kinds := []string{"crc", "payload_end", "payload_mid", "len_up", "del1"}
				if nPre > 0 {
					kinds = append(kinds, "magic")
				}
				kind := vkit.Pick(r, kinds)
				shift := 0
				switch kind {
				case "crc":
					p := v.start + 6 + r.Intn(4)
					d.set(p, d.data[p]^(1<<uint(r.Intn(8))), bl)
					d.classes = append(d.classes, "crc")
				case "payload_end":
					d.set(v.end-1, d.data[v.end-1]^0x01, bl)
					d.classes = append(d.classes, "payload_end")
				case "payload_mid":
					p := v.start + persistence.HeaderSize + r.Intn(v.end-v.start-persistence.HeaderSize)
					d.set(p, d.data[p]^(1<<uint(r.Intn(8))), bl)
					d.classes = append(d.classes, "payload_mid")
				case "len_up": // the announced length reaches past the end of the file
					d.set(v.start+4, d.data[v.start+4]|0x80, bl)
					d.classes = append(d.classes, "len2")
				case "del1": // one byte lost: everything behind moves up by one
					d.del(v.start+persistence.HeaderSize+r.Intn(v.end-v.start-persistence.HeaderSize), 1, bl)
					d.classes = append(d.classes, "payload_mid")
					shift = -1
				default:
					d.set(v.start, 0x00, bl)
					d.classes = append(d.classes, "magic")
				}
				d.kinds = append(d.kinds, "edge_"+kind)
				d.desc = append(d.desc, fmt.Sprintf("%s damage to the %d byte frame %d at %d (%s content); next untouched frame begins %d bytes after it, at file offset %d", kind, rel, nPre, v.start, content, rel+shift, v.end+shift))
				j := c03H.run(ctx, cs, dir, lg, d, "scanedge")
				if d.changed && j.intactAfter > 0 {
					ctx.Count("corrupt.scanedge_distances", 1)
					ctx.Distinct(fmt.Sprintf("scanedge|%d|%+d|%s|abs=%v|%s", P, D-P, content, absolute, kind))
				}
			}
			ctx.Count("corrupt.logs", 1)
		})
	})
}

// c03Observable reports whether losing frame i alone would show in the recovered state.
func c03Observable(frames []c03Frame, i int) bool {
	switch frames[i].kind {
	case c03KLink:
		return true
	case c03KSet:
		for k, f := range frames {
			if k != i && f.kind == c03KSet && f.key == frames[i].key {
				return false
			}
		}
		return true
	}
	return false
}

// c03VictimFrame builds a SET frame of exactly total bytes (header included) whose value has
// the given content.
func c03VictimFrame(r *vkit.Rand, total int, content string) (c03Frame, bool) {
	digits := func(n int) int { return len(strconv.Itoa(n)) }
	for pad := 0; pad < 6; pad++ {
		key := fmt.Sprintf("victim_%04x", r.Intn(1<<16)) + strings.Repeat("_", pad)
		// HeaderSize + "*3\r\n$3\r\nSET\r\n" + "$K\r\n" key "\r\n" + "$V\r\n" val "\r\n"
		fixed := persistence.HeaderSize + 13 + 1 + digits(len(key)) + 2 + len(key) + 2 + 1 + 2 + 2
		for dv := 1; dv <= 6; dv++ {
			v := total - fixed - dv
			if v >= 8 && digits(v) == dv {
				f := c03Frame{kind: c03KSet, key: key}
				f.val = append([]byte("vv:"), c03LongBytes(r, v-3, content)...)
				f.payload = []byte(persistence.FormatCommand("SET", []byte(f.key), f.val))
				f.desc = fmt.Sprintf("victim SET %q = %s", f.key, c03Short(f.val))
				if persistence.HeaderSize+len(f.payload) != total {
					return f, false
				}
				return f, true
			}
		}
	}
	return c03Frame{}, false
}

// c03DamagedSpan is the length of the longest stretch of the damaged file that lies outside
// untouched frames (what recovery has to scan over in one go).
func c03DamagedSpan(lg *c03Log, d *c03Dmg, j c03Judge) int {
	if len(j.intact) == 0 {
		return 0
	}
	covered := make([]bool, len(d.data))
	pos := map[int32]int{}
	for p, o := range d.orig {
		if o >= 0 {
			pos[o] = p
		}
	}
	for fi, f := range lg.frames {
		if j.intact[fi] {
			p0 := pos[int32(f.start)]
			for p := p0; p < p0+f.end-f.start; p++ {
				covered[p] = true
			}
		}
	}
	best, cur := 0, 0
	for _, c := range covered {
		if c {
			cur = 0
		} else {
			cur++
			if cur > best {
				best = cur
			}
		}
	}
	return best
}

// c03ApplyLongDamage applies one damage whose extent is log-uniform between 1 byte and 40 KB
// at a position drawn uniformly over the bytes of the file (so long frames are hit in
// proportion to their size) or at a position class of a frame.
func c03ApplyLongDamage(r *vkit.Rand, lg *c03Log, d *c03Dmg, last bool) {
	bl := len(lg.base)
	o := r.Intn(bl)
	if r.Chance(0.4) {
		f := lg.frames[r.Intn(len(lg.frames))]
		o = c03ClassPos(f, vkit.Pick(r, c03Classes), r)
	}
	fi, class := c03ClassOf(lg, o)
	i := d.indexOfOrig(o)
	if i >= len(d.data) {
		return
	}
	ext := c03LogUniform(r, 1, 40000)
	mode := vkit.Pick(r, c03LongModes)
	kind := vkit.Pick(r, []string{"flip", "flip", "flip", "setA5", "overwrite", "overwrite", "insert", "insert", "delete", "delete", "zeroblock", "truncate"})
	if kind == "truncate" && !last {
		kind = "delete"
	}
	switch kind {
	case "flip":
		bit := uint(r.Intn(8))
		d.set(i, d.data[i]^(1<<bit), bl)
		d.desc = append(d.desc, fmt.Sprintf("flip bit %d of byte %d (frame %d %s, %d bytes long)", bit, i, fi, class, lg.frames[fi].end-lg.frames[fi].start))
	case "setA5":
		d.set(i, 0xA5, bl)
		if i+6 <= len(d.data) { // keep the fresh candidate affordable
			if l := binary.LittleEndian.Uint32(d.data[i+2 : i+6]); l > 1<<20 && l <= persistence.MaxPayloadSize && !r.Chance(0.1) {
				d.set(i+5, d.data[i+5]|0x80, bl)
			}
		}
		d.desc = append(d.desc, fmt.Sprintf("set byte %d to 0xA5 (frame %d %s)", i, fi, class))
	case "overwrite":
		g := c03LongBytes(r, ext, mode)
		d.overwrite(i, g, bl)
		d.desc = append(d.desc, fmt.Sprintf("overwrite %d bytes at %d (frame %d %s) with %s content %x…", len(g), i, fi, class, mode, c03ClipN(g, 24)))
	case "insert":
		g := c03LongBytes(r, ext, mode)
		d.insert(i, g, bl)
		d.desc = append(d.desc, fmt.Sprintf("insert %d bytes of %s content at %d (frame %d %s): %x…", len(g), mode, i, fi, class, c03ClipN(g, 24)))
	case "delete":
		d.del(i, ext, bl)
		d.desc = append(d.desc, fmt.Sprintf("delete %d bytes at %d (frame %d %s)", ext, i, fi, class))
	case "zeroblock": // a lost sector / page: an aligned block of zeros
		bs := vkit.Pick(r, []int{512, 4096, 8192, 16384})
		a := i / bs * bs
		if a == 0 {
			a = bs // the first byte of the file stays (otherwise: a legitimate refusal, nothing demanded)
		}
		if a >= len(d.data) {
			a = i
		}
		d.overwrite(a, make([]byte, bs), bl)
		d.desc = append(d.desc, fmt.Sprintf("zero the %d byte block at %d", bs, a))
	case "truncate":
		d.truncate(i, bl)
		d.desc = append(d.desc, fmt.Sprintf("truncate at %d (frame %d %s)", i, fi, class))
	}
	d.kinds = append(d.kinds, "long_"+kind)
	d.classes = append(d.classes, class)
}

func c03Descs(lg *c03Log) []string {
	var out []string
	for _, f := range lg.frames {
		out = append(out, fmt.Sprintf("[%d..%d) %s", f.start, f.end, f.desc))
	}
	return out
}

// c03Probes holds the fixed scenarios of recorded findings.
func c03Probes(ctx *vkit.Ctx) {
	// D-C03-1: replayAOF leaves the GLINK/GUNLINK "skip corrupt record" branches with
	// `continue`, which jumps over `validOffset += frameSize` (recovery.go, end of the loop).
	// From then on validOffset lags behind the read position by the size of the skipped
	// record, so the next resync starts too early: frames that were already applied are
	// applied a second time (and 0xA5 bytes inside untouched frames are tried as headers).
	ctx.Probe("D-C03-1", func(cs *vkit.Case) string {
		mk := func(kind int, payload string) c03Frame { return c03Frame{kind: kind, payload: []byte(payload)} }
		link := func(i int, tgt string, w float32, ts int64) c03Frame {
			f := c03Frame{kind: c03KLink, src: "S", tgt: tgt, rel: "r", weight: w, ts: ts}
			f.payload = []byte(persistence.FormatCommand("GLINK", []byte(""), []byte("S"), []byte(tgt), []byte("r"), []byte(""),
				[]byte(strconv.FormatFloat(float64(w), 'f', -1, 32)), nil, []byte(strconv.FormatInt(ts, 10))))
			f.desc = fmt.Sprintf("#%d GLINK S-[r]->%s w=%v ts=%d", i, tgt, w, ts)
			return f
		}
		set := func(i int, k, v string) c03Frame {
			f := mk(c03KSet, persistence.FormatCommand("SET", []byte(k), []byte(v)))
			f.key, f.val = k, []byte(v)
			f.desc = fmt.Sprintf("#%d SET %s=%s", i, k, v)
			return f
		}
		bad := mk(c03KBadNum, persistence.FormatCommand("GLINK", []byte(""), []byte("S"), []byte("bad"), []byte("r"), []byte(""),
			[]byte("not_a_float"), []byte(strings.Repeat("p", 400)), []byte("17")))
		bad.desc = "#0 GLINK with weight \"not_a_float\" (replay skips it)"
		frames := []c03Frame{bad, link(1, "tE", 1.5, 1000), link(2, "tE", 2.5, 2000), set(3, "a", "1"), set(4, "b", "2"), set(5, "c", "3")}
		lg := c03H.writeLog(cs, frames)
		d := c03NewDmg(lg.base)
		p := lg.frames[4].start + 6
		d.set(p, d.data[p]^0x01, len(lg.base))
		d.desc = append(d.desc, fmt.Sprintf("flip bit 0 of byte %d (frame 4 crc0)", p))
		cs.Op("probe D-C03-1: %s", d.desc[0])
		msg, _ := c03H.openAndJudge(ctx, cs, c03DataDir(cs), lg, d, c03Analyse(lg, d))
		return msg
	})
}

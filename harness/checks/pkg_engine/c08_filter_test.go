package engine_test

import (
	"fmt"
	"reflect"
	"sort"
	"strconv"
	"strings"
	"testing"

	"github.com/sanonone/kektordb/internal/zzverif/vexec"
	"github.com/sanonone/kektordb/internal/zzverif/vkit"
	"github.com/sanonone/kektordb/pkg/core/distance"
	"github.com/sanonone/kektordb/pkg/core/types"
	"github.com/sanonone/kektordb/pkg/engine"
)

// C08 — metadata filters select exactly the matching live vectors.
//
// Reference evaluator = the documented semantics as fixed in DESIGN.md §4/C08. The
// asserted domain is: string values from a non-numeric vocabulary, float64 numbers,
// booleans, lists of strings; literals: quoted strings, unquoted numbers, quoted or
// unquoted booleans. Everything the property does not settle (numeric-looking strings,
// Go ints through the embedded API, quoted numerics, keywords/operators inside quoted
// literals, lists of numbers, ...) lives in the "lenient" group and is only counted.

const c08Finding = "D-C08-1" // list values not indexed by AddMetadataUnlocked (snapshot restore / compress)

// ---- reference evaluator -----------------------------------------------------------------

type c08Clause struct {
	Key   string
	Op    string
	Lit   string // literal with the quotes removed (what the documented semantics compare)
	Shown string // literal as written in the expression text
}

// c08Equal: `=` of the documented semantics for one stored value.
func c08Equal(v any, lit string) bool {
	switch x := v.(type) {
	case float64:
		f, err := strconv.ParseFloat(lit, 64)
		return err == nil && f == x
	case string:
		return x == lit
	case bool:
		return strconv.FormatBool(x) == lit
	case []any:
		for _, e := range x {
			if fmt.Sprint(e) == lit {
				return true
			}
		}
	}
	return false
}

func (c c08Clause) Match(meta map[string]any) bool {
	v, has := meta[c.Key]
	switch c.Op {
	case "=":
		return has && c08Equal(v, c.Lit)
	case "!=":
		return !(has && c08Equal(v, c.Lit))
	}
	x, ok := v.(float64)
	if !has || !ok {
		return false
	}
	f, err := strconv.ParseFloat(c.Lit, 64)
	if err != nil {
		return false
	}
	switch c.Op {
	case "<":
		return x < f
	case "<=":
		return x <= f
	case ">":
		return x > f
	case ">=":
		return x >= f
	}
	return false
}

// c08Expr is an OR of AND-blocks.
type c08Expr struct {
	Blocks [][]c08Clause
	Text   string
}

func (e c08Expr) Match(meta map[string]any) bool {
	for _, blk := range e.Blocks {
		all := true
		for _, c := range blk {
			if !c.Match(meta) {
				all = false
				break
			}
		}
		if all {
			return true
		}
	}
	return false
}

func (e c08Expr) Shape() string {
	var bs []string
	for _, blk := range e.Blocks {
		var cs []string
		for _, c := range blk {
			cs = append(cs, c.Op)
		}
		bs = append(bs, strings.Join(cs, "&"))
	}
	return strings.Join(bs, "|")
}

// ---- generator ---------------------------------------------------------------------------

var c08Keys = []string{"cat", "order", "band", "tags"} // "order"/"band" contain or/and on purpose

// c08AltKeys: key shapes a random case may use instead of the classic four (the templates
// always use the classic four): a key that differs from another one only in case, keys with
// '_', '-', '.', digits, and the names the server itself filters on (memory_layer also
// contains "or"). A metadata field is named by its exact key.
func c08AltKeys(r *vkit.Rand) []string {
	return []string{"cat", "Cat", vkit.Pick(r, []string{"order", "memory_layer"}), vkit.Pick(r, []string{"_pinned", "k-1.x", "tags", "type"})}
}

// non-numeric vocabulary (init checks that none parses as a float or a boolean); includes
// strings with a leading / trailing / doubled blank (a quoted literal denotes exactly the
// string between the quotes)
var c08Vocab = []string{"red", "Red", "blue", "green", "light", "light blue", "città", "north-west", "v2", "the", " red", "red ", "light  blue"}

func init() {
	for _, w := range c08Vocab {
		if _, err := strconv.ParseFloat(w, 64); err == nil {
			panic("c08: vocabulary word parses as a number: " + w)
		}
		if w == "true" || w == "false" || strings.ContainsAny(w, `'"=<>!`) {
			panic("c08: vocabulary word outside the asserted domain: " + w)
		}
		lw := " " + strings.ToLower(w) + " "
		if strings.Contains(lw, " and ") || strings.Contains(lw, " or ") {
			panic("c08: vocabulary word contains a keyword: " + w)
		}
	}
}

type c08Gen struct {
	r       *vkit.Rand
	ids     []string
	dim     int
	keys    []string        // metadata keys of this case (classic four unless the random group varies them)
	big     int             // number of ids of the scale template (by tier)
	noLists bool            // generator guard of D-C08-1: no new non-empty list values
	deleted map[string]bool // ids deleted at least once
	notes   []string        // history annotations (type changes, re-adds) for counters / distinct keys
}

func c08NewGen(r *vkit.Rand) *c08Gen {
	n := r.Range(6, 10)
	g := &c08Gen{r: r, dim: r.Range(2, 4), deleted: map[string]bool{}, keys: c08Keys}
	for i := 0; i < n; i++ {
		g.ids = append(g.ids, fmt.Sprintf("v%d", i))
	}
	return g
}

func (g *c08Gen) note(s string) { g.notes = append(g.notes, s) }

func (g *c08Gen) vec() []float32 {
	v := make([]float32, g.dim)
	for {
		nz := false
		for i := range v {
			v[i] = g.r.F32()
			if v[i] != 0 {
				nz = true
			}
		}
		if nz {
			return v
		}
	}
}

func (g *c08Gen) str() string { return vkit.Pick(g.r, c08Vocab) }

func (g *c08Gen) num() float64 {
	r := g.r
	switch r.Intn(9) {
	case 0, 1, 2:
		return float64(r.Intn(7) - 2) // -2..4
	case 3:
		return float64(r.Intn(9)-4) / 2 // halves
	case 4:
		return vkit.Pick(r, []float64{0.1, -0.25, 1.0 / 3, 2.5e-7, -1e-9, 0.30000000000000004})
	case 5:
		return 1e15 + float64(r.Intn(3)) // adjacent large integers
	case 6:
		return vkit.Pick(r, []float64{1e21, -1e18, 123456789.125, 1e300, 5e-324, -1e300})
	case 7:
		return -float64(r.Intn(1000)) / 8
	default:
		return float64(r.Intn(2000)-1000) / 16
	}
}

func (g *c08Gen) list() []any {
	n := g.r.Range(0, 3)
	l := make([]any, n)
	for i := range l {
		l[i] = g.str()
	}
	return l
}

func c08KindOf(v any) string {
	switch x := v.(type) {
	case nil:
		return "none"
	case string:
		return "str"
	case float64:
		return "num"
	case bool:
		return "bool"
	case []any:
		if len(x) == 0 {
			return "list0"
		}
		return "list"
	case map[string]any:
		return "obj"
	}
	return fmt.Sprintf("%T", v)
}

func (g *c08Gen) kind() string {
	for {
		k := vkit.Pick(g.r, []string{"str", "str", "num", "num", "bool", "list", "list"})
		if k == "list" && g.noLists {
			continue
		}
		return k
	}
}

func (g *c08Gen) valueOf(kind string) any {
	switch kind {
	case "str":
		return g.str()
	case "num":
		return g.num()
	case "bool":
		return g.r.Chance(0.5)
	default:
		if g.noLists {
			return []any{}
		}
		return g.list()
	}
}

func (g *c08Gen) value() any { return g.valueOf(g.kind()) }

// meta: nil, empty, or 1..4 keys.
func (g *c08Gen) meta() map[string]any {
	switch g.r.Intn(10) {
	case 0:
		return nil
	case 1:
		return map[string]any{}
	}
	m := map[string]any{}
	n := g.r.Range(1, 4)
	for i := 0; i < n; i++ {
		m[vkit.Pick(g.r, g.keys)] = g.value()
	}
	return m
}

func c08HasList(mi *vexec.MIndex) bool {
	for _, rec := range mi.Recs {
		for _, v := range rec.Meta {
			if c08KindOf(v) == "list" {
				return true
			}
		}
	}
	return false
}

// step executes one random history operation against index ix.
func (g *c08Gen) step(ctx *vkit.Ctx, x *vexec.Exec, ix string, avoid bool) {
	r := g.r
	mi := x.M.Idx[ix]
	live := vexec.SortedKeys(mi.Recs)
	var dead []string
	for _, id := range g.ids {
		if mi.Recs[id] == nil {
			dead = append(dead, id)
		}
	}
	p := r.Intn(100)
	if len(live) < 3 && len(dead) > 0 {
		p = 0
	}
	switch {
	case p < 28 && len(dead) > 0: // add / re-add
		id := vkit.Pick(r, dead)
		if r.Chance(0.6) { // prefer a previously deleted id (re-add)
			for _, d := range dead {
				if g.deleted[d] {
					id = d
					break
				}
			}
		}
		if g.deleted[id] {
			g.note("readd")
		}
		x.VAdd(ix, id, g.vec(), g.meta())
	case p < 33 && len(dead) > 0: // batch add
		n := r.Range(1, min(4, len(dead)))
		perm := r.Perm(len(dead))
		var items []types.BatchObject
		for i := 0; i < n; i++ {
			id := dead[perm[i]]
			if g.deleted[id] {
				g.note("readd")
			}
			items = append(items, types.BatchObject{Id: id, Vector: g.vec(), Metadata: g.meta()})
		}
		// VImport is the third entry point that adds records (it bypasses the log and becomes
		// durable through the snapshot VImportCommit takes): "not on how the state was reached".
		// Same sequencing as vexec.Gen.Step: the commit follows at once, so the model is right
		// after any later restart. Not drawn while D-C08-1 is known (the commit is a snapshot).
		if !avoid && r.Chance(0.4) {
			if x.VImport(ix, items) == nil {
				x.VImportCommit(ix)
				g.note("import")
			}
		} else {
			x.VAddBatch(ix, items)
		}
	case p < 72 && len(live) > 0 && r.Chance(0.15): // overwrite through a value of another type that PRINTS the same
		// The look-alike (a numeric- or boolean-looking string) is outside the asserted
		// domain, so it is only a transient: it is overwritten again before anything is
		// evaluated. What is asserted is the state after the second write.
		id := vkit.Pick(r, live)
		key := vkit.Pick(r, g.keys)
		var first, second any
		switch r.Intn(7) {
		case 0: // number -> its decimal string -> fresh value
			n := g.num()
			x.VSetMetadata(ix, id, map[string]any{key: n})
			first, second = fmt.Sprint(n), g.value()
		case 1: // decimal string -> that number
			n := g.num()
			first, second = fmt.Sprint(n), n
		case 2: // boolean -> "true"/"false" -> fresh value
			bv := r.Chance(0.5)
			x.VSetMetadata(ix, id, map[string]any{key: bv})
			first, second = fmt.Sprint(bv), g.value()
		case 3: // "true"/"false" -> that boolean
			bv := r.Chance(0.5)
			first, second = fmt.Sprint(bv), bv
		case 5: // indexed value -> null -> fresh value (null is outside the asserted domain: transient only)
			x.VSetMetadata(ix, id, map[string]any{key: g.value()})
			first, second = nil, g.value()
		case 6: // indexed value -> nested object -> fresh value (objects are outside the asserted domain: transient only)
			x.VSetMetadata(ix, id, map[string]any{key: g.value()})
			first, second = map[string]any{"a": 1.0, "b": g.str()}, g.value()
		default: // one-element list -> the list of its words (lists print their elements space separated)
			if g.noLists {
				n := g.num()
				first, second = fmt.Sprint(n), n
			} else {
				first, second = []any{"light blue"}, []any{"light", "blue"}
				if r.Chance(0.5) {
					first, second = second, first
				}
			}
		}
		x.VSetMetadata(ix, id, map[string]any{key: first})
		x.VSetMetadata(ix, id, map[string]any{key: second})
		g.note("lookalike:" + c08KindOf(first) + ">" + c08KindOf(second))
	case p < 72 && len(live) > 0: // merge (overwrite with same / different type, new key)
		id := vkit.Pick(r, live)
		cur := mi.Recs[id].Meta
		props := map[string]any{}
		n := r.Range(1, 2)
		for i := 0; i < n; i++ {
			key := vkit.Pick(r, g.keys)
			old, has := cur[key]
			var nv any
			switch {
			case has && r.Chance(0.15): // identical value (no-op overwrite)
				nv = old
				if g.noLists && c08KindOf(old) == "list" {
					nv = g.valueOf("str")
				}
			case has && r.Chance(0.35): // same type, fresh value
				k := c08KindOf(old)
				if k == "list0" {
					k = "list"
				}
				nv = g.valueOf(k)
			default:
				nv = g.value()
			}
			props[key] = nv
		}
		for _, key := range vexec.SortedKeys(props) { // one note per key actually written (a key drawn twice is one transition)
			g.note("set:" + c08KindOf(cur[key]) + ">" + c08KindOf(props[key]))
		}
		x.VSetMetadata(ix, id, props)
	case p < 86 && len(live) > 0: // delete
		id := vkit.Pick(r, live)
		if x.VDelete(ix, id) == nil {
			g.deleted[id] = true
			g.note("delete")
		}
	case p < 92:
		x.Maintenance(ix, "vacuum")
		g.note("vacuum")
	default: // persistence event in the middle of the history
		snapOK := !(avoid && c08HasList(mi))
		switch q := r.Intn(3); {
		case q == 0 || (q == 2 && !snapOK):
			x.Restart()
		case q == 1:
			x.RewriteAOF()
			if r.Chance(0.5) {
				x.Restart()
			}
		default:
			x.SaveSnapshot()
			if r.Chance(0.7) {
				x.Restart()
			}
		}
	}
}

// ---- expressions -------------------------------------------------------------------------

// c08FmtNum writes f as a decimal literal. Besides the three strconv notations it sometimes
// uses another everyday spelling of the same number (upper-case exponent, explicit plus sign,
// no zero before the point, leading zeros, a trailing zero after the point); every spelling is
// checked here to parse back to exactly f, otherwise the plain one is kept.
func c08FmtNum(r *vkit.Rand, f float64) string {
	s := c08FmtNumPlain(r, f)
	if !r.Chance(0.15) {
		return s
	}
	neg := strings.HasPrefix(s, "-")
	body := strings.TrimPrefix(s, "-")
	sign := ""
	if neg {
		sign = "-"
	}
	alt := s
	switch r.Intn(5) {
	case 0:
		alt = strings.ToUpper(s) // 1E+21, 2.5E-07
	case 1:
		if !neg {
			alt = "+" + s
		}
	case 2:
		if strings.HasPrefix(body, "0.") {
			alt = sign + body[1:] // .5, -.25
		}
	case 3:
		alt = sign + "00" + body // 007, -002.5
	default:
		if strings.Contains(body, ".") && !strings.ContainsAny(body, "eE") {
			alt = s + "0" // 2.50
		}
	}
	if g, err := strconv.ParseFloat(alt, 64); err != nil || g != f {
		return s
	}
	return alt
}

func c08FmtNumPlain(r *vkit.Rand, f float64) string {
	abs := f
	if abs < 0 {
		abs = -abs
	}
	plain := abs == 0 || (abs >= 1e-6 && abs < 1e21)
	switch {
	case plain && r.Chance(0.75):
		s := strconv.FormatFloat(f, 'f', -1, 64)
		if !strings.Contains(s, ".") && r.Chance(0.15) {
			s += ".0"
		}
		return s
	case r.Chance(0.5):
		return strconv.FormatFloat(f, 'g', -1, 64)
	default:
		return strconv.FormatFloat(f, 'e', -1, 64)
	}
}

// pools of values present in the state (so that clauses hit and miss near the data)
type c08Pools struct {
	strs []string
	nums []float64
}

func c08PoolsOf(mi *vexec.MIndex) c08Pools {
	var p c08Pools
	ss := map[string]bool{}
	ns := map[float64]bool{}
	for _, rec := range mi.Recs {
		for _, v := range rec.Meta {
			switch x := v.(type) {
			case string:
				ss[x] = true
			case float64:
				ns[x] = true
			case []any:
				for _, e := range x {
					if s, ok := e.(string); ok {
						ss[s] = true
					}
				}
			}
		}
	}
	for s := range ss {
		p.strs = append(p.strs, s)
	}
	sort.Strings(p.strs)
	for f := range ns {
		p.nums = append(p.nums, f)
	}
	sort.Float64s(p.nums)
	return p
}

func (g *c08Gen) litNum(p c08Pools) float64 {
	r := g.r
	if len(p.nums) > 0 && r.Chance(0.7) {
		f := vkit.Pick(r, p.nums)
		switch r.Intn(6) { // exactly on a stored value most of the time (boundaries), sometimes next to it
		case 0:
			return f + 0.5
		case 1:
			return f - 1
		}
		return f
	}
	return g.num()
}

func (g *c08Gen) clause(p c08Pools) c08Clause {
	r := g.r
	c := c08Clause{Key: vkit.Pick(r, g.keys)}
	if r.Chance(0.04) {
		c.Key = "ghost" // a field no record has
	}
	c.Op = vkit.Pick(r, []string{"=", "=", "!=", "!=", "<", "<=", ">", ">="})
	if c.Op == "=" || c.Op == "!=" {
		switch r.Intn(10) {
		case 0, 1, 2, 3, 4: // string literal, quoted
			s := g.str()
			if len(p.strs) > 0 && r.Chance(0.75) {
				s = vkit.Pick(r, p.strs)
			}
			q := vkit.Pick(r, []string{"'", "\""})
			c.Lit, c.Shown = s, q+s+q
		case 5, 6, 7: // numeric literal, unquoted
			c.Lit = c08FmtNum(r, g.litNum(p))
			c.Shown = c.Lit
		default: // boolean literal, unquoted or quoted (the documentation shows _archived != 'true')
			c.Lit = vkit.Pick(r, []string{"true", "false"})
			c.Shown = c.Lit
			if r.Chance(0.4) {
				q := vkit.Pick(r, []string{"'", "\""})
				c.Shown = q + c.Lit + q
			}
		}
	} else {
		c.Lit = c08FmtNum(r, g.litNum(p))
		c.Shown = c.Lit
	}
	return c
}

func (g *c08Gen) renderClause(c c08Clause) string {
	sp := func() string {
		if g.r.Chance(0.3) {
			return ""
		}
		return " "
	}
	return c.Key + sp() + c.Op + sp() + c.Shown
}

// number of OR blocks / of clauses in a block: mostly 1-3, sometimes 4 or 5 (more OR blocks
// after a block whose running intersection became empty, long AND chains)
var c08Sizes = []int{1, 1, 1, 1, 1, 1, 1, 2, 2, 2, 2, 2, 3, 3, 4, 5}

func (g *c08Gen) expr(p c08Pools) c08Expr {
	r := g.r
	var e c08Expr
	nOr := vkit.Pick(r, c08Sizes)
	var blocks []string
	for i := 0; i < nOr; i++ {
		nAnd := vkit.Pick(r, c08Sizes)
		var blk []c08Clause
		var parts []string
		for j := 0; j < nAnd; j++ {
			c := g.clause(p)
			if j > 0 && r.Chance(0.08) { // the same clause twice in one block (may be rendered differently)
				c = blk[r.Intn(len(blk))]
			}
			blk = append(blk, c)
			parts = append(parts, g.renderClause(c))
		}
		e.Blocks = append(e.Blocks, blk)
		txt := parts[0]
		for _, s := range parts[1:] {
			txt += vkit.Pick(r, []string{" AND ", " AND ", " AND ", " and ", " And ", "  AND  ", "\tand ", "\nAND\n", " and\r\n"}) + s
		}
		blocks = append(blocks, txt)
	}
	e.Text = blocks[0]
	for _, s := range blocks[1:] {
		e.Text += vkit.Pick(r, []string{" OR ", " OR ", " OR ", " or ", " Or ", "  OR ", " or\t", "\nOR ", "\r\nor\r\n"}) + s
	}
	if r.Chance(0.05) {
		ws := vkit.Pick(r, []string{" ", " ", "\n", "\t"})
		e.Text = ws + e.Text + ws
	}
	return e
}

func (g *c08Gen) exprs(cs *vkit.Case, mi *vexec.MIndex, n int) []c08Expr {
	p := c08PoolsOf(mi)
	out := make([]c08Expr, n)
	for i := range out {
		out[i] = g.expr(p)
		cs.Op("expr %q", out[i].Text)
	}
	return out
}

// ---- oracle ------------------------------------------------------------------------------

// c08CheckPrimary: VGet metadata of every id of the universe equals the model (so that a
// filter disagreement below is about the secondary indexes / planner, not about lost data).
func c08CheckPrimary(x *vexec.Exec, ix string, ids []string) string {
	mi := x.M.Idx[ix]
	for _, id := range ids {
		d, err := x.E.VGet(ix, id)
		rec := mi.Recs[id]
		if rec == nil {
			if err == nil {
				return fmt.Sprintf("VGet(%s) succeeds for an id that is not live (metadata %s)", id, vexec.CanonJSON(d.Metadata))
			}
			continue
		}
		if err != nil {
			return fmt.Sprintf("VGet(%s) fails for a live id: %v", id, err)
		}
		if got := vexec.NormMeta(d.Metadata); !reflect.DeepEqual(got, rec.Meta) {
			return fmt.Sprintf("VGet(%s) metadata %s, history says %s", id, vexec.CanonJSON(got), vexec.CanonJSON(rec.Meta))
		}
	}
	return ""
}

func c08State(mi *vexec.MIndex) map[string]any {
	st := map[string]any{}
	for id, rec := range mi.Recs {
		st[id] = rec.Meta
	}
	return st
}

type c08Stats struct{ discriminating, searchHits int }

// c08Eval evaluates every expression in the current provenance and compares with the
// reference over the model's live records.
func c08Eval(ctx *vkit.Ctx, cs *vkit.Case, x *vexec.Exec, g *c08Gen, ix, prov string, exprs []c08Expr, st *c08Stats) {
	x.Settle()
	if msg := c08CheckPrimary(x, ix, g.ids); msg != "" {
		cs.Attach("provenance", prov)
		cs.Fail("[%s] primary metadata differs from the history before any filter was evaluated: %s", prov, msg)
	}
	mi := x.M.Idx[ix]
	n := len(mi.Recs)
	limit := 10*n + 10
	ids := vexec.SortedKeys(mi.Recs)
	q := g.vec()
	ctx.Count("prov."+prov, 1)
	// one log line per provenance (the expressions themselves are logged once, when they are
	// generated): logging every call made the ops logs of a thorough run several GB
	// the answer of every expression before the reads of c08Reads are served (compared below with
	// the answer after them: no update lies in between)
	before := make([][]string, len(exprs))
	for i, e := range exprs {
		if got, err := x.E.VFilter(ix, e.Text, limit); err == nil {
			sort.Strings(got)
			before[i] = append([]string{}, got...)
		}
	}
	readCalls := c08Reads(ctx, cs, x, g, ix, prov, exprs)
	cs.Op("[%s] evaluate expr[0..%d): VFilter(%s, expr, %d) and VSearch(%s, q, k=%d, expr)", prov, len(exprs), ix, limit, ix, max(n, 1))
	for ei, e := range exprs {
		want := map[string]bool{}
		for _, id := range ids {
			if e.Match(mi.Recs[id].Meta) {
				want[id] = true
			}
		}
		if len(want) > 0 && len(want) < n {
			st.discriminating++
			ctx.Count("vfilter.discriminating", 1) // reference set is a non-empty proper subset of the live ids
		}
		cs.Attach("current_call", fmt.Sprintf("[%s] VFilter(%s, %q, %d)", prov, ix, e.Text, limit))
		got, err := x.E.VFilter(ix, e.Text, limit)
		ctx.Count("vfilter.calls", 1)
		if err != nil {
			c08Witness(cs, prov, e, mi, want, nil)
			cs.Fail("[%s] VFilter(%q) rejected a well-formed expression: %v", prov, e.Text, err)
		}
		gotSet := map[string]bool{}
		for _, id := range got {
			gotSet[id] = true
		}
		// "depends only on the current metadata": the same call before and after a series of
		// searches (no update in between) gives the same ids
		if after := vexec.SortedKeys(gotSet); len(readCalls) > 0 && before[ei] != nil && len(got) == len(gotSet) && !reflect.DeepEqual(after, before[ei]) && len(after)+len(before[ei]) > 0 {
			c08Witness(cs, prov, e, mi, want, got)
			cs.Attach("answer_before_the_reads", before[ei])
			cs.Attach("reads_served_in_between", readCalls)
			cs.Fail("[%s] VFilter(%q) = %v before and %v after %d searches that used filters (with a graph scope, a text query, efSearch, k < n) and no update in between: the answer depends on the reads served before, not only on the current metadata (documented semantics give %v; the searches are listed under reads_served_in_between)",
				prov, e.Text, before[ei], after, len(readCalls), vexec.SortedKeys(want))
		}
		// "returns precisely the live ids": an id is returned once, not once per internal node
		// that ever carried it
		if len(got) != len(gotSet) {
			c08Witness(cs, prov, e, mi, want, got)
			cs.Fail("[%s] VFilter(%q) returned an id more than once: %v (documented semantics give %v)", prov, e.Text, got, vexec.SortedKeys(want))
		}
		if !reflect.DeepEqual(gotSet, want) && !(len(gotSet) == 0 && len(want) == 0) {
			var missing, extra []string
			for id := range want {
				if !gotSet[id] {
					missing = append(missing, id)
				}
			}
			for id := range gotSet {
				if !want[id] {
					extra = append(extra, id)
				}
			}
			sort.Strings(missing)
			sort.Strings(extra)
			c08Witness(cs, prov, e, mi, want, got)
			var detail []string
			for _, id := range append(append([]string{}, missing...), extra...) {
				if rec := mi.Recs[id]; rec != nil {
					detail = append(detail, id+"="+vexec.CanonJSON(rec.Meta))
				} else {
					detail = append(detail, id+"=<not live>")
				}
			}
			cs.Fail("[%s] VFilter(%q) = %v, documented semantics over the live metadata give %v (missing %v, extra %v; %s)",
				prov, e.Text, vexec.SortedKeys(gotSet), vexec.SortedKeys(want), missing, extra, strings.Join(detail, " "))
		}
		// The same call with a limit smaller than the answer. What the property settles for
		// it: every id returned satisfies the filter ("returns precisely the live ids whose
		// current metadata satisfies it") and none is returned twice. How many come back is
		// only counted (the property does not speak about the limit).
		if len(want) >= 2 {
			lim := 1
			if g.r.Chance(0.5) {
				lim = len(want) - 1
			}
			part, err := x.E.VFilter(ix, e.Text, lim)
			ctx.Count("vfilter.limited.calls", 1)
			if err != nil {
				c08Witness(cs, prov, e, mi, want, nil)
				cs.Fail("[%s] VFilter(%q, limit %d) rejected a well-formed expression: %v", prov, e.Text, lim, err)
			}
			seen := map[string]bool{}
			for _, id := range part {
				if !want[id] || seen[id] {
					c08Witness(cs, prov, e, mi, want, part)
					why := "<not live>"
					if rec := mi.Recs[id]; rec != nil {
						why = vexec.CanonJSON(rec.Meta)
					}
					if seen[id] {
						cs.Fail("[%s] VFilter(%q, limit %d) returned %s more than once: %v", prov, e.Text, lim, id, part)
					}
					cs.Fail("[%s] VFilter(%q, limit %d) returned %s (%s) which does not satisfy the filter; reference set %v, result %v",
						prov, e.Text, lim, id, why, vexec.SortedKeys(want), part)
				}
				seen[id] = true
			}
			switch {
			case len(part) == lim:
				ctx.Count("vfilter.limited.full", 1)
			case len(part) < lim:
				ctx.Count("vfilter.limited.short", 1)
			default:
				ctx.Count("vfilter.limited.over", 1)
			}
		}
		// the same filter through the search path: results must be inside the reference set
		cs.Attach("current_call", fmt.Sprintf("[%s] VSearch(%s, k=%d, filter=%q)", prov, ix, max(n, 1), e.Text))
		res, err := x.E.VSearch(ix, q, max(n, 1), e.Text, "", 0, 1.0, nil)
		ctx.Count("vsearch.calls", 1)
		if err != nil {
			c08Witness(cs, prov, e, mi, want, nil)
			cs.Fail("[%s] VSearch(filter=%q) rejected a well-formed expression: %v", prov, e.Text, err)
		}
		if len(res) > 0 {
			st.searchHits++
			ctx.Count("vsearch.nonempty", 1)
		} else if len(want) > 0 {
			ctx.Count("vsearch.empty_but_reference_nonempty", 1) // never asserted (C06 judges completeness of the search path)
		}
		for _, id := range res {
			if !want[id] {
				c08Witness(cs, prov, e, mi, want, res)
				why := "<not live>"
				if rec := mi.Recs[id]; rec != nil {
					why = vexec.CanonJSON(rec.Meta)
				}
				cs.Fail("[%s] VSearch(k=%d, filter=%q) returned %s (%s) which does not satisfy the filter; reference set %v, result %v",
					prov, max(n, 1), e.Text, id, why, vexec.SortedKeys(want), res)
			}
		}
	}
}

// c08Rels: relation names of the links a case may add between its records (the graph scope of a search).
var c08Rels = []string{"next", "ref"}

// c08Reads: "the answer depends only on the current metadata, not on how the state was reached" -
// the way a state is reached includes the READS served before. In every provenance, before the
// expressions are compared with the reference, each of them (or one of its clauses on its own:
// every clause is a well-formed expression too) is used once as the filter of a search with
// other options than the plain VSearch of c08Eval: a graph scope (root, relations, direction,
// depth) next to the filter, a text query next to the filter (hybrid, or text only with a zero
// query vector), efSearch, k below n, VSearchGraph with hydrated connections. What is asserted
// here: every id returned satisfies the filter (the other options only narrow the answer). What it
// is for: the exact comparison that follows sees whatever these reads left behind.
func c08Reads(ctx *vkit.Ctx, cs *vkit.Case, x *vexec.Exec, g *c08Gen, ix, prov string, exprs []c08Expr) (calls []string) {
	r := g.r
	mi := x.M.Idx[ix]
	n := len(mi.Recs)
	if n == 0 {
		return nil
	}
	ids := vexec.SortedKeys(mi.Recs)
	cs.Op("[%s] reads with a graph scope / a text query / efSearch / k < n next to the filter, for expr[0..%d) or one clause of it", prov, len(exprs))
	for _, whole := range exprs {
		e := whole
		if r.Chance(0.4) { // one clause on its own
			blk := vkit.Pick(r, whole.Blocks)
			c := vkit.Pick(r, blk)
			e = c08Expr{Blocks: [][]c08Clause{{c}}, Text: g.renderClause(c)}
			ctx.Count("reads.single_clause", 1)
		}
		want := map[string]bool{}
		for _, id := range ids {
			if e.Match(mi.Recs[id].Meta) {
				want[id] = true
			}
		}
		var gq *engine.GraphQuery
		if r.Chance(0.6) {
			gq = &engine.GraphQuery{RootID: vkit.Pick(r, g.ids), Direction: vkit.Pick(r, []string{"", "out", "in", "both"}), MaxDepth: r.Intn(4)}
			switch r.Intn(3) {
			case 0:
				gq.Relations = []string{c08Rels[0]}
			case 1:
				gq.Relations = append([]string{}, c08Rels...)
			default:
				gq.Relations = []string{c08Rels[1], "none"}
			}
			ctx.Count("reads.graph_scope", 1)
		}
		text, alpha := "", 1.0
		q := g.vec()
		if r.Chance(0.3) {
			text = vkit.Pick(r, []string{"red", "blue", "light blue", "the green"})
			alpha = vkit.Pick(r, []float64{0, 0.3, 0.5, 1})
			if r.Chance(0.3) {
				q = make([]float32, g.dim) // text only
			}
			ctx.Count("reads.text_query", 1)
		}
		ef := vkit.Pick(r, []int{0, 0, 1, 10, 200})
		k := n
		if r.Chance(0.3) {
			k = r.Range(1, n)
		}
		var res []string
		var err error
		var call string
		if r.Chance(0.25) {
			hyd := r.Chance(0.5)
			call = fmt.Sprintf("[%s] VSearchGraph(%s, %v, k=%d, filter=%q, text=%q, ef=%d, alpha=%v, relations=%v, hydrate=%v, graph=%s)", prov, ix, q, k, e.Text, text, ef, alpha, c08Rels, hyd, vkit.JSON(gq))
			cs.Attach("current_call", call)
			var gr []engine.GraphSearchResult
			gr, err = x.E.VSearchGraph(ix, q, k, e.Text, text, ef, alpha, c08Rels, hyd, gq)
			for _, h := range gr {
				res = append(res, h.ID)
			}
		} else {
			call = fmt.Sprintf("[%s] VSearch(%s, %v, k=%d, filter=%q, text=%q, ef=%d, alpha=%v, graph=%s)", prov, ix, q, k, e.Text, text, ef, alpha, vkit.JSON(gq))
			cs.Attach("current_call", call)
			res, err = x.E.VSearch(ix, q, k, e.Text, text, ef, alpha, gq)
		}
		ctx.Count("reads.calls", 1)
		calls = append(calls, call)
		if err != nil {
			if strings.Contains(err.Error(), "filter") {
				c08Witness(cs, prov, e, mi, want, nil)
				cs.Fail("%s rejected a well-formed expression: %v", call, err)
			}
			ctx.Count("reads.error_not_about_the_filter", 1) // not C08's business (C06 judges the search options)
			continue
		}
		if len(res) > 0 {
			ctx.Count("reads.nonempty", 1)
		}
		for _, id := range res {
			if !want[id] {
				c08Witness(cs, prov, e, mi, want, res)
				why := "<not live>"
				if rec := mi.Recs[id]; rec != nil {
					why = vexec.CanonJSON(rec.Meta)
				}
				cs.Fail("%s returned %s (%s) which does not satisfy the filter; reference set %v, result %v", call, id, why, vexec.SortedKeys(want), res)
			}
		}
	}
	return calls
}

func c08Witness(cs *vkit.Case, prov string, e c08Expr, mi *vexec.MIndex, want map[string]bool, got []string) {
	cs.Attach("provenance", prov)
	cs.Attach("expression", e.Text)
	cs.Attach("expression_parsed", e.Blocks)
	cs.Attach("expected_ids", vexec.SortedKeys(want))
	cs.Attach("observed_ids", got)
	cs.Attach("live_metadata", c08State(mi))
}

// ---- provenance pipeline -----------------------------------------------------------------

func c08Cfg(r *vkit.Rand, name string) vexec.IndexCfg {
	cfg := vexec.IndexCfg{
		Name:   name,
		Metric: vkit.Pick(r, []distance.DistanceMetric{distance.Euclidean, distance.Cosine}),
		Prec:   distance.Float32,
		M:      vkit.Pick(r, []int{4, 16}),
		EfC:    vkit.Pick(r, []int{8, 200}),
		Lang:   vkit.Pick(r, []string{"", "", "english", "italian"}),
	}
	if r.Chance(0.12) { // created directly in the compressed precision (the compress tail is skipped then)
		cfg.Prec = distance.Float16
		if cfg.Metric == distance.Cosine {
			cfg.Prec = distance.Int8
		}
	}
	return cfg
}

// c08FullMeta: a value under every key of the case (the most secondary-index entries a record can leave behind).
func (g *c08Gen) fullMeta() map[string]any {
	m := map[string]any{}
	for _, k := range g.keys {
		m[k] = g.value()
	}
	return m
}

// c08StripLists (generator guard of D-C08-1): replaces every live non-empty list value by a
// scalar through VSetMetadata so that no list value is live when a snapshot is loaded or
// the index is compressed. The replacement itself is a list->scalar type change.
func c08StripLists(x *vexec.Exec, g *c08Gen, ix string) int {
	mi := x.M.Idx[ix]
	n := 0
	for _, id := range vexec.SortedKeys(mi.Recs) {
		props := map[string]any{}
		for _, k := range vexec.SortedKeys(mi.Recs[id].Meta) {
			if c08KindOf(mi.Recs[id].Meta[k]) == "list" {
				nv := g.valueOf(vkit.Pick(g.r, []string{"str", "num", "bool", "list"})) // "list" yields [] under noLists
				props[k] = nv
				g.note("set:list>" + c08KindOf(nv))
			}
		}
		if len(props) > 0 {
			x.VSetMetadata(ix, id, props)
			n++
		}
	}
	return n
}

// c08Run drives one case: history -> expressions -> the same expressions in every provenance.
func c08Run(ctx *vkit.Ctx, cs *vkit.Case, varyKeys bool, history func(x *vexec.Exec, g *c08Gen, ix string, avoid bool)) {
	avoid := ctx.IsKnown(c08Finding)
	x := vexec.NewExec(cs, cs.SubDir("data"))
	defer func() {
		if x.E != nil {
			x.E.Close()
		}
	}()
	g := c08NewGen(cs.R)
	g.big = ctx.N(120, 400)
	if varyKeys && cs.R.Chance(0.35) { // the templates name the classic keys literally
		g.keys = c08AltKeys(cs.R)
		ctx.Count("variant.alt_keys", 1)
	}
	ix := "f"
	// Secondary indexes are kept per index NAME and internal ids restart in every index. Two
	// histories the answer must not depend on ("not on how the state was reached"):
	// (a) an earlier index of the same name, filled and dropped (sometimes with a snapshot or
	//     a restart in between, so that the drop is also replayed over a snapshot that still
	//     holds the index) before the index under test is created;
	// (b) a sibling index "g" holding the same ids under the same keys with other values; it is
	//     evaluated too (after the first provenance of "f", right after "f" was compressed, and
	//     after the last provenance).
	// Neither is drawn while D-C08-1 is known (they hold lists through snapshots).
	if !avoid && cs.R.Chance(0.2) {
		ctx.Count("variant.prelude_drop", 1)
		x.VCreate(c08Cfg(cs.R, ix))
		for _, id := range g.ids[:cs.R.Range(3, 5)] {
			x.VAdd(ix, id, g.vec(), g.fullMeta())
		}
		switch cs.R.Intn(3) {
		case 1:
			x.SaveSnapshot()
		case 2:
			x.Restart()
		}
		x.VDeleteIndex(ix)
		if cs.R.Chance(0.3) {
			x.Restart()
		}
		g.note("prelude-drop")
	}
	cfg := c08Cfg(cs.R, ix)
	x.VCreate(cfg)
	sib := ""
	if !avoid && cs.R.Chance(0.25) {
		ctx.Count("variant.sibling_index", 1)
		sib = "g"
		scfg := c08Cfg(cs.R, sib)
		scfg.Prec = distance.Float32
		x.VCreate(scfg)
		for _, id := range g.ids[:cs.R.Range(3, min(6, len(g.ids)))] {
			x.VAdd(sib, id, g.vec(), g.fullMeta())
		}
	}
	history(x, g, ix, avoid)
	histKinds := x.KindKey()
	histNotes := strings.Join(g.notes, ",")
	histOps := append([]string{}, cs.Ops()...)

	// links between live records (the graph scope of the reads of c08Reads follows them); the
	// later deletes of the pipeline cascade over them
	if live := vexec.SortedKeys(x.M.Idx[ix].Recs); len(live) >= 2 && cs.R.Chance(0.7) {
		ctx.Count("variant.links", 1)
		for i, nl := 0, cs.R.Range(1, 6); i < nl; i++ {
			src, tgt := vkit.Pick(cs.R, live), vkit.Pick(cs.R, live)
			if src != tgt {
				x.VLink(ix, src, tgt, vkit.Pick(cs.R, c08Rels), "", 1, nil)
			}
		}
	}

	nexpr := ctx.N(40, 80)
	exprs := g.exprs(cs, x.M.Idx[ix], nexpr)
	for _, e := range exprs {
		ctx.Count("expr.total", 1)
		for _, blk := range e.Blocks {
			for _, c := range blk {
				ctx.Count("clause.op."+c.Op, 1)
			}
		}
		ctx.Count(fmt.Sprintf("expr.or_blocks.%d", len(e.Blocks)), 1)
	}
	st := &c08Stats{}
	var provs []string
	eval := func(p string) {
		provs = append(provs, p)
		c08Eval(ctx, cs, x, g, ix, p, exprs, st)
	}
	eval("live")
	evalSibling := func(p string) {
		if sib == "" {
			return
		}
		provs = append(provs, p)
		c08Eval(ctx, cs, x, g, sib, p, exprs[:nexpr/4], &c08Stats{})
	}
	evalSibling("sibling")
	if sib != "" { // incremental maintenance next to the index under test: one type change, one delete
		smi := x.M.Idx[sib]
		sids := vexec.SortedKeys(smi.Recs)
		x.VSetMetadata(sib, sids[0], map[string]any{vkit.Pick(cs.R, g.keys): g.value()})
		x.VDelete(sib, sids[len(sids)-1])
	}

	phases := []string{"replay", "rewrite"}
	if !avoid {
		phases = append(phases, "snapshot")
	}
	for i := len(phases) - 1; i > 0; i-- {
		j := cs.R.Intn(i + 1)
		phases[i], phases[j] = phases[j], phases[i]
	}
	if !avoid && cs.R.Chance(0.5) { // more often than by the shuffle alone, the updates below follow the snapshot restore directly
		for i, p := range phases {
			if p == "snapshot" {
				phases = append(append(phases[:i:i], phases[i+1:]...), "snapshot")
				break
			}
		}
	}
	runPhase := func(p string) {
		switch p {
		case "replay":
			x.Restart()
		case "rewrite":
			x.RewriteAOF()
			x.Restart()
		case "snapshot":
			x.SaveSnapshot()
			x.Restart()
		}
		eval(p)
	}
	for _, p := range phases {
		runPhase(p)
	}
	if avoid {
		g.noLists = true
		if c08HasList(x.M.Idx[ix]) {
			ctx.Count("guard.D-C08-1.stripped_states", 1)
			c08StripLists(x, g, ix)
			exprs = append(exprs, g.exprs(cs, x.M.Idx[ix], nexpr/2)...)
			eval("live-after-strip")
		}
		runPhase("snapshot")
	}
	// incremental updates on top of a restored state
	mutate := func(k int) {
		for i := 0; i < k; i++ {
			mi := x.M.Idx[ix]
			p := cs.R.Intn(100)
			switch {
			case p < 70 && len(mi.Recs) > 0:
				id := vkit.Pick(cs.R, vexec.SortedKeys(mi.Recs))
				key := vkit.Pick(cs.R, g.keys)
				nv := g.value()
				g.note("set:" + c08KindOf(mi.Recs[id].Meta[key]) + ">" + c08KindOf(nv))
				x.VSetMetadata(ix, id, map[string]any{key: nv})
			case p < 85 && len(mi.Recs) > 1:
				id := vkit.Pick(cs.R, vexec.SortedKeys(mi.Recs))
				if x.VDelete(ix, id) == nil {
					g.deleted[id] = true
				}
			default:
				for _, id := range g.ids {
					if mi.Recs[id] == nil {
						x.VAdd(ix, id, g.vec(), g.meta())
						break
					}
				}
			}
		}
	}
	mutate(cs.R.Range(2, 5))
	exprs = append(exprs, g.exprs(cs, x.M.Idx[ix], nexpr/4)...)
	eval("snapshot+updates")
	// The updates above live only in the log tail behind the snapshot: a restart now replays
	// deletes, re-adds and metadata merges ON TOP of the restored snapshot (recovery applies
	// them through other code than a plain log replay). In 40% of the cases.
	if cs.R.Chance(0.4) {
		x.Restart()
		eval("snapshot+updates+restart")
	}

	switch {
	case cfg.Prec != distance.Float32:
		ctx.Count("compress.skipped_created_compressed", 1)
	case len(x.M.Idx[ix].Recs) > 0:
		target := distance.PrecisionType(distance.Float16)
		if cfg.Metric == distance.Cosine {
			target = distance.Int8
		}
		x.VCompress(ix, target)
		eval("compress")
		evalSibling("sibling-after-compress") // the rebuild of "f" must not touch the maps of "g" (before a restart rebuilds everything)
		x.Restart()
		eval("compress+restart")
		mutate(cs.R.Range(2, 5))
		eval("compress+updates")
		if cs.R.Chance(0.4) { // log tail replayed on top of the snapshot of a compressed index
			x.Restart()
			eval("compress+updates+restart")
		}
	default:
		ctx.Count("compress.skipped_empty_index", 1)
	}
	evalSibling("sibling-end")

	ctx.Eval(1)
	for _, k := range x.Kinds {
		ctx.Count("kind."+k, 1)
	}
	typeChange := false
	for _, nt := range g.notes {
		if strings.HasPrefix(nt, "set:") {
			ab := strings.SplitN(nt[4:], ">", 2)
			ctx.Count("overwrite."+nt[4:], 1)
			if ab[0] != ab[1] && ab[0] != "none" {
				typeChange = true
			}
		} else {
			ctx.Count("hist."+nt, 1)
		}
	}
	if typeChange && (strings.Contains(histNotes, "delete") || strings.Contains(histNotes, "readd")) && st.discriminating > 0 {
		ctx.Distinct(histKinds + "|" + histNotes + "|" + vexec.CanonJSON(c08State(x.M.Idx[ix])))
	}
	ctx.Sample(cs.Group, 2, map[string]any{"history": histOps[:min(len(histOps), 40)], "expressions": []string{exprs[0].Text, exprs[1].Text, exprs[2].Text},
		"provenances": provs})
}

// ---- directed templates ------------------------------------------------------------------

// Each template builds a history the property singles out; values are still drawn from the
// case PRNG. The common pipeline then evaluates random expressions in every provenance.
var c08Templates = []struct {
	name string
	run  func(x *vexec.Exec, g *c08Gen, ix string, avoid bool)
}{
	{"type-chain", func(x *vexec.Exec, g *c08Gen, ix string, avoid bool) {
		// one field walks through every type while its neighbours keep the old values
		for i, id := range g.ids[:4] {
			x.VAdd(ix, id, g.vec(), map[string]any{"cat": "red", "order": float64(i), "band": i%2 == 0, "tags": []any{"red", "blue"}})
		}
		chain := []any{float64(1), "red", true, []any{"red", "green"}, 2.5, false, []any{}, "blue", []any{"blue"}}
		for _, key := range []string{"cat", "order", "band", "tags"} {
			for _, v := range chain {
				old := x.M.Idx[ix].Recs[g.ids[0]].Meta[key]
				g.note("set:" + c08KindOf(old) + ">" + c08KindOf(v))
				x.VSetMetadata(ix, g.ids[0], map[string]any{key: v})
			}
		}
		x.VDelete(ix, g.ids[1])
		g.deleted[g.ids[1]] = true
		g.note("delete")
	}},
	{"delete-readd-vacuum", func(x *vexec.Exec, g *c08Gen, ix string, avoid bool) {
		for _, id := range g.ids[:5] {
			x.VAdd(ix, id, g.vec(), map[string]any{"cat": g.str(), "order": g.num(), "band": g.r.Chance(0.5), "tags": g.valueOf("list")})
		}
		for _, id := range g.ids[:3] {
			x.VDelete(ix, id)
			g.deleted[id] = true
			g.note("delete")
		}
		x.VAdd(ix, g.ids[0], g.vec(), map[string]any{"cat": g.num(), "order": g.str()}) // same id, types swapped
		g.note("readd")
		g.note("set:str>num")
		x.Maintenance(ix, "vacuum")
		g.note("vacuum")
		x.VAdd(ix, g.ids[1], g.vec(), nil) // re-add without any metadata
		g.note("readd")
		x.VSetMetadata(ix, g.ids[3], map[string]any{"order": g.str()})
		g.note("set:num>str")
		x.Maintenance(ix, "vacuum")
	}},
	{"boundaries", func(x *vexec.Exec, g *c08Gen, ix string, avoid bool) {
		// equal and adjacent numbers: < vs <= and the B-tree tie-break on node id
		base := g.num()
		for i, id := range g.ids[:6] {
			v := base
			if i >= 3 {
				v = base + float64(i-2)
			}
			x.VAdd(ix, id, g.vec(), map[string]any{"order": v, "band": float64(i)})
		}
		x.VSetMetadata(ix, g.ids[0], map[string]any{"order": base + 1})
		g.note("set:num>num")
		x.VDelete(ix, g.ids[4])
		g.deleted[g.ids[4]] = true
		g.note("delete")
		x.VSetMetadata(ix, g.ids[1], map[string]any{"order": "red"})
		g.note("set:num>str")
	}},
	{"no-metadata", func(x *vexec.Exec, g *c08Gen, ix string, avoid bool) {
		// ids without the field / without any metadata must be matched by !=
		x.VAdd(ix, g.ids[0], g.vec(), nil)
		x.VAdd(ix, g.ids[1], g.vec(), map[string]any{})
		x.VAdd(ix, g.ids[2], g.vec(), map[string]any{"cat": "red"})
		x.VAdd(ix, g.ids[3], g.vec(), map[string]any{"cat": "blue", "order": 1.0})
		x.VAdd(ix, g.ids[4], g.vec(), map[string]any{"order": 1.0})
		x.VDelete(ix, g.ids[2])
		g.deleted[g.ids[2]] = true
		g.note("delete")
		x.VSetMetadata(ix, g.ids[0], map[string]any{"cat": true})
		g.note("set:none>bool")
		x.VSetMetadata(ix, g.ids[3], map[string]any{"cat": 1.0})
		g.note("set:str>num")
	}},
	{"scale", func(x *vexec.Exec, g *c08Gen, ix string, avoid bool) {
		// many ids: the numeric index holds long runs of equal values ("order": 5 values)
		// and many distinct ones ("band") spread over several B-tree nodes, the bitmaps hold
		// runs of ids; added through the concurrent batch path, then type changes, deletes
		// and re-adds in the middle of the id range
		r := g.r
		g.ids = nil
		for i := 0; i < g.big; i++ {
			g.ids = append(g.ids, fmt.Sprintf("s%03d", i))
		}
		base := g.num()
		for lo := 0; lo < len(g.ids); lo += 50 {
			var items []types.BatchObject
			for i := lo; i < min(lo+50, len(g.ids)); i++ {
				m := map[string]any{"order": float64(i % 5), "band": base + float64(i)/4, "cat": c08Vocab[i%len(c08Vocab)]}
				if i%3 == 0 {
					m["tags"] = g.valueOf("list")
				}
				items = append(items, types.BatchObject{Id: g.ids[i], Vector: g.vec(), Metadata: m})
			}
			x.VAddBatch(ix, items)
		}
		for k := 0; k < len(g.ids)/8; k++ {
			id := vkit.Pick(r, g.ids)
			if x.M.Idx[ix].Recs[id] == nil {
				x.VAdd(ix, id, g.vec(), map[string]any{"order": g.str(), "band": float64(r.Intn(5))})
				g.note("readd")
				continue
			}
			switch r.Intn(3) {
			case 0:
				x.VDelete(ix, id)
				g.deleted[id] = true
				g.note("delete")
			case 1:
				x.VSetMetadata(ix, id, map[string]any{"order": g.str(), "cat": float64(r.Intn(5))})
				g.note("set:num>str")
				g.note("set:str>num")
			default:
				x.VSetMetadata(ix, id, map[string]any{"band": float64(r.Intn(5)), "order": float64(r.Intn(5))})
				g.note("set:num>num")
			}
		}
		x.Maintenance(ix, "vacuum")
		g.note("vacuum")
	}},
}

// ---- the check ---------------------------------------------------------------------------

func TestVerifC08(t *testing.T) {
	vkit.Run(t, "C08", func(ctx *vkit.Ctx) {
		ctx.Assume("asserted domain: strings from a non-numeric vocabulary, float64 numbers, booleans, lists of strings; literals: quoted strings, unquoted numbers, (un)quoted booleans")
		ctx.Assume("metadata reaches the engine JSON-normalised (numbers float64); Go int values, Go-typed slices/maps, null, objects, numeric-looking strings, quoted numeric literals and keywords/operators inside quoted literals are judged only for provenance agreement and the =/!= partition (group lenient); null and nested objects occur in the asserted histories only as transients")
		ctx.Assume("a field is named by its exact key; a quoted literal denotes exactly the string between the quotes; a numeric literal is any decimal spelling strconv.ParseFloat reads as the same float64")
		ctx.Assume("with a limit smaller than the answer only 'every returned id satisfies the filter, none twice' is judged; CONTAINS(...) clauses are outside the property's expression language")
		ctx.Assume("a provenance is evaluated only after VGet of every id agrees with the history (primary metadata intact)")
		ctx.Probe(c08Finding, c08ProbeLists)
		ctx.Group("template", len(c08Templates)*ctx.N(6, 50), func(cs *vkit.Case) {
			tp := c08Templates[cs.Idx%len(c08Templates)]
			ctx.Count("template."+tp.name, 1)
			c08Run(ctx, cs, false, tp.run)
		})
		ctx.Group("random", ctx.N(1000, 20000), func(cs *vkit.Case) {
			c08Run(ctx, cs, true, func(x *vexec.Exec, g *c08Gen, ix string, avoid bool) {
				nops := cs.R.Range(12, ctx.N(40, 60))
				for i := 0; i < nops; i++ {
					g.step(ctx, x, ix, avoid)
				}
			})
		})
		ctx.Group("lenient", ctx.N(32, 200), func(cs *vkit.Case) { c08Lenient(ctx, cs) })
		ctx.Group("concurrent", ctx.N(160, 3000), func(cs *vkit.Case) { c08Concurrent(ctx, cs) })
		if ctx.Counter("concurrent.evals") > 0 && ctx.Counter("concurrent.evals.overlapping_a_write") == 0 {
			ctx.Inconclusive("group concurrent: no filter evaluation overlapped a metadata update in this shard")
		}
	})
}

// ---- probe of the recorded finding -------------------------------------------------------

// c08ProbeLists: list-membership filters must give the same answer live, after a snapshot
// restore and after compression.
func c08ProbeLists(cs *vkit.Case) string {
	var failures []string
	run := func(name string, metric distance.DistanceMetric, provenance func(e *engine.Engine, reopen func() *engine.Engine) *engine.Engine) {
		dir := cs.SubDir(name)
		open := func() *engine.Engine {
			e, err := engine.Open(vexec.Options(dir))
			if err != nil {
				cs.Fail("Open: %v", err)
			}
			return e
		}
		e := open()
		defer func() { e.Close() }()
		cs.Op("[%s] VCreate(f,%s,float32)", name, metric)
		if err := e.VCreate("f", metric, 16, 200, distance.Float32, "", nil, nil, nil); err != nil {
			cs.Fail("VCreate: %v", err)
		}
		add := func(id string, v []float32, m map[string]any) {
			cs.Op("[%s] VAdd(f,%s,%v,%s)", name, id, v, vkit.JSON(m))
			if err := e.VAdd("f", id, v, m); err != nil {
				cs.Fail("VAdd(%s): %v", id, err)
			}
		}
		add("a", []float32{1, 0}, map[string]any{"tags": []any{"red", "blue"}, "cat": "x"})
		add("b", []float32{0, 1}, map[string]any{"tags": []any{"green"}})
		add("c", []float32{1, 1}, map[string]any{"cat": "red"})
		check := func(when string) {
			for _, q := range []struct {
				expr string
				want []string
			}{{"tags = 'red'", []string{"a"}}, {"tags != 'red'", []string{"b", "c"}}, {"tags = 'green' OR cat = 'red'", []string{"b", "c"}}} {
				cs.Op("[%s/%s] VFilter(f,%q,100)", name, when, q.expr)
				got, err := e.VFilter("f", q.expr, 100)
				sort.Strings(got)
				if err != nil || !reflect.DeepEqual(append([]string{}, got...), q.want) {
					failures = append(failures, fmt.Sprintf("%s %s: VFilter(%q)=%v err=%v, expected %v", name, when, q.expr, got, err, q.want))
				}
			}
		}
		check("live")
		e = provenance(e, func() *engine.Engine {
			cs.Op("[%s] Close + Open", name)
			if err := e.Close(); err != nil {
				cs.Fail("Close: %v", err)
			}
			return open()
		})
		check("after")
	}
	run("snapshot-restore", distance.Euclidean, func(e *engine.Engine, reopen func() *engine.Engine) *engine.Engine {
		cs.Op("[snapshot-restore] SaveSnapshot")
		if err := e.SaveSnapshot(); err != nil {
			cs.Fail("SaveSnapshot: %v", err)
		}
		return reopen()
	})
	run("compress-f16", distance.Euclidean, func(e *engine.Engine, reopen func() *engine.Engine) *engine.Engine {
		cs.Op("[compress-f16] VCompress(f,float16)")
		if err := e.VCompress("f", distance.Float16); err != nil {
			cs.Fail("VCompress: %v", err)
		}
		return e
	})
	run("compress-int8", distance.Cosine, func(e *engine.Engine, reopen func() *engine.Engine) *engine.Engine {
		cs.Op("[compress-int8] VCompress(f,int8)")
		if err := e.VCompress("f", distance.Int8); err != nil {
			cs.Fail("VCompress: %v", err)
		}
		return e
	})
	return strings.Join(failures, "; ")
}

package engine_test

import (
	"fmt"
	"reflect"
	"sort"
	"strings"
	"sync"
	"sync/atomic"

	"github.com/sanonone/kektordb/internal/zzverif/vexec"
	"github.com/sanonone/kektordb/internal/zzverif/vkit"
	"github.com/sanonone/kektordb/pkg/core/distance"
	"github.com/sanonone/kektordb/pkg/engine"
)

// Group "concurrent" of C08: filters evaluated WHILE other goroutines update the metadata.
//
// "returns precisely the live ids whose current metadata satisfies it": a metadata update
// (VSetMetadata: one call, any number of keys) is one transition of the record's metadata from
// one map to the next; there is no moment at which the record's current metadata is a mix of
// the two. So whatever a filter evaluated concurrently with updates answers about an id, it must
// be the answer for ONE of the maps the id had between the start and the end of the call.
//
// Oracle (no clock): every id is written by exactly one goroutine, which counts `started` before
// and `done` after each of its calls; the map after v calls is known in advance (the op list
// of an id is a function of the case PRNG; only the interleaving is left to the scheduler). A
// reader notes lo = done before its call and hi = started after it: the version the filter
// saw is in [lo, hi]. An id returned must satisfy the expression in at least one of these
// versions; an id not returned by an unlimited VFilter must fail it in at least one of them.
// With lo == hi this is plain equality with the reference. VAdd / VDelete are not single
// transitions of the engine (node first, metadata second): an id whose window contains an add or
// a delete is not judged in that evaluation (counted as concurrent.ids_unjudged).
// After the writers stopped, every expression is evaluated again (equality with the reference
// over the final maps), and once more after Close/Open (the log written under concurrency
// replays to the same answer).

type c08COp struct {
	kind  string         // "set" | "delete" | "add"
	props map[string]any // set: merged; add: the whole metadata
}

// c08Track is one id with the cyclic list of operations its owner applies to it.
type c08Track struct {
	id      string
	vec     []float32
	ops     []c08COp         // op j brings the id from states[j] to states[(j+1)%len]
	states  []map[string]any // nil = not live; states[0] is the state after the initial VAdd
	started atomic.Int64
	done    atomic.Int64
}

func (t *c08Track) stateAt(v int64) map[string]any { return t.states[int(v%int64(len(t.states)))] }

// opAt: the operation that produces version v (v >= 1).
func (t *c08Track) opAt(v int64) c08COp { return t.ops[int((v-1)%int64(len(t.ops)))] }

func c08CopyAny(v any) any {
	switch x := v.(type) {
	case []any:
		out := make([]any, len(x))
		for i := range x {
			out[i] = c08CopyAny(x[i])
		}
		return out
	case map[string]any:
		return c08CopyMap(x)
	}
	return v
}

func c08CopyMap(m map[string]any) map[string]any {
	if m == nil {
		return nil
	}
	out := make(map[string]any, len(m))
	for k, v := range m {
		out[k] = c08CopyAny(v)
	}
	return out
}

// c08NewTrack: m full states over a fixed key set of the id (a merge cannot remove a key); the
// values of a key come from a palette of 2-3 values of any type, so that states share some
// values and differ in others, in one key or in several at once. With churn, one delete + re-add
// is inserted into the cycle.
func c08NewTrack(g *c08Gen, id string, churn bool) *c08Track {
	r := g.r
	t := &c08Track{id: id, vec: g.vec()}
	var keys []string
	for _, k := range g.keys {
		if r.Chance(0.8) {
			keys = append(keys, k)
		}
	}
	if len(keys) < 2 {
		keys = append([]string{}, g.keys[:2]...)
	}
	palette := map[string][]any{}
	for _, k := range keys {
		n := r.Range(2, 3)
		for i := 0; i < n; i++ {
			palette[k] = append(palette[k], g.value())
		}
	}
	m := r.Range(2, 4)
	var full []map[string]any
	for i := 0; i < m; i++ {
		for try := 0; ; try++ {
			s := map[string]any{}
			for _, k := range keys {
				s[k] = vkit.Pick(r, palette[k])
			}
			if i == 0 || try > 20 || !reflect.DeepEqual(s, full[i-1]) {
				full = append(full, s)
				break
			}
		}
	}
	// transition i -> i+1 (cyclic): the keys that differ (or, sometimes, all keys) in ONE call
	step := func(from, to map[string]any) c08COp {
		props := map[string]any{}
		all := r.Chance(0.3)
		for _, k := range keys {
			if all || !reflect.DeepEqual(from[k], to[k]) {
				props[k] = to[k]
			}
		}
		if len(props) == 0 {
			props[keys[0]] = to[keys[0]]
		}
		return c08COp{kind: "set", props: props}
	}
	cut := -1
	if churn {
		cut = r.Intn(m)
	}
	for i := 0; i < m; i++ {
		t.states = append(t.states, full[i])
		next := full[(i+1)%m]
		if i == cut { // delete, then come back with the next state through VAdd
			t.ops = append(t.ops, c08COp{kind: "delete"})
			t.states = append(t.states, nil)
			t.ops = append(t.ops, c08COp{kind: "add", props: next})
			continue
		}
		t.ops = append(t.ops, step(full[i], next))
	}
	return t
}

// c08LitFor writes a literal that the documented semantics compare equal to the stored value v.
func c08LitFor(r *vkit.Rand, v any) (lit, shown string, ok bool) {
	q := vkit.Pick(r, []string{"'", "\""})
	switch x := v.(type) {
	case string:
		return x, q + x + q, true
	case float64:
		s := c08FmtNum(r, x)
		return s, s, true
	case bool:
		s := fmt.Sprint(x)
		if r.Chance(0.4) {
			return s, q + s + q, true
		}
		return s, s, true
	case []any:
		if len(x) == 0 {
			return "", "", false
		}
		s, isStr := x[r.Intn(len(x))].(string)
		if !isStr {
			return "", "", false
		}
		return s, q + s + q, true
	}
	return "", "", false
}

// c08CrossExprs: expressions whose clauses take their literals from DIFFERENT states of one id
// (a conjunction over two keys, a disjunction over the values one key has in every state,
// a conjunction of != over two keys): the expressions whose answer for that id is the same in
// every state or differs exactly when two keys are looked at in two different states.
func c08CrossExprs(g *c08Gen, tracks []*c08Track, n int) []c08Expr {
	r := g.r
	var out []c08Expr
	render := func(blocks [][]c08Clause) c08Expr {
		e := c08Expr{Blocks: blocks}
		var bs []string
		for _, blk := range blocks {
			var ps []string
			for _, c := range blk {
				ps = append(ps, g.renderClause(c))
			}
			bs = append(bs, strings.Join(ps, vkit.Pick(r, []string{" AND ", " and ", " And "})))
		}
		e.Text = strings.Join(bs, vkit.Pick(r, []string{" OR ", " or ", " Or "}))
		return e
	}
	for tries := 0; len(out) < n && tries < 20*n; tries++ {
		t := vkit.Pick(r, tracks)
		var live []map[string]any
		for _, s := range t.states {
			if s != nil {
				live = append(live, s)
			}
		}
		a, b := vkit.Pick(r, live), vkit.Pick(r, live)
		keys := vexec.SortedKeys(a)
		k1, k2 := vkit.Pick(r, keys), vkit.Pick(r, keys)
		clause := func(k, op string, v any) (c08Clause, bool) {
			lit, shown, ok := c08LitFor(r, v)
			return c08Clause{Key: k, Op: op, Lit: lit, Shown: shown}, ok
		}
		switch r.Intn(4) {
		case 0, 1: // k1 <op> a[k1] AND k2 <op> b[k2]
			op := vkit.Pick(r, []string{"=", "=", "!="})
			c1, ok1 := clause(k1, op, a[k1])
			c2, ok2 := clause(k2, vkit.Pick(r, []string{"=", "=", "!="}), b[k2])
			if ok1 && ok2 {
				out = append(out, render([][]c08Clause{{c1, c2}}))
			}
		case 2: // k1 = (value in state 0) OR k1 = (value in state 1) OR ...
			var blocks [][]c08Clause
			good := true
			for _, s := range live {
				c, ok := clause(k1, "=", s[k1])
				good = good && ok
				blocks = append(blocks, []c08Clause{c})
			}
			if good {
				out = append(out, render(blocks))
			}
		default: // (k1 = a[k1] AND k2 = a[k2]) OR (k1 = b[k1] AND k2 = b[k2])
			c1, ok1 := clause(k1, "=", a[k1])
			c2, ok2 := clause(k2, "=", a[k2])
			c3, ok3 := clause(k1, "=", b[k1])
			c4, ok4 := clause(k2, "=", b[k2])
			if ok1 && ok2 && ok3 && ok4 {
				out = append(out, render([][]c08Clause{{c1, c2}, {c3, c4}}))
			}
		}
	}
	return out
}

type c08CJob struct {
	expr int
	mode int // 0 VFilter(limit > n), 1 VFilter(small limit), 2 VSearch(k = n)
	q    []float32
}

type c08CResult struct {
	evals, overlapping, slack, unjudged, nonempty int64
	failure                                       string
	detail                                        map[string]any
}

func c08Concurrent(ctx *vkit.Ctx, cs *vkit.Case) {
	r := cs.R
	g := c08NewGen(r)
	if r.Chance(0.35) {
		g.keys = c08AltKeys(r)
	}
	dir := cs.SubDir("data")
	open := func() *engine.Engine {
		cs.Op("Open")
		e, err := engine.Open(vexec.Options(dir))
		if err != nil {
			cs.Fail("engine.Open: %v", err)
		}
		return e
	}
	e := open()
	defer func() { e.Close() }()
	const ix = "f"
	cfg := c08Cfg(r, ix)
	cs.Op("VCreate(%s,%s,%s,M=%d,efC=%d,lang=%q)", ix, cfg.Metric, cfg.Prec, cfg.M, cfg.EfC, cfg.Lang)
	if err := e.VCreate(ix, cfg.Metric, cfg.M, cfg.EfC, cfg.Prec, cfg.Lang, nil, nil, nil); err != nil {
		cs.Fail("VCreate: %v", err)
	}

	// ids, owners, operation lists
	nW := r.Range(1, 3)
	churnW := -1
	if r.Chance(0.5) {
		churnW = nW // one more writer that also deletes and re-adds its ids
		nW++
	}
	var tracks []*c08Track
	owned := make([][]*c08Track, nW)
	for i, id := range g.ids {
		w := i % nW
		t := c08NewTrack(g, id, w == churnW)
		tracks = append(tracks, t)
		owned[w] = append(owned[w], t)
		cs.Op("VAdd(%s,%s,%v,%s); then cyclically by writer %d: %s", ix, id, t.vec, vkit.JSON(t.states[0]), w, vkit.JSON(c08OpsShown(t)))
		if err := e.VAdd(ix, id, t.vec, c08CopyMap(t.states[0])); err != nil {
			cs.Fail("VAdd(%s): %v", id, err)
		}
	}
	byID := map[string]int{}
	for i, t := range tracks {
		byID[t.id] = i
	}

	// expressions: random ones over the values of all planned states + cross-state ones
	var p c08Pools
	{
		ss, ns := map[string]bool{}, map[float64]bool{}
		for _, t := range tracks {
			for _, s := range t.states {
				for _, v := range s {
					switch x := v.(type) {
					case string:
						ss[x] = true
					case float64:
						ns[x] = true
					case []any:
						for _, el := range x {
							if s, ok := el.(string); ok {
								ss[s] = true
							}
						}
					}
				}
			}
		}
		for s := range ss {
			p.strs = append(p.strs, s)
		}
		sort.Strings(p.strs)
		for f := range ns {
			p.nums = append(p.nums, f)
		}
		sort.Float64s(p.nums)
	}
	var exprs []c08Expr
	nRandom, nCross := ctx.N(16, 24), ctx.N(16, 24)
	for i := 0; i < nRandom; i++ {
		exprs = append(exprs, g.expr(p))
	}
	exprs = append(exprs, c08CrossExprs(g, tracks, nCross)...)
	for _, ex := range exprs {
		cs.Op("expr %q", ex.Text)
	}
	// match[e][t][s]: does state s of track t satisfy expression e
	match := make([][][]bool, len(exprs))
	for ei, ex := range exprs {
		match[ei] = make([][]bool, len(tracks))
		for ti, t := range tracks {
			match[ei][ti] = make([]bool, len(t.states))
			for si, s := range t.states {
				match[ei][ti][si] = s != nil && ex.Match(s)
			}
		}
	}

	// reader schedules (drawn here: the goroutines use no PRNG)
	nR := r.Range(2, 4)
	perReader := ctx.N(250, 400)
	jobs := make([][]c08CJob, nR)
	for ri := range jobs {
		for j := 0; j < perReader; j++ {
			job := c08CJob{expr: r.Intn(len(exprs)), mode: vkit.Pick(r, []int{0, 0, 0, 0, 1, 2})}
			if job.mode == 2 {
				job.q = g.vec()
			}
			jobs[ri] = append(jobs[ri], job)
		}
	}
	n := len(tracks)
	limit := 10*n + 10
	cs.Op("%d writers (writer %d also deletes and re-adds) apply their lists cyclically while %d readers evaluate %d filters each: VFilter(%s, expr, %d) / VFilter(limit 1) / VSearch(k=%d, expr)", nW, churnW, nR, perReader, ix, limit, n)

	var stop atomic.Bool
	var wgW, wgR sync.WaitGroup
	writerErr := make([]string, nW)
	const maxOpsPerWriter = 200000
	start := make(chan struct{})
	for w := 0; w < nW; w++ {
		wgW.Add(1)
		go func(w int) {
			defer wgW.Done()
			<-start
			for k := 0; k < maxOpsPerWriter && !stop.Load(); k++ {
				t := owned[w][k%len(owned[w])]
				v := t.done.Load() + 1
				op := t.opAt(v)
				t.started.Add(1)
				var err error
				switch op.kind {
				case "set":
					err = e.VSetMetadata(ix, t.id, c08CopyMap(op.props))
				case "delete":
					err = e.VDelete(ix, t.id)
				default:
					err = e.VAdd(ix, t.id, t.vec, c08CopyMap(op.props))
				}
				if err != nil {
					writerErr[w] = fmt.Sprintf("writer %d: operation %d on %s (%s %s) failed: %v", w, v, t.id, op.kind, vkit.JSON(op.props), err)
					t.started.Add(-1)
					stop.Store(true)
					return
				}
				t.done.Add(1)
			}
		}(w)
	}
	results := make([]c08CResult, nR)
	for ri := 0; ri < nR; ri++ {
		wgR.Add(1)
		go func(ri int) {
			defer wgR.Done()
			res := &results[ri]
			lo := make([]int64, n)
			hi := make([]int64, n)
			<-start
			for _, job := range jobs[ri] {
				if stop.Load() {
					return
				}
				ex := exprs[job.expr]
				for i, t := range tracks {
					lo[i] = t.done.Load()
				}
				var got []string
				var err error
				var call string
				switch job.mode {
				case 0:
					call = fmt.Sprintf("VFilter(%s, %q, %d)", ix, ex.Text, limit)
					got, err = e.VFilter(ix, ex.Text, limit)
				case 1:
					call = fmt.Sprintf("VFilter(%s, %q, 1)", ix, ex.Text)
					got, err = e.VFilter(ix, ex.Text, 1)
				default:
					call = fmt.Sprintf("VSearch(%s, k=%d, filter=%q)", ix, n, ex.Text)
					got, err = e.VSearch(ix, job.q, n, ex.Text, "", 0, 1.0, nil)
				}
				for i, t := range tracks {
					hi[i] = t.started.Load()
				}
				res.evals++
				if err != nil {
					res.failure = fmt.Sprintf("%s rejected a well-formed expression while the metadata was being updated: %v", call, err)
					stop.Store(true)
					return
				}
				if len(got) > 0 {
					res.nonempty++
				}
				in := make(map[string]int, len(got))
				for _, id := range got {
					in[id]++
					if _, known := byID[id]; !known {
						res.failure = fmt.Sprintf("%s returned %q, which is not an id of the index: %v", call, id, got)
						stop.Store(true)
						return
					}
				}
				overlap, slack := false, false
				for i, t := range tracks {
					judged := true
					for v := lo[i] + 1; v <= hi[i] && v <= lo[i]+int64(len(t.ops)); v++ {
						if t.opAt(v).kind != "set" {
							judged = false
						}
					}
					if !judged {
						res.unjudged++
						continue
					}
					if hi[i] > lo[i] {
						overlap = true
					}
					anyM, allM := false, true
					for v := lo[i]; v <= hi[i] && v < lo[i]+int64(len(t.states)); v++ {
						if match[job.expr][i][int(v%int64(len(t.states)))] {
							anyM = true
						} else {
							allM = false
						}
					}
					if anyM != allM {
						slack = true
					}
					cnt := in[t.id]
					bad := ""
					switch {
					case cnt > 1:
						bad = fmt.Sprintf("returned %s %d times", t.id, cnt)
					case cnt == 1 && !anyM:
						bad = fmt.Sprintf("returned %s, whose metadata satisfied the expression in none of the states it had during the call", t.id)
					case cnt == 0 && allM && job.mode == 0:
						bad = fmt.Sprintf("did not return %s, whose metadata satisfied the expression in every state it had during the call", t.id)
					}
					if bad != "" {
						var window []string
						for v := lo[i]; v <= hi[i] && v < lo[i]+int64(len(t.states)); v++ {
							window = append(window, fmt.Sprintf("version %d: %s", v, vexec.CanonJSON(t.stateAt(v))))
						}
						res.failure = fmt.Sprintf("%s, evaluated while other goroutines updated the metadata, %s (result %v; states of %s between the start and the end of the call: %s) - the answer mixes two states of one record, each VSetMetadata call being one transition",
							call, bad, got, t.id, strings.Join(window, " | "))
						res.detail = map[string]any{"call": call, "result": got, "id": t.id, "versions_done_before_call": lo[i], "versions_started_after_call": hi[i],
							"states_in_window": window, "operation_cycle_of_id": c08OpsShown(t), "expression_parsed": ex.Blocks}
						stop.Store(true)
						return
					}
				}
				if overlap {
					res.overlapping++
				}
				if slack {
					res.slack++
				}
			}
		}(ri)
	}
	close(start)
	wgR.Wait()
	stop.Store(true)
	wgW.Wait()

	var total c08CResult
	for _, res := range results {
		total.evals += res.evals
		total.overlapping += res.overlapping
		total.slack += res.slack
		total.unjudged += res.unjudged
		total.nonempty += res.nonempty
	}
	var updates int64
	for _, t := range tracks {
		updates += t.done.Load()
	}
	ctx.Count("concurrent.evals", total.evals)
	ctx.Count("concurrent.evals.overlapping_a_write", total.overlapping)
	ctx.Count("concurrent.evals.answer_depends_on_version", total.slack)
	ctx.Count("concurrent.evals.nonempty", total.nonempty)
	ctx.Count("concurrent.ids_unjudged_add_or_delete_in_window", total.unjudged)
	ctx.Count("concurrent.updates_applied", updates)
	cs.Op("writers stopped after %d operations; %d evaluations, %d of them overlapped a write of a judged id", updates, total.evals, total.overlapping)
	for _, msg := range writerErr {
		if msg != "" {
			cs.Fail("%s", msg)
		}
	}
	for _, res := range results {
		if res.failure != "" {
			for k, v := range res.detail {
				cs.Attach(k, v)
			}
			cs.Fail("%s", res.failure)
		}
	}

	// quiescent: equality with the reference over the final maps, live and after log replay
	final := map[string]map[string]any{}
	for _, t := range tracks {
		if s := t.stateAt(t.done.Load()); s != nil {
			final[t.id] = s
		}
	}
	quiescent := func(prov string) {
		cs.Op("[%s] evaluate expr[0..%d): VFilter(%s, expr, %d)", prov, len(exprs), ix, limit)
		for _, t := range tracks {
			d, err := e.VGet(ix, t.id)
			want := final[t.id]
			switch {
			case want == nil && err == nil:
				cs.Fail("[%s] VGet(%s) succeeds for an id whose last operation was a delete (metadata %s)", prov, t.id, vexec.CanonJSON(d.Metadata))
			case want != nil && err != nil:
				cs.Fail("[%s] VGet(%s) fails for a live id: %v", prov, t.id, err)
			case want != nil && !reflect.DeepEqual(vexec.NormMeta(d.Metadata), want):
				cs.Fail("[%s] VGet(%s) metadata %s, the operations applied (%d of the cycle %s) give %s", prov, t.id, vexec.CanonJSON(vexec.NormMeta(d.Metadata)), t.done.Load(), vkit.JSON(c08OpsShown(t)), vexec.CanonJSON(want))
			}
		}
		for _, ex := range exprs {
			want := map[string]bool{}
			for id, s := range final {
				if ex.Match(s) {
					want[id] = true
				}
			}
			got, err := e.VFilter(ix, ex.Text, limit)
			ctx.Count("concurrent.quiescent.calls", 1)
			if err != nil {
				cs.Fail("[%s] VFilter(%q) rejected a well-formed expression: %v", prov, ex.Text, err)
			}
			gotSet := map[string]bool{}
			for _, id := range got {
				gotSet[id] = true
			}
			if len(got) != len(gotSet) || (!reflect.DeepEqual(gotSet, want) && len(gotSet)+len(want) > 0) {
				cs.Attach("provenance", prov)
				cs.Attach("expression_parsed", ex.Blocks)
				cs.Attach("live_metadata", final)
				cs.Fail("[%s] VFilter(%q) = %v after the concurrent updates stopped, documented semantics over the final metadata give %v (final metadata %s)",
					prov, ex.Text, got, vexec.SortedKeys(want), vexec.CanonJSON(final))
			}
		}
	}
	quiescent("after-concurrent-updates")
	cs.Op("Close")
	if err := e.Close(); err != nil {
		cs.Fail("Close: %v", err)
	}
	e = open()
	quiescent("after-concurrent-updates+restart")

	ctx.Eval(1)
	// non-trivial (a function of the case alone, not of the schedule): some expression is satisfied by
	// one state of some id and not by another one (how often an evaluation really overlapped a
	// write is measured by the concurrent.evals.* counters)
	nontrivial := false
	for ei := range match {
		for ti := range match[ei] {
			for si := range match[ei][ti] {
				if tracks[ti].states[si] != nil && tracks[ti].states[0] != nil && match[ei][ti][si] != match[ei][ti][0] {
					nontrivial = true
				}
			}
		}
	}
	if nontrivial {
		st := map[string]any{}
		for _, t := range tracks {
			st[t.id] = c08OpsShown(t)
		}
		ctx.Distinct("concurrent|" + vexec.CanonJSON(st))
	}
	ctx.Sample("concurrent", 2, map[string]any{"writers": nW, "readers": nR, "updates_applied": updates, "evaluations": total.evals,
		"overlapping": total.overlapping, "expressions": []string{exprs[0].Text, exprs[len(exprs)-1].Text}, "cycle_of_" + tracks[0].id: c08OpsShown(tracks[0])})
}

func c08OpsShown(t *c08Track) []string {
	var out []string
	for _, op := range t.ops {
		switch op.kind {
		case "delete":
			out = append(out, "VDelete")
		case "add":
			out = append(out, "VAdd "+vkit.JSON(op.props))
		default:
			out = append(out, "VSetMetadata "+vkit.JSON(op.props))
		}
	}
	return out
}

var _ = distance.Euclidean

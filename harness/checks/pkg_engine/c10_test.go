package engine_test

import (
	"fmt"
	"strings"
	"testing"
	"time"

	"github.com/sanonone/kektordb/internal/zzverif/vexec"
	"github.com/sanonone/kektordb/internal/zzverif/vkit"
	"github.com/sanonone/kektordb/pkg/core/distance"
	"github.com/sanonone/kektordb/pkg/core/hnsw"
)

// c10Views checks the engine's graph views now, at every history boundary and one
// nanosecond before / after each boundary.
func c10Views(cs *vkit.Case, x *vexec.Exec, where string) int {
	if msg := x.BindGraph(); msg != "" {
		cs.Fail("%s: %s", where, msg)
	}
	n := 0
	times := []int64{0}
	for _, st := range x.M.Stamps() {
		times = append(times, st-1, st, st+1)
	}
	for _, t := range times {
		if msg := x.CheckGraphViews(t); msg != "" {
			cs.Fail("%s: %s", where, msg)
		}
		n++
	}
	return n
}

// C10 (engine part) — random link/unlink histories through the engine API with restarts.
func TestVerifC10Engine(t *testing.T) {
	vkit.Run(t, "C10", func(ctx *vkit.Ctx) {
		ctx.Group("engine", ctx.N(1200, 20000), func(cs *vkit.Case) {
			x := vexec.NewExec(cs, cs.SubDir("data"))
			defer func() {
				if x.E != nil {
					x.E.Close()
				}
			}()
			r := cs.R
			ix := "g"
			x.VCreate(vexec.IndexCfg{Name: ix, Metric: distance.Euclidean, Prec: distance.Float32, M: 4, EfC: 8})
			nodes := []string{"a", "b", "c", "d"}
			rels := []string{"r", "s"}
			nops := r.Range(10, ctx.N(40, 60))
			restarts := 0
			for i := 0; i < nops; i++ {
				src, tgt, rel := vkit.Pick(r, nodes), vkit.Pick(r, nodes), vkit.Pick(r, rels)
				inv := ""
				if r.Chance(0.3) {
					inv = "inv_" + rel
				}
				switch p := r.Intn(100); {
				case p < 50:
					var props map[string]any
					switch r.Intn(3) {
					case 1:
						props = map[string]any{"k": vkit.Pick(r, []string{"v1", "v2"})}
					case 2:
						props = map[string]any{"n": float64(r.Intn(2))}
					}
					x.VLink(ix, src, tgt, rel, inv, float32(r.Intn(3)), props)
				case p < 72:
					x.VUnlink(ix, src, tgt, rel, inv, false)
				case p < 82:
					x.VUnlink(ix, src, tgt, rel, inv, true)
				case p < 86:
					if x.M.Idx[ix].Cfg.Maint == nil || x.M.Idx[ix].Cfg.Maint.GraphRetention == 0 {
						mc := hnsw.DefaultMaintenanceConfig()
						mc.GraphRetention = 1
						x.VUpdateIndexConfig(ix, mc)
					}
					x.GraphVacuumNow()
				case p < 90:
					x.SaveSnapshot()
				case p < 94:
					x.RewriteAOF()
				default:
					c10Views(cs, x, "before restart")
					c01Restart(ctx, cs, x, fmt.Sprintf("restart after op %d", i))
					restarts++
				}
				ctx.Count("graph_ops", 1)
				if i%4 == 3 {
					ctx.Count("views_checked", int64(c10Views(cs, x, fmt.Sprintf("after op %d", i))))
				}
			}
			ctx.Count("views_checked", int64(c10Views(cs, x, "end of history")))
			c01Restart(ctx, cs, x, "final restart")
			ctx.Count("views_checked", int64(c10Views(cs, x, "after final restart")))
			ctx.Eval(1)
			key := x.KindKey()
			if strings.Contains(key, "vunlink") && strings.Contains(key, "vlink") {
				ctx.Distinct(key)
			}
			ctx.Sample("history", 2, cs.Ops()[:min(len(cs.Ops()), 30)])
		})
		// A real retention window: versions soft-deleted before now-R are pruned, those
		// soft-deleted inside the window must stay queryable as-of, live and after every kind
		// of restart (the log carries the prune).
		ctx.Group("retention", ctx.N(32, 400), func(cs *vkit.Case) {
			x := vexec.NewExec(cs, cs.SubDir("data"))
			defer func() {
				if x.E != nil {
					x.E.Close()
				}
			}()
			r := cs.R
			ix := "g"
			ret := time.Duration(vkit.Pick(r, []int{150, 250, 400})) * time.Millisecond
			mc := hnsw.DefaultMaintenanceConfig()
			mc.GraphRetention = hnsw.Duration(ret)
			x.VCreate(vexec.IndexCfg{Name: ix, Metric: distance.Euclidean, Prec: distance.Float32, M: 4, EfC: 8, Maint: &mc})
			nodes := []string{"a", "b", "c", "d"}
			phase := func(n int) {
				for i := 0; i < n; i++ {
					src, tgt, rel := vkit.Pick(r, nodes), vkit.Pick(r, nodes), vkit.Pick(r, []string{"r", "s"})
					inv := ""
					if r.Chance(0.3) {
						inv = "inv_" + rel
					}
					switch p := r.Intn(100); {
					case p < 50:
						var props map[string]any
						if r.Chance(0.5) {
							props = map[string]any{"k": vkit.Pick(r, []string{"v1", "v2"})}
						}
						x.VLink(ix, src, tgt, rel, inv, float32(r.Intn(3)), props)
					case p < 90:
						x.VUnlink(ix, src, tgt, rel, inv, false)
					default:
						x.VUnlink(ix, src, tgt, rel, inv, true)
					}
				}
			}
			phase(r.Range(6, 14))
			x.Settle()
			time.Sleep(ret + 120*time.Millisecond)
			phase(r.Range(4, 10))
			x.Settle()
			if msg := x.BindGraph(); msg != "" {
				cs.Fail("before windowed vacuum: %s", msg)
			}
			before := len(x.M.Stamps())
			if !x.GraphVacuumWindow() {
				ctx.Count("retention.ambiguous_cutoff", 1)
				return
			}
			ctx.Count("retention.stamps_pruned", int64(before-len(x.M.Stamps())))
			ctx.Count("views_checked", int64(c10Views(cs, x, "after windowed vacuum")))
			how := cs.Idx % 3
			switch how {
			case 0:
				c01Restart(ctx, cs, x, "plain restart after windowed vacuum")
			case 1:
				x.RewriteAOF()
				c01Restart(ctx, cs, x, "compaction + restart after windowed vacuum")
			case 2:
				x.SaveSnapshot()
				c01Restart(ctx, cs, x, "snapshot + restart after windowed vacuum")
			}
			ctx.Count("views_checked", int64(c10Views(cs, x, "after restart")))
			phase(3)
			c01Restart(ctx, cs, x, "second restart")
			ctx.Count("views_checked", int64(c10Views(cs, x, "after second restart")))
			ctx.Eval(1)
			ctx.Distinct(fmt.Sprintf("retention/%v/how%d/%s", ret, how, x.KindKey()))
		})
	})
}

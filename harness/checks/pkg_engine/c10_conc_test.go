package engine_test

import (
	"fmt"
	"runtime"
	"sort"
	"strings"
	"sync"
	"sync/atomic"
	"testing"
	"time"

	"github.com/sanonone/kektordb/internal/zzverif/vexec"
	"github.com/sanonone/kektordb/internal/zzverif/vkit"
	"github.com/sanonone/kektordb/pkg/core/distance"
	"github.com/sanonone/kektordb/pkg/engine"
	"github.com/sanonone/kektordb/pkg/verifhook"
)

// concYields installs seed-determined sleeps / yields at every hook point (the same scheme
// as C13) and returns the hit counter.
func concYields(r *vkit.Rand) *atomic.Uint32 {
	salt := uint32(r.Intn(1 << 30))
	hits := new(atomic.Uint32)
	verifhook.SetGlobal(func(name string, _ any) {
		h := hits.Add(1)
		switch (h*2654435761 + salt) % 11 {
		case 0:
			time.Sleep(time.Duration((h*40503+salt)%200) * time.Microsecond)
		case 1, 2:
			runtime.Gosched()
		}
	})
	return hits
}

type c10cOp struct {
	W, I          int
	Kind          string // link | unlink | hardunlink
	Src, Tgt, Rel string
	Inv           string
	Weight        float32
	Props         string
	Lo, Hi        int64
	Err           error
}

type c10cVer struct {
	Src, Tgt, Rel string
	Weight        float32
	Props         string
	C, D          int64
}

func c10cVersions(e *engine.Engine) []c10cVer {
	var out []c10cVer
	e.DB.IterateGraphEdges(func(source, target, rel string, weight float32, props []byte, c, d int64) {
		out = append(out, c10cVer{source, target, rel, weight, string(props), c, d})
	})
	sort.Slice(out, func(i, j int) bool {
		a, b := out[i], out[j]
		if a.Src != b.Src {
			return a.Src < b.Src
		}
		if a.Rel != b.Rel {
			return a.Rel < b.Rel
		}
		if a.Tgt != b.Tgt {
			return a.Tgt < b.Tgt
		}
		if a.C != b.C {
			return a.C < b.C
		}
		return a.D < b.D
	})
	return out
}

func (v c10cVer) String() string {
	if len(v.Props) > 48 {
		v.Props = v.Props[:48] + "…"
	}
	return fmt.Sprintf("%s -[%s w=%v p=%s c=%d d=%d]-> %s", v.Src, v.Rel, v.Weight, v.Props, v.C, v.D, v.Tgt)
}

// c10cHistoryLaws checks what the property says about the stored history, for whatever
// order the concurrent calls were applied in: per edge the versions form a chain of
// disjoint life times with at most one open version, and every view (outgoing, incoming,
// current, as of every boundary) shows exactly the versions whose life time contains the
// queried instant.
func c10cHistoryLaws(e *engine.Engine, ix string, nodes, rels []string, where string) (string, int) {
	vers := c10cVersions(e)
	type ek struct{ s, r, t string }
	by := map[ek][]c10cVer{}
	stampSet := map[int64]bool{}
	for _, v := range vers {
		k := ek{v.Src, v.Rel, v.Tgt}
		by[k] = append(by[k], v)
		stampSet[v.C] = true
		if v.D != 0 {
			stampSet[v.D] = true
		}
	}
	for k, vs := range by {
		open := 0
		for i, v := range vs {
			if v.C <= 0 {
				return fmt.Sprintf("%s: stored edge version without a creation stamp: %v", where, v), 0
			}
			if v.D != 0 && v.D < v.C {
				return fmt.Sprintf("%s: edge version deleted before it was created: %v", where, v), 0
			}
			if v.D == 0 {
				open++
			}
			if i+1 < len(vs) {
				nx := vs[i+1]
				if v.D == 0 || v.D > nx.C {
					return fmt.Sprintf("%s: versions of edge %s -[%s]-> %s overlap: %v and %v", where, k.s, k.r, k.t, v, nx), 0
				}
			}
		}
		if open > 1 {
			return fmt.Sprintf("%s: edge %s -[%s]-> %s has %d current versions: %v", where, k.s, k.r, k.t, open, vs), 0
		}
	}
	stamps := make([]int64, 0, len(stampSet))
	for s := range stampSet {
		stamps = append(stamps, s)
	}
	sort.Slice(stamps, func(i, j int) bool { return stamps[i] < stamps[j] })
	times := []int64{0}
	step := 1
	if len(stamps) > 24 {
		step = len(stamps) / 24
	}
	for i := 0; i < len(stamps); i += step {
		times = append(times, stamps[i]-1, stamps[i], stamps[i]+1)
	}
	views := 0
	for _, t := range times {
		for _, n := range nodes {
			gid := vexec.GraphID(ix, n)
			for _, rel := range rels {
				var wantOut, wantIn []string
				inSet := map[string]bool{}
				for _, v := range vers {
					if v.Rel != rel || !vexec.ActiveAt(v.C, v.D, t) {
						continue
					}
					if v.Src == gid {
						wantOut = append(wantOut, fmt.Sprintf("%s|w=%v|p=%s|c=%d|d=%d", vexec.NodeOf(v.Tgt), v.Weight, v.Props, v.C, v.D))
					}
					if v.Tgt == gid {
						inSet[vexec.NodeOf(v.Src)] = true
					}
				}
				for s := range inSet {
					wantIn = append(wantIn, s)
				}
				sort.Strings(wantOut)
				sort.Strings(wantIn)
				edges, _ := e.VGetEdges(ix, n, rel, t)
				var gotOut []string
				for _, ed := range edges {
					gotOut = append(gotOut, fmt.Sprintf("%s|w=%v|p=%s|c=%d|d=%d", ed.TargetID, ed.Weight, string(ed.Props), ed.CreatedAt, ed.DeletedAt))
				}
				sort.Strings(gotOut)
				if strings.Join(gotOut, ";") != strings.Join(wantOut, ";") {
					return fmt.Sprintf("%s: VGetEdges(%s,%s,%s,@%d)=%v but the stored versions active then are %v", where, ix, n, rel, t, gotOut, wantOut), views
				}
				inc, _ := e.VGetIncomingEdges(ix, n, rel, t)
				var gotIn, gotInFull []string
				for _, ed := range inc {
					gotIn = append(gotIn, ed.TargetID)
					gotInFull = append(gotInFull, fmt.Sprintf("%s|w=%v|p=%s|c=%d|d=%d", ed.TargetID, ed.Weight, string(ed.Props), ed.CreatedAt, ed.DeletedAt))
				}
				sort.Strings(gotIn)
				sort.Strings(gotInFull)
				if strings.Join(gotIn, ";") != strings.Join(wantIn, ";") {
					return fmt.Sprintf("%s: VGetIncomingEdges(%s,%s,%s,@%d) sources=%v but the outgoing versions active then point to it from %v", where, ix, n, rel, t, gotIn, wantIn), views
				}
				var wantInFull []string
				for _, v := range vers {
					if v.Rel == rel && v.Tgt == gid && vexec.ActiveAt(v.C, v.D, t) {
						wantInFull = append(wantInFull, fmt.Sprintf("%s|w=%v|p=%s|c=%d|d=%d", vexec.NodeOf(v.Src), v.Weight, v.Props, v.C, v.D))
					}
				}
				sort.Strings(wantInFull)
				if len(wantInFull) == len(gotInFull) && strings.Join(gotInFull, ";") != strings.Join(wantInFull, ";") {
					return fmt.Sprintf("%s: VGetIncomingEdges(%s,%s,%s,@%d) shows versions %.300v, the stored versions active then are %.300v", where, ix, n, rel, t, gotInFull, wantInFull), views
				}
				if t == 0 {
					links, _ := e.VGetLinks(ix, n, rel)
					sort.Strings(links)
					var wl []string
					for _, v := range vers {
						if v.Rel == rel && v.Src == gid && v.D == 0 {
							wl = append(wl, vexec.NodeOf(v.Tgt))
						}
					}
					sort.Strings(wl)
					if strings.Join(links, ";") != strings.Join(wl, ";") {
						return fmt.Sprintf("%s: VGetLinks(%s,%s,%s)=%v, current stored versions point to %v", where, ix, n, rel, links, wl), views
					}
					incNow, _ := e.VGetIncoming(ix, n, rel)
					sort.Strings(incNow)
					if strings.Join(incNow, ";") != strings.Join(wantIn, ";") {
						return fmt.Sprintf("%s: VGetIncoming(%s,%s,%s)=%v, current outgoing versions point to it from %v", where, ix, n, rel, incNow, wantIn), views
					}
				}
				views++
			}
		}
	}
	return "", views
}

// C10 (concurrent part) — the statement ranges over every sequence of link and unlink
// operations; the order in which overlapping calls take effect is one such sequence, and
// the stored history must describe it consistently.
func TestVerifC10Conc(t *testing.T) {
	vkit.Run(t, "C10", func(ctx *vkit.Ctx) {
		ctx.Group("conc", ctx.N(192, 3200), func(cs *vkit.Case) {
			defer verifhook.Reset()
			r := cs.R
			procs := vkit.Pick(r, []int{2, 4, 16})
			prev := runtime.GOMAXPROCS(procs)
			defer runtime.GOMAXPROCS(prev)
			dir := cs.SubDir("data")
			e, err := engine.Open(vexec.Options(dir))
			if err != nil {
				cs.Fail("open: %v", err)
			}
			closed := false
			defer func() {
				if !closed {
					e.Close()
				}
			}()
			ix := "g"
			if err := e.VCreate(ix, distance.Euclidean, 4, 8, distance.Float32, "", nil, nil, nil); err != nil {
				cs.Fail("VCreate: %v", err)
			}
			nodes := []string{"a", "b"}
			if r.Chance(0.4) {
				nodes = append(nodes, "c")
			}
			rels := []string{"r"}
			if r.Chance(0.3) {
				rels = append(rels, "s")
			}
			allRels := append([]string{}, rels...)
			useInv := r.Chance(0.35)
			if useInv {
				for _, rel := range rels {
					allRels = append(allRels, "inv_"+rel)
				}
			}
			hardAllowed := r.Chance(0.5)
			nW := r.Range(2, 5)
			per := r.Range(8, ctx.N(40, 60))
			bigProps := r.Chance(0.4) // a large property document makes one call slow to prepare
			cs.Op("workers=%d ops/worker=%d nodes=%v rels=%v inverse=%v hard=%v bigprops=%v GOMAXPROCS=%d", nW, per, nodes, rels, useInv, hardAllowed, bigProps, procs)
			hits := concYields(r)
			ops := make([][]c10cOp, nW)
			var wg sync.WaitGroup
			start := make(chan struct{})
			for w := 0; w < nW; w++ {
				wr := vkit.NewRand(uint64(r.Intn(1<<30)), uint64(w))
				wg.Add(1)
				go func(w int, wr *vkit.Rand) {
					defer wg.Done()
					<-start
					for i := 0; i < per; i++ {
						ctx.Touch()
						op := c10cOp{W: w, I: i, Src: vkit.Pick(wr, nodes), Tgt: vkit.Pick(wr, nodes), Rel: vkit.Pick(wr, rels)}
						if useInv && wr.Chance(0.5) {
							op.Inv = "inv_" + op.Rel
						}
						switch p := wr.Intn(100); {
						case p < 60:
							op.Kind = "link"
							op.Weight = float32(1 + w*1000 + i) // unique per call: a version names the call that made it
							var props map[string]any
							if wr.Chance(0.5) {
								props = map[string]any{"by": fmt.Sprintf("w%d.%d", w, i)}
								if bigProps && wr.Chance(0.3) {
									// string values are capped at 4096 characters; a list of them is not
									var doc []any
									for k, n := 0, wr.Range(2, 60); k < n; k++ {
										doc = append(doc, strings.Repeat("x", 1000))
									}
									props["doc"] = doc
								}
							}
							op.Lo = time.Now().UnixNano()
							op.Err = e.VLink(ix, op.Src, op.Tgt, op.Rel, op.Inv, op.Weight, props)
							op.Hi = time.Now().UnixNano()
						case p < 90 || !hardAllowed:
							op.Kind = "unlink"
							op.Lo = time.Now().UnixNano()
							op.Err = e.VUnlink(ix, op.Src, op.Tgt, op.Rel, op.Inv, false)
							op.Hi = time.Now().UnixNano()
						default:
							op.Kind = "hardunlink"
							op.Lo = time.Now().UnixNano()
							op.Err = e.VUnlink(ix, op.Src, op.Tgt, op.Rel, op.Inv, true)
							op.Hi = time.Now().UnixNano()
						}
						ops[w] = append(ops[w], op)
					}
				}(w, wr)
			}
			close(start)
			wg.Wait()
			verifhook.SetGlobal(nil)
			nOps := 0
			for w := range ops {
				for _, op := range ops[w] {
					cs.Op("w%d.%d %s %s->%s %s inv=%q w=%v [%d,%d] err=%v", op.W, op.I, op.Kind, op.Src, op.Tgt, op.Rel, op.Inv, op.Weight, op.Lo, op.Hi, op.Err)
					if op.Err != nil {
						cs.Fail("w%d.%d %s %s->%s %s returned an error: %v", op.W, op.I, op.Kind, op.Src, op.Tgt, op.Rel, op.Err)
					}
					nOps++
				}
			}
			ctx.Count("conc.graph_ops", int64(nOps))
			ctx.Count("conc.hook_hits", int64(hits.Load()))

			// (1) history laws on the live engine
			msg, views := c10cHistoryLaws(e, ix, nodes, allRels, "after the concurrent calls")
			if msg != "" {
				cs.Attach("versions", fmt.Sprint(c10cVersions(e)))
				cs.Fail("%s", msg)
			}
			ctx.Count("conc.views_checked", int64(views))
			// (2) every version names the call that made it, and carries a stamp taken while
			// that call was running; without hard unlinks every acknowledged link left a version
			vers := c10cVersions(e)
			byWeight := map[float32][]c10cVer{}
			for _, v := range vers {
				byWeight[v.Weight] = append(byWeight[v.Weight], v)
			}
			for w := range ops {
				for _, op := range ops[w] {
					if op.Kind != "link" {
						continue
					}
					vs := byWeight[op.Weight]
					if len(vs) == 0 && !hardAllowed {
						cs.Fail("acknowledged VLink w%d.%d %s->%s %s (weight %v) left no edge version although nothing erases versions in this history", op.W, op.I, op.Src, op.Tgt, op.Rel, op.Weight)
					}
					for _, v := range vs {
						fwd := v.Src == vexec.GraphID(ix, op.Src) && v.Tgt == vexec.GraphID(ix, op.Tgt) && v.Rel == op.Rel
						inv := op.Inv != "" && v.Src == vexec.GraphID(ix, op.Tgt) && v.Tgt == vexec.GraphID(ix, op.Src) && v.Rel == op.Inv
						if !fwd && !inv {
							cs.Fail("edge version %v carries the weight of call w%d.%d (%s->%s %s inv=%q), which did not link that edge", v, op.W, op.I, op.Src, op.Tgt, op.Rel, op.Inv)
						}
						if v.C < op.Lo || v.C > op.Hi {
							cs.Fail("edge version %v was made by call w%d.%d, which ran in [%d,%d]: its creation stamp lies outside", v, op.W, op.I, op.Lo, op.Hi)
						}
					}
					ctx.Count("conc.links_attributed", 1)
				}
			}
			// (3) all of it survives a restart (plain log / snapshot / compaction), twice
			u := vexec.Universe{Indexes: []string{ix}, IDs: nodes, Rels: allRels}
			for _, n := range nodes {
				u.Nodes = append(u.Nodes, vexec.GraphID(ix, n))
			}
			stampSet := map[int64]bool{}
			for _, v := range vers {
				stampSet[v.C] = true
				if v.D != 0 {
					stampSet[v.D] = true
				}
			}
			for s := range stampSet {
				u.Times = append(u.Times, s)
			}
			sort.Slice(u.Times, func(i, j int) bool { return u.Times[i] < u.Times[j] })
			if len(u.Times) > 40 {
				u.Times = u.Times[len(u.Times)-40:]
			}
			how := cs.Idx % 3
			switch how {
			case 1:
				if err := e.SaveSnapshot(); err != nil {
					cs.Fail("SaveSnapshot: %v", err)
				}
			case 2:
				if err := e.RewriteAOF(); err != nil {
					cs.Fail("RewriteAOF: %v", err)
				}
			}
			for round := 0; round < 2; round++ {
				before := vexec.Observe(e, u)
				if err := e.Close(); err != nil {
					cs.Fail("Close: %v", err)
				}
				closed = true
				e2, err := engine.Open(vexec.Options(dir))
				if err != nil {
					cs.Fail("reopen: %v", err)
				}
				e, closed = e2, false
				after := vexec.Observe(e, u)
				if diff := vexec.Diff(before, after); len(diff) > 0 {
					cs.Attach("diff", diff)
					cs.Attach("log_records", c13DumpLog(dir))
					cs.Fail("restart %d (%s) after concurrent link/unlink calls: %d observable(s) changed across Close/Open, first: %s", round+1, []string{"plain log", "snapshot", "compaction"}[how], len(diff), diff[0])
				}
				if msg, _ := c10cHistoryLaws(e, ix, nodes, allRels, fmt.Sprintf("after restart %d", round+1)); msg != "" {
					cs.Fail("%s", msg)
				}
				// a little more history on the reopened engine before the second restart
				if round == 0 {
					e.VLink(ix, nodes[0], nodes[1], rels[0], "", 777777, nil)
					e.VUnlink(ix, nodes[0], nodes[1], rels[0], "", false)
				}
			}
			ctx.Eval(1)
			ctx.Distinct(fmt.Sprintf("conc/w%d/n%d/r%d/inv%v/hard%v/p%d/how%d/v%d", nW, len(nodes), len(rels), useInv, hardAllowed, procs, how, len(vers)/4))
			ctx.Sample("conc", 2, map[string]any{"workers": nW, "ops_per_worker": per, "versions": len(vers), "gomaxprocs": procs})
		})
	})
}

package engine_test

import (
	"fmt"
	"testing"
	"time"

	"github.com/sanonone/kektordb/internal/zzverif/vexec"
	"github.com/sanonone/kektordb/internal/zzverif/vkit"
	"github.com/sanonone/kektordb/pkg/engine"
	"github.com/sanonone/kektordb/pkg/verifhook"
)

// C14 (group crashphase) — "a write that was acknowledged ... after a snapshot or a log
// compaction is present after the next restart": here the snapshot / compaction did not
// complete - the process stopped while it was at one of its phases - and the writes are the
// ones acknowledged by the process that recovered that directory. Whatever recovery made of the
// interrupted operation (which values it recovers is C02's subject), what the recovered engine
// acknowledges afterwards must survive its own clean restart, twice.
func TestVerifC14CrashPhase(t *testing.T) {
	vkit.Run(t, "C14", func(ctx *vkit.Ctx) {
		type row struct{ admin, phase string }
		var rows []row
		for _, a := range []string{"snapshot", "rewrite", "compress", "dropother"} {
			for _, ph := range c14AdminOf(a).phases {
				rows = append(rows, row{a, ph})
			}
		}
		ctx.Group("crashphase", len(rows)*ctx.N(2, 12), func(cs *vkit.Case) {
			defer verifhook.Reset()
			rw := rows[cs.Idx%len(rows)]
			adm := c14AdminOf(rw.admin)
			x := c14Base(cs)
			defer func() {
				if x.E != nil {
					x.E.Close()
				}
			}()
			if adm.setup != nil {
				adm.setup(x)
			}
			// some history before the interrupted operation, part of it covered by an earlier snapshot
			x.KVSet("pre", []byte("1"))
			if cs.R.Chance(0.5) {
				x.SaveSnapshot()
			}
			x.VAdd("ix", "pre_v", []float32{2, 2}, map[string]any{"seq": 1.0})
			x.VLink("ix", "p0", "p1", "r", "", 1, nil)
			g := newGate()
			verifhook.Set(rw.phase, g.handler)
			defer g.open()
			adminDone := make(chan error, 1)
			go func() { adminDone <- c14AdminRun(adm, x) }()
			select {
			case <-g.reached:
			case err := <-adminDone:
				adminDone <- err
				ctx.Inconclusive(fmt.Sprintf("crashphase: %s finished without passing %s (renamed or moved?)", rw.admin, rw.phase))
				return
			case <-time.After(30 * time.Second):
				ctx.Inconclusive(fmt.Sprintf("crashphase: %s did not reach %s", rw.admin, rw.phase))
				return
			}
			// a write that arrives while the operation is at the phase (it may have to wait)
			wDone := make(chan error, 1)
			e := x.E
			go func() { wDone <- e.KVSet("during", []byte("2")) }()
			select {
			case <-wDone:
			case <-time.After(150 * time.Millisecond):
			}
			img := cs.SubDir("img")
			e.AOF.Flush()
			if err := vexec.ImageDir(x.Dir, img); err != nil {
				ctx.Inconclusive("crash image could not be taken: " + err.Error())
				return
			}
			cs.Op("process death while %s is at %s (image of the data directory)", rw.admin, rw.phase)
			g.open()
			<-adminDone
			verifhook.Reset()
			// the process that recovers the directory
			y, err := engine.Open(vexec.Options(img))
			if err != nil {
				cs.Fail("Open of the directory left by a process death while %s was at %s failed: %v", rw.admin, rw.phase, err)
			}
			closed := false
			defer func() {
				if !closed {
					y.Close()
				}
			}()
			u := vexec.Universe{Indexes: []string{"ix", "wother", "post_ix"}, IDs: []string{"p0", "p1", "p2", "pre_v", "post_v", "post_b1", "post_b2", "o0"},
				Keys: []string{"pre", "during", "post", "post2"}, Rels: []string{"r", "post_r", "inv_post_r"}}
			for _, ix := range u.Indexes {
				for _, id := range u.IDs {
					u.Nodes = append(u.Nodes, vexec.GraphID(ix, id))
				}
			}
			for round := 1; round <= 2; round++ {
				// writes acknowledged by the recovered engine
				if err := y.KVSet(fmt.Sprintf("post%d", round), []byte(fmt.Sprintf("v%d", round))); err != nil {
					cs.Fail("KVSet on the recovered engine: %v", err)
				}
				if round == 1 {
					if y.IndexExists("ix") {
						y.VAdd("ix", "post_v", []float32{5, 5}, map[string]any{"seq": 9.0})
						y.VLink("ix", "post_v", "p2", "post_r", "inv_post_r", 2, map[string]any{"k": "v"})
						y.VSetMetadata("ix", "p2", map[string]any{"post": true})
					}
					y.KVDelete("pre")
				} else {
					if y.IndexExists("ix") {
						base := verifhook.Hits()["cascade.done"]
						if y.VDelete("ix", "post_v") == nil {
							// the read-out is taken once the delete cascade has settled (hook counter, no timing)
							for i := 0; verifhook.Hits()["cascade.done"] == base; i++ {
								if i > 4000000 {
									cs.Fail("delete cascade on the recovered engine did not finish")
								}
								time.Sleep(20 * time.Microsecond)
							}
						}
						y.VUnlink("ix", "p0", "p1", "r", "", false)
					}
				}
				before := vexec.Observe(y, u)
				if err := y.Close(); err != nil {
					cs.Fail("Close of the recovered engine: %v", err)
				}
				closed = true
				y2, err := engine.Open(vexec.Options(img))
				if err != nil {
					cs.Fail("restart %d of the recovered directory (%s interrupted at %s): Open failed: %v", round, rw.admin, rw.phase, err)
				}
				y, closed = y2, false
				after := vexec.Observe(y, u)
				if diff := vexec.Diff(before, after); len(diff) > 0 {
					cs.Attach("diff", diff)
					cs.Attach("log_records", c13DumpLog(img))
					cs.Fail("%s interrupted at %s, recovered; what the recovered engine acknowledged afterwards did not survive its clean restart %d: %d observable(s) changed, first: %s", rw.admin, rw.phase, round, len(diff), diff[0])
				}
			}
			ctx.Eval(1)
			ctx.Count("crashphase."+rw.admin+"."+rw.phase, 1)
			ctx.Distinct(fmt.Sprintf("crashphase/%s/%s/%d", rw.admin, rw.phase, cs.Idx/len(rows)))
		})
	})
}

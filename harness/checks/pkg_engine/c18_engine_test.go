package engine_test

// C18 (engine part) — vectors read back through Engine.VGet before / after VCompress (and after
// a restart) follow the per-precision policy of vexec.VecMatch (DESIGN.md 2.4); similarities
// returned by VSearchWithScores on the compressed index stay within a bound of the float32
// distance that is derived per (query, vector) pair from the component errors; results whose
// float32 distances differ by more than the two bounds keep their order.
//
// Bounds (u = 2^-24):
//  float16 / squared euclidean. The index compares f16(q) with f16(v) in float32 arithmetic.
//    With e_i = hu(q_i) + hu(v_i), hu(x) = half the binary16 spacing at |x| (2^-25 below 2^-14,
//    else 2^(floor(log2|x|)-11)):  |sum((q_i+dq_i)-(v_i+dv_i))^2 - sum(q_i-v_i)^2|
//        <= sum( 2|q_i-v_i| e_i + e_i^2 ) =: P,
//    plus the float32 accumulation error of the kernel g(n+2)*(S+P) + n*2^-149 (see the kernel
//    check), plus 1e-12*(1+d) for the float64 round trip similarity = 1/(1+d) -> d.
//  int8 / cosine. Stored b (float32 vector handed to the quantiser, every |b_i| <= A) is
//    replaced by b' = (A/127)*Q(b) with |b'_i - b_i| <= h := A/254 + 4.001uA + 2^-148 (derived in
//    the quantiser check), so |b'-b|_2 <= sqrt(n)*h and the angle between b and b' is at most
//    asin(sqrt(n)*h/|b|). The query is normalised by the index in float32 (relative error per
//    component <= k := (n+8)u: n+1 roundings in the sum of squares halved by the square root,
//    plus sqrt/reciprocal/product roundings) and then quantised: angle <= asin(sqrt(n)*h + k)
//    (|q^| = 1). Angles obey the triangle inequality and cos is 1-Lipschitz in the angle:
//        |cos(q',b') - cos(q,b)| <= asin(..q..) + asin(..b..),
//    plus 4u for the float32 norms of the index (the clamp to [-1,1] only moves towards the true
//    value). Pairs with a component outside [-A, A] are outside the property's "inside the
//    trained range" clause and are only counted.
//  Ranking: results i before j in the engine's order with d32_i - B_i > d32_j + B_j would
//    contradict the two bounds; reported separately because it also covers the final sort.

import (
	"fmt"
	"math"
	"sort"
	"testing"

	"github.com/sanonone/kektordb/internal/zzverif/vexec"
	"github.com/sanonone/kektordb/internal/zzverif/vkit"
	"github.com/sanonone/kektordb/pkg/core/distance"
	"github.com/sanonone/kektordb/pkg/core/hnsw"
	"github.com/sanonone/kektordb/pkg/core/types"
	"github.com/sanonone/kektordb/pkg/engine"
)

const c18eU = 1.0 / (1 << 24)

func c18eGamma(k int) float64 { return float64(k) * c18eU / (1 - float64(k)*c18eU) }

// c18eF16 rounds to binary16 (nearest even) and back, independently of the x448 library
// (the library itself is compared with an independent implementation in the kernel check).
func c18eF16(f float32) float32 {
	x := float64(f)
	neg := math.Signbit(x)
	if neg {
		x = -x
	}
	var r float64
	switch {
	case x >= 65520:
		r = math.Inf(1)
	case x < math.Ldexp(1, -14):
		r = math.RoundToEven(x*(1<<24)) / (1 << 24)
	default:
		_, e := math.Frexp(x) // x = m * 2^e, m in [0.5,1)  => binade 2^(e-1)
		sp := math.Ldexp(1, e-1-10)
		r = math.RoundToEven(x/sp) * sp
	}
	if neg {
		r = -r
	}
	return float32(r)
}

// c18eHalfUlp16 is half the binary16 spacing of the binade that contains |x|.
func c18eHalfUlp16(x float64) float64 {
	x = math.Abs(x)
	if x < math.Ldexp(1, -14) {
		return math.Ldexp(1, -25)
	}
	_, e := math.Frexp(x)
	return math.Ldexp(1, e-1-11)
}

type c18eCase struct {
	ctx    *vkit.Ctx
	cs     *vkit.Case
	e      *engine.Engine
	opts   engine.Options
	name   string
	cfg    vexec.IndexCfg
	dim    int
	ids    []string
	raw    map[string][]float32 // as supplied to VAdd
	stored map[string][]float32 // float32 value handed to the encoder of the current precision
}

func (c *c18eCase) absMax() float32 {
	idx, ok := c.e.DB.GetVectorIndex(c.name)
	if !ok {
		c.cs.Fail("index %s not found", c.name)
	}
	if h, ok := idx.(*hnsw.Index); ok && h.Quantizer() != nil {
		return h.Quantizer().Range()
	}
	return 0
}

// readAll checks VGet of every id against `supplied` under cfg's policy and returns the vectors.
func (c *c18eCase) readAll(when string, supplied map[string][]float32) map[string][]float32 {
	a := c.absMax()
	out := map[string][]float32{}
	for _, id := range c.ids {
		vd, err := c.e.VGet(c.name, id)
		if err != nil {
			c.cs.Fail("%s: VGet(%s,%s): %v", when, c.name, id, err)
		}
		if ok, why := vexec.VecMatch(c.cfg, supplied[id], vd.Vector, a); !ok {
			c.cs.Attach("supplied", supplied[id])
			c.cs.Attach("got", vd.Vector)
			c.cs.Attach("abs_max", a)
			c.cs.Fail("%s: VGet(%s,%s) (%s/%s): %s", when, c.name, id, c.cfg.Metric, c.cfg.Prec, why)
		}
		if c.cfg.Prec == distance.Float16 {
			for i, x := range supplied[id] {
				if w := c18eF16(x); math.Float32bits(w) != math.Float32bits(vd.Vector[i]) && !(w == 0 && vd.Vector[i] == 0) {
					c.cs.Fail("%s: VGet(%s,%s)[%d] = %v, want round-to-nearest-even binary16 of %v = %v", when, c.name, id, i, vd.Vector[i], x, w)
				}
			}
		}
		out[id] = append([]float32(nil), vd.Vector...)
		c.ctx.Count("engine.vget_checked."+string(c.cfg.Prec), 1)
	}
	return out
}

func c18eCos(a []float64, b []float32) (cos, na, nb float64) {
	var dot, sa, sb float64
	for i := range a {
		dot += a[i] * float64(b[i])
		sa += a[i] * a[i]
		sb += float64(b[i]) * float64(b[i])
	}
	na, nb = math.Sqrt(sa), math.Sqrt(sb)
	if na == 0 || nb == 0 {
		return 0, na, nb
	}
	return dot / (na * nb), na, nb
}

// refDist returns the float32-index distance of (q, stored vector b) computed in float64, the
// bound B for the distance the current (possibly compressed) index may report, and whether the
// pair is inside the clause the property makes a claim about.
func (c *c18eCase) refDist(q []float32, b []float32, a float64) (d32, bound float64, judged bool) {
	n := len(q)
	switch {
	case c.cfg.Metric == distance.Euclidean:
		var s, p, pf float64
		for i := range q {
			d := float64(q[i]) - float64(b[i])
			s += d * d
			if c.cfg.Prec == distance.Float16 {
				e := c18eHalfUlp16(float64(q[i])) + c18eHalfUlp16(float64(b[i]))
				p += 2*math.Abs(d)*e + e*e
			}
			pf = math.Max(pf, math.Max(math.Abs(float64(q[i])), math.Abs(float64(b[i]))))
		}
		if c.cfg.Prec == distance.Float16 && pf >= 65504 {
			return s, 0, false // outside the binary16 range
		}
		return s, p + c18eGamma(n+2)*(s+p) + float64(n)*math.Ldexp(1, -149) + 1e-12*(1+s), true
	default: // cosine
		q64 := make([]float64, n)
		for i := range q {
			q64[i] = float64(q[i])
		}
		cos, nq, nb := c18eCos(q64, b)
		if nq == 0 || nb == 0 {
			return 1, 0, false // the engine defines these as distance 1; nothing to compare with
		}
		d32 = 1 - cos
		kappa := float64(n+8) * c18eU
		if c.cfg.Prec == distance.Float32 {
			// float32 index: unit vectors (norm error <= kappa each) and the dot-product kernel
			return d32, 2.01*kappa + 1.01*c18eGamma(n) + 1e-12, true
		}
		// int8
		if a == 0 {
			return d32, 0, false
		}
		h := a/254 + 4.001*c18eU*a + math.Ldexp(1, -148)
		for i := range q {
			if math.Abs(q64[i]/nq)*(1+kappa) > a || math.Abs(float64(b[i])) > a {
				return d32, 0, false // a clipped component: outside "inside the trained range"
			}
		}
		eq := math.Sqrt(float64(n))*h + kappa
		eb := math.Sqrt(float64(n)) * h / nb
		if eq >= 1 || eb >= 1 {
			return d32, 0, false // quantisation step not small against the norms: no claim
		}
		return d32, math.Asin(eq) + math.Asin(eb) + 4*c18eU + 2*kappa + 1e-12, true
	}
}

func (c *c18eCase) searchCheck(when string, nq int) {
	r := c.cs.R
	a := float64(c.absMax())
	for qi := 0; qi < nq; qi++ {
		q := make([]float32, c.dim)
		switch r.Intn(4) {
		case 0: // a stored vector itself (d(a,a))
			copy(q, c.raw[vkit.Pick(r, c.ids)])
		case 1: // near a stored vector
			copy(q, c.raw[vkit.Pick(r, c.ids)])
			for i := range q {
				q[i] += r.F32() * 0.05 * (float32(math.Abs(float64(q[i]))) + 1e-3)
			}
		default:
			src := c.raw[vkit.Pick(r, c.ids)]
			for i := range q { // same magnitude class as the data
				q[i] = r.F32() * (float32(math.Abs(float64(src[r.Intn(c.dim)]))) + 1e-3) * 1.5
			}
		}
		c.cs.Op("%s: VSearchWithScores(%s, q=%v, k=%d)", when, c.name, q, len(c.ids))
		res, err := c.e.VSearchWithScores(c.name, q, len(c.ids))
		if err != nil {
			c.cs.Fail("%s: VSearchWithScores: %v", when, err)
		}
		type row struct {
			id          string
			deng, d, bd float64
			judged      bool
		}
		rows := make([]row, 0, len(res))
		seen := map[string]bool{}
		for _, x := range res {
			st, ok := c.stored[x.ID]
			if !ok {
				c.cs.Fail("%s: search returned id %q that was never stored", when, x.ID)
			}
			if seen[x.ID] {
				c.cs.Fail("%s: search returned id %q twice", when, x.ID)
			}
			seen[x.ID] = true
			sim := x.Score
			if x.Breakdown != nil {
				sim = x.Breakdown.Similarity
			}
			deng := 1/sim - 1
			d, bd, judged := c.refDist(q, st, a)
			if judged {
				if math.IsNaN(deng) || math.Abs(deng-d) > bd {
					c.cs.Attach("query", q)
					c.cs.Attach("stored_f32", st)
					c.cs.Attach("abs_max", a)
					c.cs.Fail("%s: %s/%s dim %d: similarity of %q is %.10g => distance %.10g; float32 distance %.10g; |difference| %.4g exceeds the derived bound %.4g",
						when, c.cfg.Metric, c.cfg.Prec, c.dim, x.ID, sim, deng, d, math.Abs(deng-d), bd)
				}
				c.ctx.Count("engine.distances_judged."+string(c.cfg.Prec), 1)
				if bd > 0 {
					c.ctx.Count("engine.bound_used_permille."+string(c.cfg.Prec), int64(1000*math.Abs(deng-d)/bd))
				}
			} else {
				c.ctx.Count("engine.distances_outside_claim."+string(c.cfg.Prec), 1)
			}
			rows = append(rows, row{x.ID, deng, d, bd, judged})
		}
		for i := 0; i < len(rows); i++ {
			for j := i + 1; j < len(rows); j++ {
				if !rows[i].judged || !rows[j].judged {
					continue
				}
				if rows[i].d-rows[i].bd > rows[j].d+rows[j].bd {
					c.cs.Attach("query", q)
					c.cs.Fail("%s: %s/%s: %q (float32 distance %.8g, bound %.3g) is ranked before %q (float32 distance %.8g, bound %.3g): order changed outside the near-tie band",
						when, c.cfg.Metric, c.cfg.Prec, rows[i].id, rows[i].d, rows[i].bd, rows[j].id, rows[j].d, rows[j].bd)
				}
				if rows[j].d-rows[j].bd > rows[i].d+rows[i].bd {
					c.ctx.Count("engine.rank_pairs_separated."+string(c.cfg.Prec), 1)
				} else {
					c.ctx.Count("engine.rank_pairs_near_tie."+string(c.cfg.Prec), 1)
				}
			}
		}
		c.ctx.Count("engine.queries."+string(c.cfg.Prec), 1)
		c.ctx.Count("engine.results_returned", int64(len(res)))
		c.ctx.Count("engine.results_possible", int64(len(c.ids)))
	}
}

// c18ePercentileOK: A is the 99.9th percentile of the absolute training values (documented rank
// int(N*0.999), or the nearest-rank convention ceil(0.999N)-1).
func c18ePercentileOK(vals []float64, a float64) bool {
	sort.Float64s(vals)
	n := len(vals)
	for _, k := range []int{int(float64(n) * 0.999), (999*n+999)/1000 - 1, 999 * n / 1000} {
		k = max(0, min(k, n-1))
		if vals[k] == a {
			return true
		}
	}
	return false
}

func c18eValue(r *vkit.Rand, class string) float32 {
	switch class {
	case "unit":
		return r.F32()
	case "x100":
		return r.F32() * 100
	case "x0.01":
		return r.F32() * 0.01
	case "wide": // exponents from the binary16 subnormal range up to 2^15
		return float32(math.Ldexp(r.Float64()+1, r.Range(-26, 14))) * float32(1-2*r.Intn(2))
	case "f16halfway": // exactly between two binary16 values (ties to even) or one float32 ulp off
		e := r.Range(-14, 14)
		m := float64(r.Intn(1024))
		v := float32(math.Ldexp(1+m/1024+1.0/2048, e))
		v = vkit.Pick(r, []float32{v, math.Nextafter32(v, 0), math.Nextafter32(v, 1e9)})
		return v * float32(1-2*r.Intn(2))
	case "skewed": // a few large components: the 99.9th percentile clips them
		if r.Chance(0.01) {
			return r.F32() * 40
		}
		return r.F32()
	}
	return r.F32()
}

func TestVerifC18Engine(t *testing.T) {
	vkit.Run(t, "C18", func(ctx *vkit.Ctx) {
		ctx.Group("compress", ctx.N(48, 1200), func(cs *vkit.Case) {
			r := cs.R
			target := vkit.Pick(r, []distance.PrecisionType{distance.Float16, distance.Int8})
			direct := r.Chance(0.25) // index created directly in the target precision (no VCompress)
			metric := distance.Euclidean
			if target == distance.Int8 {
				metric = distance.Cosine
			}
			classes := []string{"unit", "x100", "x0.01", "wide", "f16halfway", "unit"}
			if target == distance.Int8 {
				classes = []string{"unit", "x100", "x0.01", "skewed", "unit"}
			}
			class := vkit.Pick(r, classes)
			dim := vkit.Pick(r, []int{2, 3, 8, 16, 33, 64})
			n := r.Range(20, ctx.N(120, 300))
			if target == distance.Int8 && r.Chance(0.3) {
				n = r.Range(40, 90)
				dim = vkit.Pick(r, []int{16, 33}) // > 1000 components: the percentile excludes the largest
			}
			opts := vexec.Options(cs.SubDir("data"))
			e, err := engine.Open(opts)
			if err != nil {
				cs.Fail("engine.Open: %v", err)
			}
			c := &c18eCase{ctx: ctx, cs: cs, e: e, opts: opts, name: "c18", dim: dim, raw: map[string][]float32{}, stored: map[string][]float32{}}
			defer func() {
				if c.e != nil {
					c.e.Close()
				}
			}()
			prec := distance.Float32
			if direct {
				prec = target
			}
			c.cfg = vexec.IndexCfg{Name: c.name, Metric: metric, Prec: prec, M: 8, EfC: vkit.Pick(r, []int{16, 200})}
			cs.Op("VCreate(%s, %s, M=%d, efC=%d, %s) then %d vectors of dim %d, class %s", c.name, metric, c.cfg.M, c.cfg.EfC, prec, n, dim, class)
			if err := e.VCreate(c.name, metric, c.cfg.M, c.cfg.EfC, prec, "", nil, nil, nil); err != nil {
				cs.Fail("VCreate: %v", err)
			}
			var batch []types.BatchObject
			useBatch := r.Chance(0.4)
			for i := 0; i < n; i++ {
				id := fmt.Sprintf("v%03d", i)
				v := make([]float32, dim)
				nonzero := false
				for k := range v {
					v[k] = c18eValue(r, class)
					nonzero = nonzero || v[k] != 0
				}
				if !nonzero {
					v[0] = 1
				}
				c.ids = append(c.ids, id)
				c.raw[id] = v
				if useBatch && i >= n/2 {
					batch = append(batch, types.BatchObject{Id: id, Vector: append([]float32(nil), v...)})
					continue
				}
				if err := e.VAdd(c.name, id, append([]float32(nil), v...), nil); err != nil {
					cs.Fail("VAdd(%s): %v", id, err)
				}
			}
			if len(batch) > 0 {
				cs.Op("VAddBatch(%d vectors)", len(batch))
				if err := e.VAddBatch(c.name, batch); err != nil {
					cs.Fail("VAddBatch: %v", err)
				}
			}
			// read-back in the creation precision
			got := c.readAll("after insert", c.raw)
			if direct {
				c.stored = c.raw
				if prec == distance.Int8 {
					// the index trains on the first vector(s) it sees; later vectors outside that
					// range are clipped — covered by VecMatch above
					ctx.Count("engine.int8_direct_cases", 1)
				}
			} else {
				c.stored = got // float32 index: exact (euclidean) / normalised (cosine) values
				c.searchCheck("float32 index", 2)
				cs.Op("VCompress(%s, %s)", c.name, target)
				if err := e.VCompress(c.name, target); err != nil {
					cs.Fail("VCompress(%s,%s): %v", c.name, target, err)
				}
				c.cfg.Prec = target
				if target == distance.Int8 {
					var vals []float64
					for _, id := range c.ids {
						for _, x := range c.stored[id] {
							vals = append(vals, math.Abs(float64(x)))
						}
					}
					a := float64(c.absMax())
					if !c18ePercentileOK(vals, a) {
						cs.Fail("after VCompress to int8: trained range %v is not the 99.9th percentile of the %d absolute stored components (max %v)", a, len(vals), vals[len(vals)-1])
					}
					if vals[len(vals)-1] > a {
						ctx.Count("engine.int8_cases_with_clipped_components", 1)
					}
				}
				c.readAll("after VCompress", c.stored)
			}
			c.searchCheck("index in "+string(c.cfg.Prec), ctx.N(6, 10))
			restarted := false
			if r.Chance(0.5) {
				// sometimes the vector the int8 range was trained on is deleted first: the
				// range is state of its own and must come back as it was, whatever the log
				// still holds
				if c.cfg.Prec == distance.Int8 && len(c.ids) > 3 && r.Chance(0.5) {
					gone := c.ids[0]
					cs.Op("VDelete(%s) (first vector added)", gone)
					if err := c.e.VDelete(c.name, gone); err != nil {
						cs.Fail("VDelete(%s): %v", gone, err)
					}
					c.ids = c.ids[1:]
					delete(c.raw, gone)
					delete(c.stored, gone)
					ctx.Count("engine.int8_first_vector_deleted_before_restart", 1)
				}
				cs.Op("Close + Open")
				if err := c.e.Close(); err != nil {
					cs.Fail("Close: %v", err)
				}
				c.e = nil
				e2, err := engine.Open(opts)
				if err != nil {
					cs.Fail("engine.Open after restart: %v", err)
				}
				c.e = e2
				c.readAll("after restart", c.stored)
				c.searchCheck("after restart, index in "+string(c.cfg.Prec), 3)
				restarted = true
			}
			// one more insert (a stored vector again, so it lies inside the trained range): the
			// index grows its tables; what was stored before must keep its values and distances
			if !direct || prec != distance.Int8 {
				src := c.ids[r.Intn(len(c.ids))]
				late := "late"
				// the value the index holds for src in float32 terms (for a cosine index: the
				// unit-length vector), so that it lies inside the trained int8 range
				v := append([]float32(nil), c.stored[src]...)
				cs.Op("VAdd(%s) = copy of %s (restarted=%v)", late, src, restarted)
				if err := c.e.VAdd(c.name, late, append([]float32(nil), v...), nil); err != nil {
					cs.Fail("VAdd(late): %v", err)
				}
				c.ids = append(c.ids, late)
				c.raw[late] = v
				c.stored[late] = c.stored[src]
				c.readAll("after a late insert", c.stored)
				c.searchCheck("after a late insert, index in "+string(c.cfg.Prec), 4)
				ctx.Count("engine.late_insert_cases", 1)
			}
			ctx.Eval(1)
			ctx.Distinct(fmt.Sprintf("%s/%s/%d/%v/%v/%v", target, class, dim, direct, useBatch, restarted))
			ctx.Sample("engine_case", 2, map[string]any{"ops": cs.Ops()[:min(len(cs.Ops()), 4)]})
		})
	})
}

package engine_test

// C18 (engine part) — vectors read back through Engine.VGet before / after VCompress (and after
// a restart) follow the per-precision policy of vexec.VecMatch (DESIGN.md 2.4); similarities
// returned by VSearchWithScores on the compressed index stay within a bound of the float32
// distance that is derived per (query, vector) pair from the component errors; results whose
// float32 distances differ by more than the two bounds keep their order.
//
// Bounds (u = 2^-24):
//  float16 / squared euclidean. The index compares f16(q) with f16(v) in float32 arithmetic.
//    With e_i = hu(q_i) + hu(v_i), hu(x) = half the binary16 spacing at |x| (2^-25 below 2^-14,
//    else 2^(floor(log2|x|)-11)):  |sum((q_i+dq_i)-(v_i+dv_i))^2 - sum(q_i-v_i)^2|
//        <= sum( 2|q_i-v_i| e_i + e_i^2 ) =: P,
//    plus the float32 accumulation error of the kernel g(n+2)*(S+P) + n*2^-149 (see the kernel
//    check), plus 1e-12*(1+d) for the float64 round trip similarity = 1/(1+d) -> d.
//  int8 / cosine. Stored b (float32 vector handed to the quantiser, every |b_i| <= A) is
//    replaced by b' = (A/127)*Q(b) with |b'_i - b_i| <= h := A/254 + 4.001uA + 2^-148 (derived in
//    the quantiser check), so |b'-b|_2 <= sqrt(n)*h and the angle between b and b' is at most
//    asin(sqrt(n)*h/|b|). The query is normalised by the index in float32 (relative error per
//    component <= k := (n+8)u: n+1 roundings in the sum of squares halved by the square root,
//    plus sqrt/reciprocal/product roundings) and then quantised: angle <= asin(sqrt(n)*h + k)
//    (|q^| = 1). Angles obey the triangle inequality and cos is 1-Lipschitz in the angle:
//        |cos(q',b') - cos(q,b)| <= asin(..q..) + asin(..b..),
//    plus 4u for the float32 norms of the index (the clamp to [-1,1] only moves towards the true
//    value). Pairs with a component outside [-A, A] are outside the property's "inside the
//    trained range" clause and are only counted.
//  Ranking: results i before j in the engine's order with d32_i - B_i > d32_j + B_j would
//    contradict the two bounds; reported separately because it also covers the final sort.
//  Second distance path. hnsw.Index.ComputeDistanceToVector (own copy of the query preparation
//    and of the int8 rescaling; reached by Engine.VExtractSubgraph with a guide query) is held to
//    the same per-pair bound ("distances computed on compressed vectors differ from the float32
//    distance by a correspondingly bounded amount"), and VExtractSubgraph's keep/prune decision
//    (distance <= threshold) must be consistent with it ("perturbs rankings only among
//    near-ties"): a linked node with d32 + B < threshold must be kept, one with d32 - B >
//    threshold must be pruned. For int8 only queries whose components lie inside [-A, A] both as
//    supplied and after normalisation are judged (the literal "inside the trained range").
//  Self distance on int8 with clipped components (clause "zero between a stored vector and
//    itself", "values beyond the trained range are clipped"): the query is the vector as
//    supplied, the index holds the same vector normalised by the same float32 index; the two
//    pre-rounding values differ by <= k*127 << 1 code unit, so after clip + round the two code
//    vectors differ by at most 1 per component: angle <= asin(sqrt(n)/|code|), with
//    |code| >= |clip(b)|*127/A - sqrt(n)/2. Whatever is clipped, the reported distance must stay
//    below 1 - cos(that angle) (+ float32 slack); a norm taken before clipping breaks this.

import (
	"fmt"
	"math"
	"runtime"
	"sort"
	"strings"
	"testing"

	"github.com/sanonone/kektordb/internal/zzverif/vexec"
	"github.com/sanonone/kektordb/internal/zzverif/vkit"
	"github.com/sanonone/kektordb/pkg/core/distance"
	"github.com/sanonone/kektordb/pkg/core/hnsw"
	"github.com/sanonone/kektordb/pkg/core/types"
	"github.com/sanonone/kektordb/pkg/engine"
)

const c18eU = 1.0 / (1 << 24)

func c18eGamma(k int) float64 { return float64(k) * c18eU / (1 - float64(k)*c18eU) }

// c18eF16 rounds to binary16 (nearest even) and back, independently of the x448 library
// (the library itself is compared with an independent implementation in the kernel check).
func c18eF16(f float32) float32 {
	x := float64(f)
	neg := math.Signbit(x)
	if neg {
		x = -x
	}
	var r float64
	switch {
	case x >= 65520:
		r = math.Inf(1)
	case x < math.Ldexp(1, -14):
		r = math.RoundToEven(x*(1<<24)) / (1 << 24)
	default:
		_, e := math.Frexp(x) // x = m * 2^e, m in [0.5,1)  => binade 2^(e-1)
		sp := math.Ldexp(1, e-1-10)
		r = math.RoundToEven(x/sp) * sp
	}
	if neg {
		r = -r
	}
	return float32(r)
}

// c18eHalfUlp16 is half the binary16 spacing of the binade that contains |x|.
func c18eHalfUlp16(x float64) float64 {
	x = math.Abs(x)
	if x < math.Ldexp(1, -14) {
		return math.Ldexp(1, -25)
	}
	_, e := math.Frexp(x)
	return math.Ldexp(1, e-1-11)
}

type c18eCase struct {
	ctx    *vkit.Ctx
	cs     *vkit.Case
	e      *engine.Engine
	opts   engine.Options
	name   string
	cfg    vexec.IndexCfg
	dim    int
	ids    []string
	raw    map[string][]float32 // as supplied to VAdd
	stored map[string][]float32 // float32 value handed to the encoder of the current precision
	gone   map[string]bool      // ids deleted by the case (a search result naming one is not C18's business: skipped, counted)
	selfOK map[string]bool      // ids whose int8 code was made from the float32 cosine index's own normalised value (VCompress)
	kmax   int                  // > 0: searches ask for at most kmax results and the second distance path visits kmax ids (large cases)
}

func (c *c18eCase) k() int {
	if c.kmax > 0 && c.kmax < len(c.ids) {
		return c.kmax
	}
	return len(c.ids)
}

func (c *c18eCase) hnsw() *hnsw.Index {
	idx, ok := c.e.DB.GetVectorIndex(c.name)
	if !ok {
		c.cs.Fail("index %s not found", c.name)
	}
	h, ok := idx.(*hnsw.Index)
	if !ok {
		c.cs.Fail("index %s is not an hnsw index", c.name)
	}
	return h
}

func absMaxOf(v []float32) float32 {
	var m float32
	for _, x := range v {
		if x < 0 {
			x = -x
		}
		if x > m {
			m = x
		}
	}
	return m
}

// c18eUnit returns q scaled to unit length (float64 arithmetic, one rounding per component).
func c18eUnit(q []float32) []float32 {
	var ss float64
	for _, x := range q {
		ss += float64(x) * float64(x)
	}
	out := append([]float32(nil), q...)
	if ss == 0 {
		return out
	}
	n := math.Sqrt(ss)
	for i := range out {
		out[i] = float32(float64(out[i]) / n)
	}
	return out
}

func (c *c18eCase) absMax() float32 {
	idx, ok := c.e.DB.GetVectorIndex(c.name)
	if !ok {
		c.cs.Fail("index %s not found", c.name)
	}
	if h, ok := idx.(*hnsw.Index); ok && h.Quantizer() != nil {
		return h.Quantizer().Range()
	}
	return 0
}

// readAll checks VGet of every id against `supplied` under cfg's policy and returns the vectors.
func (c *c18eCase) readAll(when string, supplied map[string][]float32) map[string][]float32 {
	a := c.absMax()
	out := map[string][]float32{}
	for _, id := range c.ids {
		vd, err := c.e.VGet(c.name, id)
		if err != nil {
			c.cs.Fail("%s: VGet(%s,%s): %v", when, c.name, id, err)
		}
		if ok, why := vexec.VecMatch(c.cfg, supplied[id], vd.Vector, a); !ok {
			c.cs.Attach("supplied", supplied[id])
			c.cs.Attach("got", vd.Vector)
			c.cs.Attach("abs_max", a)
			c.cs.Fail("%s: VGet(%s,%s) (%s/%s): %s", when, c.name, id, c.cfg.Metric, c.cfg.Prec, why)
		}
		if c.cfg.Prec == distance.Float16 {
			for i, x := range supplied[id] {
				if w := c18eF16(x); math.Float32bits(w) != math.Float32bits(vd.Vector[i]) && !(w == 0 && vd.Vector[i] == 0) {
					c.cs.Fail("%s: VGet(%s,%s)[%d] = %v, want round-to-nearest-even binary16 of %v = %v", when, c.name, id, i, vd.Vector[i], x, w)
				}
			}
		}
		out[id] = append([]float32(nil), vd.Vector...)
		c.ctx.Count("engine.vget_checked."+string(c.cfg.Prec), 1)
	}
	// the bulk read entry point must hand out the same stored vectors (same policy)
	many, err := c.e.VGetMany(c.name, c.ids)
	if err != nil {
		c.cs.Fail("%s: VGetMany(%d ids): %v", when, len(c.ids), err)
	}
	seen := map[string]bool{}
	for _, vd := range many {
		if _, ok := supplied[vd.ID]; !ok || seen[vd.ID] {
			c.cs.Fail("%s: VGetMany returned id %q (not requested, or twice)", when, vd.ID)
		}
		seen[vd.ID] = true
		if ok, why := vexec.VecMatch(c.cfg, supplied[vd.ID], vd.Vector, a); !ok {
			c.cs.Attach("supplied", supplied[vd.ID])
			c.cs.Attach("got", vd.Vector)
			c.cs.Fail("%s: VGetMany(...)[%s] (%s/%s): %s", when, vd.ID, c.cfg.Metric, c.cfg.Prec, why)
		}
		c.ctx.Count("engine.vgetmany_checked."+string(c.cfg.Prec), 1)
	}
	if len(many) != len(c.ids) {
		c.cs.Fail("%s: VGetMany returned %d of %d live ids", when, len(many), len(c.ids))
	}
	return out
}

func c18eCos(a []float64, b []float32) (cos, na, nb float64) {
	var dot, sa, sb float64
	for i := range a {
		dot += a[i] * float64(b[i])
		sa += a[i] * a[i]
		sb += float64(b[i]) * float64(b[i])
	}
	na, nb = math.Sqrt(sa), math.Sqrt(sb)
	if na == 0 || nb == 0 {
		return 0, na, nb
	}
	return dot / (na * nb), na, nb
}

// refDist returns the float32-index distance of (q, stored vector b) computed in float64, the
// bound B for the distance the current (possibly compressed) index may report, and whether the
// pair is inside the clause the property makes a claim about.
func (c *c18eCase) refDist(q []float32, b []float32, a float64) (d32, bound float64, judged bool) {
	n := len(q)
	switch {
	case c.cfg.Metric == distance.Euclidean:
		var s, p, pf float64
		for i := range q {
			d := float64(q[i]) - float64(b[i])
			s += d * d
			if c.cfg.Prec == distance.Float16 {
				e := c18eHalfUlp16(float64(q[i])) + c18eHalfUlp16(float64(b[i]))
				p += 2*math.Abs(d)*e + e*e
			}
			pf = math.Max(pf, math.Max(math.Abs(float64(q[i])), math.Abs(float64(b[i]))))
		}
		if c.cfg.Prec == distance.Float16 && pf >= 65504 {
			return s, 0, false // outside the binary16 range
		}
		return s, p + c18eGamma(n+2)*(s+p) + float64(n)*math.Ldexp(1, -149) + 1e-12*(1+s), true
	default: // cosine
		q64 := make([]float64, n)
		for i := range q {
			q64[i] = float64(q[i])
		}
		cos, nq, nb := c18eCos(q64, b)
		if nq == 0 || nb == 0 {
			return 1, 0, false // the engine defines these as distance 1; nothing to compare with
		}
		d32 = 1 - cos
		kappa := float64(n+8) * c18eU
		if c.cfg.Prec == distance.Float32 {
			// float32 index: unit vectors (norm error <= kappa each) and the dot-product kernel
			return d32, 2.01*kappa + 1.01*c18eGamma(n) + 1e-12, true
		}
		// int8
		if a == 0 {
			return d32, 0, false
		}
		h := a/254 + 4.001*c18eU*a + math.Ldexp(1, -148)
		for i := range q {
			if math.Abs(q64[i]/nq)*(1+kappa) > a || math.Abs(float64(b[i])) > a {
				return d32, 0, false // a clipped component: outside "inside the trained range"
			}
		}
		eq := math.Sqrt(float64(n))*h + kappa
		eb := math.Sqrt(float64(n)) * h / nb
		if eq >= 1 || eb >= 1 {
			return d32, 0, false // quantisation step not small against the norms: no claim
		}
		return d32, math.Asin(eq) + math.Asin(eb) + 4*c18eU + 2*kappa + 1e-12, true
	}
}

// genQuery draws a query: a stored vector itself (self = its id), near a stored vector, or of the
// magnitude class of the data.
func (c *c18eCase) genQuery() (q []float32, self string) {
	r := c.cs.R
	q = make([]float32, c.dim)
	switch r.Intn(4) {
	case 0: // a stored vector itself (d(a,a)); on int8 preferably one with components beyond the trained range
		self = vkit.Pick(r, c.ids)
		if c.cfg.Prec == distance.Int8 && r.Chance(0.6) {
			a := c.absMax()
			var clipped []string
			for _, id := range c.ids {
				if c.selfOK[id] && absMaxOf(c.stored[id]) > a {
					clipped = append(clipped, id)
				}
			}
			if len(clipped) > 0 {
				self = vkit.Pick(r, clipped)
			}
		}
		copy(q, c.raw[self])
	case 1: // near a stored vector
		copy(q, c.raw[vkit.Pick(r, c.ids)])
		for i := range q {
			q[i] += r.F32() * 0.05 * (float32(math.Abs(float64(q[i]))) + 1e-3)
		}
	default:
		src := c.raw[vkit.Pick(r, c.ids)]
		for i := range q { // same magnitude class as the data
			q[i] = r.F32() * (float32(math.Abs(float64(src[r.Intn(c.dim)]))) + 1e-3) * 1.5
		}
	}
	return q, self
}

// guideQuery is the query handed to the second distance path (ComputeDistanceToVector /
// VExtractSubgraph). Generator guard for the recorded finding D-C18-3 (that path quantises the
// query of an int8/cosine index without normalising it): while the finding is listed as "known"
// the query is given at unit length, which is the one scale at which the missing step does not
// matter; every other aspect of the path stays exercised.
func (c *c18eCase) guideQuery(q []float32) []float32 {
	if c.cfg.Prec == distance.Int8 && c.ctx.IsKnown("D-C18-3") {
		c.ctx.Count("engine.guide_queries_unit_length_guard_D-C18-3", 1)
		return c18eUnit(q)
	}
	return q
}

// refDistGuide is refDist for the second distance path: for int8 the pair is judged only if the
// query lies inside the trained range as supplied, too (refDist already demands it of the
// normalised query) — the literal reading of "for vectors inside the trained range".
func (c *c18eCase) refDistGuide(q []float32, b []float32, a float64) (d32, bound float64, judged bool) {
	d32, bound, judged = c.refDist(q, b, a)
	if judged && c.cfg.Prec == distance.Int8 {
		for _, x := range q {
			if math.Abs(float64(x)) > a {
				return d32, 0, false
			}
		}
	}
	return
}

// selfBoundInt8: bound on the distance an int8/cosine index may report between a vector as
// supplied and its own stored code (see the header), or ok=false when the code is too short for
// a claim. b is the float32 (unit-length) value the code was made from.
func c18eSelfBoundInt8(b []float32, a float64) (bound float64, ok bool) {
	if a == 0 {
		return 0, false
	}
	n := float64(len(b))
	var ss float64
	for _, x := range b {
		v := math.Max(-a, math.Min(a, float64(x)))
		ss += v * v
	}
	l := math.Sqrt(ss)*127/a - math.Sqrt(n)/2
	if l <= 2*math.Sqrt(n) {
		return 0, false
	}
	ang := math.Asin(math.Sqrt(n) / l)
	return 1 - math.Cos(ang) + 8*c18eU + 1e-12, true
}

func (c *c18eCase) searchCheck(when string, nq int) {
	a := float64(c.absMax())
	h := c.hnsw()
	for qi := 0; qi < nq; qi++ {
		q, self := c.genQuery()
		c.cs.Op("%s: VSearchWithScores(%s, q=%v, k=%d)", when, c.name, q, c.k())
		res, err := c.e.VSearchWithScores(c.name, q, c.k())
		if err != nil {
			c.cs.Fail("%s: VSearchWithScores: %v", when, err)
		}
		type row struct {
			id          string
			deng, d, bd float64
			judged      bool
		}
		rows := make([]row, 0, len(res))
		seen := map[string]bool{}
		for _, x := range res {
			if c.gone[x.ID] {
				c.ctx.Count("engine.results_naming_a_deleted_id_skipped", 1)
				continue
			}
			st, ok := c.stored[x.ID]
			if !ok {
				c.cs.Fail("%s: search returned id %q that was never stored", when, x.ID)
			}
			if seen[x.ID] {
				c.cs.Fail("%s: search returned id %q twice", when, x.ID)
			}
			seen[x.ID] = true
			sim := x.Score
			if x.Breakdown != nil {
				sim = x.Breakdown.Similarity
			}
			deng := 1/sim - 1
			d, bd, judged := c.refDist(q, st, a)
			if judged {
				if math.IsNaN(deng) || math.Abs(deng-d) > bd {
					c.cs.Attach("query", q)
					c.cs.Attach("stored_f32", st)
					c.cs.Attach("abs_max", a)
					c.cs.Fail("%s: %s/%s dim %d: similarity of %q is %.10g => distance %.10g; float32 distance %.10g; |difference| %.4g exceeds the derived bound %.4g",
						when, c.cfg.Metric, c.cfg.Prec, c.dim, x.ID, sim, deng, d, math.Abs(deng-d), bd)
				}
				c.ctx.Count("engine.distances_judged."+string(c.cfg.Prec), 1)
				if bd > 0 {
					c.ctx.Count("engine.bound_used_permille."+string(c.cfg.Prec), int64(1000*math.Abs(deng-d)/bd))
				}
			} else {
				c.ctx.Count("engine.distances_outside_claim."+string(c.cfg.Prec), 1)
			}
			// "zero between a stored vector and itself", whatever was clipped (int8; ids whose code
			// was made by VCompress from the float32 index's own unit-length value)
			if x.ID == self && c.cfg.Prec == distance.Int8 && c.selfOK[self] {
				if sb, ok := c18eSelfBoundInt8(st, a); ok {
					if math.IsNaN(deng) || deng > sb || deng < -sb {
						c.cs.Attach("query", q)
						c.cs.Attach("stored_f32", st)
						c.cs.Attach("abs_max", a)
						c.cs.Fail("%s: %s/%s dim %d: distance between %q as supplied and its own stored code is %.6g; clip + round of the same values can differ by one code unit per component only: at most %.3g",
							when, c.cfg.Metric, c.cfg.Prec, c.dim, self, deng, sb)
					}
					c.ctx.Count("engine.int8_self_distances_judged", 1)
					if !judged {
						c.ctx.Count("engine.int8_self_distances_judged_with_clipped_components", 1)
					}
				}
			}
			rows = append(rows, row{x.ID, deng, d, bd, judged})
		}
		for i := 0; i < len(rows); i++ {
			for j := i + 1; j < len(rows); j++ {
				if !rows[i].judged || !rows[j].judged {
					continue
				}
				if rows[i].d-rows[i].bd > rows[j].d+rows[j].bd {
					c.cs.Attach("query", q)
					c.cs.Fail("%s: %s/%s: %q (float32 distance %.8g, bound %.3g) is ranked before %q (float32 distance %.8g, bound %.3g): order changed outside the near-tie band",
						when, c.cfg.Metric, c.cfg.Prec, rows[i].id, rows[i].d, rows[i].bd, rows[j].id, rows[j].d, rows[j].bd)
				}
				if rows[j].d-rows[j].bd > rows[i].d+rows[i].bd {
					c.ctx.Count("engine.rank_pairs_separated."+string(c.cfg.Prec), 1)
				} else {
					c.ctx.Count("engine.rank_pairs_near_tie."+string(c.cfg.Prec), 1)
				}
			}
		}
		c.ctx.Count("engine.queries."+string(c.cfg.Prec), 1)
		c.ctx.Count("engine.results_returned", int64(len(res)))
		c.ctx.Count("engine.results_possible", int64(c.k()))

		// the second distance path, for every live vector: same pair, same bound
		g := c.guideQuery(q)
		c.cs.Op("%s: ComputeDistanceToVector(id, q) for %d live ids (query of the search above%s)", when, c.k(), map[bool]string{true: ", at unit length", false: ""}[&g[0] != &q[0]])
		visit := c.ids
		if c.k() < len(c.ids) {
			visit = nil
			for _, p := range c.cs.R.Perm(len(c.ids))[:c.k()] {
				visit = append(visit, c.ids[p])
			}
		}
		for _, id := range visit {
			dc, err := h.ComputeDistanceToVector(id, g)
			if err != nil {
				c.cs.Fail("%s: ComputeDistanceToVector(%s) of a live vector: %v", when, id, err)
			}
			d, bd, judged := c.refDistGuide(g, c.stored[id], a)
			if !judged {
				c.ctx.Count("engine.guide_distances_outside_claim."+string(c.cfg.Prec), 1)
				continue
			}
			if math.IsNaN(dc) || math.Abs(dc-d) > bd {
				c.cs.Attach("query", g)
				c.cs.Attach("stored_f32", c.stored[id])
				c.cs.Attach("abs_max", a)
				c.cs.Fail("%s: %s/%s dim %d: ComputeDistanceToVector(%q) = %.10g; float32 distance %.10g; |difference| %.4g exceeds the derived bound %.4g",
					when, c.cfg.Metric, c.cfg.Prec, c.dim, id, dc, d, math.Abs(dc-d), bd)
			}
			c.ctx.Count("engine.guide_distances_judged."+string(c.cfg.Prec), 1)
		}
	}
}

// subgraphCheck links a root to a handful of live vectors and lets VExtractSubgraph prune them
// with a guide query and a threshold placed between two of their float32 distances: the
// keep/prune decision of every linked vector whose float32 distance is further from the
// threshold than its bound is determined. (Links are made by this step only, at the end of a
// case, so that nothing else in the case depends on the graph.)
func (c *c18eCase) subgraphCheck(when string, nq int) {
	r := c.cs.R
	if len(c.ids) < 4 {
		return
	}
	a := float64(c.absMax())
	perm := r.Perm(len(c.ids))
	root := c.ids[perm[0]]
	var targets []string
	for _, k := range perm[1:min(len(perm), 13)] {
		targets = append(targets, c.ids[k])
	}
	c.cs.Op("%s: VLink(%s -> %v, relation c18rel)", when, root, targets)
	for _, t := range targets {
		if err := c.e.VLink(c.name, root, t, "c18rel", "", 1, nil); err != nil {
			c.ctx.Count("engine.subgraph_skipped_link_refused", 1) // linking is not C18's business
			return
		}
	}
	for qi := 0; qi < nq; qi++ {
		q, _ := c.genQuery()
		g := c.guideQuery(q)
		type tg struct {
			id     string
			d, bd  float64
			judged bool
		}
		var ts []tg
		var ds []float64
		for _, t := range targets {
			d, bd, judged := c.refDistGuide(g, c.stored[t], a)
			ts = append(ts, tg{t, d, bd, judged})
			ds = append(ds, d)
		}
		sort.Float64s(ds)
		k := r.Intn(len(ds))
		thr := ds[k] + 0.05
		if k+1 < len(ds) {
			thr = (ds[k] + ds[k+1]) / 2
		}
		c.cs.Op("%s: VExtractSubgraph(%s, root %s, [c18rel], depth 1, guide=%v, threshold=%v)", when, c.name, root, g, thr)
		sg, err := c.e.VExtractSubgraph(c.name, root, []string{"c18rel"}, 1, 0, g, thr)
		if err != nil {
			c.cs.Fail("%s: VExtractSubgraph: %v", when, err)
		}
		in := map[string]bool{}
		for _, nd := range sg.Nodes {
			in[nd.ID] = true
		}
		for _, t := range ts {
			switch {
			case !t.judged:
				c.ctx.Count("engine.subgraph_decisions_outside_claim."+string(c.cfg.Prec), 1)
			case t.d+t.bd < thr && !in[t.id]:
				c.cs.Attach("query", g)
				c.cs.Attach("stored_f32", c.stored[t.id])
				c.cs.Attach("abs_max", a)
				c.cs.Fail("%s: %s/%s dim %d: VExtractSubgraph pruned %q: float32 distance to the guide query %.8g (bound %.3g) is below the threshold %.8g", when, c.cfg.Metric, c.cfg.Prec, c.dim, t.id, t.d, t.bd, thr)
			case t.d-t.bd > thr && in[t.id]:
				c.cs.Attach("query", g)
				c.cs.Attach("stored_f32", c.stored[t.id])
				c.cs.Attach("abs_max", a)
				c.cs.Fail("%s: %s/%s dim %d: VExtractSubgraph kept %q: float32 distance to the guide query %.8g (bound %.3g) is above the threshold %.8g", when, c.cfg.Metric, c.cfg.Prec, c.dim, t.id, t.d, t.bd, thr)
			case t.d+t.bd < thr || t.d-t.bd > thr:
				c.ctx.Count("engine.subgraph_decisions_judged."+string(c.cfg.Prec), 1)
			default:
				c.ctx.Count("engine.subgraph_decisions_near_threshold."+string(c.cfg.Prec), 1)
			}
		}
	}
}

// c18ePercentileOK: A is the 99.9th percentile of the absolute training values (documented rank
// int(N*0.999), or the nearest-rank convention ceil(0.999N)-1).
func c18ePercentileOK(vals []float64, a float64) bool {
	sort.Float64s(vals)
	n := len(vals)
	for _, k := range []int{int(float64(n) * 0.999), (999*n+999)/1000 - 1, 999 * n / 1000} {
		k = max(0, min(k, n-1))
		if vals[k] == a {
			return true
		}
	}
	return false
}

func c18eValue(r *vkit.Rand, class string) float32 {
	if r.Chance(0.01) {
		return float32(math.Copysign(0, -1)) // negative zero (quantifier: "negative zero")
	}
	switch class {
	case "unit":
		return r.F32()
	case "x100":
		return r.F32() * 100
	case "x0.01":
		return r.F32() * 0.01
	case "wide": // exponents from the binary16 subnormal range up to 2^15
		return float32(math.Ldexp(r.Float64()+1, r.Range(-26, 14))) * float32(1-2*r.Intn(2))
	case "f16halfway": // exactly between two binary16 values (ties to even) or one float32 ulp off
		e := r.Range(-14, 14)
		m := float64(r.Intn(1024))
		v := float32(math.Ldexp(1+m/1024+1.0/2048, e))
		v = vkit.Pick(r, []float32{v, math.Nextafter32(v, 0), math.Nextafter32(v, 1e9)})
		return v * float32(1-2*r.Intn(2))
	case "skewed": // a few large components: the 99.9th percentile clips them
		if r.Chance(0.01) {
			return r.F32() * 40
		}
		return r.F32()
	}
	return r.F32()
}

func c18eVector(r *vkit.Rand, class string, dim int) []float32 {
	v := make([]float32, dim)
	nonzero := false
	for k := range v {
		v[k] = c18eValue(r, class)
		nonzero = nonzero || v[k] != 0
	}
	if !nonzero {
		v[0] = 1
	}
	return v
}

func c18eAbs(vs ...[]float32) []float64 {
	var out []float64
	for _, v := range vs {
		for _, x := range v {
			out = append(out, math.Abs(float64(x)))
		}
	}
	return out
}

func (c *c18eCase) reopen(how string) {
	c.cs.Op("%s", how)
	if err := c.e.Close(); err != nil {
		c.cs.Fail("Close: %v", err)
	}
	c.e = nil
	e2, err := engine.Open(c.opts)
	if err != nil {
		c.cs.Fail("engine.Open after restart: %v", err)
	}
	c.e = e2
}

func (c *c18eCase) drop(id string) {
	for i, x := range c.ids {
		if x == id {
			c.ids = append(c.ids[:i:i], c.ids[i+1:]...)
			break
		}
	}
	delete(c.raw, id)
	delete(c.stored, id)
	delete(c.selfOK, id)
	c.gone[id] = true
}

func TestVerifC18Engine(t *testing.T) {
	vkit.Run(t, "C18", func(ctx *vkit.Ctx) {
		c18eProbes(ctx)
		ctx.Group("compress", ctx.N(48, 1200), func(cs *vkit.Case) {
			r := cs.R
			target := vkit.Pick(r, []distance.PrecisionType{distance.Float16, distance.Int8})
			direct := r.Chance(0.25) // index created directly in the target precision (no VCompress)
			metric := distance.Euclidean
			if target == distance.Int8 {
				metric = distance.Cosine
			}
			classes := []string{"unit", "x100", "x0.01", "wide", "f16halfway", "unit"}
			if target == distance.Int8 {
				classes = []string{"unit", "x100", "x0.01", "skewed", "unit"}
			}
			class := vkit.Pick(r, classes)
			dims := []int{1, 2, 3, 8, 16, 33, 64, 128, 257}
			if !ctx.Quick() {
				dims = append(dims, 768)
			}
			dim := vkit.Pick(r, dims)
			n := r.Range(20, ctx.N(120, 300))
			if dim > 64 {
				n = r.Range(20, 60) // cost: the pairwise ranking oracle and the logged queries grow with n*dim
			}
			if target == distance.Int8 && r.Chance(0.3) {
				n = r.Range(40, 90)
				dim = vkit.Pick(r, []int{16, 33}) // > 1000 components: the percentile excludes the largest
			}
			opts := vexec.Options(cs.SubDir("data"))
			e, err := engine.Open(opts)
			if err != nil {
				cs.Fail("engine.Open: %v", err)
			}
			c := &c18eCase{ctx: ctx, cs: cs, e: e, opts: opts, name: "c18", dim: dim, raw: map[string][]float32{}, stored: map[string][]float32{},
				gone: map[string]bool{}, selfOK: map[string]bool{}}
			defer func() {
				if c.e != nil {
					c.e.Close()
				}
			}()
			prec := distance.Float32
			if direct {
				prec = target
			}
			c.cfg = vexec.IndexCfg{Name: c.name, Metric: metric, Prec: prec, M: vkit.Pick(r, []int{4, 8, 16, 32}), EfC: vkit.Pick(r, []int{16, 200})}
			cs.Op("VCreate(%s, %s, M=%d, efC=%d, %s) then %d vectors of dim %d, class %s", c.name, metric, c.cfg.M, c.cfg.EfC, prec, n, dim, class)
			if err := e.VCreate(c.name, metric, c.cfg.M, c.cfg.EfC, prec, "", nil, nil, nil); err != nil {
				cs.Fail("VCreate: %v", err)
			}
			// insert paths: single VAdd, or one half through VAddBatch — as the first or as the
			// second half (batch-first: the first vectors an int8 index ever sees arrive in a batch)
			useBatch := r.Chance(0.4)
			batchFirst := useBatch && r.Chance(0.35)
			zeroAt := -1
			if r.Chance(0.25) {
				zeroAt = r.Range(1, n-1) // one all-zero vector, by the engine's own "no vector given" path (dimension known by then)
			}
			inBatch := func(i int) bool { return useBatch && (i < n/2) == batchFirst }
			var batch []types.BatchObject
			var firstVec []float32     // the first vector the index received
			var firstBatch [][]float32 // ... when it arrived inside a batch: that batch
			flush := func() {
				if len(batch) == 0 {
					return
				}
				cs.Op("VAddBatch(%d vectors)", len(batch))
				if err := e.VAddBatch(c.name, batch); err != nil {
					cs.Fail("VAddBatch: %v", err)
				}
				batch = nil
			}
			for i := 0; i < n; i++ {
				id := fmt.Sprintf("v%03d", i)
				v := c18eVector(r, class, dim)
				if i == zeroAt {
					v = make([]float32, dim)
				}
				if i == 0 {
					firstVec = v
				}
				c.ids = append(c.ids, id)
				c.raw[id] = v
				if inBatch(i) {
					if i == zeroAt {
						batch = append(batch, types.BatchObject{Id: id}) // no vector: the zero-vector path of the batch entry point
						ctx.Count("engine.zero_vectors_stored", 1)
					} else {
						batch = append(batch, types.BatchObject{Id: id, Vector: append([]float32(nil), v...)})
					}
					if batchFirst {
						firstBatch = append(firstBatch, v)
					}
					continue
				}
				flush()
				if i == zeroAt {
					cs.Op("VAdd(%s) without a vector (zero vector of the index dimension)", id)
					if err := e.VAdd(c.name, id, nil, nil); err != nil {
						cs.Fail("VAdd(%s, no vector): %v", id, err)
					}
					ctx.Count("engine.zero_vectors_stored", 1)
					continue
				}
				if err := e.VAdd(c.name, id, append([]float32(nil), v...), nil); err != nil {
					cs.Fail("VAdd(%s): %v", id, err)
				}
			}
			flush()
			// an id is deleted and stored again with another vector: the old value must not come
			// back, and must not take part in the training of a later VCompress
			if r.Chance(0.3) {
				for k := r.Range(1, 3); k > 0; k-- {
					id := c.ids[r.Range(1, len(c.ids)-1)]
					if c.raw[id] == nil || id == fmt.Sprintf("v%03d", zeroAt) {
						continue
					}
					v := c18eVector(r, class, dim)
					cs.Op("VDelete(%s); VAdd(%s, another vector)", id, id)
					if err := e.VDelete(c.name, id); err != nil {
						cs.Fail("VDelete(%s): %v", id, err)
					}
					if err := e.VAdd(c.name, id, append([]float32(nil), v...), nil); err != nil {
						cs.Fail("VAdd(%s) after VDelete: %v", id, err)
					}
					c.raw[id] = v
					ctx.Count("engine.ids_deleted_and_stored_again", 1)
				}
			}
			// read-back in the creation precision
			got := c.readAll("after insert", c.raw)
			if direct {
				c.stored = c.raw
				if prec == distance.Int8 {
					// "trained range = 99.9th percentile of absolute training values": an index created
					// in int8 trains on what it receives first — the first vector, or the batch it
					// arrived in (either training set is accepted)
					a := float64(c.absMax())
					okA := c18ePercentileOK(c18eAbs(firstVec), a)
					if !okA && len(firstBatch) > 0 {
						okA = c18ePercentileOK(c18eAbs(firstBatch...), a)
					}
					if !okA {
						cs.Attach("first_vector", firstVec)
						cs.Fail("index created in int8: trained range %v is the 99.9th percentile neither of the first vector received nor of the first batch (%d vectors)", a, len(firstBatch))
					}
					ctx.Count("engine.int8_direct_cases", 1)
				}
			} else {
				c.stored = got // float32 index: exact (euclidean) / normalised (cosine) values
				c.searchCheck("float32 index", 2)
				cs.Op("VCompress(%s, %s)", c.name, target)
				if err := e.VCompress(c.name, target); err != nil {
					cs.Fail("VCompress(%s,%s): %v", c.name, target, err)
				}
				c.cfg.Prec = target
				if target == distance.Int8 {
					var vals []float64
					for _, id := range c.ids {
						vals = append(vals, c18eAbs(c.stored[id])...)
						c.selfOK[id] = true
					}
					a := float64(c.absMax())
					if !c18ePercentileOK(vals, a) {
						cs.Fail("after VCompress to int8: trained range %v is not the 99.9th percentile of the %d absolute stored components (max %v)", a, len(vals), vals[len(vals)-1])
					}
					if vals[len(vals)-1] > a {
						ctx.Count("engine.int8_cases_with_clipped_components", 1)
					}
				}
				c.readAll("after VCompress", c.stored)
			}
			c.searchCheck("index in "+string(c.cfg.Prec), ctx.N(5, 10))
			a0 := c.absMax()
			sameRange := func(when string) {
				// the range is the 99.9th percentile of the same training values as before
				if a1 := c.absMax(); a1 != a0 {
					cs.Fail("%s: trained int8 range is %v, was %v before", when, a1, a0)
				}
			}
			// vacuum: the one product path that writes into the bytes of slots that are not new
			// (it clears the slots of deleted vectors) — the survivors must keep values and distances
			vacuumed := false
			if len(c.ids) > 12 && r.Chance(0.35) {
				k := r.Range(len(c.ids)/10+1, len(c.ids)*3/10)
				perm := r.Perm(len(c.ids))
				var del []string
				for _, p := range perm[:k] {
					del = append(del, c.ids[p])
				}
				cs.Op("VDelete of %d vectors %v; VTriggerMaintenance(vacuum)", len(del), del)
				for _, id := range del {
					if err := c.e.VDelete(c.name, id); err != nil {
						cs.Fail("VDelete(%s): %v", id, err)
					}
					c.drop(id)
				}
				if err := c.e.VTriggerMaintenance(c.name, "vacuum"); err != nil {
					cs.Fail("VTriggerMaintenance(vacuum): %v", err)
				}
				c.readAll("after vacuum", c.stored)
				c.searchCheck("after vacuum, index in "+string(c.cfg.Prec), 2)
				sameRange("after vacuum")
				vacuumed = true
				ctx.Count("engine.vacuum_cases", 1)
			}
			// recovery matrix: none / log replay or the snapshot VCompress wrote / an explicit
			// snapshot / a rewritten log (dequantise -> journal -> requantise)
			restart := vkit.Pick(r, []string{"none", "none", "reopen", "snapshot+reopen", "rewrite+reopen"})
			if restart != "none" {
				// sometimes the vector the int8 range was trained on is deleted first: the
				// range is state of its own and must come back as it was, whatever the log
				// still holds
				if c.cfg.Prec == distance.Int8 && len(c.ids) > 3 && c.ids[0] == "v000" && r.Chance(0.5) {
					gone := c.ids[0]
					cs.Op("VDelete(%s) (first vector added)", gone)
					if err := c.e.VDelete(c.name, gone); err != nil {
						cs.Fail("VDelete(%s): %v", gone, err)
					}
					c.drop(gone)
					ctx.Count("engine.int8_first_vector_deleted_before_restart", 1)
				}
				switch restart {
				case "snapshot+reopen":
					cs.Op("SaveSnapshot")
					if err := c.e.SaveSnapshot(); err != nil {
						cs.Fail("SaveSnapshot: %v", err)
					}
				case "rewrite+reopen":
					cs.Op("RewriteAOF")
					if err := c.e.RewriteAOF(); err != nil {
						cs.Fail("RewriteAOF: %v", err)
					}
				}
				c.reopen("Close + Open")
				c.readAll("after "+restart, c.stored)
				c.searchCheck("after "+restart+", index in "+string(c.cfg.Prec), 3)
				sameRange("after " + restart)
				ctx.Count("engine.restart."+restart, 1)
			}
			// one more insert (a stored vector again, so it lies inside the trained range): the
			// index grows its tables; what was stored before must keep its values and distances
			late := false
			if !direct || prec != distance.Int8 {
				src := c.ids[r.Intn(len(c.ids))]
				// the value the index holds for src in float32 terms (for a cosine index: the
				// unit-length vector), so that it lies inside the trained int8 range
				v := append([]float32(nil), c.stored[src]...)
				cs.Op("VAdd(late) = copy of %s (restart=%s)", src, restart)
				if err := c.e.VAdd(c.name, "late", append([]float32(nil), v...), nil); err != nil {
					cs.Fail("VAdd(late): %v", err)
				}
				c.ids = append(c.ids, "late")
				c.raw["late"] = v
				c.stored["late"] = c.stored[src]
				c.readAll("after a late insert", c.stored)
				c.searchCheck("after a late insert, index in "+string(c.cfg.Prec), 3)
				sameRange("after a late insert")
				ctx.Count("engine.late_insert_cases", 1)
				late = true
				// ... and a late BATCH of more vectors than there are CPUs (copies of distinct
				// stored vectors): with the index at or above efConstruction it takes the parallel
				// insert path of the index's current precision; every one of them, and everything
				// stored before, must read back as stored
				if r.Chance(0.6) {
					nb := runtime.NumCPU()*2 + r.Range(1, 9)
					var lb []types.BatchObject
					for k := 0; k < nb; k++ {
						src := c.ids[(k*7+r.Intn(3))%len(c.ids)]
						id := fmt.Sprintf("lateb%03d", k)
						lb = append(lb, types.BatchObject{Id: id, Vector: append([]float32(nil), c.stored[src]...)})
						c.raw[id] = append([]float32(nil), c.stored[src]...)
						c.stored[id] = c.stored[src]
					}
					imp := r.Chance(0.3)
					cs.Op("late batch of %d vectors (import=%v), index holds %d, efC=%d", nb, imp, len(c.ids), c.cfg.EfC)
					var err error
					if imp {
						// an import is durable only once it is committed
						if err = c.e.VImport(c.name, lb); err == nil {
							err = c.e.VImportCommit(c.name)
						}
					} else {
						err = c.e.VAddBatch(c.name, lb)
					}
					if err != nil {
						cs.Fail("late batch: %v", err)
					}
					for _, it := range lb {
						c.ids = append(c.ids, it.Id)
					}
					c.readAll("after a late batch", c.stored)
					sameRange("after a late batch")
					ctx.Count("engine.late_batch_cases", 1)
					if len(c.ids)-nb >= c.cfg.EfC {
						ctx.Count("engine.late_batch_parallel_path", 1)
					}
				}
			}
			// a second restart: now the state comes from a snapshot plus the tail of the log
			again := r.Chance(0.3)
			if again {
				c.reopen("Close + Open (second restart: snapshot or log, plus what was journaled since)")
				c.readAll("after the second restart", c.stored)
				c.searchCheck("after the second restart, index in "+string(c.cfg.Prec), 2)
				sameRange("after the second restart")
				ctx.Count("engine.second_restart_cases", 1)
			}
			c.subgraphCheck("guided subgraph, index in "+string(c.cfg.Prec), 2)
			ctx.Eval(1)
			ctx.Distinct(fmt.Sprintf("%s/%s/%d/%v/%v/%v/%s/%v/%v/%v", target, class, dim, direct, useBatch, batchFirst, restart, vacuumed, late, again))
			ctx.Sample("engine_case", 2, map[string]any{"ops": cs.Ops()[:min(len(cs.Ops()), 4)]})
		})
		// Thorough tier only: index sizes at which VCompress re-inserts in several batches
		// (5000 per batch) and the quantiser trains on a sample (more than 10 000 vectors: every
		// k-th vector, so the range is only required to be one of the absolute values and to
		// leave at most 1 % of the components outside — the sample's 99.9th percentile).
		ctx.Group("scale", ctx.N(0, 4), func(cs *vkit.Case) {
			r := cs.R
			target := vkit.Pick(r, []distance.PrecisionType{distance.Float16, distance.Int8, distance.Int8})
			metric := distance.Euclidean
			if target == distance.Int8 {
				metric = distance.Cosine
			}
			dim := 2
			n := vkit.Pick(r, []int{5001, 10050})
			opts := vexec.Options(cs.SubDir("data"))
			e, err := engine.Open(opts)
			if err != nil {
				cs.Fail("engine.Open: %v", err)
			}
			c := &c18eCase{ctx: ctx, cs: cs, e: e, opts: opts, name: "c18", dim: dim, raw: map[string][]float32{}, stored: map[string][]float32{},
				gone: map[string]bool{}, selfOK: map[string]bool{}, kmax: 60}
			defer func() {
				if c.e != nil {
					c.e.Close()
				}
			}()
			c.cfg = vexec.IndexCfg{Name: c.name, Metric: metric, Prec: distance.Float32, M: 8, EfC: 16}
			cs.Op("VCreate(%s, %s, M=8, efC=16, float32) then %d vectors of dim %d in batches of 1000; VCompress(%s)", c.name, metric, n, dim, target)
			if err := e.VCreate(c.name, metric, 8, 16, distance.Float32, "", nil, nil, nil); err != nil {
				cs.Fail("VCreate: %v", err)
			}
			var batch []types.BatchObject
			for i := 0; i < n; i++ {
				id := fmt.Sprintf("v%05d", i)
				v := c18eVector(r, "unit", dim)
				c.ids = append(c.ids, id)
				c.raw[id] = v
				batch = append(batch, types.BatchObject{Id: id, Vector: append([]float32(nil), v...)})
				if len(batch) == 1000 || i == n-1 {
					if err := e.VAddBatch(c.name, batch); err != nil {
						cs.Fail("VAddBatch: %v", err)
					}
					batch = nil
					ctx.Touch()
				}
			}
			c.stored = c.readAll("after insert", c.raw)
			if err := e.VCompress(c.name, target); err != nil {
				cs.Fail("VCompress(%s,%s): %v", c.name, target, err)
			}
			ctx.Touch()
			c.cfg.Prec = target
			if target == distance.Int8 {
				var vals []float64
				for _, id := range c.ids {
					vals = append(vals, c18eAbs(c.stored[id])...)
					c.selfOK[id] = true
				}
				a := float64(c.absMax())
				if n <= 10000 {
					if !c18ePercentileOK(vals, a) {
						cs.Fail("after VCompress to int8: trained range %v is not the 99.9th percentile of the %d absolute stored components", a, len(vals))
					}
				} else {
					sort.Float64s(vals)
					k := sort.SearchFloat64s(vals, a)
					if k >= len(vals) || vals[k] != a {
						cs.Fail("after VCompress to int8 (%d vectors, sampled training): trained range %v is none of the absolute stored components", n, a)
					}
					if above := len(vals) - 1 - k; above*100 > len(vals) {
						cs.Fail("after VCompress to int8 (%d vectors, sampled training): %d of %d components lie above the trained range %v — not a 99.9th percentile of any 10 %% sample", n, above, len(vals), a)
					}
				}
			}
			c.readAll("after VCompress", c.stored)
			c.searchCheck("index in "+string(target), 6)
			c.reopen("Close + Open")
			c.readAll("after reopen", c.stored)
			c.searchCheck("after reopen, index in "+string(target), 3)
			ctx.Eval(1)
			ctx.Count("engine.scale_cases", 1)
			ctx.Distinct(fmt.Sprintf("scale/%s/%d", target, n))
		})
	})
}

// ---------------------------------------------------------------------------------------
// Fixed scenarios of recorded findings.
// ---------------------------------------------------------------------------------------

func c18eProbes(ctx *vkit.Ctx) {
	// D-C18-3: hnsw.Index.ComputeDistanceToVector (Engine.VExtractSubgraph with a guide query)
	// normalises the query only for a float32 cosine index; on an int8 cosine index the query is
	// quantised as supplied. A guide query parallel to a stored vector but of small length (every
	// component inside the trained range, below half a quantisation step) becomes the all-zero
	// code: the path reports distance 1 for the vector the float32 index (and the search path of
	// the same int8 index) puts at distance 0, and VExtractSubgraph prunes it.
	ctx.Probe("D-C18-3", func(cs *vkit.Case) string {
		opts := vexec.Options(cs.SubDir("data"))
		e, err := engine.Open(opts)
		if err != nil {
			cs.Fail("engine.Open: %v", err)
		}
		c := &c18eCase{ctx: ctx, cs: cs, e: e, opts: opts, name: "p", dim: 8, raw: map[string][]float32{}, stored: map[string][]float32{}, gone: map[string]bool{}, selfOK: map[string]bool{}}
		defer func() { c.e.Close() }()
		c.cfg = vexec.IndexCfg{Name: c.name, Metric: distance.Cosine, Prec: distance.Float32, M: 8, EfC: 16}
		cs.Op("VCreate(p, cosine, float32); 40 vectors of dim 8; VLink(v000 -> v005)")
		if err := e.VCreate(c.name, distance.Cosine, 8, 16, distance.Float32, "", nil, nil, nil); err != nil {
			cs.Fail("VCreate: %v", err)
		}
		for i := 0; i < 40; i++ {
			id := fmt.Sprintf("v%03d", i)
			v := make([]float32, c.dim)
			for k := range v {
				v[k] = float32(math.Sin(float64(1 + 7*i + 3*k)))
			}
			c.ids = append(c.ids, id)
			c.raw[id] = v
			if err := e.VAdd(c.name, id, append([]float32(nil), v...), nil); err != nil {
				cs.Fail("VAdd(%s): %v", id, err)
			}
		}
		if err := e.VLink(c.name, "v000", "v005", "rel", "", 1, nil); err != nil {
			cs.Fail("VLink: %v", err)
		}
		vd, err := e.VGet(c.name, "v005")
		if err != nil {
			cs.Fail("VGet(v005): %v", err)
		}
		b := append([]float32(nil), vd.Vector...)
		probe := func(when string, q []float32) (dist float64, kept bool) {
			dist, err := c.hnsw().ComputeDistanceToVector("v005", q)
			if err != nil {
				cs.Fail("%s: ComputeDistanceToVector(v005): %v", when, err)
			}
			sg, err := e.VExtractSubgraph(c.name, "v000", []string{"rel"}, 1, 0, q, 0.05)
			if err != nil {
				cs.Fail("%s: VExtractSubgraph: %v", when, err)
			}
			for _, nd := range sg.Nodes {
				kept = kept || nd.ID == "v005"
			}
			return dist, kept
		}
		small := make([]float32, c.dim) // same direction as v005; scale fixed below from the trained range
		for k := range small {
			small[k] = c.raw["v005"][k] * 0.001
		}
		d32, kept32 := probe("float32 index", small)
		cs.Op("VCompress(p, int8)")
		if err := e.VCompress(c.name, distance.Int8); err != nil {
			cs.Fail("VCompress: %v", err)
		}
		c.cfg.Prec = distance.Int8
		a := float64(c.absMax())
		for k := range small {
			small[k] = c.raw["v005"][k] * float32(a/400) // |raw| <= 1: every component below half a step A/254
		}
		cs.Op("guide query = v005 as supplied x A/400 = %v (A=%v)", small, a)
		d, bd, judged := c.refDistGuide(small, b, a)
		if !judged {
			cs.Fail("the pair (guide query, v005) is not inside the clause: d32=%v A=%v", d, a)
		}
		di8, kept8 := probe("int8 index", small)
		var dsearch float64 = math.NaN()
		res, err := e.VSearchWithScores(c.name, small, 40)
		if err != nil {
			cs.Fail("VSearchWithScores: %v", err)
		}
		for _, x := range res {
			if x.ID == "v005" {
				sim := x.Score
				if x.Breakdown != nil {
					sim = x.Breakdown.Similarity
				}
				dsearch = 1/sim - 1
			}
		}
		var out []string
		if math.IsNaN(di8) || math.Abs(di8-d) > bd {
			out = append(out, fmt.Sprintf("cosine/int8 dim 8, guide query parallel to stored vector v005 with every component inside the trained range (A=%.4g): ComputeDistanceToVector(v005) = %.6g; float32 distance %.3g (the same call on the float32 index before VCompress: %.3g; VSearchWithScores on the int8 index for the same pair: %.3g); |difference| %.4g exceeds the derived bound %.4g",
				a, di8, d, d32, dsearch, math.Abs(di8-d), bd))
		}
		if kept32 && !kept8 {
			out = append(out, "VExtractSubgraph(root v000 -> v005, guide query, threshold 0.05) keeps v005 on the float32 index and prunes it after VCompress to int8")
		}
		return strings.Join(out, "; ")
	})
}

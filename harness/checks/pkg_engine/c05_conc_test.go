package engine_test

import (
	"fmt"
	"reflect"
	"runtime"
	"strings"
	"sync"
	"testing"

	"github.com/sanonone/kektordb/internal/zzverif/vexec"
	"github.com/sanonone/kektordb/internal/zzverif/vkit"
	"github.com/sanonone/kektordb/pkg/core/distance"
	"github.com/sanonone/kektordb/pkg/core/types"
	"github.com/sanonone/kektordb/pkg/engine"
)

// C05 under contention — "rejected" is often decided by a race: several clients add the same
// new id (singly or inside a batch), or create the same index, at the same instant, each
// with different data. Whoever loses is rejected, and a rejected call must change nothing
// now or after a restart: for every id the stored vector and metadata must be those of an
// ACKNOWLEDGED call, the same before and after Close/Open.
func TestVerifC05Concurrent(t *testing.T) {
	vkit.Run(t, "C05", func(ctx *vkit.Ctx) {
		ctx.Group("contended", ctx.N(48, 600), func(cs *vkit.Case) {
			if runtime.GOMAXPROCS(0) < 4 {
				runtime.GOMAXPROCS(4)
			}
			dir := cs.SubDir("data")
			e, err := engine.Open(vexec.Options(dir))
			if err != nil {
				cs.Fail("open: %v", err)
			}
			defer func() {
				if e != nil {
					e.Close()
				}
			}()
			r := cs.R
			if err := e.VCreate("ix", distance.Euclidean, 4, 8, distance.Float32, "", nil, nil, nil); err != nil {
				cs.Fail("VCreate: %v", err)
			}
			for i := 0; i < 3; i++ {
				e.VAdd("ix", fmt.Sprintf("base%d", i), []float32{float32(i), 0, 1}, map[string]any{"who": "base"})
			}
			nIDs := r.Range(20, ctx.N(120, 300))
			writers := r.Range(2, 5)
			type call struct {
				vec  []float32
				who  string
				ok   bool
				kind string
			}
			calls := make([][]call, nIDs)
			var wg sync.WaitGroup
			start := make(chan struct{})
			for w := 0; w < writers; w++ {
				wg.Add(1)
				go func(w int) {
					defer wg.Done()
					<-start
					for i := 0; i < nIDs; i++ {
						id := fmt.Sprintf("c%d", i)
						c := &calls[i][w]
						var err error
						if c.kind == "batch" {
							// the contended id sits in the middle of a batch of otherwise fresh ids
							err = e.VAddBatch("ix", []types.BatchObject{
								{Id: fmt.Sprintf("f%d_%d_a", i, w), Vector: []float32{1, 2, 3}},
								{Id: id, Vector: vexec.CopyVec(c.vec), Metadata: map[string]any{"who": c.who}},
								{Id: fmt.Sprintf("f%d_%d_b", i, w), Vector: []float32{3, 2, 1}},
							})
						} else {
							err = e.VAdd("ix", id, vexec.CopyVec(c.vec), map[string]any{"who": c.who})
						}
						c.ok = err == nil
					}
				}(w)
			}
			for i := range calls {
				calls[i] = make([]call, writers)
				for w := range calls[i] {
					k := "single"
					if r.Chance(0.25) {
						k = "batch"
					}
					calls[i][w] = call{vec: []float32{float32(w + 1), float32(i), r.F32()}, who: fmt.Sprintf("w%d", w), kind: k}
				}
			}
			// racing creations of the same index names with different configurations
			const nRaced = 12
			createOK := make([][]bool, nRaced)
			for j := range createOK {
				createOK[j] = make([]bool, writers)
			}
			for w := 0; w < writers; w++ {
				wg.Add(1)
				go func(w int) {
					defer wg.Done()
					<-start
					for j := 0; j < nRaced; j++ {
						createOK[j][w] = e.VCreate(fmt.Sprintf("raced%d", j), distance.Euclidean, 4+w, 8, distance.Float32, "", nil, nil, nil) == nil
					}
				}(w)
			}
			close(start)
			wg.Wait()
			read := func(en *engine.Engine) (map[string]string, string) {
				out := map[string]string{}
				for i := 0; i < nIDs; i++ {
					id := fmt.Sprintf("c%d", i)
					d, err := en.VGet("ix", id)
					if err != nil {
						out[id] = "absent: " + err.Error()
						continue
					}
					out[id] = fmt.Sprintf("%v|%v", d.Vector, d.Metadata["who"])
				}
				// ids that travelled in a batch next to a contended id exist iff that batch was acknowledged
				for i := 0; i < nIDs; i++ {
					for w := 0; w < writers; w++ {
						if calls[i][w].kind != "batch" {
							continue
						}
						for _, suf := range []string{"a", "b"} {
							id := fmt.Sprintf("f%d_%d_%s", i, w, suf)
							_, err := en.VGet("ix", id)
							out[id] = fmt.Sprint(err == nil)
						}
					}
				}
				m := ""
				for j := 0; j < nRaced; j++ {
					info, err := en.DB.GetSingleVectorIndexInfoAPI(fmt.Sprintf("raced%d", j))
					if err == nil {
						m += fmt.Sprint(info.M) + ","
					} else {
						m += "absent,"
					}
				}
				return out, m
			}
			before, mBefore := read(e)
			contended := 0
			for i := 0; i < nIDs; i++ {
				id := fmt.Sprintf("c%d", i)
				acked := 0
				match := false
				for w := 0; w < writers; w++ {
					c := calls[i][w]
					if c.ok {
						acked++
						if before[id] == fmt.Sprintf("%v|%v", c.vec, c.who) {
							match = true
						}
					}
					if c.kind == "batch" {
						for _, suf := range []string{"a", "b"} {
							fid := fmt.Sprintf("f%d_%d_%s", i, w, suf)
							if before[fid] != fmt.Sprint(c.ok) {
								cs.Fail("batch of writer %d around contended id %s was acknowledged=%v but its other item %s exists=%s", w, id, c.ok, fid, before[fid])
							}
						}
					}
				}
				if acked == 0 {
					cs.Fail("no VAdd of %s was acknowledged although the id was new", id)
				}
				if acked > 1 {
					cs.Fail("%d concurrent adds of the same new id %s were all acknowledged", acked, id)
				}
				if !match {
					cs.Fail("id %s holds %s, which is not the data of an acknowledged add", id, before[id])
				}
				if acked == 1 {
					contended++
				}
			}
			ms := strings.Split(mBefore, ",")
			for j := 0; j < nRaced; j++ {
				nCreate := 0
				for w, ok := range createOK[j] {
					if ok {
						nCreate++
						if ms[j] != fmt.Sprint(4+w) {
							cs.Fail("VCreate(raced%d, M=%d) was acknowledged but the index has M=%s", j, 4+w, ms[j])
						}
					}
				}
				if nCreate != 1 {
					cs.Fail("%d of %d concurrent creations of index name raced%d were acknowledged", nCreate, writers, j)
				}
			}
			if err := e.Close(); err != nil {
				if strings.Contains(err.Error(), "close timed out") {
					// the product's own 10 s wall-clock limit in hnsw Close, tripped by a starved
					// machine (see c05Restart): no verdict for this case
					e = nil
					cs.Op("case abandoned without a verdict: %v", err)
					ctx.Count("no_verdict.close_timeout", 1)
					return
				}
				cs.Fail("Close: %v", err)
			}
			e, err = engine.Open(vexec.Options(dir))
			if err != nil {
				cs.Fail("reopen: %v", err)
			}
			after, mAfter := read(e)
			if !reflect.DeepEqual(before, after) || mBefore != mAfter {
				for k, v := range before {
					if after[k] != v {
						cs.Fail("a rejected concurrent call took effect after the restart: %s was %s, is %s", k, v, after[k])
					}
				}
				cs.Fail("the raced indexes had M=%s before the restart and M=%s after it (a rejected creation took effect)", mBefore, mAfter)
			}
			ctx.Count("contended_ids", int64(contended))
			ctx.Count("rejected_concurrent_calls", int64(nIDs*(writers-1)))
			ctx.Eval(1)
			ctx.Distinct(fmt.Sprintf("contended/%d/%d", writers, nIDs/10))
		})
	})
}

package engine

import (
	"encoding/json"
	"fmt"
	"math"
	"sort"
	"strings"
	"testing"
	"time"

	"github.com/sanonone/kektordb/internal/zzverif/vkit"
	"github.com/sanonone/kektordb/pkg/core/distance"
	"github.com/sanonone/kektordb/pkg/core/hnsw"
)

// C15 (b) — engine level: memory-enabled indexes, searched through VSearchWithScores (score
// breakdown) and VSearchGraph (fused score), reinforced through VReinforce.
//
// Oracle (only what the property states):
//   - DecayFactor in [0,1]; Score == Similarity*DecayFactor; results ordered by Score;
//   - DecayFactor == 1 for pinned memories (true / "true" / pinned-by-default layer), for
//     layers with half-life 0, for timestamps not in the past, with memory disabled;
//   - otherwise DecayFactor lies in [F(ageHi), F(ageLo)], F = the memory's model (per-memory
//     override > index model > exponential; unknown names = exponential), age measured from the
//     newer of _created_at / _last_accessed to a clock sample taken before / after the call;
//   - VReinforce: _access_count + 1 exactly, _last_accessed inside the call's clock bracket;
//   - twins (same vector, same metadata): the reinforced one never scores below the other.

type c15Cfg struct {
	ptr     bool // a *MemoryConfig is passed to VCreate at all
	enabled bool
	model   string
	globalH time.Duration
	layers  map[string]hnsw.LayerConfig
}

func (c c15Cfg) memCfg() *hnsw.MemoryConfig {
	if !c.ptr {
		return nil
	}
	return &hnsw.MemoryConfig{Enabled: c.enabled, DecayModel: hnsw.DecayModel(c.model), DecayHalfLife: hnsw.Duration(c.globalH), Layers: c.layers}
}

func (c c15Cfg) String() string {
	ls := []string{}
	for k, v := range c.layers {
		ls = append(ls, fmt.Sprintf("%s:%v/pinned=%v", k, time.Duration(v.DecayHalfLife), v.PinnedByDefault))
	}
	sort.Strings(ls)
	return fmt.Sprintf("{cfg=%v enabled=%v model=%q half_life=%v layers=[%s]}", c.ptr, c.enabled, c.model, c.globalH, strings.Join(ls, " "))
}

// halfLife resolves the half-life (seconds) that applies to a memory of the given layer.
// kind: "layer0" (layer configured without decay), "layer", "global", "global-default"
// (global half-life 0: "defaults to a standard value (e.g. 7 days)" — not a stated law, so the
// oracle demands only the generic laws there).
func (c c15Cfg) halfLife(layer string) (float64, string) {
	if lc, ok := c.layers[layer]; ok {
		if lc.DecayHalfLife == 0 {
			return 0, "layer0"
		}
		return time.Duration(lc.DecayHalfLife).Seconds(), "layer"
	}
	if c.globalH <= 0 {
		return 0, "global-default"
	}
	return c.globalH.Seconds(), "global"
}

type c15Mem struct {
	id  string
	vec []float32
	// metadata as supplied (nil = key absent)
	createdVal  any
	pinnedVal   any
	overrideSet bool
	override    string
	countVal    any
	layerSet    bool
	layerVal    string
	// oracle state
	tsClass              string // past | now | future | injected
	createdLo, createdHi float64
	pinned               bool
	pinnedForm           string
	layer                string
	count                float64
	countForm            string // none | float | int
	lastAccessed         float64
	reinforced           int
	twin                 int // index of the twin memory, -1 if none
	twinLead             bool
}

func (m *c15Mem) meta() map[string]any {
	md := map[string]any{"tag": "t" + m.id}
	if m.twin >= 0 {
		md["tag"] = "twin" // twins carry identical metadata
	}
	if m.createdVal != nil {
		md["_created_at"] = m.createdVal
	}
	if m.pinnedVal != nil {
		md["_pinned"] = m.pinnedVal
	}
	if m.overrideSet {
		md["_decay_model"] = m.override
	}
	if m.countVal != nil {
		md["_access_count"] = m.countVal
	}
	if m.layerSet {
		md["memory_layer"] = m.layerVal
	}
	return md
}

func (m *c15Mem) describe() string {
	return fmt.Sprintf("%s meta=%s ts=%s pinned=%v(%s) layer=%s count=%v(%s) last_accessed=%v reinforced=%d twin=%d", m.id, c15JSON(m.meta()), m.tsClass, m.pinned, m.pinnedForm, m.layer, m.count, m.countForm, m.lastAccessed, m.reinforced, m.twin)
}

func c15JSON(v any) string {
	b, err := json.Marshal(v)
	if err != nil {
		return fmt.Sprintf("%#v", v)
	}
	return string(b)
}

func c15Num(v any) (float64, bool) {
	switch x := v.(type) {
	case float64:
		return x, true
	case float32:
		return float64(x), true
	case int:
		return float64(x), true
	case int64:
		return float64(x), true
	case int32:
		return float64(x), true
	case uint32:
		return float64(x), true
	case uint64:
		return float64(x), true
	case json.Number:
		f, err := x.Float64()
		return f, err == nil
	}
	return 0, false
}

func c15EffModel(cfg c15Cfg, m *c15Mem) string {
	model := cfg.model
	if model == "" {
		model = "exponential"
	}
	if m.overrideSet && m.override != "" {
		model = m.override
	}
	return model
}

func c15ModelClass(model string) string {
	for _, k := range c15Models {
		if k == model {
			return k
		}
	}
	return "unknown"
}

// c15Expect returns the bracket of admissible decay factors of memory m for a search whose
// clock samples (unix seconds) were s0 before and s1 after the call.
func c15Expect(cfg c15Cfg, m *c15Mem, s0, s1 int64) (lo, hi float64, class string) {
	if !cfg.enabled {
		return 1, 1, "disabled"
	}
	if m.pinned {
		return 1, 1, "pinned-" + m.pinnedForm
	}
	h, kind := cfg.halfLife(m.layer)
	switch kind {
	case "layer0":
		return 1, 1, "layer0"
	case "global-default":
		return 0, 1, "global-default"
	}
	refLo, refHi := m.createdLo, m.createdHi
	if m.lastAccessed > refLo {
		refLo = m.lastAccessed
	}
	if m.lastAccessed > refHi {
		refHi = m.lastAccessed
	}
	ageLo, ageHi := float64(s0)-refHi, float64(s1)-refLo
	model := c15EffModel(cfg, m)
	hi = c15RefGuarded(model, ageLo, h, int(m.count))
	lo = c15RefGuarded(model, ageHi, h, int(m.count))
	switch {
	case m.lastAccessed > 0 && m.lastAccessed >= m.createdHi && ageLo < 60:
		class = "reinforced-now" // reference time moved to the reinforcement
	case ageHi <= 0:
		class = "nonpast-" + m.tsClass
	case ageLo < 60:
		class = "just-now"
	default:
		class = "decay-" + c15ModelClass(model)
	}
	return lo, hi, class
}

func c15Within(f, lo, hi float64) bool {
	return f >= lo-1e-9*(1+lo) && f <= hi+1e-9*(1+hi)
}

// c15SimNoise: the distance kernels of the index are float32; two stored copies of one vector
// (and possibly two searches) yield similarities that differ by a few 1e-8 relative. Scores of
// different results / different calls are therefore compared with this slack; decay factors
// reported by one call are compared exactly.
const c15SimNoise = 1e-6

type c15Run struct {
	ctx     *vkit.Ctx
	cs      *vkit.Case
	e       *Engine
	opts    Options
	idx     string
	cfg     c15Cfg
	mems    []*c15Mem
	byID    map[string]*c15Mem
	d17     bool
	classes map[string]bool
	sawDec  bool
	sawOne  bool
}

func c15Options(dir string) Options {
	o := DefaultOptions(dir)
	o.AutoSaveInterval = 0
	o.AutoSaveThreshold = 0
	o.AofRewritePercentage = 0
	o.MaintenanceInterval = time.Hour
	return o
}

func (x *c15Run) open() {
	x.cs.Op("Open")
	e, err := Open(x.opts)
	if err != nil {
		x.cs.Fail("engine.Open failed: %v", err)
	}
	x.e = e
}

func (x *c15Run) close() {
	if x.e != nil {
		x.cs.Op("Close")
		x.e.Close()
		x.e = nil
	}
}

// d17Affected: the exact trigger of known finding D-C15-1 (VSearchWithScores reads neither
// _pinned nor _last_accessed). Only the bracket assertion of that API is skipped for such a
// memory while the finding is listed as known; range, product and ordering stay checked.
func (x *c15Run) d17Affected(m *c15Mem) bool {
	if !x.d17 || !x.cfg.enabled {
		return false
	}
	if _, kind := x.cfg.halfLife(m.layer); kind == "layer0" {
		return false
	}
	return m.pinned || m.lastAccessed > 0
}

func (x *c15Run) note(api, class string) {
	x.ctx.Count(api+"."+class, 1)
	x.classes[class] = true
	if strings.HasPrefix(class, "decay-") {
		x.sawDec = true
	} else if class != "global-default" && class != "just-now" && class != "reinforced-now" {
		x.sawOne = true
	}
}

func (x *c15Run) query() []float32 {
	r := x.cs.R
	if r.Chance(0.5) {
		m := vkit.Pick(r, x.mems)
		return append([]float32(nil), m.vec...)
	}
	return c15Vec(r, len(x.mems[0].vec))
}

func c15Vec(r *vkit.Rand, dim int) []float32 {
	v := make([]float32, dim)
	var n float64
	for i := range v {
		v[i] = r.F32()
		n += float64(v[i]) * float64(v[i])
	}
	if n < 0.01 {
		v[0] = 1
	}
	return v
}

// searchRound runs both search APIs with one query and checks every law on the results.
func (x *c15Run) searchRound(tag string) {
	cs, r := x.cs, x.cs.R
	q := x.query()
	k := len(x.mems) + r.Range(0, 3)

	// ---- VSearchWithScores ----
	cs.Op("%s: VSearchWithScores(%s, %v, k=%d)", tag, x.idx, q, k)
	s0 := time.Now().Unix()
	res, err := x.e.VSearchWithScores(x.idx, q, k)
	s1 := time.Now().Unix()
	if err != nil {
		cs.Fail("VSearchWithScores failed: %v", err)
	}
	sim := map[string]float64{}
	wsFactor := map[string]float64{}
	wsScore := map[string]float64{}
	wsPos := map[string]int{}
	for i, it := range res {
		m := x.byID[it.ID]
		if m == nil {
			continue // not this property's business (C06)
		}
		if it.Breakdown == nil {
			cs.Fail("VSearchWithScores: result %s has no score breakdown", it.ID)
		}
		f, s := it.Breakdown.DecayFactor, it.Breakdown.Similarity
		lo, hi, class := c15Expect(x.cfg, m, s0, s1)
		if !c15In01(f) {
			cs.Fail("VSearchWithScores: decay factor of %s is %v, outside [0,1]; %s; %s", it.ID, f, m.describe(), x.cfg)
		}
		if x.d17Affected(m) {
			x.ctx.Count("ws.bracket_skipped_known_D-C15-1", 1)
		} else {
			if !c15Within(f, lo, hi) {
				cs.Fail("VSearchWithScores: decay factor of %s is %v, want [%v, %v] (%s, clock %d..%d); %s; %s", it.ID, f, lo, hi, class, s0, s1, m.describe(), x.cfg)
			}
			x.note("ws", class)
		}
		if d := math.Abs(it.Score - s*f); !(d <= 1e-12*math.Abs(it.Score)) && d != 0 {
			cs.Fail("VSearchWithScores: score of %s is %v but similarity*decay = %v*%v = %v", it.ID, it.Score, s, f, s*f)
		}
		if i > 0 && !(res[i-1].Score >= it.Score) {
			cs.Fail("VSearchWithScores: results not ordered by score: #%d %s=%v before #%d %s=%v", i-1, res[i-1].ID, res[i-1].Score, i, it.ID, it.Score)
		}
		if _, dup := sim[it.ID]; !dup {
			sim[it.ID], wsFactor[it.ID], wsScore[it.ID], wsPos[it.ID] = s, f, it.Score, i
		}
	}
	x.ctx.Count("ws.calls", 1)
	x.ctx.Count("ws.results", int64(len(res)))

	// ---- VSearchGraph (fused path) ----
	ef := vkit.Pick(r, []int{0, 50, 100})
	cs.Op("%s: VSearchGraph(%s, %v, k=%d, ef=%d)", tag, x.idx, q, k, ef)
	g0 := time.Now().Unix()
	gres, err := x.e.VSearchGraph(x.idx, q, k, "", "", ef, 1.0, nil, false, nil)
	g1 := time.Now().Unix()
	if err != nil {
		cs.Fail("VSearchGraph failed: %v", err)
	}
	gScore := map[string]float64{}
	for i, it := range gres {
		if i > 0 && !(gres[i-1].Score >= it.Score) {
			cs.Fail("VSearchGraph: results not ordered by score: #%d %s=%v before #%d %s=%v", i-1, gres[i-1].ID, gres[i-1].Score, i, it.ID, it.Score)
		}
		m := x.byID[it.ID]
		if m == nil {
			continue
		}
		if _, dup := gScore[it.ID]; !dup {
			gScore[it.ID] = it.Score
		}
		s, ok := sim[it.ID]
		if !ok || !(s > 0) || math.IsInf(s, 0) {
			x.ctx.Count("graph.no_similarity_reference", 1)
			continue
		}
		f := it.Score / s
		lo, hi, class := c15Expect(x.cfg, m, g0, g1)
		if !(f >= 0 && f <= 1+c15SimNoise) {
			cs.Fail("VSearchGraph: score of %s is %v with similarity %v: implied decay factor %v outside [0,1]; %s; %s", it.ID, it.Score, s, f, m.describe(), x.cfg)
		}
		if !x.cfg.enabled && it.Score != s {
			x.ctx.Count("graph.similarity_differs_from_ws_breakdown", 1)
		}
		if !(f >= lo-c15SimNoise && f <= hi+c15SimNoise) {
			cs.Fail("VSearchGraph: score of %s is %v = similarity %v * %v, want a decay factor in [%v, %v] (%s, clock %d..%d); %s; %s", it.ID, it.Score, s, f, lo, hi, class, g0, g1, m.describe(), x.cfg)
		}
		x.note("graph", class)
	}
	x.ctx.Count("graph.calls", 1)

	// ---- twins: the reinforced one never ranks below the other ----
	for ai, a := range x.mems {
		if a.twin < 0 || !a.twinLead || a.reinforced == 0 {
			continue
		}
		b := x.mems[a.twin]
		_ = ai
		if fa, ok := wsScore[a.id]; ok {
			if fb, ok := wsScore[b.id]; ok {
				if x.d17Affected(a) {
					// Known D-C15-1: this API ignores _last_accessed, so both twins are aged from
					// _created_at by two separate clock reads; the law is kept in the form that
					// does not depend on which read came first.
					// (b is unreinforced; its floor is taken as if unpinned, because the known
					// defect also strips a pinned twin pair of its pin in this API.)
					bb := *b
					bb.pinned = false
					blo, _, _ := c15Expect(x.cfg, &bb, s0, s1)
					if !(wsFactor[a.id] >= blo-1e-9) {
						cs.Fail("VSearchWithScores: reinforced twin %s has decay %v, below the unreinforced twin's bracket floor %v; %s | %s; %s", a.id, wsFactor[a.id], blo, a.describe(), b.describe(), x.cfg)
					}
					x.ctx.Count("twin.ws.checked_weak_known_D-C15-1", 1)
				} else {
					if !(wsFactor[a.id] >= wsFactor[b.id]) {
						cs.Fail("VSearchWithScores: reinforced twin %s has decay factor %v, below its unreinforced twin %s at %v; %s | %s; %s", a.id, wsFactor[a.id], b.id, wsFactor[b.id], a.describe(), b.describe(), x.cfg)
					}
					if !(fa >= fb-c15SimNoise*math.Abs(fb)) {
						cs.Fail("VSearchWithScores: reinforced twin %s scores %v (rank %d), below its unreinforced twin %s at %v (rank %d); %s | %s; %s", a.id, fa, wsPos[a.id], b.id, fb, wsPos[b.id], a.describe(), b.describe(), x.cfg)
					}
					x.ctx.Count("twin.ws.checked", 1)
				}
				if fa > fb*(1+c15SimNoise) {
					x.ctx.Count("twin.ws.strictly_above", 1)
				}
			}
		}
		if ga, ok := gScore[a.id]; ok {
			if gb, ok := gScore[b.id]; ok {
				if !(ga >= gb-c15SimNoise*math.Abs(gb)) {
					cs.Fail("VSearchGraph: reinforced twin %s scores %v, below its unreinforced twin %s at %v; %s | %s; %s", a.id, ga, b.id, gb, a.describe(), b.describe(), x.cfg)
				}
				if sa, sb := sim[a.id], sim[b.id]; sa > 0 && sb > 0 {
					if !(ga/sa >= gb/sb-c15SimNoise) {
						cs.Fail("VSearchGraph: reinforced twin %s has implied decay factor %v, below its unreinforced twin %s at %v; %s | %s; %s", a.id, ga/sa, b.id, gb/sb, a.describe(), b.describe(), x.cfg)
					}
				}
				x.ctx.Count("twin.graph.checked", 1)
				if ga > gb*(1+c15SimNoise) {
					x.ctx.Count("twin.graph.strictly_above", 1)
				}
			}
		}
	}
}

// reinforce calls VReinforce(ids) and checks the read-modify-write law on every id.
func (x *c15Run) reinforce(ids []string) {
	cs := x.cs
	others := map[string]float64{}
	for _, m := range x.mems {
		if m.twin >= 0 && !m.twinLead {
			vd, err := x.e.VGet(x.idx, m.id)
			if err == nil {
				c, _ := c15Num(vd.Metadata["_access_count"])
				others[m.id] = c
			}
		}
	}
	cs.Op("VReinforce(%s, %v)", x.idx, ids)
	t0 := time.Now().Unix()
	err := x.e.VReinforce(x.idx, ids)
	t1 := time.Now().Unix()
	if err != nil {
		cs.Fail("VReinforce(%v) failed: %v", ids, err)
	}
	for _, id := range ids {
		m := x.byID[id]
		vd, err := x.e.VGet(x.idx, id)
		if err != nil {
			cs.Fail("VGet(%s) after VReinforce failed: %v", id, err)
		}
		raw, present := vd.Metadata["_access_count"]
		got, isNum := c15Num(raw)
		if !present || !isNum || got != m.count+1 {
			cs.Fail("VReinforce(%s): _access_count is %v (%T), want %v (was %v, supplied as %s); %s", id, raw, raw, m.count+1, m.count, m.countForm, m.describe())
		}
		rawLA, present := vd.Metadata["_last_accessed"]
		la, isNum := c15Num(rawLA)
		if !present || !isNum || la < float64(t0) || la > float64(t1) {
			cs.Fail("VReinforce(%s): _last_accessed is %v (%T), want a unix time in [%d, %d]; %s", id, rawLA, rawLA, t0, t1, m.describe())
		}
		m.count++
		m.lastAccessed = la
		m.reinforced++
		x.ctx.Count("reinforce.ids", 1)
		x.ctx.Count("reinforce.from_count_"+m.countForm, 1)
	}
	// the unreinforced twins stay unreinforced
	for id, c := range others {
		vd, err := x.e.VGet(x.idx, id)
		if err != nil {
			continue
		}
		now, _ := c15Num(vd.Metadata["_access_count"])
		if _, has := vd.Metadata["_last_accessed"]; has || now != c {
			cs.Fail("VReinforce(%v) touched the unreinforced twin %s: _access_count %v -> %v, _last_accessed present=%v", ids, id, c, now, has)
		}
	}
	x.ctx.Count("reinforce.calls", 1)
}

var c15LayerNames = []string{"episodic", "semantic", "procedural", "custom"}

func c15HalfLifeDur(r *vkit.Rand) time.Duration {
	switch r.Intn(3) {
	case 0:
		return vkit.Pick(r, []time.Duration{time.Hour, 6 * time.Hour, 72 * time.Hour, 168 * time.Hour, 720 * time.Hour, 5000 * time.Hour})
	case 1:
		return time.Duration(r.Range(1, 5000)) * time.Hour
	default:
		return time.Duration(r.Range(3600, 5000*3600))*time.Second + time.Duration(r.Intn(1000))*time.Millisecond
	}
}

func c15GenCfg(cs *vkit.Case) c15Cfg {
	r := cs.R
	cfg := c15Cfg{ptr: true, enabled: true}
	switch {
	case cs.Idx%13 == 5:
		cfg.ptr = false // no memory config at all
		cfg.enabled = false
	case cs.Idx%13 == 11:
		cfg.enabled = false // config present but disabled
	}
	// index-level decay model: stratified by case number so every run sees each of them
	all := append(append([]string{}, c15Models...), "", "bogus", "Linear")
	cfg.model = all[cs.Idx%len(all)]
	cfg.globalH = c15HalfLifeDur(r)
	if r.Chance(0.6) {
		cfg.layers = map[string]hnsw.LayerConfig{}
		names := append([]string{}, c15LayerNames...)
		n := r.Range(2, 4)
		for _, p := range r.Perm(len(names))[:n] {
			cfg.layers[names[p]] = hnsw.LayerConfig{DecayHalfLife: hnsw.Duration(c15HalfLifeDur(r)), PinnedByDefault: r.Chance(0.15)}
		}
		if r.Chance(0.7) { // a layer configured without decay
			nm := names[r.Perm(len(names))[0]]
			cfg.layers[nm] = hnsw.LayerConfig{DecayHalfLife: 0, PinnedByDefault: r.Chance(0.3)}
		}
		if r.Chance(0.15) {
			cfg.globalH = 0 // only reachable by memories whose layer is not in the table
		}
	}
	return cfg
}

// c15GenMem draws one memory. kind: 0 = plain past memory (decays), 1 = pinned, 2 = random.
func c15GenMem(ctx *vkit.Ctx, cs *vkit.Case, cfg c15Cfg, id string, dim int, kind int, forTwin bool) *c15Mem {
	r := cs.R
	m := &c15Mem{id: id, vec: c15Vec(r, dim), twin: -1, countForm: "none"}
	// layer
	switch r.Intn(5) {
	case 0, 1: // absent -> "episodic"
	case 2:
		m.layerSet, m.layerVal = true, vkit.Pick(r, c15LayerNames)
	case 3:
		if len(cfg.layers) > 0 {
			names := []string{}
			for k := range cfg.layers {
				names = append(names, k)
			}
			sort.Strings(names)
			m.layerSet, m.layerVal = true, vkit.Pick(r, names)
		}
	case 4:
		m.layerSet, m.layerVal = true, vkit.Pick(r, []string{"", "unknown-layer", "Episodic"})
	}
	m.layer = "episodic"
	if m.layerSet && m.layerVal != "" {
		m.layer = m.layerVal
	}
	h, hkind := cfg.halfLife(m.layer)
	if hkind == "layer0" || hkind == "global-default" {
		h = float64(r.Range(1, 5000)) * 3600
	}
	// pinned flag
	pk := r.Intn(8)
	if kind == 0 {
		pk = vkit.Pick(r, []int{0, 0, 0, 4, 5})
	} else if kind == 1 {
		pk = 1 + r.Intn(2)
	}
	switch pk {
	case 1:
		m.pinnedVal, m.pinned, m.pinnedForm = true, true, "bool"
	case 2:
		m.pinnedVal, m.pinned, m.pinnedForm = "true", true, "string"
	case 4:
		m.pinnedVal = false
	case 5:
		m.pinnedVal = "false"
	}
	if m.pinnedVal == nil && cfg.enabled && len(cfg.layers) > 0 {
		if lc, ok := cfg.layers[m.layer]; ok && lc.PinnedByDefault {
			m.pinned, m.pinnedForm = true, "layer-default"
		}
	}
	// timestamp (unix seconds). Past ages are a multiple of the applicable half-life that
	// stays >= 10% away from the half-life itself, i.e. >= 6 min away from any threshold.
	now := time.Now().Unix()
	tk := r.Intn(10)
	if kind == 0 {
		tk = 0
	}
	if forTwin && tk >= 8 {
		tk = r.Intn(8) // twins: never "now"/"injected" (both twins would sit on the past/non-past edge)
	}
	switch {
	case tk <= 5:
		ratio := vkit.Pick(r, []float64{0.05 + 0.85*r.Float64(), 0.05 + 0.85*r.Float64(), 1.1 + 1.9*r.Float64(), 5 + 15*r.Float64()})
		age := math.Floor(ratio * h)
		c := float64(now) - age
		m.tsClass = "past"
		switch r.Intn(6) {
		case 0:
			m.createdVal = int(c)
		case 1:
			m.createdVal = int64(c)
		case 2:
			c += 0.5
			m.createdVal = c
		default:
			m.createdVal = c
		}
		m.createdLo, m.createdHi = c, c
	case tk <= 7:
		c := float64(now) + math.Floor((1+999*r.Float64())*3600)
		m.tsClass = "future"
		if r.Chance(0.2) {
			m.createdVal = int64(c)
		} else {
			m.createdVal = c
		}
		m.createdLo, m.createdHi = c, c
	case tk == 8:
		c := float64(now)
		m.tsClass, m.createdVal, m.createdLo, m.createdHi = "now", c, c, c
	default:
		m.tsClass = "injected" // bracket filled in by the VAdd call
	}
	// per-memory model override
	switch r.Intn(6) {
	case 0, 1:
		m.overrideSet, m.override = true, vkit.Pick(r, c15Models)
	case 2:
		m.overrideSet, m.override = true, vkit.Pick(r, []string{"", "bogus", "STEP", "linear "})
	}
	// access count
	switch r.Intn(5) {
	case 0:
		c := float64(r.Range(0, 40))
		m.countVal, m.count, m.countForm = c, c, "float"
	case 1:
		// Known D-C15-3: an int-typed count is ignored by the Ebbinghaus model. The exact trigger
		// (int-typed count on a memory whose effective model is ebbinghaus) is avoided; int-typed
		// counts under every other model stay (VReinforce must add exactly 1 to them too).
		if !(ctx.IsKnown("D-C15-3") && c15ModelClass(c15EffModel(cfg, m)) == "ebbinghaus") {
			c := r.Range(0, 40)
			if r.Chance(0.5) {
				m.countVal = c
			} else {
				m.countVal = int64(c)
			}
			m.count, m.countForm = float64(c), "int"
		} else {
			c := float64(r.Range(1, 1000))
			m.countVal, m.count, m.countForm = c, c, "float"
		}
	}
	return m
}

func (x *c15Run) add(m *c15Mem) {
	md := m.meta()
	x.cs.Op("VAdd(%s, %s, %v, %s)", x.idx, m.id, m.vec, c15JSON(md))
	t0 := time.Now().Unix()
	err := x.e.VAdd(x.idx, m.id, append([]float32(nil), m.vec...), md)
	t1 := time.Now().Unix()
	if err != nil {
		x.cs.Fail("VAdd(%s) failed: %v", m.id, err)
	}
	if m.tsClass == "injected" {
		m.createdLo, m.createdHi = float64(t0), float64(t1)
	}
}

func TestVerifC15Engine(t *testing.T) {
	vkit.Run(t, "C15", func(ctx *vkit.Ctx) {
		ctx.Assume("similarity of a result is taken from the VSearchWithScores breakdown of the same query when the fused score of VSearchGraph is decomposed (both are 1/(1+distance) of the same stored vector)")
		ctx.Assume("a global half-life of 0 with no matching layer 'defaults to a standard value (e.g. 7 days)': only the generic laws (range, product, ordering) are demanded there")
		ctx.Assume("past timestamps are >= 3 minutes old and >= 10% of the half-life away from it; clock brackets are 0-2 s")
		c15Probes(ctx)

		ctx.Group("engine", ctx.N(800, 24000), func(cs *vkit.Case) {
			r := cs.R
			x := &c15Run{ctx: ctx, cs: cs, idx: "mem", opts: c15Options(cs.SubDir("data")), byID: map[string]*c15Mem{}, classes: map[string]bool{}, d17: ctx.IsKnown("D-C15-1")}
			x.cfg = c15GenCfg(cs)
			defer x.close()
			x.open()
			metric := vkit.Pick(r, []distance.DistanceMetric{distance.Euclidean, distance.Cosine})
			prec := vkit.Pick(r, []distance.PrecisionType{distance.Float32, distance.Float32, distance.Float16})
			if metric == distance.Cosine {
				prec = distance.Float32
			}
			cs.Op("VCreate(%s, %s, %s, memory=%s)", x.idx, metric, prec, x.cfg)
			if err := x.e.VCreate(x.idx, metric, 8, 100, prec, "", nil, nil, x.cfg.memCfg()); err != nil {
				cs.Fail("VCreate failed: %v", err)
			}
			dim := r.Range(2, 6)
			n := r.Range(3, 8)
			for i := 0; i < n; i++ {
				kind := 2
				if i < 2 {
					kind = i
				}
				wantTwin := i >= 2 && r.Chance(0.45)
				m := c15GenMem(ctx, cs, x.cfg, fmt.Sprintf("m%d", len(x.mems)), dim, kind, wantTwin)
				x.mems = append(x.mems, m)
				x.byID[m.id] = m
				if wantTwin {
					tw := *m
					tw.id = fmt.Sprintf("m%d", len(x.mems))
					tw.vec = append([]float32(nil), m.vec...)
					m.twin, m.twinLead = len(x.mems), true
					tw.twin, tw.twinLead = len(x.mems)-1, false
					x.mems = append(x.mems, &tw)
					x.byID[tw.id] = &tw
				}
			}
			for _, p := range r.Perm(len(x.mems)) {
				x.add(x.mems[p])
			}
			cs.Attach("config", x.cfg.String())
			defer func() {
				ds := []string{}
				for _, m := range x.mems {
					ds = append(ds, m.describe())
				}
				cs.Attach("memories", ds)
			}()

			x.searchRound("fresh")
			if r.Chance(0.5) {
				x.searchRound("fresh2")
			}
			// reinforcement: every twin lead plus some others, in one or several calls
			var ids []string
			for _, m := range x.mems {
				if (m.twin >= 0 && m.twinLead) || (m.twin < 0 && r.Chance(0.4)) {
					ids = append(ids, m.id)
				}
			}
			if len(ids) == 0 {
				ids = []string{x.mems[0].id}
			}
			if r.Chance(0.5) {
				x.reinforce(ids)
			} else {
				for _, id := range ids {
					x.reinforce([]string{id})
				}
			}
			x.searchRound("reinforced")
			// compression rebuilds the index: the memory configuration (and with it every decay
			// law) must come through
			if metric == distance.Euclidean && prec == distance.Float32 && r.Chance(0.3) {
				cs.Op("VCompress(%s, float16)", x.idx)
				if err := x.e.VCompress(x.idx, distance.Float16); err != nil {
					cs.Fail("VCompress failed: %v", err)
				}
				x.ctx.Count("compressions", 1)
				x.searchRound("compressed")
			}
			restarted := false
			if r.Chance(0.2) {
				x.close()
				x.open()
				restarted = true
				x.ctx.Count("restarts", 1)
				x.searchRound("restarted")
			}
			if r.Chance(0.4) {
				x.reinforce(ids[:1+r.Intn(len(ids))])
				x.searchRound("reinforced-again")
			}

			ctx.Eval(1)
			if x.sawDec && x.sawOne {
				cl := []string{}
				seen := map[string]bool{}
				for c := range x.classes {
					// whether a memory stamped "now" is 0 s or 1 s old at search time depends on
					// the clock: fold those classes so that the evidence is a function of the seed
					if c == "just-now" || c == "nonpast-now" || c == "nonpast-injected" {
						c = "fresh"
					}
					if !seen[c] {
						seen[c] = true
						cl = append(cl, c)
					}
				}
				sort.Strings(cl)
				ctx.Distinct(fmt.Sprintf("engine|%s|layers=%v|restart=%v|%s", c15ModelClass(x.cfg.model), len(x.cfg.layers) > 0, restarted, strings.Join(cl, ",")))
			}
			ds := []string{}
			for _, m := range x.mems {
				ds = append(ds, m.describe())
			}
			if ctx.Shard == 0 {
				ctx.Sample("engine", 2, map[string]any{"config": x.cfg.String(), "memories": ds})
			}
		})
	})
}

// ---------------------------------------------------------------------------------------
// Probes: fixed scenarios of recorded findings.

func c15ProbeEngine(cs *vkit.Case, mc *hnsw.MemoryConfig) *Engine {
	e, err := Open(c15Options(cs.SubDir("data")))
	if err != nil {
		cs.Fail("engine.Open failed: %v", err)
	}
	if err := e.VCreate("p", distance.Cosine, 8, 100, distance.Float32, "", nil, nil, mc); err != nil {
		e.Close()
		cs.Fail("VCreate failed: %v", err)
	}
	return e
}

func c15Probes(ctx *vkit.Ctx) {
	// D-C15-1 (= D17 of DESIGN.md): VSearchWithScores ignores _pinned and _last_accessed.
	ctx.Probe("D-C15-1", func(cs *vkit.Case) string {
		e := c15ProbeEngine(cs, &hnsw.MemoryConfig{Enabled: true, DecayModel: hnsw.DecayExponential, DecayHalfLife: hnsw.Duration(time.Hour)})
		defer e.Close()
		old := float64(time.Now().Unix() - 10*3600)
		vec := []float32{1, 0}
		cs.Op("VAdd plain/pinB/pinS/reinf, _created_at = now-10h, half-life 1h, exponential")
		e.VAdd("p", "plain", vec, map[string]any{"_created_at": old})
		e.VAdd("p", "pinB", vec, map[string]any{"_created_at": old, "_pinned": true})
		e.VAdd("p", "pinS", vec, map[string]any{"_created_at": old, "_pinned": "true"})
		e.VAdd("p", "reinf", vec, map[string]any{"_created_at": old})
		cs.Op("VReinforce(reinf)")
		if err := e.VReinforce("p", []string{"reinf"}); err != nil {
			return "VReinforce failed: " + err.Error()
		}
		cs.Op("VSearchWithScores")
		s0 := time.Now().Unix()
		res, err := e.VSearchWithScores("p", vec, 10)
		s1 := time.Now().Unix()
		if err != nil {
			return "VSearchWithScores failed: " + err.Error()
		}
		reinfFloor := math.Exp2(-float64(s1-s0+3) / 3600)
		var bad []string
		seen := map[string]float64{}
		for _, it := range res {
			seen[it.ID] = it.Breakdown.DecayFactor
		}
		for _, id := range []string{"pinB", "pinS"} {
			if f, ok := seen[id]; !ok || f != 1 {
				bad = append(bad, fmt.Sprintf("%s (pinned, 10 h old, half-life 1 h) decay_factor=%v want 1", id, f))
			}
		}
		if f, ok := seen["reinf"]; !ok || f < reinfFloor {
			bad = append(bad, fmt.Sprintf("reinf (reinforced a moment ago) decay_factor=%v want >= %v", f, reinfFloor))
		}
		cs.Op("VSearchGraph")
		gres, err := e.VSearchGraph("p", vec, 10, "", "", 100, 1.0, nil, false, nil)
		if err != nil {
			return "VSearchGraph failed: " + err.Error()
		}
		g := map[string]float64{}
		for _, it := range gres {
			g[it.ID] = it.Score
		}
		if len(bad) == 0 {
			return ""
		}
		return fmt.Sprintf("VSearchWithScores ignores _pinned and _last_accessed (ops.go:1402-1455 has neither check; searchWithFusion ops.go:1195-1225 has both): %s; VSearchGraph scores for the same memories: pinB=%v pinS=%v reinf=%v plain=%v", strings.Join(bad, "; "), g["pinB"], g["pinS"], g["reinf"], g["plain"])
	})

	// D-C15-2: a negative _access_count (<= -2) makes the Ebbinghaus factor NaN.
	ctx.Probe("D-C15-2", func(cs *vkit.Case) string {
		e := c15ProbeEngine(cs, &hnsw.MemoryConfig{Enabled: true, DecayModel: hnsw.DecayExponential, DecayHalfLife: hnsw.Duration(time.Hour)})
		defer e.Close()
		old := float64(time.Now().Unix() - 2*3600)
		cs.Op("VAdd a (plain), b (_decay_model=ebbinghaus, _access_count=-2)")
		e.VAdd("p", "a", []float32{1, 0}, map[string]any{"_created_at": old})
		e.VAdd("p", "b", []float32{0.9, 0.1}, map[string]any{"_created_at": old, "_decay_model": "ebbinghaus", "_access_count": float64(-2)})
		cs.Op("VSearchWithScores")
		res, err := e.VSearchWithScores("p", []float32{1, 0}, 10)
		if err != nil {
			return "VSearchWithScores failed: " + err.Error()
		}
		var bad []string
		for _, it := range res {
			if !c15In01(it.Breakdown.DecayFactor) {
				_, jerr := json.Marshal(res)
				bad = append(bad, fmt.Sprintf("VSearchWithScores %s decay_factor=%v score=%v (json.Marshal of the result list: %v)", it.ID, it.Breakdown.DecayFactor, it.Score, jerr))
			}
		}
		cs.Op("VSearchGraph")
		gres, _ := e.VSearchGraph("p", []float32{1, 0}, 10, "", "", 100, 1.0, nil, false, nil)
		for _, it := range gres {
			if math.IsNaN(it.Score) {
				bad = append(bad, fmt.Sprintf("VSearchGraph %s score=%v", it.ID, it.Score))
			}
		}
		if f := calculateEbbinghausDecay(3600, 3600, -2); !c15In01(f) {
			bad = append(bad, fmt.Sprintf("calculateEbbinghausDecay(3600,3600,-2)=%v", f))
		}
		if len(bad) == 0 {
			return ""
		}
		return "decay factor outside [0,1] (NaN) for ebbinghaus with _access_count <= -2 (search_utils.go:139 log1p(count) is NaN, the `stability <= 0` fallback at :140 does not catch NaN): " + strings.Join(bad, "; ")
	})

	// D-C15-3: an int-typed _access_count (embedded Go API) is ignored by the Ebbinghaus model
	// in both search paths (type assertion to float64 only), until a restart turns it into float64.
	ctx.Probe("D-C15-3", func(cs *vkit.Case) string {
		e := c15ProbeEngine(cs, &hnsw.MemoryConfig{Enabled: true, DecayModel: hnsw.DecayEbbinghaus, DecayHalfLife: hnsw.Duration(time.Hour)})
		defer e.Close()
		old := float64(time.Now().Unix() - 2*3600)
		vec := []float32{1, 0}
		cs.Op("VAdd f (_access_count=float64(9)), i (_access_count=int(9)), z (no count); 2 h old, half-life 1 h, ebbinghaus")
		e.VAdd("p", "f", vec, map[string]any{"_created_at": old, "_access_count": float64(9)})
		e.VAdd("p", "i", vec, map[string]any{"_created_at": old, "_access_count": 9})
		e.VAdd("p", "z", vec, map[string]any{"_created_at": old})
		s0 := time.Now().Unix()
		res, err := e.VSearchWithScores("p", vec, 10)
		s1 := time.Now().Unix()
		if err != nil {
			return "VSearchWithScores failed: " + err.Error()
		}
		lo := c15Ref("ebbinghaus", float64(s1)-old, 3600, 9)
		hi := c15Ref("ebbinghaus", float64(s0)-old, 3600, 9)
		f := map[string]float64{}
		for _, it := range res {
			f[it.ID] = it.Breakdown.DecayFactor
		}
		gres, _ := e.VSearchGraph("p", vec, 10, "", "", 100, 1.0, nil, false, nil)
		g := map[string]float64{}
		for _, it := range gres {
			g[it.ID] = it.Score
		}
		if c15Within(f["i"], lo, hi) {
			return ""
		}
		return fmt.Sprintf("ebbinghaus ignores an int-typed _access_count: 9 accesses stored as int -> decay_factor %v, stored as float64 -> %v, no count -> %v (want [%v,%v] for 9 accesses); VSearchGraph scores i=%v f=%v z=%v (ops.go:1256 and ops.go:1445 assert .(float64) only, while VReinforce and _created_at accept int/int64)", f["i"], f["f"], f["z"], lo, hi, g["i"], g["f"], g["z"])
	})
}

package engine

import (
	"encoding/json"
	"fmt"
	"math"
	"sort"
	"strings"
	"testing"
	"time"

	"github.com/sanonone/kektordb/internal/zzverif/vkit"
	"github.com/sanonone/kektordb/pkg/core/distance"
	"github.com/sanonone/kektordb/pkg/core/hnsw"
	"github.com/sanonone/kektordb/pkg/core/types"
)

// C15 (b) — engine level: memory-enabled indexes, searched through VSearchWithScores (score
// breakdown), VSearchGraph (fused score) and VSearch (ids), reinforced through VReinforce.
//
// Oracle (only what the property states):
//   - DecayFactor in [0,1]; Score == Similarity*DecayFactor; results ordered by Score;
//   - DecayFactor == 1 for pinned memories (true / "true" / pinned-by-default layer), for
//     layers with half-life 0, for timestamps not in the past, with memory disabled;
//   - otherwise DecayFactor lies in [F(ageHi), F(ageLo)], F = the memory's model (per-memory
//     override > index model > exponential; unknown names = exponential), age measured from the
//     newer of _created_at / _last_accessed to a clock sample taken before / after the call;
//   - where the half-life is not a stated quantity (global half-life <= 0 "defaults to a standard
//     value", negative layer half-life) only the generic laws: range, product, ordering, "never
//     increases as the memory ages" between two memories of one call, step model in {0,1};
//   - VReinforce: _access_count + 1 exactly, _last_accessed inside the call's clock bracket;
//   - twins (same vector, same metadata): the reinforced one never scores below the other;
//   - hybrid (text + vector) search: two memories with the same vector and the same text have the
//     same pre-decay relevance, so their scores differ by the ratio of their decay factors only.
//
// Workload dimensions (the property's quantifier): memories enter through VAdd, VAddBatch and
// VImport(+Commit); _created_at / _last_accessed / _access_count are supplied in every Go number
// type (and json.Number); _last_accessed may be supplied (a reinforcement that happened in the
// past / a stamp older than the creation / a skewed clock); half-lives from 1 ns to the largest
// Duration and negative ones; parameters changed after creation through VSetMetadata; searches
// with k below the number of memories, with a boolean filter, hybrid with any alpha, through the
// ids-only VSearch; restart after nothing / SaveSnapshot / RewriteAOF; VCompress.

type c15Cfg struct {
	ptr     bool // a *MemoryConfig is passed to VCreate at all
	enabled bool
	model   string
	globalH time.Duration
	layers  map[string]hnsw.LayerConfig
	lang    string // text language of the index ("" = no full-text index, hybrid search falls back to vector-only)
}

func (c c15Cfg) memCfg() *hnsw.MemoryConfig {
	if !c.ptr {
		return nil
	}
	return &hnsw.MemoryConfig{Enabled: c.enabled, DecayModel: hnsw.DecayModel(c.model), DecayHalfLife: hnsw.Duration(c.globalH), Layers: c.layers}
}

func (c c15Cfg) String() string {
	ls := []string{}
	for k, v := range c.layers {
		ls = append(ls, fmt.Sprintf("%s:%v/pinned=%v", k, time.Duration(v.DecayHalfLife), v.PinnedByDefault))
	}
	sort.Strings(ls)
	return fmt.Sprintf("{cfg=%v enabled=%v model=%q half_life=%v layers=[%s] text=%q}", c.ptr, c.enabled, c.model, c.globalH, strings.Join(ls, " "), c.lang)
}

// halfLife resolves the half-life (seconds) that applies to a memory of the given layer.
// kind: "layer0" (layer configured without decay), "layer", "global", and two kinds for which no
// half-life is stated: "global-default" (global half-life <= 0: "defaults to a standard value
// (e.g. 7 days)") and "layer-negative" (a negative layer half-life) — the oracle demands only
// the generic laws there.
func (c c15Cfg) halfLife(layer string) (float64, string) {
	if lc, ok := c.layers[layer]; ok {
		if lc.DecayHalfLife == 0 {
			return 0, "layer0"
		}
		if lc.DecayHalfLife < 0 {
			return 0, "layer-negative"
		}
		return time.Duration(lc.DecayHalfLife).Seconds(), "layer"
	}
	if c.globalH <= 0 {
		return 0, "global-default"
	}
	return c.globalH.Seconds(), "global"
}

type c15Mem struct {
	id  string
	vec []float32
	// metadata as supplied (nil = key absent)
	createdVal  any
	pinnedVal   any
	overrideSet bool
	override    string
	countVal    any
	laVal       any // supplied _last_accessed
	layerSet    bool
	layerVal    string
	content     string // text field (hybrid search)
	grp         string // field for boolean filters
	entry       string // add | batch | import
	// oracle state
	tsClass              string // past | ancient | now | future | injected
	createdLo, createdHi float64
	createdForm          string
	pinned               bool
	pinnedForm           string
	layer                string
	count                float64
	countForm            string // none | <number type>
	lastAccessed         float64
	laKind               string // "" | older | between | future | reinforced
	reinforced           int
	changed              []string // parameters changed after creation (VSetMetadata)
	twin                 int      // index of the twin memory, -1 if none
	twinLead             bool
	cousin               int // index of a memory with the same vector and text but its own decay parameters, -1 if none
}

func (m *c15Mem) meta() map[string]any {
	md := map[string]any{"tag": "t" + m.id}
	if m.twin >= 0 {
		md["tag"] = "twin" // twins carry identical metadata
	}
	if m.createdVal != nil {
		md["_created_at"] = m.createdVal
	}
	if m.pinnedVal != nil {
		md["_pinned"] = m.pinnedVal
	}
	if m.overrideSet {
		md["_decay_model"] = m.override
	}
	if m.countVal != nil {
		md["_access_count"] = m.countVal
	}
	if m.laVal != nil {
		md["_last_accessed"] = m.laVal
	}
	if m.layerSet {
		md["memory_layer"] = m.layerVal
	}
	if m.content != "" {
		md["content"] = m.content
	}
	if m.grp != "" {
		md["grp"] = m.grp
	}
	return md
}

func (m *c15Mem) describe() string {
	return fmt.Sprintf("%s via=%s meta=%s ts=%s(%s) created=[%v,%v] pinned=%v(%s) layer=%s count=%v(%s) last_accessed=%v(%s) reinforced=%d changed=%v twin=%d cousin=%d", m.id, m.entry, c15JSON(m.meta()), m.tsClass, m.createdForm, m.createdLo, m.createdHi, m.pinned, m.pinnedForm, m.layer, m.count, m.countForm, m.lastAccessed, m.laKind, m.reinforced, m.changed, m.twin, m.cousin)
}

func c15JSON(v any) string {
	b, err := json.Marshal(v)
	if err != nil {
		return fmt.Sprintf("%#v", v)
	}
	return string(b)
}

func c15Num(v any) (float64, bool) {
	switch x := v.(type) {
	case float64:
		return x, true
	case float32:
		return float64(x), true
	case int:
		return float64(x), true
	case int64:
		return float64(x), true
	case int32:
		return float64(x), true
	case uint32:
		return float64(x), true
	case uint64:
		return float64(x), true
	case json.Number:
		f, err := x.Float64()
		return f, err == nil
	}
	return 0, false
}

// c15NumForm renders the non-negative integer v in one of the number types a metadata map can
// carry through the embedded API (quantifier: "metadata number types"). den is the number the
// value denotes and slack its uncertainty: a float32 holds a timestamp only to +-64 s, and its
// JSON text (log, snapshot) is the shortest decimal that reads back as the same float32 — any
// number within a float32 ulp. Every other form is exact.
func c15NumForm(r *vkit.Rand, v int64, allowF32, allowJSONNumber bool) (val any, den, slack float64, form string) {
	forms := []string{"float64", "float64", "int", "int64", "uint", "uint64"}
	if v <= math.MaxInt32 {
		forms = append(forms, "int32")
	}
	if v <= math.MaxUint32 {
		forms = append(forms, "uint32")
	}
	if v <= 127 {
		forms = append(forms, "int8", "uint8", "int16", "uint16", "float32")
	} else if allowF32 {
		forms = append(forms, "float32")
	}
	if allowJSONNumber {
		forms = append(forms, "json.Number")
	}
	form = vkit.Pick(r, forms)
	den = float64(v)
	switch form {
	case "float64":
		val = float64(v)
	case "int":
		val = int(v)
	case "int64":
		val = v
	case "uint":
		val = uint(v)
	case "uint64":
		val = uint64(v)
	case "int32":
		val = int32(v)
	case "uint32":
		val = uint32(v)
	case "int8":
		val = int8(v)
	case "uint8":
		val = uint8(v)
	case "int16":
		val = int16(v)
	case "uint16":
		val = uint16(v)
	case "float32":
		f := float32(v)
		val, den = f, float64(f)
		if v > 1<<24 {
			slack = float64(math.Nextafter32(f, float32(math.Inf(1)))) - float64(f)
		}
	case "json.Number":
		val = json.Number(fmt.Sprintf("%d", v))
	}
	return val, den, slack, form
}

func c15EffModel(cfg c15Cfg, m *c15Mem) string {
	model := cfg.model
	if model == "" {
		model = "exponential"
	}
	if m.overrideSet && m.override != "" {
		model = m.override
	}
	return model
}

func c15ModelClass(model string) string {
	for _, k := range c15Models {
		if k == model {
			return k
		}
	}
	return "unknown"
}

// ref returns the bracket of the memory's reference time: the newer of created / last accessed.
func (m *c15Mem) ref() (lo, hi float64) {
	lo, hi = m.createdLo, m.createdHi
	if m.lastAccessed > lo {
		lo = m.lastAccessed
	}
	if m.lastAccessed > hi {
		hi = m.lastAccessed
	}
	return lo, hi
}

// c15Expect returns the bracket of admissible decay factors of memory m for a search whose
// clock samples (unix seconds) were s0 before and s1 after the call.
func c15Expect(cfg c15Cfg, m *c15Mem, s0, s1 int64) (lo, hi float64, class string) {
	if !cfg.enabled {
		return 1, 1, "disabled" // "equals 1 ... when decay is disabled"
	}
	if m.pinned {
		return 1, 1, "pinned-" + m.pinnedForm // "equals 1 for pinned memories"
	}
	h, kind := cfg.halfLife(m.layer)
	if kind == "layer0" {
		return 1, 1, "layer0" // "for layers configured without decay"
	}
	refLo, refHi := m.ref()
	ageLo, ageHi := float64(s0)-refHi, float64(s1)-refLo
	if ageHi <= 0 { // "for timestamps not in the past"
		// Labels only (the bracket is [1,1] in every case). A label must not depend on whether
		// the clock ticked between two calls, or the evidence would not be a function of the seed:
		// a memory reinforced / stamped in this very second gets the label it has a second later.
		switch {
		case m.laKind == "reinforced" && m.lastAccessed >= m.createdHi:
			return 1, 1, "reinforced-now"
		case m.lastAccessed > m.createdHi:
			return 1, 1, "nonpast-last-accessed"
		case (kind == "global-default" || kind == "layer-negative") && (m.tsClass == "now" || m.tsClass == "injected"):
			return 1, 1, kind
		}
		return 1, 1, "nonpast-" + m.tsClass
	}
	model := c15EffModel(cfg, m)
	switch kind {
	case "global-default", "layer-negative":
		return 0, 1, kind
	}
	if m.count < 0 && c15ModelClass(model) == "ebbinghaus" {
		// the property says nothing about a negative number of accesses
		return 0, 1, "negative-count"
	}
	// a fractional count lies between two whole numbers of accesses; Ebbinghaus is
	// non-decreasing in the count, every other model ignores it
	cLo, cHi := math.Floor(m.count), math.Ceil(m.count)
	hi = c15RefGuarded(model, ageLo, h, int(cHi))
	lo = c15RefGuarded(model, ageHi, h, int(cLo))
	switch {
	case m.lastAccessed > 0 && m.lastAccessed >= m.createdHi && ageLo < 60:
		class = "reinforced-now" // reference time moved to the reinforcement
	case ageLo < 60:
		class = "just-now"
	default:
		class = "decay-" + c15ModelClass(model)
	}
	return lo, hi, class
}

func c15Within(f, lo, hi float64) bool {
	return f >= lo-1e-9*(1+lo) && f <= hi+1e-9*(1+hi)
}

// c15SimNoise: the distance kernels of the index are float32; two stored copies of one vector
// (and possibly two searches) yield similarities that differ by a few 1e-8 relative. Scores of
// different results / different calls are therefore compared with this slack; decay factors
// reported by one call are compared exactly.
const c15SimNoise = 1e-6

type c15Run struct {
	ctx      *vkit.Ctx
	cs       *vkit.Case
	e        *Engine
	opts     Options
	idx      string
	cfg      c15Cfg
	mems     []*c15Mem
	byID     map[string]*c15Mem
	d17      bool
	bgRefine bool // VImportCommit started a background graph refinement: vector result sets of two calls may differ
	classes  map[string]bool
	sawDec   bool
	sawOne   bool
}

func c15Options(dir string) Options {
	o := DefaultOptions(dir)
	o.AutoSaveInterval = 0
	o.AutoSaveThreshold = 0
	o.AofRewritePercentage = 0
	o.MaintenanceInterval = time.Hour
	return o
}

func (x *c15Run) open() {
	x.cs.Op("Open")
	e, err := Open(x.opts)
	if err != nil {
		x.cs.Fail("engine.Open failed: %v", err)
	}
	x.e = e
	x.bgRefine = false
}

func (x *c15Run) close() {
	if x.e != nil {
		x.cs.Op("Close")
		x.e.Close()
		x.e = nil
	}
}

// d17Affected: the exact trigger of known finding D-C15-1 (VSearchWithScores reads neither
// _pinned nor _last_accessed). Only the bracket assertion of that API is skipped for such a
// memory while the finding is listed as known; range, product and ordering stay checked.
func (x *c15Run) d17Affected(m *c15Mem) bool {
	if !x.d17 || !x.cfg.enabled {
		return false
	}
	if _, kind := x.cfg.halfLife(m.layer); kind == "layer0" {
		return false
	}
	return m.pinned || m.lastAccessed > 0
}

func (x *c15Run) note(api, class string) {
	x.ctx.Count(api+"."+class, 1)
	x.classes[class] = true
	if strings.HasPrefix(class, "decay-") {
		x.sawDec = true
	} else {
		switch class {
		case "global-default", "layer-negative", "negative-count", "reinforced-now":
		case "just-now", "nonpast-now", "nonpast-injected":
			// a memory stamped "now" is 0 s or 1 s old at search time, depending on the clock:
			// neither form may decide whether the case counts (evidence is a function of the seed)
		default:
			x.sawOne = true
		}
	}
}

func (x *c15Run) query() []float32 {
	r := x.cs.R
	if r.Chance(0.5) {
		m := vkit.Pick(r, x.mems)
		return append([]float32(nil), m.vec...)
	}
	return c15Vec(r, len(x.mems[0].vec))
}

func c15Vec(r *vkit.Rand, dim int) []float32 {
	v := make([]float32, dim)
	var n float64
	for i := range v {
		v[i] = r.F32()
		n += float64(v[i]) * float64(v[i])
	}
	if n < 0.01 {
		v[0] = 1
	}
	return v
}

// c15Obs is one decay factor observed for a memory whose half-life is not a stated quantity.
type c15Obs struct {
	m *c15Mem
	f float64
}

// checkAgeOrder: "never increases as the memory ages" between two memories of ONE call that
// share every decay parameter (same layer, hence the same half-life whatever it is, same model,
// same number of accesses) and differ in their reference time only: the older one must not have
// the larger factor. Used where the half-life itself is not stated (global-default /
// layer-negative); everywhere else the model bracket implies it. The product reads the clock once
// per result, so the older memory must be older by more than the call's clock bracket. tol: 0 for
// factors reported by the call, the similarity noise for factors derived from scores.
func (x *c15Run) checkAgeOrder(api string, obs []c15Obs, s0, s1 int64, tol float64) {
	for i, a := range obs {
		for _, b := range obs[i+1:] {
			_, ka := x.cfg.halfLife(a.m.layer)
			_, kb := x.cfg.halfLife(b.m.layer)
			if ka != kb || (ka == "layer-negative" && a.m.layer != b.m.layer) {
				continue // global-default: one global half-life for every layer outside the table
			}
			ma, mb := c15EffModel(x.cfg, a.m), c15EffModel(x.cfg, b.m)
			if c15ModelClass(ma) != c15ModelClass(mb) {
				continue
			}
			if c15ModelClass(ma) == "ebbinghaus" && a.m.count != b.m.count {
				continue
			}
			old, yng := a, b
			alo, _ := a.m.ref()
			blo, _ := b.m.ref()
			if blo < alo {
				old, yng = b, a
			}
			_, ohi := old.m.ref()
			ylo, _ := yng.m.ref()
			if !(ohi+float64(s1-s0)+2 <= ylo) {
				continue
			}
			if old.f > yng.f+tol+1e-12*yng.f {
				x.cs.Fail("%s: decay factor increases with age: %s (reference time <= %v) has factor %v, the younger %s (reference time >= %v) has %v, same model %s and half-life (%s); %s | %s; %s", api, old.m.id, ohi, old.f, yng.m.id, ylo, yng.f, c15ModelClass(ma), ka, old.m.describe(), yng.m.describe(), x.cfg)
			}
			x.ctx.Count(api+".age_order_pairs_"+ka, 1)
		}
	}
}

type c15WS struct {
	sim, factor, score map[string]float64
	pos                map[string]int
	s0, s1             int64 // clock samples around the call
}

// wsCall runs VSearchWithScores and checks every law on the results.
func (x *c15Run) wsCall(tag string, q []float32, k int) c15WS {
	cs := x.cs
	cs.Op("%s: VSearchWithScores(%s, %v, k=%d)", tag, x.idx, q, k)
	s0 := time.Now().Unix()
	res, err := x.e.VSearchWithScores(x.idx, q, k)
	s1 := time.Now().Unix()
	if err != nil {
		cs.Fail("VSearchWithScores failed: %v", err)
	}
	w := c15WS{sim: map[string]float64{}, factor: map[string]float64{}, score: map[string]float64{}, pos: map[string]int{}, s0: s0, s1: s1}
	var unstated []c15Obs
	for i, it := range res {
		m := x.byID[it.ID]
		if m == nil {
			continue // not this property's business (C06)
		}
		if it.Breakdown == nil {
			cs.Fail("VSearchWithScores: result %s has no score breakdown", it.ID)
		}
		f, s := it.Breakdown.DecayFactor, it.Breakdown.Similarity
		lo, hi, class := c15Expect(x.cfg, m, s0, s1)
		if !c15In01(f) {
			cs.Fail("VSearchWithScores: decay factor of %s is %v, outside [0,1]; %s; %s", it.ID, f, m.describe(), x.cfg)
		}
		if x.d17Affected(m) {
			x.ctx.Count("ws.bracket_skipped_known_D-C15-1", 1)
		} else {
			if !c15Within(f, lo, hi) {
				cs.Fail("VSearchWithScores: decay factor of %s is %v, want [%v, %v] (%s, clock %d..%d); %s; %s", it.ID, f, lo, hi, class, s0, s1, m.describe(), x.cfg)
			}
			if class == "global-default" || class == "layer-negative" {
				// "step drops to 0 at the half-life": whatever the half-life, a step factor is 0 or 1
				if c15ModelClass(c15EffModel(x.cfg, m)) == "step" && f != 0 && f != 1 {
					cs.Fail("VSearchWithScores: step-model decay factor of %s is %v, neither 0 nor 1; %s; %s", it.ID, f, m.describe(), x.cfg)
				}
				unstated = append(unstated, c15Obs{m, f})
			}
			x.note("ws", class)
		}
		if d := math.Abs(it.Score - s*f); !(d <= 1e-12*math.Abs(it.Score)) && d != 0 {
			cs.Fail("VSearchWithScores: score of %s is %v but similarity*decay = %v*%v = %v", it.ID, it.Score, s, f, s*f)
		}
		if i > 0 && !(res[i-1].Score >= it.Score) {
			cs.Fail("VSearchWithScores: results not ordered by score: #%d %s=%v before #%d %s=%v", i-1, res[i-1].ID, res[i-1].Score, i, it.ID, it.Score)
		}
		if _, dup := w.sim[it.ID]; !dup {
			w.sim[it.ID], w.factor[it.ID], w.score[it.ID], w.pos[it.ID] = s, f, it.Score, i
		}
	}
	x.checkAgeOrder("ws", unstated, s0, s1, 0)
	x.ctx.Count("ws.calls", 1)
	x.ctx.Count("ws.results", int64(len(res)))
	if k < len(x.mems) {
		x.ctx.Count("ws.calls_k_below_n", 1)
	}
	return w
}

// checkFused checks a result list of the fused path whose pre-decay relevance IS the vector
// similarity (no text part, or alpha = 1): ordering, and score = similarity x a factor inside the
// memory's bracket. only (if not nil) restricts the per-result check to ids for which the vector
// part is known to be present (see hybrid()).
func (x *c15Run) checkFused(api string, gres []GraphSearchResult, g0, g1 int64, sim map[string]float64, only map[string]float64) map[string]float64 {
	cs := x.cs
	gScore := map[string]float64{}
	var unstated []c15Obs
	for i, it := range gres {
		if i > 0 && !(gres[i-1].Score >= it.Score) {
			cs.Fail("%s: results not ordered by score: #%d %s=%v before #%d %s=%v", api, i-1, gres[i-1].ID, gres[i-1].Score, i, it.ID, it.Score)
		}
		m := x.byID[it.ID]
		if m == nil {
			continue
		}
		if _, dup := gScore[it.ID]; !dup {
			gScore[it.ID] = it.Score
		}
		if only != nil {
			if _, ok := only[it.ID]; !ok {
				x.ctx.Count(api+".no_vector_reference", 1)
				continue
			}
		}
		s, ok := sim[it.ID]
		if !ok || !(s > 0) || math.IsInf(s, 0) {
			x.ctx.Count(api+".no_similarity_reference", 1)
			continue
		}
		f := it.Score / s
		lo, hi, class := c15Expect(x.cfg, m, g0, g1)
		if !(f >= 0 && f <= 1+c15SimNoise) {
			cs.Fail("%s: score of %s is %v with similarity %v: implied decay factor %v outside [0,1]; %s; %s", api, it.ID, it.Score, s, f, m.describe(), x.cfg)
		}
		if !x.cfg.enabled && it.Score != s {
			x.ctx.Count(api+".similarity_differs_from_ws_breakdown", 1)
		}
		if !(f >= lo-c15SimNoise && f <= hi+c15SimNoise) {
			cs.Fail("%s: score of %s is %v = similarity %v * %v, want a decay factor in [%v, %v] (%s, clock %d..%d); %s; %s", api, it.ID, it.Score, s, f, lo, hi, class, g0, g1, m.describe(), x.cfg)
		}
		if class == "global-default" || class == "layer-negative" {
			if c15ModelClass(c15EffModel(x.cfg, m)) == "step" && !(f <= c15SimNoise || f >= 1-c15SimNoise) {
				cs.Fail("%s: step-model decay factor of %s is %v (score %v / similarity %v), neither 0 nor 1; %s; %s", api, it.ID, f, it.Score, s, m.describe(), x.cfg)
			}
			unstated = append(unstated, c15Obs{m, f})
		}
		x.note(api, class)
	}
	x.checkAgeOrder(api, unstated, g0, g1, 2*c15SimNoise)
	x.ctx.Count(api+".calls", 1)
	return gScore
}

var c15Words = []string{"alpha", "beta", "gamma", "delta", "omega", "kappa"}

// searchRound runs the search APIs with one query and checks every law on the results.
func (x *c15Run) searchRound(tag string) {
	cs, r := x.cs, x.cs.R
	q := x.query()
	n := len(x.mems)

	// ---- VSearchWithScores: k >= n (similarity reference for the fused path), then k < n ----
	w := x.wsCall(tag, q, n+r.Range(0, 3))
	sim := w.sim
	if r.Chance(0.3) {
		// k below the number of memories: the list is cut; every law holds on what is returned
		x.wsCall(tag+"/small-k", q, r.Range(1, n))
	}

	// ---- VSearchGraph (fused path) ----
	ef := vkit.Pick(r, []int{0, 50, 100})
	k := n + r.Range(0, 3)
	if r.Chance(0.35) {
		k = r.Range(1, n)
	}
	cs.Op("%s: VSearchGraph(%s, %v, k=%d, ef=%d)", tag, x.idx, q, k, ef)
	g0 := time.Now().Unix()
	gres, err := x.e.VSearchGraph(x.idx, q, k, "", "", ef, 1.0, nil, false, nil)
	g1 := time.Now().Unix()
	if err != nil {
		cs.Fail("VSearchGraph failed: %v", err)
	}
	gScore := x.checkFused("graph", gres, g0, g1, sim, nil)
	if k < n {
		x.ctx.Count("graph.calls_k_below_n", 1)
	}

	// ---- VSearch (ids only): "results are ordered by it" — the id list must be compatible with
	// score = similarity x decay for every adjacent pair, whatever the clock did inside the call.
	if r.Chance(0.5) {
		cs.Op("%s: VSearch(%s, %v, k=%d, ef=%d)", tag, x.idx, q, k, ef)
		v0 := time.Now().Unix()
		ids, err := x.e.VSearch(x.idx, q, k, "", "", ef, 1.0, nil)
		v1 := time.Now().Unix()
		if err != nil {
			cs.Fail("VSearch failed: %v", err)
		}
		for i := 1; i < len(ids); i++ {
			a, b := x.byID[ids[i-1]], x.byID[ids[i]]
			if a == nil || b == nil {
				continue
			}
			sa, oka := sim[a.id]
			sb, okb := sim[b.id]
			if !oka || !okb {
				continue
			}
			_, ahi, _ := c15Expect(x.cfg, a, v0, v1)
			blo, _, _ := c15Expect(x.cfg, b, v0, v1)
			if !(sa*(ahi+c15SimNoise)*(1+2*c15SimNoise)+1e-300 >= sb*blo) {
				cs.Fail("VSearch: ids not ordered by score: #%d %s (similarity %v, decay factor <= %v) before #%d %s (similarity %v, decay factor >= %v); %s | %s; %s", i-1, a.id, sa, ahi, i, b.id, sb, blo, a.describe(), b.describe(), x.cfg)
			}
			if blo > 0 {
				x.ctx.Count("vsearch.pairs_decided", 1)
			}
		}
		x.ctx.Count("vsearch.calls", 1)
	}

	// ---- boolean filter: the pre-decay relevance is still the vector similarity ----
	if r.Chance(0.3) {
		filter := "grp='" + vkit.Pick(r, []string{"a", "b"}) + "'"
		cs.Op("%s: VSearchGraph(%s, %v, k=%d, filter=%s, ef=%d)", tag, x.idx, q, k, filter, ef)
		f0 := time.Now().Unix()
		fres, err := x.e.VSearchGraph(x.idx, q, k, filter, "", ef, 1.0, nil, false, nil)
		f1 := time.Now().Unix()
		if err != nil {
			cs.Fail("VSearchGraph with filter %s failed: %v", filter, err)
		}
		x.checkFused("filtered", fres, f0, f1, sim, nil)
	}

	// ---- hybrid (text + vector) ----
	if x.cfg.lang != "" && r.Chance(0.6) {
		x.hybrid(tag, q, k, ef, sim, gScore)
	}

	// ---- twins: the reinforced one never ranks below the other ----
	wsScore, wsFactor, wsPos := w.score, w.factor, w.pos
	for _, a := range x.mems {
		if a.twin < 0 || !a.twinLead || a.reinforced == 0 {
			continue
		}
		b := x.mems[a.twin]
		if fa, ok := wsScore[a.id]; ok {
			if fb, ok := wsScore[b.id]; ok {
				if x.d17Affected(a) {
					// Known D-C15-1: this API ignores _last_accessed, so both twins are aged from
					// _created_at by two separate clock reads; the law is kept in the form that
					// does not depend on which read came first.
					// (b is unreinforced; its floor is taken as if unpinned, because the known
					// defect also strips a pinned twin pair of its pin in this API.)
					bb := *b
					bb.pinned = false
					blo, _, _ := c15Expect(x.cfg, &bb, w.s0, w.s1)
					if !(wsFactor[a.id] >= blo-1e-9) {
						cs.Fail("VSearchWithScores: reinforced twin %s has decay %v, below the unreinforced twin's bracket floor %v; %s | %s; %s", a.id, wsFactor[a.id], blo, a.describe(), b.describe(), x.cfg)
					}
					x.ctx.Count("twin.ws.checked_weak_known_D-C15-1", 1)
				} else {
					if !(wsFactor[a.id] >= wsFactor[b.id]) {
						cs.Fail("VSearchWithScores: reinforced twin %s has decay factor %v, below its unreinforced twin %s at %v; %s | %s; %s", a.id, wsFactor[a.id], b.id, wsFactor[b.id], a.describe(), b.describe(), x.cfg)
					}
					if !(fa >= fb-c15SimNoise*math.Abs(fb)) {
						cs.Fail("VSearchWithScores: reinforced twin %s scores %v (rank %d), below its unreinforced twin %s at %v (rank %d); %s | %s; %s", a.id, fa, wsPos[a.id], b.id, fb, wsPos[b.id], a.describe(), b.describe(), x.cfg)
					}
					x.ctx.Count("twin.ws.checked", 1)
				}
				if fa > fb*(1+c15SimNoise) {
					x.ctx.Count("twin.ws.strictly_above", 1)
				}
			}
		}
		if ga, ok := gScore[a.id]; ok {
			if gb, ok := gScore[b.id]; ok {
				if !(ga >= gb-c15SimNoise*math.Abs(gb)) {
					cs.Fail("VSearchGraph: reinforced twin %s scores %v, below its unreinforced twin %s at %v; %s | %s; %s", a.id, ga, b.id, gb, a.describe(), b.describe(), x.cfg)
				}
				if sa, sb := sim[a.id], sim[b.id]; sa > 0 && sb > 0 {
					if !(ga/sa >= gb/sb-c15SimNoise) {
						cs.Fail("VSearchGraph: reinforced twin %s has implied decay factor %v, below its unreinforced twin %s at %v; %s | %s; %s", a.id, ga/sa, b.id, gb/sb, a.describe(), b.describe(), x.cfg)
					}
				}
				x.ctx.Count("twin.graph.checked", 1)
				if ga > gb*(1+c15SimNoise) {
					x.ctx.Count("twin.graph.strictly_above", 1)
				}
			}
		}
	}
}

// hybrid runs VSearchGraph with a text query next to the vector (the MCP recall / proxy form).
// plain = scores of the vector-only call with the same (query, k, ef): an id it returned is in
// the vector part of this call too (same deterministic graph search), unless a background graph
// refinement is running.
//
// The pre-decay relevance alpha*similarity + (1-alpha)*text is not modelled. What the property
// states is score = relevance x decay; so
//   - alpha = 1: relevance = similarity, the exact per-result law applies;
//   - any alpha: two memories with the same vector and the same text have the same relevance, so
//     score(a) * lo(b) <= score(b) * hi(a) for their decay brackets (and symmetrically) —
//     this decides pinned vs unpinned, reinforced vs not, model vs model under hybrid search.
func (x *c15Run) hybrid(tag string, q []float32, k, ef int, sim, plain map[string]float64) {
	cs, r := x.cs, x.cs.R
	text := vkit.Pick(r, c15Words)
	alpha := vkit.Pick(r, []float64{0, 0.3, 0.5, 0.5, 1, 1, 1.7})
	filter := ""
	if r.Chance(0.25) {
		filter = "grp='" + vkit.Pick(r, []string{"a", "b"}) + "'"
	}
	cs.Op("%s: VSearchGraph(%s, %v, k=%d, filter=%q, text=%q, ef=%d, alpha=%v)", tag, x.idx, q, k, filter, text, ef, alpha)
	h0 := time.Now().Unix()
	hres, err := x.e.VSearchGraph(x.idx, q, k, filter, text, ef, alpha, nil, false, nil)
	h1 := time.Now().Unix()
	if err != nil {
		cs.Fail("hybrid VSearchGraph failed: %v", err)
	}
	x.ctx.Count(fmt.Sprintf("hybrid.calls_alpha_%v", alpha), 1)
	if x.bgRefine || filter != "" {
		// the vector part of this call is not known to equal the plain call's (a filter changes
		// the graph walk): only the ordering is judged
		for i := 1; i < len(hres); i++ {
			if !(hres[i-1].Score >= hres[i].Score) {
				cs.Fail("hybrid: results not ordered by score: #%d %s=%v before #%d %s=%v", i-1, hres[i-1].ID, hres[i-1].Score, i, hres[i].ID, hres[i].Score)
			}
		}
		x.ctx.Count("hybrid.calls_order_only", 1)
		return
	}
	var hScore map[string]float64
	if alpha == 1 {
		hScore = x.checkFused("hybrid1", hres, h0, h1, sim, plain)
	} else {
		hScore = map[string]float64{}
		for i, it := range hres {
			if i > 0 && !(hres[i-1].Score >= it.Score) {
				cs.Fail("hybrid: results not ordered by score: #%d %s=%v before #%d %s=%v", i-1, hres[i-1].ID, hres[i-1].Score, i, it.ID, it.Score)
			}
			if !(it.Score >= 0) || math.IsInf(it.Score, 0) {
				cs.Fail("hybrid: score of %s is %v", it.ID, it.Score)
			}
			if _, dup := hScore[it.ID]; !dup {
				hScore[it.ID] = it.Score
			}
		}
	}
	for ai, a := range x.mems {
		bi := -1
		switch {
		case a.twin >= 0 && a.twinLead:
			bi = a.twin
		case a.cousin > ai:
			bi = a.cousin
		}
		if bi < 0 {
			continue
		}
		b := x.mems[bi]
		sa, oka := hScore[a.id]
		sb, okb := hScore[b.id]
		_, pa := plain[a.id]
		_, pb := plain[b.id]
		if !oka || !okb || !pa || !pb {
			continue
		}
		alo, ahi, ca := c15Expect(x.cfg, a, h0, h1)
		blo, bhi, cb := c15Expect(x.cfg, b, h0, h1)
		const slack = 1 + 4*c15SimNoise
		if !(sa*blo <= sb*ahi*slack+1e-300) || !(sb*alo <= sa*bhi*slack+1e-300) {
			cs.Fail("hybrid (text=%q alpha=%v): %s scores %v and %s scores %v; same vector and same text, so the scores must differ by the ratio of the decay factors, which lie in [%v,%v] (%s) and [%v,%v] (%s) (clock %d..%d); %s | %s; %s", text, alpha, a.id, sa, b.id, sb, alo, ahi, ca, blo, bhi, cb, h0, h1, a.describe(), b.describe(), x.cfg)
		}
		x.ctx.Count("hybrid.pairs_checked", 1)
		if sa > 0 && sb > 0 && (ahi < blo || bhi < alo) {
			x.ctx.Count("hybrid.pairs_with_disjoint_brackets", 1)
		}
	}
}

type c15Before struct {
	count, la float64
	hasLA     bool
}

// reinforce calls VReinforce(ids) and checks the read-modify-write law on every id.
func (x *c15Run) reinforce(ids []string) {
	cs := x.cs
	others := map[string]c15Before{}
	for _, m := range x.mems {
		if m.twin >= 0 && !m.twinLead {
			vd, err := x.e.VGet(x.idx, m.id)
			if err == nil {
				var b c15Before
				b.count, _ = c15Num(vd.Metadata["_access_count"])
				b.la, b.hasLA = c15Num(vd.Metadata["_last_accessed"])
				others[m.id] = b
			}
		}
	}
	cs.Op("VReinforce(%s, %v)", x.idx, ids)
	t0 := time.Now().Unix()
	err := x.e.VReinforce(x.idx, ids)
	t1 := time.Now().Unix()
	if err != nil {
		cs.Fail("VReinforce(%v) failed: %v", ids, err)
	}
	for _, id := range ids {
		m := x.byID[id]
		vd, err := x.e.VGet(x.idx, id)
		if err != nil {
			cs.Fail("VGet(%s) after VReinforce failed: %v", id, err)
		}
		raw, present := vd.Metadata["_access_count"]
		got, isNum := c15Num(raw)
		if !present || !isNum || got != m.count+1 {
			cs.Fail("VReinforce(%s): _access_count is %v (%T), want %v (was %v, supplied as %s); %s", id, raw, raw, m.count+1, m.count, m.countForm, m.describe())
		}
		rawLA, present := vd.Metadata["_last_accessed"]
		la, isNum := c15Num(rawLA)
		if !present || !isNum || la < float64(t0) || la > float64(t1) {
			cs.Fail("VReinforce(%s): _last_accessed is %v (%T), want a unix time in [%d, %d]; %s", id, rawLA, rawLA, t0, t1, m.describe())
		}
		m.count++
		m.lastAccessed = la
		m.laKind = "reinforced"
		m.reinforced++
		x.ctx.Count("reinforce.ids", 1)
		x.ctx.Count("reinforce.from_count_"+m.countForm, 1)
	}
	// the unreinforced twins stay unreinforced
	for id, b := range others {
		vd, err := x.e.VGet(x.idx, id)
		if err != nil {
			continue
		}
		now, _ := c15Num(vd.Metadata["_access_count"])
		la, has := c15Num(vd.Metadata["_last_accessed"])
		if has != b.hasLA || la != b.la || now != b.count {
			cs.Fail("VReinforce(%v) touched the unreinforced twin %s: _access_count %v -> %v, _last_accessed %v (present=%v) -> %v (present=%v)", ids, id, b.count, now, b.la, b.hasLA, la, has)
		}
	}
	x.ctx.Count("reinforce.calls", 1)
}

// change alters one decay parameter of an existing memory through VSetMetadata (what the MCP
// pin / unpin tools do) and moves the oracle's view along. The next search must follow.
func (x *c15Run) change(m *c15Mem) {
	r := x.cs.R
	props := map[string]any{}
	what := ""
	switch r.Intn(4) {
	case 0: // pin
		if r.Chance(0.5) {
			m.pinnedVal, m.pinnedForm = true, "bool"
		} else {
			m.pinnedVal, m.pinnedForm = "true", "string"
		}
		m.pinned = true
		props["_pinned"] = m.pinnedVal
		what = "pin"
	case 1: // unpin (an explicit flag also overrides a pinned-by-default layer)
		if r.Chance(0.5) {
			m.pinnedVal = false
		} else {
			m.pinnedVal = "false"
		}
		m.pinned, m.pinnedForm = false, ""
		props["_pinned"] = m.pinnedVal
		what = "unpin"
	case 2: // decay model override
		m.overrideSet, m.override = true, vkit.Pick(r, []string{"exponential", "linear", "step", "ebbinghaus", "", "bogus"})
		props["_decay_model"] = m.override
		what = "model"
	default: // move to another layer. Whether a memory MOVED into a pinned-by-default layer is
		// "pinned" is not stated anywhere: such targets (and memories pinned by their layer) are left out.
		if m.pinnedForm == "layer-default" {
			return
		}
		var targets []string
		for _, nm := range append(append([]string{}, c15LayerNames...), "unknown-layer") {
			if lc, ok := x.cfg.layers[nm]; ok && lc.PinnedByDefault {
				continue
			}
			if nm != m.layer {
				targets = append(targets, nm)
			}
		}
		if len(targets) == 0 {
			return
		}
		m.layerSet, m.layerVal = true, vkit.Pick(r, targets)
		m.layer = m.layerVal
		props["memory_layer"] = m.layerVal
		what = "layer"
	}
	x.cs.Op("VSetMetadata(%s, %s, %s)", x.idx, m.id, c15JSON(props))
	if err := x.e.VSetMetadata(x.idx, m.id, props); err != nil {
		x.cs.Fail("VSetMetadata(%s, %s) failed: %v", m.id, c15JSON(props), err)
	}
	m.changed = append(m.changed, what)
	x.ctx.Count("changed_after_creation."+what, 1)
}

var c15LayerNames = []string{"episodic", "semantic", "procedural", "custom"}

func c15HalfLifeDur(r *vkit.Rand) time.Duration {
	switch r.Intn(7) {
	case 0, 1:
		return vkit.Pick(r, []time.Duration{time.Hour, 6 * time.Hour, 72 * time.Hour, 168 * time.Hour, 720 * time.Hour, 5000 * time.Hour})
	case 2, 3:
		return time.Duration(r.Range(1, 5000)) * time.Hour
	case 4:
		// the extremes a Duration can express (conversion to seconds is engine code)
		return vkit.Pick(r, []time.Duration{1, time.Microsecond, time.Millisecond, time.Second, time.Minute, 90 * time.Minute, time.Duration(math.MaxInt64), time.Duration(r.Range(1, 3600)) * time.Second})
	default:
		return time.Duration(r.Range(3600, 5000*3600))*time.Second + time.Duration(r.Intn(1000))*time.Millisecond
	}
}

func c15GenCfg(cs *vkit.Case) c15Cfg {
	r := cs.R
	cfg := c15Cfg{ptr: true, enabled: true}
	switch {
	case cs.Idx%13 == 5:
		cfg.ptr = false // no memory config at all
		cfg.enabled = false
	case cs.Idx%13 == 11:
		cfg.enabled = false // config present but disabled
	}
	// index-level decay model: stratified by case number so every run sees each of them
	all := append(append([]string{}, c15Models...), "", "bogus", "Linear")
	cfg.model = all[cs.Idx%len(all)]
	cfg.globalH = c15HalfLifeDur(r)
	if r.Chance(0.6) {
		cfg.layers = map[string]hnsw.LayerConfig{}
		names := append([]string{}, c15LayerNames...)
		n := r.Range(2, 4)
		for _, p := range r.Perm(len(names))[:n] {
			cfg.layers[names[p]] = hnsw.LayerConfig{DecayHalfLife: hnsw.Duration(c15HalfLifeDur(r)), PinnedByDefault: r.Chance(0.15)}
		}
		if r.Chance(0.7) { // a layer configured without decay
			nm := names[r.Perm(len(names))[0]]
			cfg.layers[nm] = hnsw.LayerConfig{DecayHalfLife: 0, PinnedByDefault: r.Chance(0.3)}
		}
		if r.Chance(0.12) { // a negative layer half-life
			nm := names[r.Perm(len(names))[0]]
			cfg.layers[nm] = hnsw.LayerConfig{DecayHalfLife: hnsw.Duration(-c15HalfLifeDur(r)), PinnedByDefault: r.Chance(0.2)}
		}
		if r.Chance(0.15) {
			cfg.globalH = 0 // only reachable by memories whose layer is not in the table
		}
	}
	if r.Chance(0.06) {
		// global half-life <= 0 ("defaults to a standard value"), with or without a layer table
		cfg.globalH = vkit.Pick(r, []time.Duration{0, -1, -time.Hour, time.Duration(math.MinInt64)})
	}
	if r.Chance(0.5) {
		cfg.lang = "english"
	}
	return cfg
}

// c15GenMem draws one memory. kind: 0 = plain past memory (decays), 1 = pinned, 2 = random.
func c15GenMem(ctx *vkit.Ctx, cs *vkit.Case, cfg c15Cfg, id string, dim int, kind int, forTwin bool) *c15Mem {
	r := cs.R
	jsonNum := !ctx.IsKnown("D-C15-5") // known D-C15-5: json.Number-typed values are not read as numbers
	m := &c15Mem{id: id, vec: c15Vec(r, dim), twin: -1, cousin: -1, countForm: "none", entry: "add"}
	m.grp = vkit.Pick(r, []string{"a", "a", "b"})
	m.content = strings.Join([]string{vkit.Pick(r, c15Words), vkit.Pick(r, c15Words), vkit.Pick(r, c15Words)}[:r.Range(1, 3)], " ")
	// layer
	lk := r.Intn(5)
	if cfg.globalH <= 0 && len(cfg.layers) > 0 && r.Chance(0.5) {
		lk = 4 // a layer outside the table: the global half-life applies
	}
	switch lk {
	case 0, 1: // absent -> "episodic"
	case 2:
		m.layerSet, m.layerVal = true, vkit.Pick(r, c15LayerNames)
	case 3:
		if len(cfg.layers) > 0 {
			names := []string{}
			for k := range cfg.layers {
				names = append(names, k)
			}
			sort.Strings(names)
			m.layerSet, m.layerVal = true, vkit.Pick(r, names)
		}
	case 4:
		m.layerSet, m.layerVal = true, vkit.Pick(r, []string{"", "unknown-layer", "Episodic"})
	}
	m.layer = "episodic"
	if m.layerSet && m.layerVal != "" {
		m.layer = m.layerVal
	}
	h, hkind := cfg.halfLife(m.layer)
	if hkind != "layer" && hkind != "global" {
		h = float64(r.Range(1, 5000)) * 3600
	}
	// pinned flag
	pk := r.Intn(8)
	if kind == 0 {
		pk = vkit.Pick(r, []int{0, 0, 0, 4, 5})
	} else if kind == 1 {
		pk = 1 + r.Intn(2)
	}
	switch pk {
	case 1:
		m.pinnedVal, m.pinned, m.pinnedForm = true, true, "bool"
	case 2:
		m.pinnedVal, m.pinned, m.pinnedForm = "true", true, "string"
	case 4:
		m.pinnedVal = false
	case 5:
		m.pinnedVal = "false"
	}
	if m.pinnedVal == nil && cfg.enabled && len(cfg.layers) > 0 {
		if lc, ok := cfg.layers[m.layer]; ok && lc.PinnedByDefault {
			m.pinned, m.pinnedForm = true, "layer-default"
		}
	}
	// timestamp (unix seconds). Past ages are a multiple of the applicable half-life, at least
	// 400 s (a float32 stamp is known to +-128 s only), and never reach back before 1970 (a stamp <= 0 means "no timestamp" to the product).
	now := time.Now().Unix()
	tk := r.Intn(10)
	if kind == 0 {
		tk = 0
	}
	if forTwin && tk >= 8 {
		tk = r.Intn(8) // twins: never "now"/"injected" (both twins would sit on the past/non-past edge)
	}
	switch {
	case tk <= 5:
		ratio := vkit.Pick(r, []float64{0.05 + 0.85*r.Float64(), 0.05 + 0.85*r.Float64(), 1.1 + 1.9*r.Float64(), 5 + 15*r.Float64()})
		age := math.Floor(ratio * h)
		if age < 400 {
			age = float64(400 + r.Intn(3600))
		}
		m.tsClass = "past"
		if age > float64(now-1) || (kind == 2 && r.Chance(0.04)) {
			// "huge" ages: a stamp from the first days of 1970
			age = float64(now) - float64(vkit.Pick(r, []int64{1, 1000, 1000000}))
			m.tsClass = "ancient"
		}
		c := now - int64(age)
		if r.Chance(0.15) {
			m.createdVal, m.createdForm = float64(c)+0.5, "float64-fractional"
			m.createdLo, m.createdHi = float64(c)+0.5, float64(c)+0.5
		} else {
			val, den, slack, form := c15NumForm(r, c, true, jsonNum)
			m.createdVal, m.createdForm = val, form
			m.createdLo, m.createdHi = den-slack, den+slack
		}
	case tk <= 7:
		c := now + int64(math.Floor((1+999*r.Float64())*3600))
		m.tsClass = "future"
		val, den, _, form := c15NumForm(r, c, false, jsonNum)
		m.createdVal, m.createdForm = val, form
		m.createdLo, m.createdHi = den, den
	case tk == 8:
		c := float64(now)
		m.tsClass, m.createdVal, m.createdLo, m.createdHi, m.createdForm = "now", c, c, c, "float64"
	default:
		m.tsClass, m.createdForm = "injected", "absent" // bracket filled in by the add call
	}
	// a last access recorded earlier (what a reinforcement leaves behind; restored / imported
	// history): the reference time is the newer of the two stamps
	if (m.tsClass == "past" || m.tsClass == "ancient") && r.Chance(0.3) {
		var la int64
		age := now - int64(m.createdHi)
		switch lkind := r.Intn(5); {
		case lkind <= 1 && age > 600: // between creation and now: a real, decaying age
			la = int64(m.createdHi) + 2 + int64(r.Float64()*float64(age-300))
			m.laKind = "between"
		case lkind == 4 && !forTwin:
			// clock skew: a last access "in the future" (not for twins: VReinforce would move the
			// lead's reference time BACK to now, below its unreinforced twin's)
			la = now + int64(r.Range(3600, 1000000))
			m.laKind = "future"
		default: // older than the creation stamp: the creation stamp stays the reference
			la = int64(m.createdLo) - int64(r.Range(2, 1000000))
			m.laKind = "older"
		}
		if la >= 1 {
			val, den, _, _ := c15NumForm(r, la, false, jsonNum)
			m.laVal, m.lastAccessed = val, den
		} else {
			m.laKind = ""
		}
	}
	// per-memory model override
	switch r.Intn(6) {
	case 0, 1:
		m.overrideSet, m.override = true, vkit.Pick(r, c15Models)
	case 2:
		m.overrideSet, m.override = true, vkit.Pick(r, []string{"", "bogus", "STEP", "linear "})
	}
	// access count
	switch r.Intn(6) {
	case 0:
		c := float64(r.Range(0, 40))
		m.countVal, m.count, m.countForm = c, c, "float64"
	case 1:
		// Known D-C15-3: an int-typed count is ignored by the Ebbinghaus model. The exact trigger
		// (int-typed count on a memory whose effective model is ebbinghaus) is avoided; int-typed
		// counts under every other model stay (VReinforce must add exactly 1 to them too).
		if !(ctx.IsKnown("D-C15-3") && c15ModelClass(c15EffModel(cfg, m)) == "ebbinghaus") {
			c := int64(r.Range(0, 40))
			if r.Chance(0.15) {
				c = int64(vkit.Pick(r, []int{1000, 1000000}))
			}
			val, den, _, form := c15NumForm(r, c, false, jsonNum)
			m.countVal, m.count, m.countForm = val, den, form
		} else {
			c := float64(r.Range(1, 1000))
			m.countVal, m.count, m.countForm = c, c, "float64"
		}
	case 2:
		if r.Chance(0.4) {
			// fractional / negative counts (JSON can carry them)
			c := vkit.Pick(r, []float64{2.7, 0.5, 11.25, -1, -7, -0.5})
			m.countVal, m.count, m.countForm = c, c, "float64-odd"
		}
	}
	// entry point (VImport only in every other case: its commit starts a background refinement of
	// the graph, during which the hybrid pair law is not judged)
	switch r.Intn(10) {
	case 0, 1, 2:
		m.entry = "batch"
	case 3, 4:
		m.entry = "import"
		if cs.Idx%2 == 1 {
			m.entry = "batch"
		}
	}
	c15GuardEntry(ctx, m)
	return m
}

// c15GuardEntry: known D-C15-4 — VAddBatch / VImport do not apply the pinned-by-default rule of a
// layer. While that finding is listed as known, exactly those memories go through VAdd.
func c15GuardEntry(ctx *vkit.Ctx, m *c15Mem) {
	if m.pinnedForm == "layer-default" && m.entry != "add" && ctx.IsKnown("D-C15-4") {
		m.entry = "add"
	}
}

func (x *c15Run) add(m *c15Mem) {
	md := m.meta()
	x.cs.Op("VAdd(%s, %s, %v, %s)", x.idx, m.id, m.vec, c15JSON(md))
	t0 := time.Now().Unix()
	err := x.e.VAdd(x.idx, m.id, append([]float32(nil), m.vec...), md)
	t1 := time.Now().Unix()
	if err != nil {
		x.cs.Fail("VAdd(%s) failed: %v", m.id, err)
	}
	if m.tsClass == "injected" {
		m.createdLo, m.createdHi = float64(t0), float64(t1)
	}
	x.ctx.Count("entry.VAdd", 1)
}

// addMany sends a group of memories through VAddBatch or VImport (+ VImportCommit).
func (x *c15Run) addMany(api string, ms []*c15Mem) {
	if len(ms) == 0 {
		return
	}
	items := make([]types.BatchObject, len(ms))
	desc := make([]string, len(ms))
	for i, m := range ms {
		md := m.meta()
		items[i] = types.BatchObject{Id: m.id, Vector: append([]float32(nil), m.vec...), Metadata: md}
		desc[i] = fmt.Sprintf("%s %v %s", m.id, m.vec, c15JSON(md))
	}
	x.cs.Op("%s(%s, [%s])", api, x.idx, strings.Join(desc, "; "))
	t0 := time.Now().Unix()
	var err error
	if api == "VAddBatch" {
		err = x.e.VAddBatch(x.idx, items)
	} else {
		err = x.e.VImport(x.idx, items)
	}
	t1 := time.Now().Unix()
	if err != nil {
		x.cs.Fail("%s failed: %v", api, err)
	}
	for _, m := range ms {
		if m.tsClass == "injected" {
			m.createdLo, m.createdHi = float64(t0), float64(t1)
		}
	}
	if api == "VImport" {
		x.cs.Op("VImportCommit(%s)", x.idx)
		if err := x.e.VImportCommit(x.idx); err != nil {
			x.cs.Fail("VImportCommit failed: %v", err)
		}
		x.bgRefine = true
	}
	x.ctx.Count("entry."+api, int64(len(ms)))
}

func TestVerifC15Engine(t *testing.T) {
	vkit.Run(t, "C15", func(ctx *vkit.Ctx) {
		ctx.Assume("similarity of a result is taken from the VSearchWithScores breakdown of the same query when the fused score of VSearchGraph is decomposed (both are 1/(1+distance) of the same stored vector)")
		ctx.Assume("a global half-life <= 0 with no matching layer 'defaults to a standard value (e.g. 7 days)', and a negative layer half-life has no stated meaning: only the generic laws (range, product, ordering, factor 1 for non-past stamps, monotone in age inside one call, step in {0,1}) are demanded there")
		ctx.Assume("past timestamps are >= 400 s old and later than 1970-01-01; clock brackets are the samples taken around each call")
		ctx.Assume("hybrid search: the relevance before decay is not modelled; two memories with the same vector and text are taken to have the same relevance when the vector-only call with the same (query, k, ef) returned both, the call has no filter and no background refinement is running")
		c15Probes(ctx)

		ctx.Group("engine", ctx.N(800, 24000), func(cs *vkit.Case) {
			r := cs.R
			x := &c15Run{ctx: ctx, cs: cs, idx: "mem", opts: c15Options(cs.SubDir("data")), byID: map[string]*c15Mem{}, classes: map[string]bool{}, d17: ctx.IsKnown("D-C15-1")}
			x.cfg = c15GenCfg(cs)
			defer x.close()
			x.open()
			metric := vkit.Pick(r, []distance.DistanceMetric{distance.Euclidean, distance.Cosine})
			prec := vkit.Pick(r, []distance.PrecisionType{distance.Float32, distance.Float32, distance.Float16})
			if metric == distance.Cosine {
				prec = distance.Float32
			}
			cs.Op("VCreate(%s, %s, %s, text=%q, memory=%s)", x.idx, metric, prec, x.cfg.lang, x.cfg)
			if err := x.e.VCreate(x.idx, metric, 8, 100, prec, x.cfg.lang, nil, nil, x.cfg.memCfg()); err != nil {
				cs.Fail("VCreate failed: %v", err)
			}
			dim := r.Range(2, 6)
			n := r.Range(3, 8)
			for i := 0; i < n; i++ {
				kind := 2
				if i < 2 {
					kind = i
				}
				wantTwin := i >= 2 && r.Chance(0.45)
				m := c15GenMem(ctx, cs, x.cfg, fmt.Sprintf("m%d", len(x.mems)), dim, kind, wantTwin)
				x.mems = append(x.mems, m)
				x.byID[m.id] = m
				switch {
				case wantTwin:
					tw := *m
					tw.id = fmt.Sprintf("m%d", len(x.mems))
					tw.vec = append([]float32(nil), m.vec...)
					tw.entry = vkit.Pick(r, []string{"add", "add", "batch", "import"}) // twins may come in through different doors
					if tw.entry == "import" && cs.Idx%2 == 1 {
						tw.entry = "batch"
					}
					c15GuardEntry(ctx, &tw)
					m.twin, m.twinLead = len(x.mems), true
					tw.twin, tw.twinLead = len(x.mems)-1, false
					x.mems = append(x.mems, &tw)
					x.byID[tw.id] = &tw
				case i >= 1 && x.cfg.lang != "" && r.Chance(0.3):
					// a cousin: same vector and text, its own decay parameters (hybrid pair law)
					co := c15GenMem(ctx, cs, x.cfg, fmt.Sprintf("m%d", len(x.mems)), dim, r.Intn(3), false)
					co.vec = append([]float32(nil), m.vec...)
					co.content, co.grp = m.content, m.grp
					m.cousin, co.cousin = len(x.mems), len(x.mems)-1
					x.mems = append(x.mems, co)
					x.byID[co.id] = co
				}
			}
			var batch, imp []*c15Mem
			for _, m := range x.mems {
				switch m.entry {
				case "batch":
					batch = append(batch, m)
				case "import":
					imp = append(imp, m)
				}
			}
			batchDone, impDone := false, false
			for _, p := range r.Perm(len(x.mems)) {
				switch m := x.mems[p]; {
				case m.entry == "batch" && !batchDone:
					batchDone = true
					if len(batch) > 1 && r.Chance(0.3) {
						x.addMany("VAddBatch", batch[:1])
						x.addMany("VAddBatch", batch[1:])
					} else {
						x.addMany("VAddBatch", batch)
					}
				case m.entry == "import" && !impDone:
					impDone = true
					x.addMany("VImport", imp)
				case m.entry == "add":
					x.add(m)
				}
			}
			cs.Attach("config", x.cfg.String())
			defer func() {
				ds := []string{}
				for _, m := range x.mems {
					ds = append(ds, m.describe())
				}
				cs.Attach("memories", ds)
			}()

			x.searchRound("fresh")
			if r.Chance(0.35) {
				x.searchRound("fresh2")
			}
			// parameters changed after creation (twins stay identical: left alone)
			if r.Chance(0.4) {
				for c := r.Range(1, 2); c > 0; c-- {
					if m := vkit.Pick(r, x.mems); m.twin < 0 {
						x.change(m)
					}
				}
				x.searchRound("changed")
			}
			// reinforcement: every twin lead plus some others, in one or several calls
			var ids []string
			for _, m := range x.mems {
				if (m.twin >= 0 && m.twinLead) || (m.twin < 0 && r.Chance(0.4)) {
					ids = append(ids, m.id)
				}
			}
			if len(ids) == 0 {
				ids = []string{x.mems[0].id}
			}
			if r.Chance(0.5) {
				x.reinforce(ids)
			} else {
				for _, id := range ids {
					x.reinforce([]string{id})
				}
			}
			x.searchRound("reinforced")
			// compression rebuilds the index: the memory configuration (and with it every decay
			// law) must come through
			if prec == distance.Float32 && r.Chance(0.3) {
				target := distance.Float16 // Euclidean only
				if metric == distance.Cosine {
					target = distance.Int8 // Cosine only
				}
				cs.Op("VCompress(%s, %s)", x.idx, target)
				if err := x.e.VCompress(x.idx, target); err != nil {
					cs.Fail("VCompress(%s) failed: %v", target, err)
				}
				x.ctx.Count("compressions."+string(target), 1)
				x.searchRound("compressed")
			}
			restarted := false
			if r.Chance(0.2) {
				// what is recovered: the log alone, a snapshot + log tail, a rewritten log
				switch r.Intn(3) {
				case 1:
					cs.Op("SaveSnapshot")
					if err := x.e.SaveSnapshot(); err != nil {
						cs.Fail("SaveSnapshot failed: %v", err)
					}
					x.ctx.Count("restarts.after_snapshot", 1)
				case 2:
					cs.Op("RewriteAOF")
					if err := x.e.RewriteAOF(); err != nil {
						cs.Fail("RewriteAOF failed: %v", err)
					}
					x.ctx.Count("restarts.after_rewrite", 1)
				}
				x.close()
				x.open()
				restarted = true
				x.ctx.Count("restarts", 1)
				// the reinforcement (count, reference time) is what it was
				for _, m := range x.mems {
					if m.reinforced == 0 {
						continue
					}
					vd, err := x.e.VGet(x.idx, m.id)
					if err != nil {
						cs.Fail("VGet(%s) after restart failed: %v", m.id, err)
					}
					c, okc := c15Num(vd.Metadata["_access_count"])
					la, okl := c15Num(vd.Metadata["_last_accessed"])
					if !okc || !okl || c != m.count || la != m.lastAccessed {
						cs.Fail("after restart: reinforced memory %s has _access_count=%v _last_accessed=%v, want %v and %v; %s", m.id, vd.Metadata["_access_count"], vd.Metadata["_last_accessed"], m.count, m.lastAccessed, m.describe())
					}
					x.ctx.Count("restarts.reinforced_state_checked", 1)
				}
				x.searchRound("restarted")
			}
			if r.Chance(0.4) {
				x.reinforce(ids[:1+r.Intn(len(ids))])
				x.searchRound("reinforced-again")
			}

			ctx.Eval(1)
			if x.sawDec && x.sawOne {
				cl := []string{}
				seen := map[string]bool{}
				for c := range x.classes {
					// whether a memory stamped "now" is 0 s or 1 s old at search time depends on
					// the clock: fold those classes so that the evidence is a function of the seed
					if c == "just-now" || c == "nonpast-now" || c == "nonpast-injected" {
						c = "fresh"
					}
					if !seen[c] {
						seen[c] = true
						cl = append(cl, c)
					}
				}
				sort.Strings(cl)
				ctx.Distinct(fmt.Sprintf("engine|%s|layers=%v|restart=%v|%s", c15ModelClass(x.cfg.model), len(x.cfg.layers) > 0, restarted, strings.Join(cl, ",")))
			}
			ds := []string{}
			for _, m := range x.mems {
				ds = append(ds, m.describe())
			}
			if ctx.Shard == 0 {
				ctx.Sample("engine", 2, map[string]any{"config": x.cfg.String(), "memories": ds})
			}
		})
	})
}

// ---------------------------------------------------------------------------------------
// Probes: fixed scenarios of recorded findings.

func c15ProbeEngine(cs *vkit.Case, mc *hnsw.MemoryConfig) *Engine {
	e, err := Open(c15Options(cs.SubDir("data")))
	if err != nil {
		cs.Fail("engine.Open failed: %v", err)
	}
	if err := e.VCreate("p", distance.Cosine, 8, 100, distance.Float32, "", nil, nil, mc); err != nil {
		e.Close()
		cs.Fail("VCreate failed: %v", err)
	}
	return e
}

func c15Probes(ctx *vkit.Ctx) {
	// D-C15-1 (= D17 of DESIGN.md): VSearchWithScores ignores _pinned and _last_accessed.
	ctx.Probe("D-C15-1", func(cs *vkit.Case) string {
		e := c15ProbeEngine(cs, &hnsw.MemoryConfig{Enabled: true, DecayModel: hnsw.DecayExponential, DecayHalfLife: hnsw.Duration(time.Hour)})
		defer e.Close()
		old := float64(time.Now().Unix() - 10*3600)
		vec := []float32{1, 0}
		cs.Op("VAdd plain/pinB/pinS/reinf, _created_at = now-10h, half-life 1h, exponential")
		e.VAdd("p", "plain", vec, map[string]any{"_created_at": old})
		e.VAdd("p", "pinB", vec, map[string]any{"_created_at": old, "_pinned": true})
		e.VAdd("p", "pinS", vec, map[string]any{"_created_at": old, "_pinned": "true"})
		e.VAdd("p", "reinf", vec, map[string]any{"_created_at": old})
		cs.Op("VReinforce(reinf)")
		r0 := time.Now().Unix() // VReinforce stamps the memory with a clock value >= r0
		if err := e.VReinforce("p", []string{"reinf"}); err != nil {
			return "VReinforce failed: " + err.Error()
		}
		cs.Op("VSearchWithScores")
		res, err := e.VSearchWithScores("p", vec, 10)
		s1 := time.Now().Unix()
		if err != nil {
			return "VSearchWithScores failed: " + err.Error()
		}
		// the reinforcement is at most s1-r0 seconds old when the search reads the clock
		reinfFloor := math.Exp2(-float64(s1-r0+1) / 3600)
		var bad []string
		seen := map[string]float64{}
		for _, it := range res {
			seen[it.ID] = it.Breakdown.DecayFactor
		}
		for _, id := range []string{"pinB", "pinS"} {
			if f, ok := seen[id]; !ok || f != 1 {
				bad = append(bad, fmt.Sprintf("%s (pinned, 10 h old, half-life 1 h) decay_factor=%v want 1", id, f))
			}
		}
		if f, ok := seen["reinf"]; !ok || f < reinfFloor {
			bad = append(bad, fmt.Sprintf("reinf (reinforced a moment ago) decay_factor=%v want >= %v", f, reinfFloor))
		}
		cs.Op("VSearchGraph")
		gres, err := e.VSearchGraph("p", vec, 10, "", "", 100, 1.0, nil, false, nil)
		if err != nil {
			return "VSearchGraph failed: " + err.Error()
		}
		g := map[string]float64{}
		for _, it := range gres {
			g[it.ID] = it.Score
		}
		if len(bad) == 0 {
			return ""
		}
		return fmt.Sprintf("VSearchWithScores ignores _pinned and _last_accessed (ops.go:1402-1455 has neither check; searchWithFusion ops.go:1195-1225 has both): %s; VSearchGraph scores for the same memories: pinB=%v pinS=%v reinf=%v plain=%v", strings.Join(bad, "; "), g["pinB"], g["pinS"], g["reinf"], g["plain"])
	})

	// D-C15-2: a negative _access_count (<= -2) makes the Ebbinghaus factor NaN.
	ctx.Probe("D-C15-2", func(cs *vkit.Case) string {
		e := c15ProbeEngine(cs, &hnsw.MemoryConfig{Enabled: true, DecayModel: hnsw.DecayExponential, DecayHalfLife: hnsw.Duration(time.Hour)})
		defer e.Close()
		old := float64(time.Now().Unix() - 2*3600)
		cs.Op("VAdd a (plain), b (_decay_model=ebbinghaus, _access_count=-2)")
		e.VAdd("p", "a", []float32{1, 0}, map[string]any{"_created_at": old})
		e.VAdd("p", "b", []float32{0.9, 0.1}, map[string]any{"_created_at": old, "_decay_model": "ebbinghaus", "_access_count": float64(-2)})
		cs.Op("VSearchWithScores")
		res, err := e.VSearchWithScores("p", []float32{1, 0}, 10)
		if err != nil {
			return "VSearchWithScores failed: " + err.Error()
		}
		var bad []string
		for _, it := range res {
			if !c15In01(it.Breakdown.DecayFactor) {
				_, jerr := json.Marshal(res)
				bad = append(bad, fmt.Sprintf("VSearchWithScores %s decay_factor=%v score=%v (json.Marshal of the result list: %v)", it.ID, it.Breakdown.DecayFactor, it.Score, jerr))
			}
		}
		cs.Op("VSearchGraph")
		gres, _ := e.VSearchGraph("p", []float32{1, 0}, 10, "", "", 100, 1.0, nil, false, nil)
		for _, it := range gres {
			if math.IsNaN(it.Score) {
				bad = append(bad, fmt.Sprintf("VSearchGraph %s score=%v", it.ID, it.Score))
			}
		}
		if f := calculateEbbinghausDecay(3600, 3600, -2); !c15In01(f) {
			bad = append(bad, fmt.Sprintf("calculateEbbinghausDecay(3600,3600,-2)=%v", f))
		}
		if len(bad) == 0 {
			return ""
		}
		return "decay factor outside [0,1] (NaN) for ebbinghaus with _access_count <= -2 (search_utils.go:139 log1p(count) is NaN, the `stability <= 0` fallback at :140 does not catch NaN): " + strings.Join(bad, "; ")
	})

	// D-C15-3: an int-typed _access_count (embedded Go API) is ignored by the Ebbinghaus model
	// in both search paths (type assertion to float64 only), until a restart turns it into float64.
	ctx.Probe("D-C15-3", func(cs *vkit.Case) string {
		e := c15ProbeEngine(cs, &hnsw.MemoryConfig{Enabled: true, DecayModel: hnsw.DecayEbbinghaus, DecayHalfLife: hnsw.Duration(time.Hour)})
		defer e.Close()
		old := float64(time.Now().Unix() - 2*3600)
		vec := []float32{1, 0}
		cs.Op("VAdd f (_access_count=float64(9)), i (_access_count=int(9)), z (no count); 2 h old, half-life 1 h, ebbinghaus")
		e.VAdd("p", "f", vec, map[string]any{"_created_at": old, "_access_count": float64(9)})
		e.VAdd("p", "i", vec, map[string]any{"_created_at": old, "_access_count": 9})
		e.VAdd("p", "z", vec, map[string]any{"_created_at": old})
		s0 := time.Now().Unix()
		res, err := e.VSearchWithScores("p", vec, 10)
		s1 := time.Now().Unix()
		if err != nil {
			return "VSearchWithScores failed: " + err.Error()
		}
		lo := c15Ref("ebbinghaus", float64(s1)-old, 3600, 9)
		hi := c15Ref("ebbinghaus", float64(s0)-old, 3600, 9)
		f := map[string]float64{}
		for _, it := range res {
			f[it.ID] = it.Breakdown.DecayFactor
		}
		gres, _ := e.VSearchGraph("p", vec, 10, "", "", 100, 1.0, nil, false, nil)
		g := map[string]float64{}
		for _, it := range gres {
			g[it.ID] = it.Score
		}
		if c15Within(f["i"], lo, hi) {
			return ""
		}
		return fmt.Sprintf("ebbinghaus ignores an int-typed _access_count: 9 accesses stored as int -> decay_factor %v, stored as float64 -> %v, no count -> %v (want [%v,%v] for 9 accesses); VSearchGraph scores i=%v f=%v z=%v (ops.go:1256 and ops.go:1445 assert .(float64) only, while VReinforce and _created_at accept int/int64)", f["i"], f["f"], f["z"], lo, hi, g["i"], g["f"], g["z"])
	})

	// D-C15-4: a memory of a pinned-by-default layer is pinned ("PinnedByDefault automatically
	// sets _pinned=true for memories in this layer", config.go) only when it enters through VAdd;
	// VAddBatch and VImport (HTTP batch / import) skip the layer defaults, so the same memory decays.
	ctx.Probe("D-C15-4", func(cs *vkit.Case) string {
		mc := &hnsw.MemoryConfig{Enabled: true, DecayModel: hnsw.DecayExponential, DecayHalfLife: hnsw.Duration(time.Hour), Layers: map[string]hnsw.LayerConfig{
			"procedural": {DecayHalfLife: hnsw.Duration(time.Hour), PinnedByDefault: true},
		}}
		e := c15ProbeEngine(cs, mc)
		defer e.Close()
		old := float64(time.Now().Unix() - 2*3600)
		vec := []float32{1, 0}
		md := func() map[string]any { return map[string]any{"_created_at": old, "memory_layer": "procedural"} }
		cs.Op("layer procedural: half-life 1h, pinned_by_default; the same 2-hour-old memory through VAdd / VAddBatch / VImport")
		if err := e.VAdd("p", "add", vec, md()); err != nil {
			return "VAdd failed: " + err.Error()
		}
		if err := e.VAddBatch("p", []types.BatchObject{{Id: "batch", Vector: vec, Metadata: md()}}); err != nil {
			return "VAddBatch failed: " + err.Error()
		}
		if err := e.VImport("p", []types.BatchObject{{Id: "import", Vector: vec, Metadata: md()}}); err != nil {
			return "VImport failed: " + err.Error()
		}
		if err := e.VImportCommit("p"); err != nil {
			return "VImportCommit failed: " + err.Error()
		}
		res, err := e.VSearchWithScores("p", vec, 10)
		if err != nil {
			return "VSearchWithScores failed: " + err.Error()
		}
		f := map[string]float64{}
		for _, it := range res {
			f[it.ID] = it.Breakdown.DecayFactor
		}
		gres, _ := e.VSearchGraph("p", vec, 10, "", "", 100, 1.0, nil, false, nil)
		g := map[string]float64{}
		for _, it := range gres {
			g[it.ID] = it.Score
		}
		var bad []string
		for _, id := range []string{"add", "batch", "import"} {
			if v, ok := f[id]; !ok || v != 1 {
				bad = append(bad, fmt.Sprintf("%s decay_factor=%v", id, v))
			}
		}
		if len(bad) == 0 {
			return ""
		}
		return fmt.Sprintf("a memory of a pinned-by-default layer decays when it enters through VAddBatch / VImport: want decay_factor 1 for all three, got %s (VAdd: %v); VSearchGraph scores add=%v batch=%v import=%v (VAdd applies the layer defaults, ops.go:417-443; VAddBatch ops.go:1686-1698 and VImport ops.go:1856-1866 only stamp _created_at)", strings.Join(bad, ", "), f["add"], g["add"], g["batch"], g["import"])
	})

	// D-C15-5: a json.Number-typed _created_at / _last_accessed / _access_count (what a Go caller gets
	// from a json.Decoder with UseNumber) is not read as a number: the memory does not decay until
	// a restart turns the value into a float64, and VReinforce resets its access count to 1.
	ctx.Probe("D-C15-5", func(cs *vkit.Case) string {
		e := c15ProbeEngine(cs, &hnsw.MemoryConfig{Enabled: true, DecayModel: hnsw.DecayExponential, DecayHalfLife: hnsw.Duration(time.Hour)})
		defer e.Close()
		old := time.Now().Unix() - 2*3600
		vec := []float32{1, 0}
		cs.Op("VAdd f (_created_at float64, _access_count float64(7)), j (the same numbers as json.Number); 2 h old, half-life 1 h")
		e.VAdd("p", "f", vec, map[string]any{"_created_at": float64(old), "_access_count": float64(7)})
		e.VAdd("p", "j", vec, map[string]any{"_created_at": json.Number(fmt.Sprint(old)), "_access_count": json.Number("7")})
		s0 := time.Now().Unix()
		res, err := e.VSearchWithScores("p", vec, 10)
		s1 := time.Now().Unix()
		if err != nil {
			return "VSearchWithScores failed: " + err.Error()
		}
		lo := c15Ref("exponential", float64(s1-old), 3600, 0)
		hi := c15Ref("exponential", float64(s0-old), 3600, 0)
		f := map[string]float64{}
		for _, it := range res {
			f[it.ID] = it.Breakdown.DecayFactor
		}
		gres, _ := e.VSearchGraph("p", vec, 10, "", "", 100, 1.0, nil, false, nil)
		g := map[string]float64{}
		for _, it := range gres {
			g[it.ID] = it.Score
		}
		var bad []string
		if !c15Within(f["j"], lo, hi) {
			bad = append(bad, fmt.Sprintf("2-hour-old memory with a json.Number _created_at: decay_factor %v (float64 twin: %v), want [%v,%v]; VSearchGraph scores j=%v f=%v", f["j"], f["f"], lo, hi, g["j"], g["f"]))
		}
		cs.Op("VReinforce(j)")
		if err := e.VReinforce("p", []string{"j"}); err != nil {
			return "VReinforce failed: " + err.Error()
		}
		vd, err := e.VGet("p", "j")
		if err != nil {
			return "VGet failed: " + err.Error()
		}
		if c, ok := c15Num(vd.Metadata["_access_count"]); !ok || c != 8 {
			bad = append(bad, fmt.Sprintf("VReinforce on _access_count json.Number(7) -> %v, want 8", vd.Metadata["_access_count"]))
		}
		if len(bad) == 0 {
			return ""
		}
		return "json.Number metadata values are not read as numbers (engine toFloat64 utils.go:75 and the switch in VSearchWithScores know float64/int/int64 only; core.AddMetadata normalises every other Go number type to float64 but not json.Number): " + strings.Join(bad, "; ")
	})
}

package engine_test

import (
	"fmt"
	"strings"
	"testing"

	"github.com/sanonone/kektordb/internal/zzverif/vexec"
	"github.com/sanonone/kektordb/internal/zzverif/vkit"
	"github.com/sanonone/kektordb/pkg/core/distance"
	"github.com/sanonone/kektordb/pkg/core/hnsw"
	"github.com/sanonone/kektordb/pkg/core/types"
)

// c05Plant issues one call that the reference model says must be rejected and returns a
// label, or "" when the chosen class is not applicable in the current state.
func c05Plant(cs *vkit.Case, x *vexec.Exec, g *vexec.Gen) string {
	r := cs.R
	m := x.M
	live := vexec.SortedKeys(m.Idx)
	var ix string
	var mi *vexec.MIndex
	if len(live) > 0 {
		ix = vkit.Pick(r, live)
		mi = m.Idx[ix]
	}
	liveID := func() (string, bool) {
		if mi == nil || len(mi.Recs) == 0 {
			return "", false
		}
		return vkit.Pick(r, vexec.SortedKeys(mi.Recs)), true
	}
	freshBatch := func(n int) []types.BatchObject {
		var items []types.BatchObject
		for i := 0; len(items) < n; i++ {
			id := fmt.Sprintf("f%d_%d", len(x.Kinds), i)
			items = append(items, types.BatchObject{Id: id, Vector: g.Vec(), Metadata: g.Meta()})
		}
		return items
	}
	switch p := r.Intn(22); p {
	case 0: // duplicate id, single add (different vector + metadata)
		if id, ok := liveID(); ok {
			x.VAdd(ix, id, g.Vec(), map[string]any{"dup": "single"})
			return "dup_single"
		}
	case 1, 2: // duplicate as first / middle / last item of a batch (below or above the batch threshold)
		if id, ok := liveID(); ok {
			n := r.Range(2, 7)
			items := freshBatch(n)
			pos := vkit.Pick(r, []int{0, n / 2, n - 1})
			items[pos].Id = id
			items[pos].Metadata = map[string]any{"dup": "batch"}
			if p == 1 {
				x.VAddBatch(ix, items)
				return fmt.Sprintf("dup_in_batch_pos%d_of%d", pos, n)
			}
			x.VImport(ix, items)
			return fmt.Sprintf("dup_in_import_pos%d_of%d", pos, n)
		}
	case 3: // duplicate inside the batch itself
		if mi != nil && len(mi.Recs) > 0 {
			items := freshBatch(r.Range(2, 5))
			items[len(items)-1].Id = items[0].Id
			x.VAddBatch(ix, items)
			return "dup_within_batch"
		}
	case 4: // unknown index
		name := "nope"
		switch r.Intn(9) {
		case 0:
			x.VAdd(name, "a", g.Vec(), nil)
		case 1:
			x.VAddBatch(name, freshBatch(2))
		case 2:
			x.VDelete(name, "a")
		case 3:
			x.VSetMetadata(name, "a", map[string]any{"k": "v"})
		case 4:
			x.VReinforce(name, []string{"a"})
		case 5:
			x.VCompress(name, distance.Float16)
		case 6:
			x.VUpdateIndexConfig(name, hnsw.DefaultMaintenanceConfig())
		case 7:
			x.VDeleteIndex(name)
		case 8:
			x.VImport(name, freshBatch(2))
		}
		return "unknown_index"
	case 5: // unknown node
		if mi != nil {
			switch r.Intn(3) {
			case 0:
				x.VDelete(ix, "ghost")
			case 1:
				x.VSetMetadata(ix, "ghost", map[string]any{"k": "v"})
			case 2:
				x.VEvolve(ix, "ghost", g.Vec(), nil, "why")
			}
			return "unknown_node"
		}
	case 6: // a deleted id is unknown too
		if id, ok := liveID(); ok {
			x.VDelete(ix, id)
			if r.Chance(0.5) {
				x.VDelete(ix, id)
			} else {
				x.VSetMetadata(ix, id, map[string]any{"k": "v"})
			}
			return "deleted_node"
		}
	case 7: // dimension mismatch, single
		if mi != nil && len(mi.Recs) > 0 {
			v := make([]float32, mi.Dim+r.Range(1, 3))
			for i := range v {
				v[i] = r.F32()
			}
			x.VAdd(ix, "dimbad", v, nil)
			return "dim_single"
		}
	case 8: // dimension mismatch inside a batch
		if mi != nil && len(mi.Recs) > 0 {
			items := freshBatch(r.Range(2, 6))
			pos := r.Intn(len(items))
			items[pos].Vector = make([]float32, mi.Dim+1)
			if r.Chance(0.5) {
				x.VAddBatch(ix, items)
			} else {
				x.VImport(ix, items)
			}
			return "dim_in_batch"
		}
	case 9, 10: // invalid edge properties
		if mi != nil {
			var props map[string]any
			switch r.Intn(4) {
			case 0:
				props = map[string]any{"bad key!": 1.0}
			case 1:
				props = map[string]any{}
				for i := 0; i < 101; i++ {
					props[fmt.Sprintf("k%d", i)] = float64(i)
				}
			case 2:
				props = map[string]any{strings.Repeat("k", 257): "v"}
			case 3:
				props = map[string]any{"k": strings.Repeat("v", 4097)}
			}
			inv := ""
			if r.Chance(0.5) {
				inv = "ri"
			}
			x.VLink(ix, "n0", "n1", "r", inv, 1, props)
			return "bad_edge_props"
		}
	case 11: // duplicate index name (with another configuration)
		if mi != nil {
			cfg := g.Cfg(ix)
			x.VCreate(cfg)
			return "dup_index"
		}
	case 12: // invalid index definitions; the same name must stay creatable afterwards
		name := "ix_new"
		if m.Idx[name] == nil {
			bad := vkit.Pick(r, [][2]string{{"cosine", "float16"}, {"euclidean", "int8"}, {"euclidean", "float64"}, {"manhattan", "float32"}, {"", ""}})
			x.VCreate(vexec.IndexCfg{Name: name, Metric: distance.DistanceMetric(bad[0]), Prec: distance.PrecisionType(bad[1]), M: 4, EfC: 8})
			if r.Chance(0.6) {
				x.VCreate(g.Cfg(name)) // valid creation right after the rejected one
				x.VAdd(name, "first", g.Vec(), map[string]any{"cat": "alpha"})
			}
			return "invalid_index_definition"
		}
	case 13: // vector-less add to an empty index
		name := "ix_empty"
		if m.Idx[name] == nil {
			x.VCreate(g.Cfg(name))
		}
		if mm := m.Idx[name]; mm != nil && len(mm.Recs) == 0 {
			if r.Chance(0.5) {
				x.VAdd(name, "novec", nil, map[string]any{"k": "v"})
			} else {
				x.VAddBatch(name, []types.BatchObject{{Id: "nv1"}, {Id: "nv2", Metadata: map[string]any{"k": "v"}}})
			}
			return "vectorless_into_empty"
		}
	case 14, 15, 16: // compression rejections
		if mi != nil {
			var target distance.PrecisionType
			label := ""
			switch {
			case mi.Cfg.Prec != distance.Float32:
				target, label = vkit.Pick(r, []distance.PrecisionType{distance.Float16, distance.Int8, distance.Float32}), "compress_already_compressed"
			case len(mi.Recs) == 0:
				target, label = distance.Float16, "compress_empty"
			case r.Chance(0.5):
				target, label = vkit.Pick(r, []distance.PrecisionType{"bogus", "", "FLOAT16"}), "compress_unknown_precision"
			case mi.Cfg.Metric == distance.Cosine:
				target, label = distance.Float16, "compress_unsupported_by_metric"
			default:
				target, label = distance.Int8, "compress_unsupported_by_metric"
			}
			x.VCompress(ix, target)
			return label
		}
	case 17: // drop twice
		if mi != nil && !g.NoDrop {
			x.VDeleteIndex(ix)
			x.VDeleteIndex(ix)
			return "drop_twice"
		}
	case 18: // import commit on unknown index
		x.VImportCommit("nope")
		return "commit_unknown_index"
	case 19: // re-add of an id that was deleted and re-added (must reject the third add)
		if id, ok := liveID(); ok {
			x.VDelete(ix, id)
			x.VAdd(ix, id, g.Vec(), map[string]any{"gen": 2.0})
			x.VAdd(ix, id, g.Vec(), map[string]any{"gen": 3.0})
			return "dup_after_readd"
		}
	case 20: // duplicate right after a restart / snapshot
		if id, ok := liveID(); ok {
			if r.Chance(0.5) {
				x.SaveSnapshot()
			} else {
				x.Restart()
			}
			x.VAdd(ix, id, g.Vec(), map[string]any{"dup": "after_restart"})
			return "dup_after_restart"
		}
	case 21: // auto-link / config updates on unknown index
		x.VUpdateAutoLinks("nope", []hnsw.AutoLinkRule{{MetadataField: "cat", RelationType: "r"}})
		return "autolinks_unknown_index"
	}
	return ""
}

// C05 — a rejected operation changes nothing, now or after a restart.
func TestVerifC05(t *testing.T) {
	vkit.Run(t, "C05", func(ctx *vkit.Ctx) {
		ctx.Group("plant", ctx.N(6000, 100000), func(cs *vkit.Case) {
			x := vexec.NewExec(cs, cs.SubDir("data"))
			defer func() {
				if x.E != nil {
					x.E.Close()
				}
			}()
			g := vexec.NewGen(cs.R)
			for i := 0; i < cs.R.Range(6, 25); i++ {
				g.Step(x)
			}
			var labels []string
			nplants := cs.R.Range(2, 6)
			for p := 0; p < nplants; p++ {
				if msg := x.CheckFull(); msg != "" { // bind clock values; state must be sane before the plant
					cs.Fail("before plant: %s", msg)
				}
				u := x.M.Universe()
				before := vexec.Observe(x.E, u)
				nk := len(x.Kinds)
				label := c05Plant(cs, x, g)
				if label == "" {
					continue
				}
				if x.Rejected {
					// the LAST call of the plant was the rejected one; earlier calls of a
					// multi-step plant were valid and went through the model.
					ctx.Count("rejected."+label, 1)
				}
				labels = append(labels, label)
				if len(x.Kinds)-nk == 1 && x.Rejected {
					// single-call plant: the complete read-out must be byte-identical
					after := vexec.Observe(x.E, u)
					if d := vexec.Diff(before, after); len(d) > 0 {
						cs.Attach("diff", d)
						cs.Fail("rejected call (%s) changed the observable state: %s", label, d[0])
					}
					ctx.Count("digest_compared", 1)
				}
				if msg := x.CheckFull(); msg != "" {
					cs.Fail("after rejected call (%s): %s", label, msg)
				}
				// the affected indexes stay fully usable
				for _, name := range vexec.SortedKeys(x.M.Idx) {
					mi := x.M.Idx[name]
					if len(mi.Recs) == 0 {
						continue
					}
					v := make([]float32, mi.Dim)
					for i := range v {
						v[i] = cs.R.F32()
					}
					id := fmt.Sprintf("use%d_%d", p, len(x.Kinds))
					x.VAdd(name, id, v, map[string]any{"use": true})
					if msg := x.CheckRecord(name, id); msg != "" {
						cs.Fail("index unusable after rejected call (%s): %s", label, msg)
					}
					if ids, err := x.E.VSearch(name, v, 3, "", "", 0, 1.0, nil); err != nil {
						cs.Fail("search fails after rejected call (%s): %v", label, err)
					} else {
						_ = ids
					}
					if _, err := x.E.VFilter(name, "use=true", 10); err != nil {
						cs.Fail("filter fails after rejected call (%s): %v", label, err)
					}
					if cs.R.Chance(0.5) {
						x.VDelete(name, id)
					}
				}
				for i := 0; i < cs.R.Range(0, 6); i++ {
					if cs.R.Chance(0.1) {
						g.Admin(x)
					} else {
						g.Step(x)
					}
				}
			}
			c01Restart(ctx, cs, x, "after planted rejections "+strings.Join(labels, ","))
			ctx.Eval(1)
			if len(labels) > 0 {
				ctx.Distinct(strings.Join(labels, ",") + "|" + x.KindKey())
			}
			ctx.Sample("episode", 2, map[string]any{"plants": labels, "ops": cs.Ops()[:min(len(cs.Ops()), 25)]})
		})
	})
}

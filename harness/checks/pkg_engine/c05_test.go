package engine_test

import (
	"fmt"
	"runtime/debug"
	"strings"
	"testing"

	"github.com/sanonone/kektordb/internal/zzverif/vexec"
	"github.com/sanonone/kektordb/internal/zzverif/vkit"
	"github.com/sanonone/kektordb/pkg/core/distance"
	"github.com/sanonone/kektordb/pkg/core/hnsw"
	"github.com/sanonone/kektordb/pkg/core/types"
)

// c05Plant issues one call that the reference model says must be rejected and returns a
// label, or "" when the chosen class is not applicable in the current state.
//
// guard carries the generator guards of the recorded findings (see c05Guard).
func c05Plant(cs *vkit.Case, x *vexec.Exec, g *vexec.Gen, guard c05Guard) string {
	r := cs.R
	m := x.M
	live := vexec.SortedKeys(m.Idx)
	var ix string
	var mi *vexec.MIndex
	if len(live) > 0 {
		ix = vkit.Pick(r, live)
		mi = m.Idx[ix]
	}
	liveID := func() (string, bool) {
		if mi == nil || len(mi.Recs) == 0 {
			return "", false
		}
		return vkit.Pick(r, vexec.SortedKeys(mi.Recs)), true
	}
	freshBatch := func(n int) []types.BatchObject {
		var items []types.BatchObject
		for i := 0; len(items) < n; i++ {
			id := fmt.Sprintf("f%d_%d", len(x.Kinds), i)
			items = append(items, types.BatchObject{Id: id, Vector: g.Vec(), Metadata: g.Meta()})
		}
		return items
	}
	// a vector whose length differs from the dimension the index was filled with: shorter
	// or longer, down to 1 component
	otherDim := func(d int) []float32 {
		n := d + r.Range(1, 3)
		if d > 1 && r.Chance(0.5) {
			n = d - r.Range(1, min(d-1, 3))
		}
		v := make([]float32, n)
		for i := range v {
			v[i] = r.F32()
		}
		return v
	}
	// a call the reference model leaves open ("Either": the properties do not say whether an
	// emptied index still has a dimension) was ACKNOWLEDGED: then it was no rejection, C05 has
	// nothing to say about it, and what the engine stored for it is not this property's
	// business (the executor's model took the supplied values). The index is dropped so that
	// the episode goes on with states the model is sure about.
	notRejected := func(label string) string {
		if x.Rejected {
			return label
		}
		x.VDeleteIndex(ix)
		return label + "(acknowledged)"
	}
	switch p := r.Intn(29); p {
	case 0: // duplicate id, single add (different vector + metadata)
		if id, ok := liveID(); ok {
			x.VAdd(ix, id, g.Vec(), map[string]any{"dup": "single"})
			return "dup_single"
		}
	case 1, 2: // duplicate as first / middle / last item of a batch (below or above the batch threshold)
		if id, ok := liveID(); ok {
			n := r.Range(2, 7)
			items := freshBatch(n)
			pos := vkit.Pick(r, []int{0, n / 2, n - 1})
			items[pos].Id = id
			items[pos].Metadata = map[string]any{"dup": "batch"}
			if p == 1 {
				x.VAddBatch(ix, items)
				return fmt.Sprintf("dup_in_batch_pos%d_of%d", pos, n)
			}
			x.VImport(ix, items)
			return fmt.Sprintf("dup_in_import_pos%d_of%d", pos, n)
		}
	case 3: // duplicate inside the batch itself
		if mi != nil && len(mi.Recs) > 0 {
			items := freshBatch(r.Range(2, 5))
			items[len(items)-1].Id = items[0].Id
			x.VAddBatch(ix, items)
			return "dup_within_batch"
		}
	case 4: // unknown index
		name := "nope"
		switch r.Intn(9) {
		case 0:
			x.VAdd(name, "a", g.Vec(), nil)
		case 1:
			x.VAddBatch(name, freshBatch(2))
		case 2:
			x.VDelete(name, "a")
		case 3:
			x.VSetMetadata(name, "a", map[string]any{"k": "v"})
		case 4:
			x.VReinforce(name, []string{"a"})
		case 5:
			x.VCompress(name, distance.Float16)
		case 6:
			x.VUpdateIndexConfig(name, hnsw.DefaultMaintenanceConfig())
		case 7:
			x.VDeleteIndex(name)
		case 8:
			x.VImport(name, freshBatch(2))
		}
		return "unknown_index"
	case 5: // unknown node
		if mi != nil {
			switch r.Intn(3) {
			case 0:
				x.VDelete(ix, "ghost")
			case 1:
				x.VSetMetadata(ix, "ghost", map[string]any{"k": "v"})
			case 2:
				x.VEvolve(ix, "ghost", g.Vec(), nil, "why")
			}
			return "unknown_node"
		}
	case 6: // a deleted id is unknown too
		if id, ok := liveID(); ok {
			x.VDelete(ix, id)
			if r.Chance(0.5) {
				x.VDelete(ix, id)
			} else {
				x.VSetMetadata(ix, id, map[string]any{"k": "v"})
			}
			return "deleted_node"
		}
	case 7, 22: // dimension mismatch, single: into an index that holds vectors, or into one that
		// held vectors and was emptied (every vector deleted; perhaps vacuumed / restarted since)
		if mi != nil && mi.Dim != 0 {
			emptied := len(mi.Recs) == 0
			if emptied && guard.arenaUnknown(mi) {
				return "" // D-C05-1
			}
			x.VAdd(ix, "dimbad", otherDim(mi.Dim), g.Meta())
			if emptied {
				return notRejected("dim_single_emptied")
			}
			return "dim_single"
		}
	case 8, 23: // dimension mismatch inside a batch (one item at any position, or every item)
		if mi != nil && mi.Dim != 0 {
			emptied := len(mi.Recs) == 0
			items := freshBatch(r.Range(2, 6))
			for i := range items {
				items[i].Vector = make([]float32, mi.Dim)
				for j := range items[i].Vector {
					items[i].Vector[j] = r.F32()
				}
			}
			label := "dim_in_batch"
			if r.Chance(0.3) && !(emptied && guard.arenaUnknown(mi)) { // D-C05-1
				bad := otherDim(mi.Dim)
				for i := range items {
					items[i].Vector = append([]float32(nil), bad...)
				}
				label = "dim_whole_batch"
			} else {
				pos := vkit.Pick(r, []int{0, len(items) / 2, len(items) - 1})
				items[pos].Vector = otherDim(mi.Dim)
				if emptied && pos == 0 {
					// the first vector of a batch into an index without vectors sets the
					// dimension: the OTHER items are the mismatching ones
					label = "dim_in_batch_first_sets_dim"
				}
			}
			if r.Chance(0.5) {
				x.VAddBatch(ix, items)
			} else {
				x.VImport(ix, items)
			}
			if emptied {
				return notRejected(label + "_emptied")
			}
			return label
		}
	case 9, 10: // invalid edge properties
		if mi != nil {
			var props map[string]any
			switch r.Intn(4) {
			case 0:
				props = map[string]any{"bad key!": 1.0}
			case 1:
				props = map[string]any{}
				for i := 0; i < 101; i++ {
					props[fmt.Sprintf("k%d", i)] = float64(i)
				}
			case 2:
				props = map[string]any{strings.Repeat("k", 257): "v"}
			case 3:
				props = map[string]any{"k": strings.Repeat("v", 4097)}
			}
			inv := ""
			if r.Chance(0.5) {
				inv = "ri"
			}
			x.VLink(ix, "n0", "n1", "r", inv, 1, props)
			return "bad_edge_props"
		}
	case 11: // duplicate index name (with another configuration)
		if mi != nil {
			cfg := g.Cfg(ix)
			x.VCreate(cfg)
			return "dup_index"
		}
	case 12: // invalid index definitions; the same name must stay creatable afterwards
		name := "ix_new"
		if m.Idx[name] == nil {
			bad := vkit.Pick(r, [][2]string{{"cosine", "float16"}, {"euclidean", "int8"}, {"euclidean", "float64"}, {"manhattan", "float32"}, {"", ""}})
			x.VCreate(vexec.IndexCfg{Name: name, Metric: distance.DistanceMetric(bad[0]), Prec: distance.PrecisionType(bad[1]), M: 4, EfC: 8})
			if r.Chance(0.6) {
				x.VCreate(g.Cfg(name)) // valid creation right after the rejected one
				x.VAdd(name, "first", g.Vec(), map[string]any{"cat": "alpha"})
			}
			return "invalid_index_definition"
		}
	case 13: // vector-less add to an empty index
		name := "ix_empty"
		if m.Idx[name] == nil {
			x.VCreate(g.Cfg(name))
		}
		if mm := m.Idx[name]; mm != nil && len(mm.Recs) == 0 {
			if r.Chance(0.5) {
				x.VAdd(name, "novec", nil, map[string]any{"k": "v"})
			} else {
				x.VAddBatch(name, []types.BatchObject{{Id: "nv1"}, {Id: "nv2", Metadata: map[string]any{"k": "v"}}})
			}
			return "vectorless_into_empty"
		}
	case 14, 15, 16: // compression rejections
		if mi != nil {
			var target distance.PrecisionType
			label := ""
			switch {
			case mi.Cfg.Prec != distance.Float32:
				target, label = vkit.Pick(r, []distance.PrecisionType{distance.Float16, distance.Int8, distance.Float32}), "compress_already_compressed"
			case len(mi.Recs) == 0:
				target, label = distance.Float16, "compress_empty"
			case r.Chance(0.5):
				target, label = vkit.Pick(r, []distance.PrecisionType{"bogus", "", "FLOAT16"}), "compress_unknown_precision"
			case mi.Cfg.Metric == distance.Cosine:
				target, label = distance.Float16, "compress_unsupported_by_metric"
			default:
				target, label = distance.Int8, "compress_unsupported_by_metric"
			}
			x.VCompress(ix, target)
			return label
		}
	case 17: // drop twice
		if mi != nil && !g.NoDrop {
			x.VDeleteIndex(ix)
			x.VDeleteIndex(ix)
			return "drop_twice"
		}
	case 18: // import commit on unknown index
		x.VImportCommit("nope")
		return "commit_unknown_index"
	case 19: // re-add of an id that was deleted and re-added (must reject the third add)
		if id, ok := liveID(); ok {
			x.VDelete(ix, id)
			x.VAdd(ix, id, g.Vec(), map[string]any{"gen": 2.0})
			x.VAdd(ix, id, g.Vec(), map[string]any{"gen": 3.0})
			return "dup_after_readd"
		}
	case 20: // duplicate right after a restart / snapshot
		if id, ok := liveID(); ok {
			if r.Chance(0.5) {
				x.SaveSnapshot()
			} else {
				c05Restart(x)
			}
			x.VAdd(ix, id, g.Vec(), map[string]any{"dup": "after_restart"})
			return "dup_after_restart"
		}
	case 21: // auto-link / config updates on unknown index
		x.VUpdateAutoLinks("nope", []hnsw.AutoLinkRule{{MetadataField: "cat", RelationType: "r"}})
		return "autolinks_unknown_index"
	case 24: // vector-less add into an EMPTIED index (no live vector to take the dimension from)
		if mi != nil && mi.Dim != 0 && len(mi.Recs) == 0 {
			if r.Chance(0.5) {
				x.VAdd(ix, "novec", nil, map[string]any{"k": "v"})
			} else {
				items := []types.BatchObject{{Id: "nv1"}, {Id: "nv2", Metadata: map[string]any{"k": "v"}}}
				if r.Chance(0.5) {
					x.VAddBatch(ix, items)
				} else {
					x.VImport(ix, items)
				}
			}
			return "vectorless_into_emptied"
		}
	case 25: // operations on ids that existed once (deleted, or of a dropped incarnation of the index)
		if mi != nil {
			var gone []string
			for _, id := range vexec.SortedKeys(m.SeenIDs) {
				if mi.Recs[id] == nil {
					gone = append(gone, id)
				}
			}
			if len(gone) > 0 {
				id := vkit.Pick(r, gone)
				switch r.Intn(3) {
				case 0:
					x.VDelete(ix, id)
				case 1:
					x.VSetMetadata(ix, id, g.Meta())
				case 2:
					x.VEvolve(ix, id, g.Vec(), g.Meta(), "why")
				}
				return "gone_node"
			}
		}
	case 26, 27: // evolution of a live node with a vector of another dimension
		if id, ok := liveID(); ok && !guard.evolve {
			if msg := c05EvolveBadDim(cs, x, ix, id, otherDim(mi.Dim), g.Meta()); msg != "" {
				cs.Fail("%s", msg)
			}
			return "evolve_dim"
		}
	case 28: // compression of an emptied index / to a bad target while the index is emptied
		if mi != nil && mi.Dim != 0 && len(mi.Recs) == 0 {
			x.VCompress(ix, vkit.Pick(r, []distance.PrecisionType{distance.Float16, distance.Int8, "bogus", distance.Float32}))
			return "compress_emptied"
		}
	}
	return ""
}

// c05EvolveBadDim: VEvolve of a live node with a vector whose dimension differs from the
// index's. The executor's VEvolve predicts the outcome from the old id only, so the call goes
// to the engine directly; the model is left untouched (the call must be rejected: the index
// holds vectors of another dimension, exactly as for VAdd). Besides the read-out of the
// caller, the complete edge list (every version of every edge) must be what it was.
func c05EvolveBadDim(cs *vkit.Case, x *vexec.Exec, ix, id string, v []float32, meta map[string]any) string {
	x.Settle()
	if msg := x.BindGraph(); msg != "" {
		return "before VEvolve: " + msg
	}
	edges := func() string {
		var b strings.Builder
		for _, e := range x.RealEdges() {
			b.WriteString(e.String())
			b.WriteByte('\n')
		}
		return b.String()
	}
	before := edges()
	x.Kinds = append(x.Kinds, "vevolve_baddim")
	cs.Op("VEvolve(%s,%s,%v,%s,\"why\") [vector of another dimension]", ix, id, v, vkit.JSON(meta))
	newID, err := x.E.VEvolve(ix, id, append([]float32(nil), v...), meta, "why")
	x.Rejected = err != nil
	if err == nil {
		return fmt.Sprintf("VEvolve(%s,%s) with a %d-dim vector was acknowledged (new id %s) although the index holds %d-dim vectors", ix, id, len(v), newID, x.M.Idx[ix].Dim)
	}
	if after := edges(); after != before {
		cs.Attach("edges_before", strings.Split(before, "\n"))
		cs.Attach("edges_after", strings.Split(after, "\n"))
		return fmt.Sprintf("rejected VEvolve(%s,%s) with a %d-dim vector (%.80s...) changed the graph: %d edge version(s) before, %d after", ix, id, len(v), err.Error(), strings.Count(before, "\n"), strings.Count(after, "\n"))
	}
	return ""
}

// c05Guard: narrow generator guards for the findings recorded as "known" (they lift by
// themselves once the finding is marked fixed).
//
//   - D-C05-1: an index that was recovered by a restart while it held no vector, and has not
//     taken a vector since, does not know the dimension of the arena files it still owns; a
//     vector (or a whole batch) of another dimension passes the engine's check, is journaled,
//     and fails at the arena. had[mi] = the index has held a vector since the last restart
//     (then the in-memory index knows its dimension and the call is simply acknowledged or
//     rejected up front).
//   - D-C05-2: VEvolve with a vector of another dimension.
type c05Guard struct {
	arena  bool
	evolve bool
	had    map[*vexec.MIndex]bool
	seenRs int
}

func newC05Guard(ctx *vkit.Ctx) c05Guard {
	return c05Guard{arena: ctx.IsKnown(c05DArena), evolve: ctx.IsKnown(c05DEvolve), had: map[*vexec.MIndex]bool{}}
}

// sync is called after every step of the episode (no step both restarts and adds into an
// index that was empty at the restart).
func (gd *c05Guard) sync(x *vexec.Exec) {
	if x.Restarts != gd.seenRs {
		gd.seenRs = x.Restarts
		gd.had = map[*vexec.MIndex]bool{}
	}
	for _, mi := range x.M.Idx {
		if len(mi.Recs) > 0 {
			gd.had[mi] = true
		}
	}
}

func (gd c05Guard) arenaUnknown(mi *vexec.MIndex) bool { return gd.arena && !gd.had[mi] }

const (
	c05DArena  = "D-C05-1"
	c05DEvolve = "D-C05-2"
)

// c05Probes: the minimal scenarios of the recorded findings.
func c05Probes(ctx *vkit.Ctx) {
	// D-C05-1: add a (3-dim), delete a, restart; VAdd c (4-dim) is rejected ("failed to init
	// arena ... dimension mismatch") AFTER its record was journaled; a is added again (its
	// first position in the log precedes c, so the recovered index gets its dimension from a
	// and then loads c); restart: c exists.
	ctx.Probe(c05DArena, func(cs *vkit.Case) string {
		x := vexec.NewExec(cs, cs.SubDir("data"))
		defer func() {
			if x.E != nil {
				x.E.Close()
			}
		}()
		x.VCreate(vexec.IndexCfg{Name: "docs", Metric: distance.Euclidean, Prec: distance.Float32, M: 4, EfC: 8})
		x.VAdd("docs", "a", []float32{1, 2, 3}, nil)
		x.VDelete("docs", "a")
		x.Restart()
		x.M.SeenIDs["c"] = true // part of every read-out from the start
		before := vexec.Observe(x.E, x.M.Universe())
		err := x.VAdd("docs", "c", []float32{1, 2, 3, 4}, map[string]any{"tag": "c"})
		if err == nil {
			return "" // acknowledged: no rejection, nothing to hold against C05
		}
		if d := vexec.Diff(before, vexec.Observe(x.E, x.M.Universe())); len(d) > 0 {
			return fmt.Sprintf("rejected VAdd(docs,c,4-dim) (%v) changed the observable state: %s", err, d[0])
		}
		x.VAdd("docs", "a", []float32{4, 5, 6}, nil)
		x.Settle()
		b2 := vexec.Observe(x.E, x.M.Universe())
		x.Restart()
		if d := vexec.Diff(b2, vexec.Observe(x.E, x.M.Universe())); len(d) > 0 {
			return fmt.Sprintf("VAdd(docs,c,[1 2 3 4]) into the emptied, restarted 3-dim index was rejected (%v); after VAdd(docs,a,3-dim) and a restart %d observable(s) changed, first: %s", err, len(d), d[0])
		}
		if msg := x.CheckFull(); msg != "" {
			return "after the restart: " + msg
		}
		return ""
	})
	// D-C05-2: a, b linked b -> a; VEvolve(a) with a 4-dim vector on the 3-dim index is rejected
	// by the add of the new node, after the edges to / from the new id were written.
	ctx.Probe(c05DEvolve, func(cs *vkit.Case) string {
		x := vexec.NewExec(cs, cs.SubDir("data"))
		defer func() {
			if x.E != nil {
				x.E.Close()
			}
		}()
		x.VCreate(vexec.IndexCfg{Name: "docs", Metric: distance.Euclidean, Prec: distance.Float32, M: 4, EfC: 8})
		x.VAdd("docs", "a", []float32{1, 2, 3}, nil)
		x.VAdd("docs", "b", []float32{4, 5, 6}, nil)
		x.VLink("docs", "b", "a", "r", "", 1, nil)
		return c05EvolveBadDim(cs, x, "docs", "a", []float32{1, 2, 3, 4}, nil)
	})
}

// c05NoVerdict ends a case without a verdict (see c05Restart).
type c05NoVerdict struct{ why string }

// c05Restart is Exec.Restart with one difference: hnsw.Index.Close gives up after a wall-clock
// limit of its own (10 s, "close timed out ... waiting for in-flight operations"), which a
// starved machine trips without any operation being in flight (seen once in 82 000 episodes
// at a load average of 500; the same episode replayed passes). A wall-clock value must not
// decide a verdict: such a case is abandoned and counted (no_verdict.close_timeout).
func c05Restart(x *vexec.Exec) {
	x.Kinds = append(x.Kinds, "restart")
	x.Settle()
	if err := x.CloseRaw(); err != nil {
		if strings.Contains(err.Error(), "close timed out") {
			panic(c05NoVerdict{err.Error()})
		}
		x.CS.Fail("Close returned error: %v", err)
	}
	x.Reopen()
}

// c05RestartCheck is c01Restart (state identical across Close/Open, equal to the model, searches
// unchanged, indexes usable) on top of c05Restart.
func c05RestartCheck(ctx *vkit.Ctx, cs *vkit.Case, x *vexec.Exec, where string) {
	x.Settle()
	if msg := x.CheckFull(); msg != "" { // binds clock-chosen values before the restart
		cs.Fail("%s: state before restart already disagrees with the model: %s", where, msg)
	}
	u := x.M.Universe()
	before := vexec.Observe(x.E, u)
	probes := c01SearchProbe(ctx, cs, x, where, nil)
	c05Restart(x)
	after := vexec.Observe(x.E, u)
	if d := vexec.Diff(before, after); len(d) > 0 {
		cs.Attach("diff", d)
		cs.Fail("%s: %d observable(s) changed across Close/Open, first: %s", where, len(d), d[0])
	}
	if msg := x.CheckFull(); msg != "" {
		cs.Fail("%s: after restart: %s", where, msg)
	}
	ctx.Count("restarts", 1)
	ctx.Count("observables_compared", int64(len(before.Vals)+len(before.Vecs)))
	// replay may itself write (cascade repairs, re-journaled quantizer range): a second
	// restart right away must not change anything either
	if cs.R.Chance(0.2) {
		c05Restart(x)
		again := vexec.Observe(x.E, u)
		if d := vexec.Diff(before, again); len(d) > 0 {
			cs.Attach("diff", d)
			cs.Fail("%s: %d observable(s) changed across a second immediate Close/Open, first: %s", where, len(d), d[0])
		}
		ctx.Count("restarts.immediate_second", 1)
	}
	c01SearchProbe(ctx, cs, x, where, probes)
	// usability of the indexes that hold vectors (those without: see the caller): add / read /
	// link / unlink / delete
	for _, name := range vexec.SortedKeys(x.M.Idx) {
		mi := x.M.Idx[name]
		if len(mi.Recs) == 0 || mi.Dim == 0 {
			continue
		}
		v := make([]float32, mi.Dim)
		for i := range v {
			v[i] = 0.25 * float32(i+1)
		}
		id := fmt.Sprintf("probe%d", x.Restarts)
		x.VAdd(name, id, v, map[string]any{"probe": true})
		if msg := x.CheckRecord(name, id); msg != "" {
			cs.Fail("%s: usability after restart: %s", where, msg)
		}
		if tgt := vexec.SortedKeys(mi.Recs)[0]; tgt != id {
			x.VLink(name, id, tgt, "probe_rel", "", 1, nil)
			if l, _ := x.E.VGetLinks(name, id, "probe_rel"); len(l) != 1 || l[0] != tgt {
				cs.Fail("%s: usability after restart: VGetLinks(%s,%s,probe_rel)=%v want [%s]", where, name, id, l, tgt)
			}
			x.VUnlink(name, id, tgt, "probe_rel", "", true)
		}
		x.VDelete(name, id)
		if msg := x.CheckRecord(name, id); msg != "" {
			cs.Fail("%s: usability after restart: %s", where, msg)
		}
	}
}

// c05Shape brings one index into a state that ordinary histories reach rarely and that the
// validation of a later call may judge differently from the storage below it: EMPTIED (it held
// vectors, every one of them was deleted), optionally followed by a vacuum, a snapshot, a log
// rewrite or a restart (each changes what is left of the deleted vectors: soft-deleted nodes,
// nothing but the arena, a snapshot without nodes, a replayed log). Returns a label or "".
func c05Shape(cs *vkit.Case, x *vexec.Exec, g *vexec.Gen) string {
	r := cs.R
	var cands []string
	for _, name := range vexec.SortedKeys(x.M.Idx) {
		if n := len(x.M.Idx[name].Recs); n > 0 && n <= 12 {
			cands = append(cands, name)
		}
	}
	if len(cands) == 0 {
		return ""
	}
	ix := vkit.Pick(r, cands)
	for _, id := range vexec.SortedKeys(x.M.Idx[ix].Recs) {
		x.VDelete(ix, id)
	}
	label := "emptied"
	switch r.Intn(8) {
	case 0:
		x.Maintenance(ix, "vacuum")
		label += "+vacuum"
	case 1:
		x.SaveSnapshot()
		label += "+snapshot"
	case 2:
		x.RewriteAOF()
		label += "+rewrite"
	case 3:
		c05Restart(x)
		label += "+restart"
	}
	return label
}

// c05Usable: the index takes, returns, finds and deletes a fresh vector of its dimension.
// An index without vectors is covered too (an emptied one must still take the vectors it
// took before; one that never held a vector takes the generator's dimension).
func c05Usable(cs *vkit.Case, x *vexec.Exec, g *vexec.Gen, name, id, where string) {
	mi := x.M.Idx[name]
	dim := mi.Dim
	if dim == 0 {
		// The index has never held a vector: it takes a vector of ANY dimension, whatever
		// the dimensions of the calls it has rejected so far (a rejected call must not
		// settle the dimension of the index).
		dim = vkit.Pick(cs.R, []int{g.Dim, g.Dim, g.Dim + 1, g.Dim + 3, 2 * g.Dim, 1, max(1, g.Dim-1)})
		cs.C.Count("usable.never_populated_index", 1)
		if dim != g.Dim {
			cs.C.Count("usable.never_populated_index_other_dimension", 1)
		}
	}
	wasEmpty := len(mi.Recs) == 0
	v := make([]float32, dim)
	for i := range v {
		v[i] = cs.R.F32()
	}
	x.VAdd(name, id, v, map[string]any{"use": true})
	if msg := x.CheckRecord(name, id); msg != "" {
		cs.Fail("index unusable %s: %s", where, msg)
	}
	if ids, err := x.E.VSearch(name, v, 3, "", "", 0, 1.0, nil); err != nil {
		cs.Fail("search fails %s: %v", where, err)
	} else if wasEmpty && (len(ids) != 1 || ids[0] != id) {
		cs.Fail("index unusable %s: the only vector of %s (%s) is searched with itself and the result is %v", where, name, id, ids)
	}
	if ids, err := x.E.VFilter(name, "use=true", 10); err != nil {
		cs.Fail("filter fails %s: %v", where, err)
	} else if wasEmpty && (len(ids) != 1 || ids[0] != id) {
		cs.Fail("index unusable %s: VFilter(%s, use=true) = %v, want [%s]", where, name, ids, id)
	}
	if dim != g.Dim && mi.Dim == dim && wasEmpty {
		// the rest of the episode draws vectors of the generator's dimension: give the
		// index its never-populated state back (drop and create again, same definition)
		cfg := mi.Cfg
		x.VDeleteIndex(name)
		x.VCreate(cfg)
		return
	}
	if cs.R.Chance(0.5) || (wasEmpty && cs.R.Chance(0.6)) {
		x.VDelete(name, id)
	}
}

// C05 — a rejected operation changes nothing, now or after a restart.
func TestVerifC05(t *testing.T) {
	vkit.Run(t, "C05", func(ctx *vkit.Ctx) {
		c05Probes(ctx)
		ctx.Group("plant", ctx.N(6000, 100000), func(cs *vkit.Case) {
			x := vexec.NewExec(cs, cs.SubDir("data"))
			defer func() {
				if x.E != nil {
					x.E.Close()
				}
			}()
			defer func() {
				if r := recover(); r != nil {
					nv, ok := r.(c05NoVerdict)
					if !ok {
						if fmt.Sprintf("%T", r) != "vkit.failSentinel" { // a real panic: keep its stack
							cs.Attach("panic_stack", strings.Split(string(debug.Stack()), "\n"))
						}
						panic(r)
					}
					cs.Op("case abandoned without a verdict: %s", nv.why)
					ctx.Count("no_verdict.close_timeout", 1)
				}
			}()
			g := vexec.NewGen(cs.R)
			guard := newC05Guard(ctx)
			for i := 0; i < cs.R.Range(6, 25); i++ {
				g.Step(x)
				guard.sync(x)
			}
			var labels []string
			nplants := cs.R.Range(2, 6)
			for p := 0; p < nplants; p++ {
				if cs.R.Chance(0.3) {
					if sh := c05Shape(cs, x, g); sh != "" {
						ctx.Count("shape."+sh, 1)
						labels = append(labels, "<"+sh+">")
					}
					guard.sync(x)
				}
				if msg := x.CheckFull(); msg != "" { // bind clock values; state must be sane before the plant
					cs.Fail("before plant: %s", msg)
				}
				u := x.M.Universe()
				before := vexec.Observe(x.E, u)
				nk := len(x.Kinds)
				label := c05Plant(cs, x, g, guard)
				guard.sync(x)
				if label == "" {
					continue
				}
				if strings.HasSuffix(label, "(acknowledged)") {
					ctx.Count("not_a_rejection."+label, 1)
				}
				if x.Rejected {
					// the LAST call of the plant was the rejected one; earlier calls of a
					// multi-step plant were valid and went through the model.
					ctx.Count("rejected."+label, 1)
				}
				labels = append(labels, label)
				if len(x.Kinds)-nk == 1 && x.Rejected {
					// single-call plant: the complete read-out must be byte-identical
					after := vexec.Observe(x.E, u)
					if d := vexec.Diff(before, after); len(d) > 0 {
						cs.Attach("diff", d)
						cs.Fail("rejected call (%s) changed the observable state: %s", label, d[0])
					}
					ctx.Count("digest_compared", 1)
				}
				if msg := x.CheckFull(); msg != "" {
					cs.Fail("after rejected call (%s): %s", label, msg)
				}
				// the affected indexes stay fully usable
				for _, name := range vexec.SortedKeys(x.M.Idx) {
					if len(x.M.Idx[name].Recs) == 0 {
						if !cs.R.Chance(0.7) { // sometimes the emptied state is kept for the next plant
							continue
						}
						ctx.Count("usable.index_without_vectors", 1)
					}
					c05Usable(cs, x, g, name, fmt.Sprintf("use%d_%d", p, len(x.Kinds)), "after rejected call ("+label+")")
					guard.had[x.M.Idx[name]] = true // took a vector (it may have been deleted again)
				}
				for i := 0; i < cs.R.Range(0, 6); i++ {
					if cs.R.Chance(0.1) {
						g.Admin(x)
					} else {
						g.Step(x)
					}
					guard.sync(x)
				}
			}
			where := "after planted rejections " + strings.Join(labels, ",")
			c05RestartCheck(ctx, cs, x, where)
			// the recovered indexes that hold no vector (c05RestartCheck probes only the others)
			// must take what they took before the rejected calls
			for _, name := range vexec.SortedKeys(x.M.Idx) {
				if len(x.M.Idx[name].Recs) == 0 {
					c05Usable(cs, x, g, name, fmt.Sprintf("reuse%d", len(x.Kinds)), where+", after the restart")
					ctx.Count("usable.after_restart_index_without_vectors", 1)
				}
			}
			ctx.Eval(1)
			if len(labels) > 0 {
				ctx.Distinct(strings.Join(labels, ",") + "|" + x.KindKey())
			}
			ctx.Sample("episode", 2, map[string]any{"plants": labels, "ops": cs.Ops()[:min(len(cs.Ops()), 25)]})
		})
	})
}

package engine_test

import (
	"encoding/json"
	"fmt"
	"math"
	"runtime"
	"sort"
	"strings"
	"sync"
	"sync/atomic"
	"testing"
	"time"

	"github.com/sanonone/kektordb/internal/zzverif/vexec"
	"github.com/sanonone/kektordb/internal/zzverif/vkit"
	"github.com/sanonone/kektordb/pkg/core"
	"github.com/sanonone/kektordb/pkg/core/distance"
	"github.com/sanonone/kektordb/pkg/core/types"
	"github.com/sanonone/kektordb/pkg/engine"
	"github.com/sanonone/kektordb/pkg/verifhook"
)

// A record of the per-owner reference model: the latest vector and the merged metadata.
type c04cRec struct {
	Vec  []float32
	Meta map[string]any
}

type c04cOwner struct {
	name string
	recs map[string]*c04cRec // live ids
	dead map[string]bool     // ids this owner deleted (and did not add again)
	seq  int
}

func c04cCanon(m map[string]any) string {
	if len(m) == 0 {
		return "{}"
	}
	b, _ := json.Marshal(m)
	var x any
	json.Unmarshal(b, &x)
	b, _ = json.Marshal(x)
	return string(b)
}

func c04cVecEqual(cosine bool, got, want []float32) string {
	if len(got) != len(want) {
		return fmt.Sprintf("dimension %d, stored %d", len(got), len(want))
	}
	exp := want
	if cosine {
		var n float64
		for _, v := range want {
			n += float64(v) * float64(v)
		}
		n = math.Sqrt(n)
		exp = make([]float32, len(want))
		for i, v := range want {
			if n > 0 {
				exp[i] = float32(float64(v) / n)
			}
		}
	}
	for i := range got {
		if cosine {
			if math.Abs(float64(got[i])-float64(exp[i])) > 2e-6 {
				return fmt.Sprintf("component %d: got %v want %v (normalised)", i, got[i], exp[i])
			}
		} else if math.Float32bits(got[i]) != math.Float32bits(exp[i]) {
			return fmt.Sprintf("component %d: got %v want %v", i, got[i], exp[i])
		}
	}
	return ""
}

// c04cCheckID reads one id of one owner and compares it with that owner's model. Nobody
// else ever touches the id, so the sequential model of its owner is exact whatever the
// other clients and the maintenance goroutine are doing at the same time.
func c04cCheckID(e *engine.Engine, ix string, cosine bool, o *c04cOwner, id, where string) string {
	d, err := e.VGet(ix, id)
	rec, live := o.recs[id]
	if !live {
		if err == nil {
			return fmt.Sprintf("%s: VGet(%s,%s) returned a record (meta %s) for an id that is not live (deleted or never added by its only writer %s)", where, ix, id, c04cCanon(d.Metadata), o.name)
		}
		return ""
	}
	if err != nil {
		return fmt.Sprintf("%s: VGet(%s,%s) failed for a live id: %v", where, ix, id, err)
	}
	if d.ID != id {
		return fmt.Sprintf("%s: VGet(%s,%s) returned the record of id %q", where, ix, id, d.ID)
	}
	if msg := c04cVecEqual(cosine, d.Vector, rec.Vec); msg != "" {
		return fmt.Sprintf("%s: VGet(%s,%s) vector does not match what its only writer %s stored: %s", where, ix, id, o.name, msg)
	}
	if got, want := c04cCanon(d.Metadata), c04cCanon(rec.Meta); got != want {
		return fmt.Sprintf("%s: VGet(%s,%s): metadata %s != %s, the merged metadata its only writer %s stored", where, ix, id, got, want, o.name)
	}
	return ""
}

func c04cCopyMeta(m map[string]any) map[string]any {
	if m == nil {
		return nil
	}
	out := make(map[string]any, len(m))
	for k, v := range m {
		out[k] = v
	}
	return out
}

// c04cFull compares every read the property names with the union of the owners' models.
func c04cFull(e *engine.Engine, ix string, cosine bool, owners []*c04cOwner, where string) string {
	live := map[string]*c04cOwner{}
	var all []string
	for _, o := range owners {
		for id := range o.recs {
			live[id] = o
			all = append(all, id)
		}
		for id := range o.dead {
			all = append(all, id)
		}
	}
	sort.Strings(all)
	for _, o := range owners {
		ids := make([]string, 0, len(o.recs)+len(o.dead))
		for id := range o.recs {
			ids = append(ids, id)
		}
		for id := range o.dead {
			ids = append(ids, id)
		}
		sort.Strings(ids)
		for _, id := range ids {
			if msg := c04cCheckID(e, ix, cosine, o, id, where); msg != "" {
				return msg
			}
		}
	}
	many, err := e.VGetMany(ix, all)
	if err != nil {
		return fmt.Sprintf("%s: VGetMany(%s, %d ids): %v", where, ix, len(all), err)
	}
	seen := map[string]bool{}
	for _, d := range many {
		o, ok := live[d.ID]
		if !ok {
			return fmt.Sprintf("%s: VGetMany(%s) returned id %q, which is not live", where, ix, d.ID)
		}
		if seen[d.ID] {
			return fmt.Sprintf("%s: VGetMany(%s) returned id %q twice", where, ix, d.ID)
		}
		seen[d.ID] = true
		rec := o.recs[d.ID]
		if msg := c04cVecEqual(cosine, d.Vector, rec.Vec); msg != "" {
			return fmt.Sprintf("%s: VGetMany(%s) record %s: vector does not match what its only writer stored: %s", where, ix, d.ID, msg)
		}
		if got, want := c04cCanon(d.Metadata), c04cCanon(rec.Meta); got != want {
			return fmt.Sprintf("%s: VGetMany(%s) record %s: metadata %s != %s", where, ix, d.ID, got, want)
		}
	}
	if len(seen) != len(live) {
		return fmt.Sprintf("%s: VGetMany(%s) returned %d records, %d ids are live", where, ix, len(seen), len(live))
	}
	// cursor walk: every live id exactly once, nothing else
	walk := map[string]bool{}
	cur := uint32(0)
	for steps := 0; ; steps++ {
		ids, next, err := e.VGetIDsByCursor(ix, cur, 7)
		if err != nil {
			return fmt.Sprintf("%s: VGetIDsByCursor(%s,%d): %v", where, ix, cur, err)
		}
		for _, id := range ids {
			if walk[id] {
				return fmt.Sprintf("%s: the cursor walk of %s lists %q twice", where, ix, id)
			}
			walk[id] = true
			if _, ok := live[id]; !ok {
				return fmt.Sprintf("%s: the cursor walk of %s lists %q, which is not live", where, ix, id)
			}
		}
		if next == 0 || len(ids) == 0 || steps > 100000 {
			break
		}
		cur = next
	}
	if len(walk) != len(live) {
		var missing []string
		for id := range live {
			if !walk[id] {
				missing = append(missing, id)
			}
		}
		sort.Strings(missing)
		return fmt.Sprintf("%s: the cursor walk of %s lists %d ids, %d are live (missing %v)", where, ix, len(walk), len(live), missing[:min(len(missing), 6)])
	}
	info, err := e.DB.GetSingleVectorIndexInfoAPI(ix)
	if err == nil && info.VectorCount != len(live) {
		return fmt.Sprintf("%s: index info of %s reports %d vectors, %d are live", where, ix, info.VectorCount, len(live))
	}
	return ""
}

var _ = core.VectorData{}

func c04cSorted(m map[string]bool) []string {
	out := make([]string, 0, len(m))
	for k := range m {
		out = append(out, k)
	}
	sort.Strings(out)
	return out
}

// C04 (concurrent part) — every id has exactly one writer, so the straightforward
// reference model of that writer predicts each read exactly, whatever other clients and
// background maintenance do to OTHER ids of the same index at the same time.
func TestVerifC04Conc(t *testing.T) {
	vkit.Run(t, "C04", func(ctx *vkit.Ctx) {
		ctx.Group("owned", ctx.N(160, 2400), func(cs *vkit.Case) {
			defer verifhook.Reset()
			r := cs.R
			procs := vkit.Pick(r, []int{2, 4, 16})
			prev := runtime.GOMAXPROCS(procs)
			defer runtime.GOMAXPROCS(prev)
			dir := cs.SubDir("data")
			e, err := engine.Open(vexec.Options(dir))
			if err != nil {
				cs.Fail("open: %v", err)
			}
			closed := false
			defer func() {
				if !closed {
					e.Close()
				}
			}()
			ix := "ix"
			cosine := r.Chance(0.3)
			metric := distance.Euclidean
			if cosine {
				metric = distance.Cosine
			}
			m := vkit.Pick(r, []int{4, 8, 16})
			efc := vkit.Pick(r, []int{8, 40, 200})
			lang := vkit.Pick(r, []string{"", "english"})
			dim := vkit.Pick(r, []int{2, 3, 8, 17})
			if err := e.VCreate(ix, metric, m, efc, distance.Float32, lang, nil, nil, nil); err != nil {
				cs.Fail("VCreate: %v", err)
			}
			vec := func(wr *vkit.Rand) []float32 {
				v := make([]float32, dim)
				for i := range v {
					v[i] = wr.F32() * 4
				}
				if cosine && v[0] == 0 {
					v[0] = 1
				}
				return v
			}
			nW := r.Range(2, 5)
			per := r.Range(10, ctx.N(30, 50))
			prefill := vkit.Pick(r, []int{0, 10, 60})
			admin := r.Chance(0.5)
			cs.Op("metric=%s M=%d efC=%d lang=%q dim=%d workers=%d ops/worker=%d prefill=%d admin=%v GOMAXPROCS=%d", metric, m, efc, lang, dim, nW, per, prefill, admin, procs)
			owners := make([]*c04cOwner, nW+1)
			base := &c04cOwner{name: "base", recs: map[string]*c04cRec{}, dead: map[string]bool{}}
			owners[nW] = base
			if prefill > 0 {
				var items []types.BatchObject
				for i := 0; i < prefill; i++ {
					id := fmt.Sprintf("base_%d", i)
					v := vec(r)
					meta := map[string]any{"owner": "base", "self": id, "content": "alpha base"}
					items = append(items, types.BatchObject{Id: id, Vector: append([]float32{}, v...), Metadata: c04cCopyMeta(meta)})
					base.recs[id] = &c04cRec{Vec: v, Meta: meta}
				}
				if err := e.VAddBatch(ix, items); err != nil {
					cs.Fail("prefill VAddBatch: %v", err)
				}
			}
			hits := concYields(r)
			var firstFail atomic.Value
			fail := func(format string, a ...any) {
				firstFail.CompareAndSwap(nil, fmt.Sprintf(format, a...))
			}
			var opCount, immediate, imports atomic.Int64
			var logMu sync.Mutex
			logOp := func(format string, a ...any) {
				logMu.Lock()
				cs.Op(format, a...)
				logMu.Unlock()
			}
			var wg sync.WaitGroup
			start := make(chan struct{})
			for w := 0; w < nW; w++ {
				o := &c04cOwner{name: fmt.Sprintf("w%d", w), recs: map[string]*c04cRec{}, dead: map[string]bool{}}
				owners[w] = o
				wr := vkit.NewRand(uint64(r.Intn(1<<30)), uint64(w))
				wg.Add(1)
				go func(w int, o *c04cOwner, wr *vkit.Rand) {
					defer wg.Done()
					<-start
					single := func() string { return fmt.Sprintf("w%d_%d", w, wr.Intn(8)) }
					mkMeta := func(id string) map[string]any {
						if wr.Chance(0.2) {
							return nil
						}
						o.seq++
						meta := map[string]any{"owner": o.name, "self": id, "n": float64(o.seq)}
						if wr.Chance(0.5) {
							meta["content"] = vkit.Pick(wr, []string{"alpha beta", "gamma running", "delta " + o.name})
						}
						if wr.Chance(0.3) {
							meta["tags"] = []any{o.name, id}
						}
						return meta
					}
					for i := 0; i < per && firstFail.Load() == nil; i++ {
						ctx.Touch()
						opCount.Add(1)
						var touched []string
						switch p := wr.Intn(100); {
						case p < 25: // single add (new id, or an id deleted earlier: behaves as new)
							id := single()
							if _, live := o.recs[id]; live {
								continue
							}
							v, meta := vec(wr), mkMeta(id)
							logOp("%s VAdd(%s) meta=%s", o.name, id, c04cCanon(meta))
							if err := e.VAdd(ix, id, append([]float32{}, v...), c04cCopyMeta(meta)); err != nil {
								fail("%s: VAdd(%s,%s) of an id that is not live failed: %v", o.name, ix, id, err)
								return
							}
							o.recs[id] = &c04cRec{Vec: v, Meta: meta}
							delete(o.dead, id)
							touched = []string{id}
						case p < 50: // batch / import of fresh ids and of ids deleted earlier
							n := wr.Range(2, vkit.Pick(wr, []int{4, 12, 40}))
							var items []types.BatchObject
							recs := map[string]*c04cRec{}
							for k := 0; k < n; k++ {
								id := fmt.Sprintf("w%d_b%d_%d", w, i, k)
								if k == 1 && len(o.dead) > 0 && wr.Chance(0.5) {
									id = vkit.Pick(wr, c04cSorted(o.dead))
								}
								if recs[id] != nil {
									continue
								}
								v, meta := vec(wr), mkMeta(id)
								items = append(items, types.BatchObject{Id: id, Vector: append([]float32{}, v...), Metadata: c04cCopyMeta(meta)})
								recs[id] = &c04cRec{Vec: v, Meta: meta}
							}
							imp := wr.Chance(0.2)
							logOp("%s batch(import=%v) of %d items %s..", o.name, imp, len(items), items[0].Id)
							var err error
							if imp {
								imports.Add(1)
								err = e.VImport(ix, items)
							} else {
								err = e.VAddBatch(ix, items)
							}
							if err != nil {
								fail("%s: batch (import=%v) of %d ids that are not live failed: %v", o.name, imp, len(items), err)
								return
							}
							for id, rec := range recs {
								o.recs[id] = rec
								delete(o.dead, id)
							}
							touched = []string{items[0].Id, items[len(items)-1].Id, items[wr.Intn(len(items))].Id, items[wr.Intn(len(items))].Id}
						case p < 65: // delete
							var ids []string
							for id := range o.recs {
								ids = append(ids, id)
							}
							if len(ids) == 0 {
								continue
							}
							sort.Strings(ids)
							id := vkit.Pick(wr, ids)
							logOp("%s VDelete(%s)", o.name, id)
							if err := e.VDelete(ix, id); err != nil {
								fail("%s: VDelete(%s,%s) of a live id failed: %v", o.name, ix, id, err)
								return
							}
							delete(o.recs, id)
							o.dead[id] = true
							touched = []string{id}
						case p < 85: // metadata merge
							var ids []string
							for id := range o.recs {
								ids = append(ids, id)
							}
							if len(ids) == 0 {
								continue
							}
							sort.Strings(ids)
							id := vkit.Pick(wr, ids)
							o.seq++
							props := map[string]any{fmt.Sprintf("k%d", o.seq%4): float64(o.seq)}
							if wr.Chance(0.4) {
								props["n"] = fmt.Sprintf("s%d", o.seq) // type change
							}
							logOp("%s VSetMetadata(%s,%s)", o.name, id, c04cCanon(props))
							if err := e.VSetMetadata(ix, id, c04cCopyMeta(props)); err != nil {
								fail("%s: VSetMetadata(%s,%s) of a live id failed: %v", o.name, ix, id, err)
								return
							}
							rec := o.recs[id]
							if rec.Meta == nil {
								rec.Meta = map[string]any{}
							}
							for k, v := range props {
								rec.Meta[k] = v
							}
							touched = []string{id}
						default: // reads of own ids
							var ids []string
							for id := range o.recs {
								ids = append(ids, id)
							}
							sort.Strings(ids)
							for k := 0; k < 3 && len(ids) > 0; k++ {
								touched = append(touched, vkit.Pick(wr, ids))
							}
							if len(o.dead) > 0 {
								touched = append(touched, vkit.Pick(wr, c04cSorted(o.dead)))
							}
						}
						for _, id := range touched {
							if msg := c04cCheckID(e, ix, cosine, o, id, fmt.Sprintf("%s after its op %d", o.name, i)); msg != "" {
								fail("%s", msg)
								return
							}
							immediate.Add(1)
						}
					}
				}(w, o, wr)
			}
			stop := make(chan struct{})
			var adminWg sync.WaitGroup
			var adminOps atomic.Int64
			if admin {
				adminWg.Add(1)
				go func() {
					defer adminWg.Done()
					<-start
					for i := 0; ; i++ {
						select {
						case <-stop:
							return
						default:
						}
						switch i % 5 {
						case 0:
							e.VTriggerMaintenance(ix, "vacuum")
						case 1:
							e.SaveSnapshot()
						case 2:
							e.VTriggerMaintenance(ix, "refine")
						case 3:
							e.RewriteAOF()
						case 4:
							e.RunGraphVacuum()
						}
						adminOps.Add(1)
						ctx.Touch()
						time.Sleep(200 * time.Microsecond)
					}
				}()
			}
			close(start)
			wg.Wait()
			close(stop)
			adminWg.Wait()
			verifhook.SetGlobal(nil)
			ctx.Count("owned.client_ops", opCount.Load())
			ctx.Count("owned.immediate_reads", immediate.Load())
			ctx.Count("owned.admin_ops", adminOps.Load())
			ctx.Count("owned.hook_hits", int64(hits.Load()))
			ctx.Count("owned.imports", imports.Load())
			if v := firstFail.Load(); v != nil {
				cs.Fail("%s", v.(string))
			}
			if msg := c04cFull(e, ix, cosine, owners, "after the concurrent clients"); msg != "" {
				cs.Fail("%s", msg)
			}
			// maintenance never changes what reads return
			e.VTriggerMaintenance(ix, "vacuum")
			e.VTriggerMaintenance(ix, "refine")
			if msg := c04cFull(e, ix, cosine, owners, "after vacuum + refine"); msg != "" {
				cs.Fail("%s", msg)
			}
			if imports.Load() > 0 {
				if err := e.VImportCommit(ix); err != nil {
					cs.Fail("VImportCommit: %v", err)
				}
			}
			if cs.Idx%2 == 0 {
				if err := e.Close(); err != nil {
					cs.Fail("Close: %v", err)
				}
				closed = true
				e2, err := engine.Open(vexec.Options(dir))
				if err != nil {
					cs.Fail("reopen: %v", err)
				}
				e, closed = e2, false
				if msg := c04cFull(e, ix, cosine, owners, "after a restart"); msg != "" {
					cs.Fail("%s", msg)
				}
				ctx.Count("owned.restarts", 1)
			}
			nLive := 0
			for _, o := range owners {
				nLive += len(o.recs)
			}
			ctx.Eval(1)
			ctx.Distinct(fmt.Sprintf("owned/%s/M%d/efC%d/%s/d%d/w%d/pre%d/admin%v/p%d/live%d", metric, m, efc, strings.TrimSpace(lang), dim, nW, prefill, admin, procs, nLive/8))
			ctx.Sample("owned", 2, map[string]any{"workers": nW, "ops_per_worker": per, "live": nLive, "efC": efc, "prefill": prefill, "admin": admin})
		})
	})
}

package engine_test

import (
	"fmt"
	"math"
	"strings"
	"testing"
	"time"

	"github.com/sanonone/kektordb/internal/zzverif/vexec"
	"github.com/sanonone/kektordb/internal/zzverif/vkit"
	"github.com/sanonone/kektordb/pkg/core/distance"
	"github.com/sanonone/kektordb/pkg/core/hnsw"
	"github.com/sanonone/kektordb/pkg/engine"
)

// C15 (part twin) — "the reported score is similarity times decay, and results are ordered by
// it", for vector and hybrid searches (a text-only search, all-zero query vector, reports the raw text score and is not judged: no similarity is involved), with k above and below the number
// of memories. The undecayed score comes from a twin index that holds the same documents but
// is not a memory; the decay factor of an id comes from the scored search of the memory index
// when the id is its only result. score(memory index) = score(twin) x decay(id) must hold for
// every id that both searches return, however the id entered the result (through the vector
// side, through the text side, or both). No decay formula is re-implemented here.
func TestVerifC15Twin(t *testing.T) {
	vkit.Run(t, "C15", func(ctx *vkit.Ctx) {
		ctx.Group("twin", ctx.N(160, 3200), func(cs *vkit.Case) {
			r := cs.R
			dir := cs.SubDir("data")
			e, err := engine.Open(vexec.Options(dir))
			if err != nil {
				cs.Fail("open: %v", err)
			}
			defer e.Close()
			models := []hnsw.DecayModel{hnsw.DecayExponential, hnsw.DecayLinear, hnsw.DecayStep, hnsw.DecayEbbinghaus}
			def := vkit.Pick(r, models)
			half := time.Duration(vkit.Pick(r, []int{1, 6, 48})) * time.Hour
			mem := hnsw.MemoryConfig{Enabled: true, DecayModel: def, DecayHalfLife: hnsw.Duration(half)}
			metric := vkit.Pick(r, []distance.DistanceMetric{distance.Euclidean, distance.Cosine})
			if err := e.VCreate("m", metric, 16, 200, distance.Float32, "english", nil, nil, &mem); err != nil {
				cs.Fail("VCreate m: %v", err)
			}
			if err := e.VCreate("t", metric, 16, 200, distance.Float32, "english", nil, nil, nil); err != nil {
				cs.Fail("VCreate t: %v", err)
			}
			words := []string{"cat", "dog", "running", "happy", "quick", "brown", "foxes", "jumped"}
			n := r.Range(5, 20)
			now := time.Now().Unix()
			var ids []string
			vecs := map[string][]float32{}
			for i := 0; i < n; i++ {
				id := fmt.Sprintf("m%d", i)
				ids = append(ids, id)
				v := []float32{r.F32() + 1.5, r.F32() + 1.5, r.F32() + 1.5, r.F32() + 1.5}
				vecs[id] = v
				var sb []string
				for k, c := 0, r.Range(1, 5); k < c; k++ {
					sb = append(sb, vkit.Pick(r, words))
				}
				frac := vkit.Pick(r, []float64{0.05, 0.2, 0.5, 0.8, 1.3, 2, 3})
				meta := map[string]any{"_created_at": float64(now - int64(frac*half.Seconds())), "content": strings.Join(sb, " ")}
				if r.Chance(0.3) {
					meta["_decay_model"] = string(vkit.Pick(r, models))
				}
				if r.Chance(0.3) {
					meta["_access_count"] = float64(r.Intn(12))
				}
				if r.Chance(0.1) {
					meta["_pinned"] = true
				}
				cs.Op("VAdd(%s) %v %s", id, v, vkit.JSON(meta))
				for _, ix := range []string{"m", "t"} {
					mcopy := map[string]any{}
					for k, x := range meta {
						mcopy[k] = x
					}
					if err := e.VAdd(ix, id, append([]float32{}, v...), mcopy); err != nil {
						cs.Fail("VAdd(%s,%s): %v", ix, id, err)
					}
				}
			}
			decay := map[string]float64{}
			for _, id := range ids {
				res, err := e.VSearchWithScores("m", vecs[id], 1)
				if err == nil && len(res) == 1 && res[0].ID == id && res[0].Breakdown != nil {
					decay[id] = res[0].Breakdown.DecayFactor
				}
			}
			for q := 0; q < 6; q++ {
				mode := vkit.Pick(r, []string{"vector", "hybrid", "hybrid"})
				qv := []float32{r.F32() + 1.5, r.F32() + 1.5, r.F32() + 1.5, r.F32() + 1.5}
				text, alpha := "", 1.0
				switch mode {
				case "hybrid":
					text, alpha = vkit.Pick(r, words), vkit.Pick(r, []float64{0.3, 0.5, 0.8})
				}
				k := n + 2
				if r.Chance(0.5) && n > 3 {
					k = r.Range(1, n-2) // fewer results than memories: some enter through the text side only
				}
				cs.Op("VSearchGraph(m and t, q=%v, k=%d, text=%q, alpha=%v) [%s]", qv, k, text, alpha, mode)
				rm, err := e.VSearchGraph("m", qv, k, "", text, 200, alpha, nil, false, nil)
				if err != nil {
					cs.Fail("search on the memory index: %v", err)
				}
				rt, err := e.VSearchGraph("t", qv, k, "", text, 200, alpha, nil, false, nil)
				if err != nil {
					cs.Fail("search on the twin index: %v", err)
				}
				plain := map[string]float64{}
				for _, x := range rt {
					plain[x.ID] = x.Score
				}
				prev := math.Inf(1)
				for i, x := range rm {
					if !(x.Score <= prev+1e-12) {
						cs.Fail("%s search on the memory index: result %d (%s) has score %v after %v", mode, i, x.ID, x.Score, prev)
					}
					prev = x.Score
					f, okF := decay[x.ID]
					p, okP := plain[x.ID]
					if !okF || !okP {
						continue
					}
					want := p * f
					if math.Abs(x.Score-want) > 0.01*math.Max(want, x.Score)+1e-7 {
						d, _ := e.VGet("m", x.ID)
						cs.Fail("%s search (k=%d of %d memories, text=%q, alpha=%v): the score of %s is %.9g on the memory index; the same search on a twin index without decay scores it %.9g and its decay factor (scored search, alone) is %.9g, so similarity x decay = %.9g; metadata %s, index model %s, half-life %v", mode, k, n, text, alpha, x.ID, x.Score, p, f, want, vkit.JSON(d.Metadata), def, half)
					}
					ctx.Count("twin.scores_compared."+mode, 1)
					if k < n {
						ctx.Count("twin.scores_compared_k_below_n", 1)
					}
				}
				ctx.Eval(1)
			}
			ctx.Distinct(fmt.Sprintf("twin/%s/%v/%s/n%d/%d", def, half, metric, n, len(decay)))
		})
	})
}
